import XtModel.Model.Output

/-!
Specification-side definitions and helper lemmas for `Model/Output.lean`.
-/
namespace Xt.Output

variable {D E V : Type}

/-- The source side of a list of inputs, flattened: documents and source failures in order. -/
inductive Item (D E : Type) where
  | doc (d : D)
  | fail (e : E)

def itemsOf (i : Input D E) : List (Item D E) :=
  i.docs.map .doc ++ (match i.fail with | none => [] | some e => [.fail e])

def flat (inputs : List (Input D E)) : List (Item D E) := inputs.flatMap itemsOf

/-- The documents a run gets to: every document up to and including the first
one whose translation fails, and none after a source failure. -/
def processed (env : Env D E V) (t : Target) : List (Item D E) → List D
  | [] => []
  | .fail _ :: _ => []
  | .doc d :: rest =>
    match (env.body t d).2 with
    | none => d :: processed env t rest
    | some _ => [d]

/-- The first failure of a run. -/
def firstError (env : Env D E V) (t : Target) : List (Item D E) → Except (Err E) Unit
  | [] => .ok ()
  | .fail e :: _ => .error (.other e)
  | .doc d :: rest =>
    match (env.body t d).2 with
    | none => firstError env t rest
    | some e => .error (.other e)

/-- What a streaming output writes for one document. -/
def frame (env : Env D E V) (t : Target) (d : D) : Bytes :=
  match t with
  | .json =>
    match env.body .json d with
    | (bs, none) => bs ++ [0x0A]
    | (bs, some _) => bs
  | .yaml => yamlMarker ++ (env.body .yaml d).1
  | .msgpack => (env.body .msgpack d).1
  | .toml => []

def verdict (env : Env D E V) (t : Target) (d : D) : Except (Err E) Unit :=
  match (env.body t d).2 with
  | none => .ok ()
  | some e => .error (.other e)

theorem emitDoc_stream (env : Env D E V) (t : Target) (ht : t ≠ .toml) (o : Out D) (d : D) :
    emitDoc env t o d = ({ o with sink := o.sink ++ frame env t d }, verdict env t d) := by
  cases t with
  | toml => exact absurd rfl ht
  | json =>
    simp only [emitDoc, frame, verdict]
    cases h : env.body .json d with
    | mk bs e => cases e <;> simp
  | yaml =>
    simp only [emitDoc, frame, verdict]
    cases h : env.body .yaml d with
    | mk bs e => cases e <;> simp
  | msgpack =>
    simp only [emitDoc, frame, verdict]
    cases h : env.body .msgpack d with
    | mk bs e => cases e <;> simp

theorem single_eq_frame (env : Env D E V) (t : Target) (ht : t ≠ .toml) (d : D) :
    single env t d = frame env t d := by
  unfold single call
  simp only [feedDocs, emitDoc_stream env t ht]
  unfold verdict
  cases (env.body t d).2 <;> simp [Out.empty]

theorem feedDocs_stream (env : Env D E V) (t : Target) (ht : t ≠ .toml) :
    ∀ (ds : List D) (o : Out D),
      feedDocs env t o ds =
        ({ o with sink := o.sink ++ (processed env t (ds.map .doc)).flatMap (frame env t) },
         firstError env t (ds.map .doc)) := by
  intro ds
  induction ds with
  | nil => intro o; simp [feedDocs, processed, firstError]
  | cons d ds ih =>
    intro o
    simp only [feedDocs, emitDoc_stream env t ht, List.map_cons, processed, firstError, verdict]
    cases h : (env.body t d).2 with
    | none => simp [ih, List.append_assoc]
    | some e => simp

theorem processed_append_docs (env : Env D E V) (t : Target) (ds : List D) (rest : List (Item D E)) :
    processed env t (ds.map .doc ++ rest) =
      match firstError env t (ds.map .doc) with
      | .ok () => processed env t (ds.map .doc) ++ processed env t rest
      | .error _ => processed env t (ds.map .doc) := by
  induction ds with
  | nil => simp [processed, firstError]
  | cons d ds ih =>
    simp only [List.map_cons, List.cons_append, processed, firstError]
    cases h : (env.body t d).2 with
    | none =>
      simp only [ih]
      cases firstError env t (ds.map .doc) <;> simp
    | some e => simp

theorem firstError_append_docs (env : Env D E V) (t : Target) (ds : List D) (rest : List (Item D E)) :
    firstError env t (ds.map .doc ++ rest) =
      match firstError env t (ds.map .doc) with
      | .ok () => firstError env t rest
      | .error e => .error e := by
  induction ds with
  | nil => simp [firstError]
  | cons d ds ih =>
    simp only [List.map_cons, List.cons_append, firstError]
    cases h : (env.body t d).2 with
    | none => simp only [ih]
    | some e => simp

/-- One call on a streaming target. -/
theorem call_stream (env : Env D E V) (t : Target) (ht : t ≠ .toml) (o : Out D) (i : Input D E) :
    call env t o i =
      ({ o with sink := o.sink ++ (processed env t (itemsOf i)).flatMap (frame env t) },
       firstError env t (itemsOf i)) := by
  unfold call itemsOf
  rw [feedDocs_stream env t ht, processed_append_docs, firstError_append_docs]
  cases h : firstError env t (i.docs.map .doc) with
  | error e => simp
  | ok u =>
    cases hf : i.fail with
    | none => simp [processed, firstError]
    | some e => simp [processed, firstError]

theorem processed_append (env : Env D E V) (t : Target) (a b : List (Item D E)) :
    processed env t (a ++ b) =
      match firstError env t a with
      | .ok () => processed env t a ++ processed env t b
      | .error _ => processed env t a := by
  induction a with
  | nil => simp [processed, firstError]
  | cons x a ih =>
    cases x with
    | fail e => simp [processed, firstError]
    | doc d =>
      simp only [List.cons_append, processed, firstError]
      cases h : (env.body t d).2 with
      | none =>
        simp only [ih]
        cases firstError env t a <;> simp
      | some e => simp

theorem firstError_append (env : Env D E V) (t : Target) (a b : List (Item D E)) :
    firstError env t (a ++ b) =
      match firstError env t a with
      | .ok () => firstError env t b
      | .error e => .error e := by
  induction a with
  | nil => simp [firstError]
  | cons x a ih =>
    cases x with
    | fail e => simp [firstError]
    | doc d =>
      simp only [List.cons_append, firstError]
      cases h : (env.body t d).2 with
      | none => simp only [ih]
      | some e => simp

theorem session_stream (env : Env D E V) (t : Target) (ht : t ≠ .toml) :
    ∀ (inputs : List (Input D E)) (o : Out D),
      session env t o inputs =
        ({ o with sink := o.sink ++ (processed env t (flat inputs)).flatMap (frame env t) },
         firstError env t (flat inputs)) := by
  intro inputs
  induction inputs with
  | nil => intro o; simp [session, flat, processed, firstError]
  | cons i is ih =>
    intro o
    simp only [session, call_stream env t ht]
    have hflat : flat (i :: is) = itemsOf i ++ flat is := by simp [flat]
    rw [hflat, processed_append, firstError_append]
    cases h : firstError env t (itemsOf i) with
    | error e => simp
    | ok u => simp [ih, List.append_assoc]

theorem calls_stream (env : Env D E V) (t : Target) (ht : t ≠ .toml) :
    ∀ (inputs : List (Input D E)) (o : Out D),
      calls env t o inputs =
        ({ o with sink := o.sink ++ inputs.flatMap (fun i => (processed env t (itemsOf i)).flatMap (frame env t)) },
         inputs.map (fun i => firstError env t (itemsOf i))) := by
  intro inputs
  induction inputs with
  | nil => intro o; simp [calls]
  | cons i is ih =>
    intro o
    simp only [calls, call_stream env t ht, ih]
    simp [List.append_assoc]

/-- The line reader undoes the JSON framing of a body that has no newline in it. -/
theorem splitLines_frame (body rest : Bytes) (h : ∀ b ∈ body, b ≠ 0x0A) :
    splitLines (body ++ [0x0A] ++ rest) = (body :: (splitLines rest).1, (splitLines rest).2) := by
  induction body with
  | nil => simp [splitLines]
  | cons b body ih =>
    have hb : b ≠ 0x0A := h b (by simp)
    have ih' := ih (fun x hx => h x (by simp [hx]))
    simp only [List.cons_append, List.append_assoc] at ih' ⊢
    simp only [splitLines, ih', hb, if_false]

end Xt.Output

/-! ## TOML output -/
namespace Xt.Output

variable {D E V : Type}

/-- The bytes the TOML output writes for a document it accepts: the builder
takes it, the root is a table, and the pretty printer succeeds. -/
def accepted (env : Env D E V) (d : D) : Option Bytes :=
  match env.build d with
  | .error _ => none
  | .ok v =>
    if env.isTable v then
      match env.pretty v with
      | .ok bs => some bs
      | .error _ => none
    else none

def optList {α : Type} : Option α → List α
  | none => []
  | some a => [a]

theorem emitDoc_toml_used (env : Env D E V) (o : Out D) (d : D) (h : o.used = true) :
    emitDoc env .toml o d = (o, .error .multiDocument) := by
  simp [emitDoc, h]

theorem emitDoc_toml_unused (env : Env D E V) (o : Out D) (d : D) (h : o.used = false) :
    (emitDoc env .toml o d).1 =
      { sink := o.sink ++ (optList (accepted env d)).flatten,
        pieces := o.pieces ++ optList (accepted env d),
        used := true, built := o.built ++ [d] } ∧
    ((emitDoc env .toml o d).2 = .ok () ↔ (accepted env d).isSome = true) := by
  simp only [emitDoc, h, accepted]
  cases hb : env.build d with
  | error e => simp [optList]
  | ok v =>
    by_cases ht : env.isTable v = true
    · cases hp : env.pretty v with
      | error e => simp [ht, hp, optList]
      | ok bs => simp [ht, hp, optList]
    · simp [ht, optList]

theorem feedDocs_toml_used (env : Env D E V) : ∀ (ds : List D) (o : Out D), o.used = true →
    (feedDocs env .toml o ds).1 = o ∧
    (ds ≠ [] → (feedDocs env .toml o ds).2 = .error .multiDocument) := by
  intro ds
  cases ds with
  | nil => intro o _; simp [feedDocs]
  | cons d ds => intro o h; simp [feedDocs, emitDoc_toml_used env o d h]

theorem call_toml_used (env : Env D E V) (o : Out D) (i : Input D E) (h : o.used = true) :
    (call env .toml o i).1 = o ∧
    (i.docs ≠ [] → (call env .toml o i).2 = .error .multiDocument) := by
  obtain ⟨f1, f2⟩ := feedDocs_toml_used env i.docs o h
  unfold call
  cases hf : feedDocs env .toml o i.docs with
  | mk o' r =>
    rw [hf] at f1 f2
    simp only at f1 f2
    subst f1
    cases r with
    | error e => exact ⟨rfl, fun hne => by simpa using f2 hne⟩
    | ok u =>
      refine ⟨by cases i.fail <;> rfl, fun hne => ?_⟩
      have := f2 hne
      simp at this

theorem calls_toml_used (env : Env D E V) : ∀ (inputs : List (Input D E)) (o : Out D), o.used = true →
    (calls env .toml o inputs).1 = o := by
  intro inputs
  induction inputs with
  | nil => intro o _; rfl
  | cons i is ih =>
    intro o h
    have hc := (call_toml_used env o i h).1
    simp only [calls]
    cases hcall : call env .toml o i with
    | mk o' r =>
      rw [hcall] at hc
      simp only at hc
      subst hc
      simp only
      exact ih _ h

/-- A call whose input has a first document, on an unused output: afterwards
the state is what the first document alone made it. -/
theorem call_toml_first (env : Env D E V) (o : Out D) (d : D) (ds : List D) (f : Option E)
    (h : o.used = false) :
    (call env .toml o ⟨d :: ds, f⟩).1 = (emitDoc env .toml o d).1 := by
  unfold call
  simp only [feedDocs]
  have hu : (emitDoc env .toml o d).1.used = true := by
    rw [(emitDoc_toml_unused env o d h).1]
  cases he : emitDoc env .toml o d with
  | mk o1 r =>
    rw [he] at hu
    cases r with
    | error e => rfl
    | ok u =>
      simp only
      have := (feedDocs_toml_used env ds o1 hu).1
      cases hf : feedDocs env .toml o1 ds with
      | mk o2 r2 =>
        rw [hf] at this
        simp only at this
        subst this
        cases r2 with
        | error e => rfl
        | ok u => cases f <;> rfl

theorem calls_toml_unused (env : Env D E V) : ∀ (inputs : List (Input D E)) (o : Out D), o.used = false →
    (calls env .toml o inputs).1 =
      match (inputs.flatMap (·.docs)).head? with
      | none => o
      | some d => (emitDoc env .toml o d).1 := by
  intro inputs
  induction inputs with
  | nil => intro o _; rfl
  | cons i is ih =>
    intro o h
    obtain ⟨docs, f⟩ := i
    cases docs with
    | nil =>
      have hc : call env .toml o ⟨[], f⟩ = (o, match f with | none => .ok () | some e => .error (.other e)) := by
        cases f <;> simp [call, feedDocs]
      simp only [calls, hc, List.flatMap_cons, List.nil_append]
      exact ih o h
    | cons d ds =>
      have hc := call_toml_first env o d ds f h
      have hu : (emitDoc env .toml o d).1.used = true := by
        rw [(emitDoc_toml_unused env o d h).1]
      simp only [calls, List.flatMap_cons, List.cons_append, List.head?_cons]
      cases hcall : call env .toml o ⟨d :: ds, f⟩ with
      | mk o' r =>
        rw [hcall] at hc
        simp only at hc
        subst hc
        simp only
        exact calls_toml_used env is _ hu

end Xt.Output
