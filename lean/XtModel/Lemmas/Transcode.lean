import XtModel.Model.Transcode
import XtModel.Model.ValuePath

/-!
Lemmas about the transcoder model.

Two layers:

1. `sem` — the direct-style semantics of a `De` tree against a serializer
   (no cells: run the ops in order, stop at the first failure, decorate on the
   way out), and `rel_deserializeAny`: the cell-juggling interpreter
   `deserializeAny` started on a fresh visitor *refines* `sem` (`Rel`): same
   ops, same serializer state, and the cells say exactly what `sem` says
   (`source = ser ∧ error = some se` for a serializer failure, `source = de`
   for a deserializer failure).  No panic outcome is reachable.
2. `trace` — the serializer-independent list of events of a tree in execution
   order: every op the transcoder will issue, each with the deserializer error
   that would be returned as context if that op failed, up to the tree's first
   own failure.  `sem_eq_run`: `sem` is "feed the trace to the serializer".
-/
namespace Xt.Transcode
open Xt.Serde

/-- Outcome of a (sub)computation in direct style. -/
inductive Sum where
  | ok
  /-- the deserializer failed first, with this (decorated) error -/
  | de (e : DErr)
  /-- the serializer failed first with `se`; `ctx` is the deserializer error
  that unwinds the deserializer -/
  | ser (se : SErr) (ctx : DErr)
  deriving Repr

abbrev SemOut (σ : Type) := Sum × σ × List Op
abbrev Sem (σ : Type) := σ → SemOut σ

section
variable {σ : Type} (step : σ → Op → Except SErr σ) (dec : DErr → DErr)

/-- Issue one op. -/
def opS (o : Op) : Sem σ := fun s =>
  match step s o with
  | .ok s' => (.ok, s', [o])
  | .error se => (.ser se (.custom translationFailed), s, [o])

def failS (e : DErr) : Sem σ := fun s => (.de e, s, [])

def skipS : Sem σ := fun s => (.ok, s, [])

/-- `a` then, if it succeeded, `b`. -/
def thenS (a b : Sem σ) : Sem σ := fun s =>
  match a s with
  | (.ok, s', ops) =>
    match b s' with
    | (r, s'', ops') => (r, s'', ops ++ ops')
  | (.de e, s', ops) => (.de e, s', ops)
  | (.ser se c, s', ops) => (.ser se c, s', ops)

/-- Errors leaving a `deserialize_any` frame are decorated. -/
def decS (a : Sem σ) : Sem σ := fun s =>
  match a s with
  | (.ok, s', ops) => (.ok, s', ops)
  | (.de e, s', ops) => (.de (dec e), s', ops)
  | (.ser se c, s', ops) => (.ser se (dec c), s', ops)

def closeS : Option Nat → Sem σ
  | none => skipS
  | some e => failS (.own e)

mutual
/-- Direct-style semantics of `de.deserialize_any(visitor)` for a fresh visitor. -/
def sem : De → Sem σ
  | .scalar sc => decS dec (opS step (.scalar sc))
  | .fail e => failS (.own e)
  | .afail e => failS (.own e)
  | .seq elems close =>
    thenS (decS dec (thenS (opS step .seqBegin) (thenS (semList elems) (opS step .seqEnd))))
      (closeS close)
  | .map entries close =>
    thenS (decS dec (thenS (opS step .mapBegin) (thenS (semEntries entries) (opS step .mapEnd))))
      (closeS close)
def semList : List De → Sem σ
  | [] => skipS
  | e :: rest =>
    match e.accessFail with
    | some tok => failS (.own tok)
    | none => thenS (thenS (opS step .elemPre) (thenS (sem e) (opS step .elemPost))) (semList rest)
def semEntries : List (De × De) → Sem σ
  | [] => skipS
  | (k, v) :: rest =>
    match k.accessFail with
    | some tok => failS (.own tok)
    | none =>
      thenS (thenS (opS step .keyPre) (thenS (sem k) (opS step .keyPost)))
        (match v.accessFail with
         | some tok => failS (.own tok)
         | none =>
           thenS (thenS (opS step .valPre) (thenS (sem v) (opS step .valPost))) (semEntries rest))
end

/-- The interpreter's output `out` (for a call that was handed a fresh visitor
or seed) agrees with the direct-style outcome `sp`. -/
def Rel (out : VOut σ) (sp : SemOut σ) : Prop :=
  out.2.2 = sp.2 ∧
  match sp.1 with
  | .ok => out.1 = .ok ∧ out.2.1.source = .de
  | .de e => out.1 = .err e ∧ out.2.1.source = .de
  | .ser se c => out.1 = .err c ∧ out.2.1.source = .ser ∧ out.2.1.error = some se

/-- The same for the element loops. -/
def LoopRel (out : LoopOut σ) (sp : SemOut σ) : Prop :=
  out.2 = sp.2 ∧
  match sp.1 with
  | .ok => out.1 = .done
  | .de e =>
    match out.1 with
    | .failed e' seed => e' = e ∧ seed.source = .de
    | _ => False
  | .ser se c =>
    match out.1 with
    | .failed e' seed => e' = c ∧ seed.source = .ser ∧ seed.error = some se
    | _ => False

/-! ## The interpreter refines the direct-style semantics -/

theorem rel_forwardScalar (o : Op) (s : σ) :
    Rel (forwardScalar step o .new s) (opS step o s) := by
  unfold forwardScalar opS Rel
  simp only [Cells.new, Cells.takeParent]
  cases step s o <;> simp [Cells.captureError]

theorem rel_afterVisit (close : Option Nat) (out : VOut σ) (a : Sem σ) (s : σ)
    (h : Rel out (a s)) :
    Rel (afterVisit dec close out) (thenS (decS dec a) (closeS close) s) := by
  obtain ⟨r, c, s', ops⟩ := out
  unfold Rel at h
  unfold thenS decS
  rcases ha : a s with ⟨sr, s2, ops2⟩
  rw [ha] at h
  cases sr <;> cases close <;> simp_all [afterVisit, Rel, closeS, skipS, failS]

theorem rel_visitColl (b e : Op) (loop : σ → LoopOut σ) (k : Sem σ)
    (hk : ∀ s, LoopRel (loop s) (k s)) (s : σ) :
    Rel (visitColl step b e loop .new s) (thenS (opS step b) (thenS k (opS step e)) s) := by
  unfold visitColl thenS opS
  simp only [Cells.new, Cells.takeParent]
  cases hb : step s b with
  | error se => simp [Rel, Cells.captureError]
  | ok s1 =>
    simp only [ite_true]
    have h1 := hk s1
    unfold LoopRel at h1
    rcases hl : loop s1 with ⟨lr, s2, ops⟩
    rcases hks : k s1 with ⟨sr, s2', ops'⟩
    rw [hl, hks] at h1
    cases sr with
    | ok =>
      obtain ⟨⟨rfl, rfl⟩, rfl⟩ := h1
      cases he : step s2 e <;> simp [Rel, Cells.captureError, he]
    | de err =>
      cases lr <;> simp_all [Rel, Cells.captureChildError]
    | ser se c =>
      cases lr <;> simp_all [Rel, Cells.captureChildError]

theorem rel_sws (pre post : Op) (deAny : Cells SErr → σ → VOut σ) (k : Sem σ)
    (hk : ∀ s, Rel (deAny .new s) (k s)) (s : σ) :
    Rel (serializeWithSeed step pre post deAny .new s)
      (thenS (opS step pre) (thenS k (opS step post)) s) := by
  unfold serializeWithSeed collSerialize forwarderSerialize thenS opS
  simp only [Cells.new, Cells.takeParent]
  cases hb : step s pre with
  | error se => simp [Rel, Cells.captureError]
  | ok s1 =>
    simp only [ite_true]
    have h1 := hk s1
    unfold Rel at h1
    simp only [Cells.new] at h1
    rcases hl : deAny ⟨true, none, .de⟩ s1 with ⟨r, vis, s2, ops⟩
    rcases hks : k s1 with ⟨sr, s2', ops'⟩
    rw [hl, hks] at h1
    cases sr with
    | ok =>
      obtain ⟨⟨rfl, rfl⟩, rfl, _⟩ := h1
      cases he : step s2 post <;> simp [Rel, Cells.captureError, he]
    | de err =>
      obtain ⟨⟨rfl, rfl⟩, rfl, hsrc⟩ := h1
      cases hve : vis.error <;> simp_all [Rel, Cells.captureError]
    | ser se c =>
      obtain ⟨⟨rfl, rfl⟩, rfl, hsrc, herr⟩ := h1
      simp_all [Rel, Cells.captureError]

/-- What the element loops do with the result of one seed. -/
def loopThen (out : VOut σ) (rest : σ → LoopOut σ) : LoopOut σ :=
  match out with
  | (.err deErr, seed, s', ops) => (.failed deErr seed, s', ops)
  | (.panic p, _, s', ops) => (.panicked p, s', ops)
  | (.ok, _, s', ops) =>
    match rest s' with
    | (r, s'', ops') => (r, s'', ops ++ ops')

theorem loopRel_then (out : VOut σ) (rest : σ → LoopOut σ) (a b : Sem σ) (s : σ)
    (h : Rel out (a s)) (hr : ∀ s', LoopRel (rest s') (b s')) :
    LoopRel (loopThen out rest) (thenS a b s) := by
  obtain ⟨r, c, s', ops⟩ := out
  unfold Rel at h
  unfold thenS loopThen
  rcases ha : a s with ⟨sr, s2, ops2⟩
  rw [ha] at h
  cases sr with
  | ok =>
    obtain ⟨⟨rfl, rfl⟩, rfl, _⟩ := h
    have h2 := hr s'
    unfold LoopRel at h2
    rcases hb : b s' with ⟨sr', s3, ops3⟩
    rcases hrest : rest s' with ⟨lr, s3', ops3'⟩
    rw [hb, hrest] at h2
    cases sr' <;> simp_all [LoopRel]
  | de e => simp_all [LoopRel]
  | ser se c => simp_all [LoopRel]

theorem seqLoop_cons (sws : Sws σ) (e : De) (rest : List De) (s : σ) :
    seqLoop step dec sws (e :: rest) s =
      match e.accessFail with
      | some tok => (.failed (.own tok) .new, s, [])
      | none => loopThen (sws .elemPre .elemPost (fun vis s => deserializeAny step dec sws e vis s) .new s)
          (seqLoop step dec sws rest) := by
  rw [seqLoop]
  cases e.accessFail with
  | some tok => rfl
  | none =>
    simp only [loopThen]
    split <;> simp_all

theorem mapLoop_cons (sws : Sws σ) (k v : De) (rest : List (De × De)) (s : σ) :
    mapLoop step dec sws ((k, v) :: rest) s =
      match k.accessFail with
      | some tok => (.failed (.own tok) .new, s, [])
      | none => loopThen (sws .keyPre .keyPost (fun vis s => deserializeAny step dec sws k vis s) .new s)
          fun s1 =>
            match v.accessFail with
            | some tok => (.failed (.own tok) .new, s1, [])
            | none =>
              loopThen (sws .valPre .valPost (fun vis s => deserializeAny step dec sws v vis s) .new s1)
                (mapLoop step dec sws rest) := by
  rw [mapLoop]
  cases k.accessFail with
  | some tok => rfl
  | none =>
    simp only [loopThen]
    rcases hk : sws .keyPre .keyPost (fun vis s => deserializeAny step dec sws k vis s) Cells.new s
      with ⟨r, c, s1, ops1⟩
    cases r with
    | err e => rfl
    | panic p => rfl
    | ok =>
      simp only
      cases v.accessFail with
      | some tok => simp
      | none =>
        simp only
        rcases hv : sws .valPre .valPost (fun vis s => deserializeAny step dec sws v vis s) Cells.new s1
          with ⟨r2, c2, s2, ops2⟩
        cases r2 with
        | err e => rfl
        | panic p => rfl
        | ok =>
          simp only
          rcases hm : mapLoop step dec sws rest s2 with ⟨r3, s3, ops3⟩
          simp [List.append_assoc]

theorem thenS_skip (a : Sem σ) (s : σ) : thenS a skipS s = a s := by
  unfold thenS skipS
  rcases ha : a s with ⟨r, s', ops⟩
  cases r <;> simp

mutual
theorem rel_deserializeAny : (d : De) → (s : σ) →
    Rel (deserializeAny step dec (serializeWithSeed step) d .new s) (sem step dec d s)
  | .scalar sc, s => by
    rw [deserializeAny, sem]
    have h := rel_afterVisit dec none _ (opS step (.scalar sc)) s (rel_forwardScalar step _ s)
    rw [closeS, thenS_skip] at h
    exact h
  | .fail e, s => by simp [deserializeAny, sem, Rel, failS, Cells.new]
  | .afail e, s => by simp [deserializeAny, sem, Rel, failS, Cells.new]
  | .seq elems close, s => by
    rw [deserializeAny, sem]
    exact rel_afterVisit dec close _ _ s
      (rel_visitColl step _ _ _ _ (fun s => rel_seqLoop elems s) s)
  | .map entries close, s => by
    rw [deserializeAny, sem]
    exact rel_afterVisit dec close _ _ s
      (rel_visitColl step _ _ _ _ (fun s => rel_mapLoop entries s) s)
theorem rel_seqLoop : (elems : List De) → (s : σ) →
    LoopRel (seqLoop step dec (serializeWithSeed step) elems s) (semList step dec elems s)
  | [], s => by simp [seqLoop, semList, LoopRel, skipS]
  | e :: rest, s => by
    rw [seqLoop_cons, semList]
    cases e.accessFail with
    | some tok => simp [LoopRel, failS, Cells.new]
    | none =>
      exact loopRel_then _ _ _ _ s
        (rel_sws step _ _ _ _ (fun s => rel_deserializeAny e s) s) (fun s' => rel_seqLoop rest s')
theorem rel_mapLoop : (entries : List (De × De)) → (s : σ) →
    LoopRel (mapLoop step dec (serializeWithSeed step) entries s) (semEntries step dec entries s)
  | [], s => by simp [mapLoop, semEntries, LoopRel, skipS]
  | (k, v) :: rest, s => by
    rw [mapLoop_cons, semEntries]
    cases k.accessFail with
    | some tok => simp [LoopRel, failS, Cells.new]
    | none =>
      refine loopRel_then _ _ _ _ s
        (rel_sws step _ _ _ _ (fun s => rel_deserializeAny k s) s) (fun s1 => ?_)
      cases v.accessFail with
      | some tok => simp [LoopRel, failS, Cells.new]
      | none =>
        exact loopRel_then _ _ _ _ s1
          (rel_sws step _ _ _ _ (fun s => rel_deserializeAny v s) s1) (fun s' => rel_mapLoop rest s')
end

end

/-! ## Traces -/

/-- Events of a tree in execution order, independent of the serializer: the ops
the transcoder issues — each with the deserializer error that is returned as
context if the serializer fails that op — up to the deserializer's first own
failure (`some e`, decorated as it will surface), if there is one. -/
abbrev Tr := List (Op × DErr) × Option DErr

def opT (o : Op) : Tr := ([(o, .custom translationFailed)], none)
def failT (e : DErr) : Tr := ([], some e)
def skipT : Tr := ([], none)
def thenT (a b : Tr) : Tr :=
  match a.2 with
  | some _ => a
  | none => (a.1 ++ b.1, b.2)
def decT (dec : DErr → DErr) (a : Tr) : Tr := (a.1.map fun p => (p.1, dec p.2), a.2.map dec)
def closeT : Option Nat → Tr
  | none => skipT
  | some e => failT (.own e)

section
variable (dec : DErr → DErr)
mutual
def trace : De → Tr
  | .scalar sc => decT dec (opT (.scalar sc))
  | .fail e => failT (.own e)
  | .afail e => failT (.own e)
  | .seq elems close =>
    thenT (decT dec (thenT (opT .seqBegin) (thenT (traceList elems) (opT .seqEnd)))) (closeT close)
  | .map entries close =>
    thenT (decT dec (thenT (opT .mapBegin) (thenT (traceEntries entries) (opT .mapEnd)))) (closeT close)
def traceList : List De → Tr
  | [] => skipT
  | e :: rest =>
    match e.accessFail with
    | some tok => failT (.own tok)
    | none => thenT (thenT (opT .elemPre) (thenT (trace e) (opT .elemPost))) (traceList rest)
def traceEntries : List (De × De) → Tr
  | [] => skipT
  | (k, v) :: rest =>
    match k.accessFail with
    | some tok => failT (.own tok)
    | none =>
      thenT (thenT (opT .keyPre) (thenT (trace k) (opT .keyPost)))
        (match v.accessFail with
         | some tok => failT (.own tok)
         | none => thenT (thenT (opT .valPre) (thenT (trace v) (opT .valPost))) (traceEntries rest))
end
end

section
variable {σ : Type} (step : σ → Op → Except SErr σ) (dec : DErr → DErr)

/-- Feed ops to the serializer until one fails. -/
def feed : List (Op × DErr) → σ → Option (SErr × DErr) × σ × List Op
  | [], s => (none, s, [])
  | (o, c) :: rest, s =>
    match step s o with
    | .error se => (some (se, c), s, [o])
    | .ok s' =>
      match feed rest s' with
      | (r, s'', ops) => (r, s'', o :: ops)

/-- Run a trace against a serializer: the first failure in execution order wins. -/
def run (tr : Tr) : Sem σ := fun s =>
  match feed step tr.1 s with
  | (some (se, c), s', ops) => (.ser se c, s', ops)
  | (none, s', ops) =>
    match tr.2 with
    | some e => (.de e, s', ops)
    | none => (.ok, s', ops)

theorem feed_append (a b : List (Op × DErr)) (s : σ) :
    feed step (a ++ b) s =
      match feed step a s with
      | (some f, s', ops) => (some f, s', ops)
      | (none, s', ops) =>
        match feed step b s' with
        | (r, s'', ops') => (r, s'', ops ++ ops') := by
  induction a generalizing s with
  | nil => simp [feed]
  | cons p a ih =>
    obtain ⟨o, c⟩ := p
    simp only [List.cons_append, feed]
    cases step s o with
    | error se => rfl
    | ok s1 =>
      simp only [ih]
      rcases feed step a s1 with ⟨r, s2, ops⟩
      cases r <;> simp

theorem feed_map (f : DErr → DErr) (a : List (Op × DErr)) (s : σ) :
    feed step (a.map fun p => (p.1, f p.2)) s =
      match feed step a s with
      | (r, s', ops) => (r.map fun q => (q.1, f q.2), s', ops) := by
  induction a generalizing s with
  | nil => simp [feed]
  | cons p a ih =>
    obtain ⟨o, c⟩ := p
    simp only [List.map_cons, feed]
    cases step s o with
    | error se => rfl
    | ok s1 =>
      simp only [ih]

theorem run_opT (o : Op) : run step (opT o) = opS step o := by
  funext s
  simp only [run, opT, feed, opS]
  cases step s o <;> rfl

theorem run_failT (e : DErr) : run step (failT e) = (failS e : Sem σ) := by
  funext s; rfl

theorem run_skipT : run step skipT = (skipS : Sem σ) := by
  funext s; rfl

theorem run_thenT (a b : Tr) : run step (thenT a b) = thenS (run step a) (run step b) := by
  funext s
  obtain ⟨al, ae⟩ := a
  obtain ⟨bl, be⟩ := b
  cases ae with
  | some e =>
    simp only [thenT, run, thenS]
    rcases feed step al s with ⟨r, s', ops⟩
    rcases r with _ | ⟨se, c⟩ <;> rfl
  | none =>
    simp only [thenT, run, thenS, feed_append]
    rcases feed step al s with ⟨r, s', ops⟩
    rcases r with _ | ⟨se, c⟩
    · simp only
      rcases feed step bl s' with ⟨r2, s'', ops2⟩
      rcases r2 with _ | ⟨se, c⟩
      · cases be <;> rfl
      · rfl
    · rfl

theorem run_decT (a : Tr) : run step (decT dec a) = decS dec (run step a) := by
  funext s
  obtain ⟨al, ae⟩ := a
  simp only [decT, run, decS, feed_map]
  rcases feed step al s with ⟨r, s', ops⟩
  rcases r with _ | ⟨se, c⟩
  · cases ae <;> rfl
  · rfl

theorem run_closeT (c : Option Nat) : run step (closeT c) = (closeS c : Sem σ) := by
  cases c
  · exact run_skipT step
  · exact run_failT step _

mutual
theorem sem_eq_run : (d : De) → sem step dec d = run step (trace dec d)
  | .scalar sc => by rw [sem, trace, run_decT, run_opT]
  | .fail e => by rw [sem, trace, run_failT]
  | .afail e => by rw [sem, trace, run_failT]
  | .seq elems close => by
    rw [sem, trace, run_thenT, run_decT, run_thenT, run_thenT, run_opT, run_opT, run_closeT,
      semList_eq_run elems]
  | .map entries close => by
    rw [sem, trace, run_thenT, run_decT, run_thenT, run_thenT, run_opT, run_opT, run_closeT,
      semEntries_eq_run entries]
theorem semList_eq_run : (elems : List De) → semList step dec elems = run step (traceList dec elems)
  | [] => by rw [semList, traceList, run_skipT]
  | e :: rest => by
    rw [semList, traceList]
    cases e.accessFail with
    | some tok => simp only [run_failT]
    | none =>
      simp only [run_thenT, run_opT, sem_eq_run e, semList_eq_run rest]
theorem semEntries_eq_run : (entries : List (De × De)) →
    semEntries step dec entries = run step (traceEntries dec entries)
  | [] => by rw [semEntries, traceEntries, run_skipT]
  | (k, v) :: rest => by
    rw [semEntries, traceEntries]
    cases k.accessFail with
    | some tok => simp only [run_failT]
    | none =>
      cases v.accessFail with
      | some tok => simp only [run_thenT, run_opT, run_failT, sem_eq_run k]
      | none => simp only [run_thenT, run_opT, sem_eq_run k, sem_eq_run v, semEntries_eq_run rest]
end
end
/-! ## From the refinement to statements about `transcode` -/

def ofSum : Sum → Result
  | .ok => .ok
  | .de e => .errDe e
  | .ser se c => .errSer se c

section
variable {σ : Type} (step : σ → Op → Except SErr σ) (dec : DErr → DErr)

theorem transcode_eq_sem (d : De) (s : σ) :
    transcode step dec d s = (ofSum (sem step dec d s).1, (sem step dec d s).2.2) := by
  have h := rel_deserializeAny step dec d s
  unfold Rel at h
  unfold transcode transcodeWith
  rcases hd : deserializeAny step dec (serializeWithSeed step) d .new s with ⟨r, c, s', ops⟩
  rcases hs : sem step dec d s with ⟨sr, s2, ops2⟩
  rw [hd, hs] at h
  cases sr <;> simp_all [ofSum]

theorem transcode_eq_run (d : De) (s : σ) :
    transcode step dec d s =
      (ofSum (run step (trace dec d) s).1, (run step (trace dec d) s).2.2) := by
  rw [transcode_eq_sem, sem_eq_run]

/-- The serializer accepts all of `ops`, ending in state `s'`. -/
def accepts : σ → List Op → Option σ
  | s, [] => some s
  | s, o :: rest =>
    match step s o with
    | .ok s' => accepts s' rest
    | .error _ => none

def Tr.ops (t : Tr) : List Op := t.1.map Prod.fst

theorem feed_accepts (tr : List (Op × DErr)) (s s' : σ)
    (h : accepts step s (tr.map Prod.fst) = some s') :
    feed step tr s = (none, s', tr.map Prod.fst) := by
  induction tr generalizing s with
  | nil => simp_all [accepts, feed]
  | cons p tr ih =>
    obtain ⟨o, c⟩ := p
    simp only [List.map_cons, accepts] at h
    simp only [feed, List.map_cons]
    cases hs : step s o with
    | error se => simp [hs] at h
    | ok s1 =>
      rw [hs] at h
      simp only [ih s1 h]

theorem feed_fails (pre rest : List (Op × DErr)) (o : Op) (c : DErr) (s s' : σ) (se : SErr)
    (h : accepts step s (pre.map Prod.fst) = some s') (hf : step s' o = .error se) :
    feed step (pre ++ (o, c) :: rest) s = (some (se, c), s', pre.map Prod.fst ++ [o]) := by
  rw [feed_append, feed_accepts step pre s s' h]
  simp [feed, hf]

end

/-! ## What traces look like -/

section
variable (dec : DErr → DErr)

/-- `k` decorations. -/
def decN : Nat → DErr → DErr
  | 0, e => e
  | k + 1, e => dec (decN k e)

/-- The deserializer's own error, as decorated on the way up. -/
def OwnDecorated (e : DErr) : Prop := ∃ k tok, e = decN dec k (.own tok)

theorem ownDecorated_dec {e : DErr} (h : OwnDecorated dec e) : OwnDecorated dec (dec e) := by
  obtain ⟨k, tok, rfl⟩ := h
  exact ⟨k + 1, tok, rfl⟩

@[simp] theorem thenT_err_isNone (a b : Tr) : (thenT a b).2.isNone = (a.2.isNone && b.2.isNone) := by
  obtain ⟨al, ae⟩ := a
  cases ae <;> simp [thenT]

@[simp] theorem decT_err_isNone (a : Tr) : (decT dec a).2.isNone = a.2.isNone := by
  obtain ⟨al, ae⟩ := a
  cases ae <;> simp [decT]

@[simp] theorem opT_err (o : Op) : (opT o).2 = none := rfl
@[simp] theorem failT_err (e : DErr) : (failT e).2 = some e := rfl
@[simp] theorem skipT_err : skipT.2 = none := rfl
@[simp] theorem closeT_err_isNone (c : Option Nat) : (closeT c).2.isNone = c.isNone := by
  cases c <;> rfl

theorem accessFail_of_errorFree (e : De) (h : e.errorFree = true) : e.accessFail = none := by
  cases e <;> simp_all [De.errorFree, De.accessFail]

mutual
/-- A trace ends in a deserializer failure exactly when the tree has a failure
point somewhere. -/
theorem trace_err_isNone : (d : De) → (trace dec d).2.isNone = d.errorFree
  | .scalar sc => by simp [trace, De.errorFree]
  | .fail e => by simp [trace, De.errorFree]
  | .afail e => by simp [trace, De.errorFree]
  | .seq elems close => by simp [trace, De.errorFree, traceList_err_isNone elems]
  | .map entries close => by simp [trace, De.errorFree, traceEntries_err_isNone entries]
theorem traceList_err_isNone : (l : List De) → (traceList dec l).2.isNone = De.errorFreeList l
  | [] => by simp [traceList, De.errorFreeList]
  | e :: rest => by
    rw [traceList, De.errorFreeList, ← trace_err_isNone e, ← traceList_err_isNone rest]
    cases e <;> simp [De.accessFail, trace]
theorem traceEntries_err_isNone : (l : List (De × De)) →
    (traceEntries dec l).2.isNone = De.errorFreeEntries l
  | [] => by simp [traceEntries, De.errorFreeEntries]
  | (k, v) :: rest => by
    rw [traceEntries, De.errorFreeEntries, ← trace_err_isNone k, ← trace_err_isNone v,
      ← traceEntries_err_isNone rest]
    cases k <;> cases v <;> simp [De.accessFail, trace, Bool.and_assoc]
end

@[simp] theorem decT_ops (a : Tr) : (decT dec a).ops = a.ops := by
  simp [decT, Tr.ops, Function.comp_def]

theorem thenT_of_none (a b : Tr) (h : a.2 = none) :
    (thenT a b).ops = a.ops ++ b.ops ∧ (thenT a b).2 = b.2 := by
  obtain ⟨al, ae⟩ := a
  subst h
  simp [thenT, Tr.ops]

theorem thenT_of_some (a b : Tr) (e : DErr) (h : a.2 = some e) : thenT a b = a := by
  obtain ⟨al, ae⟩ := a
  subst h
  rfl

@[simp] theorem opT_ops (o : Op) : (opT o).ops = [o] := rfl
@[simp] theorem skipT_ops : skipT.ops = [] := rfl

theorem isNone_eq_true {α : Type} {o : Option α} (h : o.isNone = true) : o = none := by
  cases o <;> simp_all

mutual
/-- For an error-free tree the trace is `flatten`. -/
theorem trace_ops_errorFree : (d : De) → d.errorFree = true → (trace dec d).ops = flatten d
  | .scalar sc, _ => by simp [trace, flatten]
  | .fail e, h => by simp [De.errorFree] at h
  | .afail e, h => by simp [De.errorFree] at h
  | .seq elems close, h => by
    simp only [De.errorFree, Bool.and_eq_true, Option.isNone_iff_eq_none] at h
    obtain ⟨h1, rfl⟩ := h
    have hn : (traceList dec elems).2 = none := isNone_eq_true (by rw [traceList_err_isNone, h1])
    have ih := traceList_ops_errorFree elems h1
    rw [trace, flatten]
    have e1 := thenT_of_none (traceList dec elems) (opT .seqEnd) hn
    have e2 := thenT_of_none (opT .seqBegin) (thenT (traceList dec elems) (opT .seqEnd)) rfl
    have e3 := thenT_of_none
      (decT dec (thenT (opT .seqBegin) (thenT (traceList dec elems) (opT .seqEnd)))) (closeT none)
      (by simp [decT, e2.2, e1.2])
    rw [e3.1, decT_ops, e2.1, e1.1, ih]
    simp [closeT]
  | .map entries close, h => by
    simp only [De.errorFree, Bool.and_eq_true, Option.isNone_iff_eq_none] at h
    obtain ⟨h1, rfl⟩ := h
    have hn : (traceEntries dec entries).2 = none :=
      isNone_eq_true (by rw [traceEntries_err_isNone, h1])
    have ih := traceEntries_ops_errorFree entries h1
    rw [trace, flatten]
    have e1 := thenT_of_none (traceEntries dec entries) (opT .mapEnd) hn
    have e2 := thenT_of_none (opT .mapBegin) (thenT (traceEntries dec entries) (opT .mapEnd)) rfl
    have e3 := thenT_of_none
      (decT dec (thenT (opT .mapBegin) (thenT (traceEntries dec entries) (opT .mapEnd)))) (closeT none)
      (by simp [decT, e2.2, e1.2])
    rw [e3.1, decT_ops, e2.1, e1.1, ih]
    simp [closeT]
theorem traceList_ops_errorFree : (l : List De) → De.errorFreeList l = true →
    (traceList dec l).ops = flattenList l
  | [], _ => by simp [traceList, flattenList]
  | e :: rest, h => by
    simp only [De.errorFreeList, Bool.and_eq_true] at h
    obtain ⟨h1, h2⟩ := h
    have hn : (trace dec e).2 = none := isNone_eq_true (by rw [trace_err_isNone, h1])
    rw [traceList, accessFail_of_errorFree e h1, flattenList]
    have e1 := thenT_of_none (trace dec e) (opT .elemPost) hn
    have e2 := thenT_of_none (opT .elemPre) (thenT (trace dec e) (opT .elemPost)) rfl
    have e3 := thenT_of_none (thenT (opT .elemPre) (thenT (trace dec e) (opT .elemPost)))
      (traceList dec rest) (by rw [e2.2, e1.2]; rfl)
    simp only
    rw [e3.1, e2.1, e1.1, trace_ops_errorFree e h1, traceList_ops_errorFree rest h2]
    simp
theorem traceEntries_ops_errorFree : (l : List (De × De)) → De.errorFreeEntries l = true →
    (traceEntries dec l).ops = flattenEntries l
  | [], _ => by simp [traceEntries, flattenEntries]
  | (k, v) :: rest, h => by
    simp only [De.errorFreeEntries, Bool.and_eq_true] at h
    obtain ⟨⟨h1, h2⟩, h3⟩ := h
    have hk : (trace dec k).2 = none := isNone_eq_true (by rw [trace_err_isNone, h1])
    have hv : (trace dec v).2 = none := isNone_eq_true (by rw [trace_err_isNone, h2])
    rw [traceEntries, accessFail_of_errorFree k h1, accessFail_of_errorFree v h2, flattenEntries]
    have k1 := thenT_of_none (trace dec k) (opT .keyPost) hk
    have k2 := thenT_of_none (opT .keyPre) (thenT (trace dec k) (opT .keyPost)) rfl
    have v1 := thenT_of_none (trace dec v) (opT .valPost) hv
    have v2 := thenT_of_none (opT .valPre) (thenT (trace dec v) (opT .valPost)) rfl
    have v3 := thenT_of_none (thenT (opT .valPre) (thenT (trace dec v) (opT .valPost)))
      (traceEntries dec rest) (by rw [v2.2, v1.2]; rfl)
    have k3 := thenT_of_none (thenT (opT .keyPre) (thenT (trace dec k) (opT .keyPost)))
      (thenT (thenT (opT .valPre) (thenT (trace dec v) (opT .valPost))) (traceEntries dec rest))
      (by rw [k2.2, k1.2]; rfl)
    simp only
    rw [k3.1, k2.1, k1.1, v3.1, v2.1, v1.1, trace_ops_errorFree k h1, trace_ops_errorFree v h2,
      traceEntries_ops_errorFree rest h3]
    simp
end

/-- Every deserializer failure a trace can end in is an own error of the
deserializer, decorated — never a synthetic one. -/
def TrOwn (t : Tr) : Prop := ∀ e, t.2 = some e → OwnDecorated dec e

theorem trOwn_thenT (a b : Tr) (ha : TrOwn dec a) (hb : TrOwn dec b) : TrOwn dec (thenT a b) := by
  obtain ⟨al, ae⟩ := a
  cases ae with
  | some e => exact ha
  | none => exact hb

theorem trOwn_decT (a : Tr) (ha : TrOwn dec a) : TrOwn dec (decT dec a) := by
  obtain ⟨al, ae⟩ := a
  intro e he
  cases ae with
  | none => simp [decT] at he
  | some e0 =>
    simp only [decT, Option.map_some, Option.some.injEq] at he
    subst he
    exact ownDecorated_dec dec (ha e0 rfl)

theorem trOwn_opT (o : Op) : TrOwn dec (opT o) := by intro e he; simp at he
theorem trOwn_skipT : TrOwn dec skipT := by intro e he; simp at he
theorem trOwn_failT (tok : Nat) : TrOwn dec (failT (.own tok)) := by
  intro e he
  simp only [failT_err, Option.some.injEq] at he
  exact ⟨0, tok, he.symm⟩
theorem trOwn_closeT (c : Option Nat) : TrOwn dec (closeT c) := by
  cases c
  · exact trOwn_skipT dec
  · exact trOwn_failT dec _

mutual
theorem trace_own : (d : De) → TrOwn dec (trace dec d)
  | .scalar sc => by rw [trace]; exact trOwn_decT dec _ (trOwn_opT dec _)
  | .fail e => by rw [trace]; exact trOwn_failT dec e
  | .afail e => by rw [trace]; exact trOwn_failT dec e
  | .seq elems close => by
    rw [trace]
    exact trOwn_thenT dec _ _ (trOwn_decT dec _ (trOwn_thenT dec _ _ (trOwn_opT dec _)
      (trOwn_thenT dec _ _ (traceList_own elems) (trOwn_opT dec _)))) (trOwn_closeT dec close)
  | .map entries close => by
    rw [trace]
    exact trOwn_thenT dec _ _ (trOwn_decT dec _ (trOwn_thenT dec _ _ (trOwn_opT dec _)
      (trOwn_thenT dec _ _ (traceEntries_own entries) (trOwn_opT dec _)))) (trOwn_closeT dec close)
theorem traceList_own : (l : List De) → TrOwn dec (traceList dec l)
  | [] => by rw [traceList]; exact trOwn_skipT dec
  | e :: rest => by
    rw [traceList]
    cases e.accessFail with
    | some tok => exact trOwn_failT dec tok
    | none =>
      exact trOwn_thenT dec _ _ (trOwn_thenT dec _ _ (trOwn_opT dec _)
        (trOwn_thenT dec _ _ (trace_own e) (trOwn_opT dec _))) (traceList_own rest)
theorem traceEntries_own : (l : List (De × De)) → TrOwn dec (traceEntries dec l)
  | [] => by rw [traceEntries]; exact trOwn_skipT dec
  | (k, v) :: rest => by
    rw [traceEntries]
    cases k.accessFail with
    | some tok => exact trOwn_failT dec tok
    | none =>
      refine trOwn_thenT dec _ _ (trOwn_thenT dec _ _ (trOwn_opT dec _)
        (trOwn_thenT dec _ _ (trace_own k) (trOwn_opT dec _))) ?_
      cases v.accessFail with
      | some tok => exact trOwn_failT dec tok
      | none =>
        exact trOwn_thenT dec _ _ (trOwn_thenT dec _ _ (trOwn_opT dec _)
          (trOwn_thenT dec _ _ (trace_own v) (trOwn_opT dec _))) (traceEntries_own rest)
end

end
end Xt.Transcode

namespace Xt.ValuePath
open Xt.Serde Xt.Transcode

/-! ## The value path -/

section
variable {σ : Type} (step : σ → Op → Except SErr σ)

/-- Feed plain ops to the serializer until one fails. -/
def feedOps : List Op → σ → ROut σ
  | [], s => (none, s, [])
  | o :: rest, s =>
    match step s o with
    | .error e => (some e, s, [o])
    | .ok s' =>
      match feedOps rest s' with
      | (r, s'', ops) => (r, s'', o :: ops)

theorem andThen_assoc (a : ROut σ) (f g : σ → ROut σ) :
    andThen (andThen a f) g = andThen a (fun s => andThen (f s) g) := by
  obtain ⟨r, s, ops⟩ := a
  cases r with
  | some e => rfl
  | none =>
    simp only [andThen]
    rcases f s with ⟨r2, s2, ops2⟩
    cases r2 with
    | some e => rfl
    | none =>
      simp only
      rcases g s2 with ⟨r3, s3, ops3⟩
      simp

theorem andThen_pure (a : ROut σ) : andThen a (fun s => (none, s, [])) = a := by
  obtain ⟨r, s, ops⟩ := a
  cases r <;> simp [andThen]

theorem feedOps_nil : feedOps step [] = fun s => (none, s, []) := by
  funext s; rfl

theorem feedOps_cons (o : Op) (rest : List Op) :
    feedOps step (o :: rest) = fun s => andThen (emit step o s) (feedOps step rest) := by
  funext s
  simp only [feedOps, emit, andThen]
  cases step s o with
  | error e => rfl
  | ok s1 =>
    simp only
    rcases feedOps step rest s1 with ⟨r, s2, ops⟩
    rfl

theorem feedOps_append (a b : List Op) :
    feedOps step (a ++ b) = fun s => andThen (feedOps step a s) (feedOps step b) := by
  induction a with
  | nil =>
    funext s
    simp only [List.nil_append, feedOps, andThen]
  | cons o a ih =>
    simp only [List.cons_append, feedOps_cons, andThen_assoc, ih]

theorem replayBytes_eq (bs : List Nat) :
    replayBytes step bs =
      feedOps step (bs.flatMap fun b => [.elemPre, .scalar (.u8 b), .elemPost]) := by
  induction bs with
  | nil => funext s; rfl
  | cons b bs ih =>
    funext s
    simp only [replayBytes, List.flatMap_cons, List.cons_append, List.nil_append, feedOps_cons, ih]

mutual
theorem replay_eq_feedOps : (v : Value) → replay step v = feedOps step v.ops
  | .scalar sc => by
    funext s
    cases sc <;>
      simp only [replay, Value.ops, bytesOps, feedOps_cons, feedOps_append, feedOps_nil,
        replayBytes_eq,
        andThen_pure, List.cons_append]
  | .seq items => by
    funext s
    simp only [replay, Value.ops, feedOps_cons, feedOps_append, feedOps_nil,
      andThen_pure, List.cons_append, replayList_eq_feedOps items]
  | .map entries => by
    funext s
    simp only [replay, Value.ops, feedOps_cons, feedOps_append, feedOps_nil,
      andThen_pure, List.cons_append, replayEntries_eq_feedOps entries]
theorem replayList_eq_feedOps : (l : List Value) →
    replayList step l = feedOps step (Value.opsList l)
  | [] => by funext s; rfl
  | v :: rest => by
    funext s
    simp only [replayList, Value.opsList, feedOps_cons, feedOps_append,
      List.cons_append, replay_eq_feedOps v, replayList_eq_feedOps rest]
theorem replayEntries_eq_feedOps : (l : List (Value × Value)) →
    replayEntries step l = feedOps step (Value.opsEntries l)
  | [] => by funext s; rfl
  | (k, v) :: rest => by
    funext s
    simp only [replayEntries, Value.opsEntries, feedOps_cons, feedOps_append, andThen_assoc,
      List.cons_append, replay_eq_feedOps k, replay_eq_feedOps v, replayEntries_eq_feedOps rest]
end
end

/-- The error of a collect, if any. -/
def errOf {α : Type} : Except DErr α → Option DErr
  | .error e => some e
  | .ok _ => none

section
variable (dec : DErr → DErr)

theorem thenT_err (a b : Tr) : (thenT a b).2 = a.2.or b.2 := by
  obtain ⟨al, ae⟩ := a
  cases ae <;> simp [thenT]

theorem decT_err (a : Tr) : (decT dec a).2 = a.2.map dec := rfl

theorem closeT_err (c : Option Nat) : (closeT c).2 = c.map .own := by
  cases c <;> rfl

mutual
/-- Collecting fails exactly when the tree has a failure point, and with the
error the streaming path would attribute to the deserializer. -/
theorem ofDe_err : (d : De) → errOf (Value.ofDe dec d) = (trace dec d).2
  | .scalar sc => by simp [Value.ofDe, errOf, trace, decT_err]
  | .fail e => by simp [Value.ofDe, errOf, trace]
  | .afail e => by simp [Value.ofDe, errOf, trace]
  | .seq elems close => by
    have ih := ofDeList_err elems
    rw [Value.ofDe, trace]
    simp only [thenT_err, decT_err, closeT_err, opT_err, Option.none_or, Option.or_none, ← ih]
    cases Value.ofDeList dec elems with
    | error e => simp [errOf]
    | ok items => cases close <;> simp [errOf]
  | .map entries close => by
    have ih := ofDeEntries_err entries
    rw [Value.ofDe, trace]
    simp only [thenT_err, decT_err, closeT_err, opT_err, Option.none_or, Option.or_none, ← ih]
    cases Value.ofDeEntries dec entries with
    | error e => simp [errOf]
    | ok items => cases close <;> simp [errOf]
theorem ofDeList_err : (l : List De) → errOf (Value.ofDeList dec l) = (traceList dec l).2
  | [] => by simp [Value.ofDeList, errOf, traceList]
  | e :: rest => by
    have ih1 := ofDe_err e
    have ih2 := ofDeList_err rest
    rw [Value.ofDeList, traceList]
    cases e.accessFail with
    | some tok => simp [errOf]
    | none =>
      simp only [thenT_err, opT_err, Option.none_or, Option.or_none, ← ih1, ← ih2]
      cases Value.ofDe dec e with
      | error err => simp [errOf]
      | ok v => cases Value.ofDeList dec rest <;> simp [errOf]
theorem ofDeEntries_err : (l : List (De × De)) →
    errOf (Value.ofDeEntries dec l) = (traceEntries dec l).2
  | [] => by simp [Value.ofDeEntries, errOf, traceEntries]
  | (k, v) :: rest => by
    have ih1 := ofDe_err k
    have ih2 := ofDe_err v
    have ih3 := ofDeEntries_err rest
    rw [Value.ofDeEntries, traceEntries]
    cases k.accessFail with
    | some tok => simp [errOf]
    | none =>
      cases v.accessFail with
      | some tok =>
        simp only [thenT_err, opT_err, Option.none_or, Option.or_none, ← ih1]
        cases Value.ofDe dec k <;> simp [errOf]
      | none =>
        simp only [thenT_err, opT_err, Option.none_or, Option.or_none, ← ih1, ← ih2, ← ih3]
        cases Value.ofDe dec k with
        | error err => simp [errOf]
        | ok kv =>
          cases Value.ofDe dec v with
          | error err => simp [errOf]
          | ok vv => cases Value.ofDeEntries dec rest <;> simp [errOf]
end

theorem expandBytes_append (a b : List Op) : expandBytes (a ++ b) = expandBytes a ++ expandBytes b := by
  induction a with
  | nil => rfl
  | cons o a ih =>
    cases o with
    | scalar sc => cases sc <;> simp [expandBytes, ih]
    | _ => simp [expandBytes, ih]

theorem scalar_ops (sc : Scalar) : (Value.scalar sc).ops = expandBytes [.scalar sc] := by
  cases sc <;> simp [Value.ops, expandBytes]

mutual
/-- For an error-free tree the collected value replays the tree's own op
sequence (byte strings expanded: the value path's one visible difference). -/
theorem ofDe_ops : (d : De) → d.errorFree = true →
    ∃ v, Value.ofDe dec d = .ok v ∧ v.ops = expandBytes (flatten d)
  | .scalar sc, _ => ⟨.scalar sc, rfl, by rw [flatten, scalar_ops]⟩
  | .fail e, h => by simp [De.errorFree] at h
  | .afail e, h => by simp [De.errorFree] at h
  | .seq elems close, h => by
    simp only [De.errorFree, Bool.and_eq_true, Option.isNone_iff_eq_none] at h
    obtain ⟨h1, rfl⟩ := h
    obtain ⟨vs, hv, hops⟩ := ofDeList_ops elems h1
    refine ⟨.seq vs, by simp [Value.ofDe, hv], ?_⟩
    simp [Value.ops, flatten, expandBytes, expandBytes_append, hops]
  | .map entries close, h => by
    simp only [De.errorFree, Bool.and_eq_true, Option.isNone_iff_eq_none] at h
    obtain ⟨h1, rfl⟩ := h
    obtain ⟨vs, hv, hops⟩ := ofDeEntries_ops entries h1
    refine ⟨.map vs, by simp [Value.ofDe, hv], ?_⟩
    simp [Value.ops, flatten, expandBytes, expandBytes_append, hops]
theorem ofDeList_ops : (l : List De) → De.errorFreeList l = true →
    ∃ vs, Value.ofDeList dec l = .ok vs ∧ Value.opsList vs = expandBytes (flattenList l)
  | [], _ => ⟨[], rfl, rfl⟩
  | e :: rest, h => by
    simp only [De.errorFreeList, Bool.and_eq_true] at h
    obtain ⟨h1, h2⟩ := h
    obtain ⟨v, hv, hops⟩ := ofDe_ops e h1
    obtain ⟨vs, hvs, hopss⟩ := ofDeList_ops rest h2
    refine ⟨v :: vs, by simp [Value.ofDeList, accessFail_of_errorFree e h1, hv, hvs], ?_⟩
    simp [Value.opsList, flattenList, expandBytes, expandBytes_append, hops, hopss]
theorem ofDeEntries_ops : (l : List (De × De)) → De.errorFreeEntries l = true →
    ∃ vs, Value.ofDeEntries dec l = .ok vs ∧ Value.opsEntries vs = expandBytes (flattenEntries l)
  | [], _ => ⟨[], rfl, rfl⟩
  | (k, v) :: rest, h => by
    simp only [De.errorFreeEntries, Bool.and_eq_true] at h
    obtain ⟨⟨h1, h2⟩, h3⟩ := h
    obtain ⟨kv, hk, hkops⟩ := ofDe_ops k h1
    obtain ⟨vv, hv, hvops⟩ := ofDe_ops v h2
    obtain ⟨vs, hvs, hopss⟩ := ofDeEntries_ops rest h3
    refine ⟨(kv, vv) :: vs, by
      simp [Value.ofDeEntries, accessFail_of_errorFree k h1, accessFail_of_errorFree v h2, hk, hv,
        hvs], ?_⟩
    simp [Value.opsEntries, flattenEntries, expandBytes, expandBytes_append, hkops, hvops, hopss]
end

/-- Without byte strings, nothing is expanded. -/
theorem expandBytes_id (ops : List Op) (h : ∀ bs, Op.scalar (.bytes bs) ∉ ops) :
    expandBytes ops = ops := by
  induction ops with
  | nil => rfl
  | cons o ops ih =>
    have ih' := ih (fun bs hm => h bs (List.mem_cons_of_mem _ hm))
    cases o with
    | scalar sc =>
      cases sc with
      | bytes bs => exact absurd List.mem_cons_self (h bs)
      | _ => simp [expandBytes, ih']
    | _ => simp [expandBytes, ih']

end
end Xt.ValuePath

namespace Xt.Transcode
open Xt.Serde

/-! ## toml's target-side refusals -/

/-- `reason` is one of the target visitor's refusal texts. -/
def Refusals.Gives (R : Refusals) (reason : String) : Prop :=
  (∃ sc, R.value sc = some reason) ∨ (∃ k, R.key k = some reason) ∨
    (∃ seen k, R.dup seen k = some reason)

/-- A target-side refusal, carried by a `custom` error of the deserializer's
type and decorated on the way up. -/
def RefusalDecorated (dec : DErr → DErr) (R : Refusals) (e : DErr) : Prop :=
  ∃ k reason, e = decN dec k (.custom reason) ∧ R.Gives reason

def TomlErr (dec : DErr → DErr) (R : Refusals) (e : DErr) : Prop :=
  OwnDecorated dec e ∨ RefusalDecorated dec R e

section
variable (dec : DErr → DErr) (R : Refusals)

theorem tomlErr_dec {e : DErr} (h : TomlErr dec R e) : TomlErr dec R (dec e) := by
  rcases h with h | ⟨k, reason, rfl, hg⟩
  · exact .inl (ownDecorated_dec dec h)
  · exact .inr ⟨k + 1, reason, rfl, hg⟩

theorem tomlErr_own (tok : Nat) : TomlErr dec R (.own tok) := .inl ⟨0, tok, rfl⟩

theorem tomlErr_refusal (reason : String) (h : R.Gives reason) (k : Nat) :
    TomlErr dec R (decN dec k (.custom reason)) := .inr ⟨k, reason, rfl, h⟩

mutual
theorem tomlCollect_err : (d : De) → (e : DErr) → tomlCollect dec R d = some e → TomlErr dec R e
  | .scalar sc, e, h => by
    rw [tomlCollect] at h
    cases hv : R.value sc with
    | none => simp [hv] at h
    | some reason =>
      simp only [hv, Option.some.injEq] at h
      subst h
      exact tomlErr_refusal dec R reason (.inl ⟨sc, hv⟩) 1
  | .fail tok, e, h => by
    simp only [tomlCollect, Option.some.injEq] at h; subst h; exact tomlErr_own dec R tok
  | .afail tok, e, h => by
    simp only [tomlCollect, Option.some.injEq] at h; subst h; exact tomlErr_own dec R tok
  | .seq elems close, e, h => by
    rw [tomlCollect] at h
    cases hl : tomlCollectList dec R elems with
    | some e0 =>
      simp only [hl, Option.some.injEq] at h
      subst h
      exact tomlErr_dec dec R (tomlCollectList_err elems e0 hl)
    | none =>
      simp only [hl] at h
      cases close with
      | none => simp at h
      | some tok => simp only [Option.map_some, Option.some.injEq] at h; subst h; exact tomlErr_own dec R tok
  | .map entries close, e, h => by
    rw [tomlCollect] at h
    cases hl : tomlCollectEntries dec R [] entries with
    | some e0 =>
      simp only [hl, Option.some.injEq] at h
      subst h
      exact tomlErr_dec dec R (tomlCollectEntries_err [] entries e0 hl)
    | none =>
      simp only [hl] at h
      cases close with
      | none => simp at h
      | some tok => simp only [Option.map_some, Option.some.injEq] at h; subst h; exact tomlErr_own dec R tok
theorem tomlCollectList_err : (l : List De) → (e : DErr) → tomlCollectList dec R l = some e →
    TomlErr dec R e
  | [], e, h => by simp [tomlCollectList] at h
  | d :: rest, e, h => by
    rw [tomlCollectList] at h
    cases ha : d.accessFail with
    | some tok => simp only [ha, Option.some.injEq] at h; subst h; exact tomlErr_own dec R tok
    | none =>
      simp only [ha] at h
      cases hd : tomlCollect dec R d with
      | some e0 =>
        simp only [hd, Option.some.injEq] at h
        subst h
        exact tomlCollect_err d e0 hd
      | none =>
        simp only [hd] at h
        exact tomlCollectList_err rest e h
theorem tomlCollectEntries_err : (seen : List De) → (l : List (De × De)) → (e : DErr) →
    tomlCollectEntries dec R seen l = some e → TomlErr dec R e
  | _, [], e, h => by simp [tomlCollectEntries] at h
  | seen, (k, v) :: rest, e, h => by
    rw [tomlCollectEntries] at h
    cases ha : k.accessFail with
    | some tok => simp only [ha, Option.some.injEq] at h; subst h; exact tomlErr_own dec R tok
    | none =>
      simp only [ha] at h
      split at h
      · -- the key failed or was refused
        rename_i err hk
        simp only [Option.some.injEq] at h
        subst h
        cases hft : k.failTok with
        | some tok =>
          simp only [hft, Option.some.injEq] at hk
          subst hk
          exact tomlErr_own dec R tok
        | none =>
          simp only [hft] at hk
          cases hrk : R.key k with
          | some reason =>
            simp only [hrk, Option.some.injEq] at hk
            subst hk
            exact tomlErr_refusal dec R reason (.inr (.inl ⟨_, hrk⟩)) 1
          | none =>
            simp only [hrk] at hk
            split at hk
            · simp at hk
            · exact tomlCollect_err k _ hk
      · cases hdup : R.dup seen k with
        | some reason =>
          simp only [hdup, Option.some.injEq] at h
          subst h
          exact tomlErr_refusal dec R reason (.inr (.inr ⟨seen, k, hdup⟩)) 0
        | none =>
          simp only [hdup] at h
          cases hva : v.accessFail with
          | some tok => simp only [hva, Option.some.injEq] at h; subst h; exact tomlErr_own dec R tok
          | none =>
            simp only [hva] at h
            cases hv : tomlCollect dec R v with
            | some e0 =>
              simp only [hv, Option.some.injEq] at h
              subst h
              exact tomlCollect_err v e0 hv
            | none =>
              simp only [hv] at h
              exact tomlCollectEntries_err (seen ++ [k]) rest e h
end
end
end Xt.Transcode

namespace Xt.Transcode
open Xt.Serde Xt.ValuePath

/-! ## Failure points by path -/

/-- One step of a path from a collection down to one of its children: an
element of a sequence, a key of a map, a value of a map — with everything
around it. -/
inductive PathStep where
  | elem (before after : List De) (close : Option Nat)
  | key (before : List (De × De)) (value : De) (after : List (De × De)) (close : Option Nat)
  | val (before : List (De × De)) (key : De) (after : List (De × De)) (close : Option Nat)

def PathStep.plug : PathStep → De → De
  | .elem b a c, h => .seq (b ++ h :: a) c
  | .key b v a c, h => .map (b ++ (h, v) :: a) c
  | .val b k a c, h => .map (b ++ (k, h) :: a) c

/-- The tree with `hole` at the end of `path` (outermost step first). -/
def plug : List PathStep → De → De
  | [], h => h
  | st :: rest, h => st.plug (plug rest h)

/-- Everything that is executed before the hole is reached is error-free. -/
def PathStep.clean : PathStep → Bool
  | .elem b _ _ => De.errorFreeList b
  | .key b _ _ _ => De.errorFreeEntries b
  | .val b k _ _ => De.errorFreeEntries b && k.errorFree

section
variable (dec : DErr → DErr)

theorem trace_err_none_of_errorFree (d : De) (h : d.errorFree = true) : (trace dec d).2 = none :=
  isNone_eq_true (by rw [trace_err_isNone, h])

theorem traceList_prefix (b l : List De) (hb : De.errorFreeList b = true) :
    (traceList dec (b ++ l)).2 = (traceList dec l).2 := by
  induction b with
  | nil => rfl
  | cons e b ih =>
    simp only [De.errorFreeList, Bool.and_eq_true] at hb
    rw [List.cons_append, traceList, accessFail_of_errorFree e hb.1]
    simp only [thenT_err, opT_err, trace_err_none_of_errorFree dec e hb.1, Option.none_or,
      Option.or_none, ih hb.2]

theorem traceEntries_prefix (b l : List (De × De)) (hb : De.errorFreeEntries b = true) :
    (traceEntries dec (b ++ l)).2 = (traceEntries dec l).2 := by
  induction b with
  | nil => rfl
  | cons kv b ih =>
    obtain ⟨k, v⟩ := kv
    simp only [De.errorFreeEntries, Bool.and_eq_true] at hb
    rw [List.cons_append, traceEntries, accessFail_of_errorFree k hb.1.1,
      accessFail_of_errorFree v hb.1.2]
    simp only [thenT_err, opT_err, trace_err_none_of_errorFree dec k hb.1.1,
      trace_err_none_of_errorFree dec v hb.1.2, Option.none_or, Option.or_none, ih hb.2]

/-- A failing child in element / key / value position fails the loop with the
child's error, whether it is an immediate failure or a failure of the access. -/
theorem traceList_head_err (h : De) (a : List De) (e : DErr) (he : (trace dec h).2 = some e) :
    (traceList dec (h :: a)).2 = some e := by
  rw [traceList]
  cases hacc : h.accessFail with
  | some tok =>
    cases h <;> simp_all [De.accessFail, trace]
  | none => simp [thenT_err, he]

theorem traceEntries_key_err (h v : De) (a : List (De × De)) (e : DErr)
    (he : (trace dec h).2 = some e) : (traceEntries dec ((h, v) :: a)).2 = some e := by
  rw [traceEntries]
  cases hacc : h.accessFail with
  | some tok =>
    cases h <;> simp_all [De.accessFail, trace]
  | none => simp [thenT_err, he]

theorem traceEntries_val_err (k h : De) (a : List (De × De)) (e : DErr)
    (hk : k.errorFree = true) (he : (trace dec h).2 = some e) :
    (traceEntries dec ((k, h) :: a)).2 = some e := by
  rw [traceEntries, accessFail_of_errorFree k hk]
  simp only [thenT_err, opT_err, trace_err_none_of_errorFree dec k hk, Option.none_or, Option.or_none]
  cases hacc : h.accessFail with
  | some tok =>
    cases h <;> simp_all [De.accessFail, trace]
  | none => simp [thenT_err, he]

theorem trace_step (st : PathStep) (hole : De) (e : DErr) (hclean : st.clean = true)
    (he : (trace dec hole).2 = some e) : (trace dec (st.plug hole)).2 = some (dec e) := by
  cases st with
  | elem b a c =>
    simp only [PathStep.clean] at hclean
    simp [PathStep.plug, trace, thenT_err, decT_err, traceList_prefix dec b _ hclean,
      traceList_head_err dec hole a e he]
  | key b v a c =>
    simp only [PathStep.clean] at hclean
    simp [PathStep.plug, trace, thenT_err, decT_err, traceEntries_prefix dec b _ hclean,
      traceEntries_key_err dec hole v a e he]
  | val b k a c =>
    simp only [PathStep.clean, Bool.and_eq_true] at hclean
    simp [PathStep.plug, trace, thenT_err, decT_err, traceEntries_prefix dec b _ hclean.1,
      traceEntries_val_err dec k hole a e hclean.2 he]

/-- A failure point at the end of any path, with nothing failing before it in
execution order, is the tree's first deserializer failure, decorated once per
level. -/
theorem trace_plug (path : List PathStep) (hole : De) (e : DErr)
    (hclean : ∀ st ∈ path, st.clean = true) (he : (trace dec hole).2 = some e) :
    (trace dec (plug path hole)).2 = some (decN dec path.length e) := by
  induction path with
  | nil => exact he
  | cons st rest ih =>
    have ih' := ih (fun s hs => hclean s (List.mem_cons_of_mem _ hs))
    exact trace_step dec st (plug rest hole) _ (hclean st List.mem_cons_self) ih'

end
end Xt.Transcode
