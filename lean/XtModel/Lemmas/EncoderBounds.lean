import XtModel.Model.EncoderBounds

/-!
Lemmas about the index arithmetic of `ArrayBuffer` and `Utf8Encoder::read`
(`Model/EncoderBounds.lean`): under the invariant `pos ≤ len ≤ SIZE` no site
is reached and the invariant is kept.
-/
namespace Xt.EncoderBounds

/-- `pos ≤ len ≤ SIZE`: the three sections of the array are well formed. -/
def AB.Inv (b : AB) : Prop := b.pos ≤ b.len ∧ b.len ≤ b.size

theorem AB.inv_new (size : Nat) : (AB.new size).Inv := by simp [AB.new, AB.Inv]

theorem AB.unread_ok {b : AB} (h : b.Inv) : b.unread = .ok (b.len - b.pos) := by
  simp [AB.unread, h.1, h.2]

theorem AB.isEmpty_ok {b : AB} (h : b.Inv) : b.isEmpty = .ok (b.len - b.pos == 0) := by
  simp [AB.isEmpty, AB.unread_ok h]

theorem AB.set_ok (debug : Bool) (b : AB) {n : Nat} (hn : n ≤ b.size) :
    b.set debug n = .ok { b with pos := 0, len := n } ∧ ({ b with pos := 0, len := n } : AB).Inv := by
  simp [AB.set, hn, copyFromSlice, AB.Inv]

theorem AB.read_ok {ovf : Nat} {b : AB} (h : b.Inv) (hs : b.size < ovf) (m : Nat) :
    b.read ovf m = .ok (min (b.len - b.pos) m, { b with pos := b.pos + min (b.len - b.pos) m }) ∧
    ({ b with pos := b.pos + min (b.len - b.pos) m } : AB).Inv := by
  have h1 := h.1
  have h2 := h.2
  have hlt : b.pos + min (b.len - b.pos) m < ovf := by omega
  refine ⟨?_, ?_⟩
  · simp only [AB.read, AB.unread_ok h, copyFromSlice, addU]
    simp [hlt, Nat.min_le_left, Nat.min_le_right]
  · simp only [AB.Inv]; omega

theorem AB.write_ok {ovf : Nat} {b : AB} (h : b.Inv) (hs : b.size < ovf) (m : Nat) :
    b.write ovf m = .ok (min (b.size - b.len) m, { b with len := b.len + min (b.size - b.len) m }) ∧
    ({ b with len := b.len + min (b.size - b.len) m } : AB).Inv := by
  have h1 := h.1
  have h2 := h.2
  have hlt : b.len + min (b.size - b.len) m < ovf := by omega
  refine ⟨?_, ?_⟩
  · simp only [AB.write, copyFromSlice, addU]
    simp [hlt, h2, Nat.min_le_left, Nat.min_le_right]
  · simp only [AB.Inv]; omega

theorem AB.consume_ok {ovf : Nat} (debug : Bool) {b : AB} (h : b.Inv) (hs : b.size < ovf) {amt : Nat}
    (ha : amt ≤ b.len - b.pos) :
    b.consume ovf debug amt = .ok { b with pos := b.pos + amt } ∧ ({ b with pos := b.pos + amt } : AB).Inv := by
  have h1 := h.1
  have h2 := h.2
  have hlt : b.pos + amt < ovf := by omega
  refine ⟨?_, ?_⟩
  · cases debug <;> simp [AB.consume, AB.unread_ok h, addU, hlt, ha]
  · simp only [AB.Inv]; omega

/-- Every character the source will yield fits `maxLen` bytes. -/
def SrcOk (maxLen : Nat) (src : List Src) : Prop := ∀ c, Src.ch c ∈ src → c ≤ maxLen

theorem SrcOk.tail {maxLen : Nat} {x : Src} {src : List Src} (h : SrcOk maxLen (x :: src)) : SrcOk maxLen src :=
  fun c hc => h c (by simp [hc])

/-- What a loop returns: no panic; the remainder buffer keeps its invariant and
size; at most `room` more bytes were written; the rest of the source is still
well formed. -/
def LoopOk (maxLen : Nat) (written room : Nat) (r : R (Ret × St)) : Prop :=
  ∃ ret st, r = .ok (ret, st) ∧ st.rem.Inv ∧ st.rem.size = maxLen ∧ SrcOk maxLen st.src ∧
    ∀ w, ret = .ok w → written ≤ w ∧ w ≤ written + room

theorem tailLoop_ok (ovf : Nat) (debug : Bool) (maxLen : Nat) (rem : AB) (hrem : rem.Inv)
    (hsize : rem.size = maxLen) (src : List Src) (hsrc : SrcOk maxLen src) (room written : Nat)
    (hovf : written + room < ovf) :
    LoopOk maxLen written room (tailLoop ovf debug maxLen rem src room written) := by
  induction src generalizing room written with
  | nil =>
    unfold tailLoop
    by_cases h0 : room = 0
    · simp only [h0, if_true]
      exact ⟨_, _, rfl, hrem, hsize, hsrc, fun w hw => by cases hw; omega⟩
    · simp only [h0, if_false]
      exact ⟨_, _, rfl, hrem, hsize, hsrc, fun w hw => by cases hw; omega⟩
  | cons x src ih =>
    unfold tailLoop
    by_cases h0 : room = 0
    · simp only [h0, if_true]
      exact ⟨_, _, rfl, hrem, hsize, hsrc, fun w hw => by cases hw; omega⟩
    · simp only [h0, if_false]
      cases x with
      | err => exact ⟨_, _, rfl, hrem, hsize, hsrc.tail, fun w hw => by cases hw⟩
      | ch charLen =>
        have hc : charLen ≤ maxLen := hsrc charLen (by simp)
        have he1 : min charLen room ≤ room := Nat.min_le_right _ _
        have he2 : min charLen room ≤ maxLen := Nat.le_trans (Nat.min_le_left _ _) hc
        have he3 : min charLen room ≤ charLen := Nat.min_le_left _ _
        have hadd : written + min charLen room < ovf := by omega
        simp only [encodeUtf8, hc, if_true, he1, he2, he3, not_true_eq_false, if_false, copyFromSlice, addU, hadd,
          and_self]
        by_cases hz : room - min charLen room = 0
        · simp only [hz, if_true]
          have hn : charLen - min charLen room ≤ rem.size := by omega
          obtain ⟨e1, e2⟩ := AB.set_ok debug rem hn
          rw [e1]
          exact ⟨_, _, rfl, e2, hsize, hsrc.tail, fun w hw => by cases hw; omega⟩
        · simp only [hz, if_false]
          obtain ⟨ret, st, e, i1, i2, i3, i4⟩ :=
            ih hsrc.tail (room - min charLen room) (written + min charLen room) (by omega)
          exact ⟨ret, st, e, i1, i2, i3, fun w hw => by have := i4 w hw; omega⟩

theorem fastLoop_ok (ovf : Nat) (debug : Bool) (maxLen : Nat) (rem : AB) (hrem : rem.Inv)
    (hsize : rem.size = maxLen) (src : List Src) (hsrc : SrcOk maxLen src) (room written : Nat)
    (hovf : written + room < ovf) :
    LoopOk maxLen written room (fastLoop ovf debug maxLen rem src room written) := by
  induction src generalizing room written with
  | nil =>
    unfold fastLoop
    by_cases hm : maxLen ≤ room
    · simp only [hm, if_true]
      exact ⟨_, _, rfl, hrem, hsize, hsrc, fun w hw => by cases hw; omega⟩
    · simp only [hm, if_false]
      exact tailLoop_ok ovf debug maxLen rem hrem hsize [] hsrc room written hovf
  | cons x src ih =>
    unfold fastLoop
    by_cases hm : maxLen ≤ room
    · simp only [hm, if_true]
      cases x with
      | err => exact ⟨_, _, rfl, hrem, hsize, hsrc.tail, fun w hw => by cases hw⟩
      | ch charLen =>
        have hc : charLen ≤ maxLen := hsrc charLen (by simp)
        have hcr : charLen ≤ room := Nat.le_trans hc hm
        have hadd : written + charLen < ovf := by omega
        simp only [encodeUtf8, hcr, if_true, not_true_eq_false, if_false, addU, hadd]
        obtain ⟨ret, st, e, i1, i2, i3, i4⟩ := ih hsrc.tail (room - charLen) (written + charLen) (by omega)
        exact ⟨ret, st, e, i1, i2, i3, fun w hw => by have := i4 w hw; omega⟩
    · simp only [hm, if_false]
      exact tailLoop_ok ovf debug maxLen rem hrem hsize (x :: src) hsrc room written hovf

/-- The state between `read` calls. -/
def St.Ok (maxLen : Nat) (st : St) : Prop := st.rem.Inv ∧ st.rem.size = maxLen ∧ SrcOk maxLen st.src

theorem encRead_ok (ovf : Nat) (debug : Bool) (maxLen : Nat) (st : St) (hst : st.Ok maxLen)
    (hmax : maxLen < ovf) (bufLen : Nat) (hbuf : bufLen < ovf) :
    ∃ ret st', encRead ovf debug maxLen st bufLen = .ok (ret, st') ∧ st'.Ok maxLen ∧
      ∀ w, ret = .ok w → w ≤ bufLen := by
  obtain ⟨hinv, hsize, hsrc⟩ := hst
  unfold encRead
  rw [AB.isEmpty_ok hinv]
  by_cases he : (st.rem.len - st.rem.pos == 0) = true
  · simp only [he]
    obtain ⟨ret, st', e, i1, i2, i3, i4⟩ :=
      fastLoop_ok ovf debug maxLen st.rem hinv hsize st.src hsrc bufLen 0 (by omega)
    exact ⟨ret, st', e, ⟨i1, i2, i3⟩, fun w hw => by have := i4 w hw; omega⟩
  · have he' : (st.rem.len - st.rem.pos == 0) = false := by simpa using he
    simp only [he']
    obtain ⟨r1, r2⟩ := AB.read_ok (ovf := ovf) hinv (by omega) bufLen
    rw [r1]
    have hle : min (st.rem.len - st.rem.pos) bufLen ≤ bufLen := Nat.min_le_right _ _
    have hadd : 0 + min (st.rem.len - st.rem.pos) bufLen < ovf := by omega
    simp only [hle, not_true_eq_false, if_false, addU, hadd, if_true]
    rw [AB.isEmpty_ok r2]
    by_cases he2 : (st.rem.len - (st.rem.pos + min (st.rem.len - st.rem.pos) bufLen) == 0) = true
    · simp only [he2]
      obtain ⟨ret, st', e, i1, i2, i3, i4⟩ :=
        fastLoop_ok ovf debug maxLen _ r2 (by simpa using hsize) st.src hsrc
          (bufLen - min (st.rem.len - st.rem.pos) bufLen) (0 + min (st.rem.len - st.rem.pos) bufLen) (by omega)
      exact ⟨ret, st', e, ⟨i1, i2, i3⟩, fun w hw => by have := i4 w hw; omega⟩
    · have he2' : (st.rem.len - (st.rem.pos + min (st.rem.len - st.rem.pos) bufLen) == 0) = false := by
        simpa using he2
      simp only [he2']
      exact ⟨_, _, rfl, ⟨r2, by simpa using hsize, hsrc⟩, fun w hw => by cases hw; omega⟩

theorem encReads_ok (ovf : Nat) (debug : Bool) (maxLen : Nat) (hmax : maxLen < ovf) (ns : List Nat)
    (hns : ∀ n ∈ ns, n < ovf) (st : St) (hst : st.Ok maxLen) :
    ∃ rs, encReads ovf debug maxLen st ns = .ok rs ∧ rs.length = ns.length := by
  induction ns generalizing st with
  | nil => exact ⟨[], rfl, rfl⟩
  | cons n ns ih =>
    obtain ⟨ret, st', e, hst', _⟩ := encRead_ok ovf debug maxLen st hst hmax n (hns n (by simp))
    obtain ⟨rs, e2, hl⟩ := ih (fun m hm => hns m (by simp [hm])) st' hst'
    refine ⟨ret :: rs, ?_, by simp [hl]⟩
    simp only [encReads, e, e2]

/-- An operation respects its caller's contract: `set` with a slice that fits,
`consume` of no more than is unread (the `BufRead` contract). -/
def OpOk (b : AB) : Op → Prop
  | .set n => n ≤ b.size
  | .consume amt => amt ≤ b.len - b.pos
  | _ => True

/-- A program of operations in which each `set` / `consume` respects the
contract in the state it is applied to. -/
def ProgOk (ovf : Nat) (debug : Bool) : AB → List Op → Prop
  | _, [] => True
  | b, op :: ops => OpOk b op ∧ ∀ b', b.step ovf debug op = .ok b' → ProgOk ovf debug b' ops

theorem AB.step_ok {ovf : Nat} (debug : Bool) {b : AB} (h : b.Inv) (hs : b.size < ovf) (op : Op) (hop : OpOk b op) :
    ∃ b', b.step ovf debug op = .ok b' ∧ b'.Inv ∧ b'.size = b.size := by
  cases op with
  | unread => exact ⟨b, by simp [AB.step, AB.unread_ok h], h, rfl⟩
  | set n =>
    obtain ⟨e1, e2⟩ := AB.set_ok debug b hop
    exact ⟨_, by simpa [AB.step] using e1, e2, rfl⟩
  | read m =>
    obtain ⟨e1, e2⟩ := AB.read_ok (ovf := ovf) h hs m
    exact ⟨_, by simp [AB.step, e1], e2, rfl⟩
  | write m =>
    obtain ⟨e1, e2⟩ := AB.write_ok (ovf := ovf) h hs m
    exact ⟨_, by simp [AB.step, e1], e2, rfl⟩
  | consume amt =>
    obtain ⟨e1, e2⟩ := AB.consume_ok (ovf := ovf) debug h hs hop
    exact ⟨_, by simpa [AB.step] using e1, e2, rfl⟩

theorem AB.run_ok {ovf : Nat} (debug : Bool) (ops : List Op) (b : AB) (h : b.Inv) (hs : b.size < ovf)
    (hp : ProgOk ovf debug b ops) :
    ∃ b', AB.run ovf debug b ops = .ok b' ∧ b'.Inv := by
  induction ops generalizing b with
  | nil => exact ⟨b, rfl, h⟩
  | cons op ops ih =>
    obtain ⟨hop, hrest⟩ := hp
    obtain ⟨b1, e1, i1, s1⟩ := AB.step_ok debug h hs op hop
    obtain ⟨b2, e2, i2⟩ := ih b1 i1 (by omega) (hrest b1 e1)
    exact ⟨b2, by simp [AB.run, e1, e2], i2⟩

end Xt.EncoderBounds
