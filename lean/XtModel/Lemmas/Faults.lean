import XtModel.Model.Faults

/-! Lemmas about `write_all` over limited / short-writing writers. -/
namespace Xt.Faults

theorem write_spec (w : W) (b : Nat) (bs : List Nat) :
    (∀ e w', w.write (b :: bs) = (.error e, w') → e = .fault ∧ w' = w ∧ ∃ k, w.limit = some k ∧ k ≤ w.accepted.length) ∧
    (∀ n w', w.write (b :: bs) = (.ok n, w') →
      0 < n ∧ n ≤ (b :: bs).length ∧ w'.accepted = w.accepted ++ (b :: bs).take n ∧ w'.limit = w.limit ∧
      (∀ k, w.limit = some k → w.accepted.length + n ≤ k)) := by
  unfold W.write
  constructor
  · intro e w' h
    cases hl : w.limit with
    | none => simp [hl] at h
    | some k =>
      simp only [hl] at h
      split at h
      · rename_i hle; simp at h; exact ⟨h.1.symm, h.2.symm, k, rfl, hle⟩
      · simp at h
  · intro n w' h
    have hcap : 0 < w.cap (b :: bs).length ∧ w.cap (b :: bs).length ≤ (b :: bs).length := by
      unfold W.cap
      cases w.pieces with
      | nil => simp
      | cons p ps => simp; omega
    generalize w.cap (b :: bs).length = cap at *
    cases hl : w.limit with
    | none =>
      simp [hl] at h
      obtain ⟨rfl, rfl⟩ := h
      exact ⟨hcap.1, hcap.2, rfl, hl.symm ▸ rfl, by intro k hk; simp at hk⟩
    | some k =>
      simp only [hl] at h
      split at h
      · simp at h
      · rename_i hgt
        simp at h
        obtain ⟨rfl, rfl⟩ := h
        refine ⟨by omega, by omega, rfl, by simp [hl], ?_⟩
        intro k' hk'; simp at hk'; subst hk'; omega

theorem writeAll_spec (w : W) (buf : List Nat) :
    (w.limit = none → writeAll w buf = (.ok (), (writeAll w buf).2) ∧
      (writeAll w buf).2.accepted = w.accepted ++ buf) ∧
    (∀ k, w.limit = some k → w.accepted.length ≤ k →
      (writeAll w buf).2.accepted = (w.accepted ++ buf).take k ∧
      (writeAll w buf).2.limit = some k ∧
      ((writeAll w buf).1 = .ok () ↔ w.accepted.length + buf.length ≤ k) ∧
      ((writeAll w buf).1 ≠ .ok () → (writeAll w buf).1 = .error .fault)) := by
  fun_induction writeAll w buf with
  | case1 w =>
    refine ⟨fun _ => ⟨rfl, by simp⟩, fun k hk hle => ⟨?_, hk, by simp; exact hle, by simp⟩⟩
    simp; exact (List.take_of_length_le hle).symm
  | case2 w b bs e w' hw =>
    obtain ⟨rfl, rfl, k0, hk0, hle0⟩ := (write_spec w b bs).1 e w' hw
    refine ⟨fun h => by rw [h] at hk0; simp at hk0, fun k hk hle => ?_⟩
    rw [hk0] at hk; simp at hk; subst hk
    have : w'.accepted.length = k0 := by omega
    refine ⟨?_, hk0, by simp; omega, by simp⟩
    simp [this]
  | case3 w b bs w' hw =>
    have := ((write_spec w b bs).2 0 w' hw).1
    omega
  | case4 w b bs n w' hw ih =>
    obtain ⟨hpos, hle, hacc, hlim, hroom⟩ := (write_spec w b bs).2 (n + 1) w' hw
    obtain ⟨ih1, ih2⟩ := ih
    constructor
    · intro hnone
      have := ih1 (by rw [hlim]; exact hnone)
      refine ⟨by rw [this.1], ?_⟩
      rw [this.2, hacc, List.append_assoc, List.take_append_drop]
    · intro k hk hle'
      have hk' : w'.limit = some k := by rw [hlim]; exact hk
      have hle'' : w'.accepted.length ≤ k := by
        have := hroom k hk; rw [hacc]; simp [List.length_take]; omega
      obtain ⟨j1, j2, j3, j4⟩ := ih2 k hk' hle''
      refine ⟨?_, j2, ?_, j4⟩
      · rw [j1, hacc, List.append_assoc, List.take_append_drop]
      · rw [j3, hacc]; simp [List.length_take, List.length_drop]; omega

theorem writeAlls_limited (w : W) (k : Nat) (hk : w.limit = some k) (hle : w.accepted.length ≤ k)
    (ps : List (List Nat)) :
    (writeAlls w ps).2.accepted = (w.accepted ++ ps.flatten).take k ∧
    ((writeAlls w ps).1 = .ok () ↔ w.accepted.length + ps.flatten.length ≤ k) ∧
    ((writeAlls w ps).1 ≠ .ok () → (writeAlls w ps).1 = .error .fault) := by
  induction ps generalizing w with
  | nil =>
    simp [writeAlls]
    exact ⟨(List.take_of_length_le hle).symm, hle⟩
  | cons p ps ih =>
    obtain ⟨j1, j2, j3, j4⟩ := (writeAll_spec w p).2 k hk hle
    simp only [writeAlls]
    cases hr : writeAll w p with
    | mk r w' =>
      rw [hr] at j1 j2 j3 j4
      simp only at j1 j2 j3 j4
      cases r with
      | ok u =>
        have hfit : w.accepted.length + p.length ≤ k := j3.mp rfl
        have hacc : w'.accepted = w.accepted ++ p := by
          rw [j1]; exact List.take_of_length_le (by simp; omega)
        have hle' : w'.accepted.length ≤ k := by rw [hacc]; simp; omega
        obtain ⟨i1, i2, i3⟩ := ih w' j2 hle'
        refine ⟨?_, ?_, i3⟩
        · rw [i1, hacc]; simp
        · rw [i2, hacc]; simp; omega
      | error e =>
        have hnot : ¬ (w.accepted.length + p.length ≤ k) := by
          intro h; have := j3.mpr h; simp at this
        have he := j4 (by simp)
        refine ⟨?_, ?_, fun _ => by simpa using he⟩
        · simp only [j1, List.flatten_cons, ← List.append_assoc]
          have h1 : k ≤ (w.accepted ++ p).length := by simp; omega
          rw [List.take_append_of_le_length h1]
        · simp only [List.flatten_cons, List.length_append, reduceCtorEq, false_iff]; omega

theorem writeAlls_unlimited (w : W) (hk : w.limit = none) (ps : List (List Nat)) :
    (writeAlls w ps).1 = .ok () ∧ (writeAlls w ps).2.accepted = w.accepted ++ ps.flatten := by
  induction ps generalizing w with
  | nil => simp [writeAlls]
  | cons p ps ih =>
    obtain ⟨j1, j2⟩ := (writeAll_spec w p).1 hk
    simp only [writeAlls]
    rw [j1]
    have hlim : (writeAll w p).2.limit = none := by
      -- the limit field never changes
      have : ∀ (w : W) (buf : List Nat), (writeAll w buf).2.limit = w.limit := by
        intro w buf
        fun_induction writeAll w buf with
        | case1 w => rfl
        | case2 w b bs e w' hw => exact ((write_spec w b bs).1 e w' hw).2.1 ▸ rfl
        | case3 w b bs w' hw => have := ((write_spec w b bs).2 0 w' hw).1; omega
        | case4 w b bs n w' hw ih => rw [ih]; exact ((write_spec w b bs).2 (n + 1) w' hw).2.2.2.1
      rw [this]; exact hk
    obtain ⟨i1, i2⟩ := ih (writeAll w p).2 hlim
    exact ⟨i1, by rw [i2, j2]; simp⟩

end Xt.Faults
