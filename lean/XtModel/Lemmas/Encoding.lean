import XtModel.Model.Encoding

/-! Helper lemmas about the re-encoder model. Property statements are in `Props/C07.lean`. -/
namespace Xt.Encoding

/-- Characters an item list yields before its first error. -/
def charsBefore : List Item → List Nat
  | .ch c :: rest => c :: charsBefore rest
  | _ => []

/-- The first error an item list yields. -/
def firstErr : List Item → Option RErr
  | [] => none
  | .ch _ :: rest => firstErr rest
  | .errUnit b u p :: _ => some (.unit b u p)
  | .errEof :: _ => some .eof

/-- UTF-8 of a list of code points. -/
def utf8s (cs : List Nat) : List Nat := cs.flatMap utf8

/-- Bytes the encoder will still deliver before any error. -/
def pendingItems (items : List Item) : List Nat := utf8s (charsBefore items)

def St.pending (st : St) : List Nat := st.rem ++ pendingItems st.items

@[simp] theorem pendingItems_nil : pendingItems [] = [] := rfl
@[simp] theorem pendingItems_ch (c : Nat) (rest : List Item) :
    pendingItems (.ch c :: rest) = utf8 c ++ pendingItems rest := by
  simp [pendingItems, charsBefore, utf8s]
@[simp] theorem pendingItems_errUnit (b u p : Nat) (rest : List Item) :
    pendingItems (.errUnit b u p :: rest) = [] := rfl
@[simp] theorem pendingItems_errEof (rest : List Item) :
    pendingItems (.errEof :: rest) = [] := rfl

theorem utf8_length_pos (c : Nat) : 0 < (utf8 c).length := by
  unfold utf8; split <;> (try split) <;> (try split) <;> simp

theorem utf8_length_le (c : Nat) : (utf8 c).length ≤ 4 := by
  unfold utf8; split <;> (try split) <;> (try split) <;> simp

/-- `fill` returning `ok`: exactly the next `n` pending bytes were delivered, and
what remains pending is the rest; no error was consumed. -/
theorem fill_ok (items : List Item) (n : Nat) (out : List Nat) (st' : St)
    (h : fill items n = (.ok out, st')) :
    out = (pendingItems items).take n ∧ st'.pending = (pendingItems items).drop n ∧
      firstErr st'.items = firstErr items := by
  induction items generalizing n out st' with
  | nil =>
    simp [fill] at h; obtain ⟨rfl, rfl⟩ := h; simp [St.pending, firstErr]
  | cons it rest ih =>
    cases it with
    | errUnit b u p =>
      cases n with
      | zero => simp [fill] at h; obtain ⟨rfl, rfl⟩ := h; simp [St.pending, firstErr]
      | succ n => simp [fill] at h
    | errEof =>
      cases n with
      | zero => simp [fill] at h; obtain ⟨rfl, rfl⟩ := h; simp [St.pending, firstErr]
      | succ n => simp [fill] at h
    | ch c =>
      cases n with
      | zero => simp [fill] at h; obtain ⟨rfl, rfl⟩ := h; simp [St.pending, firstErr]
      | succ n =>
        simp only [fill] at h
        split at h
        · rename_i hle
          split at h
          · rename_i out1 st1 heq
            simp at h; obtain ⟨rfl, rfl⟩ := h
            obtain ⟨h1, h2, h3⟩ := ih _ _ _ heq
            refine ⟨?_, ?_, ?_⟩
            · simp [List.take_append, h1]
              congr 1
              · exact (List.take_of_length_le hle).symm
            · rw [h2]; simp [List.drop_append]
              exact hle
            · simpa [firstErr] using h3
          · simp at h
        · rename_i hgt
          simp at h; obtain ⟨rfl, rfl⟩ := h
          have hgt' : n + 1 < (utf8 c).length := by omega
          refine ⟨?_, ?_, ?_⟩
          · simp [List.take_append]
            have : n + 1 - (utf8 c).length = 0 := by omega
            simp [this]
          · simp [St.pending, List.drop_append]
            have : n + 1 - (utf8 c).length = 0 := by omega
            simp [this]
          · simp [firstErr]

/-- `fill` returning an error: it is the first error of the source, it was met
with room to spare, and the state continues after it with an empty remainder. -/
theorem fill_err (items : List Item) (n : Nat) (e : RErr) (st' : St)
    (h : fill items n = (.error e, st')) :
    firstErr items = some e ∧ (pendingItems items).length < n ∧ st'.rem = [] := by
  induction items generalizing n e st' with
  | nil => simp [fill] at h
  | cons it rest ih =>
    cases it with
    | errUnit b u p =>
      cases n with
      | zero => simp [fill] at h
      | succ n => simp [fill] at h; obtain ⟨rfl, rfl⟩ := h; simp [firstErr]
    | errEof =>
      cases n with
      | zero => simp [fill] at h
      | succ n => simp [fill] at h; obtain ⟨rfl, rfl⟩ := h; simp [firstErr]
    | ch c =>
      cases n with
      | zero => simp [fill] at h
      | succ n =>
        simp only [fill] at h
        split at h
        · rename_i hle
          split at h
          · simp at h
          · rename_i e1 st1 heq
            simp at h; obtain ⟨rfl, rfl⟩ := h
            obtain ⟨h1, h2, h3⟩ := ih _ _ _ heq
            refine ⟨by simpa [firstErr] using h1, ?_, h3⟩
            simp; omega
        · simp at h

/-- `read` returning `ok`. -/
theorem read_ok (st : St) (n : Nat) (out : List Nat) (st' : St)
    (h : read st n = (.ok out, st')) :
    out = st.pending.take n ∧ st'.pending = st.pending.drop n ∧
      firstErr st'.items = firstErr st.items := by
  unfold read at h
  split at h
  · rename_i hgt
    simp at h; obtain ⟨rfl, rfl⟩ := h
    have h1 : n - st.rem.length = 0 := by omega
    refine ⟨?_, ?_, rfl⟩
    · simp [St.pending, List.take_append, h1]
    · simp [St.pending, List.drop_append, h1]
  · rename_i hle
    split at h
    · rename_i hnil
      have := fill_ok _ _ _ _ h
      simpa [St.pending, hnil] using this
    · split at h
      · rename_i out1 st1 heq
        simp at h; obtain ⟨rfl, rfl⟩ := h
        obtain ⟨h1, h2, h3⟩ := fill_ok _ _ _ _ heq
        have hle' : st.rem.length ≤ n := by omega
        refine ⟨?_, ?_, h3⟩
        · simp [St.pending, List.take_append, h1]
          exact (List.take_of_length_le hle').symm
        · simp [St.pending, List.drop_append] at h2 ⊢
          rw [List.drop_of_length_le hle']; simpa [St.pending] using h2
      · simp at h

/-- `read` returning an error. -/
theorem read_err (st : St) (n : Nat) (e : RErr) (st' : St)
    (h : read st n = (.error e, st')) :
    firstErr st.items = some e ∧ st.pending.length < n ∧ st'.rem = [] := by
  unfold read at h
  split at h
  · simp at h
  · rename_i hle
    split at h
    · rename_i hnil
      have := fill_err _ _ _ _ h
      simpa [St.pending, hnil] using this
    · split at h
      · simp at h
      · rename_i e1 st1 heq
        simp at h; obtain ⟨rfl, rfl⟩ := h
        obtain ⟨h1, h2, h3⟩ := fill_err _ _ _ _ heq
        refine ⟨h1, ?_, h3⟩
        simp [St.pending]; omega

/-- `fill` with room for `n` bytes takes at most `n` items from the source
(every character yields at least one byte; an error is only met with room to
spare). -/
theorem fill_consumes (items : List Item) (n : Nat) (r : Except RErr (List Nat)) (st' : St)
    (h : fill items n = (r, st')) : ∃ k, k ≤ n ∧ st'.items = items.drop k := by
  induction items generalizing n r st' with
  | nil => simp [fill] at h; obtain ⟨_, rfl⟩ := h; exact ⟨0, by omega, rfl⟩
  | cons it rest ih =>
    cases n with
    | zero =>
      cases it <;> (simp [fill] at h; obtain ⟨_, rfl⟩ := h; exact ⟨0, by omega, rfl⟩)
    | succ n =>
      cases it with
      | errUnit b u p => simp [fill] at h; obtain ⟨_, rfl⟩ := h; exact ⟨1, by omega, rfl⟩
      | errEof => simp [fill] at h; obtain ⟨_, rfl⟩ := h; exact ⟨1, by omega, rfl⟩
      | ch c =>
        simp only [fill] at h
        have hpos := utf8_length_pos c
        split at h
        · rename_i hle
          split at h
          · rename_i out1 st1 heq
            simp at h; obtain ⟨_, rfl⟩ := h
            obtain ⟨k, hk, hs⟩ := ih _ _ _ heq
            exact ⟨k + 1, by omega, by simpa using hs⟩
          · rename_i e1 st1 heq
            simp at h; obtain ⟨_, rfl⟩ := h
            obtain ⟨k, hk, hs⟩ := ih _ _ _ heq
            exact ⟨k + 1, by omega, by simpa using hs⟩
        · simp at h; obtain ⟨_, rfl⟩ := h; exact ⟨1, by omega, rfl⟩

/-- One `read` with an `n`-byte buffer takes at most `n` characters from the
decoder, whatever it returns. -/
theorem read_consumes (st : St) (n : Nat) (r : Except RErr (List Nat)) (st' : St)
    (h : read st n = (r, st')) : ∃ k, k ≤ n ∧ st'.items = st.items.drop k := by
  unfold read at h
  split at h
  · simp at h; obtain ⟨_, rfl⟩ := h; exact ⟨0, by omega, rfl⟩
  · split at h
    · exact fill_consumes _ _ _ _ h
    · split at h
      · rename_i out1 st1 heq
        simp at h; obtain ⟨_, rfl⟩ := h
        obtain ⟨k, hk, hs⟩ := fill_consumes _ _ _ _ heq
        exact ⟨k, by omega, hs⟩
      · rename_i e1 st1 heq
        simp at h; obtain ⟨_, rfl⟩ := h
        obtain ⟨k, hk, hs⟩ := fill_consumes _ _ _ _ heq
        exact ⟨k, by omega, hs⟩

/-- The first `k` items `Utf16Decoder` yields are determined by the first `2 k`
code units (4 k bytes): whatever follows them, and whether the input ends in a
stray byte, does not matter.  (Every item takes one or two units.) -/
theorem dec16_take_prefix (k : Nat) (us a b : List Nat) (pos : Nat) (ta tb : Bool)
    (h : 2 * k ≤ us.length) :
    (dec16 (us ++ a) pos ta).take k = (dec16 (us ++ b) pos tb).take k := by
  induction k generalizing us pos with
  | zero => simp
  | succ k ih =>
    match us, h with
    | u :: t :: rest', h =>
      have hlen : 2 * k ≤ rest'.length := by simp at h; omega
      have hlen1 : 2 * k ≤ (t :: rest').length := by simp; omega
      rw [dec16.eq_def (u :: t :: rest' ++ a), dec16.eq_def (u :: t :: rest' ++ b)]
      simp only [List.cons_append]
      by_cases h1 : u < 0xD800 ∨ 0xE000 ≤ u
      · simp only [h1, if_true, List.take_succ_cons]
        congr 1
        exact ih (t :: rest') (pos + 2) hlen1
      · simp only [h1, if_false]
        by_cases h2 : 0xDC00 ≤ u
        · simp only [h2, if_true, List.take_succ_cons]
          congr 1
          exact ih (t :: rest') (pos + 2) hlen1
        · simp only [h2, if_false]
          by_cases h3 : 0xDC00 ≤ t ∧ t ≤ 0xDFFF
          · simp only [h3, and_self, if_true, List.take_succ_cons]
            congr 1
            exact ih rest' (pos + 4) hlen
          · simp only [h3, if_false, List.take_succ_cons]
            congr 1
            exact ih (t :: rest') (pos + 2) hlen1

/-- …and the first `k` items of `Utf32Decoder` by the first `k` units. -/
theorem dec32_take_prefix (k : Nat) (us a b : List Nat) (pos : Nat) (ta tb : Bool)
    (h : k ≤ us.length) :
    (dec32 (us ++ a) pos ta).take k = (dec32 (us ++ b) pos tb).take k := by
  induction k generalizing us pos with
  | zero => simp
  | succ k ih =>
    match us, h with
    | u :: rest, h =>
      have hlen : k ≤ rest.length := by simp at h; omega
      simp only [List.cons_append, dec32, List.take_succ_cons]
      congr 1
      exact ih rest (pos + 4) hlen

end Xt.Encoding
