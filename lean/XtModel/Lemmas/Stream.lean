import XtModel.Model.Stream

/-!
Helper lemmas for the stream model (`Model/Stream.lean`), used by `Props/C05.lean`.
-/
namespace Xt.Stream

/-! ## Named hypotheses about the third-party parsers and the stream -/

/-- `DemandDriven L docs`: the parser asks its reader for more only when its
parse position has reached what was delivered, and needs at most `L` bytes
beyond the end of a document before that document is complete for it.
(serde_json: `L = 1`; rmp_serde: `L = 0`; sampled on real traces.) -/
def DemandDriven (L : Nat) (docs : List Doc) : Prop := ∀ d ∈ docs, d.la ≤ L

/-- The same for every document but the last one (libyaml + the chunker: the
last document is complete only at the end of the stream; `L = 4`). -/
def DemandDrivenButLast (L : Nat) (docs : List Doc) : Prop := ∀ d ∈ docs.dropLast, d.la ≤ L

/-- Document ends are at least `L` bytes apart: every document after the first
is at least `L` bytes long.  (`L = 0`: the ends are nondecreasing.) -/
def Spaced (L : Nat) (docs : List Doc) : Prop := (stops docs).Pairwise (fun a b => a + L ≤ b)

instance (L : Nat) (docs : List Doc) : Decidable (DemandDriven L docs) := by
  unfold DemandDriven; infer_instance
instance (L : Nat) (docs : List Doc) : Decidable (DemandDrivenButLast L docs) := by
  unfold DemandDrivenButLast; infer_instance
instance (L : Nat) (docs : List Doc) : Decidable (Spaced L docs) := by
  unfold Spaced; infer_instance

/-- What the acceptor needs from the loop: the input offset up to which the
parser asks before document k is complete is at most `bounds[k]`. -/
def NeedsBelow : List Doc → List Nat → Prop
  | d :: ds, b :: bs => d.stop + d.la ≤ b ∧ NeedsBelow ds bs
  | _, _ => True

/-- Bytes written by a trace. -/
def written : List Ev → Nat
  | [] => 0
  | .wr n :: t => n + written t
  | .rd _ _ :: t => written t

/-! ## The acceptor -/

theorem readOk_iff (bs os : List Nat) (off w : Nat) :
    readOk bs os off w = true ↔
      ∀ (k b o : Nat), bs[k]? = some b → os[k]? = some o → b ≤ off → o ≤ w := by
  induction bs generalizing os with
  | nil => simp [readOk]
  | cons b bs ih =>
    cases os with
    | nil => simp [readOk]
    | cons o os =>
      simp only [readOk, Bool.and_eq_true, Bool.or_eq_true, Bool.not_eq_true', decide_eq_false_iff_not,
        decide_eq_true_eq, ih]
      constructor
      · rintro ⟨h0, hr⟩ k b' o' hb ho hle
        cases k with
        | zero =>
          simp at hb ho; subst hb; subst ho
          rcases h0 with h0 | h0
          · exact absurd hle h0
          · exact h0
        | succ k => exact hr k b' o' (by simpa using hb) (by simpa using ho) hle
      · intro h
        refine ⟨?_, fun k b' o' hb ho hle => h (k + 1) b' o' (by simpa using hb) (by simpa using ho) hle⟩
        by_cases hle : b ≤ off
        · exact Or.inr (h 0 b o rfl rfl hle)
        · exact Or.inl hle

theorem readOk_nil_outs (bs : List Nat) (off w : Nat) : readOk bs [] off w = true := by
  cases bs <;> rfl

theorem firstBad_nil_outs (bs : List Nat) (w i : Nat) (tr : List Ev) : firstBad bs [] w i tr = none := by
  induction tr generalizing w i with
  | nil => rfl
  | cons e t ih => cases e <;> simp [firstBad, readOk_nil_outs, ih]

theorem firstBad_nil_bounds (os : List Nat) (w i : Nat) (tr : List Ev) : firstBad [] os w i tr = none := by
  induction tr generalizing w i with
  | nil => rfl
  | cons e t ih => cases e <;> simp [firstBad, readOk, ih]

/-- A document that is written stays written: its pair can be dropped. -/
theorem firstBad_cons_done (b o : Nat) (bs os : List Nat) (w i : Nat) (tr : List Ev) (h : o ≤ w) :
    firstBad (b :: bs) (o :: os) w i tr = firstBad bs os w i tr := by
  induction tr generalizing w i with
  | nil => rfl
  | cons e t ih =>
    cases e with
    | wr n => simp only [firstBad]; exact ih (w + n) (i + 1) (by omega)
    | rd off n =>
      simp only [firstBad, readOk, h, decide_true, Bool.or_true, Bool.true_and]
      rw [ih w (i + 1) h]

theorem firstBad_append (bs os : List Nat) (w i : Nat) (a b : List Ev) :
    firstBad bs os w i (a ++ b) =
      match firstBad bs os w i a with
      | some x => some x
      | none => firstBad bs os (w + written a) (i + a.length) b := by
  induction a generalizing w i with
  | nil => simp [firstBad, written]
  | cons e t ih =>
    cases e with
    | wr n =>
      simp only [List.cons_append, firstBad, written, List.length_cons]
      rw [ih]
      have e1 : w + n + written t = w + (n + written t) := by omega
      have e2 : i + 1 + t.length = i + (t.length + 1) := by omega
      rw [e1, e2]
    | rd off n =>
      simp only [List.cons_append, firstBad, written, List.length_cons]
      split
      · rw [ih]
        have e2 : i + 1 + t.length = i + (t.length + 1) := by omega
        rw [e2]
      · rfl

/-- Whether a trace is accepted does not depend on where the event count starts. -/
theorem firstBad_none_idx (bs os : List Nat) (w i j : Nat) (tr : List Ev) :
    firstBad bs os w i tr = none ↔ firstBad bs os w j tr = none := by
  induction tr generalizing w i j with
  | nil => simp [firstBad]
  | cons e t ih =>
    cases e with
    | wr n => simp only [firstBad]; exact ih _ _ _
    | rd off n =>
      simp only [firstBad]
      split
      · exact ih _ _ _
      · simp

/-- The acceptor, event by event: every read request passes `readOk` with the
bytes written before it. -/
theorem firstBad_none_iff (bs os : List Nat) (w i : Nat) (tr : List Ev) :
    firstBad bs os w i tr = none ↔
      ∀ pre off n suf, tr = pre ++ .rd off n :: suf → readOk bs os off (w + written pre) = true := by
  induction tr generalizing w i with
  | nil =>
    simp only [firstBad, true_iff]
    intro pre off n suf h
    cases pre <;> simp at h
  | cons e t ih =>
    cases e with
    | wr m =>
      simp only [firstBad]
      rw [ih]
      constructor
      · intro h pre off n suf heq
        cases pre with
        | nil => simp at heq
        | cons p pre =>
          simp only [List.cons_append, List.cons.injEq] at heq
          obtain ⟨rfl, rfl⟩ := heq
          have := h pre off n suf rfl
          simpa [written, Nat.add_assoc] using this
      · intro h pre off n suf heq
        have := h (.wr m :: pre) off n suf (by simp [heq])
        simpa [written, Nat.add_assoc] using this
    | rd off0 n0 =>
      simp only [firstBad]
      constructor
      · intro h pre off n suf heq
        split at h
        · rename_i hok
          cases pre with
          | nil =>
            simp only [List.nil_append, List.cons.injEq, Ev.rd.injEq] at heq
            obtain ⟨⟨rfl, rfl⟩, rfl⟩ := heq
            simpa [written] using hok
          | cons p pre =>
            simp only [List.cons_append, List.cons.injEq] at heq
            obtain ⟨rfl, rfl⟩ := heq
            have := (ih w (i + 1)).1 h pre off n suf rfl
            simpa [written] using this
        · simp at h
      · intro h
        have h0 := h [] off0 n0 t rfl
        simp only [written, Nat.add_zero] at h0
        rw [if_pos h0, ih]
        intro pre off n suf heq
        have := h (.rd off0 n0 :: pre) off n suf (by simp [heq])
        simpa [written] using this

/-- Once every document is written nothing can be rejected any more. -/
theorem firstBad_all_written (bs os : List Nat) (w i : Nat) (tr : List Ev) (h : ∀ o ∈ os, o ≤ w) :
    firstBad bs os w i tr = none := by
  rw [firstBad_none_iff]
  intro pre off n suf _
  rw [readOk_iff]
  intro k b o _ ho _
  have := h o (List.mem_of_getElem? ho)
  omega

/-- Weaker bounds accept more. -/
theorem firstBad_mono_bounds (bs bs' os : List Nat) (w i : Nat) (tr : List Ev)
    (hb : ∀ (k b' : Nat), bs'[k]? = some b' → ∃ b : Nat, bs[k]? = some b ∧ b ≤ b')
    (h : firstBad bs os w i tr = none) : firstBad bs' os w i tr = none := by
  rw [firstBad_none_iff] at h ⊢
  intro pre off n suf heq
  have h1 := h pre off n suf heq
  rw [readOk_iff] at h1 ⊢
  intro k b' o hb' ho hle
  obtain ⟨b, hbk, hbb⟩ := hb k b' hb'
  exact h1 k b o hbk ho (by omega)

/-! ## `fetch` -/

/-- Every event of a list is a read request at an offset below `need`. -/
def ReadsBelow (need : Nat) (evs : List Ev) : Prop := ∀ e ∈ evs, ∃ off n, e = .rd off n ∧ off < need

theorem fetch_readsBelow (need : Nat) (sizes : List Nat) (del : Nat) :
    ReadsBelow need (fetch need del sizes).1 := by
  induction sizes generalizing del with
  | nil =>
    simp only [fetch]
    split
    · intro e he; simp at he; exact ⟨del, 0, he, by assumption⟩
    · intro e he; simp at he
  | cons s ss ih =>
    simp only [fetch]
    split
    · intro e he
      simp only [List.mem_cons] at he
      rcases he with he | he
      · exact ⟨del, s, he, by assumption⟩
      · exact ih _ e he
    · intro e he; simp at he

theorem readsBelow_mono {a b : Nat} (h : a ≤ b) {evs : List Ev} (hr : ReadsBelow a evs) : ReadsBelow b evs := by
  intro e he
  obtain ⟨off, n, h1, h2⟩ := hr e he
  exact ⟨off, n, h1, by omega⟩

theorem written_readsBelow (need : Nat) (evs : List Ev) (h : ReadsBelow need evs) : written evs = 0 := by
  induction evs with
  | nil => rfl
  | cons e t ih =>
    obtain ⟨off, n, rfl, _⟩ := h e (by simp)
    simp only [written]
    exact ih (fun e he => h e (by simp [he]))

theorem readOk_above (bs os : List Nat) (off w : Nat) (h : ∀ b ∈ bs, off < b) : readOk bs os off w = true := by
  rw [readOk_iff]
  intro k b o hb _ hle
  have := h b (List.mem_of_getElem? hb)
  omega

/-- Read requests below every bound are never rejected. -/
theorem firstBad_readsBelow (need : Nat) (bs os : List Nat) (w i : Nat) (evs : List Ev)
    (hr : ReadsBelow need evs) (hb : ∀ b ∈ bs, need ≤ b) : firstBad bs os w i evs = none := by
  induction evs generalizing i with
  | nil => rfl
  | cons e t ih =>
    obtain ⟨off, n, rfl, hlt⟩ := hr e (by simp)
    simp only [firstBad]
    rw [if_pos (readOk_above bs os off w (fun b hbm => by have := hb b hbm; omega))]
    exact ih (i + 1) (fun e he => hr e (by simp [he]))

/-! ## The loop is accepted -/

theorem demandLoop_accepts (strict : Bool) (fin : Nat) (docs : List Doc) :
    ∀ (bounds : List Nat) (del : Nat) (sizes : List Nat) (po i : Nat),
      bounds.Pairwise (· ≤ ·) → NeedsBelow docs bounds →
      firstBad bounds (outEnds po docs) po i (demandLoop strict fin del sizes docs) = none := by
  induction docs with
  | nil => intro bounds del sizes po i _ _; simp [outEnds, firstBad_nil_outs]
  | cons d ds ih =>
    intro bounds del sizes po i hs hn
    cases bounds with
    | nil => exact firstBad_nil_bounds _ _ _ _
    | cons b bs =>
      obtain ⟨hn0, hn1⟩ := hn
      rw [List.pairwise_cons] at hs
      obtain ⟨hs0, hs1⟩ := hs
      have hall : ∀ x ∈ b :: bs, d.stop + d.la ≤ x := by
        intro x hx
        simp only [List.mem_cons] at hx
        rcases hx with rfl | hx
        · exact hn0
        · have := hs0 x hx; omega
      have hreads := fetch_readsBelow (d.stop + d.la) sizes del
      have hfb : ∀ j, firstBad (b :: bs) (outEnds po (d :: ds)) po j (fetch (d.stop + d.la) del sizes).1 = none :=
        fun j => firstBad_readsBelow _ _ _ _ _ _ hreads hall
      simp only [demandLoop]
      split
      · exact hfb i
      · rw [firstBad_append, hfb i, written_readsBelow _ _ hreads]
        simp only [outEnds, firstBad, Nat.add_zero]
        rw [firstBad_cons_done _ _ _ _ _ _ _ (Nat.le_refl _)]
        exact ih bs _ _ _ _ hs1 hn1

/-- With detection in front: the trials' read requests stay below every bound. -/
theorem detectedRun_accepts (strict : Bool) (fin detNeed : Nat) (docs : List Doc) (bounds sizes : List Nat)
    (hs : bounds.Pairwise (· ≤ ·)) (hn : NeedsBelow docs bounds) (hd : ∀ b ∈ bounds, detNeed ≤ b) :
    accepts bounds (outEnds 0 docs) (detectedRun strict fin detNeed sizes docs) = true := by
  simp only [accepts, detectedRun, Option.isNone_iff_eq_none]
  have hreads := fetch_readsBelow detNeed sizes 0
  rw [firstBad_append, firstBad_readsBelow _ _ _ _ _ _ hreads hd, written_readsBelow _ _ hreads]
  exact demandLoop_accepts strict fin docs bounds _ _ 0 _ hs hn

theorem explicitRun_accepts (strict : Bool) (fin : Nat) (docs : List Doc) (bounds sizes : List Nat)
    (hs : bounds.Pairwise (· ≤ ·)) (hn : NeedsBelow docs bounds) :
    accepts bounds (outEnds 0 docs) (explicitRun strict fin sizes docs) = true := by
  simp only [accepts, explicitRun, Option.isNone_iff_eq_none]
  exact demandLoop_accepts strict fin docs bounds _ _ 0 _ hs hn

/-! ## Bounds from the hypotheses -/

theorem spaced_tail {L : Nat} {d : Doc} {ds : List Doc} (h : Spaced L (d :: ds)) : Spaced L ds := by
  unfold Spaced stops at h ⊢
  simp only [List.map_cons, List.pairwise_cons] at h
  exact h.2

theorem spaced_sorted {L : Nat} {docs : List Doc} (h : Spaced L docs) : (stops docs).Pairwise (· ≤ ·) := by
  unfold Spaced at h
  exact h.imp (fun hab => by omega)

theorem boundsAt_sorted (d la : Nat) (ends : List Nat) (h : ends.Pairwise (· ≤ ·)) :
    (boundsAt d la ends).Pairwise (· ≤ ·) := by
  unfold boundsAt
  rw [List.pairwise_map]
  exact (h.sublist (List.drop_sublist d ends)).imp (fun hab => by omega)

/-- Tight bounds of the eager loops: document k itself plus the look-ahead. -/
theorem needsBelow_zero (L : Nat) (docs : List Doc) (h : DemandDriven L docs) :
    NeedsBelow docs (boundsAt 0 L (stops docs)) := by
  induction docs with
  | nil => simp [NeedsBelow]
  | cons d ds ih =>
    simp only [boundsAt, stops, List.drop_zero, List.map_cons, NeedsBelow]
    refine ⟨?_, ?_⟩
    · have := h d (by simp); omega
    · have := ih (fun x hx => h x (by simp [hx]))
      simpa [boundsAt, stops] using this

/-- Bounds one document later, no slack in bytes: needs documents at least `L`
bytes long and look-ahead at most `L` for every document but the last. -/
theorem needsBelow_one (L : Nat) (docs : List Doc) (hsp : Spaced L docs) (h : DemandDrivenButLast L docs) :
    NeedsBelow docs (boundsAt 1 0 (stops docs)) := by
  induction docs with
  | nil => simp [NeedsBelow]
  | cons d ds ih =>
    cases ds with
    | nil => simp [boundsAt, stops, NeedsBelow]
    | cons e es =>
      have hsp' := spaced_tail hsp
      have hd : d.la ≤ L := h d (by simp [List.dropLast])
      have hrest : DemandDrivenButLast L (e :: es) := by
        intro x hx
        exact h x (by simp only [List.dropLast_cons_cons]; exact List.mem_cons_of_mem _ hx)
      have hde : d.stop + L ≤ e.stop := by
        unfold Spaced stops at hsp
        simp only [List.map_cons, List.pairwise_cons] at hsp
        exact hsp.1 e.stop (by simp)
      have := ih hsp' hrest
      simp only [boundsAt, stops, List.map_cons, List.drop_succ_cons, List.drop_zero, NeedsBelow] at this ⊢
      exact ⟨by omega, this⟩

/-! ## Monotonicity of the acceptor -/

theorem boundsAt_getElem? (d la : Nat) (ends : List Nat) (k : Nat) :
    (boundsAt d la ends)[k]? = (ends[k + d]?).map (· + la) := by
  simp [boundsAt, List.getElem?_drop, Nat.add_comm]

theorem lagOkAt_mono (d d' la la' : Nat) (ends outs : List Nat) (tr : List Ev)
    (hs : ends.Pairwise (· ≤ ·)) (hd : d ≤ d') (hl : la ≤ la') (h : lagOkAt d la ends outs tr = true) :
    lagOkAt d' la' ends outs tr = true := by
  simp only [lagOkAt, accepts, Option.isNone_iff_eq_none] at h ⊢
  refine firstBad_mono_bounds _ _ _ _ _ _ ?_ h
  intro k b' hb'
  rw [boundsAt_getElem?] at hb'
  rw [boundsAt_getElem?]
  cases he' : ends[k + d']? with
  | none => simp [he'] at hb'
  | some e' =>
    simp only [he', Option.map_some, Option.some.injEq] at hb'
    have hlt : k + d' < ends.length := (List.getElem?_eq_some_iff.1 he').1
    have hlt2 : k + d < ends.length := by omega
    refine ⟨ends[k + d] + la, by simp [List.getElem?_eq_getElem hlt2], ?_⟩
    have hv : ends[k + d'] = e' := (List.getElem?_eq_some_iff.1 he').2
    have : ends[k + d] ≤ ends[k + d'] := by
      rcases Nat.lt_or_ge (k + d) (k + d') with hlt3 | hge
      · exact (List.pairwise_iff_getElem.1 hs) _ _ hlt2 hlt hlt3
      · have : k + d = k + d' := by omega
        simp [this]
    omega

/-- From "document k itself, `L` bytes of slack" to "one document later, no
slack", when documents are at least `L` bytes long. -/
theorem lagOkAt_shift (d L : Nat) (ends outs : List Nat) (tr : List Ev)
    (hs : ends.Pairwise (fun a b => a + L ≤ b)) (h : lagOkAt d L ends outs tr = true) :
    lagOkAt (d + 1) 0 ends outs tr = true := by
  simp only [lagOkAt, accepts, Option.isNone_iff_eq_none] at h ⊢
  refine firstBad_mono_bounds _ _ _ _ _ _ ?_ h
  intro k b' hb'
  rw [boundsAt_getElem?] at hb'
  rw [boundsAt_getElem?]
  cases he' : ends[k + (d + 1)]? with
  | none => simp [he'] at hb'
  | some e' =>
    simp only [he', Option.map_some, Option.some.injEq] at hb'
    have hlt : k + (d + 1) < ends.length := (List.getElem?_eq_some_iff.1 he').1
    have hlt2 : k + d < ends.length := by omega
    refine ⟨ends[k + d] + L, by simp [List.getElem?_eq_getElem hlt2], ?_⟩
    have hv : ends[k + (d + 1)] = e' := (List.getElem?_eq_some_iff.1 he').2
    have := (List.pairwise_iff_getElem.1 hs) (k + d) (k + (d + 1)) hlt2 hlt (by omega)
    omega

/-! ## The one-pass acceptor computes the same -/

theorem sortedB_pairwise : ∀ (l : List Nat), sortedB l = true → l.Pairwise (· ≤ ·)
  | [], _ => List.Pairwise.nil
  | [_], _ => by simp
  | a :: b :: t, h => by
    simp only [sortedB, Bool.and_eq_true, decide_eq_true_eq] at h
    have ih := sortedB_pairwise (b :: t) h.2
    rw [List.pairwise_cons] at ih ⊢
    refine ⟨?_, List.pairwise_cons.2 ih⟩
    intro x hx
    simp only [List.mem_cons] at hx
    rcases hx with rfl | hx
    · exact h.1
    · have := ih.1 x hx; omega

theorem dropDone_firstBad (w i : Nat) (tr : List Ev) : ∀ (bs os : List Nat),
    firstBad bs os w i tr = firstBad (dropDone w bs os).1 (dropDone w bs os).2 w i tr := by
  intro bs
  induction bs with
  | nil => intro os; simp [dropDone]
  | cons b bs ih =>
    intro os
    cases os with
    | nil => simp [dropDone]
    | cons o os =>
      simp only [dropDone]
      split
      · rename_i h
        rw [firstBad_cons_done _ _ _ _ _ _ _ h]
        exact ih os
      · rfl

theorem dropDone_sorted (w : Nat) : ∀ (bs os : List Nat), bs.Pairwise (· ≤ ·) →
    (dropDone w bs os).1.Pairwise (· ≤ ·) := by
  intro bs
  induction bs with
  | nil => intro os _; simp [dropDone]
  | cons b bs ih =>
    intro os hs
    cases os with
    | nil => simpa [dropDone] using hs
    | cons o os =>
      simp only [dropDone]
      split
      · exact ih os hs.of_cons
      · exact hs

theorem dropDone_head (w : Nat) : ∀ (bs os : List Nat) (b o : Nat) (bs' os' : List Nat),
    dropDone w bs os = (b :: bs', o :: os') → w < o := by
  intro bs
  induction bs with
  | nil => intro os b o bs' os' h; simp [dropDone] at h
  | cons b0 bs ih =>
    intro os b o bs' os' h
    cases os with
    | nil => simp [dropDone] at h
    | cons o0 os =>
      simp only [dropDone] at h
      split at h
      · exact ih os b o bs' os' h
      · simp only [Prod.mk.injEq, List.cons.injEq] at h
        obtain ⟨⟨rfl, _⟩, ⟨rfl, _⟩⟩ := h
        omega

/-- On nondecreasing bounds the one-pass acceptor is the acceptor. -/
theorem firstBadFast_eq (tr : List Ev) : ∀ (bs os : List Nat) (w i : Nat), bs.Pairwise (· ≤ ·) →
    firstBadFast bs os w i tr = firstBad bs os w i tr := by
  induction tr with
  | nil => intro bs os w i _; simp [firstBadFast, firstBad]
  | cons e t ih =>
    intro bs os w i hs
    cases e with
    | wr n => simp only [firstBadFast, firstBad]; exact ih bs os _ _ hs
    | rd off n =>
      rw [dropDone_firstBad w i (.rd off n :: t) bs os]
      have hs' := dropDone_sorted w bs os hs
      have hh := dropDone_head w bs os
      simp only [firstBadFast, firstBad]
      generalize dropDone w bs os = p at hs' hh
      obtain ⟨p1, p2⟩ := p
      cases p1 with
      | nil => simp only [readOk, if_true]; exact ih _ _ _ _ hs'
      | cons b bs' =>
        cases p2 with
        | nil => simp only [readOk, if_true]; exact ih _ _ _ _ hs'
        | cons o os' =>
          have hw := hh b o bs' os' rfl
          simp only
          by_cases hb : b ≤ off
          · have : readOk (b :: bs') (o :: os') off w = false := by
              simp only [readOk, Bool.and_eq_false_imp, Bool.or_eq_true, Bool.not_eq_true',
                decide_eq_false_iff_not, decide_eq_true_eq]
              intro h; rcases h with h | h <;> omega
            simp [hb, this]
          · have : readOk (b :: bs') (o :: os') off w = true := by
              apply readOk_above
              intro x hx
              simp only [List.mem_cons] at hx
              rcases hx with rfl | hx
              · omega
              · have := (List.pairwise_cons.1 hs').1 x hx; omega
            simp only [hb, if_false, this, if_true]
            exact ih _ _ _ _ hs'

theorem lagFirstBadFast_eq (d la : Nat) (ends outs : List Nat) (tr : List Ev) :
    lagFirstBadFast d la ends outs tr = lagFirstBad d la ends outs tr := by
  unfold lagFirstBadFast
  split
  · rename_i h
    simp only [Bool.and_eq_true] at h
    exact firstBadFast_eq tr _ _ _ _ (boundsAt_sorted d la ends (sortedB_pairwise ends h.1))
  · rfl

/-! ## The slurp trace is rejected -/

theorem firstBad_readAll (bs os : List Nat) (i : Nat) (rest : List Ev) (sizes : List Nat) (del : Nat)
    (h : readOk bs os (del + sizes.sum) 0 = false) :
    firstBad bs os 0 i (readAll del sizes ++ rest) ≠ none := by
  induction sizes generalizing del i with
  | nil =>
    simp only [List.sum_nil, Nat.add_zero] at h
    simp [readAll, firstBad, h]
  | cons s ss ih =>
    simp only [readAll, List.cons_append, firstBad]
    split
    · apply ih
      simpa [Nat.add_assoc] using h
    · simp

/-! ## Bytes held -/

theorem heldBound_fetch (M C need s0 : Nat) (ss : List Nat) (rest : List Ev) (sizes : List Nat) (del : Nat)
    (hC : ∀ s ∈ sizes, s ≤ C) (hneed : need + C ≤ s0 + M + 1)
    (hrest : HeldBound M (fetch need del sizes).2.1 (s0 :: ss) rest) :
    HeldBound M del (s0 :: ss) ((fetch need del sizes).1 ++ rest) := by
  induction sizes generalizing del with
  | nil =>
    simp only [fetch] at hrest ⊢
    split
    · rename_i hlt
      rw [if_pos hlt] at hrest
      simp only [List.cons_append, List.nil_append, HeldBound, Nat.add_zero]
      exact ⟨by omega, hrest⟩
    · rename_i hge
      rw [if_neg hge] at hrest
      simpa using hrest
  | cons s ss' ih =>
    simp only [fetch] at hrest ⊢
    split
    · rename_i hlt
      rw [if_pos hlt] at hrest
      simp only [List.cons_append, HeldBound]
      have hs := hC s (by simp)
      exact ⟨by omega, ih (del + s) (fun x hx => hC x (by simp [hx])) hrest⟩
    · rename_i hge
      rw [if_neg hge] at hrest
      simpa using hrest

theorem heldBound_fetch_final (M C need : Nat) (sizes : List Nat) (del : Nat)
    (hC : ∀ s ∈ sizes, s ≤ C) (hM : C ≤ M) :
    HeldBound M del [] (fetch need del sizes).1 := by
  induction sizes generalizing del with
  | nil =>
    simp only [fetch]
    split <;> simp [HeldBound]
  | cons s ss' ih =>
    simp only [fetch]
    split
    · simp only [HeldBound]
      have hs := hC s (by simp)
      exact ⟨by omega, ih (del + s) (fun x hx => hC x (by simp [hx]))⟩
    · simp [HeldBound]

theorem demandLoop_heldBound (strict : Bool) (fin C L M : Nat) (docs : List Doc) :
    ∀ (prev del : Nat) (sizes : List Nat), (∀ s ∈ sizes, s ≤ C) → DemandDriven L docs →
      C + maxDocLen prev docs + L ≤ M →
      HeldBound M del (startsFrom prev docs) (demandLoop strict fin del sizes docs) := by
  induction docs with
  | nil =>
    intro prev del sizes hC _ hM
    simp only [demandLoop, startsFrom]
    exact heldBound_fetch_final M C fin sizes del hC (by omega)
  | cons d ds ih =>
    intro prev del sizes hC hL hM
    simp only [maxDocLen] at hM
    have hla := hL d (by simp)
    have hneed : d.stop + d.la + C ≤ prev + M + 1 := by omega
    simp only [demandLoop, startsFrom]
    split
    · have := heldBound_fetch M C (d.stop + d.la) prev (startsFrom d.stop ds) [] sizes del hC hneed (by simp [HeldBound])
      simpa using this
    · apply heldBound_fetch M C (d.stop + d.la) prev (startsFrom d.stop ds) _ sizes del hC hneed
      simp only [HeldBound]
      apply ih d.stop _ _ _ (fun x hx => hL x (by simp [hx])) (by omega)
      -- the remaining sizes are a suffix of `sizes`
      exact fetch_rest_le C _ _ _ hC
where
  fetch_rest_le (C need : Nat) (sizes : List Nat) (del : Nat) (hC : ∀ s ∈ sizes, s ≤ C) :
      ∀ s ∈ (fetch need del sizes).2.2, s ≤ C := by
    induction sizes generalizing del with
    | nil => simp only [fetch]; split <;> simp
    | cons s ss ih =>
      simp only [fetch]
      split
      · exact ih _ (fun x hx => hC x (by simp [hx]))
      · exact hC

/-! ## Coalescing writes -/

theorem coalesce_accepts (bs os : List Nat) (tr : List Ev) (w i j : Nat) :
    firstBad bs os w i (coalesce tr) = none ↔ firstBad bs os w j tr = none := by
  fun_induction coalesce tr generalizing w i j with
  | case1 a b t ih =>
    rw [ih w i j]
    simp [firstBad, Nat.add_assoc]
    exact firstBad_none_idx _ _ _ _ _ _
  | case2 e t _ ih =>
    cases e with
    | wr n => simp only [firstBad]; exact ih _ _ _
    | rd off n =>
      simp only [firstBad]
      split
      · exact ih _ _ _
      · simp
  | case3 => simp [firstBad]

end Xt.Stream
