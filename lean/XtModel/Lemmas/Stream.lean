import XtModel.Model.Stream

/-!
Helper lemmas for the stream model (`Model/Stream.lean`), used by `Props/C05.lean`.
-/
namespace Xt.Stream

end Xt.Stream
