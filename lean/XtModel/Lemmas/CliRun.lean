import XtModel.Lemmas.CliOut
import XtModel.Lemmas.CliArgs

/-!
The per-input loop of `main`: how an iteration ends, the shape of every run of
the loop (all inputs pass, or a first input stops it), invariants.
-/
namespace Xt.Cli

/-- Bytes the library writes for a call (when every write succeeds). -/
def callBytes (w : World) (earlier : List Call) (c : Call) : Bytes :=
  eventsBytes (w.lib.run earlier c).events

/-- The outputs of a sequence of calls made on one `Translator`, in order. -/
def outputsFrom (w : World) (earlier : List Call) : List Call → List Bytes
  | [] => []
  | c :: cs => callBytes w earlier c :: outputsFrom w (earlier ++ [c]) cs

/-- Concatenated library output of the calls of a run. -/
def libOutput (w : World) (calls : List (InputPath × Call)) : Bytes :=
  (outputsFrom w [] (calls.map (·.2))).flatten

theorem outputsFrom_append (w : World) (earlier cs : List Call) (c : Call) :
    outputsFrom w earlier (cs ++ [c]) = outputsFrom w earlier cs ++ [callBytes w (earlier ++ cs) c] := by
  induction cs generalizing earlier with
  | nil => simp [outputsFrom]
  | cons x xs ih => simp [outputsFrom, ih, List.append_assoc]

theorem libOutput_append (w : World) (calls : List (InputPath × Call)) (p : InputPath) (c : Call) :
    libOutput w (calls ++ [(p, c)]) = libOutput w calls ++ callBytes w (calls.map (·.2)) c := by
  simp [libOutput, outputsFrom_append]

/-- The loop passes every input of `paths`, ending in state `s'`. -/
def foldSteps (w : World) (cliFrom : Option Fmt) (to : Fmt) : List InputPath → LoopSt → Option LoopSt
  | [], s => some s
  | p :: rest, s =>
    match step w cliFrom to s p with
    | .next s' => foldSteps w cliFrom to rest s'
    | .stop _ => none

/-- **Shape of every run of the loop**: either every input passes and `main`
returns, or there is a first input at which the process ends. -/
theorem mainLoop_cases (w : World) (cf : Option Fmt) (to : Fmt) (paths : List InputPath) (s : LoopSt) :
    (∃ s', foldSteps w cf to paths s = some s' ∧ mainLoop w cf to paths s = finish w s') ∨
    (∃ pre p post s' r, paths = pre ++ p :: post ∧ foldSteps w cf to pre s = some s' ∧
      step w cf to s' p = .stop r ∧ mainLoop w cf to paths s = r) := by
  induction paths generalizing s with
  | nil => exact .inl ⟨s, rfl, rfl⟩
  | cons p rest ih =>
    cases hs : step w cf to s p with
    | next s1 =>
      rcases ih s1 with ⟨s', h1, h2⟩ | ⟨pre, q, post, s', r, h1, h2, h3, h4⟩
      · exact .inl ⟨s', by simp [foldSteps, hs, h1], by simp [mainLoop, hs, h2]⟩
      · refine .inr ⟨p :: pre, q, post, s', r, by simp [h1], by simp [foldSteps, hs, h2], h3, ?_⟩
        simp [mainLoop, hs, h4]
    | stop r =>
      exact .inr ⟨[], p, rest, s, r, rfl, rfl, hs, by simp [mainLoop, hs]⟩

theorem mainLoop_of_fold {w : World} {cf : Option Fmt} {to : Fmt} {paths : List InputPath} {s s' : LoopSt}
    (h : foldSteps w cf to paths s = some s') : mainLoop w cf to paths s = finish w s' := by
  induction paths generalizing s with
  | nil => simp [foldSteps] at h; subst h; rfl
  | cons p rest ih =>
    unfold foldSteps at h
    cases hs : step w cf to s p with
    | next s1 => rw [hs] at h; simp only at h; simp [mainLoop, hs, ih h]
    | stop r => rw [hs] at h; simp at h

theorem mainLoop_of_stop {w : World} {cf : Option Fmt} {to : Fmt} {pre post : List InputPath} {p : InputPath}
    {s s' : LoopSt} {r : Run} (h : foldSteps w cf to pre s = some s') (hs : step w cf to s' p = .stop r) :
    mainLoop w cf to (pre ++ p :: post) s = r := by
  induction pre generalizing s with
  | nil => simp [foldSteps] at h; subst h; simp [mainLoop, hs]
  | cons q rest ih =>
    unfold foldSteps at h
    cases hq : step w cf to s q with
    | next s1 => rw [hq] at h; simp only at h; simp [mainLoop, hq, ih h]
    | stop r => rw [hq] at h; simp at h

/-- An invariant of the loop state holds after any number of passed inputs. -/
theorem foldSteps_invariant {w : World} {cf : Option Fmt} {to : Fmt} (I : LoopSt → Prop)
    (hstep : ∀ s p s', I s → step w cf to s p = .next s' → I s')
    {paths : List InputPath} {s s' : LoopSt} (h0 : I s) (h : foldSteps w cf to paths s = some s') : I s' := by
  induction paths generalizing s with
  | nil => simp [foldSteps] at h; subst h; exact h0
  | cons p rest ih =>
    unfold foldSteps at h
    cases hs : step w cf to s p with
    | next s1 => rw [hs] at h; exact ih (hstep s p s1 h0 hs) h
    | stop r => rw [hs] at h; simp at h

/-! ### How one iteration ends -/

/-- The call `main` makes for an opened input. -/
def callOf (w : World) (cf : Option Fmt) (to : Fmt) (path : InputPath) (input : Input) : Call :=
  { data := input.data w.stdin, «from» := resolveFrom cf path, to := to }

/-- The input opened, is not a second use of standard input, and the library
call ended with `tr`, leaving the output stack in `o1`. -/
def Translated (w : World) (cf : Option Fmt) (to : Fmt) (s : LoopSt) (path : InputPath) (input : Input)
    (tr : TrR) (o1 : Out) : Prop :=
  path.open w.fs = .ok input ∧ ¬ (input = .stdin ∧ s.stdinUsed = true) ∧
    translateCall w (s.calls.map (·.2)) (callOf w cf to path input) s.out = (tr, o1)

/-- The calls started once this input's call has been made. -/
def callsAfter (w : World) (cf : Option Fmt) (to : Fmt) (s : LoopSt) (path : InputPath) (input : Input) :
    List (InputPath × Call) :=
  s.calls ++ [(path, callOf w cf to path input)]

/-- The state after this input passed, with the output stack in `o`. -/
def stateAfter (w : World) (cf : Option Fmt) (to : Fmt) (s : LoopSt) (path : InputPath) (input : Input)
    (o : Out) : LoopSt :=
  { stdinUsed := s.stdinUsed || (input = .stdin), calls := callsAfter w cf to s path input, out := o }

/-- **Every way an iteration can end** (exhaustive and exclusive by construction). -/
theorem step_cases (w : World) (cf : Option Fmt) (to : Fmt) (s : LoopSt) (path : InputPath) :
    (∃ msg, path.open w.fs = .error msg ∧
      step w cf to s path = .stop (exitWith 1 (bailPathLine path msg) s.calls s.out)) ∨
    (path.open w.fs = .ok .stdin ∧ s.stdinUsed = true ∧
      step w cf to s path = .stop (exitWith 1 (bailLine stdinTwice) s.calls s.out)) ∨
    (∃ input o1, Translated w cf to s path input .killed o1 ∧
      step w cf to s path =
        .stop { exit := .sigpipe, stderr := [], calls := callsAfter w cf to s path input, out := o1 }) ∨
    (∃ input o1 msg, Translated w cf to s path input (.failed msg) o1 ∧
      step w cf to s path = .stop (exitWith 1 (bailPathLine path msg) (callsAfter w cf to s path input) o1)) ∨
    (∃ input o1, Translated w cf to s path input .ok o1 ∧ w.perInputFlush = false ∧
      step w cf to s path = .next (stateAfter w cf to s path input o1)) ∨
    (∃ input o1 o2, Translated w cf to s path input .ok o1 ∧ w.perInputFlush = true ∧
      Writer.flush w.fd o1 = (.killedBySigpipe, o2) ∧
      step w cf to s path =
        .stop { exit := .sigpipe, stderr := [], calls := callsAfter w cf to s path input, out := o2 }) ∨
    (∃ input o1 o2 e, Translated w cf to s path input .ok o1 ∧ w.perInputFlush = true ∧
      Writer.flush w.fd o1 = (.returned (.error e), o2) ∧
      step w cf to s path = .stop (exitWith 1 (bailLine e.display) (callsAfter w cf to s path input) o2)) ∨
    (∃ input o1 o2, Translated w cf to s path input .ok o1 ∧ w.perInputFlush = true ∧
      Writer.flush w.fd o1 = (.returned (.ok ()), o2) ∧
      step w cf to s path = .next (stateAfter w cf to s path input o2)) := by
  cases ho : path.open w.fs with
  | error msg => exact .inl ⟨msg, rfl, by simp [step, ho]⟩
  | ok input =>
    by_cases h2 : input = .stdin ∧ s.stdinUsed = true
    · obtain ⟨rfl, h3⟩ := h2
      exact .inr (.inl ⟨rfl, h3, by simp [step, ho, h3]⟩)
    · cases ht : translateCall w (s.calls.map (·.2)) (callOf w cf to path input) s.out with
      | mk tr o1 =>
        have ht' : translateCall w (s.calls.map (·.2))
            { data := input.data w.stdin, «from» := resolveFrom cf path, to := to } s.out = (tr, o1) := ht
        have hT : Translated w cf to s path input tr o1 := ⟨ho, h2, ht⟩
        cases tr with
        | killed =>
          exact .inr (.inr (.inl ⟨input, o1, hT, by simp [step, ho, h2, ht', callsAfter, callOf]⟩))
        | failed msg =>
          exact .inr (.inr (.inr (.inl ⟨input, o1, msg, hT, by simp [step, ho, h2, ht', callsAfter, callOf]⟩)))
        | ok =>
          by_cases hf : w.perInputFlush = true
          · cases hfl : Writer.flush w.fd o1 with
            | mk fr o2 =>
              cases fr with
              | killedBySigpipe =>
                exact .inr (.inr (.inr (.inr (.inr (.inl ⟨input, o1, o2, hT, hf, hfl,
                  by simp [step, ho, h2, ht', hf, hfl, callsAfter, callOf]⟩)))))
              | returned r =>
                cases r with
                | error e =>
                  exact .inr (.inr (.inr (.inr (.inr (.inr (.inl ⟨input, o1, o2, e, hT, hf, hfl,
                    by simp [step, ho, h2, ht', hf, hfl, callsAfter, callOf]⟩))))))
                | ok u =>
                  cases u
                  exact .inr (.inr (.inr (.inr (.inr (.inr (.inr ⟨input, o1, o2, hT, hf, hfl,
                    by simp [step, ho, h2, ht', hf, hfl, stateAfter, callsAfter, callOf]⟩))))))
          · have hf' : w.perInputFlush = false := by simpa using hf
            exact .inr (.inr (.inr (.inr (.inl ⟨input, o1, hT, hf',
              by simp [step, ho, h2, ht', hf', stateAfter, callsAfter, callOf]⟩))))

/-- What `xt_bail!` / `xt_bail_path!` can have printed when an iteration exits with status 1. -/
def Exit1Stderr (path : InputPath) (stderr : Str) : Prop :=
  (∃ msg, stderr = bailPathLine path msg) ∨ stderr = bailLine stdinTwice ∨ (∃ e : IoErr, stderr = bailLine e.display)

/-- An iteration that ends the process does so with status 1 and one `xt error`
line, or by SIGPIPE with nothing on stderr. -/
theorem step_stop_shape {w : World} {cf : Option Fmt} {to : Fmt} {s : LoopSt} {path : InputPath} {r : Run}
    (h : step w cf to s path = .stop r) :
    (r.exit = .code 1 ∧ Exit1Stderr path r.stderr) ∨ (r.exit = .sigpipe ∧ r.stderr = []) := by
  rcases step_cases w cf to s path with ⟨msg, _, e⟩ | ⟨_, _, e⟩ | ⟨i, o1, _, e⟩ | ⟨i, o1, msg, _, e⟩ |
    ⟨i, o1, _, _, e⟩ | ⟨i, o1, o2, _, _, _, e⟩ | ⟨i, o1, o2, er, _, _, _, e⟩ | ⟨i, o1, o2, _, _, _, e⟩
  all_goals rw [e] at h
  · injection h with h; subst h; exact .inl ⟨rfl, .inl ⟨msg, rfl⟩⟩
  · injection h with h; subst h; exact .inl ⟨rfl, .inr (.inl rfl)⟩
  · injection h with h; subst h; exact .inr ⟨rfl, rfl⟩
  · injection h with h; subst h; exact .inl ⟨rfl, .inl ⟨msg, rfl⟩⟩
  · simp at h
  · injection h with h; subst h; exact .inr ⟨rfl, rfl⟩
  · injection h with h; subst h; exact .inl ⟨rfl, .inr (.inr ⟨er, rfl⟩)⟩
  · simp at h

/-- The loop as a whole: status 0, 1 or SIGPIPE. -/
theorem mainLoop_exit (w : World) (cf : Option Fmt) (to : Fmt) (paths : List InputPath) (s : LoopSt) :
    ((mainLoop w cf to paths s).exit = .code 0 ∧ (mainLoop w cf to paths s).stderr = [] ∧
        ∃ s', foldSteps w cf to paths s = some s') ∨
    ((mainLoop w cf to paths s).exit = .code 1 ∧ foldSteps w cf to paths s = none ∧
        ∃ p ∈ paths, Exit1Stderr p (mainLoop w cf to paths s).stderr) ∨
    ((mainLoop w cf to paths s).exit = .sigpipe ∧ foldSteps w cf to paths s = none ∧
        (mainLoop w cf to paths s).stderr = []) := by
  rcases mainLoop_cases w cf to paths s with ⟨s', h1, h2⟩ | ⟨pre, p, post, s', r, h1, h2, h3, h4⟩
  · exact .inl ⟨by rw [h2]; rfl, by rw [h2]; rfl, s', h1⟩
  · have hnone : foldSteps w cf to paths s = none := by
      subst h1
      clear h4
      induction pre generalizing s with
      | nil => simp [foldSteps] at h2; subst h2; simp [foldSteps, h3]
      | cons q rest ih =>
        unfold foldSteps at h2
        cases hq : step w cf to s q with
        | next s1 => rw [hq] at h2; simp only at h2; simp [foldSteps, hq, ih s1 h2]
        | stop r' => rw [hq] at h2; simp at h2
    rw [h4]
    rcases step_stop_shape h3 with ⟨e1, e2⟩ | ⟨e1, e2⟩
    · exact .inr (.inl ⟨e1, hnone, p, by simp [h1], e2⟩)
    · exact .inr (.inr ⟨e1, hnone, e2⟩)

/-! ### Direct consequences of how an input fails -/

theorem step_of_open_error {w : World} {cf : Option Fmt} {to : Fmt} {s : LoopSt} {path : InputPath} {msg : Str}
    (h : path.open w.fs = .error msg) :
    step w cf to s path = .stop (exitWith 1 (bailPathLine path msg) s.calls s.out) := by
  simp [step, h]

theorem step_of_stdin_twice {w : World} {cf : Option Fmt} {to : Fmt} {s : LoopSt} {path : InputPath}
    (h : path.open w.fs = .ok .stdin) (h2 : s.stdinUsed = true) :
    step w cf to s path = .stop (exitWith 1 (bailLine stdinTwice) s.calls s.out) := by
  simp [step, h, h2]

theorem step_of_failed {w : World} {cf : Option Fmt} {to : Fmt} {s : LoopSt} {path : InputPath} {input : Input}
    {o1 : Out} {msg : Str} (h : Translated w cf to s path input (.failed msg) o1) :
    step w cf to s path = .stop (exitWith 1 (bailPathLine path msg) (callsAfter w cf to s path input) o1) := by
  obtain ⟨h1, h2, h3⟩ := h
  have h3' : translateCall w (s.calls.map (·.2))
      { data := input.data w.stdin, «from» := resolveFrom cf path, to := to } s.out = (.failed msg, o1) := h3
  simp [step, h1, h2, h3', callsAfter, callOf]

/-! ### The loop over a descriptor that accepts everything -/

theorem translateCall_good {w : World} (h : GoodFd w.fd) (earlier : List Call) (call : Call) (o : Out) :
    (translateCall w earlier call o).1 =
        (match (w.lib.run earlier call).result with
          | none => .ok
          | some m => .failed m) ∧
      Conserves o (translateCall w earlier call o).2 (callBytes w earlier call) := by
  obtain ⟨h1, h2⟩ := execEvents_good h (w.lib.run earlier call).events 0 o
  unfold translateCall
  simp only
  cases he : execEvents w.fd (w.lib.run earlier call).events 0 o with
  | mk r rest =>
    cases rest with
    | mk i o' =>
      rw [he] at h1 h2; simp only at h1 h2; subst h1
      simp only
      cases (w.lib.run earlier call).result <;> exact ⟨rfl, h2⟩

/-- After every passed input xt's `BufWriter` is empty and standard output holds
exactly the library's output for the calls made so far. -/
def FlushedInv (w : World) (s : LoopSt) : Prop :=
  s.out.buf = [] ∧ s.out.fd.accepted = libOutput w s.calls

theorem flushedInv_init (w : World) : FlushedInv w LoopSt.init := by
  simp [FlushedInv, LoopSt.init, Out.init, FdSt.init, libOutput, outputsFrom]

theorem step_next_good {w : World} (h : GoodFd w.fd) (hf : w.perInputFlush = true) {cf : Option Fmt} {to : Fmt}
    {s s' : LoopSt} {path : InputPath} (hI : FlushedInv w s) (hs : step w cf to s path = .next s') :
    FlushedInv w s' ∧ ∃ input, path.open w.fs = .ok input ∧ s'.calls = callsAfter w cf to s path input ∧
      (w.lib.run (s.calls.map (·.2)) (callOf w cf to path input)).result = none := by
  rcases step_cases w cf to s path with ⟨msg, _, e⟩ | ⟨_, _, e⟩ | ⟨i, o1, _, e⟩ | ⟨i, o1, msg, _, e⟩ |
    ⟨i, o1, _, hnf, e⟩ | ⟨i, o1, o2, _, _, _, e⟩ | ⟨i, o1, o2, er, _, _, _, e⟩ | ⟨i, o1, o2, hT, _, hfl, e⟩
  all_goals rw [e] at hs
  all_goals try (simp at hs; done)
  · rw [hf] at hnf; simp at hnf
  · injection hs with hs; subst hs
    obtain ⟨ho, h2, ht⟩ := hT
    obtain ⟨t1, t2⟩ := translateCall_good h (s.calls.map (·.2)) (callOf w cf to path i) s.out
    rw [ht] at t1 t2
    simp only at t1 t2
    obtain ⟨o2', hw, w1, w2, _⟩ := writerFlush_good h o1
    rw [hfl] at hw; injection hw with _ hw; subst hw
    have hres : (w.lib.run (s.calls.map (·.2)) (callOf w cf to path i)).result = none := by
      cases hr : (w.lib.run (s.calls.map (·.2)) (callOf w cf to path i)).result with
      | none => rfl
      | some m => rw [hr] at t1; simp at t1
    refine ⟨⟨w1, ?_⟩, i, ho, rfl, hres⟩
    show o2.fd.accepted = libOutput w (callsAfter w cf to s path i)
    rw [w2, t2.1]
    simp only [callsAfter, libOutput_append, Out.total, hI.1, hI.2, List.append_nil]

/-- With a good descriptor, when an iteration ends the process it is with
status 1, and standard output holds the complete output of the earlier inputs
followed by a prefix of what the library wrote for this one. -/
theorem step_stop_good {w : World} (h : GoodFd w.fd) {cf : Option Fmt} {to : Fmt}
    {s : LoopSt} {r : Run} {path : InputPath} (hI : FlushedInv w s) (hs : step w cf to s path = .stop r) :
    r.exit = .code 1 ∧
      ((r.calls = s.calls ∧ r.stdout = libOutput w s.calls) ∨
       (∃ input q, path.open w.fs = .ok input ∧ r.calls = callsAfter w cf to s path input ∧
          r.stdout = libOutput w s.calls ++ q ∧
          q <+: callBytes w (s.calls.map (·.2)) (callOf w cf to path input))) := by
  have partial_ok : ∀ (input : Input) (tr : TrR) (o1 : Out), Translated w cf to s path input tr o1 →
      ∃ q, o1.fd.accepted = libOutput w s.calls ++ q ∧
        q <+: callBytes w (s.calls.map (·.2)) (callOf w cf to path input) := by
    intro input tr o1 hT
    obtain ⟨_, _, ht⟩ := hT
    obtain ⟨_, t2⟩ := translateCall_good h (s.calls.map (·.2)) (callOf w cf to path input) s.out
    rw [ht] at t2; simp only at t2
    obtain ⟨c1, c2, _⟩ := t2
    obtain ⟨q, hq⟩ := c2
    refine ⟨q, by rw [← hq, hI.2], ?_⟩
    have : s.out.fd.accepted ++ (q ++ o1.buf) =
        s.out.fd.accepted ++ callBytes w (s.calls.map (·.2)) (callOf w cf to path input) := by
      have := c1; simp only [Out.total, hI.1, List.append_nil, ← hq] at this
      simpa [List.append_assoc] using this
    have := List.append_cancel_left this
    exact ⟨o1.buf, this⟩
  rcases step_cases w cf to s path with ⟨msg, _, e⟩ | ⟨_, _, e⟩ | ⟨i, o1, hT, e⟩ | ⟨i, o1, msg, hT, e⟩ |
    ⟨i, o1, _, hnf, e⟩ | ⟨i, o1, o2, hT, _, hfl, e⟩ | ⟨i, o1, o2, er, hT, _, hfl, e⟩ | ⟨i, o1, o2, hT, _, hfl, e⟩
  all_goals rw [e] at hs
  all_goals try (simp at hs; done)
  · injection hs with hs; subst hs; exact ⟨rfl, .inl ⟨rfl, by simp [exitWith, Run.stdout, hI.2]⟩⟩
  · injection hs with hs; subst hs; exact ⟨rfl, .inl ⟨rfl, by simp [exitWith, Run.stdout, hI.2]⟩⟩
  · -- killed during translation: impossible, nothing returns EPIPE
    obtain ⟨_, _, ht⟩ := hT
    obtain ⟨t1, _⟩ := translateCall_good h (s.calls.map (·.2)) (callOf w cf to path i) s.out
    rw [ht] at t1; simp only at t1
    cases hr : (w.lib.run (s.calls.map (·.2)) (callOf w cf to path i)).result <;> rw [hr] at t1 <;> simp at t1
  · injection hs with hs; subst hs
    obtain ⟨q, hq1, hq2⟩ := partial_ok i _ o1 hT
    exact ⟨rfl, .inr ⟨i, q, hT.1, rfl, by simp [exitWith, Run.stdout, hq1], hq2⟩⟩
  · obtain ⟨o2', hw, _⟩ := writerFlush_good h o1
    rw [hfl] at hw; simp at hw
  · obtain ⟨o2', hw, _⟩ := writerFlush_good h o1
    rw [hfl] at hw; simp at hw

theorem foldSteps_good {w : World} (h : GoodFd w.fd) (hf : w.perInputFlush = true) {cf : Option Fmt} {to : Fmt}
    {paths : List InputPath} {s s' : LoopSt} (hI : FlushedInv w s) (hfold : foldSteps w cf to paths s = some s') :
    FlushedInv w s' :=
  foldSteps_invariant (FlushedInv w) (fun _ _ _ hI hs => (step_next_good h hf hI hs).1) hI hfold

/-- The calls made while passing `paths` are one per input, in order. -/
theorem foldSteps_calls {w : World} {cf : Option Fmt} {to : Fmt} {paths : List InputPath} {s s' : LoopSt}
    (hfold : foldSteps w cf to paths s = some s') :
    s'.calls.map (·.1) = s.calls.map (·.1) ++ paths := by
  induction paths generalizing s with
  | nil => simp [foldSteps] at hfold; subst hfold; simp
  | cons p rest ih =>
    unfold foldSteps at hfold
    cases hs : step w cf to s p with
    | stop r => rw [hs] at hfold; simp at hfold
    | next s1 =>
      rw [hs] at hfold
      have := ih hfold
      rw [this]
      rcases step_cases w cf to s p with ⟨msg, _, e⟩ | ⟨_, _, e⟩ | ⟨i, o1, _, e⟩ | ⟨i, o1, msg, _, e⟩ |
        ⟨i, o1, _, _, e⟩ | ⟨i, o1, o2, _, _, _, e⟩ | ⟨i, o1, o2, er, _, _, _, e⟩ | ⟨i, o1, o2, _, _, _, e⟩
      all_goals rw [e] at hs
      all_goals try (simp at hs; done)
      all_goals (injection hs with hs; subst hs; simp [stateAfter, callsAfter])

/-- **The whole loop over a good descriptor** (the real `main`, with the
per-input flush): either every input passes, the status is 0, nothing is left
in the buffer and standard output is exactly the library's output for the
calls made; or a first input `p` (after `pre`) stops it with status 1 and
standard output is the complete output for `pre` followed by a prefix of what
the library wrote for `p`. -/
theorem mainLoop_good (w : World) (h : GoodFd w.fd) (hf : w.perInputFlush = true) (cf : Option Fmt) (to : Fmt)
    (paths : List InputPath) :
    let r := mainLoop w cf to paths LoopSt.init
    (r.exit = .code 0 ∧ r.out.buf = [] ∧ r.stdout = libOutput w r.calls ∧ r.calls.map (·.1) = paths) ∨
    (r.exit = .code 1 ∧ ∃ pre p post s', paths = pre ++ p :: post ∧
        foldSteps w cf to pre LoopSt.init = some s' ∧ step w cf to s' p = .stop r ∧
        FlushedInv w s' ∧ s'.calls.map (·.1) = pre ∧
        ((r.calls = s'.calls ∧ r.stdout = libOutput w s'.calls) ∨
         (∃ input q, p.open w.fs = .ok input ∧ r.calls = callsAfter w cf to s' p input ∧
            r.stdout = libOutput w s'.calls ++ q ∧
            q <+: callBytes w (s'.calls.map (·.2)) (callOf w cf to p input)))) := by
  intro r
  rcases mainLoop_cases w cf to paths LoopSt.init with ⟨s', h1, h2⟩ | ⟨pre, p, post, s', r', h1, h2, h3, h4⟩
  · left
    have hI := foldSteps_good h hf (flushedInv_init w) h1
    have hc := foldSteps_calls h1
    obtain ⟨f1, f2, f3, f4⟩ := flushBuf_good h s'.out
    have hr : r = finish w s' := h2
    refine ⟨by rw [hr]; rfl, by rw [hr]; exact f2, ?_, ?_⟩
    · rw [hr]; show (flushBuf w.fd s'.out).2.fd.accepted = libOutput w s'.calls
      rw [f3, hI.1, hI.2]; simp
    · rw [hr]; show s'.calls.map (·.1) = paths
      simpa [LoopSt.init] using hc
  · right
    have hI := foldSteps_good h hf (flushedInv_init w) h2
    have hc := foldSteps_calls h2
    have hr : r = r' := h4
    obtain ⟨e1, e2⟩ := step_stop_good h hI h3
    rw [hr]
    exact ⟨e1, pre, p, post, s', h1, h2, h3, hI, by simpa [LoopSt.init] using hc, e2⟩

/-! ### Which calls a run makes -/

theorem open_stdin_iff (fs : Str → FileKind) (path : InputPath) :
    path.open fs = .ok .stdin ↔ path = .stdin := by
  cases path with
  | stdin => simp [InputPath.open]
  | file p => simp only [InputPath.open]; split <;> simp

/-- Every call is `callOf` of an input that opened. -/
def CallOk (w : World) (cf : Option Fmt) (to : Fmt) (pc : InputPath × Call) : Prop :=
  ∃ input, pc.1.open w.fs = .ok input ∧ pc.2 = callOf w cf to pc.1 input

theorem step_next_calls {w : World} {cf : Option Fmt} {to : Fmt} {s s' : LoopSt} {path : InputPath}
    (hs : step w cf to s path = .next s') :
    ∃ input, path.open w.fs = .ok input ∧ ¬ (input = .stdin ∧ s.stdinUsed = true) ∧
      s'.calls = callsAfter w cf to s path input ∧ s'.stdinUsed = (s.stdinUsed || (input = .stdin)) := by
  rcases step_cases w cf to s path with ⟨msg, _, e⟩ | ⟨_, _, e⟩ | ⟨i, o1, _, e⟩ | ⟨i, o1, msg, _, e⟩ |
    ⟨i, o1, hT, _, e⟩ | ⟨i, o1, o2, _, _, _, e⟩ | ⟨i, o1, o2, er, _, _, _, e⟩ | ⟨i, o1, o2, hT, _, _, e⟩
  all_goals rw [e] at hs
  all_goals try (simp at hs; done)
  all_goals (injection hs with hs; subst hs; exact ⟨i, hT.1, hT.2.1, rfl, rfl⟩)

theorem step_stop_calls {w : World} {cf : Option Fmt} {to : Fmt} {s : LoopSt} {r : Run} {path : InputPath}
    (hs : step w cf to s path = .stop r) :
    r.calls = s.calls ∨
      ∃ input, path.open w.fs = .ok input ∧ ¬ (input = .stdin ∧ s.stdinUsed = true) ∧
        r.calls = callsAfter w cf to s path input := by
  rcases step_cases w cf to s path with ⟨msg, _, e⟩ | ⟨_, _, e⟩ | ⟨i, o1, hT, e⟩ | ⟨i, o1, msg, hT, e⟩ |
    ⟨i, o1, _, _, e⟩ | ⟨i, o1, o2, hT, _, _, e⟩ | ⟨i, o1, o2, er, hT, _, _, e⟩ | ⟨i, o1, o2, _, _, _, e⟩
  all_goals rw [e] at hs
  all_goals try (simp at hs; done)
  · injection hs with hs; subst hs; exact .inl rfl
  · injection hs with hs; subst hs; exact .inl rfl
  all_goals (injection hs with hs; subst hs; exact .inr ⟨i, hT.1, hT.2.1, rfl⟩)

/-- Invariant: every call is well-formed, standard input was used at most
once, and `stdin_used` says whether it was. -/
def CallsInv (w : World) (cf : Option Fmt) (to : Fmt) (used : Bool) (calls : List (InputPath × Call)) : Prop :=
  (∀ pc ∈ calls, CallOk w cf to pc) ∧ (calls.filter (fun pc => pc.1 = .stdin)).length ≤ 1 ∧
    (used = false → calls.filter (fun pc => pc.1 = .stdin) = []) ∧
    (used = true → .stdin ∈ calls.map (·.1))

theorem callsInv_after {w : World} {cf : Option Fmt} {to : Fmt} {s : LoopSt} {path : InputPath} {input : Input}
    (hI : CallsInv w cf to s.stdinUsed s.calls) (ho : path.open w.fs = .ok input)
    (h2 : ¬ (input = .stdin ∧ s.stdinUsed = true)) :
    CallsInv w cf to (s.stdinUsed || (input = .stdin)) (callsAfter w cf to s path input) := by
  obtain ⟨i1, i2, i3, i4⟩ := hI
  have hiff : input = .stdin ↔ path = .stdin := by
    constructor
    · intro h; subst h; exact (open_stdin_iff _ _).1 ho
    · intro h; subst h; simp [InputPath.open] at ho; exact ho.symm
  refine ⟨?_, ?_, ?_, ?_⟩
  · intro pc hpc
    simp only [callsAfter, List.mem_append, List.mem_singleton] at hpc
    rcases hpc with hpc | hpc
    · exact i1 pc hpc
    · subst hpc; exact ⟨input, ho, rfl⟩
  · simp only [callsAfter, List.filter_append, List.length_append]
    by_cases hp : path = .stdin
    · have hu : s.stdinUsed = false := by
        cases hsu : s.stdinUsed with
        | false => rfl
        | true => exact absurd ⟨hiff.2 hp, hsu⟩ h2
      rw [i3 hu]; simp [hp]
    · simp [List.filter, hp]; exact i2
  · intro hu
    simp only [Bool.or_eq_false_iff, decide_eq_false_iff_not] at hu
    obtain ⟨hu1, hu2⟩ := hu
    have hp : ¬ path = .stdin := fun hp => hu2 (hiff.2 hp)
    simp [callsAfter, List.filter_append, i3 hu1, List.filter, hp]
  · intro hu
    simp only [Bool.or_eq_true, decide_eq_true_eq] at hu
    simp only [callsAfter, List.map_append, List.mem_append, List.map_cons, List.map_nil, List.mem_singleton]
    rcases hu with hu | hu
    · exact .inl (i4 hu)
    · exact .inr (hiff.1 hu).symm

theorem callsInv_init (w : World) (cf : Option Fmt) (to : Fmt) :
    CallsInv w cf to LoopSt.init.stdinUsed LoopSt.init.calls := by
  simp [CallsInv, LoopSt.init]

theorem foldSteps_callsInv {w : World} {cf : Option Fmt} {to : Fmt} {paths : List InputPath} {s s' : LoopSt}
    (hI : CallsInv w cf to s.stdinUsed s.calls) (hfold : foldSteps w cf to paths s = some s') :
    CallsInv w cf to s'.stdinUsed s'.calls := by
  refine foldSteps_invariant (fun s => CallsInv w cf to s.stdinUsed s.calls) ?_ hI hfold
  intro s p s1 hI hs
  obtain ⟨input, ho, h2, hc, hu⟩ := step_next_calls hs
  rw [hc, hu]; exact callsInv_after hI ho h2

/-- **Every run of the loop** makes only well-formed calls and at most one on standard input. -/
theorem mainLoop_callsInv (w : World) (cf : Option Fmt) (to : Fmt) (paths : List InputPath) :
    (∀ pc ∈ (mainLoop w cf to paths LoopSt.init).calls, CallOk w cf to pc) ∧
    ((mainLoop w cf to paths LoopSt.init).calls.filter (fun pc => pc.1 = .stdin)).length ≤ 1 := by
  rcases mainLoop_cases w cf to paths LoopSt.init with ⟨s', h1, h2⟩ | ⟨pre, p, post, s', r, h1, h2, h3, h4⟩
  · have hI := foldSteps_callsInv (callsInv_init w cf to) h1
    rw [h2]; exact ⟨hI.1, hI.2.1⟩
  · have hI := foldSteps_callsInv (callsInv_init w cf to) h2
    rw [h4]
    rcases step_stop_calls h3 with hc | ⟨input, ho, hn, hc⟩
    · rw [hc]; exact ⟨hI.1, hI.2.1⟩
    · have := callsInv_after hI ho hn
      rw [hc]; exact ⟨this.1, this.2.1⟩

end Xt.Cli
