import XtModel.Model.Chunker

/-!
Specification-side definitions and helper lemmas for the chunker model
(`Model/Chunker.lean`).  Used by `Props/C03.lean` (and by C04/C05/C17).
-/
namespace Xt.Chunker

/-! ## The hypothesis about the parser's trace -/

/-- `Mono n cs inDoc evs`: the two offsets the chunker cuts at —
`start` of each document start event and `stop` of each document end event —
never go backwards (`cs` is the previous cut), have been read when the event
arrives, lie inside the `n`-byte stream, and a document end only comes inside a
document.  Events after the stream end event are unconstrained (never looked
at), as are the offsets of all other events. -/
def Mono (n : Nat) : Nat → Bool → List Ev → Prop
  | _, _, [] => True
  | cs, inDoc, e :: rest =>
    match e.kind with
    | .docStart => cs ≤ e.start ∧ e.start ≤ e.readOff ∧ e.readOff ≤ n ∧ Mono n e.start true rest
    | .docEnd => inDoc = true ∧ cs ≤ e.stop ∧ e.stop ≤ e.readOff ∧ e.readOff ≤ n ∧ Mono n e.stop false rest
    | .streamEnd => True
    | _ => Mono n cs inDoc rest

/-- `EventsMonotone`: the named hypothesis about libyaml's event trace for a
stream (sampled on every real trace by the harness). -/
def EventsMonotone (stream : List Nat) (evs : List Ev) : Prop :=
  stream.length < u64Bound ∧ Mono stream.length 0 false evs

/-- Where a chunk starts when the document start event is at `a` and the
previous cut was at `cs`: `trim_to_offset` retreats over the spaces that
immediately precede `a`, but not beyond the previous cut. -/
def spaceStart (stream : List Nat) (cs : Nat) : Nat → Nat
  | 0 => 0
  | a + 1 => if cs < a + 1 ∧ stream[a]? = some 0x20 then spaceStart stream cs a else a + 1

/-- Every cut `[chunk start, stop)` taken at a document end is well-formed
UTF-8 (libyaml has decoded, hence validated, everything up to a mark it
reports, and marks fall on character boundaries). -/
def Utf8Ok (stream : List Nat) : Nat → List Ev → Prop
  | _, [] => True
  | cs, e :: rest =>
    match e.kind with
    | .docStart => Utf8Ok stream (spaceStart stream cs e.start) rest
    | .docEnd => validUtf8 (slice stream cs e.stop) = true ∧ Utf8Ok stream e.stop rest
    | .streamEnd => True
    | _ => Utf8Ok stream cs rest

/-- `ChunksUtf8`: second named hypothesis about libyaml. -/
def ChunksUtf8 (stream : List Nat) (evs : List Ev) : Prop := Utf8Ok stream 0 evs

/-! ## What the chunker should return: a specification on offsets only -/

def isBoundary (e : Ev) : Bool :=
  match e.kind with
  | .docStart => true
  | .streamEnd => true
  | _ => false

/-- A later document start or the stream end is seen. -/
def followed : List Ev → Bool
  | [] => false
  | e :: rest => isBoundary e || followed rest

/-- Position of the first document start / stream end event. -/
def relIdx : List Ev → Nat
  | [] => 0
  | e :: rest => if isBoundary e then 0 else relIdx rest + 1

/-- A document of the stream: its extent, its kind, the index of its document
end event and the index of the event at which it is due. -/
structure Span where
  start : Nat
  stop : Nat
  kind : Option DocKind
  deAt : Nat
  relAt : Nat
  deriving DecidableEq, Repr

def curScalar : Option (Nat × Option DocKind) → Option (Nat × Option DocKind)
  | none => none
  | some (a, k) => some (a, getOrInsert k .scalar)

def curCollection : Option (Nat × Option DocKind) → Option (Nat × Option DocKind)
  | none => none
  | some (a, k) => some (a, getOrInsert k .collection)

/-- The documents of a trace that are due: every (latest document start,
document end) pair before the stream end that is followed by another document
start or by the stream end, in order; a document's extent begins at the run of
spaces that immediately precedes its start event (not beyond the previous
cut `cs`).  `idx` is the index of the head event, `cur` the open document (its
start and what kind of node came first). -/
def released (stream : List Nat) : Nat → Nat → Option (Nat × Option DocKind) → List Ev → List Span
  | _, _, _, [] => []
  | idx, cs, cur, e :: rest =>
    match e.kind with
    | .streamEnd => []
    | .docStart =>
      released stream (idx + 1) (spaceStart stream cs e.start) (some (spaceStart stream cs e.start, none)) rest
    | .scalar => released stream (idx + 1) cs (curScalar cur) rest
    | .seqStart => released stream (idx + 1) cs (curCollection cur) rest
    | .mapStart => released stream (idx + 1) cs (curCollection cur) rest
    | .docEnd =>
      match cur with
      | some (a, k) =>
        if followed rest then
          ⟨a, e.stop, k, idx, idx + 1 + relIdx rest⟩ :: released stream (idx + 1) e.stop none rest
        else released stream (idx + 1) e.stop none rest
      | none => released stream (idx + 1) e.stop none rest
    | _ => released stream (idx + 1) cs cur rest

/-- All (document start, document end) pairs before the stream end, due or not. -/
def allPairs (stream : List Nat) : Nat → Option Nat → List Ev → List (Nat × Nat)
  | _, _, [] => []
  | cs, cur, e :: rest =>
    match e.kind with
    | .streamEnd => []
    | .docStart => allPairs stream (spaceStart stream cs e.start) (some (spaceStart stream cs e.start)) rest
    | .docEnd =>
      match cur with
      | some a => (a, e.stop) :: allPairs stream e.stop none rest
      | none => allPairs stream e.stop none rest
    | _ => allPairs stream cs cur rest

def toEmit (stream : List Nat) (s : Span) : Emit :=
  ⟨s.relAt, ⟨slice stream s.start s.stop, s.kind⟩⟩

def pendingEmit (idx : Nat) (last : Option Doc) (evs : List Ev) : List Emit :=
  match last with
  | some d => if followed evs then [⟨idx + relIdx evs, d⟩] else []
  | none => []

/-- How the iteration ends, as a function of the trace alone. -/
def endOf (t : Bool) : List Ev → End
  | [] => if t then .err else .incomplete
  | e :: rest => if e.kind = .streamEnd then .done else endOf t rest

/-- `lo ≤ s₁.start ≤ s₁.stop ≤ s₂.start ≤ … ≤ hi`: in order, pairwise disjoint. -/
def Chain (lo : Nat) : List Span → Nat → Prop
  | [], hi => lo ≤ hi
  | s :: rest, hi => lo ≤ s.start ∧ s.start ≤ s.stop ∧ Chain s.stop rest hi

/-- `captured_start_offset` after the listed events. -/
def cutAfter (stream : List Nat) (cs : Nat) : List Ev → Nat
  | [] => cs
  | e :: rest =>
    match e.kind with
    | .docStart => cutAfter stream (spaceStart stream cs e.start) rest
    | .docEnd => cutAfter stream e.stop rest
    | _ => cutAfter stream cs rest

/-- Bytes read when the whole list has been returned. -/
def readMax (fed : Nat) : List Ev → Nat
  | [] => fed
  | e :: rest => readMax (if fed < e.readOff then e.readOff else fed) rest

/-! ## Slices -/

theorem slice_length (s : List Nat) (a b : Nat) :
    (slice s a b).length = min (b - a) (s.length - a) := by
  simp [slice]

theorem slice_append (s : List Nat) (a b c : Nat) (h1 : a ≤ b) (h2 : b ≤ c) :
    slice s a b ++ slice s b c = slice s a c := by
  unfold slice
  have hb : s.drop b = (s.drop a).drop (b - a) := by
    rw [List.drop_drop]; congr 1; omega
  rw [hb]
  have hc : c - a = (b - a) + (c - b) := by omega
  rw [hc, List.take_add]

theorem slice_drop (s : List Nat) (a m b : Nat) (h : a ≤ m) :
    (slice s a b).drop (m - a) = slice s m b := by
  unfold slice
  rw [List.drop_take, List.drop_drop]
  congr 1
  · omega
  · congr 1; omega

theorem slice_take (s : List Nat) (a m b : Nat) (_h1 : a ≤ m) (h2 : m ≤ b) :
    (slice s a b).take (m - a) = slice s a m := by
  unfold slice
  rw [List.take_take]
  congr 1
  omega

/-! ## The invariant of the capture buffer -/

/-- The capture buffer holds exactly the stream bytes from
`captured_start_offset` to what has been read. -/
structure Inv (stream : List Nat) (st : St) : Prop where
  cap : st.reader.captured = slice stream st.reader.capturedStart st.fed
  le : st.reader.capturedStart ≤ st.fed

theorem inv_init (stream : List Nat) : Inv stream St.init :=
  ⟨by simp [St.init, slice], by simp [St.init]⟩

theorem feed_inv (stream : List Nat) (st : St) (upto : Nat) (h : Inv stream st) :
    Inv stream (st.feed stream upto) ∧
    (st.feed stream upto).reader.capturedStart = st.reader.capturedStart ∧
    (st.feed stream upto).last = st.last ∧ (st.feed stream upto).kind = st.kind ∧
    (st.feed stream upto).fed = (if st.fed < upto then upto else st.fed) := by
  unfold St.feed
  by_cases hlt : st.fed < upto
  · simp only [hlt, if_true]
    refine ⟨⟨?_, ?_⟩, by simp⟩
    · simp only
      rw [h.cap, slice_append _ _ _ _ h.le (Nat.le_of_lt hlt)]
    · simp only; have := h.le; omega
  · simp only [hlt, if_false]
    exact ⟨h, by simp⟩

/-! ## The run under the trace hypotheses -/

theorem slice_getElem? (s : List Nat) (a b t : Nat) (h : t < b - a) :
    (slice s a b)[t]? = s[a + t]? := by
  unfold slice
  rw [List.getElem?_take]
  simp [h]

theorem spaceStart_le (stream : List Nat) (cs : Nat) : ∀ a, spaceStart stream cs a ≤ a := by
  intro a
  induction a with
  | zero => simp [spaceStart]
  | succ a ih =>
    simp only [spaceStart]
    split
    · omega
    · exact Nat.le_refl _

theorem spaceStart_ge (stream : List Nat) (cs : Nat) : ∀ a, cs ≤ a → cs ≤ spaceStart stream cs a := by
  intro a
  induction a with
  | zero => intro h; simpa [spaceStart] using h
  | succ a ih =>
    intro h
    simp only [spaceStart]
    split
    · rename_i hc; exact ih (by omega)
    · exact h

theorem mono_cs_le (n : Nat) : ∀ (evs : List Ev) (cs cs' : Nat) (b : Bool), cs' ≤ cs →
    Mono n cs b evs → Mono n cs' b evs := by
  intro evs
  induction evs with
  | nil => intros; trivial
  | cons e rest ih =>
    intro cs cs' b hle hm
    cases hk : e.kind <;> simp only [Mono, hk] at hm ⊢
    case docStart => exact ⟨by omega, hm.2⟩
    case docEnd => exact ⟨hm.1, by omega, hm.2.2⟩
    all_goals exact ih cs cs' b hle hm

theorem retreat_ok (oc : Bool) (stream : List Nat) (cs fed : Nat) :
    ∀ a, cs ≤ a → a ≤ fed → a ≤ stream.length →
      retreat oc (slice stream cs fed) (a - cs) a =
        .ok (spaceStart stream cs a - cs, spaceStart stream cs a) := by
  intro a
  induction a with
  | zero =>
    intro h _ _
    have : cs = 0 := by omega
    subst this
    simp [retreat, spaceStart]
  | succ a ih =>
    intro h1 h2 h3
    by_cases hc : cs = a + 1
    · subst hc
      simp [retreat, spaceStart]
    · have hlt : cs < a + 1 := by omega
      have e1 : a + 1 - cs = (a - cs) + 1 := by omega
      rw [e1]
      simp only [retreat]
      rw [slice_getElem? stream cs fed (a - cs) (by omega)]
      have e2 : cs + (a - cs) = a := by omega
      rw [e2]
      have hs : stream[a]? = some stream[a] := List.getElem?_eq_getElem (by omega)
      rw [hs]
      simp only [spaceStart, hlt, true_and, hs]
      by_cases hb : stream[a] = 0x20
      · simp only [hb, if_true, Nat.zero_lt_succ, Nat.add_sub_cancel]
        exact ih (by omega) (by omega) (by omega)
      · simp [hb]; omega

/-- The loop only ever lowers `trim_len`, and it indexes `captured[trim_len - 1]`
before doing so: what it returns is within the buffer. -/
theorem retreat_le (oc : Bool) (captured : List Nat) :
    ∀ (d offset t o : Nat), retreat oc captured d offset = .ok (t, o) → t ≤ captured.length := by
  intro d
  induction d with
  | zero => intro offset t o h; simp [retreat] at h; omega
  | succ d ih =>
    intro offset t o h
    simp only [retreat] at h
    cases hc : captured[d]? with
    | none => simp [hc] at h
    | some b =>
      have hd : d < captured.length := by
        rcases List.getElem?_eq_some_iff.mp hc with ⟨hlt, _⟩; exact hlt
      simp only [hc] at h
      split at h
      · split at h
        · exact ih _ _ _ h
        · split at h
          · simp at h
          · exact ih _ _ _ h
      · simp at h; omega

theorem trim_ok (oc : Bool) (stream : List Nat) (st : St) (off : Nat) (h : Inv stream st)
    (hn : stream.length < u64Bound) (h1 : st.reader.capturedStart ≤ off) (h2 : off ≤ st.fed)
    (h3 : off ≤ stream.length) :
    st.reader.trimToOffset oc off =
      .ok ⟨slice stream (spaceStart stream st.reader.capturedStart off) st.fed,
           spaceStart stream st.reader.capturedStart off⟩ := by
  unfold Reader.trimToOffset subU64
  simp only [h1, if_true]
  have hb : ¬ u64Bound ≤ off - st.reader.capturedStart := by omega
  have hle := spaceStart_le stream st.reader.capturedStart off
  have hge := spaceStart_ge stream st.reader.capturedStart off h1
  simp only [hb, if_false]
  rw [h.cap, retreat_ok oc stream _ _ off h1 h2 h3]
  have hlen : spaceStart stream st.reader.capturedStart off - st.reader.capturedStart
      ≤ (slice stream st.reader.capturedStart st.fed).length := by
    rw [slice_length]; omega
  simp only [hlen, if_true]
  rw [slice_drop _ _ _ _ hge]

/-! ## The run under the trace hypotheses -/

/-- What the specification side knows about the state. -/
def Agree (st : St) : Option (Nat × Option DocKind) → Prop
  | none => True
  | some (a, k) => a = st.reader.capturedStart ∧ k = st.kind ∧ st.last = none

theorem take_ok (oc : Bool) (stream : List Nat) (st : St) (off : Nat) (h : Inv stream st)
    (hn : stream.length < u64Bound) (h1 : st.reader.capturedStart ≤ off) (h2 : off ≤ st.fed)
    (h3 : off ≤ stream.length) :
    st.reader.takeToOffset oc off =
      .ok (slice stream st.reader.capturedStart off, ⟨slice stream off st.fed, off⟩) := by
  unfold Reader.takeToOffset subU64
  simp only [h1, if_true]
  have hlen : off - st.reader.capturedStart ≤ st.reader.captured.length := by
    rw [h.cap, slice_length]; omega
  have hb : ¬ u64Bound ≤ off - st.reader.capturedStart := by omega
  simp only [hb, if_false, hlen, if_true]
  rw [h.cap, slice_drop _ _ _ _ h1, slice_take _ _ _ _ h1 h2]



theorem followed_cons_nb (e : Ev) (rest : List Ev) (h : isBoundary e = false) :
    followed (e :: rest) = followed rest ∧ relIdx (e :: rest) = relIdx rest + 1 := by
  simp [followed, relIdx, h]

theorem pendingEmit_nb (idx : Nat) (last : Option Doc) (e : Ev) (rest : List Ev)
    (h : isBoundary e = false) :
    pendingEmit idx last (e :: rest) = pendingEmit (idx + 1) last rest := by
  unfold pendingEmit
  obtain ⟨h1, h2⟩ := followed_cons_nb e rest h
  cases last with
  | none => rfl
  | some d =>
    simp only [h1, h2]
    have : idx + (relIdx rest + 1) = idx + 1 + relIdx rest := by omega
    rw [this]

theorem pendingEmit_b (idx : Nat) (last : Option Doc) (e : Ev) (rest : List Ev)
    (h : isBoundary e = true) :
    pendingEmit idx last (e :: rest) = emitList idx last := by
  unfold pendingEmit emitList
  cases last with
  | none => rfl
  | some d => simp [followed, relIdx, h]

theorem run_spec (oc : Bool) (stream : List Nat) (t : Bool) (hn : stream.length < u64Bound) :
    ∀ (evs : List Ev) (st : St) (idx : Nat) (cur : Option (Nat × Option DocKind)),
      Inv stream st → Agree st cur →
      Mono stream.length st.reader.capturedStart cur.isSome evs →
      Utf8Ok stream st.reader.capturedStart evs →
      run oc stream t st idx evs =
        ⟨pendingEmit idx st.last evs ++
          (released stream idx st.reader.capturedStart cur evs).map (toEmit stream), endOf t evs⟩ := by
  intro evs
  induction evs with
  | nil =>
    intro st idx cur _ _ _ _
    cases hl : st.last <;> simp [run, pendingEmit, released, endOf, followed]
  | cons e rest ih =>
    intro st idx cur hinv hag hm hu
    obtain ⟨hi, hcs, hlast, hkind, hfed⟩ := feed_inv stream st e.readOff hinv
    cases hk : e.kind
    case docStart =>
      simp only [Mono, hk] at hm
      simp only [Utf8Ok, hk] at hu
      obtain ⟨m1, m2, m3, m4⟩ := hm
      have hb : isBoundary e = true := by simp [isBoundary, hk]
      have htrim := trim_ok oc stream (st.feed stream e.readOff) e.start hi hn
        (by rw [hcs]; exact m1) (by rw [hfed]; split <;> omega) (by omega)
      rw [hcs] at htrim
      simp only [run, step, hk, htrim, released, pendingEmit_b _ _ _ _ hb, hlast]
      have hle := spaceStart_le stream st.reader.capturedStart e.start
      have hge := spaceStart_ge stream st.reader.capturedStart e.start m1
      have := ih { st.feed stream e.readOff with
                    reader := ⟨slice stream (spaceStart stream st.reader.capturedStart e.start) (st.feed stream e.readOff).fed,
                               spaceStart stream st.reader.capturedStart e.start⟩,
                    kind := none, last := none } (idx + 1) (some (spaceStart stream st.reader.capturedStart e.start, none))
        ⟨rfl, by simp only; rw [hfed]; split <;> omega⟩ ⟨rfl, rfl, rfl⟩
        (mono_cs_le _ _ _ _ _ hle m4) hu
      rw [this]
      simp [pendingEmit, endOf, hk]
    case docEnd =>
      simp only [Mono, hk] at hm
      simp only [Utf8Ok, hk] at hu
      obtain ⟨m0, m1, m2, m3, m4⟩ := hm
      obtain ⟨u1, u2⟩ := hu
      have hnb : isBoundary e = false := by simp [isBoundary, hk]
      cases cur with
      | none => simp at m0
      | some ak =>
        obtain ⟨a, k⟩ := ak
        obtain ⟨ha, hk', hl⟩ := hag
        have htake := take_ok oc stream (st.feed stream e.readOff) e.stop hi hn
          (by rw [hcs]; exact m1) (by rw [hfed]; split <;> omega) (by omega)
        rw [hcs] at htake
        simp only [run, step, hk, htake, u1, if_true, released, pendingEmit_nb _ _ _ _ hnb, hl]
        have := ih { st.feed stream e.readOff with
                      reader := ⟨slice stream e.stop (st.feed stream e.readOff).fed, e.stop⟩,
                      last := some ⟨slice stream st.reader.capturedStart e.stop, (st.feed stream e.readOff).kind⟩,
                      kind := none } (idx + 1) none
          ⟨rfl, by simp only; rw [hfed]; split <;> omega⟩ trivial m4 u2
        rw [this]
        simp only [pendingEmit, emitList, endOf, hk, hkind, ← ha, ← hk']
        by_cases hf : followed rest <;> simp [hf, toEmit]
    case streamEnd =>
      have hb : isBoundary e = true := by simp [isBoundary, hk]
      simp [run, step, hk, released, pendingEmit_b _ _ _ _ hb, hlast, endOf]
    case noEvent =>
      have hnb : isBoundary e = false := by simp [isBoundary, hk]
      simp only [Mono, hk] at hm
      simp only [Utf8Ok, hk] at hu
      simp only [run, step, hk, released, pendingEmit_nb _ _ _ _ hnb]
      have := ih (st.feed stream e.readOff) (idx + 1) cur hi
        (by cases cur with
            | none => trivial
            | some ak => obtain ⟨a, k⟩ := ak; obtain ⟨ha, hk', hl⟩ := hag
                         exact ⟨by rw [hcs]; exact ha, by rw [hkind]; exact hk', by rw [hlast]; exact hl⟩)
        (by rw [hcs]; exact hm) (by rw [hcs]; exact hu)
      rw [this]
      simp [emitList, endOf, hk, hlast, hcs]
    case streamStart =>
      have hnb : isBoundary e = false := by simp [isBoundary, hk]
      simp only [Mono, hk] at hm
      simp only [Utf8Ok, hk] at hu
      simp only [run, step, hk, released, pendingEmit_nb _ _ _ _ hnb]
      have := ih (st.feed stream e.readOff) (idx + 1) cur hi
        (by cases cur with
            | none => trivial
            | some ak => obtain ⟨a, k⟩ := ak; obtain ⟨ha, hk', hl⟩ := hag
                         exact ⟨by rw [hcs]; exact ha, by rw [hkind]; exact hk', by rw [hlast]; exact hl⟩)
        (by rw [hcs]; exact hm) (by rw [hcs]; exact hu)
      rw [this]
      simp [emitList, endOf, hk, hlast, hcs]
    case alias =>
      have hnb : isBoundary e = false := by simp [isBoundary, hk]
      simp only [Mono, hk] at hm
      simp only [Utf8Ok, hk] at hu
      simp only [run, step, hk, released, pendingEmit_nb _ _ _ _ hnb]
      have := ih (st.feed stream e.readOff) (idx + 1) cur hi
        (by cases cur with
            | none => trivial
            | some ak => obtain ⟨a, k⟩ := ak; obtain ⟨ha, hk', hl⟩ := hag
                         exact ⟨by rw [hcs]; exact ha, by rw [hkind]; exact hk', by rw [hlast]; exact hl⟩)
        (by rw [hcs]; exact hm) (by rw [hcs]; exact hu)
      rw [this]
      simp [emitList, endOf, hk, hlast, hcs]
    case seqEnd =>
      have hnb : isBoundary e = false := by simp [isBoundary, hk]
      simp only [Mono, hk] at hm
      simp only [Utf8Ok, hk] at hu
      simp only [run, step, hk, released, pendingEmit_nb _ _ _ _ hnb]
      have := ih (st.feed stream e.readOff) (idx + 1) cur hi
        (by cases cur with
            | none => trivial
            | some ak => obtain ⟨a, k⟩ := ak; obtain ⟨ha, hk', hl⟩ := hag
                         exact ⟨by rw [hcs]; exact ha, by rw [hkind]; exact hk', by rw [hlast]; exact hl⟩)
        (by rw [hcs]; exact hm) (by rw [hcs]; exact hu)
      rw [this]
      simp [emitList, endOf, hk, hlast, hcs]
    case mapEnd =>
      have hnb : isBoundary e = false := by simp [isBoundary, hk]
      simp only [Mono, hk] at hm
      simp only [Utf8Ok, hk] at hu
      simp only [run, step, hk, released, pendingEmit_nb _ _ _ _ hnb]
      have := ih (st.feed stream e.readOff) (idx + 1) cur hi
        (by cases cur with
            | none => trivial
            | some ak => obtain ⟨a, k⟩ := ak; obtain ⟨ha, hk', hl⟩ := hag
                         exact ⟨by rw [hcs]; exact ha, by rw [hkind]; exact hk', by rw [hlast]; exact hl⟩)
        (by rw [hcs]; exact hm) (by rw [hcs]; exact hu)
      rw [this]
      simp [emitList, endOf, hk, hlast, hcs]
    case scalar =>
      have hnb : isBoundary e = false := by simp [isBoundary, hk]
      simp only [Mono, hk] at hm
      simp only [Utf8Ok, hk] at hu
      simp only [run, step, hk, released, pendingEmit_nb _ _ _ _ hnb]
      have hsome : (curScalar cur).isSome = cur.isSome := by
        cases cur with
        | none => rfl
        | some ak => obtain ⟨a, k⟩ := ak; rfl
      have := ih { st.feed stream e.readOff with kind := getOrInsert (st.feed stream e.readOff).kind .scalar }
        (idx + 1) (curScalar cur) ⟨hi.cap, hi.le⟩
        (by cases cur with
            | none => trivial
            | some ak => obtain ⟨a, k⟩ := ak; obtain ⟨ha, hk', hl⟩ := hag
                         exact ⟨by simp only; rw [hcs]; exact ha, by simp only; rw [hkind, hk'], by simp only; rw [hlast]; exact hl⟩)
        (by simp only; rw [hcs, hsome]; exact hm) (by simp only; rw [hcs]; exact hu)
      rw [this]
      simp [emitList, endOf, hk, hlast, hcs]
    case seqStart =>
      have hnb : isBoundary e = false := by simp [isBoundary, hk]
      simp only [Mono, hk] at hm
      simp only [Utf8Ok, hk] at hu
      simp only [run, step, hk, released, pendingEmit_nb _ _ _ _ hnb]
      have hsome : (curCollection cur).isSome = cur.isSome := by
        cases cur with
        | none => rfl
        | some ak => obtain ⟨a, k⟩ := ak; rfl
      have := ih { st.feed stream e.readOff with kind := getOrInsert (st.feed stream e.readOff).kind .collection }
        (idx + 1) (curCollection cur) ⟨hi.cap, hi.le⟩
        (by cases cur with
            | none => trivial
            | some ak => obtain ⟨a, k⟩ := ak; obtain ⟨ha, hk', hl⟩ := hag
                         exact ⟨by simp only; rw [hcs]; exact ha, by simp only; rw [hkind, hk'], by simp only; rw [hlast]; exact hl⟩)
        (by simp only; rw [hcs, hsome]; exact hm) (by simp only; rw [hcs]; exact hu)
      rw [this]
      simp [emitList, endOf, hk, hlast, hcs]
    case mapStart =>
      have hnb : isBoundary e = false := by simp [isBoundary, hk]
      simp only [Mono, hk] at hm
      simp only [Utf8Ok, hk] at hu
      simp only [run, step, hk, released, pendingEmit_nb _ _ _ _ hnb]
      have hsome : (curCollection cur).isSome = cur.isSome := by
        cases cur with
        | none => rfl
        | some ak => obtain ⟨a, k⟩ := ak; rfl
      have := ih { st.feed stream e.readOff with kind := getOrInsert (st.feed stream e.readOff).kind .collection }
        (idx + 1) (curCollection cur) ⟨hi.cap, hi.le⟩
        (by cases cur with
            | none => trivial
            | some ak => obtain ⟨a, k⟩ := ak; obtain ⟨ha, hk', hl⟩ := hag
                         exact ⟨by simp only; rw [hcs]; exact ha, by simp only; rw [hkind, hk'], by simp only; rw [hlast]; exact hl⟩)
        (by simp only; rw [hcs, hsome]; exact hm) (by simp only; rw [hcs]; exact hu)
      rw [this]
      simp [emitList, endOf, hk, hlast, hcs]






/-- One step under the trace hypothesis: either the from_utf8 panic, or the
loop goes on / ends in a state that satisfies the invariant again. -/
theorem step_mono (oc : Bool) (stream : List Nat) (hn : stream.length < u64Bound)
    (st : St) (e : Ev) (rest : List Ev) (inDoc : Bool) (hinv : Inv stream st)
    (hm : Mono stream.length st.reader.capturedStart inDoc (e :: rest)) :
    step oc stream st e = .panic .fromUtf8 ∨
    (∃ em, step oc stream st e = .fin em) ∨
    (∃ st' em inDoc', step oc stream st e = .cont st' em ∧ Inv stream st' ∧
      Mono stream.length st'.reader.capturedStart inDoc' rest ∧
      st'.fed = (if st.fed < e.readOff then e.readOff else st.fed) ∧
      st.reader.capturedStart ≤ st'.reader.capturedStart ∧
      st'.reader.capturedStart = cutAfter stream st.reader.capturedStart [e]) := by
  obtain ⟨hi, hcs, hlast, hkind, hfed⟩ := feed_inv stream st e.readOff hinv
  cases hk : e.kind
  case docStart =>
    simp only [Mono, hk] at hm
    obtain ⟨m1, m2, m3, m4⟩ := hm
    have htrim := trim_ok oc stream (st.feed stream e.readOff) e.start hi hn
      (by rw [hcs]; exact m1) (by rw [hfed]; split <;> omega) (by omega)
    rw [hcs] at htrim
    have hle := spaceStart_le stream st.reader.capturedStart e.start
    have hge := spaceStart_ge stream st.reader.capturedStart e.start m1
    right; right
    refine ⟨{ st.feed stream e.readOff with
                reader := ⟨slice stream (spaceStart stream st.reader.capturedStart e.start) (st.feed stream e.readOff).fed,
                           spaceStart stream st.reader.capturedStart e.start⟩,
                kind := none, last := none }, (st.feed stream e.readOff).last, true,
            by simp only [step, hk, htrim], ⟨rfl, by simp only; rw [hfed]; split <;> omega⟩,
            mono_cs_le _ _ _ _ _ hle m4, hfed, hge, by simp [cutAfter, hk]⟩
  case docEnd =>
    simp only [Mono, hk] at hm
    obtain ⟨m0, m1, m2, m3, m4⟩ := hm
    have htake := take_ok oc stream (st.feed stream e.readOff) e.stop hi hn
      (by rw [hcs]; exact m1) (by rw [hfed]; split <;> omega) (by omega)
    by_cases hv : validUtf8 (slice stream (st.feed stream e.readOff).reader.capturedStart e.stop) = true
    · right; right
      refine ⟨{ st.feed stream e.readOff with
                  reader := ⟨slice stream e.stop (st.feed stream e.readOff).fed, e.stop⟩,
                  last := some ⟨slice stream (st.feed stream e.readOff).reader.capturedStart e.stop, (st.feed stream e.readOff).kind⟩,
                  kind := none }, none, false,
              by simp only [step, hk, htake, hv, if_true], ⟨rfl, by simp only; rw [hfed]; split <;> omega⟩, m4, hfed, m1, by simp [cutAfter, hk]⟩
    · left
      simp only [step, hk, htake, hv]; simp
  case streamEnd => right; left; exact ⟨(st.feed stream e.readOff).last, by simp only [step, hk]⟩
  case scalar =>
    simp only [Mono, hk] at hm
    right; right
    exact ⟨{ st.feed stream e.readOff with kind := getOrInsert (st.feed stream e.readOff).kind .scalar },
          none, inDoc, by simp only [step, hk], ⟨hi.cap, hi.le⟩,
          by simp only; rw [hcs]; exact hm, hfed, by simp only; rw [hcs]; exact Nat.le_refl _, by simp [cutAfter, hk, hcs]⟩
  case seqStart =>
    simp only [Mono, hk] at hm
    right; right
    exact ⟨{ st.feed stream e.readOff with kind := getOrInsert (st.feed stream e.readOff).kind .collection },
          none, inDoc, by simp only [step, hk], ⟨hi.cap, hi.le⟩,
          by simp only; rw [hcs]; exact hm, hfed, by simp only; rw [hcs]; exact Nat.le_refl _, by simp [cutAfter, hk, hcs]⟩
  case mapStart =>
    simp only [Mono, hk] at hm
    right; right
    exact ⟨{ st.feed stream e.readOff with kind := getOrInsert (st.feed stream e.readOff).kind .collection },
          none, inDoc, by simp only [step, hk], ⟨hi.cap, hi.le⟩,
          by simp only; rw [hcs]; exact hm, hfed, by simp only; rw [hcs]; exact Nat.le_refl _, by simp [cutAfter, hk, hcs]⟩
  all_goals
    simp only [Mono, hk] at hm
    right; right
    exact ⟨st.feed stream e.readOff, none, inDoc, by simp only [step, hk], hi,
          by rw [hcs]; exact hm, hfed, by rw [hcs]; exact Nat.le_refl _, by simp [cutAfter, hk, hcs]⟩




theorem step_fin_kind (oc : Bool) (stream : List Nat) (st : St) (e : Ev) (em : Option Doc)
    (h : step oc stream st e = .fin em) : e.kind = .streamEnd := by
  unfold step at h
  cases hk : e.kind <;> simp only [hk] at h
  case docStart => split at h <;> simp at h
  case docEnd => split at h <;> (try split at h) <;> simp at h
  case streamEnd => rfl
  all_goals simp at h

/-- Under the trace hypothesis alone the only reachable panic is the
`String::from_utf8(..).unwrap()`. -/
theorem run_fin_mono (oc : Bool) (stream : List Nat) (t : Bool) (hn : stream.length < u64Bound) :
    ∀ (evs : List Ev) (st : St) (idx : Nat) (inDoc : Bool), Inv stream st →
      Mono stream.length st.reader.capturedStart inDoc evs →
      (run oc stream t st idx evs).fin = endOf t evs ∨
      (run oc stream t st idx evs).fin = .panic .fromUtf8 := by
  intro evs
  induction evs with
  | nil => intro st idx inDoc _ _; left; simp [run, endOf]
  | cons e rest ih =>
    intro st idx inDoc hinv hm
    rcases step_mono oc stream hn st e rest inDoc hinv hm with h | ⟨em, h⟩ | ⟨st', em, inDoc', h, hi', hm', _, _, _⟩
    · right; simp [run, h]
    · left
      have hk : e.kind = .streamEnd := step_fin_kind oc stream st e em h
      simp [run, h, endOf, hk]
    · have hk : e.kind ≠ .streamEnd := by
        intro hk; unfold step at h; simp [hk] at h
      rcases ih st' (idx + 1) inDoc' hi' hm' with h2 | h2
      · left; simp [run, h, endOf, hk, h2]
      · right; simp [run, h, h2]

theorem cutAfter_cons (stream : List Nat) (cs : Nat) (e : Ev) (rest : List Ev) :
    cutAfter stream cs (e :: rest) = cutAfter stream (cutAfter stream cs [e]) rest := by
  cases hk : e.kind <;> simp [cutAfter, hk]

theorem stateAfter_inv (oc : Bool) (stream : List Nat) (hn : stream.length < u64Bound) (suf : List Ev) :
    ∀ (pre : List Ev) (st st' : St) (inDoc : Bool), Inv stream st →
      Mono stream.length st.reader.capturedStart inDoc (pre ++ suf) →
      stateAfter oc stream st pre = some st' →
      Inv stream st' ∧ st'.reader.capturedStart = cutAfter stream st.reader.capturedStart pre ∧
      st'.fed = readMax st.fed pre := by
  intro pre
  induction pre with
  | nil =>
    intro st st' inDoc hinv _ h
    simp [stateAfter] at h; subst h
    exact ⟨hinv, rfl, rfl⟩
  | cons e rest ih =>
    intro st st' inDoc hinv hm h
    rcases step_mono oc stream hn st e (rest ++ suf) inDoc hinv hm with hs | ⟨em, hs⟩ | ⟨st1, em, inDoc', hs, hi', hm', hfed, hle, hcut⟩
    · simp [stateAfter, hs] at h
    · simp [stateAfter, hs] at h
    · simp only [stateAfter, hs] at h
      obtain ⟨r1, r2, r3⟩ := ih st1 st' inDoc' hi' hm' h
      refine ⟨r1, ?_, by simp only [readMax]; rw [r3, hfed]⟩
      rw [cutAfter_cons, ← hcut]; exact r2

theorem cutAfter_append (stream : List Nat) : ∀ (a b : List Ev) (cs : Nat),
    cutAfter stream cs (a ++ b) = cutAfter stream (cutAfter stream cs a) b := by
  intro a
  induction a with
  | nil => intros; rfl
  | cons e rest ih =>
    intro b cs
    rw [List.cons_append, cutAfter_cons, ih, cutAfter_cons stream cs e rest]

theorem chain_lo (lo lo' : Nat) (h : lo' ≤ lo) : ∀ (l : List Span) (hi : Nat), Chain lo l hi → Chain lo' l hi := by
  intro l hi hc
  cases l with
  | nil => simp only [Chain] at *; omega
  | cons s rest => simp only [Chain] at *; exact ⟨by omega, hc.2⟩

theorem released_chain (stream : List Nat) (n : Nat) :
    ∀ (evs : List Ev) (idx : Nat) (cur : Option (Nat × Option DocKind)) (cs : Nat) (inDoc : Bool),
      cs ≤ n → (∀ a k, cur = some (a, k) → a = cs) → Mono n cs inDoc evs →
      Chain cs (released stream idx cs cur evs) n := by
  intro evs
  induction evs with
  | nil => intro idx cur cs inDoc h _ _; simpa [released, Chain] using h
  | cons e rest ih =>
    intro idx cur cs inDoc hcs hcur hm
    cases hk : e.kind
    case docStart =>
      simp only [Mono, hk] at hm
      obtain ⟨m1, m2, m3, m4⟩ := hm
      simp only [released, hk]
      have hle := spaceStart_le stream cs e.start
      have hge := spaceStart_ge stream cs e.start m1
      exact chain_lo _ _ hge _ _ (ih (idx + 1) _ _ true (by omega)
        (by intro a k h; simp at h; exact h.1.symm) (mono_cs_le _ _ _ _ _ hle m4))
    case docEnd =>
      simp only [Mono, hk] at hm
      obtain ⟨m0, m1, m2, m3, m4⟩ := hm
      simp only [released, hk]
      have hr := ih (idx + 1) none e.stop false (by omega) (by intro a k h; simp at h) m4
      cases cur with
      | none => exact chain_lo _ _ m1 _ _ hr
      | some ak =>
        obtain ⟨a, k⟩ := ak
        have ha := hcur a k rfl
        simp only
        split
        · simp only [Chain]; exact ⟨by omega, by omega, hr⟩
        · exact chain_lo _ _ m1 _ _ hr
    case streamEnd => simpa [released, hk, Chain] using hcs
    case scalar =>
      simp only [Mono, hk] at hm; simp only [released, hk]
      exact ih (idx + 1) _ cs inDoc hcs (by intro a k h; cases cur with
        | none => simp [curScalar] at h
        | some ak => obtain ⟨a', k'⟩ := ak; simp [curScalar] at h; exact h.1 ▸ hcur a' k' rfl) hm
    case seqStart =>
      simp only [Mono, hk] at hm; simp only [released, hk]
      exact ih (idx + 1) _ cs inDoc hcs (by intro a k h; cases cur with
        | none => simp [curCollection] at h
        | some ak => obtain ⟨a', k'⟩ := ak; simp [curCollection] at h; exact h.1 ▸ hcur a' k' rfl) hm
    case mapStart =>
      simp only [Mono, hk] at hm; simp only [released, hk]
      exact ih (idx + 1) _ cs inDoc hcs (by intro a k h; cases cur with
        | none => simp [curCollection] at h
        | some ak => obtain ⟨a', k'⟩ := ak; simp [curCollection] at h; exact h.1 ▸ hcur a' k' rfl) hm
    all_goals
      simp only [Mono, hk] at hm; simp only [released, hk]
      exact ih (idx + 1) cur cs inDoc hcs hcur hm

/-! ## Facts about the specification -/

/-- `relIdx` is the position of the first document start / stream end. -/
theorem relIdx_spec : ∀ (l : List Ev), followed l = true →
    (l[relIdx l]?).map isBoundary = some true ∧
    ∀ j, j < relIdx l → (l[j]?).map isBoundary = some false := by
  intro l
  induction l with
  | nil => intro h; simp [followed] at h
  | cons e rest ih =>
    intro h
    by_cases hb : isBoundary e = true
    · simp [relIdx, hb]
    · have hb' : isBoundary e = false := by simpa using hb
      simp only [followed, hb', Bool.false_or] at h
      obtain ⟨i1, i2⟩ := ih h
      simp only [relIdx, hb', Bool.false_eq_true, if_false]
      refine ⟨by simpa using i1, ?_⟩
      intro j hj
      cases j with
      | zero => simp [hb']
      | succ j => simpa using i2 j (by omega)

theorem released_none_unfollowed (stream : List Nat) :
    ∀ (evs : List Ev) (idx cs : Nat) (cur : Option (Nat × Option DocKind)),
    followed evs = false → released stream idx cs cur evs = [] := by
  intro evs
  induction evs with
  | nil => intros; rfl
  | cons e rest ih =>
    intro idx cs cur h
    simp only [followed, Bool.or_eq_false_iff] at h
    obtain ⟨h1, h2⟩ := h
    cases hk : e.kind
    case streamEnd => simp [isBoundary, hk] at h1
    case docStart => simp [isBoundary, hk] at h1
    case docEnd =>
      simp only [released, hk]
      cases cur with
      | none => exact ih _ _ _ h2
      | some ak => simp [h2, ih _ _ none h2]
    all_goals simp only [released, hk]; exact ih _ _ _ h2

theorem allPairs_unfollowed (stream : List Nat) :
    ∀ (evs : List Ev) (cs : Nat), followed evs = false → allPairs stream cs none evs = [] := by
  intro evs
  induction evs with
  | nil => intros; rfl
  | cons e rest ih =>
    intro cs h
    simp only [followed, Bool.or_eq_false_iff] at h
    obtain ⟨h1, h2⟩ := h
    cases hk : e.kind
    case streamEnd => simp [isBoundary, hk] at h1
    case docStart => simp [isBoundary, hk] at h1
    all_goals simp only [allPairs, hk]; exact ih _ h2

def curStartOf : Option (Nat × Option DocKind) → Option Nat
  | none => none
  | some (a, _) => some a

theorem curStartOf_scalar (cur : Option (Nat × Option DocKind)) :
    curStartOf (curScalar cur) = curStartOf cur := by
  cases cur with
  | none => rfl
  | some ak => obtain ⟨a, k⟩ := ak; rfl

theorem curStartOf_collection (cur : Option (Nat × Option DocKind)) :
    curStartOf (curCollection cur) = curStartOf cur := by
  cases cur with
  | none => rfl
  | some ak => obtain ⟨a, k⟩ := ak; rfl

/-- The documents that are due are all (document start, document end) pairs in
order, except that the very last pair is withheld when no document start or
stream end follows it. -/
theorem released_pairs (stream : List Nat) :
    ∀ (evs : List Ev) (idx cs : Nat) (cur : Option (Nat × Option DocKind)),
    (released stream idx cs cur evs).map (fun s => (s.start, s.stop)) =
      (allPairs stream cs (curStartOf cur) evs).take (released stream idx cs cur evs).length ∧
    (allPairs stream cs (curStartOf cur) evs).length ≤ (released stream idx cs cur evs).length + 1 := by
  intro evs
  induction evs with
  | nil => intros; simp [released, allPairs]
  | cons e rest ih =>
    intro idx cs cur
    cases hk : e.kind
    case docEnd =>
      simp only [released, allPairs, hk]
      cases cur with
      | none => exact ih (idx + 1) e.stop none
      | some ak =>
        obtain ⟨a, k⟩ := ak
        simp only [curStartOf]
        by_cases hf : followed rest = true
        · simp only [hf, if_true, List.map_cons, List.length_cons, List.take_succ_cons]
          obtain ⟨i1, i2⟩ := ih (idx + 1) e.stop none
          exact ⟨by rw [i1]; rfl, by simp only [curStartOf] at i2; omega⟩
        · have hf' : followed rest = false := by simpa using hf
          simp [hf', released_none_unfollowed stream rest _ _ none hf', allPairs_unfollowed stream rest _ hf']
    case docStart => simp only [released, allPairs, hk]; exact ih (idx + 1) _ (some (_, none))
    case streamEnd => simp [released, allPairs, hk]
    case scalar =>
      simp only [released, allPairs, hk]; rw [← curStartOf_scalar]; exact ih (idx + 1) cs (curScalar cur)
    case seqStart =>
      simp only [released, allPairs, hk]; rw [← curStartOf_collection]; exact ih (idx + 1) cs (curCollection cur)
    case mapStart =>
      simp only [released, allPairs, hk]; rw [← curStartOf_collection]; exact ih (idx + 1) cs (curCollection cur)
    all_goals simp only [released, allPairs, hk]; exact ih (idx + 1) cs cur

theorem endOf_done_followed (t : Bool) : ∀ (l : List Ev), endOf t l = .done → followed l = true := by
  intro l
  induction l with
  | nil => intro h; cases t <;> simp [endOf] at h
  | cons e rest ih =>
    intro h
    by_cases hk : e.kind = .streamEnd
    · simp [followed, isBoundary, hk]
    · simp only [endOf, hk, if_false] at h
      simp [followed, ih h]

/-- When the trace reaches the stream end event nothing is withheld. -/
theorem released_complete (stream : List Nat) :
    ∀ (evs : List Ev) (idx cs : Nat) (cur : Option (Nat × Option DocKind)) (t : Bool),
    endOf t evs = .done →
    (released stream idx cs cur evs).map (fun s => (s.start, s.stop)) = allPairs stream cs (curStartOf cur) evs := by
  intro evs
  induction evs with
  | nil => intro idx cs cur t h; cases t <;> simp [endOf] at h
  | cons e rest ih =>
    intro idx cs cur t h
    cases hk : e.kind
    case streamEnd => simp [released, allPairs, hk]
    case docEnd =>
      have h' : endOf t rest = .done := by simpa [endOf, hk] using h
      simp only [released, allPairs, hk]
      have hf := endOf_done_followed t rest h'
      cases cur with
      | none => exact ih (idx + 1) _ none t h'
      | some ak =>
        obtain ⟨a, k⟩ := ak
        simp only [curStartOf, hf, if_true, List.map_cons]
        rw [ih (idx + 1) _ none t h']; rfl
    case docStart =>
      have h' : endOf t rest = .done := by simpa [endOf, hk] using h
      simp only [released, allPairs, hk]
      exact ih (idx + 1) _ (some (_, none)) t h'
    case scalar =>
      have h' : endOf t rest = .done := by simpa [endOf, hk] using h
      simp only [released, allPairs, hk]; rw [← curStartOf_scalar]; exact ih (idx + 1) cs _ t h'
    case seqStart =>
      have h' : endOf t rest = .done := by simpa [endOf, hk] using h
      simp only [released, allPairs, hk]; rw [← curStartOf_collection]; exact ih (idx + 1) cs _ t h'
    case mapStart =>
      have h' : endOf t rest = .done := by simpa [endOf, hk] using h
      simp only [released, allPairs, hk]; rw [← curStartOf_collection]; exact ih (idx + 1) cs _ t h'
    all_goals
      have h' : endOf t rest = .done := by simpa [endOf, hk] using h
      simp only [released, allPairs, hk]; exact ih (idx + 1) cs cur t h'

/-- Where each due document is returned: at the first document start / stream
end event after its own document end event. -/
theorem released_lag (stream : List Nat) :
    ∀ (evs : List Ev) (idx cs : Nat) (cur : Option (Nat × Option DocKind)) (s : Span),
    s ∈ released stream idx cs cur evs →
    idx ≤ s.deAt ∧ (evs[s.deAt - idx]?).map Ev.kind = some .docEnd ∧
    followed (evs.drop (s.deAt + 1 - idx)) = true ∧
    s.relAt = s.deAt + 1 + relIdx (evs.drop (s.deAt + 1 - idx)) := by
  intro evs
  induction evs with
  | nil => intro idx cs cur s h; simp [released] at h
  | cons e rest ih =>
    intro idx cs cur s h
    have shift : ∀ cs' cur', s ∈ released stream (idx + 1) cs' cur' rest →
        idx ≤ s.deAt ∧ ((e :: rest)[s.deAt - idx]?).map Ev.kind = some .docEnd ∧
        followed ((e :: rest).drop (s.deAt + 1 - idx)) = true ∧
        s.relAt = s.deAt + 1 + relIdx ((e :: rest).drop (s.deAt + 1 - idx)) := by
      intro cs' cur' h'
      obtain ⟨i1, i2, i3, i4⟩ := ih (idx + 1) cs' cur' s h'
      have e1 : s.deAt - idx = (s.deAt - (idx + 1)) + 1 := by omega
      have e2 : s.deAt + 1 - idx = (s.deAt + 1 - (idx + 1)) + 1 := by omega
      refine ⟨by omega, ?_, ?_, ?_⟩
      · rw [e1, List.getElem?_cons_succ]; exact i2
      · rw [e2, List.drop_succ_cons]; exact i3
      · rw [e2, List.drop_succ_cons]; exact i4
    cases hk : e.kind
    case docEnd =>
      simp only [released, hk] at h
      cases cur with
      | none => exact shift _ none h
      | some ak =>
        obtain ⟨a, k⟩ := ak
        simp only at h
        by_cases hf : followed rest = true
        · simp only [hf, if_true, List.mem_cons] at h
          rcases h with h | h
          · subst h
            simp [hk, hf]
          · exact shift _ none h
        · simp only [hf] at h
          exact shift _ none h
    case streamEnd => simp [released, hk] at h
    all_goals
      simp only [released, hk] at h
      exact shift _ _ h

/-! ## Read-ahead does not matter -/

/-- Forget how far the parser had read when it returned the event. -/
def eraseRead (e : Ev) : Ev := { e with readOff := 0 }

theorem isBoundary_erase (e : Ev) : isBoundary (eraseRead e) = isBoundary e := rfl

theorem followed_erase : ∀ (l : List Ev), followed (l.map eraseRead) = followed l := by
  intro l
  induction l with
  | nil => rfl
  | cons e rest ih => simp only [List.map_cons, followed, ih, isBoundary_erase]

theorem relIdx_erase : ∀ (l : List Ev), relIdx (l.map eraseRead) = relIdx l := by
  intro l
  induction l with
  | nil => rfl
  | cons e rest ih => simp only [List.map_cons, relIdx, ih, isBoundary_erase]

/-- The specification looks at kinds and offsets only. -/
theorem released_erase (stream : List Nat) :
    ∀ (evs : List Ev) (idx cs : Nat) (cur : Option (Nat × Option DocKind)),
      released stream idx cs cur (evs.map eraseRead) = released stream idx cs cur evs := by
  intro evs
  induction evs with
  | nil => intros; rfl
  | cons e rest ih =>
    intro idx cs cur
    have hk : (eraseRead e).kind = e.kind := rfl
    have hs : (eraseRead e).start = e.start := rfl
    have hp : (eraseRead e).stop = e.stop := rfl
    cases hkind : e.kind <;>
      simp only [List.map_cons, released, hk, hs, hp, hkind, ih, followed_erase, relIdx_erase]


end Xt.Chunker
