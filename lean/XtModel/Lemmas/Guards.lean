import XtModel.Model.Chunker

/-!
Theorems about the length guards of `read_handler`
(`src/yaml/chunker/parser.rs`) and `ChunkReader::read`
(`src/yaml/chunker.rs`).  Used by C03/C04 and exported for C17.
-/
namespace Xt.Chunker.Guards
open Xt.Chunker

/-- For EVERY buffer size, every stash and every answer of the reader — an
error, an honest count, or a count over-reported by any excess —: when
`ptr::copy_nonoverlapping` is called its length is at most the size of the
bounce buffer (which was resized to `buffer_size`) and at most the size of
libyaml's buffer, and `*size_read` is that same length; otherwise no copy
happens, `*size_read` is not written, and the handler fails. -/
theorem copy_len_in_bounds (degenerate : Bool) (size : Nat) (stash : Option Stash) (res : ReadRes) :
    match (readHandler degenerate size stash res).copyLen with
    | some n =>
      n ≤ size ∧ (readHandler degenerate size stash res).bouncerLen = some size ∧
      (readHandler degenerate size stash res).sizeRead = some n ∧
      (readHandler degenerate size stash res).success = true
    | none =>
      (readHandler degenerate size stash res).sizeRead = none ∧
      (readHandler degenerate size stash res).success = false := by
  unfold readHandler
  cases degenerate with
  | true => simp
  | false =>
    cases res with
    | err tok => simp
    | ok readLen data =>
      by_cases h : readLen ≤ size <;> simp [h]

/-- An over-report by any excess beyond the buffer: no copy, and the error
`misbehaving reader` is stashed. -/
theorem overreport_is_stashed (size honest excess : Nat) (stash : Option Stash) (data : List Nat)
    (h : size < honest + excess) :
    (readHandler false size stash (.ok (honest + excess) data)).copyLen = none ∧
    (readHandler false size stash (.ok (honest + excess) data)).stash = some .misbehaving ∧
    (readHandler false size stash (.ok (honest + excess) data)).success = false := by
  have : ¬ honest + excess ≤ size := by omega
  simp [readHandler, this]

/-- The stash is cleared by every successful read, set by every failed one,
and left alone only by the degenerate early returns. -/
theorem stash_cleared_on_success (size : Nat) (stash : Option Stash) (res : ReadRes) :
    ((readHandler false size stash res).success = true → (readHandler false size stash res).stash = none) ∧
    ((readHandler false size stash res).success = false → (readHandler false size stash res).stash ≠ none) ∧
    (readHandler true size stash res).stash = stash := by
  unfold readHandler
  cases res with
  | err tok => simp
  | ok readLen data => by_cases h : readLen ≤ size <;> simp [h]

/-- `ChunkReader::read` with a reader that reports more than the buffer it was
given: the slice index panics (a clean, unwinding panic), for every state,
buffer and excess.  Nothing was appended to the capture buffer. -/
theorem chunkreader_overreport_is_clean_panic (r : Reader) (buf data : List Nat) (reported : Nat)
    (h : buf.length < reported) :
    r.read buf (.ok reported data) = .panic .readSlice := by
  have : ¬ reported ≤ buf.length := by omega
  simp [Reader.read, this]

/-- …and a report within the buffer never panics (it may be a lie about how
much was written, which then shows as stale bytes, not as a panic). -/
theorem chunkreader_within_buffer_no_panic (r : Reader) (buf data : List Nat) (reported : Nat)
    (h : reported ≤ buf.length) :
    r.read buf (.ok reported data) =
      .ok (.ok reported data, { r with captured := r.captured ++ (bufAfter buf data).take reported }) := by
  simp [Reader.read, h]

/-- Inside `Chunker` the `ChunkReader` sits under `read_handler`: an over-report
beyond libyaml's buffer panics there, before `read_handler`'s guard sees it; a
report within the buffer is copied with exactly the reported length. -/
theorem chunker_stack_overreport (size : Nat) (bouncer : List Nat) (stash : Option Stash) (r : Reader)
    (reported : Nat) (data : List Nat) :
    (size < reported →
      handlerOverChunkReader size bouncer stash r (.ok reported data) = .panic .readSlice) ∧
    (reported ≤ size → ∃ r', handlerOverChunkReader size bouncer stash r (.ok reported data)
      = .ok (⟨some size, some reported, some reported, none, true⟩, r')) := by
  have hlen : ((bouncer ++ List.replicate (size - bouncer.length) 0).take size).length = size := by
    simp; omega
  refine ⟨fun h => ?_, fun h => ?_⟩
  · unfold handlerOverChunkReader
    simp only
    rw [chunkreader_overreport_is_clean_panic r _ data reported (by rw [hlen]; exact h)]
  · unfold handlerOverChunkReader
    simp only
    rw [chunkreader_within_buffer_no_panic r _ data reported (by rw [hlen]; exact h)]
    simp only [readHandler, h, if_true, Bool.false_eq_true, if_false]
    exact ⟨_, rfl⟩

end Xt.Chunker.Guards
