import XtModel.Model.Input

/-!
Helper lemmas about the model of `src/input.rs`: what one `read` of the source
does, the capture invariant and its preservation by every `CaptureReader`
operation, `Take::read_to_end` / `read_to_end` / the drain loop.
-/
namespace Xt.Input

/-! ## The source -/

theorem Source.avail_le (s : Source) : s.avail ≤ s.data.length := by
  unfold Source.avail; split <;> omega

theorem Source.nextCap_le (s : Source) (n : Nat) : (s.nextCap n).1 ≤ n := by
  unfold Source.nextCap; split <;> simp <;> omega

theorem Source.nextCap_pos (s : Source) (n : Nat) (hn : n ≠ 0) : 0 < (s.nextCap n).1 := by
  unfold Source.nextCap; split <;> simp <;> omega

/-- A successful `read`: the bytes returned followed by what is left are what
was there; at most `n` bytes; an empty answer to a non-empty request means the
data is exhausted. -/
theorem Source.read_ok (s s' : Source) (n : Nat) (bs : List Nat) (h : s.read n = (.ok bs, s')) :
    bs ++ s'.data = s.data ∧ bs.length ≤ n ∧ s'.failAt = s.failAt ∧
    s'.pos = s.pos + bs.length ∧ (bs = [] → n ≠ 0 → s'.data = []) ∧ s'.cycle = s.cycle := by
  unfold Source.read at h
  split at h
  · simp at h; obtain ⟨rfl, rfl⟩ := h; simp_all
  · rename_i hn
    split at h
    · simp at h
    · rename_i hf
      simp only [Prod.mk.injEq, Rd.ok.injEq] at h
      obtain ⟨rfl, rfl⟩ := h
      have h1 := s.nextCap_le n
      have h2 := s.nextCap_pos n hn
      have h3 := s.avail_le
      refine ⟨by simp, by simp; omega, rfl, by simp; omega, ?_, rfl⟩
      intro he _
      have hm : min (s.nextCap n).1 s.avail = 0 ∨ s.data = [] := by
        cases hd : s.data with
        | nil => exact Or.inr rfl
        | cons x xs =>
          left
          rw [hd] at he
          cases hmin : min (s.nextCap n).1 s.avail with
          | zero => rfl
          | succ k => rw [hmin] at he; simp at he
      rcases hm with hm | hm
      · have ha : s.avail = 0 := by omega
        have : s.data.length = 0 := by
          unfold Source.avail at ha
          unfold Source.faulted at hf
          split at ha
          · rename_i k hk
            simp only [hk, decide_eq_true_eq] at hf
            omega
          · exact ha
        simp [List.length_eq_zero_iff.mp this]
      · simp [hm]

/-- A failed `read`: nothing is delivered, the source is at its fault. -/
theorem Source.read_err (s s' : Source) (n : Nat) (h : s.read n = (.err, s')) :
    s'.data = s.data ∧ s'.pos = s.pos ∧ s'.failAt = s.failAt ∧ s.faulted = true ∧
    s'.faulted = true ∧ n ≠ 0 ∧ s'.cycle = s.cycle := by
  unfold Source.read at h
  split at h
  · simp at h
  · rename_i hn
    split at h
    · rename_i hf
      simp only [Prod.mk.injEq, true_and] at h
      subst h
      exact ⟨rfl, rfl, rfl, hf, by simpa [Source.faulted] using hf, hn, rfl⟩
    · simp at h

/-- The fault is persistent: a faulted source fails every non-empty request. -/
theorem Source.read_faulted (s : Source) (n : Nat) (hf : s.faulted = true) (hn : n ≠ 0) :
    (s.read n).1 = .err ∧ (s.read n).2.faulted = true := by
  unfold Source.read
  simp [hn, hf]
  simpa [Source.faulted] using hf

/-- Only a source with a fault offset ever fails. -/
theorem Source.read_nofail (s : Source) (n : Nat) (h : s.failAt = none) : (s.read n).1 ≠ .err := by
  unfold Source.read
  have : s.faulted = false := by simp [Source.faulted, h]
  split <;> simp [this]

theorem Source.faulted_of_failAt_none (s : Source) (h : s.failAt = none) : s.faulted = false := by
  simp [Source.faulted, h]

/-! ## The capture invariant -/

/-- What every operation on a `CaptureReader` preserves: the captured bytes
followed by what the source has not delivered are the original data; the replay
position is inside the captured bytes; `source_eof` implies that nothing is
left in the source. -/
structure Inv (orig : List Nat) (c : Cap) : Prop where
  data : c.pre ++ c.src.data = orig
  pos : c.pos ≤ c.pre.length
  eof : c.eof = true → c.src.data = []

theorem Inv.new (s : Source) : Inv s.data (Cap.new s) :=
  ⟨by simp [Cap.new], by simp [Cap.new], by simp [Cap.new]⟩

theorem Inv.rewind {orig : List Nat} {c : Cap} (h : Inv orig c) : Inv orig c.rewind :=
  ⟨h.data, Nat.zero_le _, h.eof⟩

theorem Inv.pre_prefix {orig : List Nat} {c : Cap} (h : Inv orig c) : c.pre <+: orig :=
  ⟨c.src.data, h.data⟩

theorem Inv.eof_pre {orig : List Nat} {c : Cap} (h : Inv orig c) (he : c.eof = true) : c.pre = orig := by
  have := h.data; rw [h.eof he] at this; simpa using this

theorem cursorWrite_end (vec bs : List Nat) : cursorWrite vec vec.length bs = (vec ++ bs, vec.length + bs.length) := by
  unfold cursorWrite
  cases bs with
  | nil => simp
  | cons b bs => simp

/-- The bytes that the current borrow has consumed so far. -/
def Cap.consumed (c : Cap) : List Nat := c.pre.take c.pos

/-- `CaptureReader::read`, under the invariant: never panics, an error is the
source's, captured bytes only grow, and the bytes returned extend what this
borrow has consumed so far (which is a prefix of the captured bytes). -/
theorem Cap.read_spec {orig : List Nat} {c c' : Cap} {n : Nat} {r : Res (List Nat)}
    (h : Inv orig c) (hr : c.read n = (r, c')) :
    Inv orig c' ∧ c.pre <+: c'.pre ∧ c'.src.failAt = c.src.failAt ∧
    (∀ bs, r = .ok bs → c.consumed ++ bs = c'.consumed ∧ bs.length ≤ n ∧
      (c'.eof = true ∨ c'.eof = c.eof)) ∧
    (∀ e, r = .err e → e = .source ∧ c'.pre = c.pre ∧ c'.src.faulted = true ∧ c'.eof = c.eof ∧
      c'.pos = c'.pre.length) ∧
    (∀ s, r ≠ .panic s) := by
  obtain ⟨hd, hp, he⟩ := h
  unfold Cap.read at hr
  have hu : c.unread = some (c.pre.length - c.pos) := by simp [Cap.unread, hp]
  rw [hu] at hr
  dsimp only at hr
  have hk : min n (c.pre.length - c.pos) ≤ n := Nat.min_le_left _ _
  have hk2 : min n (c.pre.length - c.pos) ≤ c.pre.length - c.pos := Nat.min_le_right _ _
  rw [if_neg (by omega), if_neg (by omega)] at hr
  generalize hkk : min n (c.pre.length - c.pos) = k at hr hk hk2
  have hu2 : Cap.unread { c with pos := c.pos + k } = some (c.pre.length - (c.pos + k)) := by
    simp only [Cap.unread]; rw [if_pos (by omega)]
  rw [hu2] at hr
  dsimp only at hr
  split at hr
  · -- served from the captured prefix
    simp only [Prod.mk.injEq] at hr
    obtain ⟨rfl, rfl⟩ := hr
    refine ⟨⟨hd, by simp; omega, he⟩, List.prefix_refl _, rfl, ?_, by simp, by simp⟩
    intro bs hbs
    simp only [Res.ok.injEq] at hbs
    subst hbs
    refine ⟨?_, by simp; omega, Or.inr rfl⟩
    simp only [Cap.consumed]
    rw [List.take_add]
  · rename_i hcond
    have hend : c.pos + k = c.pre.length := by omega
    rw [if_neg (by omega)] at hr
    split at hr
    · -- the source failed
      rename_i s' hs
      simp only [Prod.mk.injEq] at hr
      obtain ⟨rfl, rfl⟩ := hr
      obtain ⟨h1, _, h3, _, h5, _, _⟩ := Source.read_err _ _ _ hs
      refine ⟨⟨by simpa [h1] using hd, by simp; omega, fun e => by simpa [h1] using he e⟩,
        List.prefix_refl _, h3, by simp, ?_, by simp⟩
      intro e hee
      simp only [Res.err.injEq] at hee
      exact ⟨hee.symm, rfl, h5, rfl, hend⟩
    · rename_i bs s' hs
      obtain ⟨h1, h2, h3, _, h5, _⟩ := Source.read_ok _ _ _ _ hs
      rw [if_neg (by omega)] at hr
      simp only [Prod.mk.injEq] at hr
      obtain ⟨rfl, rfl⟩ := hr
      rw [hend, cursorWrite_end]
      refine ⟨⟨by simp [← hd, ← h1], by simp, ?_⟩, List.prefix_append _ _, h3, ?_, by simp, by simp⟩
      · intro hb
        simp only [List.isEmpty_iff] at hb
        exact h5 hb (by omega)
      · intro bs' hbs
        simp only [Res.ok.injEq] at hbs
        subst hbs
        refine ⟨?_, by simp; omega, ?_⟩
        · simp only [Cap.consumed]
          have : List.take k (List.drop c.pos c.pre) = List.drop c.pos c.pre := by
            apply List.take_of_length_le; simp; omega
          rw [this, ← List.append_assoc, List.take_append_drop]
          rw [show c.pre.length + bs.length = (c.pre ++ bs).length by simp, List.take_length]
        · cases hb : bs.isEmpty with
          | true => left; rfl
          | false =>
            right
            cases hce : c.eof with
            | false => rfl
            | true =>
              have := he hce
              rw [← h1] at this
              simp at this
              simp [this.1] at hb

/-! ## `Take::read_to_end`, `read_to_end` -/

theorem takeReadToEnd_spec (s : Source) (limit : Nat) :
    (takeReadToEnd s limit).bytes ++ (takeReadToEnd s limit).src.data = s.data ∧
    (takeReadToEnd s limit).limit + (takeReadToEnd s limit).bytes.length = limit ∧
    (takeReadToEnd s limit).src.failAt = s.failAt ∧
    ((takeReadToEnd s limit).failed = true → (takeReadToEnd s limit).src.faulted = true) ∧
    ((takeReadToEnd s limit).failed = false → 0 < (takeReadToEnd s limit).limit →
      (takeReadToEnd s limit).src.data = []) := by
  fun_induction takeReadToEnd s limit with
  | case1 s => simp
  | case2 s limit hl s' hs =>
    obtain ⟨h1, _, h3, _, h5, _⟩ := Source.read_err _ _ _ hs
    simp [h1, h3, h5]
  | case3 s limit hl s' hs =>
    obtain ⟨h1, _, h3, _, h5, _⟩ := Source.read_ok _ _ _ _ hs
    simp at h1
    simp [h1, h3]
    intro _
    simpa [h1] using h5 rfl hl
  | case4 s limit hl b bs s' hs r ih =>
    obtain ⟨h1, h2, h3, _, _, _⟩ := Source.read_ok _ _ _ _ hs
    obtain ⟨i1, i2, i3, i4, i5⟩ := ih
    simp only [List.length_cons] at h2
    refine ⟨?_, ?_, by rw [i3, h3], i4, i5⟩
    · simp only [List.append_assoc]; rw [i1]; exact h1
    · simp only [List.length_append, List.length_cons]
      simp only [r] at *
      omega

theorem readToEnd_spec (s : Source) :
    (readToEnd s).bytes ++ (readToEnd s).src.data = s.data ∧
    (readToEnd s).src.failAt = s.failAt ∧
    ((readToEnd s).failed = true → (readToEnd s).src.faulted = true) ∧
    ((readToEnd s).failed = false → (readToEnd s).src.data = []) := by
  fun_induction readToEnd s with
  | case1 s s' hs =>
    obtain ⟨h1, _, h3, _, h5, _⟩ := Source.read_err _ _ _ hs
    simp [h1, h3, h5]
  | case2 s s' hs =>
    obtain ⟨h1, _, h3, _, h5, _⟩ := Source.read_ok _ _ _ _ hs
    simp at h1
    simp [h1, h3]
    simpa [h1] using h5 rfl (by omega)
  | case3 s b bs s' hs r ih =>
    obtain ⟨h1, _, h3, _, _, _⟩ := Source.read_ok _ _ _ _ hs
    obtain ⟨i1, i3, i4, i5⟩ := ih
    refine ⟨?_, by rw [i3, h3], i4, i5⟩
    simp only [List.append_assoc]; rw [i1]; exact h1

/-- `capture_up_to_size`, under the invariant: captured bytes only grow (also
when it fails), the replay position does not move, success means that `size`
bytes are captured or the source is at its end, an error is the source's. -/
theorem Cap.captureUpToSize_spec {orig : List Nat} {c c' : Cap} {n : Nat} {r : Res Unit}
    (h : Inv orig c) (hr : c.captureUpToSize n = (r, c')) :
    Inv orig c' ∧ c.pre <+: c'.pre ∧ c'.pos = c.pos ∧ c'.src.failAt = c.src.failAt ∧
    (r = .ok () → (n ≤ c'.pre.length ∨ c'.eof = true) ∧ (c'.eof = true ∨ c'.eof = c.eof)) ∧
    (∀ e, r = .err e → e = .source ∧ c'.src.faulted = true ∧ c'.eof = c.eof) ∧
    (∀ s, r ≠ .panic s) := by
  obtain ⟨hd, hp, he⟩ := h
  unfold Cap.captureUpToSize at hr
  dsimp only at hr
  split at hr
  · rename_i hz
    simp only [Prod.mk.injEq] at hr
    obtain ⟨rfl, rfl⟩ := hr
    exact ⟨⟨hd, hp, he⟩, List.prefix_refl _, rfl, rfl, fun _ => ⟨Or.inl (by omega), Or.inr rfl⟩,
      by simp, by simp⟩
  · rename_i hz
    obtain ⟨t1, t2, t3, t4, t5⟩ := takeReadToEnd_spec c.src (n - c.pre.length)
    have hd' : c.pre ++ (takeReadToEnd c.src (n - c.pre.length)).bytes ++
        (takeReadToEnd c.src (n - c.pre.length)).src.data = orig := by
      rw [List.append_assoc, t1, hd]
    have he' : c.eof = true → (takeReadToEnd c.src (n - c.pre.length)).src.data = [] := by
      intro hce
      have := he hce
      rw [this] at t1
      simp at t1
      exact t1.2
    split at hr
    · rename_i hf
      simp only [Prod.mk.injEq] at hr
      obtain ⟨rfl, rfl⟩ := hr
      exact ⟨⟨hd', by simp; omega, he'⟩, List.prefix_append _ _, rfl, t3, by simp,
        fun e hee => ⟨by simpa using hee.symm, t4 hf, rfl⟩, by simp⟩
    · rename_i hf
      simp only [Bool.not_eq_true] at hf
      split at hr
      · rename_i hl
        simp only [Prod.mk.injEq] at hr
        obtain ⟨rfl, rfl⟩ := hr
        exact ⟨⟨hd', by simp; omega, fun _ => t5 hf hl⟩, List.prefix_append _ _, rfl, t3,
          fun _ => ⟨Or.inr rfl, Or.inl rfl⟩, by simp, by simp⟩
      · rename_i hl
        simp only [Prod.mk.injEq] at hr
        obtain ⟨rfl, rfl⟩ := hr
        refine ⟨⟨hd', by simp; omega, he'⟩, List.prefix_append _ _, rfl, t3,
          fun _ => ⟨Or.inl ?_, Or.inr rfl⟩, by simp, by simp⟩
        simp only [List.length_append]
        omega

/-- `capture_to_end`, under the invariant. -/
theorem Cap.captureToEnd_spec {orig : List Nat} {c c' : Cap} {r : Res Unit}
    (h : Inv orig c) (hr : c.captureToEnd = (r, c')) :
    Inv orig c' ∧ c.pre <+: c'.pre ∧ c'.pos = c.pos ∧ c'.src.failAt = c.src.failAt ∧
    (r = .ok () → c'.pre = orig ∧ c'.eof = true) ∧
    (∀ e, r = .err e → e = .source ∧ c'.src.faulted = true) ∧
    (∀ s, r ≠ .panic s) := by
  obtain ⟨hd, hp, he⟩ := h
  unfold Cap.captureToEnd at hr
  split at hr
  · rename_i hce
    simp only [Prod.mk.injEq] at hr
    obtain ⟨rfl, rfl⟩ := hr
    refine ⟨⟨hd, hp, he⟩, List.prefix_refl _, rfl, rfl, fun _ => ⟨?_, hce⟩, by simp, by simp⟩
    have := he hce
    rw [this] at hd
    simpa using hd
  · dsimp only at hr
    obtain ⟨t1, t2, t4, t5⟩ := readToEnd_spec c.src
    have hd' : c.pre ++ (readToEnd c.src).bytes ++ (readToEnd c.src).src.data = orig := by
      rw [List.append_assoc, t1, hd]
    split at hr
    · rename_i hf
      simp only [Prod.mk.injEq] at hr
      obtain ⟨rfl, rfl⟩ := hr
      refine ⟨⟨hd', by simp; omega, ?_⟩, List.prefix_append _ _, rfl, t2, by simp,
        fun e hee => ⟨by simpa using hee.symm, t4 hf⟩, by simp⟩
      intro hce
      simp_all
    · rename_i hf
      simp only [Bool.not_eq_true] at hf
      simp only [Prod.mk.injEq] at hr
      obtain ⟨rfl, rfl⟩ := hr
      refine ⟨⟨hd', by simp; omega, fun _ => t5 hf⟩, List.prefix_append _ _, rfl, t2,
        fun _ => ⟨?_, rfl⟩, by simp, by simp⟩
      have := t5 hf
      rw [this] at hd'
      simpa using hd'

/-! ## After a failed read: the borrow is dead until the next rewind -/

/-- The state a failed `read` leaves behind: everything captured has been
consumed and the source is at its (persistent) fault. -/
def Dead (c : Cap) : Prop := c.pos = c.pre.length ∧ c.src.faulted = true

theorem Cap.read_dead {c c' : Cap} {n : Nat} {r : Res (List Nat)} (hdead : Dead c)
    (hr : c.read n = (r, c')) : (r = .ok [] ∨ r = .err .source) ∧ Dead c' ∧ c'.pre = c.pre := by
  obtain ⟨hp, hf⟩ := hdead
  unfold Cap.read at hr
  have hu : c.unread = some 0 := by simp [Cap.unread, hp]
  rw [hu] at hr
  dsimp only at hr
  simp only [Nat.min_zero, Nat.not_lt_zero, ↓reduceIte, Nat.add_zero] at hr
  have hu2 : Cap.unread { c with pos := c.pos } = some 0 := hu
  rw [hu2] at hr
  dsimp only at hr
  by_cases hn : n = 0
  · subst hn
    simp at hr
    obtain ⟨rfl, rfl⟩ := hr
    exact ⟨Or.inl (by simp), ⟨hp, hf⟩, rfl⟩
  · have h0 : ¬ (0 < 0 ∨ 0 = n) := by omega
    rw [if_neg h0] at hr
    have := Source.read_faulted c.src n hf hn
    simp only [Nat.sub_zero] at hr
    split at hr
    · rename_i s' hs
      simp only [Prod.mk.injEq] at hr
      obtain ⟨rfl, rfl⟩ := hr
      rw [hs] at this
      exact ⟨Or.inr rfl, ⟨hp, this.2⟩, rfl⟩
    · rename_i bs s' hs
      rw [hs] at this
      simp at this

theorem takeReadToEnd_faulted (s : Source) (limit : Nat) (hf : s.faulted = true) (hl : limit ≠ 0) :
    (takeReadToEnd s limit).bytes = [] ∧ (takeReadToEnd s limit).failed = true ∧
    (takeReadToEnd s limit).src.faulted = true := by
  have := Source.read_faulted s limit hf hl
  rw [takeReadToEnd.eq_def]
  rw [if_neg hl]
  split
  · rename_i s' hs
    rw [hs] at this
    exact ⟨rfl, rfl, this.2⟩
  · rename_i hs; rw [hs] at this; simp at this
  · rename_i hs; rw [hs] at this; simp at this

/-- A faulted source meets its fault again: a `prefix` request beyond what is
captured fails and changes nothing that was captured. -/
theorem Cap.captureUpToSize_faulted {c : Cap} {n : Nat} (hf : c.src.faulted = true) :
    (c.captureUpToSize n).2.pre = c.pre ∧ (c.captureUpToSize n).2.pos = c.pos ∧
    (c.captureUpToSize n).2.src.faulted = true ∧
    (c.pre.length < n → (c.captureUpToSize n).1 = .err .source) ∧
    (n ≤ c.pre.length → (c.captureUpToSize n) = (.ok (), c)) := by
  unfold Cap.captureUpToSize
  dsimp only
  by_cases hz : n - c.pre.length = 0
  · rw [if_pos hz]
    exact ⟨rfl, rfl, hf, by omega, fun _ => rfl⟩
  · rw [if_neg hz]
    obtain ⟨t1, t2, t3⟩ := takeReadToEnd_faulted c.src _ hf hz
    simp only [t2, ↓reduceIte, t1, List.append_nil]
    refine ⟨trivial, trivial, t3, fun _ => trivial, by omega⟩

theorem Cap.captureUpToSize_dead {c c' : Cap} {n : Nat} {r : Res Unit} (hdead : Dead c)
    (hr : c.captureUpToSize n = (r, c')) : Dead c' ∧ c'.pre = c.pre := by
  obtain ⟨hp, hf⟩ := hdead
  obtain ⟨h1, h2, h3, _, _⟩ := Cap.captureUpToSize_faulted (c := c) (n := n) hf
  rw [hr] at h1 h2 h3
  exact ⟨⟨by simp only at h1 h2; rw [h2, h1, hp], h3⟩, h1⟩

/-! ## The reader of an `Input` -/

def InReader.src : InReader → Source
  | .bare s => s
  | .chain _ _ s => s

/-- The bytes an `Input` reader has yet to produce. -/
def InReader.content : InReader → List Nat
  | .bare s => s.data
  | .chain (some (vec, pos)) false s => vec.drop pos ++ s.data
  | .chain _ _ s => s.data

/-- The captured bytes an `Input` reader still holds. -/
def InReader.held : InReader → List Nat
  | .chain (some (vec, _)) _ _ => vec
  | _ => []

theorem Source.read_pass (s s' : Source) (n : Nat) (res : Rd) (h : s.read n = (res, s')) :
    s'.failAt = s.failAt ∧
    (∀ bs, res = .ok bs → bs ++ s'.data = s.data ∧ (bs = [] → n ≠ 0 → s'.data = [])) ∧
    (res = .err → s'.faulted = true ∧ s'.data = s.data) := by
  cases res with
  | err =>
    obtain ⟨e1, _, e3, _, e5, _⟩ := Source.read_err s s' n h
    exact ⟨e3, by simp, fun _ => ⟨e5, e1⟩⟩
  | ok bs =>
    obtain ⟨e1, _, e3, _, e5, _⟩ := Source.read_ok s s' n bs h
    refine ⟨e3, ?_, by simp⟩
    intro bs' hb; simp only [Rd.ok.injEq] at hb; subst hb
    exact ⟨e1, e5⟩

/-- The states `Chain<FusedReader<_>, _>` can be in between calls: the cursor
is present and the chain is still on it, or the cursor has been dropped. -/
def InReader.wf : InReader → Prop
  | .chain (some _) true _ => False
  | _ => True

theorem InReader.read_spec (r r' : InReader) (n : Nat) (res : Rd) (hw : r.wf)
    (h : r.read n = (res, r')) :
    r'.wf ∧ r'.src.failAt = r.src.failAt ∧
    (r'.held = r.held ∨ r'.held = []) ∧
    (∀ bs, res = .ok bs → bs ++ r'.content = r.content ∧
      (bs = [] → n ≠ 0 → r'.content = [] ∧ r'.held = [])) ∧
    (res = .err → r'.src.faulted = true ∧ r'.content = r.content) := by
  cases r with
  | bare s =>
    simp only [InReader.read, Prod.mk.injEq] at h
    obtain ⟨h1, rfl⟩ := h
    obtain ⟨p1, p2, p3⟩ := Source.read_pass s _ n res (Prod.ext h1 rfl)
    refine ⟨trivial, p1, Or.inl rfl, ?_, p3⟩
    intro bs hb
    exact ⟨(p2 bs hb).1, fun a b => ⟨(p2 bs hb).2 a b, rfl⟩⟩
  | chain fused done s =>
    cases done with
    | true =>
      cases fused with
      | some p => exact absurd hw (by simp [InReader.wf])
      | none =>
        simp only [InReader.read, Prod.mk.injEq] at h
        obtain ⟨h1, rfl⟩ := h
        obtain ⟨p1, p2, p3⟩ := Source.read_pass s _ n res (Prod.ext h1 rfl)
        refine ⟨trivial, p1, Or.inl rfl, ?_, p3⟩
        intro bs hb
        exact ⟨(p2 bs hb).1, fun a b => ⟨(p2 bs hb).2 a b, rfl⟩⟩
    | false =>
      cases fused with
      | none =>
        simp only [InReader.read] at h
        split at h
        · simp only [Prod.mk.injEq] at h
          obtain ⟨rfl, rfl⟩ := h
          refine ⟨trivial, rfl, Or.inl rfl, ?_, by simp⟩
          intro bs hb; simp only [Rd.ok.injEq] at hb; subst hb
          exact ⟨rfl, fun _ hn => absurd (by assumption) hn⟩
        · simp only [Prod.mk.injEq] at h
          obtain ⟨h1, rfl⟩ := h
          obtain ⟨p1, p2, p3⟩ := Source.read_pass s _ n res (Prod.ext h1 rfl)
          refine ⟨trivial, p1, Or.inl rfl, ?_, p3⟩
          intro bs hb
          exact ⟨(p2 bs hb).1, fun a b => ⟨(p2 bs hb).2 a b, rfl⟩⟩
      | some p =>
        obtain ⟨vec, pos⟩ := p
        simp only [InReader.read] at h
        split at h
        · rename_i hk
          simp only [Prod.mk.injEq] at h
          obtain ⟨h1, rfl⟩ := h
          obtain ⟨p1, p2, p3⟩ := Source.read_pass s _ n res (Prod.ext h1 rfl)
          have hdrop : List.drop pos vec = [] := by
            apply List.drop_eq_nil_of_le; omega
          refine ⟨trivial, p1, Or.inr rfl, ?_, fun e => ⟨(p3 e).1, by
            simp only [InReader.content, hdrop, List.nil_append]; exact (p3 e).2⟩⟩
          intro bs hb
          simp only [InReader.content, hdrop, List.nil_append]
          exact ⟨(p2 bs hb).1, fun a b => ⟨(p2 bs hb).2 a b, rfl⟩⟩
        · rename_i hk
          simp only [Prod.mk.injEq] at h
          obtain ⟨rfl, rfl⟩ := h
          refine ⟨trivial, rfl, Or.inl rfl, ?_, by simp⟩
          intro bs hb; simp only [Rd.ok.injEq] at hb; subst hb
          refine ⟨?_, ?_⟩
          · simp only [InReader.content]
            rw [← List.append_assoc, ← List.drop_drop, List.take_append_drop]
          · intro he hn
            exfalso
            apply hk
            refine ⟨?_, hn⟩
            have := congrArg List.length he
            simp only [List.length_take, List.length_drop, List.length_nil] at this
            omega

/-- Reading an `Input` reader to its end: what was read followed by what is
left is what there was; if no error occurred nothing is left and the captured
prefix has been dropped; an error means the source is at its fault. -/
theorem drain_spec (r : InReader) (b : Nat) (hb : b ≠ 0) (hw : r.wf) :
    (drain r b).bytes ++ (drain r b).rdr.content = r.content ∧
    (drain r b).rdr.src.failAt = r.src.failAt ∧
    ((drain r b).failed = false → (drain r b).rdr.content = [] ∧ (drain r b).rdr.held = []) ∧
    ((drain r b).failed = true → (drain r b).rdr.src.faulted = true) := by
  fun_induction drain r b with
  | case1 r r' hr =>
    obtain ⟨_, p1, _, _, p4⟩ := InReader.read_spec r r' b _ hw hr
    simp only [List.nil_append]
    exact ⟨(p4 rfl).2, p1, by simp, fun _ => (p4 rfl).1⟩
  | case2 r r' hr =>
    obtain ⟨_, p1, _, p3, _⟩ := InReader.read_spec r r' b _ hw hr
    obtain ⟨q1, q2⟩ := p3 [] rfl
    simp only [List.nil_append] at q1 ⊢
    exact ⟨q1, p1, fun _ => q2 rfl hb, by simp⟩
  | case3 r x xs r' hr d ih =>
    obtain ⟨pw, p1, _, p3, _⟩ := InReader.read_spec r r' b _ hw hr
    obtain ⟨q1, _⟩ := p3 _ rfl
    obtain ⟨i1, i2, i3, i4⟩ := ih pw
    refine ⟨?_, by rw [i2, p1], i3, i4⟩
    simp only [List.append_assoc]
    rw [i1]
    exact q1

theorem readToEnd_faulted (s : Source) (hf : s.faulted = true) :
    (readToEnd s).bytes = [] ∧ (readToEnd s).failed = true := by
  have := Source.read_faulted s (s.data.length + 1) hf (by omega)
  rw [readToEnd.eq_def]
  split
  · exact ⟨rfl, rfl⟩
  · rename_i hs; rw [hs] at this; simp at this
  · rename_i hs; rw [hs] at this; simp at this

/-- `capture_up_to_size(n)` never captures beyond `n` bytes. -/
theorem Cap.captureUpToSize_bound (c : Cap) (n : Nat) :
    (c.captureUpToSize n).2.pre.length ≤ max c.pre.length n := by
  unfold Cap.captureUpToSize
  dsimp only
  split
  · simp only; omega
  · obtain ⟨_, t2, _⟩ := takeReadToEnd_spec c.src (n - c.pre.length)
    split
    · simp only [List.length_append]; omega
    · split <;> (simp only [List.length_append]; omega)

end Xt.Input
