import XtModel.Model.Cli

/-!
For **every** behaviour of file descriptor 1: an `EPIPE` answer to any
operation — a direct write, the flush of buffered bytes inside a write, an
explicit flush — comes back from the `BufWriter` method that met it as a
`BrokenPipe` error (and so ends in `pipecheck::Writer`'s kill), and any other
error answer comes back as that method's error.
-/
namespace Xt.Cli

/-- The error an `io::Result` carries. -/
def errOf {α : Type} : IoR α → Option IoErr
  | .ok _ => none
  | .error e => some e

/-- How the ghost flags move across an operation that returned `err`. -/
def Tracks (s s' : FdSt) (err : Option IoErr) : Prop :=
  s'.epipe = (s.epipe || (err == some .brokenPipe)) ∧
  (s'.oerr = true → s.oerr = true ∨ ∃ m, err = some (.other m))

theorem Tracks.refl (s : FdSt) : Tracks s s none := by simp [Tracks]

theorem Tracks.trans_ok {s s1 s2 : FdSt} {err : Option IoErr} (h1 : Tracks s s1 none) (h2 : Tracks s1 s2 err) :
    Tracks s s2 err := by
  obtain ⟨a1, a2⟩ := h1
  obtain ⟨b1, b2⟩ := h2
  refine ⟨by rw [b1, a1]; simp, fun h => ?_⟩
  rcases b2 h with h' | h'
  · rcases a2 h' with h'' | ⟨m, h''⟩
    · exact .inl h''
    · simp at h''
  · exact .inr h'

theorem fdWrite_tracks (fd : Fd) (s : FdSt) (buf : Bytes) :
    Tracks s (fdWrite fd s buf).2 (errOf (fdWrite fd s buf).1) := by
  unfold fdWrite
  split <;> simp [Tracks, errOf]
  rename_i e _
  cases e <;> simp [isEpipe]

theorem fdFlush_tracks (fd : Fd) (s : FdSt) :
    Tracks s (fdFlush fd s).2 (errOf (fdFlush fd s).1) := by
  unfold fdFlush
  split <;> simp [Tracks, errOf]
  rename_i e _
  cases e <;> simp [isEpipe]

theorem writeLoop_tracks (fd : Fd) (zero : IoErr) (hz : ∃ m, zero = .other m) (buf : Bytes) (s : FdSt) :
    Tracks s (writeLoop fd zero buf s).2.1 (writeLoop fd zero buf s).1 := by
  fun_induction writeLoop fd zero buf s with
  | case1 s => exact Tracks.refl s
  | case2 buf s hb e s' hw =>
    have := fdWrite_tracks fd s buf
    rw [hw] at this; simpa [errOf] using this
  | case3 buf s hb s' hw =>
    have := fdWrite_tracks fd s buf
    rw [hw] at this
    simp only [errOf] at this
    obtain ⟨m, rfl⟩ := hz
    exact ⟨by simp [this.1], fun h => by rcases this.2 h with h' | ⟨_, h'⟩ <;> simp_all⟩
  | case4 buf s hb n s' hw hn ih =>
    have := fdWrite_tracks fd s buf
    rw [hw] at this
    simp only [errOf] at this
    exact Tracks.trans_ok this ih

theorem flushBuf_tracks (fd : Fd) (o : Out) :
    Tracks o.fd (flushBuf fd o).2.fd (errOf (flushBuf fd o).1) := by
  have := writeLoop_tracks fd writeZeroBuffered ⟨_, rfl⟩ o.buf o.fd
  unfold flushBuf
  split <;> (rename_i heq; rw [heq] at this; simpa [errOf] using this)

theorem makeRoom_tracks (fd : Fd) (o : Out) (n : Nat) :
    Tracks o.fd (makeRoom fd o n).2.fd (errOf (makeRoom fd o n).1) := by
  unfold makeRoom
  split
  · exact flushBuf_tracks fd o
  · exact Tracks.refl _

theorem bwWrite_tracks (fd : Fd) (o : Out) (b : Bytes) :
    Tracks o.fd (bwWrite fd o b).2.fd (errOf (bwWrite fd o b).1) := by
  unfold bwWrite
  split
  · exact Tracks.refl _
  · have hm := makeRoom_tracks fd o b.length
    split
    · rename_i e o1 heq; rw [heq] at hm; simpa [errOf] using hm
    · rename_i o1 heq
      rw [heq] at hm; simp only [errOf] at hm
      split
      · have := fdWrite_tracks fd o1.fd b
        split
        rename_i r s hw
        rw [hw] at this
        exact Tracks.trans_ok hm this
      · exact hm

theorem bwWriteAll_tracks (fd : Fd) (o : Out) (b : Bytes) :
    Tracks o.fd (bwWriteAll fd o b).2.fd (errOf (bwWriteAll fd o b).1) := by
  unfold bwWriteAll
  split
  · exact Tracks.refl _
  · have hm := makeRoom_tracks fd o b.length
    split
    · rename_i e o1 heq; rw [heq] at hm; simpa [errOf] using hm
    · rename_i o1 heq
      rw [heq] at hm; simp only [errOf] at hm
      split
      · have := writeLoop_tracks fd writeZeroWhole ⟨_, rfl⟩ b o1.fd
        split
        · rename_i s r hw; rw [hw] at this; exact Tracks.trans_ok hm this
        · rename_i e s r hw; rw [hw] at this; exact Tracks.trans_ok hm this
      · exact hm

theorem bwWriteFmt_tracks (fd : Fd) (frags : List Bytes) (o : Out) :
    Tracks o.fd (bwWriteFmt fd o frags).2.fd (errOf (bwWriteFmt fd o frags).1) := by
  induction frags generalizing o with
  | nil => exact Tracks.refl _
  | cons f fs ih =>
    have h1 := bwWriteAll_tracks fd o f
    unfold bwWriteFmt
    split
    · rename_i e o1 heq; rw [heq] at h1; simpa [errOf] using h1
    · rename_i o1 heq
      rw [heq] at h1; simp only [errOf] at h1
      exact Tracks.trans_ok h1 (ih o1)

theorem bwWriteVectored_tracks (fd : Fd) (o : Out) (bufs : List Bytes) :
    Tracks o.fd (bwWriteVectored fd o bufs).2.fd (errOf (bwWriteVectored fd o bufs).1) := by
  unfold bwWriteVectored
  have hm := makeRoom_tracks fd o bufs.flatten.length
  simp only
  split
  · rename_i e o1 heq; rw [heq] at hm; simpa [errOf] using hm
  · rename_i o1 heq
    rw [heq] at hm; simp only [errOf] at hm
    split
    · have := fdWrite_tracks fd o1.fd bufs.flatten
      exact Tracks.trans_ok hm this
    · exact hm

theorem bwFlush_tracks (fd : Fd) (o : Out) :
    Tracks o.fd (bwFlush fd o).2.fd (errOf (bwFlush fd o).1) := by
  have h1 := flushBuf_tracks fd o
  unfold bwFlush
  split
  · rename_i e o1 heq; rw [heq] at h1; simpa [errOf] using h1
  · rename_i o1 heq
    rw [heq] at h1; simp only [errOf] at h1
    have := fdFlush_tracks fd o1.fd
    split
    rename_i r s hf
    rw [hf] at this
    exact Tracks.trans_ok h1 this

/-! ### `pipecheck::Writer` and the library's events -/

/-- The error behind the outcome of a `pipecheck::Writer` call. -/
def pcErr {α : Type} : PcOut α → Option IoErr
  | .returned r => errOf r
  | .killedBySigpipe => some .brokenPipe

theorem pcErr_check {α : Type} (r : IoR α) : pcErr (checkForBrokenPipe r) = errOf r := by
  cases r with
  | ok v => rfl
  | error e => cases e <;> rfl

theorem check_never_returns_epipe {α : Type} (r : IoR α) :
    checkForBrokenPipe r ≠ .returned (.error .brokenPipe) := by
  cases r with
  | ok v => simp [checkForBrokenPipe]
  | error e => cases e <;> simp [checkForBrokenPipe]

theorem check_killed_iff {α : Type} (r : IoR α) :
    checkForBrokenPipe r = .killedBySigpipe ↔ r = .error .brokenPipe := by
  cases r with
  | ok v => simp [checkForBrokenPipe]
  | error e => cases e <;> simp [checkForBrokenPipe]

theorem check_returned {α : Type} (r r' : IoR α) (h : checkForBrokenPipe r = .returned r') :
    r = r' ∧ r' ≠ .error .brokenPipe := by
  cases r with
  | ok v => simp [checkForBrokenPipe] at h; subst h; simp
  | error e => cases e <;> simp [checkForBrokenPipe] at h; subst h; simp

/-- The error behind the outcome of an event. -/
def evErr : EvR → Option IoErr
  | .ok => none
  | .err e => some e
  | .killed => some .brokenPipe

theorem evErr_evOfUnit (r : IoR Unit) : evErr (evOfUnit (checkForBrokenPipe r)) = errOf r := by
  cases r with
  | ok v => rfl
  | error e => cases e <;> rfl

theorem evOfUnit_ne_epipe (r : IoR Unit) : evOfUnit (checkForBrokenPipe r) ≠ .err .brokenPipe := by
  cases r with
  | ok v => simp [checkForBrokenPipe, evOfUnit]
  | error e => cases e <;> simp [checkForBrokenPipe, evOfUnit]

theorem callerWriteLoop_tracks (fd : Fd) (b : Bytes) (o : Out) :
    Tracks o.fd (callerWriteLoop fd b o).2.fd (evErr (callerWriteLoop fd b o).1) ∧
      (callerWriteLoop fd b o).1 ≠ .err .brokenPipe := by
  fun_induction callerWriteLoop fd b o with
  | case1 o => exact ⟨Tracks.refl _, by simp⟩
  | case2 b o hb o' hw =>
    have := bwWrite_tracks fd o b
    unfold Writer.write at hw
    split at hw
    rename_i r o1 heq
    rw [heq] at this
    injection hw with h1 h2; subst h2
    have hr := (check_killed_iff r).1 h1
    subst hr
    exact ⟨by simpa [errOf, evErr] using this, by simp⟩
  | case3 b o hb e o' hw =>
    have := bwWrite_tracks fd o b
    unfold Writer.write at hw
    split at hw
    rename_i r o1 heq
    rw [heq] at this
    injection hw with h1 h2; subst h2
    obtain ⟨hr, hne⟩ := check_returned r _ h1
    subst hr
    refine ⟨by simpa [errOf, evErr] using this, ?_⟩
    intro h; injection h with h; subst h; exact hne rfl
  | case4 b o hb o' hw =>
    have := bwWrite_tracks fd o b
    unfold Writer.write at hw
    split at hw
    rename_i r o1 heq
    rw [heq] at this
    injection hw with h1 h2; subst h2
    obtain ⟨hr, _⟩ := check_returned r _ h1
    subst hr
    simp only [errOf] at this
    refine ⟨?_, by simp [writeZeroWhole]⟩
    exact ⟨by simp [this.1, evErr, writeZeroWhole], fun h => by
      rcases this.2 h with h' | ⟨_, h'⟩
      · exact .inl h'
      · simp at h'⟩
  | case5 b o hb n o' hw hn ih =>
    have := bwWrite_tracks fd o b
    unfold Writer.write at hw
    split at hw
    rename_i r o1 heq
    rw [heq] at this
    injection hw with h1 h2; subst h2
    obtain ⟨hr, _⟩ := check_returned r _ h1
    subst hr
    simp only [errOf] at this
    exact ⟨Tracks.trans_ok this ih.1, ih.2⟩

theorem callerVectoredLoop_tracks (fd : Fd) (bufs : List Bytes) (o : Out) :
    Tracks o.fd (callerVectoredLoop fd bufs o).2.fd (evErr (callerVectoredLoop fd bufs o).1) ∧
      (callerVectoredLoop fd bufs o).1 ≠ .err .brokenPipe := by
  have h0 := bwWriteVectored_tracks fd o bufs
  unfold callerVectoredLoop Writer.writeVectored
  cases hw : bwWriteVectored fd o bufs with
  | mk r o1 =>
    rw [hw] at h0
    simp only
    cases hc : checkForBrokenPipe r with
    | killedBySigpipe =>
      have := (check_killed_iff r).1 hc; subst this
      exact ⟨by simpa [errOf, evErr] using h0, by simp⟩
    | returned r' =>
      obtain ⟨hr, hne⟩ := check_returned r r' hc
      subst hr
      cases r with
      | error e =>
        refine ⟨by simpa [errOf, evErr] using h0, ?_⟩
        intro h; injection h with h; subst h; exact hne rfl
      | ok n =>
        simp only [errOf] at h0
        simp only
        split
        · exact ⟨by simpa [evErr] using h0, by simp⟩
        · split
          · refine ⟨?_, by simp [writeZeroWhole]⟩
            exact ⟨by simp [h0.1, evErr, writeZeroWhole], fun h => by
              rcases h0.2 h with h' | ⟨_, h'⟩
              · exact .inl h'
              · simp at h'⟩
          · have := callerWriteLoop_tracks fd (bufs.flatten.drop n) o1
            exact ⟨Tracks.trans_ok h0 this.1, this.2⟩

theorem execEvent_tracks (fd : Fd) (o : Out) (ev : WEvent) :
    Tracks o.fd (execEvent fd o ev).2.fd (evErr (execEvent fd o ev).1) ∧
      (execEvent fd o ev).1 ≠ .err .brokenPipe := by
  cases ev with
  | write b => exact callerWriteLoop_tracks fd b o
  | writeVectored bs => exact callerVectoredLoop_tracks fd bs o
  | writeAll b =>
    have := bwWriteAll_tracks fd o b
    simp only [execEvent, Writer.writeAll]
    cases hw : bwWriteAll fd o b with
    | mk r o1 => rw [hw] at this; exact ⟨by simpa [evErr_evOfUnit] using this, evOfUnit_ne_epipe r⟩
  | writeFmt fs =>
    have := bwWriteFmt_tracks fd fs o
    simp only [execEvent, Writer.writeFmt]
    cases hw : bwWriteFmt fd o fs with
    | mk r o1 => rw [hw] at this; exact ⟨by simpa [evErr_evOfUnit] using this, evOfUnit_ne_epipe r⟩
  | flush =>
    have := bwFlush_tracks fd o
    simp only [execEvent, Writer.flush]
    cases hw : bwFlush fd o with
    | mk r o1 => rw [hw] at this; exact ⟨by simpa [evErr_evOfUnit] using this, evOfUnit_ne_epipe r⟩

theorem execEvents_tracks (fd : Fd) (evs : List WEvent) (i : Nat) (o : Out) :
    Tracks o.fd (execEvents fd evs i o).2.2.fd (evErr (execEvents fd evs i o).1) ∧
      (execEvents fd evs i o).1 ≠ .err .brokenPipe := by
  induction evs generalizing i o with
  | nil => exact ⟨Tracks.refl _, by simp [execEvents]⟩
  | cons ev rest ih =>
    have h1 := execEvent_tracks fd o ev
    unfold execEvents
    cases he : execEvent fd o ev with
    | mk r o1 =>
      rw [he] at h1
      cases r with
      | ok => simp only [evErr] at h1; exact ⟨Tracks.trans_ok h1.1 (ih (i + 1) o1).1, (ih (i + 1) o1).2⟩
      | err e => exact h1
      | killed => exact h1

/-- The kind of error behind how a `translate_*` call ended for `main`. -/
theorem translateCall_tracks (w : World) (earlier : List Call) (call : Call) (o : Out) :
    (translateCall w earlier call o).2.fd.epipe =
        (o.fd.epipe || ((translateCall w earlier call o).1 == .killed)) ∧
    ((translateCall w earlier call o).2.fd.oerr = true →
        o.fd.oerr = true ∨ ∃ msg, (translateCall w earlier call o).1 = .failed msg) := by
  have h := execEvents_tracks w.fd (w.lib.run earlier call).events 0 o
  unfold translateCall
  simp only
  cases he : execEvents w.fd (w.lib.run earlier call).events 0 o with
  | mk r rest =>
    cases rest with
    | mk i o1 =>
      rw [he] at h
      obtain ⟨⟨h1, h2⟩, h3⟩ := h
      cases r with
      | killed => simp only [evErr] at h1 h2; exact ⟨by simp [h1], fun hh => by
          rcases h2 hh with h' | ⟨_, h'⟩
          · exact .inl h'
          · simp at h'⟩
      | err e =>
        cases e with
        | brokenPipe => exact absurd rfl h3
        | other m =>
          simp only [evErr] at h1 h2
          have e1 : (some (IoErr.other m) == some IoErr.brokenPipe) = false := by simp
          have e2 : (TrR.failed (w.lib.onWriteErr earlier call i (IoErr.other m)) == TrR.killed) = false := by
            simp
          refine ⟨?_, fun _ => .inr ⟨_, rfl⟩⟩
          rw [h1, e1]; simp [e2]
      | ok =>
        simp only [evErr] at h1 h2
        cases (w.lib.run earlier call).result with
        | none => exact ⟨by simp [h1], fun hh => by
            rcases h2 hh with h' | ⟨_, h'⟩
            · exact .inl h'
            · simp at h'⟩
        | some m => exact ⟨by simp [h1], fun _ => .inr ⟨_, rfl⟩⟩

theorem writerFlush_tracks (fd : Fd) (o : Out) :
    Tracks o.fd (Writer.flush fd o).2.fd (pcErr (Writer.flush fd o).1) := by
  have := bwFlush_tracks fd o
  unfold Writer.flush
  cases hw : bwFlush fd o with
  | mk r o1 => rw [hw] at this; simpa [pcErr_check] using this

end Xt.Cli
