import XtModel.Model.Cli

/-!
The output stack (`BufWriter` over file descriptor 1, under `pipecheck::Writer`)
when every write is accepted, and in general: what reaches the descriptor is
always a prefix of what was handed over, in order.
-/
namespace Xt.Cli

/-- Whatever the descriptor does: a `flush` that returns `Ok` leaves xt's buffer empty. -/
theorem writerFlush_ok_buf {fd : Fd} {o o' : Out} (h : Writer.flush fd o = (.returned (.ok ()), o')) :
    o'.buf = [] := by
  unfold Writer.flush bwFlush flushBuf at h
  split at h
  rename_i r o1 heq
  split at heq
  · rename_i e o2 h2
    split at h2
    · simp at h2
    · simp at h2; injection heq with h3 h4; subst h3
      simp [checkForBrokenPipe] at h
      split at h <;> simp at h
  · rename_i o2 h2
    split at h2
    · rename_i s rest hw
      simp at h2; subst h2
      split at heq
      rename_i r2 s2 hfl
      injection heq with h3 h4
      injection h with h5 h6
      subst h4; subst h6; rfl
    · simp at h2

/-- A file descriptor that accepts everything (a pipe with a reader that keeps
reading, a regular file on a device with space). -/
def GoodFd (fd : Fd) : Prop := ∀ i n, fd i n = .all

/-- Everything handed to the stack so far and not lost: accepted bytes, then buffered bytes. -/
def Out.total (o : Out) : Bytes := o.fd.accepted ++ o.buf

theorem fdWrite_good {fd : Fd} (h : GoodFd fd) (s : FdSt) (buf : Bytes) :
    fdWrite fd s buf = (.ok buf.length, { s with ops := s.ops + 1, accepted := s.accepted ++ buf }) := by
  simp [fdWrite, h s.ops s.accepted.length]

theorem fdFlush_good {fd : Fd} (h : GoodFd fd) (s : FdSt) :
    fdFlush fd s = (.ok (), { s with ops := s.ops + 1 }) := by
  simp [fdFlush, h s.ops s.accepted.length]

theorem writeLoop_good {fd : Fd} (h : GoodFd fd) (zero : IoErr) (buf : Bytes) (s : FdSt) :
    (writeLoop fd zero buf s).1 = none ∧ (writeLoop fd zero buf s).2.1.accepted = s.accepted ++ buf ∧
      (writeLoop fd zero buf s).2.1.epipe = s.epipe := by
  rw [writeLoop.eq_def]
  by_cases hb : buf = []
  · simp [hb]
  · have hl : buf.length ≠ 0 := fun hl => hb (List.eq_nil_of_length_eq_zero hl)
    simp only [hb, dite_false, fdWrite_good h, hl]
    rw [writeLoop.eq_def]
    simp

theorem flushBuf_good {fd : Fd} (h : GoodFd fd) (o : Out) :
    (flushBuf fd o).1 = .ok () ∧ (flushBuf fd o).2.buf = [] ∧
      (flushBuf fd o).2.fd.accepted = o.fd.accepted ++ o.buf ∧ (flushBuf fd o).2.fd.epipe = o.fd.epipe := by
  obtain ⟨h1, h2, h3⟩ := writeLoop_good h writeZeroBuffered o.buf o.fd
  unfold flushBuf
  split
  · rename_i s r heq; rw [heq] at h2 h3; simp_all
  · rename_i e s r heq; rw [heq] at h1; simp at h1

/-- One operation on the stack handed over `bytes` and lost nothing. -/
def Conserves (o o' : Out) (bytes : Bytes) : Prop :=
  o'.total = o.total ++ bytes ∧ o.fd.accepted <+: o'.fd.accepted ∧ o'.fd.epipe = o.fd.epipe

theorem Conserves.refl (o : Out) : Conserves o o [] := by simp [Conserves]

theorem Conserves.trans {o o1 o2 : Out} {a b : Bytes} (h1 : Conserves o o1 a) (h2 : Conserves o1 o2 b) :
    Conserves o o2 (a ++ b) := by
  obtain ⟨a1, a2, a3⟩ := h1
  obtain ⟨b1, b2, b3⟩ := h2
  exact ⟨by rw [b1, a1, List.append_assoc], List.IsPrefix.trans a2 b2, by rw [b3, a3]⟩

theorem makeRoom_good {fd : Fd} (h : GoodFd fd) (o : Out) (n : Nat) :
    (makeRoom fd o n).1 = .ok () ∧ Conserves o (makeRoom fd o n).2 [] ∧
      (n + o.buf.length > CAP → (makeRoom fd o n).2.buf = []) ∧
      (¬ n + o.buf.length > CAP → (makeRoom fd o n).2 = o) := by
  unfold makeRoom
  by_cases hc : n + o.buf.length > CAP
  · obtain ⟨h1, h2, h3, h4⟩ := flushBuf_good h o
    simp only [hc, if_true]
    refine ⟨h1, ⟨?_, ?_, h4⟩, fun _ => h2, fun hn => absurd trivial hn⟩
    · simp [Out.total, h2, h3]
    · rw [h3]; exact List.prefix_append _ _
  · simp [hc, Conserves.refl]

theorem append_conserves (o : Out) (b : Bytes) : Conserves o { o with buf := o.buf ++ b } b := by
  simp [Conserves, Out.total]

theorem bwWrite_good {fd : Fd} (h : GoodFd fd) (o : Out) (b : Bytes) :
    (bwWrite fd o b).1 = .ok b.length ∧ Conserves o (bwWrite fd o b).2 b := by
  unfold bwWrite
  by_cases hc : b.length + o.buf.length < CAP
  · simp [hc, append_conserves]
  · obtain ⟨h1, h2, h3, h4⟩ := makeRoom_good h o b.length
    simp only [hc, if_false]
    split
    · rename_i e o1 heq; rw [heq] at h1; simp at h1
    · rename_i o1 heq
      rw [heq] at h2 h3 h4
      simp only at h2 h3 h4
      by_cases hb : b.length ≥ CAP
      · simp only [hb, if_true, fdWrite_good h]
        have hbuf : o1.buf = [] := by
          by_cases hg : b.length + o.buf.length > CAP
          · exact h3 hg
          · have : o.buf.length = 0 := by omega
            rw [h4 hg]; exact List.eq_nil_of_length_eq_zero this
        refine ⟨trivial, ?_⟩
        have := Conserves.trans h2 (o2 := { o1 with fd := { o1.fd with ops := o1.fd.ops + 1, accepted := o1.fd.accepted ++ b } }) (b := b)
          (by simp [Conserves, Out.total, hbuf])
        simpa using this
      · simp only [hb, if_false]
        refine ⟨trivial, ?_⟩
        have := Conserves.trans h2 (append_conserves o1 b)
        simpa using this

theorem bwWriteAll_good {fd : Fd} (h : GoodFd fd) (o : Out) (b : Bytes) :
    (bwWriteAll fd o b).1 = .ok () ∧ Conserves o (bwWriteAll fd o b).2 b := by
  unfold bwWriteAll
  by_cases hc : b.length + o.buf.length < CAP
  · simp [hc, append_conserves]
  · obtain ⟨h1, h2, h3, h4⟩ := makeRoom_good h o b.length
    simp only [hc, if_false]
    split
    · rename_i e o1 heq; rw [heq] at h1; simp at h1
    · rename_i o1 heq
      rw [heq] at h2 h3 h4
      simp only at h2 h3 h4
      by_cases hb : b.length ≥ CAP
      · simp only [hb, if_true]
        have hbuf : o1.buf = [] := by
          by_cases hg : b.length + o.buf.length > CAP
          · exact h3 hg
          · have : o.buf.length = 0 := by omega
            rw [h4 hg]; exact List.eq_nil_of_length_eq_zero this
        obtain ⟨w1, w2, w3⟩ := writeLoop_good h writeZeroWhole b o1.fd
        split
        · rename_i s r hw
          rw [hw] at w2 w3
          refine ⟨rfl, ?_⟩
          have := Conserves.trans h2 (o2 := { o1 with fd := s }) (b := b)
            (by simp only [Conserves, Out.total, hbuf] at *; simp_all)
          simpa using this
        · rename_i e s r hw; rw [hw] at w1; simp at w1
      · simp only [hb, if_false]
        refine ⟨trivial, ?_⟩
        have := Conserves.trans h2 (append_conserves o1 b)
        simpa using this

theorem bwWriteFmt_good {fd : Fd} (h : GoodFd fd) (frags : List Bytes) (o : Out) :
    (bwWriteFmt fd o frags).1 = .ok () ∧ Conserves o (bwWriteFmt fd o frags).2 frags.flatten := by
  induction frags generalizing o with
  | nil => simp [bwWriteFmt, Conserves.refl]
  | cons f fs ih =>
    obtain ⟨h1, h2⟩ := bwWriteAll_good h o f
    unfold bwWriteFmt
    split
    · rename_i e o1 heq; rw [heq] at h1; simp at h1
    · rename_i o1 heq
      rw [heq] at h2
      obtain ⟨i1, i2⟩ := ih o1
      exact ⟨i1, by simpa using Conserves.trans h2 i2⟩

theorem bwWriteVectored_good {fd : Fd} (h : GoodFd fd) (o : Out) (bufs : List Bytes) :
    (bwWriteVectored fd o bufs).1 = .ok bufs.flatten.length ∧
      Conserves o (bwWriteVectored fd o bufs).2 bufs.flatten := by
  unfold bwWriteVectored
  obtain ⟨h1, h2, h3, h4⟩ := makeRoom_good h o bufs.flatten.length
  simp only
  split
  · rename_i e o1 heq; rw [heq] at h1; simp at h1
  · rename_i o1 heq
    rw [heq] at h2 h3 h4
    simp only at h2 h3 h4
    by_cases hb : bufs.flatten.length ≥ CAP
    · simp only [hb, if_true, fdWrite_good h]
      have hbuf : o1.buf = [] := by
        by_cases hg : bufs.flatten.length + o.buf.length > CAP
        · exact h3 hg
        · have : o.buf.length = 0 := by omega
          rw [h4 hg]; exact List.eq_nil_of_length_eq_zero this
      refine ⟨trivial, ?_⟩
      have := Conserves.trans h2 (o2 := { o1 with fd := { o1.fd with ops := o1.fd.ops + 1, accepted := o1.fd.accepted ++ bufs.flatten } }) (b := bufs.flatten)
        (by simp [Conserves, Out.total, hbuf])
      simpa using this
    · simp only [hb, if_false]
      refine ⟨trivial, ?_⟩
      have := Conserves.trans h2 (append_conserves o1 bufs.flatten)
      simpa using this

theorem bwFlush_good {fd : Fd} (h : GoodFd fd) (o : Out) :
    (bwFlush fd o).1 = .ok () ∧ (bwFlush fd o).2.buf = [] ∧
      (bwFlush fd o).2.fd.accepted = o.total ∧ (bwFlush fd o).2.fd.epipe = o.fd.epipe := by
  obtain ⟨h1, h2, h3, h4⟩ := flushBuf_good h o
  unfold bwFlush
  split
  · rename_i e o1 heq; rw [heq] at h1; simp at h1
  · rename_i o1 heq
    rw [heq] at h2 h3 h4
    simp only at h2 h3 h4
    simp [fdFlush_good h, h2, h3, h4, Out.total]

/-! ### The library's write events through `pipecheck::Writer`, good descriptor -/

theorem check_ok {α : Type} (v : α) : checkForBrokenPipe (.ok v : IoR α) = .returned (.ok v) := rfl

theorem callerWriteLoop_good {fd : Fd} (h : GoodFd fd) (b : Bytes) (o : Out) :
    (callerWriteLoop fd b o).1 = .ok ∧ Conserves o (callerWriteLoop fd b o).2 b := by
  rw [callerWriteLoop.eq_def]
  by_cases hb : b = []
  · simp [hb, Conserves.refl]
  · have hl : b.length ≠ 0 := fun hl => hb (List.eq_nil_of_length_eq_zero hl)
    obtain ⟨h1, h2⟩ := bwWrite_good h o b
    simp only [hb, dite_false, Writer.write]
    cases hw : bwWrite fd o b with
    | mk r o' =>
      rw [hw] at h1 h2
      simp only at h1 h2
      subst h1
      simp only [check_ok, hl, dite_false, List.drop_length]
      rw [callerWriteLoop.eq_def]
      simpa using h2

theorem callerVectoredLoop_good {fd : Fd} (h : GoodFd fd) (bufs : List Bytes) (o : Out) :
    (callerVectoredLoop fd bufs o).1 = .ok ∧ Conserves o (callerVectoredLoop fd bufs o).2 bufs.flatten := by
  obtain ⟨h1, h2⟩ := bwWriteVectored_good h o bufs
  unfold callerVectoredLoop Writer.writeVectored
  cases hw : bwWriteVectored fd o bufs with
  | mk r o' =>
    rw [hw] at h1 h2
    simp only at h1 h2
    subst h1
    simpa [check_ok] using h2

theorem execEvent_good {fd : Fd} (h : GoodFd fd) (o : Out) (ev : WEvent) :
    (execEvent fd o ev).1 = .ok ∧ Conserves o (execEvent fd o ev).2 ev.bytes ∧
      (ev = .flush → (execEvent fd o ev).2.buf = []) := by
  cases ev with
  | write b => simpa [execEvent, WEvent.bytes] using callerWriteLoop_good h b o
  | writeVectored bs => simpa [execEvent, WEvent.bytes] using callerVectoredLoop_good h bs o
  | writeAll b =>
    obtain ⟨h1, h2⟩ := bwWriteAll_good h o b
    simp only [execEvent, Writer.writeAll, WEvent.bytes]
    cases hw : bwWriteAll fd o b with
    | mk r o' => rw [hw] at h1 h2; simp only at h1 h2; subst h1; simpa [check_ok, evOfUnit] using h2
  | writeFmt fs =>
    obtain ⟨h1, h2⟩ := bwWriteFmt_good h fs o
    simp only [execEvent, Writer.writeFmt, WEvent.bytes]
    cases hw : bwWriteFmt fd o fs with
    | mk r o' => rw [hw] at h1 h2; simp only at h1 h2; subst h1; simpa [check_ok, evOfUnit] using h2
  | flush =>
    obtain ⟨h1, h2, h3, h4⟩ := bwFlush_good h o
    simp only [execEvent, Writer.flush, WEvent.bytes]
    cases hw : bwFlush fd o with
    | mk r o' =>
      rw [hw] at h1 h2 h3 h4; simp only at h1 h2 h3 h4; subst h1
      simp [check_ok, evOfUnit, Conserves, Out.total, h2, h3, h4]

/-- Bytes a list of events hands to the writer. -/
def eventsBytes (evs : List WEvent) : Bytes := (evs.map WEvent.bytes).flatten

theorem execEvents_good {fd : Fd} (h : GoodFd fd) (evs : List WEvent) (i : Nat) (o : Out) :
    (execEvents fd evs i o).1 = .ok ∧ Conserves o (execEvents fd evs i o).2.2 (eventsBytes evs) := by
  induction evs generalizing i o with
  | nil => simp [execEvents, eventsBytes, Conserves.refl]
  | cons ev rest ih =>
    obtain ⟨h1, h2, _⟩ := execEvent_good h o ev
    unfold execEvents
    cases he : execEvent fd o ev with
    | mk r o' =>
      rw [he] at h1 h2; simp only at h1 h2; subst h1
      obtain ⟨i1, i2⟩ := ih (i + 1) o'
      refine ⟨i1, ?_⟩
      have := Conserves.trans h2 i2
      simpa [eventsBytes] using this

theorem writerFlush_good {fd : Fd} (h : GoodFd fd) (o : Out) :
    ∃ o', Writer.flush fd o = (.returned (.ok ()), o') ∧ o'.buf = [] ∧ o'.fd.accepted = o.total ∧
      o'.fd.epipe = o.fd.epipe := by
  obtain ⟨h1, h2, h3, h4⟩ := bwFlush_good h o
  unfold Writer.flush
  cases hw : bwFlush fd o with
  | mk r o' =>
    rw [hw] at h1 h2 h3 h4; simp only at h1 h2 h3 h4; subst h1
    exact ⟨o', rfl, h2, h3, h4⟩

end Xt.Cli
