import XtModel.Lemmas.CliRun

/-!
For **every** behaviour of file descriptor 1: an operation on the output stack
that returns `Ok` has handed over all its bytes and lost none — so a run that
ends with status 0 has written everything, whatever the descriptor did.
-/
namespace Xt.Cli

/-- `o'` holds everything `o` held plus `bytes`, nothing reordered, nothing taken back. -/
def Kept (o o' : Out) (bytes : Bytes) : Prop :=
  o'.total = o.total ++ bytes

theorem Kept.refl (o : Out) : Kept o o [] := by simp [Kept]

theorem Kept.trans {o o1 o2 : Out} {a b : Bytes} (h1 : Kept o o1 a) (h2 : Kept o1 o2 b) : Kept o o2 (a ++ b) := by
  simp only [Kept] at *; rw [h2, h1, List.append_assoc]

theorem fdWrite_ok {fd : Fd} {s s' : FdSt} {buf : Bytes} {n : Nat} (h : fdWrite fd s buf = (.ok n, s')) :
    s'.accepted = s.accepted ++ buf.take n ∧ n ≤ buf.length := by
  unfold fdWrite at h
  split at h
  · simp at h; obtain ⟨rfl, rfl⟩ := h; simp
  · rename_i k _
    simp at h; obtain ⟨rfl, rfl⟩ := h
    refine ⟨?_, Nat.min_le_right _ _⟩
    simp only
    congr 1
    by_cases hk : k ≤ buf.length
    · rw [Nat.min_eq_left hk]
    · have : buf.length ≤ k := by omega
      rw [Nat.min_eq_right this, List.take_of_length_le this, List.take_of_length_le (Nat.le_refl _)]
  · simp at h

theorem writeLoop_ok (fd : Fd) (zero : IoErr) (buf : Bytes) (s : FdSt) :
    (writeLoop fd zero buf s).1 = none → (writeLoop fd zero buf s).2.1.accepted = s.accepted ++ buf := by
  fun_induction writeLoop fd zero buf s with
  | case1 s => intro _; simp
  | case2 buf s hb e s' hw => intro h; simp at h
  | case3 buf s hb s' hw => intro h; simp at h
  | case4 buf s hb n s' hw hn ih =>
    intro h
    obtain ⟨h1, _⟩ := fdWrite_ok hw
    rw [ih h, h1, List.append_assoc, List.take_append_drop]

/-- In general the loop leaves `accepted ++ rest = before ++ buf`. -/
theorem writeLoop_total (fd : Fd) (zero : IoErr) (buf : Bytes) (s : FdSt) :
    (writeLoop fd zero buf s).2.1.accepted ++ (writeLoop fd zero buf s).2.2 = s.accepted ++ buf := by
  fun_induction writeLoop fd zero buf s with
  | case1 s => simp
  | case2 buf s hb e s' hw =>
    unfold fdWrite at hw
    split at hw <;> simp at hw
    obtain ⟨_, rfl⟩ := hw; simp
  | case3 buf s hb s' hw =>
    obtain ⟨h1, _⟩ := fdWrite_ok hw
    simp [h1]
  | case4 buf s hb n s' hw hn ih =>
    obtain ⟨h1, _⟩ := fdWrite_ok hw
    rw [ih, h1, List.append_assoc, List.take_append_drop]

theorem flushBuf_kept (fd : Fd) (o : Out) : Kept o (flushBuf fd o).2 [] := by
  have := writeLoop_total fd writeZeroBuffered o.buf o.fd
  unfold flushBuf
  split
  · rename_i s r heq
    have h1 := writeLoop_ok fd writeZeroBuffered o.buf o.fd (by rw [heq])
    rw [heq] at h1
    simp only at h1
    simp [Kept, Out.total, h1]
  · rename_i e s r heq
    rw [heq] at this
    simpa [Kept, Out.total] using this

theorem flushBuf_ok_empty {fd : Fd} {o : Out} (h : (flushBuf fd o).1 = .ok ()) : (flushBuf fd o).2.buf = [] := by
  unfold flushBuf at h ⊢
  split
  · rfl
  · rename_i heq; simp [heq] at h

theorem makeRoom_kept (fd : Fd) (o : Out) (n : Nat) : Kept o (makeRoom fd o n).2 [] := by
  unfold makeRoom
  split
  · exact flushBuf_kept fd o
  · exact Kept.refl o

/-- After `makeRoom` succeeded for `n ≥ CAP` bytes the buffer is empty. -/
theorem makeRoom_ok_empty {fd : Fd} {o : Out} {n : Nat} (h : (makeRoom fd o n).1 = .ok ()) (hn : n ≥ CAP) :
    (makeRoom fd o n).2.buf = [] := by
  unfold makeRoom at h ⊢
  split
  · rename_i hc; simp only [hc, if_true] at h; exact flushBuf_ok_empty h
  · rename_i hc
    have : o.buf.length = 0 := by omega
    exact List.eq_nil_of_length_eq_zero this

theorem append_kept (o : Out) (b : Bytes) : Kept o { o with buf := o.buf ++ b } b := by
  simp [Kept, Out.total]

theorem bwWrite_ok {fd : Fd} {o o' : Out} {b : Bytes} {n : Nat} (h : bwWrite fd o b = (.ok n, o')) :
    Kept o o' (b.take n) ∧ n ≤ b.length := by
  unfold bwWrite at h
  split at h
  · simp at h; obtain ⟨rfl, rfl⟩ := h
    simpa using append_kept o b
  · have hk := makeRoom_kept fd o b.length
    split at h
    · simp at h
    · rename_i o1 heq
      rw [heq] at hk
      have hok : (makeRoom fd o b.length).1 = .ok () := by rw [heq]
      split at h
      · rename_i hcap
        have hempty := makeRoom_ok_empty hok hcap
        rw [heq] at hempty
        split at h
        rename_i r s hw
        simp at h; obtain ⟨rfl, rfl⟩ := h
        obtain ⟨h1, h2⟩ := fdWrite_ok hw
        refine ⟨?_, h2⟩
        have : Kept o1 { o1 with fd := s } (b.take n) := by
          simp only [Kept, Out.total] at *
          simp only [hempty] at *
          simp [h1]
        simpa using Kept.trans hk this
      · simp at h; obtain ⟨rfl, rfl⟩ := h
        simpa using Kept.trans hk (append_kept o1 b)

theorem bwWriteAll_ok {fd : Fd} {o o' : Out} {b : Bytes} (h : bwWriteAll fd o b = (.ok (), o')) : Kept o o' b := by
  unfold bwWriteAll at h
  split at h
  · simp at h; subst h; exact append_kept o b
  · have hk := makeRoom_kept fd o b.length
    split at h
    · simp at h
    · rename_i o1 heq
      rw [heq] at hk
      have hok : (makeRoom fd o b.length).1 = .ok () := by rw [heq]
      split at h
      · rename_i hcap
        have hempty := makeRoom_ok_empty hok hcap
        rw [heq] at hempty
        split at h
        · rename_i s r hw
          simp at h; subst h
          have h1 := writeLoop_ok fd writeZeroWhole b o1.fd (by rw [hw])
          rw [hw] at h1
          have : Kept o1 { o1 with fd := s } b := by
            simp only [Kept, Out.total] at *
            simp only [hempty] at *
            simp [h1]
          simpa using Kept.trans hk this
        · simp at h
      · simp at h; subst h
        simpa using Kept.trans hk (append_kept o1 b)

theorem bwWriteFmt_ok {fd : Fd} (frags : List Bytes) {o o' : Out} (h : bwWriteFmt fd o frags = (.ok (), o')) :
    Kept o o' frags.flatten := by
  induction frags generalizing o with
  | nil => simp [bwWriteFmt] at h; subst h; exact Kept.refl o
  | cons f fs ih =>
    unfold bwWriteFmt at h
    split at h
    · simp at h
    · rename_i o1 heq
      simpa using Kept.trans (bwWriteAll_ok heq) (ih h)

theorem bwWriteVectored_ok {fd : Fd} {o o' : Out} {bufs : List Bytes} {n : Nat}
    (h : bwWriteVectored fd o bufs = (.ok n, o')) : Kept o o' (bufs.flatten.take n) ∧ n ≤ bufs.flatten.length := by
  unfold bwWriteVectored at h
  have hk := makeRoom_kept fd o bufs.flatten.length
  simp only at h
  split at h
  · simp at h
  · rename_i o1 heq
    rw [heq] at hk
    have hok : (makeRoom fd o bufs.flatten.length).1 = .ok () := by rw [heq]
    split at h
    · rename_i hcap
      have hempty := makeRoom_ok_empty hok hcap
      rw [heq] at hempty
      cases hw : fdWrite fd o1.fd bufs.flatten with
      | mk r s =>
        rw [hw] at h
        simp at h; obtain ⟨rfl, rfl⟩ := h
        obtain ⟨h1, h2⟩ := fdWrite_ok hw
        refine ⟨?_, h2⟩
        have : Kept o1 { o1 with fd := s } (bufs.flatten.take n) := by
          simp only [Kept, Out.total] at *
          simp only [hempty] at *
          simp [h1]
        simpa using Kept.trans hk this
    · simp only [Prod.mk.injEq, Except.ok.injEq] at h
      obtain ⟨rfl, rfl⟩ := h
      refine ⟨?_, Nat.le_refl _⟩
      rw [List.take_of_length_le (Nat.le_refl _)]
      simpa using Kept.trans hk (append_kept o1 bufs.flatten)

theorem bwFlush_ok {fd : Fd} {o o' : Out} (h : bwFlush fd o = (.ok (), o')) : Kept o o' [] ∧ o'.buf = [] := by
  unfold bwFlush at h
  have hk := flushBuf_kept fd o
  split at h
  · simp at h
  · rename_i o1 heq
    rw [heq] at hk
    have hempty : o1.buf = [] := by
      have := flushBuf_ok_empty (fd := fd) (o := o) (by rw [heq])
      rw [heq] at this; exact this
    split at h
    rename_i r s hf
    simp at h; obtain ⟨rfl, rfl⟩ := h
    unfold fdFlush at hf
    split at hf <;> simp at hf
    all_goals (obtain ⟨_, rfl⟩ := hf; exact ⟨by simpa [Kept, Out.total] using hk, hempty⟩)

theorem check_ok_iff {α : Type} (r : IoR α) (v : α) :
    checkForBrokenPipe r = .returned (.ok v) ↔ r = .ok v := by
  cases r with
  | ok x => simp [checkForBrokenPipe]
  | error e => cases e <;> simp [checkForBrokenPipe]

theorem callerWriteLoop_ok (fd : Fd) (b : Bytes) (o : Out) :
    (callerWriteLoop fd b o).1 = .ok → Kept o (callerWriteLoop fd b o).2 b := by
  fun_induction callerWriteLoop fd b o with
  | case1 o => intro _; exact Kept.refl o
  | case2 b o hb o' hw => intro h; simp at h
  | case3 b o hb e o' hw => intro h; simp at h
  | case4 b o hb o' hw => intro h; simp at h
  | case5 b o hb n o' hw hn ih =>
    intro h
    unfold Writer.write at hw
    split at hw
    rename_i r o1 heq
    injection hw with h1 h2; subst h2
    have hr := (check_ok_iff r n).1 h1
    subst hr
    obtain ⟨k1, _⟩ := bwWrite_ok heq
    have := Kept.trans k1 (ih h)
    rwa [List.take_append_drop] at this

theorem callerVectoredLoop_ok (fd : Fd) (bufs : List Bytes) (o : Out) :
    (callerVectoredLoop fd bufs o).1 = .ok → Kept o (callerVectoredLoop fd bufs o).2 bufs.flatten := by
  unfold callerVectoredLoop Writer.writeVectored
  cases hw : bwWriteVectored fd o bufs with
  | mk r o1 =>
    simp only
    cases hc : checkForBrokenPipe r with
    | killedBySigpipe => intro h; simp at h
    | returned r' =>
      cases r' with
      | error e => intro h; simp at h
      | ok n =>
        have hr := (check_ok_iff r n).1 hc
        subst hr
        obtain ⟨k1, k2⟩ := bwWriteVectored_ok hw
        simp only
        split
        · rename_i hge
          intro _
          have : n = bufs.flatten.length := by omega
          subst this
          rwa [List.take_of_length_le (Nat.le_refl _)] at k1
        · split
          · intro h; simp at h
          · intro h
            have := Kept.trans k1 (callerWriteLoop_ok fd _ o1 h)
            rwa [List.take_append_drop] at this

theorem evOfUnit_ok_iff (r : IoR Unit) : evOfUnit (checkForBrokenPipe r) = .ok ↔ r = .ok () := by
  cases r with
  | ok v => simp [checkForBrokenPipe, evOfUnit]
  | error e => cases e <;> simp [checkForBrokenPipe, evOfUnit]

theorem execEvent_ok (fd : Fd) (o : Out) (ev : WEvent) :
    (execEvent fd o ev).1 = .ok → Kept o (execEvent fd o ev).2 ev.bytes := by
  cases ev with
  | write b => exact callerWriteLoop_ok fd b o
  | writeVectored bs => exact callerVectoredLoop_ok fd bs o
  | writeAll b =>
    simp only [execEvent, Writer.writeAll, WEvent.bytes]
    cases hw : bwWriteAll fd o b with
    | mk r o1 => intro h; have := (evOfUnit_ok_iff r).1 h; subst this; exact bwWriteAll_ok hw
  | writeFmt fs =>
    simp only [execEvent, Writer.writeFmt, WEvent.bytes]
    cases hw : bwWriteFmt fd o fs with
    | mk r o1 => intro h; have := (evOfUnit_ok_iff r).1 h; subst this; exact bwWriteFmt_ok fs hw
  | flush =>
    simp only [execEvent, Writer.flush, WEvent.bytes]
    cases hw : bwFlush fd o with
    | mk r o1 => intro h; have := (evOfUnit_ok_iff r).1 h; subst this; exact (bwFlush_ok hw).1

theorem execEvents_ok (fd : Fd) (evs : List WEvent) (i : Nat) (o : Out) :
    (execEvents fd evs i o).1 = .ok → Kept o (execEvents fd evs i o).2.2 (eventsBytes evs) := by
  induction evs generalizing i o with
  | nil => intro _; simpa [execEvents, eventsBytes] using Kept.refl o
  | cons ev rest ih =>
    unfold execEvents
    cases he : execEvent fd o ev with
    | mk r o1 =>
      cases r with
      | ok =>
        intro h
        have k1 := execEvent_ok fd o ev (by rw [he])
        rw [he] at k1
        simpa [eventsBytes] using Kept.trans k1 (ih (i + 1) o1 h)
      | err e => intro h; simp at h
      | killed => intro h; simp at h

theorem translateCall_ok {w : World} {earlier : List Call} {call : Call} {o o1 : Out}
    (h : translateCall w earlier call o = (.ok, o1)) :
    Kept o o1 (callBytes w earlier call) ∧ (w.lib.run earlier call).result = none := by
  unfold translateCall at h
  simp only at h
  cases he : execEvents w.fd (w.lib.run earlier call).events 0 o with
  | mk r rest =>
    cases rest with
    | mk i o' =>
      rw [he] at h
      cases r with
      | killed => simp at h
      | err e => simp at h
      | ok =>
        simp only at h
        have k := execEvents_ok w.fd (w.lib.run earlier call).events 0 o (by rw [he])
        rw [he] at k
        cases hr : (w.lib.run earlier call).result with
        | some m => rw [hr] at h; simp at h
        | none => rw [hr] at h; simp at h; subst h; exact ⟨k, rfl⟩

theorem writerFlush_ok {fd : Fd} {o o' : Out} (h : Writer.flush fd o = (.returned (.ok ()), o')) :
    o'.buf = [] ∧ o'.fd.accepted = o.total := by
  unfold Writer.flush at h
  split at h
  rename_i r o1 heq
  injection h with h1 h2; subst h2
  have := (check_ok_iff r ()).1 h1; subst this
  obtain ⟨k, hb⟩ := bwFlush_ok heq
  refine ⟨hb, ?_⟩
  simpa [Kept, Out.total, hb] using k

/-- **Every descriptor behaviour**: after each passed input (real `main`)
the buffer is empty and standard output holds exactly the library's output for
the calls made so far. -/
theorem step_next_any {w : World} (hf : w.perInputFlush = true) {cf : Option Fmt} {to : Fmt}
    {s s' : LoopSt} {path : InputPath} (hI : FlushedInv w s) (hs : step w cf to s path = .next s') :
    FlushedInv w s' := by
  rcases step_cases w cf to s path with ⟨msg, _, e⟩ | ⟨_, _, e⟩ | ⟨i, o1, _, e⟩ | ⟨i, o1, msg, _, e⟩ |
    ⟨i, o1, _, hnf, e⟩ | ⟨i, o1, o2, _, _, _, e⟩ | ⟨i, o1, o2, er, _, _, _, e⟩ | ⟨i, o1, o2, hT, _, hfl, e⟩
  all_goals rw [e] at hs
  all_goals try (simp at hs; done)
  · rw [hf] at hnf; simp at hnf
  · injection hs with hs; subst hs
    obtain ⟨k, _⟩ := translateCall_ok hT.2.2
    obtain ⟨f1, f2⟩ := writerFlush_ok hfl
    refine ⟨f1, ?_⟩
    show o2.fd.accepted = libOutput w (callsAfter w cf to s path i)
    rw [f2, k]
    simp only [callsAfter, libOutput_append, Out.total, hI.1, hI.2, List.append_nil]

/-- **Status 0 means everything was written — whatever the descriptor did**
(short writes, partial acceptance, …): one call per input, standard output is
exactly the concatenated library output, nothing is left in the buffer. -/
theorem mainLoop_exit0_any (w : World) (hf : w.perInputFlush = true) (cf : Option Fmt) (to : Fmt)
    (paths : List InputPath) (h0 : (mainLoop w cf to paths LoopSt.init).exit = .code 0) :
    (mainLoop w cf to paths LoopSt.init).stdout = libOutput w (mainLoop w cf to paths LoopSt.init).calls ∧
    (mainLoop w cf to paths LoopSt.init).out.buf = [] ∧
    (mainLoop w cf to paths LoopSt.init).calls.map (·.1) = paths := by
  rcases mainLoop_cases w cf to paths LoopSt.init with ⟨s', h1, h2⟩ | ⟨pre, p, post, s', r, h1, h2, h3, h4⟩
  · have hI : FlushedInv w s' :=
      foldSteps_invariant (FlushedInv w) (fun _ _ _ hI hs => step_next_any hf hI hs) (flushedInv_init w) h1
    have hc := foldSteps_calls h1
    rw [h2]
    have hk := flushBuf_kept w.fd s'.out
    have he : (flushBuf w.fd s'.out).2.buf = [] := by
      unfold flushBuf; rw [hI.1, writeLoop.eq_def]; simp
    refine ⟨?_, he, by simpa [finish, LoopSt.init] using hc⟩
    show (flushBuf w.fd s'.out).2.fd.accepted = libOutput w s'.calls
    have := hk
    simp only [Kept, Out.total, he, hI.1, List.append_nil] at this
    rw [this, hI.2]
  · rw [h4] at h0
    rcases step_stop_shape h3 with ⟨e1, _⟩ | ⟨e1, _⟩ <;> rw [e1] at h0 <;> simp at h0

end Xt.Cli
