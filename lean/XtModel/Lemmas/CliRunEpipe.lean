import XtModel.Lemmas.CliRun
import XtModel.Lemmas.CliEpipe

/-! The loop of `main` for every behaviour of file descriptor 1: which answers of the descriptor lead to which end. -/
namespace Xt.Cli

/-- No operation of the descriptor has been answered with an error so far. -/
def CleanFd (s : FdSt) : Prop := s.epipe = false ∧ s.oerr = false

theorem writerFlush_returned_ne_epipe {fd : Fd} {o o2 : Out} {e : IoErr}
    (h : Writer.flush fd o = (.returned (.error e), o2)) : e ≠ .brokenPipe := by
  unfold Writer.flush at h
  split at h
  rename_i r o1 heq
  injection h with h1 h2
  have := (check_returned r _ h1).2
  intro he; subst he; exact this rfl

theorem flushBuf_nil (fd : Fd) (o : Out) (h : o.buf = []) : (flushBuf fd o).2.fd = o.fd := by
  unfold flushBuf
  rw [h, writeLoop.eq_def]
  simp

/-- One iteration, started with a clean descriptor: if it passes, the
descriptor is still clean; if it ends the process, an `EPIPE` answer was met
exactly when the end is death by SIGPIPE, and another error answer only when
the end is status 1. -/
theorem step_flags {w : World} {cf : Option Fmt} {to : Fmt} {s : LoopSt} {path : InputPath}
    (h0 : CleanFd s.out.fd) :
    (∀ s', step w cf to s path = .next s' → CleanFd s'.out.fd) ∧
    (∀ r, step w cf to s path = .stop r →
      (r.out.fd.epipe = true ↔ r.exit = .sigpipe) ∧ (r.out.fd.oerr = true → r.exit = .code 1)) := by
  obtain ⟨he, ho⟩ := h0
  have tr : ∀ (input : Input) (t : TrR) (o1 : Out), Translated w cf to s path input t o1 →
      o1.fd.epipe = (t == .killed) ∧ (o1.fd.oerr = true → ∃ msg, t = .failed msg) := by
    intro input t o1 hT
    have := translateCall_tracks w (s.calls.map (·.2)) (callOf w cf to path input) s.out
    rw [hT.2.2] at this
    simp only [he, ho, Bool.false_or] at this
    exact ⟨this.1, fun h => by rcases this.2 h with h' | h' <;> simp_all⟩
  rcases step_cases w cf to s path with ⟨msg, _, e⟩ | ⟨_, _, e⟩ | ⟨i, o1, hT, e⟩ | ⟨i, o1, msg, hT, e⟩ |
    ⟨i, o1, hT, _, e⟩ | ⟨i, o1, o2, hT, _, hfl, e⟩ | ⟨i, o1, o2, er, hT, _, hfl, e⟩ | ⟨i, o1, o2, hT, _, hfl, e⟩
  all_goals rw [e]
  all_goals refine ⟨fun s' hs => ?_, fun r hr => ?_⟩
  all_goals try (simp at hs; done)
  all_goals try (simp at hr; done)
  · injection hr with hr; subst hr; simp [exitWith, he, ho]
  · injection hr with hr; subst hr; simp [exitWith, he, ho]
  · injection hr with hr; subst hr
    obtain ⟨t1, t2⟩ := tr i _ o1 hT
    refine ⟨by simp [t1], fun h => ?_⟩
    obtain ⟨_, h'⟩ := t2 h; simp at h'
  · injection hr with hr; subst hr
    obtain ⟨t1, _⟩ := tr i _ o1 hT
    simp [exitWith, t1]
  · injection hs with hs; subst hs
    obtain ⟨t1, t2⟩ := tr i _ o1 hT
    have t1' : o1.fd.epipe = false := by rw [t1]; rfl
    refine ⟨by simpa [stateAfter] using t1', ?_⟩
    cases ho1 : o1.fd.oerr with
    | false => simpa [stateAfter] using ho1
    | true => obtain ⟨_, h'⟩ := t2 ho1; simp at h'
  · injection hr with hr; subst hr
    obtain ⟨t1, t2⟩ := tr i _ o1 hT
    have hf := writerFlush_tracks w.fd o1
    rw [hfl] at hf
    simp only [pcErr] at hf
    refine ⟨by simp [hf.1], fun h => ?_⟩
    rcases hf.2 h with h' | ⟨_, h'⟩
    · obtain ⟨_, h''⟩ := t2 h'; simp at h''
    · simp at h'
  · injection hr with hr; subst hr
    obtain ⟨t1, _⟩ := tr i _ o1 hT
    have hf := writerFlush_tracks w.fd o1
    rw [hfl] at hf
    simp only [pcErr, errOf] at hf
    have hne := writerFlush_returned_ne_epipe hfl
    have : (some er == some IoErr.brokenPipe) = false := by
      cases er with
      | brokenPipe => exact absurd rfl hne
      | other m => simp
    simp [exitWith, hf.1, this, t1]
  · injection hs with hs; subst hs
    obtain ⟨t1, t2⟩ := tr i _ o1 hT
    have hf := writerFlush_tracks w.fd o1
    rw [hfl] at hf
    simp only [pcErr, errOf] at hf
    have t1' : o1.fd.epipe = false := by rw [t1]; rfl
    refine ⟨by simpa [stateAfter, t1'] using hf.1, ?_⟩
    cases ho2 : o2.fd.oerr with
    | false => simpa [stateAfter] using ho2
    | true =>
      rcases hf.2 ho2 with h' | ⟨_, h'⟩
      · obtain ⟨_, h''⟩ := t2 h'; simp at h''
      · simp at h'

/-- **The whole loop, for every descriptor behaviour** (the real `main`): an
`EPIPE` answer was met exactly when the run ends by SIGPIPE; another error
answer was met only if it ends with status 1. -/
theorem mainLoop_flags (w : World) (hflush : w.perInputFlush = true) (cf : Option Fmt) (to : Fmt)
    (paths : List InputPath) :
    ((mainLoop w cf to paths LoopSt.init).out.fd.epipe = true ↔
        (mainLoop w cf to paths LoopSt.init).exit = .sigpipe) ∧
    ((mainLoop w cf to paths LoopSt.init).out.fd.oerr = true →
        (mainLoop w cf to paths LoopSt.init).exit = .code 1) := by
  have hinv : ∀ (pre : List InputPath) (s' : LoopSt), foldSteps w cf to pre LoopSt.init = some s' →
      CleanFd s'.out.fd ∧ s'.out.buf = [] := by
    intro pre s' h
    refine foldSteps_invariant (fun s => CleanFd s.out.fd ∧ s.out.buf = []) ?_ ⟨⟨rfl, rfl⟩, rfl⟩ h
    intro s p s1 hI hs
    refine ⟨(step_flags hI.1).1 s1 hs, ?_⟩
    rcases step_cases w cf to s p with ⟨msg, _, e⟩ | ⟨_, _, e⟩ | ⟨i, o1, _, e⟩ | ⟨i, o1, msg, _, e⟩ |
      ⟨i, o1, _, hnf, e⟩ | ⟨i, o1, o2, _, _, _, e⟩ | ⟨i, o1, o2, er, _, _, _, e⟩ | ⟨i, o1, o2, _, _, hfl, e⟩
    all_goals rw [e] at hs
    all_goals try (simp at hs; done)
    · rw [hflush] at hnf; simp at hnf
    · injection hs with hs; subst hs; exact writerFlush_ok_buf hfl
  rcases mainLoop_cases w cf to paths LoopSt.init with ⟨s', h1, h2⟩ | ⟨pre, p, post, s', r, h1, h2, h3, h4⟩
  · obtain ⟨⟨c1, c2⟩, hb⟩ := hinv paths s' h1
    rw [h2]
    have : (finish w s').out.fd = s'.out.fd := flushBuf_nil w.fd s'.out hb
    rw [this, c1, c2]
    simp [finish]
  · obtain ⟨hc, _⟩ := hinv pre s' h2
    rw [h4]
    exact (step_flags hc).2 r h3

end Xt.Cli
