import XtModel.Model.Bridge
import XtModel.Lemmas.Json
import XtModel.Lemmas.Msgpack
import XtModel.Lemmas.Transcode

/-!
Lemmas about the composed JSON ↔ MessagePack model (`Model/Bridge.lean`).

1. The two serializer state machines (`mpStep`, `jsonStep`) run over `flatten d`
   compute the direct recursive writers `mpD` / `jsD` (`run_mp`, `run_js`).
2. Value level: `mpD ∘ jsonToDe = encode ∘ jToM`, `jsD ∘ mvalToDe = write ∘ mToJ`
   on the common data model, and what `jsD` refuses.
3. UTF-8: `strBytes` of scalar values is well-formed for the MessagePack
   decoder, and every string the decoder accepts is `strBytes` of scalars.
4. Denotations and the document-level composition.
-/
namespace Xt.Bridge
open Xt.Serde

/-! ## `runOps` -/

section
variable {σ : Type} (step : σ → Op → Except SErr σ)

theorem runOps_append (a b : List Op) (s : σ) :
    runOps step (a ++ b) s =
      match runOps step a s with
      | (s', none) => runOps step b s'
      | (s', some e) => (s', some e) := by
  induction a generalizing s with
  | nil => simp [runOps]
  | cons o a ih =>
    simp only [List.cons_append, runOps]
    cases step s o with
    | error e => rfl
    | ok s1 => exact ih s1

/-- `runOps` that ends without a refusal is `Transcode.accepts`. -/
theorem accepts_of_runOps (ops : List Op) (s s' : σ) (h : runOps step ops s = (s', none)) :
    Xt.Transcode.accepts step s ops = some s' := by
  induction ops generalizing s with
  | nil => simp [runOps] at h; simp [Xt.Transcode.accepts, h]
  | cons o ops ih =>
    simp only [runOps] at h
    simp only [Xt.Transcode.accepts]
    cases hs : step s o with
    | error e => rw [hs] at h; simp at h
    | ok s1 => rw [hs] at h; exact ih s1 h

end

/-! ## rmp_serde's serializer computes `mpD` -/

mutual
  /-- What rmp_serde's serializer writes for a tree, directly. -/
  def mpD : De → List Nat
    | .scalar s => mpScalar s
    | .fail _ => []
    | .afail _ => []
    | .seq elems _ => Msgpack.arrHdr elems.length ++ mpDList elems
    | .map entries _ => Msgpack.mapHdr (2 * entries.length / 2) ++ mpDEntries entries
  def mpDList : List De → List Nat
    | [] => []
    | e :: rest => mpD e ++ mpDList rest
  def mpDEntries : List (De × De) → List Nat
    | [] => []
    | (k, v) :: rest => mpD k ++ (mpD v ++ mpDEntries rest)
end

mutual
  theorem run_mp : ∀ (d : De) (tail : List Op) (c : Nat) (rev : List Nat) (rest : MSt),
      runOps mpStep (flatten d ++ tail) (⟨c, rev⟩ :: rest) =
        runOps mpStep tail (⟨c, (mpD d).reverse ++ rev⟩ :: rest)
    | .scalar s, tail, c, rev, rest => by
      simp [flatten, runOps, mpStep, mpPut, mpD]
    | .fail _, tail, c, rev, rest => by simp [flatten, mpD]
    | .afail _, tail, c, rev, rest => by simp [flatten, mpD]
    | .seq elems close, tail, c, rev, rest => by
      simp only [flatten, List.cons_append, List.append_assoc, List.nil_append, runOps, mpStep]
      rw [run_mpList elems (.seqEnd :: tail) 0 [] (⟨c, rev⟩ :: rest)]
      simp [runOps, mpStep, mpClose, mpD, List.reverse_append]
    | .map entries close, tail, c, rev, rest => by
      simp only [flatten, List.cons_append, List.append_assoc, List.nil_append, runOps, mpStep]
      rw [run_mpEntries entries (.mapEnd :: tail) 0 [] (⟨c, rev⟩ :: rest)]
      simp [runOps, mpStep, mpClose, mpD, List.reverse_append]
  theorem run_mpList : ∀ (ds : List De) (tail : List Op) (c : Nat) (rev : List Nat) (rest : MSt),
      runOps mpStep (flattenList ds ++ tail) (⟨c, rev⟩ :: rest) =
        runOps mpStep tail (⟨c + ds.length, (mpDList ds).reverse ++ rev⟩ :: rest)
    | [], tail, c, rev, rest => by simp [flattenList, mpDList]
    | e :: ds, tail, c, rev, rest => by
      simp only [flattenList, List.cons_append, List.append_assoc, runOps, mpStep]
      rw [run_mp e _ c rev rest]
      simp only [runOps, mpStep, mpBump]
      rw [run_mpList ds tail (c + 1) _ rest]
      have h : c + 1 + ds.length = c + (e :: ds).length := by simp only [List.length_cons]; omega
      rw [h]
      simp [mpDList, List.reverse_append]
  theorem run_mpEntries : ∀ (es : List (De × De)) (tail : List Op) (c : Nat) (rev : List Nat) (rest : MSt),
      runOps mpStep (flattenEntries es ++ tail) (⟨c, rev⟩ :: rest) =
        runOps mpStep tail (⟨c + 2 * es.length, (mpDEntries es).reverse ++ rev⟩ :: rest)
    | [], tail, c, rev, rest => by simp [flattenEntries, mpDEntries]
    | (k, v) :: es, tail, c, rev, rest => by
      simp only [flattenEntries, List.cons_append, List.append_assoc, runOps, mpStep]
      rw [run_mp k _ c rev rest]
      simp only [runOps, mpStep, mpBump]
      rw [run_mp v _ (c + 1) _ rest]
      simp only [runOps, mpStep, mpBump]
      rw [run_mpEntries es tail (c + 1 + 1) _ rest]
      have h : c + 1 + 1 + 2 * es.length = c + 2 * ((k, v) :: es).length := by
        simp only [List.length_cons]; omega
      rw [h]
      simp [mpDEntries, List.reverse_append]
end

/-- rmp_serde's serializer never refuses the ops of a tree, and writes `mpD`. -/
theorem opsToMsgpack_flatten (d : De) : opsToMsgpack (flatten d) = .ok (mpD d) := by
  have := run_mp d [] 0 [] []
  simp only [List.append_nil] at this
  simp [opsToMsgpack, MSt.init, this, runOps]

/-! ## serde_json's serializer computes `jsD` -/

/-- A map key through `MapKeySerializer`. -/
def jsKeyD (P : FloatIO) : De → Except SErr (List Nat)
  | .scalar s => jsonKey P s
  | .fail _ => .ok []
  | .afail _ => .ok []
  | .seq _ _ => .error keyMustBeString
  | .map _ _ => .error keyMustBeString

/-- `begin_array_value(first)` / `begin_object_key(first)`. -/
def sepBytes (first : Bool) : List Nat := if first then [] else [0x2C]

mutual
  /-- What serde_json's compact serializer writes for a tree, directly; or the
  first refusal in execution order. -/
  def jsD (P : FloatIO) : De → Except SErr (List Nat)
    | .scalar s => .ok (jsonScalar P s)
    | .fail _ => .ok []
    | .afail _ => .ok []
    | .seq elems _ =>
      match jsDList P true elems with
      | .ok b => .ok (0x5B :: b ++ [0x5D])
      | .error e => .error e
    | .map entries _ =>
      match jsDEntries P true entries with
      | .ok b => .ok (0x7B :: b ++ [0x7D])
      | .error e => .error e
  def jsDList (P : FloatIO) (first : Bool) : List De → Except SErr (List Nat)
    | [] => .ok []
    | e :: rest =>
      match jsD P e with
      | .error err => .error err
      | .ok a =>
        match jsDList P false rest with
        | .error err => .error err
        | .ok b => .ok (sepBytes first ++ a ++ b)
  def jsDEntries (P : FloatIO) (first : Bool) : List (De × De) → Except SErr (List Nat)
    | [] => .ok []
    | (k, v) :: rest =>
      match jsKeyD P k with
      | .error err => .error err
      | .ok kb =>
        match jsD P v with
        | .error err => .error err
        | .ok vb =>
          match jsDEntries P false rest with
          | .error err => .error err
          | .ok b => .ok (sepBytes first ++ kb ++ 0x3A :: vb ++ b)
end

/-- "Running `ops ++ tail` from `st` does what `r` says": on `ok bs` the bytes
are appended and the run continues with `tail` from `after`; on a refusal the
run ends with it. -/
def JRuns (P : FloatIO) (ops tail : List Op) (st : JSt) (r : Except SErr (List Nat))
    (after : List Nat → JSt) : Prop :=
  match r with
  | .ok bs => runOps (jsonStep P) (ops ++ tail) st = runOps (jsonStep P) tail (after bs)
  | .error e => (runOps (jsonStep P) (ops ++ tail) st).2 = some e

theorem run_jsKey (P : FloatIO) (k : De) (tail : List Op) (rev : List Nat) (fs : List Bool) :
    JRuns P (flatten k) tail ⟨rev, fs, true⟩ (jsKeyD P k) (fun bs => ⟨bs.reverse ++ rev, fs, true⟩) := by
  cases k with
  | scalar s =>
    simp only [JRuns, jsKeyD, flatten, List.cons_append, List.nil_append, runOps, jsonStep]
    cases h : jsonKey P s with
    | ok bs => simp [JSt.put]
    | error e => simp
  | fail t => simp [JRuns, jsKeyD, flatten]
  | afail t => simp [JRuns, jsKeyD, flatten]
  | seq elems close => simp [JRuns, jsKeyD, flatten, runOps, jsonStep]
  | map entries close => simp [JRuns, jsKeyD, flatten, runOps, jsonStep]

mutual
  theorem run_js (P : FloatIO) : ∀ (d : De) (tail : List Op) (rev : List Nat) (fs : List Bool),
      JRuns P (flatten d) tail ⟨rev, fs, false⟩ (jsD P d) (fun bs => ⟨bs.reverse ++ rev, fs, false⟩)
    | .scalar s, tail, rev, fs => by
      simp [JRuns, jsD, flatten, runOps, jsonStep, JSt.put]
    | .fail _, tail, rev, fs => by simp [JRuns, jsD, flatten]
    | .afail _, tail, rev, fs => by simp [JRuns, jsD, flatten]
    | .seq elems close, tail, rev, fs => by
      have ih := run_jsList P elems true (.seqEnd :: tail) (0x5B :: rev) fs
      simp only [jsD]
      cases h : jsDList P true elems with
      | error e =>
        rw [h] at ih
        simp only [JRuns] at ih ⊢
        simpa [flatten, runOps, jsonStep, JSt.put] using ih
      | ok b =>
        rw [h] at ih
        simp only [JRuns] at ih ⊢
        simp only [flatten, List.cons_append, List.append_assoc, List.nil_append, runOps, jsonStep,
          JSt.put, Bool.false_eq_true, if_false, List.reverse_cons, List.reverse_nil]
        rw [ih]
        simp [runOps, jsonStep, jsonClose, JSt.put, List.reverse_append]
    | .map entries close, tail, rev, fs => by
      have ih := run_jsEntries P entries true (.mapEnd :: tail) (0x7B :: rev) fs
      simp only [jsD]
      cases h : jsDEntries P true entries with
      | error e =>
        rw [h] at ih
        simp only [JRuns] at ih ⊢
        simpa [flatten, runOps, jsonStep, JSt.put] using ih
      | ok b =>
        rw [h] at ih
        simp only [JRuns] at ih ⊢
        simp only [flatten, List.cons_append, List.append_assoc, List.nil_append, runOps, jsonStep,
          JSt.put, Bool.false_eq_true, if_false, List.reverse_cons, List.reverse_nil]
        rw [ih]
        simp [runOps, jsonStep, jsonClose, JSt.put, List.reverse_append]
  theorem run_jsList (P : FloatIO) : ∀ (ds : List De) (first : Bool) (tail : List Op) (rev : List Nat)
      (fs : List Bool),
      JRuns P (flattenList ds) tail ⟨rev, first :: fs, false⟩ (jsDList P first ds)
        (fun bs => ⟨bs.reverse ++ rev, (first && ds.isEmpty) :: fs, false⟩)
    | [], first, tail, rev, fs => by simp [JRuns, jsDList, flattenList]
    | e :: ds, first, tail, rev, fs => by
      have ih1 := run_js P e (.elemPost :: (flattenList ds ++ tail)) ((sepBytes first).reverse ++ rev)
        (false :: fs)
      simp only [jsDList]
      cases h1 : jsD P e with
      | error err =>
        rw [h1] at ih1
        simp only [JRuns, sepBytes] at ih1 ⊢
        simp only [flattenList, List.cons_append, List.append_assoc, runOps, jsonStep, jsonSep, JSt.put]
        exact ih1
      | ok a =>
        rw [h1] at ih1
        have ih2 := run_jsList P ds false tail (a.reverse ++ ((sepBytes first).reverse ++ rev)) fs
        cases h2 : jsDList P false ds with
        | error err =>
          rw [h2] at ih2
          simp only [JRuns, sepBytes] at ih1 ih2 ⊢
          simp only [flattenList, List.cons_append, List.append_assoc, runOps, jsonStep, jsonSep, JSt.put]
          rw [ih1]
          simpa [runOps, jsonStep] using ih2
        | ok b =>
          rw [h2] at ih2
          simp only [JRuns, sepBytes] at ih1 ih2 ⊢
          simp only [flattenList, List.cons_append, List.append_assoc, runOps, jsonStep, jsonSep, JSt.put]
          rw [ih1]
          simp only [runOps, jsonStep]
          rw [ih2]
          simp [List.reverse_append]
  theorem run_jsEntries (P : FloatIO) : ∀ (es : List (De × De)) (first : Bool) (tail : List Op)
      (rev : List Nat) (fs : List Bool),
      JRuns P (flattenEntries es) tail ⟨rev, first :: fs, false⟩ (jsDEntries P first es)
        (fun bs => ⟨bs.reverse ++ rev, (first && es.isEmpty) :: fs, false⟩)
    | [], first, tail, rev, fs => by simp [JRuns, jsDEntries, flattenEntries]
    | (k, v) :: es, first, tail, rev, fs => by
      have ihk := run_jsKey P k (.keyPost :: .valPre :: (flatten v ++ .valPost :: (flattenEntries es ++ tail)))
        ((sepBytes first).reverse ++ rev) (false :: fs)
      simp only [jsDEntries]
      cases hk : jsKeyD P k with
      | error err =>
        rw [hk] at ihk
        simp only [JRuns, sepBytes] at ihk ⊢
        simp only [flattenEntries, List.cons_append, List.append_assoc, runOps, jsonStep, jsonSep, JSt.put]
        exact ihk
      | ok kb =>
        rw [hk] at ihk
        have ihv := run_js P v (.valPost :: (flattenEntries es ++ tail))
          (0x3A :: (kb.reverse ++ ((sepBytes first).reverse ++ rev))) (false :: fs)
        cases hv : jsD P v with
        | error err =>
          rw [hv] at ihv
          simp only [JRuns, sepBytes] at ihk ihv ⊢
          simp only [flattenEntries, List.cons_append, List.append_assoc, runOps, jsonStep, jsonSep, JSt.put]
          rw [ihk]
          simpa [runOps, jsonStep, JSt.put] using ihv
        | ok vb =>
          rw [hv] at ihv
          have ihr := run_jsEntries P es false tail
            (vb.reverse ++ (0x3A :: (kb.reverse ++ ((sepBytes first).reverse ++ rev)))) fs
          cases hr : jsDEntries P false es with
          | error err =>
            rw [hr] at ihr
            simp only [JRuns, sepBytes] at ihk ihv ihr ⊢
            simp only [flattenEntries, List.cons_append, List.append_assoc, runOps, jsonStep, jsonSep, JSt.put]
            rw [ihk]
            simp only [runOps, jsonStep, JSt.put, List.reverse_cons, List.reverse_nil, List.nil_append,
              List.singleton_append]
            rw [ihv]
            simpa [runOps, jsonStep] using ihr
          | ok b =>
            rw [hr] at ihr
            simp only [JRuns, sepBytes] at ihk ihv ihr ⊢
            simp only [flattenEntries, List.cons_append, List.append_assoc, runOps, jsonStep, jsonSep, JSt.put]
            rw [ihk]
            simp only [runOps, jsonStep, JSt.put, List.reverse_cons, List.reverse_nil, List.nil_append,
              List.singleton_append]
            rw [ihv]
            simp only [runOps, jsonStep]
            rw [ihr]
            simp [List.reverse_append]
end

/-! ## UTF-8: the MessagePack decoder's check and `strBytes` -/

section
open Xt.Json (utf8 isScalar allScalars)


theorem strBytes_cons (c : Nat) (cps : List Nat) : strBytes (c :: cps) = utf8 c ++ strBytes cps := by
  simp [strBytes]

theorem scalars_cons {c : Nat} {cps : List Nat} (hc : isScalar c = true) (h : allScalars cps = true) :
    allScalars (c :: cps) = true := by
  simp [allScalars] at h ⊢
  exact ⟨hc, h⟩

theorem validUtf8_spec : ∀ s, Msgpack.validUtf8 s = true →
    ∃ cps, allScalars cps = true ∧ s = strBytes cps := by
  intro s
  fun_induction Msgpack.validUtf8 s
  case case1 => intro _; exact ⟨[], rfl, rfl⟩
  case case2 b rest hb ih =>
    intro h
    obtain ⟨cps, h1, h2⟩ := ih h
    refine ⟨b :: cps, scalars_cons (by simp [isScalar]; omega) h1, ?_⟩
    rw [strBytes_cons, ← h2]
    simp [utf8, hb]
  case case3 b _ hb c r ih =>
    intro h
    simp only [Bool.and_eq_true, Msgpack.isCont, decide_eq_true_eq] at h
    obtain ⟨cps, h1, h2⟩ := ih h.2
    refine ⟨((b - 0xC0) * 64 + (c - 0x80)) :: cps, scalars_cons (by simp [isScalar]; omega) h1, ?_⟩
    rw [strBytes_cons, ← h2]
    unfold utf8
    rw [if_neg (by omega), if_pos (by omega)]
    simp only [List.cons_append, List.nil_append, List.cons.injEq, and_true]
    omega
  case case5 b _ _ hb c c2 r ih =>
    intro h
    simp only [Bool.and_eq_true, Msgpack.isCont, decide_eq_true_eq] at h
    obtain ⟨⟨hc, hc2⟩, hr⟩ := h
    obtain ⟨cps, h1, h2⟩ := ih hr
    have hcl : (b ≠ 0xE0 ∨ 0xA0 ≤ c) ∧ (b ≠ 0xED ∨ c ≤ 0x9F) ∧ 0x80 ≤ c ∧ c ≤ 0xBF := by
      split at hc
      · simp at hc; omega
      · split at hc
        · simp at hc; omega
        · simp at hc; omega
    refine ⟨(((b - 0xE0) * 64 + (c - 0x80)) * 64 + (c2 - 0x80)) :: cps, scalars_cons ?_ h1, ?_⟩
    · simp only [isScalar, Bool.or_eq_true, Bool.and_eq_true, decide_eq_true_eq]
      omega
    · rw [strBytes_cons, ← h2]
      unfold utf8
      rw [if_neg (by omega), if_neg (by omega), if_pos (by omega)]
      simp only [List.cons_append, List.nil_append, List.cons.injEq, and_true]
      omega
  case case7 b _ _ _ hb c c2 c3 r ih =>
    intro h
    simp only [Bool.and_eq_true, Msgpack.isCont, decide_eq_true_eq] at h
    obtain ⟨⟨⟨hc, hc2⟩, hc3⟩, hr⟩ := h
    obtain ⟨cps, h1, h2⟩ := ih hr
    have hcl : (b ≠ 0xF0 ∨ 0x90 ≤ c) ∧ (b ≠ 0xF4 ∨ c ≤ 0x8F) ∧ 0x80 ≤ c ∧ c ≤ 0xBF := by
      split at hc
      · simp at hc; omega
      · split at hc
        · simp at hc; omega
        · simp at hc; omega
    refine ⟨((((b - 0xF0) * 64 + (c - 0x80)) * 64 + (c2 - 0x80)) * 64 + (c3 - 0x80)) :: cps,
      scalars_cons ?_ h1, ?_⟩
    · simp only [isScalar, Bool.or_eq_true, Bool.and_eq_true, decide_eq_true_eq]
      omega
    · rw [strBytes_cons, ← h2]
      unfold utf8
      rw [if_neg (by omega), if_neg (by omega), if_neg (by omega)]
      simp only [List.cons_append, List.nil_append, List.cons.injEq, and_true]
      omega
  all_goals (intro h; simp at h)


theorem validUtf8_utf8 (c : Nat) (rest : List Nat) (h : isScalar c = true) :
    Msgpack.validUtf8 (utf8 c ++ rest) = Msgpack.validUtf8 rest := by
  simp only [isScalar, Bool.or_eq_true, Bool.and_eq_true, decide_eq_true_eq] at h
  unfold utf8
  split
  · rename_i h1
    simp only [List.cons_append, List.nil_append]
    rw [Msgpack.validUtf8.eq_def]; simp only [h1, ↓reduceIte]
  · split
    · rename_i h1 h2
      simp only [List.cons_append, List.nil_append]
      rw [Msgpack.validUtf8.eq_def]; simp only; rw [if_neg (by omega), if_pos (by omega)]
      simp [Msgpack.isCont]; omega
    · split
      · rename_i h1 h2 h3
        simp only [List.cons_append, List.nil_append]
        rw [Msgpack.validUtf8.eq_def]; simp only; rw [if_neg (by omega), if_neg (by omega), if_pos (by omega)]
        have e1 : 0x80 ≤ 0x80 + c / 64 % 64 ∧ 0x80 + c / 64 % 64 ≤ 0xBF := by omega
        have e2 : 0x80 ≤ 0x80 + c % 64 ∧ 0x80 + c % 64 ≤ 0xBF := by omega
        have k0 : (0xE0 + c / 4096 = 0xE0) = (c / 4096 = 0) := by simp
        have kd : (0xE0 + c / 4096 = 0xED) = (c / 4096 = 13) := by apply propext; omega
        simp only [k0, kd]
        by_cases h0 : c / 4096 = 0
        · have : 0xA0 ≤ 0x80 + c / 64 % 64 := by omega
          simp [h0, Msgpack.isCont]; omega
        · by_cases hd : c / 4096 = 13
          · have : 0x80 + c / 64 % 64 ≤ 0x9F := by omega
            simp [hd, Msgpack.isCont]; omega
          · simp [h0, hd, Msgpack.isCont]; omega
      · rename_i h1 h2 h3
        simp only [List.cons_append, List.nil_append]
        rw [Msgpack.validUtf8.eq_def]; simp only; rw [if_neg (by omega), if_neg (by omega), if_neg (by omega), if_pos (by omega)]
        have k0 : (0xF0 + c / 262144 = 0xF0) = (c / 262144 = 0) := by simp
        have kd : (0xF0 + c / 262144 = 0xF4) = (c / 262144 = 4) := by apply propext; omega
        simp only [k0, kd]
        by_cases h0 : c / 262144 = 0
        · have : 0x90 ≤ 0x80 + c / 4096 % 64 := by omega
          simp [h0, Msgpack.isCont]; omega
        · by_cases hd : c / 262144 = 4
          · have : 0x80 + c / 4096 % 64 ≤ 0x8F := by omega
            simp [hd, Msgpack.isCont]; omega
          · simp [h0, hd, Msgpack.isCont]; omega

theorem validUtf8_strBytes (cps : List Nat) (h : allScalars cps = true) :
    Msgpack.validUtf8 (strBytes cps) = true := by
  induction cps with
  | nil => rfl
  | cons c cps ih =>
    simp only [allScalars, List.all_cons, Bool.and_eq_true] at h
    rw [show strBytes (c :: cps) = utf8 c ++ strBytes cps by simp [strBytes], validUtf8_utf8 c _ h.1]
    exact ih (by simpa [allScalars] using h.2)

end

section
open Xt.Json (JVal)
open Xt.Msgpack (MVal)

/-! ## Serializer output for integers depends on the integer only -/

/-- The integer a `visit_u8 … visit_u64 / visit_i8 … visit_i64` carries. -/
def Scalar.asInt : Scalar → Option Int
  | .i8 v => some v | .i16 v => some v | .i32 v => some v | .i64 v => some v
  | .u8 v => some v | .u16 v => some v | .u32 v => some v | .u64 v => some v
  | _ => none

theorem natDec_eq_intDec (n : Nat) : Json.natDec n = Json.intDec (n : Int) := by
  simp [Json.intDec]

theorem encUint_eq_mpInt (n : Nat) : Msgpack.encUint n = mpInt (n : Int) := by
  unfold mpInt
  rw [if_neg (by omega)]
  simp

theorem int_scalar (P : FloatIO) (s : Scalar) (i : Int) (h : Scalar.asInt s = some i) :
    mpScalar s = mpInt i ∧ jsonScalar P s = Json.intDec i ∧ jsonKey P s = .ok (quoted (Json.intDec i)) := by
  cases s <;> simp only [Scalar.asInt, Option.some.injEq, reduceCtorEq] at h <;> subst h <;>
    simp [mpScalar, jsonScalar, jsonKey, natDec_eq_intDec, encUint_eq_mpInt]

/-! ## JSON → MessagePack at the value level -/

mutual
  /-- The MessagePack value a JSON value becomes. -/
  def jToM (P : FloatIO) : JVal → MVal
    | .null => .nil
    | .bool b => .bool b
    | .int i => if i < 0 then .nint i.natAbs else .uint i.toNat
    | .float src => .f64 (P.parse src)
    | .str cps => .str (strBytes cps)
    | .arr xs => .arr (jToMList P xs)
    | .obj es => .map (jToMEntries P es)
  def jToMList (P : FloatIO) : List JVal → List MVal
    | [] => []
    | x :: xs => jToM P x :: jToMList P xs
  def jToMEntries (P : FloatIO) : List (List Nat × JVal) → List (MVal × MVal)
    | [] => []
    | (k, v) :: es => (.str (strBytes k), jToM P v) :: jToMEntries P es
end

theorem jsonToDeList_length (P : FloatIO) : ∀ xs, (jsonToDeList P xs).length = xs.length
  | [] => rfl
  | _ :: xs => by simp [jsonToDeList, jsonToDeList_length P xs]
theorem jsonToDeEntries_length (P : FloatIO) : ∀ es, (jsonToDeEntries P es).length = es.length
  | [] => rfl
  | (_, _) :: es => by simp [jsonToDeEntries, jsonToDeEntries_length P es]
theorem jToMList_length (P : FloatIO) : ∀ xs, (jToMList P xs).length = xs.length
  | [] => rfl
  | _ :: xs => by simp [jToMList, jToMList_length P xs]
theorem jToMEntries_length (P : FloatIO) : ∀ es, (jToMEntries P es).length = es.length
  | [] => rfl
  | (_, _) :: es => by simp [jToMEntries, jToMEntries_length P es]

mutual
  theorem mpD_jsonToDe (P : FloatIO) : ∀ v : JVal, mpD (jsonToDe P v) = Msgpack.encode (jToM P v)
    | .null => rfl
    | .bool b => rfl
    | .int i => by
      simp only [jsonToDe, jToM]
      split
      · rename_i h; simp [mpD, mpScalar, mpInt, h, Msgpack.encode]
      · rename_i h; simp [mpD, mpScalar, Msgpack.encode]
    | .float src => rfl
    | .str cps => rfl
    | .arr xs => by
      simp only [jsonToDe, jToM, mpD, Msgpack.encode, jsonToDeList_length, jToMList_length,
        mpDList_jsonToDe P xs]
    | .obj es => by
      simp only [jsonToDe, jToM, mpD, Msgpack.encode, jsonToDeEntries_length, jToMEntries_length,
        mpDEntries_jsonToDe P es, Nat.mul_div_cancel_left _ (by decide : 0 < 2)]
  theorem mpDList_jsonToDe (P : FloatIO) : ∀ xs : List JVal,
      mpDList (jsonToDeList P xs) = Msgpack.encodeList (jToMList P xs)
    | [] => rfl
    | x :: xs => by
      simp only [jsonToDeList, jToMList, mpDList, Msgpack.encodeList, mpD_jsonToDe P x,
        mpDList_jsonToDe P xs]
  theorem mpDEntries_jsonToDe (P : FloatIO) : ∀ es : List (List Nat × JVal),
      mpDEntries (jsonToDeEntries P es) = Msgpack.encodePairs (jToMEntries P es)
    | [] => rfl
    | (k, v) :: es => by
      simp only [jsonToDeEntries, jToMEntries, mpDEntries, Msgpack.encodePairs, mpD_jsonToDe P v,
        mpDEntries_jsonToDe P es]
      rfl
end

/-- No JSON document makes serde_json call `visit_bytes`: the value path's one
visible difference (`expandBytes`) does not show, so the slice path hands the
serializer the same ops as the reader path. -/
theorem expandBytes_cons_ne (o : Op) (rest : List Op) (h : ∀ bs, o ≠ .scalar (.bytes bs)) :
    ValuePath.expandBytes (o :: rest) = o :: ValuePath.expandBytes rest := by
  cases o with
  | scalar sc => cases sc <;> simp_all [ValuePath.expandBytes]
  | _ => simp [ValuePath.expandBytes]

mutual
  theorem expandBytes_jsonToDe (P : FloatIO) : ∀ (v : JVal) (tail : List Op),
      ValuePath.expandBytes (flatten (jsonToDe P v) ++ tail) =
        flatten (jsonToDe P v) ++ ValuePath.expandBytes tail
    | .null, tail => by simp [jsonToDe, flatten, expandBytes_cons_ne]
    | .bool b, tail => by simp [jsonToDe, flatten, expandBytes_cons_ne]
    | .int i, tail => by
      simp only [jsonToDe]; split <;> simp [flatten, expandBytes_cons_ne]
    | .float src, tail => by simp [jsonToDe, flatten, expandBytes_cons_ne]
    | .str cps, tail => by simp [jsonToDe, flatten, expandBytes_cons_ne]
    | .arr xs, tail => by
      simp only [jsonToDe, flatten, List.cons_append, List.append_assoc]
      rw [expandBytes_cons_ne _ _ (by simp), expandBytes_jsonToDeList P xs]
      simp [expandBytes_cons_ne]
    | .obj es, tail => by
      simp only [jsonToDe, flatten, List.cons_append, List.append_assoc]
      rw [expandBytes_cons_ne _ _ (by simp), expandBytes_jsonToDeEntries P es]
      simp [expandBytes_cons_ne]
  theorem expandBytes_jsonToDeList (P : FloatIO) : ∀ (xs : List JVal) (tail : List Op),
      ValuePath.expandBytes (flattenList (jsonToDeList P xs) ++ tail) =
        flattenList (jsonToDeList P xs) ++ ValuePath.expandBytes tail
    | [], tail => by simp [jsonToDeList, flattenList]
    | x :: xs, tail => by
      simp only [jsonToDeList, flattenList, List.cons_append, List.append_assoc]
      rw [expandBytes_cons_ne _ _ (by simp), expandBytes_jsonToDe P x,
        expandBytes_cons_ne _ _ (by simp), expandBytes_jsonToDeList P xs]
  theorem expandBytes_jsonToDeEntries (P : FloatIO) : ∀ (es : List (List Nat × JVal)) (tail : List Op),
      ValuePath.expandBytes (flattenEntries (jsonToDeEntries P es) ++ tail) =
        flattenEntries (jsonToDeEntries P es) ++ ValuePath.expandBytes tail
    | [], tail => by simp [jsonToDeEntries, flattenEntries]
    | (k, v) :: es, tail => by
      simp only [jsonToDeEntries, flattenEntries, flatten, List.cons_append, List.append_assoc,
        List.nil_append]
      rw [expandBytes_cons_ne _ _ (by simp), expandBytes_cons_ne _ _ (by simp),
        expandBytes_cons_ne _ _ (by simp), expandBytes_cons_ne _ _ (by simp),
        expandBytes_jsonToDe P v, expandBytes_cons_ne _ _ (by simp), expandBytes_jsonToDeEntries P es]
end

theorem docOpsJ_eq (P : FloatIO) (mode : Mode) (v : JVal) : docOpsJ P mode v = flatten (jsonToDe P v) := by
  cases mode
  · have := expandBytes_jsonToDe P v []
    simpa [docOpsJ, ValuePath.expandBytes] using this
  · rfl

/-- One JSON document through rmp_serde's serializer, in both supply modes:
never refused, and the bytes are the reference encoder's on `jToM`. -/
theorem bodyJ2M_eq (P : FloatIO) (mode : Mode) (v : JVal) :
    bodyJ2M P mode v = (Msgpack.encode (jToM P v), none) := by
  simp [bodyJ2M, docOpsJ_eq, opsToMsgpack_flatten, mpD_jsonToDe]


end

section
open Xt.Json (JVal)
open Xt.Msgpack (MVal)

/-! ## What a JSON value must satisfy for MessagePack to hold it -/

mutual
  /-- Every length fits MessagePack's 32-bit headers: string byte lengths and
  element / entry counts below 2^32. -/
  def Sized : JVal → Prop
    | .str cps => (strBytes cps).length < 2 ^ 32
    | .arr xs => xs.length < 2 ^ 32 ∧ SizedList xs
    | .obj es => es.length < 2 ^ 32 ∧ SizedEntries es
    | _ => True
  def SizedList : List JVal → Prop
    | [] => True
    | x :: xs => Sized x ∧ SizedList xs
  def SizedEntries : List (List Nat × JVal) → Prop
    | [] => True
    | (k, v) :: es => ((strBytes k).length < 2 ^ 32 ∧ Sized v) ∧ SizedEntries es
end

mutual
  theorem jToM_wf (P : FloatIO) (Q : List Nat → Prop) (hQ : ∀ src, Q src → P.parse src < 2 ^ 64) :
      ∀ v : JVal, Json.WF Q v → Sized v → (jToM P v).WF false
    | .null, _, _ => by simp [jToM, MVal.WF]
    | .bool b, _, _ => by simp [jToM, MVal.WF]
    | .int i, h, _ => by
      simp only [Json.WF] at h
      simp only [jToM]
      split
      · simp only [MVal.WF]; omega
      · simp only [MVal.WF]; omega
    | .float src, h, _ => by
      simp only [Json.WF] at h
      simpa [jToM, MVal.WF] using hQ src h
    | .str cps, h, hs => by
      simp only [Json.WF] at h
      simp only [Sized] at hs
      exact ⟨hs, validUtf8_strBytes cps h⟩
    | .arr xs, h, hs => by
      simp only [Json.WF] at h
      simp only [Sized] at hs
      simp only [jToM, MVal.WF, jToMList_length]
      exact ⟨hs.1, jToMList_wf P Q hQ xs h hs.2⟩
    | .obj es, h, hs => by
      simp only [Json.WF] at h
      simp only [Sized] at hs
      simp only [jToM, MVal.WF, jToMEntries_length]
      exact ⟨hs.1, jToMEntries_wf P Q hQ es h hs.2⟩
  theorem jToMList_wf (P : FloatIO) (Q : List Nat → Prop) (hQ : ∀ src, Q src → P.parse src < 2 ^ 64) :
      ∀ xs : List JVal, Json.WFList Q xs → SizedList xs → Msgpack.WFList false (jToMList P xs)
    | [], _, _ => by simp [jToMList, Msgpack.WFList]
    | x :: xs, h, hs => by
      simp only [Json.WFList] at h
      simp only [SizedList] at hs
      exact ⟨jToM_wf P Q hQ x h.1 hs.1, jToMList_wf P Q hQ xs h.2 hs.2⟩
  theorem jToMEntries_wf (P : FloatIO) (Q : List Nat → Prop) (hQ : ∀ src, Q src → P.parse src < 2 ^ 64) :
      ∀ es : List (List Nat × JVal), Json.WFEntries Q es → SizedEntries es →
        Msgpack.WFPairs false (jToMEntries P es)
    | [], _, _ => by simp [jToMEntries, Msgpack.WFPairs]
    | (k, v) :: es, h, hs => by
      simp only [Json.WFEntries] at h
      simp only [SizedEntries] at hs
      exact ⟨⟨hs.1.1, validUtf8_strBytes k h.1.1⟩, jToM_wf P Q hQ v h.1.2 hs.1.2,
        jToMEntries_wf P Q hQ es h.2 hs.2⟩
end

mutual
  theorem nesting_jToM (P : FloatIO) : ∀ v : JVal, (jToM P v).nesting = Json.depthOf v
    | .null => rfl
    | .bool _ => rfl
    | .int i => by simp only [jToM]; split <;> rfl
    | .float _ => rfl
    | .str _ => rfl
    | .arr xs => by
      simp only [jToM, MVal.nesting, Json.depthOf, nestingList_jToM P xs]; omega
    | .obj es => by
      simp only [jToM, MVal.nesting, Json.depthOf, nestingPairs_jToM P es]; omega
  theorem nestingList_jToM (P : FloatIO) : ∀ xs : List JVal,
      Msgpack.nestingList (jToMList P xs) = Json.depthOfList xs
    | [] => rfl
    | x :: xs => by
      simp only [jToMList, Msgpack.nestingList, Json.depthOfList, nesting_jToM P x, nestingList_jToM P xs]
  theorem nestingPairs_jToM (P : FloatIO) : ∀ es : List (List Nat × JVal),
      Msgpack.nestingPairs (jToMEntries P es) = Json.depthOfEntries es
    | [] => rfl
    | (k, v) :: es => by
      simp only [jToMEntries, Msgpack.nestingPairs, Json.depthOfEntries, nesting_jToM P v,
        nestingPairs_jToM P es, MVal.nesting]
      omega
end

/-! ## The common denotation -/

/-- What a document denotes, in either format: integers are integers whatever
their width or sign class, floats are binary64 (or binary32) bit patterns,
strings are code point sequences, map entries are ordered. -/
inductive Den where
  | null
  | bool (b : Bool)
  | int (i : Int)
  | float (bits : Nat)
  | float32 (bits : Nat)
  | str (cps : List Nat)
  | bytes (bs : List Nat)
  | seq (xs : List Den)
  | map (es : List (Den × Den))
  | ext (ty : Nat) (bs : List Nat)
  deriving Repr

mutual
  /-- A JSON value's denotation: a float literal denotes the binary64 serde_json
  parses it to (`-0` is a float: the negative zero). -/
  def denJ (P : FloatIO) : JVal → Den
    | .null => .null
    | .bool b => .bool b
    | .int i => .int i
    | .float src => .float (P.parse src)
    | .str cps => .str cps
    | .arr xs => .seq (denJList P xs)
    | .obj es => .map (denJEntries P es)
  def denJList (P : FloatIO) : List JVal → List Den
    | [] => []
    | x :: xs => denJ P x :: denJList P xs
  def denJEntries (P : FloatIO) : List (List Nat × JVal) → List (Den × Den)
    | [] => []
    | (k, v) :: es => (.str k, denJ P v) :: denJEntries P es
end

/-- A MessagePack string's code points; a `str` the decoder produced is always
well-formed UTF-8 (`decoded_values_wellformed`), for any other the bytes are kept. -/
def denStr (s : List Nat) : Den :=
  match Json.utf8Decode s with
  | some cps => .str cps
  | none => .bytes s

mutual
  /-- A MessagePack value's denotation: the integer's width and sign class are
  forgotten (`MVal` has already forgotten the width), nothing else. -/
  def denM : MVal → Den
    | .nil => .null
    | .bool b => .bool b
    | .uint n => .int n
    | .nint n => .int (-(n : Int))
    | .f32 b => .float32 b
    | .f64 b => .float b
    | .str s => denStr s
    | .bin s => .bytes s
    | .arr xs => .seq (denMList xs)
    | .map kvs => .map (denMPairs kvs)
    | .ext ty s => .ext ty s
  def denMList : List MVal → List Den
    | [] => []
    | x :: xs => denM x :: denMList xs
  def denMPairs : List (MVal × MVal) → List (Den × Den)
    | [] => []
    | (k, v) :: kvs => (denM k, denM v) :: denMPairs kvs
end

theorem denStr_strBytes (cps : List Nat) (h : Json.allScalars cps = true) : denStr (strBytes cps) = .str cps := by
  simp [denStr, strBytes, Json.utf8Decode_flatMap cps h]

mutual
  theorem denM_jToM (P : FloatIO) (Q : List Nat → Prop) : ∀ v : JVal, Json.WF Q v →
      denM (jToM P v) = denJ P v
    | .null, _ => rfl
    | .bool _, _ => rfl
    | .int i, _ => by
      simp only [jToM]
      split
      · simp only [denM, denJ]; congr 1; omega
      · simp only [denM, denJ]; congr 1; omega
    | .float _, _ => rfl
    | .str cps, h => by
      simp only [Json.WF] at h
      simp [jToM, denM, denJ, denStr_strBytes cps h]
    | .arr xs, h => by
      simp only [Json.WF] at h
      simp only [jToM, denM, denJ, denMList_jToM P Q xs h]
    | .obj es, h => by
      simp only [Json.WF] at h
      simp only [jToM, denM, denJ, denMPairs_jToM P Q es h]
  theorem denMList_jToM (P : FloatIO) (Q : List Nat → Prop) : ∀ xs : List JVal, Json.WFList Q xs →
      denMList (jToMList P xs) = denJList P xs
    | [], _ => rfl
    | x :: xs, h => by
      simp only [Json.WFList] at h
      simp only [jToMList, denMList, denJList, denM_jToM P Q x h.1, denMList_jToM P Q xs h.2]
  theorem denMPairs_jToM (P : FloatIO) (Q : List Nat → Prop) : ∀ es : List (List Nat × JVal),
      Json.WFEntries Q es → denMPairs (jToMEntries P es) = denJEntries P es
    | [], _ => rfl
    | (k, v) :: es, h => by
      simp only [Json.WFEntries] at h
      simp only [jToMEntries, denMPairs, denJEntries, denM, denStr_strBytes k h.1.1,
        denM_jToM P Q v h.1.2, denMPairs_jToM P Q es h.2]
end


end

section
open Xt.Json (JVal)
open Xt.Msgpack (MVal)

/-! ## MessagePack → JSON at the value level -/

theorem escByte_utf8 (c : Nat) : (Json.utf8 c).flatMap escByte = Json.writeCp c := by
  by_cases h : c < 0x80
  · simp [Json.utf8, h, escByte]
  · have hge := Json.utf8_ge c (by omega)
    have h1 : (Json.utf8 c).flatMap escByte = Json.utf8 c := by
      have : ∀ l : List Nat, (∀ b ∈ l, 0x80 ≤ b) → l.flatMap escByte = l := by
        intro l hl
        induction l with
        | nil => rfl
        | cons b l ih =>
          have hb := hl b (by simp)
          simp only [List.flatMap_cons, escByte, if_neg (show ¬ b < 0x80 by omega)]
          rw [ih (fun x hx => hl x (by simp [hx]))]
          rfl
      exact this _ hge
    rw [h1]
    unfold Json.writeCp
    rw [if_neg (by omega), if_neg (by omega), if_neg (by omega), if_neg (by omega), if_neg (by omega),
      if_neg (by omega), if_neg (by omega), if_neg (by omega)]

theorem jsonStrBytes_strBytes (cps : List Nat) : jsonStrBytes (strBytes cps) = Json.writeStr cps := by
  have : (strBytes cps).flatMap escByte = cps.flatMap Json.writeCp := by
    induction cps with
    | nil => rfl
    | cons c cps ih =>
      simp only [strBytes, List.flatMap_cons, List.flatMap_append] at ih ⊢
      rw [escByte_utf8, ih]
  simp [jsonStrBytes, Json.writeStr, this]

/-- The code points of a MessagePack string (empty if it is not UTF-8, which
the decoder never hands out as `str`). -/
def strCps (s : List Nat) : List Nat := (Json.utf8Decode s).getD []

/-- The code points of a map key, for keys that are strings. -/
def keyCps : MVal → List Nat
  | .str s => strCps s
  | _ => []

mutual
  /-- The JSON value a MessagePack value of the common data model becomes.
  (Outside it: a `bin` becomes an ARRAY OF NUMBERS — serde_json's
  `serialize_bytes` —, a non-finite float `null`, an `f32` its shortest text.) -/
  def mToJ (P : FloatIO) : MVal → JVal
    | .nil => .null
    | .bool b => .bool b
    | .uint n => .int n
    | .nint n => .int (-(n : Int))
    | .f32 b => if finite32 b then .float (P.fmt32 b) else .null
    | .f64 b => if finite64 b then .float (P.fmt64 b) else .null
    | .str s => .str (strCps s)
    | .bin s => .arr (s.map fun (b : Nat) => JVal.int (b : Int))
    | .arr xs => .arr (mToJList P xs)
    | .map kvs => .obj (mToJPairs P kvs)
    | .ext _ _ => .null
  def mToJList (P : FloatIO) : List MVal → List JVal
    | [] => []
    | x :: xs => mToJ P x :: mToJList P xs
  def mToJPairs (P : FloatIO) : List (MVal × MVal) → List (List Nat × JVal)
    | [] => []
    | (k, v) :: kvs => (keyCps k, mToJ P v) :: mToJPairs P kvs
end

mutual
  /-- The common data model of the pair, on the MessagePack side: no `bin`, no
  `ext`, no 32-bit float, every float finite (and in `Q`), every map key a
  string.  (`MVal.WF` adds: numbers in wire range, `str` well-formed UTF-8.) -/
  def InCDM (Q : Nat → Prop) : MVal → Prop
    | .nil => True
    | .bool _ => True
    | .uint _ => True
    | .nint _ => True
    | .f32 _ => False
    | .f64 b => finite64 b = true ∧ Q b
    | .str _ => True
    | .bin _ => False
    | .arr xs => InCDMList Q xs
    | .map kvs => InCDMPairs Q kvs
    | .ext _ _ => False
  def InCDMList (Q : Nat → Prop) : List MVal → Prop
    | [] => True
    | x :: xs => InCDM Q x ∧ InCDMList Q xs
  def InCDMPairs (Q : Nat → Prop) : List (MVal × MVal) → Prop
    | [] => True
    | (k, v) :: kvs => ((∃ s, k = .str s) ∧ InCDM Q v) ∧ InCDMPairs Q kvs
end

theorem str_spec {s : List Nat} (h : Msgpack.validUtf8 s = true) :
    Json.allScalars (strCps s) = true ∧ s = strBytes (strCps s) := by
  obtain ⟨cps, h1, h2⟩ := validUtf8_spec s h
  have : strCps s = cps := by
    simp [strCps, h2, strBytes, Json.utf8Decode_flatMap cps h1]
  rw [this]
  exact ⟨h1, h2⟩

mutual
  theorem jsD_mvalToDe (P : FloatIO) (F : Json.ExtFloat) (Q : Nat → Prop)
      (hF : ∀ b, finite64 b = true → Q b → F.fmt (P.fmt64 b) = P.fmt64 b) :
      ∀ v : MVal, v.WF false → InCDM Q v → jsD P (mvalToDe v) = .ok (Json.write F (mToJ P v))
    | .nil, _, _ => rfl
    | .bool b, _, _ => by cases b <;> rfl
    | .uint n, _, _ => by
      simp [mvalToDe, jsD, jsonScalar, mToJ, Json.write, Json.intDec]
    | .nint n, h, _ => by
      simp only [MVal.WF] at h
      have : (-(n : Int)) < 0 := by omega
      simp [mvalToDe, jsD, jsonScalar, mToJ, Json.write]
    | .f32 b, _, hc => by simp [InCDM] at hc
    | .f64 b, _, hc => by
      simp only [InCDM] at hc
      simp [mvalToDe, jsD, jsonScalar, mToJ, Json.write, hc.1, hF b hc.1 hc.2]
    | .str s, h, _ => by
      simp only [MVal.WF] at h
      have hs := (str_spec h.2).2
      simp only [mvalToDe, jsD, jsonScalar, mToJ, Json.write]
      rw [← jsonStrBytes_strBytes, ← hs]
    | .bin s, _, hc => by simp [InCDM] at hc
    | .arr xs, h, hc => by
      simp only [MVal.WF] at h
      simp only [InCDM] at hc
      simp only [mvalToDe, jsD, mToJ, Json.write, jsDList_mvalToDe P F Q hF xs true h.2 hc]
    | .map kvs, h, hc => by
      simp only [MVal.WF] at h
      simp only [InCDM] at hc
      simp only [mvalToDe, jsD, mToJ, Json.write, jsDEntries_mvalToDe P F Q hF kvs true h.2 hc]
    | .ext _ _, _, hc => by simp [InCDM] at hc
  theorem jsDList_mvalToDe (P : FloatIO) (F : Json.ExtFloat) (Q : Nat → Prop)
      (hF : ∀ b, finite64 b = true → Q b → F.fmt (P.fmt64 b) = P.fmt64 b) :
      ∀ (xs : List MVal) (first : Bool), Msgpack.WFList false xs → InCDMList Q xs →
        jsDList P first (mvalToDeList xs) = .ok (Json.writeElems F first (mToJList P xs))
    | [], first, _, _ => rfl
    | x :: xs, first, h, hc => by
      simp only [Msgpack.WFList] at h
      simp only [InCDMList] at hc
      simp only [mvalToDeList, jsDList, mToJList, Json.writeElems, jsD_mvalToDe P F Q hF x h.1 hc.1,
        jsDList_mvalToDe P F Q hF xs false h.2 hc.2, sepBytes]
  theorem jsDEntries_mvalToDe (P : FloatIO) (F : Json.ExtFloat) (Q : Nat → Prop)
      (hF : ∀ b, finite64 b = true → Q b → F.fmt (P.fmt64 b) = P.fmt64 b) :
      ∀ (kvs : List (MVal × MVal)) (first : Bool), Msgpack.WFPairs false kvs → InCDMPairs Q kvs →
        jsDEntries P first (mvalToDePairs kvs) = .ok (Json.writeEntries F first (mToJPairs P kvs))
    | [], first, _, _ => rfl
    | (k, v) :: kvs, first, h, hc => by
      simp only [Msgpack.WFPairs] at h
      simp only [InCDMPairs] at hc
      obtain ⟨⟨⟨s, rfl⟩, hcv⟩, hcr⟩ := hc
      have hk := h.1
      simp only [MVal.WF] at hk
      have hs := (str_spec hk.2).2
      have hkey : jsKeyD P (mvalToDe (.str s)) = .ok (Json.writeStr (strCps s)) := by
        simp only [mvalToDe, jsKeyD, jsonKey]
        rw [← jsonStrBytes_strBytes, ← hs]
      simp only [mvalToDePairs, jsDEntries, mToJPairs, Json.writeEntries, hkey, keyCps,
        jsD_mvalToDe P F Q hF v h.2.1 hcv, jsDEntries_mvalToDe P F Q hF kvs false h.2.2 hcr, sepBytes]
end


end

section
open Xt.Json (JVal)
open Xt.Msgpack (MVal)

/-! ## Documents in order -/

theorem emitDocs_ok {α : Type} (body : α → List Nat × Option SErr) (frame : List Nat → List Nat)
    (f : α → List Nat) : ∀ docs : List α, (∀ d ∈ docs, body d = (f d, none)) →
      emitDocs body frame docs = (docs.flatMap (fun d => frame (f d)), none)
  | [], _ => rfl
  | d :: ds, h => by
    simp only [emitDocs, h d (by simp), emitDocs_ok body frame f ds (fun x hx => h x (by simp [hx])),
      List.flatMap_cons]

/-- The first refusal ends the translation: the documents before it are
complete, the refused one contributes its partial bytes unframed, nothing of
what follows is touched. -/
theorem emitDocs_refused {α : Type} (body : α → List Nat × Option SErr) (frame : List Nat → List Nat)
    (f : α → List Nat) (pre : List α) (d : α) (post : List α) (part : List Nat) (e : SErr)
    (hpre : ∀ x ∈ pre, body x = (f x, none)) (hd : body d = (part, some e)) :
    emitDocs body frame (pre ++ d :: post) = (pre.flatMap (fun x => frame (f x)) ++ part, some e) := by
  induction pre with
  | nil => simp [emitDocs, hd]
  | cons x xs ih =>
    simp only [List.cons_append, emitDocs, hpre x (by simp), ih (fun y hy => hpre y (by simp [hy])),
      List.flatMap_cons, List.append_assoc]

/-! ## JSON → MessagePack, whole translation -/

/-- The translation's output is the reference encoding of `jToM` of every
document the source loop produced, whatever the input; rmp_serde's serializer
refuses nothing; the verdict is the source loop's. -/
theorem json2msgpack_eq (P : FloatIO) (mode : Mode) (bs : List Nat) :
    (json2msgpack P mode bs).out = ((jsonSource mode bs).1.map (jToM P)).flatMap Msgpack.encode ∧
    (json2msgpack P mode bs).verdict =
      (match (jsonSource mode bs).2 with
       | .ok => Verdict.ok
       | .err e => Verdict.srcJson e) := by
  unfold json2msgpack
  rcases jsonSource mode bs with ⟨docs, v⟩
  have h := emitDocs_ok (bodyJ2M P mode) id (fun d => Msgpack.encode (jToM P d)) docs
    (fun d _ => bodyJ2M_eq P mode d)
  simp only [h]
  cases v <;> simp [List.flatMap_map]

/-! ## MessagePack → JSON, whole translation -/

mutual
  theorem errorFree_mvalToDe : ∀ v : MVal, v.WF false → (mvalToDe v).errorFree = true
    | .nil, _ => rfl
    | .bool _, _ => rfl
    | .uint _, _ => rfl
    | .nint _, _ => rfl
    | .f32 _, _ => rfl
    | .f64 _, _ => rfl
    | .str _, _ => rfl
    | .bin _, _ => rfl
    | .arr xs, h => by
      simp only [MVal.WF] at h
      simp [mvalToDe, De.errorFree, errorFree_mvalToDeList xs h.2]
    | .map kvs, h => by
      simp only [MVal.WF] at h
      simp [mvalToDe, De.errorFree, errorFree_mvalToDePairs kvs h.2]
    | .ext _ _, h => by simp [MVal.WF] at h
  theorem errorFree_mvalToDeList : ∀ xs : List MVal, Msgpack.WFList false xs →
      De.errorFreeList (mvalToDeList xs) = true
    | [], _ => rfl
    | x :: xs, h => by
      simp only [Msgpack.WFList] at h
      simp [mvalToDeList, De.errorFreeList, errorFree_mvalToDe x h.1, errorFree_mvalToDeList xs h.2]
  theorem errorFree_mvalToDePairs : ∀ kvs : List (MVal × MVal), Msgpack.WFPairs false kvs →
      De.errorFreeEntries (mvalToDePairs kvs) = true
    | [], _ => rfl
    | (k, v) :: kvs, h => by
      simp only [Msgpack.WFPairs] at h
      simp [mvalToDePairs, De.errorFreeEntries, errorFree_mvalToDe k h.1, errorFree_mvalToDe v h.2.1,
        errorFree_mvalToDePairs kvs h.2.2]
end

/-- serde_json's serializer over the ops of a tree: `jsD`, refusals included. -/
theorem opsToJsonPartial_flatten (P : FloatIO) (d : De) :
    (∀ bs, jsD P d = .ok bs → opsToJsonPartial P (flatten d) = (bs, none)) ∧
    (∀ e, jsD P d = .error e → (opsToJsonPartial P (flatten d)).2 = some e) := by
  have h := run_js P d [] [] []
  constructor
  · intro bs hb
    rw [hb] at h
    simp only [JRuns, List.append_nil] at h
    simp [opsToJsonPartial, JSt.init, h, runOps]
  · intro e he
    rw [he] at h
    simp only [JRuns, List.append_nil] at h
    simp only [opsToJsonPartial, JSt.init]
    rcases hr : runOps (jsonStep P) (flatten d) ⟨[], [], false⟩ with ⟨st, r⟩
    rw [hr] at h
    simpa using h

theorem opsToJson_flatten (P : FloatIO) (d : De) : opsToJson P (flatten d) = jsD P d := by
  obtain ⟨h1, h2⟩ := opsToJsonPartial_flatten P d
  unfold opsToJson
  cases h : jsD P d with
  | ok bs => rw [h1 bs h]
  | error e =>
    have := h2 e h
    rcases hp : opsToJsonPartial P (flatten d) with ⟨b, r⟩
    rw [hp] at this
    simp only at this
    subst this
    rfl

/-- One document of the common data model through serde_json's serializer. -/
theorem bodyM2J_cdm (P : FloatIO) (F : Json.ExtFloat) (Q : Nat → Prop)
    (hF : ∀ b, finite64 b = true → Q b → F.fmt (P.fmt64 b) = P.fmt64 b)
    (v : MVal) (hwf : v.WF false) (hc : InCDM Q v) :
    bodyM2J P v = (Json.write F (mToJ P v), none) := by
  simp only [bodyM2J, errorFree_mvalToDe v hwf, if_true]
  exact (opsToJsonPartial_flatten P _).1 _ (jsD_mvalToDe P F Q hF v hwf hc)

/-- A refused document: the refusal is `jsD`'s (the first in execution order). -/
theorem bodyM2J_refused (P : FloatIO) (v : MVal) (hwf : v.WF false) (e : SErr)
    (he : jsD P (mvalToDe v) = .error e) : (bodyM2J P v).2 = some e := by
  simp only [bodyM2J, errorFree_mvalToDe v hwf, if_true]
  exact (opsToJsonPartial_flatten P _).2 e he

theorem writeDocs_eq_flatMap (F : Json.ExtFloat) (docs : List JVal) :
    Json.writeDocs F docs = docs.flatMap (fun d => Json.write F d ++ [0x0A]) := by
  induction docs with
  | nil => rfl
  | cons d ds ih => simp [Json.writeDocs, ih]

/-- Both supply modes read the same documents and succeed on the same inputs. -/
theorem msgpackSource_modes (bs : List Nat) :
    (msgpackSource .slice bs).1 = (msgpackSource .reader bs).1 ∧
    ((msgpackSource .slice bs).2 = .ok ↔ (msgpackSource .reader bs).2 = .ok) := by
  have h := Msgpack.loops_agree false Msgpack.depthLimit Msgpack.depthLimit (Nat.le_refl _) (by decide) bs
  exact ⟨h.1, h.2.1⟩

theorem msgpackSource_wf (mode : Mode) (bs : List Nat) (hb : ∀ c ∈ bs, c < 256) :
    ∀ v ∈ (msgpackSource mode bs).1, v.WF false ∧ v.nesting < Msgpack.depthLimit := by
  have hr := Msgpack.readerLoop_docs_wf false Msgpack.depthLimit (by decide) bs hb
  cases mode
  · rw [(msgpackSource_modes bs).1]; exact hr
  · exact hr

/-- On documents of the common data model the translation writes exactly
`writeDocs` of `mToJ` of the documents the source loop produced. -/
theorem msgpack2json_cdm (P : FloatIO) (F : Json.ExtFloat) (Q : Nat → Prop)
    (hF : ∀ b, finite64 b = true → Q b → F.fmt (P.fmt64 b) = P.fmt64 b)
    (mode : Mode) (bs : List Nat) (hb : ∀ c ∈ bs, c < 256)
    (hc : ∀ v ∈ (msgpackSource mode bs).1, InCDM Q v) :
    (msgpack2json P mode bs).out = Json.writeDocs F ((msgpackSource mode bs).1.map (mToJ P)) ∧
    ((msgpack2json P mode bs).verdict = .ok ↔ (msgpackSource mode bs).2 = .ok) ∧
    (∀ e, (msgpack2json P mode bs).verdict ≠ .ser e) := by
  have hwf := msgpackSource_wf mode bs hb
  unfold msgpack2json
  rcases hs : msgpackSource mode bs with ⟨docs, v⟩
  rw [hs] at hwf hc
  have h := emitDocs_ok (bodyM2J P) (fun b => b ++ [0x0A]) (fun d => Json.write F (mToJ P d)) docs
    (fun d hd => bodyM2J_cdm P F Q hF d (hwf d hd).1 (hc d hd))
  simp only [h]
  refine ⟨?_, ?_, ?_⟩
  · cases v <;> simp [writeDocs_eq_flatMap, List.flatMap_map]
  · cases v <;> simp
  · intro e; cases v <;> simp


end

section
open Xt.Json (JVal)
open Xt.Msgpack (MVal)

/-! ## `mToJ` of the common data model is a well-formed JSON value denoting the same -/

/-- The float texts serde_json's serializer can produce for the floats in `Q`. -/
def FmtRange (P : FloatIO) (Q : Nat → Prop) (s : List Nat) : Prop :=
  ∃ b, finite64 b = true ∧ Q b ∧ s = P.fmt64 b

mutual
  theorem mToJ_wf (P : FloatIO) (Q : Nat → Prop) : ∀ v : MVal, v.WF false → InCDM Q v →
      Json.WF (FmtRange P Q) (mToJ P v)
    | .nil, _, _ => by simp [mToJ, Json.WF]
    | .bool _, _, _ => by simp [mToJ, Json.WF]
    | .uint n, h, _ => by
      simp only [MVal.WF] at h
      simp only [mToJ, Json.WF]; omega
    | .nint n, h, _ => by
      simp only [MVal.WF] at h
      simp only [mToJ, Json.WF]; omega
    | .f32 _, _, hc => by simp [InCDM] at hc
    | .f64 b, _, hc => by
      simp only [InCDM] at hc
      simp only [mToJ, hc.1, if_true, Json.WF]
      exact ⟨b, hc.1, hc.2, rfl⟩
    | .str s, h, _ => by
      simp only [MVal.WF] at h
      simpa [mToJ, Json.WF] using (str_spec h.2).1
    | .bin _, _, hc => by simp [InCDM] at hc
    | .arr xs, h, hc => by
      simp only [MVal.WF] at h
      simp only [InCDM] at hc
      simpa [mToJ, Json.WF] using mToJList_wf P Q xs h.2 hc
    | .map kvs, h, hc => by
      simp only [MVal.WF] at h
      simp only [InCDM] at hc
      simpa [mToJ, Json.WF] using mToJPairs_wf P Q kvs h.2 hc
    | .ext _ _, _, hc => by simp [InCDM] at hc
  theorem mToJList_wf (P : FloatIO) (Q : Nat → Prop) : ∀ xs : List MVal, Msgpack.WFList false xs →
      InCDMList Q xs → Json.WFList (FmtRange P Q) (mToJList P xs)
    | [], _, _ => by simp [mToJList, Json.WFList]
    | x :: xs, h, hc => by
      simp only [Msgpack.WFList] at h
      simp only [InCDMList] at hc
      exact ⟨mToJ_wf P Q x h.1 hc.1, mToJList_wf P Q xs h.2 hc.2⟩
  theorem mToJPairs_wf (P : FloatIO) (Q : Nat → Prop) : ∀ kvs : List (MVal × MVal),
      Msgpack.WFPairs false kvs → InCDMPairs Q kvs → Json.WFEntries (FmtRange P Q) (mToJPairs P kvs)
    | [], _, _ => by simp [mToJPairs, Json.WFEntries]
    | (k, v) :: kvs, h, hc => by
      simp only [Msgpack.WFPairs] at h
      simp only [InCDMPairs] at hc
      obtain ⟨⟨⟨s, rfl⟩, hcv⟩, hcr⟩ := hc
      have hk := h.1
      simp only [MVal.WF] at hk
      exact ⟨⟨(str_spec hk.2).1, mToJ_wf P Q v h.2.1 hcv⟩, mToJPairs_wf P Q kvs h.2.2 hcr⟩
end

mutual
  theorem depthOf_mToJ (P : FloatIO) (Q : Nat → Prop) : ∀ v : MVal, InCDM Q v →
      Json.depthOf (mToJ P v) = v.nesting
    | .nil, _ => rfl
    | .bool _, _ => rfl
    | .uint _, _ => rfl
    | .nint _, _ => rfl
    | .f32 _, hc => by simp [InCDM] at hc
    | .f64 b, hc => by
      simp only [InCDM] at hc
      simp [mToJ, hc.1, Json.depthOf, MVal.nesting]
    | .str _, _ => rfl
    | .bin _, hc => by simp [InCDM] at hc
    | .arr xs, hc => by
      simp only [InCDM] at hc
      simp only [mToJ, Json.depthOf, MVal.nesting, depthOfList_mToJ P Q xs hc]; omega
    | .map kvs, hc => by
      simp only [InCDM] at hc
      simp only [mToJ, Json.depthOf, MVal.nesting, depthOfEntries_mToJ P Q kvs hc]; omega
    | .ext _ _, hc => by simp [InCDM] at hc
  theorem depthOfList_mToJ (P : FloatIO) (Q : Nat → Prop) : ∀ xs : List MVal, InCDMList Q xs →
      Json.depthOfList (mToJList P xs) = Msgpack.nestingList xs
    | [], _ => rfl
    | x :: xs, hc => by
      simp only [InCDMList] at hc
      simp only [mToJList, Json.depthOfList, Msgpack.nestingList, depthOf_mToJ P Q x hc.1,
        depthOfList_mToJ P Q xs hc.2]
  theorem depthOfEntries_mToJ (P : FloatIO) (Q : Nat → Prop) : ∀ kvs : List (MVal × MVal),
      InCDMPairs Q kvs → Json.depthOfEntries (mToJPairs P kvs) = Msgpack.nestingPairs kvs
    | [], _ => rfl
    | (k, v) :: kvs, hc => by
      simp only [InCDMPairs] at hc
      obtain ⟨⟨⟨s, rfl⟩, hcv⟩, hcr⟩ := hc
      simp only [mToJPairs, Json.depthOfEntries, Msgpack.nestingPairs, depthOf_mToJ P Q v hcv,
        depthOfEntries_mToJ P Q kvs hcr, MVal.nesting]
      omega
end

theorem denStr_of_valid {s : List Nat} (h : Msgpack.validUtf8 s = true) : denStr s = .str (strCps s) := by
  obtain ⟨cps, h1, h2⟩ := validUtf8_spec s h
  simp [denStr, strCps, h2, strBytes, Json.utf8Decode_flatMap cps h1]

mutual
  theorem denJ_mToJ (P : FloatIO) (Q : Nat → Prop)
      (hR : ∀ b, finite64 b = true → Q b → P.parse (P.fmt64 b) = b) :
      ∀ v : MVal, v.WF false → InCDM Q v → denJ P (mToJ P v) = denM v
    | .nil, _, _ => rfl
    | .bool _, _, _ => rfl
    | .uint _, _, _ => rfl
    | .nint _, _, _ => rfl
    | .f32 _, _, hc => by simp [InCDM] at hc
    | .f64 b, _, hc => by
      simp only [InCDM] at hc
      simp [mToJ, hc.1, denJ, denM, hR b hc.1 hc.2]
    | .str s, h, _ => by
      simp only [MVal.WF] at h
      simp [mToJ, denJ, denM, denStr_of_valid h.2]
    | .bin _, _, hc => by simp [InCDM] at hc
    | .arr xs, h, hc => by
      simp only [MVal.WF] at h
      simp only [InCDM] at hc
      simp only [mToJ, denJ, denM, denJList_mToJ P Q hR xs h.2 hc]
    | .map kvs, h, hc => by
      simp only [MVal.WF] at h
      simp only [InCDM] at hc
      simp only [mToJ, denJ, denM, denJEntries_mToJ P Q hR kvs h.2 hc]
    | .ext _ _, _, hc => by simp [InCDM] at hc
  theorem denJList_mToJ (P : FloatIO) (Q : Nat → Prop)
      (hR : ∀ b, finite64 b = true → Q b → P.parse (P.fmt64 b) = b) :
      ∀ xs : List MVal, Msgpack.WFList false xs → InCDMList Q xs →
        denJList P (mToJList P xs) = denMList xs
    | [], _, _ => rfl
    | x :: xs, h, hc => by
      simp only [Msgpack.WFList] at h
      simp only [InCDMList] at hc
      simp only [mToJList, denJList, denMList, denJ_mToJ P Q hR x h.1 hc.1,
        denJList_mToJ P Q hR xs h.2 hc.2]
  theorem denJEntries_mToJ (P : FloatIO) (Q : Nat → Prop)
      (hR : ∀ b, finite64 b = true → Q b → P.parse (P.fmt64 b) = b) :
      ∀ kvs : List (MVal × MVal), Msgpack.WFPairs false kvs → InCDMPairs Q kvs →
        denJEntries P (mToJPairs P kvs) = denMPairs kvs
    | [], _, _ => rfl
    | (k, v) :: kvs, h, hc => by
      simp only [Msgpack.WFPairs] at h
      simp only [InCDMPairs] at hc
      obtain ⟨⟨⟨s, rfl⟩, hcv⟩, hcr⟩ := hc
      have hk := h.1
      simp only [MVal.WF] at hk
      simp only [mToJPairs, denJEntries, denMPairs, keyCps, denM, denStr_of_valid hk.2,
        denJ_mToJ P Q hR v h.2.1 hcv, denJEntries_mToJ P Q hR kvs h.2.2 hcr]
end

/-! ## There and back: `mToJ ∘ jToM` on float-free values -/

theorem strCps_strBytes (cps : List Nat) (h : Json.allScalars cps = true) : strCps (strBytes cps) = cps := by
  simp [strCps, strBytes, Json.utf8Decode_flatMap cps h]

mutual
  theorem mToJ_jToM (P : FloatIO) : ∀ v : JVal, Json.wellFormed v = true → mToJ P (jToM P v) = v
    | .null, _ => rfl
    | .bool _, _ => rfl
    | .int i, _ => by
      simp only [jToM]
      split
      · simp only [mToJ]; congr 1; omega
      · simp only [mToJ]; congr 1; omega
    | .float _, h => by simp [Json.wellFormed] at h
    | .str cps, h => by
      simp only [Json.wellFormed] at h
      simp [jToM, mToJ, strCps_strBytes cps h]
    | .arr xs, h => by
      simp only [Json.wellFormed] at h
      simp only [jToM, mToJ, mToJList_jToM P xs h]
    | .obj es, h => by
      simp only [Json.wellFormed] at h
      simp only [jToM, mToJ, mToJPairs_jToM P es h]
  theorem mToJList_jToM (P : FloatIO) : ∀ xs : List JVal, Json.wellFormedList xs = true →
      mToJList P (jToMList P xs) = xs
    | [], _ => rfl
    | x :: xs, h => by
      simp only [Json.wellFormedList, Bool.and_eq_true] at h
      simp only [jToMList, mToJList, mToJ_jToM P x h.1, mToJList_jToM P xs h.2]
  theorem mToJPairs_jToM (P : FloatIO) : ∀ es : List (List Nat × JVal), Json.wellFormedEntries es = true →
      mToJPairs P (jToMEntries P es) = es
    | [], _ => rfl
    | (k, v) :: es, h => by
      simp only [Json.wellFormedEntries, Bool.and_eq_true] at h
      simp only [jToMEntries, mToJPairs, keyCps, strCps_strBytes k h.1.1, mToJ_jToM P v h.1.2,
        mToJPairs_jToM P es h.2]
end

mutual
  theorem inCDM_jToM (P : FloatIO) (Q : Nat → Prop) : ∀ v : JVal, Json.wellFormed v = true →
      InCDM Q (jToM P v)
    | .null, _ => by simp [jToM, InCDM]
    | .bool _, _ => by simp [jToM, InCDM]
    | .int i, _ => by simp only [jToM]; split <;> simp [InCDM]
    | .float _, h => by simp [Json.wellFormed] at h
    | .str _, _ => by simp [jToM, InCDM]
    | .arr xs, h => by
      simp only [Json.wellFormed] at h
      simpa [jToM, InCDM] using inCDMList_jToM P Q xs h
    | .obj es, h => by
      simp only [Json.wellFormed] at h
      simpa [jToM, InCDM] using inCDMPairs_jToM P Q es h
  theorem inCDMList_jToM (P : FloatIO) (Q : Nat → Prop) : ∀ xs : List JVal,
      Json.wellFormedList xs = true → InCDMList Q (jToMList P xs)
    | [], _ => by simp [jToMList, InCDMList]
    | x :: xs, h => by
      simp only [Json.wellFormedList, Bool.and_eq_true] at h
      exact ⟨inCDM_jToM P Q x h.1, inCDMList_jToM P Q xs h.2⟩
  theorem inCDMPairs_jToM (P : FloatIO) (Q : Nat → Prop) : ∀ es : List (List Nat × JVal),
      Json.wellFormedEntries es = true → InCDMPairs Q (jToMEntries P es)
    | [], _ => by simp [jToMEntries, InCDMPairs]
    | (k, v) :: es, h => by
      simp only [Json.wellFormedEntries, Bool.and_eq_true] at h
      exact ⟨⟨⟨_, rfl⟩, inCDM_jToM P Q v h.1.2⟩, inCDMPairs_jToM P Q es h.2⟩
end


end

section
open Xt.Json (JVal)
open Xt.Msgpack (MVal)

/-! ## What serde_json's serializer has written never contains a line feed -/

/-- ryu's output is digits, `.`, `e`, `-`. -/
def FloatIO.NoNewline (P : FloatIO) : Prop := ∀ b, 0x0A ∉ P.fmt64 b ∧ 0x0A ∉ P.fmt32 b

theorem natDec_no_newline (n : Nat) : 0x0A ∉ Json.natDec n := by
  intro h
  have := Json.natDec_digits n _ h
  omega

theorem escByte_no_newline (b : Nat) : 0x0A ∉ escByte b := by
  unfold escByte
  split
  · exact Json.writeCp_no_newline b
  · simp; omega

theorem jsonStrBytes_no_newline (s : List Nat) : 0x0A ∉ jsonStrBytes s := by
  simp [jsonStrBytes, escByte_no_newline]

theorem jsonByteArray_no_newline : ∀ (first : Bool) (s : List Nat), 0x0A ∉ jsonByteArray first s
  | _, [] => by simp [jsonByteArray]
  | first, b :: bs => by
    simp only [jsonByteArray, List.mem_append, not_or]
    refine ⟨⟨by cases first <;> simp, natDec_no_newline b⟩, jsonByteArray_no_newline false bs⟩

theorem jsonScalar_no_newline (P : FloatIO) (hP : P.NoNewline) (s : Scalar) : 0x0A ∉ jsonScalar P s := by
  cases s <;> simp only [jsonScalar]
  case unit => decide
  case bool b => cases b <;> decide
  case f32 b => split; exact (hP b).2; decide
  case f64 b => split; exact (hP b).1; decide
  case char c => exact jsonStrBytes_no_newline _
  case str s => exact jsonStrBytes_no_newline _
  case bytes s =>
    simp [jsonByteArray_no_newline]
  all_goals first | exact Json.intDec_no_newline _ | exact natDec_no_newline _

theorem quoted_no_newline {bs : List Nat} (h : 0x0A ∉ bs) : 0x0A ∉ quoted bs := by
  simp [quoted, h]

theorem jsonKey_no_newline (P : FloatIO) (hP : P.NoNewline) (s : Scalar) (bs : List Nat)
    (h : jsonKey P s = .ok bs) : 0x0A ∉ bs := by
  cases s <;> simp only [jsonKey] at h
  case unit => cases h
  case bytes => cases h
  case bool b => injection h with h; subst h; exact quoted_no_newline (by cases b <;> decide)
  case f32 b =>
    split at h
    · injection h with h; subst h; exact quoted_no_newline (hP b).2
    · cases h
  case f64 b =>
    split at h
    · injection h with h; subst h; exact quoted_no_newline (hP b).1
    · cases h
  case char c => injection h with h; subst h; exact jsonStrBytes_no_newline _
  case str s => injection h with h; subst h; exact jsonStrBytes_no_newline _
  all_goals (injection h with h; subst h; apply quoted_no_newline;
             first | exact Json.intDec_no_newline _ | exact natDec_no_newline _)

theorem put_no_newline {st : JSt} {bs : List Nat} (h1 : 0x0A ∉ st.rev) (h2 : 0x0A ∉ bs) :
    0x0A ∉ (st.put bs).rev := by
  simp only [JSt.put, List.mem_append, List.mem_reverse, not_or]
  exact ⟨h2, h1⟩

theorem jsonStep_no_newline (P : FloatIO) (hP : P.NoNewline) (st st' : JSt) (o : Op)
    (h : jsonStep P st o = .ok st') (hn : 0x0A ∉ st.rev) : 0x0A ∉ st'.rev := by
  cases o <;> simp only [jsonStep] at h
  case scalar s =>
    split at h
    · split at h
      · rename_i bs hk
        injection h with h; subst h
        exact put_no_newline hn (jsonKey_no_newline P hP s bs hk)
      · cases h
    · injection h with h; subst h
      exact put_no_newline hn (jsonScalar_no_newline P hP s)
  case seqBegin =>
    split at h
    · cases h
    · injection h with h; subst h; exact put_no_newline hn (by decide)
  case mapBegin =>
    split at h
    · cases h
    · injection h with h; subst h; exact put_no_newline hn (by decide)
  case elemPre =>
    unfold jsonSep at h
    split at h
    · rename_i f fs _
      injection h with h; subst h
      exact put_no_newline hn (by cases f <;> simp)
    · cases h
  case keyPre =>
    cases hsep : jsonSep st with
    | error e => rw [hsep] at h; cases h
    | ok st1 =>
      rw [hsep] at h
      injection h with h; subst h
      unfold jsonSep at hsep
      split at hsep
      · rename_i f fs _
        injection hsep with hsep; subst hsep
        exact put_no_newline hn (by cases f <;> simp)
      · cases hsep
  case seqEnd =>
    unfold jsonClose at h
    split at h
    · injection h with h; subst h; exact put_no_newline hn (by decide)
    · cases h
  case mapEnd =>
    unfold jsonClose at h
    split at h
    · injection h with h; subst h; exact put_no_newline hn (by decide)
    · cases h
  case valPre => injection h with h; subst h; exact put_no_newline hn (by decide)
  all_goals (injection h with h; subst h; exact hn)

theorem runOps_no_newline (P : FloatIO) (hP : P.NoNewline) : ∀ (ops : List Op) (st : JSt),
    0x0A ∉ st.rev → 0x0A ∉ (runOps (jsonStep P) ops st).1.rev
  | [], st, h => by simpa [runOps] using h
  | o :: ops, st, h => by
    simp only [runOps]
    cases hs : jsonStep P st o with
    | error e => simpa using h
    | ok st' => exact runOps_no_newline P hP ops st' (jsonStep_no_newline P hP st st' o hs h)

/-- Whatever a document had written when it was refused (or when it was
complete) holds no line feed. -/
theorem bodyM2J_no_newline (P : FloatIO) (hP : P.NoNewline) (v : MVal) : 0x0A ∉ (bodyM2J P v).1 := by
  unfold bodyM2J
  split
  · simp only [opsToJsonPartial, List.mem_reverse]
    exact runOps_no_newline P hP _ JSt.init (by simp [JSt.init])
  · simp

/-! ## The translation as a function of what the source loop produced -/

theorem msgpack2json_src (P : FloatIO) (F : Json.ExtFloat) (Q : Nat → Prop)
    (hF : ∀ b, finite64 b = true → Q b → F.fmt (P.fmt64 b) = P.fmt64 b)
    (mode : Mode) (bs : List Nat) (docs : List MVal) (v : Msgpack.Verdict)
    (hs : msgpackSource mode bs = (docs, v))
    (hwf : ∀ d ∈ docs, d.WF false) (hc : ∀ d ∈ docs, InCDM Q d) :
    (msgpack2json P mode bs).out = Json.writeDocs F (docs.map (mToJ P)) ∧
    ((msgpack2json P mode bs).verdict = .ok ↔ v = .ok) := by
  unfold msgpack2json
  rw [hs]
  have h := emitDocs_ok (bodyM2J P) (fun b => b ++ [0x0A]) (fun d => Json.write F (mToJ P d)) docs
    (fun d hd => bodyM2J_cdm P F Q hF d (hwf d hd) (hc d hd))
  simp only [h]
  refine ⟨?_, ?_⟩
  · cases v <;> simp [writeDocs_eq_flatMap, List.flatMap_map]
  · cases v <;> simp

/-- A refusal in document `d`, after the documents `pre` of the common data
model: the translation fails with that refusal, having written `pre` completely
and then `part` — no line feed, so no further document line. -/
theorem msgpack2json_refused (P : FloatIO) (hP : P.NoNewline) (F : Json.ExtFloat) (Q : Nat → Prop)
    (hF : ∀ b, finite64 b = true → Q b → F.fmt (P.fmt64 b) = P.fmt64 b)
    (mode : Mode) (bs : List Nat) (pre : List MVal) (d : MVal) (post : List MVal) (v : Msgpack.Verdict)
    (hs : msgpackSource mode bs = (pre ++ d :: post, v))
    (hwf : ∀ x ∈ pre, x.WF false) (hc : ∀ x ∈ pre, InCDM Q x) (hd : d.WF false) (e : SErr)
    (he : jsD P (mvalToDe d) = .error e) :
    (∃ part, (msgpack2json P mode bs).out = Json.writeDocs F (pre.map (mToJ P)) ++ part ∧ 0x0A ∉ part) ∧
    (∃ e', (msgpack2json P mode bs).verdict = .ser e' ∧ e' = e) := by
  unfold msgpack2json
  rw [hs]
  have hb : bodyM2J P d = ((bodyM2J P d).1, some e) := by
    have := bodyM2J_refused P d hd e he
    rcases hh : bodyM2J P d with ⟨p, r⟩
    rw [hh] at this
    simp only at this
    rw [this]
  have h := emitDocs_refused (bodyM2J P) (fun b => b ++ [0x0A]) (fun x => Json.write F (mToJ P x))
    pre d post (bodyM2J P d).1 e (fun x hx => bodyM2J_cdm P F Q hF x (hwf x hx) (hc x hx)) hb
  simp only [h]
  refine ⟨⟨(bodyM2J P d).1, ?_, bodyM2J_no_newline P hP d⟩, ⟨e, rfl, rfl⟩⟩
  simp [writeDocs_eq_flatMap, List.flatMap_map]

/-! ## Which keys serde_json refuses -/

/-- What `MapKeySerializer` does with a MessagePack value in key position:
`none` = written (a string as it is; an integer, a bool, a finite float as a
quoted string), `some e` = refused. -/
def keyRefusal : MVal → Option SErr
  | .nil => some keyMustBeString
  | .bin _ => some keyMustBeString
  | .arr _ => some keyMustBeString
  | .map _ => some keyMustBeString
  | .f32 b => if finite32 b then none else some floatKeyMustBeFinite
  | .f64 b => if finite64 b then none else some floatKeyMustBeFinite
  | _ => none

theorem jsKeyD_refusal (P : FloatIO) (k : MVal) (hk : k.WF false) :
    (∀ e, keyRefusal k = some e → jsKeyD P (mvalToDe k) = .error e) ∧
    (keyRefusal k = none → ∃ bs, jsKeyD P (mvalToDe k) = .ok bs) := by
  cases k <;> simp only [keyRefusal, mvalToDe, jsKeyD, jsonKey]
  case ext ty s => simp [MVal.WF] at hk
  case f32 b => by_cases h : finite32 b = true <;> simp [h]
  case f64 b => by_cases h : finite64 b = true <;> simp [h]
  all_goals simp

/-- A map whose entries before index `pre.length` are fine and whose next key
is refused: the whole value is refused with that key's refusal. -/
theorem jsD_map_refused (P : FloatIO) (F : Json.ExtFloat) (Q : Nat → Prop)
    (hF : ∀ b, finite64 b = true → Q b → F.fmt (P.fmt64 b) = P.fmt64 b)
    (pre : List (MVal × MVal)) (k v : MVal) (post : List (MVal × MVal)) (e : SErr)
    (hpre : Msgpack.WFPairs false pre) (hcpre : InCDMPairs Q pre) (hk : k.WF false)
    (he : keyRefusal k = some e) :
    jsD P (mvalToDe (.map (pre ++ (k, v) :: post))) = .error e := by
  have key := (jsKeyD_refusal P k hk).1 e he
  have : ∀ (first : Bool), jsDEntries P first (mvalToDePairs (pre ++ (k, v) :: post)) = .error e := by
    induction pre with
    | nil => intro first; simp [mvalToDePairs, jsDEntries, key]
    | cons p pre ih =>
      intro first
      obtain ⟨k0, v0⟩ := p
      simp only [Msgpack.WFPairs] at hpre
      simp only [InCDMPairs] at hcpre
      obtain ⟨⟨⟨s, rfl⟩, hcv⟩, hcr⟩ := hcpre
      have h1 := jsDEntries_mvalToDe P F Q hF [(.str s, v0)] first
        (by simp [Msgpack.WFPairs, hpre.1, hpre.2.1]) (by simp [InCDMPairs, hcv])
      simp only [mvalToDePairs, jsDEntries] at h1
      simp only [List.cons_append, mvalToDePairs, jsDEntries, ih hpre.2.2 hcr false]
      cases hkk : jsKeyD P (mvalToDe (.str s)) with
      | error err => rw [hkk] at h1; simp at h1
      | ok kb =>
        cases hvv : jsD P (mvalToDe v0) with
        | error err => rw [hkk, hvv] at h1; simp at h1
        | ok vb => rfl
  simp [mvalToDe, jsD, this true]


end

end Xt.Bridge

/-! ## What the JSON parser hands out is well-formed (every input) -/

namespace Xt.Json

theorem map_cons_some {o : Option (List Nat)} {c : Nat} {y : List Nat} (h : o.map (c :: ·) = some y) :
    ∃ x, o = some x ∧ y = c :: x := by
  cases o with
  | none => simp at h
  | some x => simp at h; exact ⟨x, rfl, h.symm⟩

theorem allScalars_cons {c : Nat} {cps : List Nat} (hc : isScalar c = true) (h : allScalars cps = true) :
    allScalars (c :: cps) = true := by
  simp [allScalars] at h ⊢
  exact ⟨hc, h⟩

/-- What `str::from_utf8` accepts decodes to Unicode scalar values only. -/
theorem utf8Decode_scalars : ∀ (l cps : List Nat), utf8Decode l = some cps → allScalars cps = true := by
  intro l
  fun_induction utf8Decode l <;> intro cps h
  case case1 => simp at h; subst h; rfl
  case case2 b0 rest h1 ih =>
    obtain ⟨x, hx, rfl⟩ := map_cons_some h
    exact allScalars_cons (by simp [isScalar]; omega) (ih x hx)
  case case3 b0 h1 h2 b1 rest h3 ih =>
    obtain ⟨x, hx, rfl⟩ := map_cons_some h
    simp only [isCont, Bool.and_eq_true, decide_eq_true_eq] at h3
    exact allScalars_cons (by simp [isScalar]; omega) (ih x hx)
  case case6 b0 h1 h2 h3 b1 b2 rest h4 ih =>
    obtain ⟨x, hx, rfl⟩ := map_cons_some h
    obtain ⟨h4a, h4b, h4c⟩ := h4
    simp only [isCont, Bool.and_eq_true, decide_eq_true_eq] at h4c
    refine allScalars_cons ?_ (ih x hx)
    simp only [isScalar, Bool.or_eq_true, Bool.and_eq_true, decide_eq_true_eq]
    by_cases ha : b0 = 0xE0
    · simp [ha] at h4a h4b; omega
    · by_cases hb : b0 = 0xED
      · simp [hb] at h4a h4b; omega
      · simp [ha, hb] at h4a h4b; omega
  case case9 b0 h1 h2 h3 h4 b1 b2 b3 rest h5 ih =>
    obtain ⟨x, hx, rfl⟩ := map_cons_some h
    obtain ⟨h5a, h5b, h5c, h5d⟩ := h5
    simp only [isCont, Bool.and_eq_true, decide_eq_true_eq] at h5c h5d
    refine allScalars_cons ?_ (ih x hx)
    simp only [isScalar, Bool.or_eq_true, Bool.and_eq_true, decide_eq_true_eq]
    by_cases ha : b0 = 0xF0
    · simp [ha] at h5a h5b; omega
    · by_cases hb : b0 = 0xF4
      · simp [hb] at h5a h5b; omega
      · simp [ha, hb] at h5a h5b; omega
  all_goals simp at h

theorem parseStr_scalars {bs cps rest : List Nat} (h : parseStr bs = .ok (cps, rest)) :
    allScalars cps = true := by
  unfold parseStr at h
  split at h
  · simp at h
  · split at h
    · simp at h
    · rename_i c hd
      simp at h
      obtain ⟨rfl, _⟩ := h
      exact utf8Decode_scalars _ _ hd

/-- An integer the number lexer hands out is in serde_json's `u64` / `i64` class. -/
theorem numVal_wf {p : Bool} {bs : List Nat} {n : Num} {src rest : List Nat}
    (h : lexNumber p bs = .ok (n, src, rest)) : WF (fun _ => True) (numVal p n src) := by
  unfold lexNumber at h
  split at h
  · simp at h
  · split at h
    · simp at h
    · split at h
      · simp at h
      · split at h
        · simp at h
        · rename_i nn hc
          simp at h
          obtain ⟨rfl, _, _⟩ := h
          cases nn with
          | float => simp [numVal, WF]
          | int i =>
            simp only [numVal, WF]
            unfold classifyNum at hc
            split at hc
            · simp only at hc
              split at hc
              · rename_i hle
                unfold u64Max at hle
                split at hc
                · simp at hc; omega
                · split at hc
                  · simp at hc
                  · split at hc
                    · simp at hc; omega
                    · simp at hc
              · split at hc <;> simp at hc
            · simp only at hc
              repeat' split at hc
              all_goals simp at hc

theorem depthOf_numVal (p : Bool) (n : Num) (src : List Nat) : depthOf (numVal p n src) = 0 := by
  cases n <;> rfl

/-- Everything the parser hands out is well-formed (integers in serde_json's
`u64` / `i64` classes, strings and keys Unicode scalar values) and nests within
the depth budget it was given. -/
theorem parse_wf : ∀ (n : Nat) (bs : List Nat), bs.length ≤ n →
    (∀ d v rest, parseValue d bs = .ok (v, rest) →
      WF (fun _ => True) v ∧ (depthOf v < d ∨ depthOf v = 0)) ∧
    (∀ d first xs rest, parseElems d first bs = .ok (xs, rest) →
      WFList (fun _ => True) xs ∧ (depthOfList xs < d ∨ depthOfList xs = 0)) ∧
    (∀ d first es rest, parseEntries d first bs = .ok (es, rest) →
      WFEntries (fun _ => True) es ∧ (depthOfEntries es < d ∨ depthOfEntries es = 0)) := by
  intro n
  induction n with
  | zero =>
    intro bs hlen
    have : bs = [] := by cases bs <;> simp_all
    subst this
    refine ⟨?_, ?_, ?_⟩
    · intro d v rest h; rw [parseValue_eq] at h; simp [skipWs] at h
    · intro d first xs rest h; rw [parseElems_eq] at h; simp [skipWs] at h
    · intro d first es rest h; rw [parseEntries_eq] at h; simp [skipWs] at h
  | succ n ih =>
    have hval : ∀ (bs : List Nat), bs.length ≤ n + 1 →
        ∀ d v rest, parseValue d bs = .ok (v, rest) →
          WF (fun _ => True) v ∧ (depthOf v < d ∨ depthOf v = 0) := by
      intro bs hlen
      have hskl := skipWs_length_le bs
      intro d v rest h
      rw [parseValue_eq] at h
      split at h
      · simp at h
      · rename_i b r hs
        rw [hs] at hskl
        have hrl : r.length ≤ n := by simp at hskl; omega
        split at h
        · split at h
          · simp at h
          · simp at h; obtain ⟨rfl, _⟩ := h
            exact ⟨by simp [WF], Or.inr rfl⟩
        · split at h
          · simp at h
          · simp at h; obtain ⟨rfl, _⟩ := h
            exact ⟨by simp [WF], Or.inr rfl⟩
        · split at h
          · simp at h
          · simp at h; obtain ⟨rfl, _⟩ := h
            exact ⟨by simp [WF], Or.inr rfl⟩
        · split at h
          · simp at h
          · rename_i nn src r' hn
            simp at h; obtain ⟨rfl, _⟩ := h
            exact ⟨numVal_wf hn, Or.inr (depthOf_numVal _ _ _)⟩
        · split at h
          · simp at h
          · rename_i nn src r' hn
            simp at h; obtain ⟨rfl, _⟩ := h
            exact ⟨numVal_wf hn, Or.inr (depthOf_numVal _ _ _)⟩
        · split at h
          · simp at h
          · rename_i cps r' hp
            simp at h; obtain ⟨rfl, _⟩ := h
            exact ⟨by simpa [WF] using parseStr_scalars hp, Or.inr rfl⟩
        · split at h
          · simp at h
          · rename_i hd
            split at h
            · simp at h
            · rename_i xs r' hp
              simp at h; obtain ⟨rfl, _⟩ := h
              obtain ⟨h1, h2⟩ := (ih r hrl).2.1 _ _ _ _ hp
              refine ⟨by simpa [WF] using h1, Or.inl ?_⟩
              simp only [depthOf]; omega
        · split at h
          · simp at h
          · rename_i hd
            split at h
            · simp at h
            · rename_i es r' hp
              simp at h; obtain ⟨rfl, _⟩ := h
              obtain ⟨h1, h2⟩ := (ih r hrl).2.2 _ _ _ _ hp
              refine ⟨by simpa [WF] using h1, Or.inl ?_⟩
              simp only [depthOf]; omega
        · simp at h
    intro bs hlen
    have hskl := skipWs_length_le bs
    refine ⟨hval bs hlen, ?_, ?_⟩
    · -- elements
      intro d first xs rest h
      rw [parseElems_eq] at h
      split at h
      · simp at h
      · rename_i c r hs
        rw [hs] at hskl
        have hrl : r.length ≤ n := by simp at hskl; omega
        split at h
        · simp at h; obtain ⟨rfl, _⟩ := h
          exact ⟨by simp [WFList], Or.inr rfl⟩
        · split at h
          · split at h
            · simp at h
            · rename_i v r1 hv
              split at h
              · simp at h
              · rename_i vs r2 hvs
                simp at h; obtain ⟨rfl, _⟩ := h
                have hcr : (c :: r).length ≤ n + 1 := by omega
                obtain ⟨a1, a2⟩ := hval _ hcr _ _ _ hv
                have hl1 := parseValue_length hv
                obtain ⟨b1, b2⟩ := (ih r1 (by omega)).2.1 _ _ _ _ hvs
                refine ⟨⟨a1, b1⟩, ?_⟩
                simp only [depthOfList]; omega
          · split at h
            · have hskl2 := skipWs_length_le r
              split at h
              · simp at h
              · rename_i c2 r2 hs2
                rw [hs2] at hskl2
                split at h
                · simp at h
                · split at h
                  · simp at h
                  · rename_i v r3 hv
                    split at h
                    · simp at h
                    · rename_i vs r4 hvs
                      simp at h; obtain ⟨rfl, _⟩ := h
                      obtain ⟨a1, a2⟩ := hval (c2 :: r2) (by simp at hskl2 ⊢; omega) _ _ _ hv
                      have hl1 := parseValue_length hv
                      obtain ⟨b1, b2⟩ := (ih r3 (by simp at hskl2 hl1; omega)).2.1 _ _ _ _ hvs
                      refine ⟨⟨a1, b1⟩, ?_⟩
                      simp only [depthOfList]; omega
            · simp at h
    · -- entries
      intro d first es rest h
      rw [parseEntries_eq] at h
      split at h
      · simp at h
      · rename_i c r hs
        rw [hs] at hskl
        have hrl : r.length ≤ n := by simp at hskl; omega
        split at h
        · simp at h; obtain ⟨rfl, _⟩ := h
          exact ⟨by simp [WFEntries], Or.inr rfl⟩
        · split at h
          · simp at h
          · rename_i kbs hk
            have hkc := keyStart_consumes hk
            split at h
            · simp at h
            · rename_i k r3 hps
              have hsl := parseStr_length hps
              have hskl4 := skipWs_length_le r3
              split at h
              · simp at h
              · rename_i c4 r4 hs4
                rw [hs4] at hskl4
                split at h
                · simp at h
                · split at h
                  · simp at h
                  · rename_i v r5 hv
                    split at h
                    · simp at h
                    · rename_i es' r6 hes
                      simp at h; obtain ⟨rfl, _⟩ := h
                      have hkl : kbs.length ≤ (c :: r).length := by
                        obtain ⟨pk, hpk, _⟩ := hkc; rw [hpk]; simp
                      have hr4 : r4.length ≤ n := by simp at hskl4 hkl hskl; omega
                      obtain ⟨a1, a2⟩ := (ih r4 hr4).1 _ _ _ hv
                      have hl1 := parseValue_length hv
                      obtain ⟨b1, b2⟩ := (ih r5 (by omega)).2.2 _ _ _ _ hes
                      refine ⟨⟨⟨parseStr_scalars hps, a1⟩, b1⟩, ?_⟩
                      simp only [depthOfEntries]; omega

/-- Every document either JSON source loop hands out is well-formed and nests
less than 128 deep — whatever the input bytes. -/
theorem readerLoop_docs_wf : ∀ (n : Nat) (bs : List Nat), bs.length ≤ n →
    ∀ d ∈ (readerLoop bs).1, WF (fun _ => True) d ∧ depthOf d < depthLimit := by
  intro n
  induction n with
  | zero =>
    intro bs hlen
    have : bs = [] := by cases bs <;> simp_all
    subst this
    rw [readerLoop_eq]; simp [skipWs]
  | succ n ih =>
    intro bs hlen
    rw [readerLoop_eq]
    have hskl := skipWs_length_le bs
    split
    · simp
    · rename_i b r hs
      rw [hs] at hskl
      split
      · simp
      · rename_i v rest hp
        have hl := parseValue_length hp
        obtain ⟨h1, h2⟩ := (parse_wf _ _ (Nat.le_refl _)).1 _ _ _ hp
        intro d hd
        simp only [List.mem_cons] at hd
        rcases hd with rfl | hd
        · exact ⟨h1, by unfold depthLimit at h2 ⊢; omega⟩
        · exact ih rest (by simp at hl hskl; omega) d hd

theorem sliceDocs_docs_wf : ∀ (n : Nat) (bs : List Nat), bs.length ≤ n →
    ∀ d ∈ (sliceDocs bs).1, WF (fun _ => True) d ∧ depthOf d < depthLimit := by
  intro n
  induction n with
  | zero =>
    intro bs hlen
    have : bs = [] := by cases bs <;> simp_all
    subst this
    rw [sliceDocs_eq]; simp [skipWs]
  | succ n ih =>
    intro bs hlen
    rw [sliceDocs_eq]
    have hskl := skipWs_length_le bs
    split
    · simp
    · rename_i b r hs
      rw [hs] at hskl
      split
      · simp
      · rename_i v rest hp
        have hl := parseValue_length hp
        obtain ⟨h1, h2⟩ := (parse_wf _ _ (Nat.le_refl _)).1 _ _ _ hp
        split
        · intro d hd
          simp only [List.mem_cons] at hd
          rcases hd with rfl | hd
          · exact ⟨h1, by unfold depthLimit at h2 ⊢; omega⟩
          · exact ih rest (by simp at hl hskl; omega) d hd
        · simp

theorem sliceLoop_docs_wf (bs : List Nat) :
    ∀ d ∈ (sliceLoop bs).1, WF (fun _ => True) d ∧ depthOf d < depthLimit := by
  unfold sliceLoop
  split
  · exact sliceDocs_docs_wf _ bs (Nat.le_refl _)
  · simp

end Xt.Json

namespace Xt.Bridge
open Xt.Serde
open Xt.Msgpack (MVal)

/-! ## `decodeOps` is `decodeG` with the ops kept -/

/-- `g` (ops + rest / failure) agrees with `f` (value + rest / failure). -/
def OpsSpec (r : Except Msgpack.DErr (MVal × List Nat)) (o : List Op × Except Msgpack.DErr (List Nat)) : Prop :=
  match r with
  | .ok (v, rest) => o = (flatten (mvalToDe v), .ok rest)
  | .error e => o.2 = .error e

theorem seqOps_spec (f : List Nat → Except Msgpack.DErr (MVal × List Nat))
    (g : List Nat → List Op × Except Msgpack.DErr (List Nat)) (hfg : ∀ bs, OpsSpec (f bs) (g bs)) :
    ∀ (n : Nat) (bs : List Nat),
      match Msgpack.seqWith f n bs with
      | .ok (vs, rest) => seqOps g n bs = (flattenList (mvalToDeList vs), .ok rest)
      | .error e => (seqOps g n bs).2 = .error e
  | 0, bs => by simp [Msgpack.seqWith, seqOps, mvalToDeList, flattenList]
  | n + 1, bs => by
    have h1 := hfg bs
    simp only [Msgpack.seqWith, seqOps]
    cases hf : f bs with
    | error e =>
      rw [hf] at h1
      simp only [OpsSpec] at h1
      rcases hg : g bs with ⟨ops, res⟩
      rw [hg] at h1
      simp only at h1
      subst h1
      simp
    | ok p =>
      obtain ⟨v, r⟩ := p
      rw [hf] at h1
      simp only [OpsSpec] at h1
      rw [h1]
      have h2 := seqOps_spec f g hfg n r
      cases hs : Msgpack.seqWith f n r with
      | error e =>
        rw [hs] at h2
        simp only [hs] at h2 ⊢
        rcases hg : seqOps g n r with ⟨ops, res⟩
        rw [hg] at h2
        simp only at h2
        subst h2
        simp
      | ok q =>
        obtain ⟨vs, r'⟩ := q
        rw [hs] at h2
        simp only [hs] at h2 ⊢
        rw [h2]
        simp [mvalToDeList, flattenList]

theorem pairsOps_spec (f : List Nat → Except Msgpack.DErr (MVal × List Nat))
    (g : List Nat → List Op × Except Msgpack.DErr (List Nat)) (hfg : ∀ bs, OpsSpec (f bs) (g bs)) :
    ∀ (n : Nat) (bs : List Nat),
      match Msgpack.pairsWith f n bs with
      | .ok (kvs, rest) => pairsOps g n bs = (flattenEntries (mvalToDePairs kvs), .ok rest)
      | .error e => (pairsOps g n bs).2 = .error e
  | 0, bs => by simp [Msgpack.pairsWith, pairsOps, mvalToDePairs, flattenEntries]
  | n + 1, bs => by
    have h1 := hfg bs
    simp only [Msgpack.pairsWith, pairsOps]
    cases hf : f bs with
    | error e =>
      rw [hf] at h1
      simp only [OpsSpec] at h1
      rcases hg : g bs with ⟨ops, res⟩
      rw [hg] at h1
      simp only at h1
      subst h1
      simp
    | ok p =>
      obtain ⟨k, r⟩ := p
      rw [hf] at h1
      simp only [OpsSpec] at h1
      simp only [h1]
      have h1v := hfg r
      cases hfv : f r with
      | error e =>
        rw [hfv] at h1v
        simp only [OpsSpec] at h1v
        rcases hg : g r with ⟨ops, res⟩
        rw [hg] at h1v
        simp only at h1v
        subst h1v
        simp
      | ok pv =>
        obtain ⟨v, r1⟩ := pv
        rw [hfv] at h1v
        simp only [OpsSpec] at h1v
        simp only [h1v]
        have h2 := pairsOps_spec f g hfg n r1
        cases hs : Msgpack.pairsWith f n r1 with
        | error e =>
          rw [hs] at h2
          simp only at h2 ⊢
          rcases hg : pairsOps g n r1 with ⟨ops, res⟩
          rw [hg] at h2
          simp only at h2
          subst h2
          simp
        | ok q =>
          obtain ⟨kvs, r'⟩ := q
          rw [hs] at h2
          simp only at h2 ⊢
          rw [h2]
          simp [mvalToDePairs, flattenEntries]

/-- On success `decodeOps` issues exactly `flatten (mvalToDe v)` for the value
`decodeG` returns, with the same rest; it fails exactly when `decodeG` fails,
with the same error. -/
theorem decodeOps_spec : ∀ (d : Nat) (bs : List Nat),
    OpsSpec (Msgpack.decodeG false d bs) (decodeOps d bs) := by
  intro d
  induction d with
  | zero =>
    intro bs
    unfold Msgpack.decodeG decodeOps
    cases bs with
    | nil => simp [OpsSpec]
    | cons b t =>
      simp only
      cases hh : Msgpack.header (Msgpack.Marker.ofByte b) t with
      | error e => simp [OpsSpec]
      | ok p =>
        obtain ⟨hd, r⟩ := p
        cases hd with
        | scalar v => simp [OpsSpec, scalarOp]
        | str len =>
          simp only
          cases Msgpack.readN len r with
          | error e => simp [OpsSpec]
          | ok q => obtain ⟨s, r'⟩ := q; simp [OpsSpec, scalarOp]
        | bin len =>
          simp only
          cases Msgpack.readN len r with
          | error e => simp [OpsSpec]
          | ok q => obtain ⟨s, r'⟩ := q; simp [OpsSpec, scalarOp]
        | ext len => simp [OpsSpec]
        | arr count => simp [OpsSpec]
        | map pairs => simp [OpsSpec]
  | succ d ih =>
    intro bs
    unfold Msgpack.decodeG decodeOps
    cases bs with
    | nil => simp [OpsSpec]
    | cons b t =>
      simp only
      cases hh : Msgpack.header (Msgpack.Marker.ofByte b) t with
      | error e => simp [OpsSpec]
      | ok p =>
        obtain ⟨hd, r⟩ := p
        cases hd with
        | scalar v => simp [OpsSpec, scalarOp]
        | str len =>
          simp only
          cases Msgpack.readN len r with
          | error e => simp [OpsSpec]
          | ok q => obtain ⟨s, r'⟩ := q; simp [OpsSpec, scalarOp]
        | bin len =>
          simp only
          cases Msgpack.readN len r with
          | error e => simp [OpsSpec]
          | ok q => obtain ⟨s, r'⟩ := q; simp [OpsSpec, scalarOp]
        | ext len =>
          simp only
          by_cases h0 : d = 0 <;> simp [OpsSpec, h0]
        | arr count =>
          simp only
          by_cases h0 : d = 0
          · simp [OpsSpec, h0]
          · simp only [h0, if_false]
            have hs := seqOps_spec (Msgpack.decodeG false d) (decodeOps d) ih count r
            cases hsw : Msgpack.seqWith (Msgpack.decodeG false d) count r with
            | error e =>
              rw [hsw] at hs
              simp only at hs
              rcases hg : seqOps (decodeOps d) count r with ⟨ops, res⟩
              rw [hg] at hs
              simp only at hs
              subst hs
              simp [OpsSpec]
            | ok q =>
              obtain ⟨vs, r'⟩ := q
              rw [hsw] at hs
              simp only at hs
              rw [hs]
              simp [OpsSpec, mvalToDe, flatten]
        | map pairs =>
          simp only
          by_cases h0 : d = 0
          · simp [OpsSpec, h0]
          · simp only [h0, if_false]
            have hs := pairsOps_spec (Msgpack.decodeG false d) (decodeOps d) ih pairs r
            cases hsw : Msgpack.pairsWith (Msgpack.decodeG false d) pairs r with
            | error e =>
              rw [hsw] at hs
              simp only at hs
              rcases hg : pairsOps (decodeOps d) pairs r with ⟨ops, res⟩
              rw [hg] at hs
              simp only at hs
              subst hs
              simp [OpsSpec]
            | ok q =>
              obtain ⟨kvs, r'⟩ := q
              rw [hsw] at hs
              simp only at hs
              rw [hs]
              simp [OpsSpec, mvalToDe, flatten]

/-- `msgpack2jsonX` only adds to `msgpack2json` when that ends in a source
failure: on success and on a refusal in a complete document they are equal. -/
theorem msgpack2jsonX_eq (P : FloatIO) (mode : Mode) (bs : List Nat)
    (h : ∀ v, (msgpack2json P mode bs).verdict ≠ .srcMsgpack v) :
    msgpack2jsonX P mode bs = msgpack2json P mode bs := by
  unfold msgpack2jsonX
  rcases hr : msgpack2json P mode bs with ⟨out, verdict⟩
  rw [hr] at h
  cases verdict with
  | srcMsgpack v => exact absurd rfl (h v)
  | _ => rfl

/-- Otherwise it keeps every complete document and appends what the failing
document had written; the verdict becomes a refusal only if serde_json refused
something before the decoder failed. -/
theorem msgpack2jsonX_src (P : FloatIO) (mode : Mode) (bs : List Nat) (v : Msgpack.Verdict)
    (h : (msgpack2json P mode bs).verdict = .srcMsgpack v) :
    (msgpack2jsonX P mode bs).out = (msgpack2json P mode bs).out ++ (failingDoc P mode bs).1 ∧
    (msgpack2jsonX P mode bs).verdict =
      (match (failingDoc P mode bs).2 with
       | some e => Verdict.ser e
       | none => Verdict.srcMsgpack v) := by
  unfold msgpack2jsonX
  rcases hr : msgpack2json P mode bs with ⟨out, verdict⟩
  rw [hr] at h
  simp only at h
  subst h
  rcases failingDoc P mode bs with ⟨part, r⟩
  cases r <;> simp

end Xt.Bridge
