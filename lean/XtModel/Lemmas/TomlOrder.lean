import XtModel.Model.TomlOrder

/-! Helper lemmas about the TOML reordering model. -/
namespace Xt.TomlOrder

theorem isTbl_reorder (v : TV) : isTbl (reorder v) = isTbl v := by
  cases v <;> simp [reorder, isTbl]

theorem all_isTbl_reorderList (xs : List TV) : (reorderList xs).all isTbl = xs.all isTbl := by
  induction xs with
  | nil => simp [reorderList]
  | cons x xs ih => simp [reorderList, isTbl_reorder, ih]

theorem isEmpty_reorderList (xs : List TV) : (reorderList xs).isEmpty = xs.isEmpty := by
  cases xs <;> simp [reorderList]

theorem tableLike_reorder (v : TV) : tableLike (reorder v) = tableLike v := by
  cases v with
  | scalar t => simp [reorder]
  | arr xs => simp [reorder, tableLike, isTbl, isAot, all_isTbl_reorderList, isEmpty_reorderList]
  | tbl es => simp [reorder, tableLike, isTbl]

theorem filter_reorderEntries (p : TV → Bool) (hp : ∀ v, p (reorder v) = p v) (es : List (Nat × TV)) :
    (reorderEntries es).filter (fun e => p e.2) = reorderEntries (es.filter (fun e => p e.2)) := by
  induction es with
  | nil => simp [reorderEntries]
  | cons e es ih =>
    obtain ⟨k, v⟩ := e
    simp only [reorderEntries, List.filter_cons, hp]
    split <;> simp [reorderEntries, ih]

theorem reorderEntries_append (a b : List (Nat × TV)) :
    reorderEntries (a ++ b) = reorderEntries a ++ reorderEntries b := by
  induction a with
  | nil => simp [reorderEntries]
  | cons e a ih => obtain ⟨k, v⟩ := e; simp [reorderEntries, ih]

theorem part_part (l : List (Nat × TV)) : part (part l) = part l := by
  have h : ∀ (l : List (Nat × TV)), List.filter (fun _ => false) l = [] := by intro l; induction l <;> simp_all
  simp [part, List.filter_append, List.filter_filter, h]

theorem reorder_tbl (es : List (Nat × TV)) : reorder (.tbl es) = .tbl (part (reorderEntries es)) := by
  simp [reorder, part]

theorem reorderEntries_part (l : List (Nat × TV)) : reorderEntries (part l) = part (reorderEntries l) := by
  simp only [part, reorderEntries_append]
  rw [filter_reorderEntries (fun v => !tableLike v) (by simp [tableLike_reorder]),
      filter_reorderEntries tableLike tableLike_reorder]

theorem reorder_idem :
    (∀ v, reorder (reorder v) = reorder v) ∧
    (∀ es, reorderEntries (reorderEntries es) = reorderEntries es) ∧
    (∀ xs, reorderList (reorderList xs) = reorderList xs) := by
  apply reorder.mutual_induct
  · intro t; simp [reorder]
  · intro xs ih; simp [reorder, ih]
  · intro es ih
    rw [reorder_tbl, reorder_tbl, reorderEntries_part, ih, part_part]
  · simp [reorderList]
  · intro x xs ih1 ih2; simp [reorderList, ih1, ih2]
  · simp [reorderEntries]
  · intro k v es ih1 ih2; simp [reorderEntries, ih1, ih2]


mutual
  /-- No array anywhere contains a table. -/
  def noTblInArr : TV → Bool
    | .scalar _ => true
    | .arr xs => !xs.any isTbl && noTblInArrList xs
    | .tbl es => noTblInArrEntries es
  def noTblInArrList : List TV → Bool
    | [] => true
    | x :: xs => noTblInArr x && noTblInArrList xs
  def noTblInArrEntries : List (Nat × TV) → Bool
    | [] => true
    | (_, v) :: es => noTblInArr v && noTblInArrEntries es
end

theorem any_isTbl_reorderList (xs : List TV) : (reorderList xs).any isTbl = xs.any isTbl := by
  induction xs with
  | nil => simp [reorderList]
  | cons x xs ih => simp [reorderList, isTbl_reorder, ih]

theorem hasTbl_reorder (v : TV) : hasTbl (reorder v) = hasTbl v := by
  cases v <;> simp [reorder, hasTbl, any_isTbl_reorderList]

theorem hasTbl_false_of_ok (v : TV) (h : noTblInArr v = true) : hasTbl v = false := by
  cases v with
  | scalar t => rfl
  | arr xs => simp [noTblInArr] at h; simp [hasTbl]; exact h.1
  | tbl es => rfl

theorem isAot_false_of_hasTbl_false (v : TV) (h : hasTbl v = false) : isAot v = false := by
  cases v with
  | scalar t => rfl
  | tbl es => rfl
  | arr xs =>
    simp [hasTbl] at h
    cases xs with
    | nil => simp [isAot]
    | cons x xs => simp [isAot]; intro hx; have := h x (by simp); simp [hx] at this

theorem part3_eq_part (l : List (Nat × TV)) (h : ∀ e ∈ l, hasTbl e.2 = false) :
    part3 l = part l := by
  have h1 : l.filter (fun e => hasTbl e.2) = [] := by
    rw [List.filter_eq_nil_iff]; intro e he; simp [h e he]
  have h2 : l.filter (fun e => !isTbl e.2 && !hasTbl e.2) = l.filter (fun e => !tableLike e.2) := by
    apply List.filter_congr; intro e he
    simp [tableLike, h e he, isAot_false_of_hasTbl_false _ (h e he)]
  have h3 : l.filter (fun e => isTbl e.2) = l.filter (fun e => tableLike e.2) := by
    apply List.filter_congr; intro e he
    simp [tableLike, isAot_false_of_hasTbl_false _ (h e he)]
  rw [part3, h1, h2, h3, part]; simp

theorem entries_hasTbl_false (es : List (Nat × TV)) (h : noTblInArrEntries es = true) :
    ∀ e ∈ reorderEntries es, hasTbl e.2 = false := by
  induction es with
  | nil => simp [reorderEntries]
  | cons e es ih =>
    obtain ⟨k, v⟩ := e
    simp [noTblInArrEntries] at h
    intro e' he'
    simp [reorderEntries] at he'
    rcases he' with rfl | he'
    · simp [hasTbl_reorder, hasTbl_false_of_ok v h.1]
    · exact ih h.2 e' he'

/-- Below an array that contains no table (recursively), nothing is reordered. -/
theorem wInline_eq_reorder :
    (∀ v, noTblInArr v = true → isTbl v = false → wInline v = reorder v) ∧
    (∀ (_ : List (Nat × TV)), True) ∧
    (∀ xs, noTblInArrList xs = true → xs.any isTbl = false → wInlineList xs = reorderList xs) := by
  apply reorder.mutual_induct
  · intro t _ _; simp [reorder, wInline]
  · intro xs ih h _; simp [noTblInArr] at h
    simp [reorder, wInline, ih h.2 (by simpa using h.1)]
  · intro es _ _ h; simp [isTbl] at h
  · intro _ _; simp [reorderList, wInlineList]
  · intro x xs ih1 ih2 h hany
    simp [noTblInArrList] at h
    simp [List.any_cons] at hany
    have hx : isTbl x = false := by
      cases hb : isTbl x with
      | false => rfl
      | true => have := hany.1; simp [hb] at this
    have hxs : xs.any isTbl = false := by
      simp only [List.any_eq_false]; intro y hy; have := hany.2 y hy; simpa using this
    simp [reorderList, wInlineList, ih1 h.1 hx, ih2 h.2 hxs]
  · trivial
  · intro _ _ _ _ _; trivial

theorem wSection_eq_reorder :
    (∀ v, noTblInArr v = true → wSection v = reorder v) ∧
    (∀ es, noTblInArrEntries es = true → wSectionEntries es = reorderEntries es) ∧
    (∀ (_ : List TV), True) := by
  apply reorder.mutual_induct
  · intro t _; simp [reorder, wSection]
  · intro xs _ h
    have h' := h
    simp [noTblInArr] at h
    have hany : xs.any isTbl = false := by simpa using h.1
    have haot : isAot (.arr xs) = false :=
      isAot_false_of_hasTbl_false _ (hasTbl_false_of_ok _ h')
    simp only [wSection, haot]
    simp [reorder, wInline_eq_reorder.2.2 xs h.2 hany]
  · intro es ih h
    simp only [noTblInArr] at h
    rw [reorder_tbl]
    simp only [wSection, ih h]
    rw [part3_eq_part _ (entries_hasTbl_false es h), part_part]
  · trivial
  · intro _ _ _ _; trivial
  · intro _; simp [reorderEntries, wSectionEntries]
  · intro k v es ih1 ih2 h; simp [noTblInArrEntries] at h
    simp [reorderEntries, wSectionEntries, ih1 h.1, ih2 h.2]

theorem written_eq_reorder (es : List (Nat × TV)) (h : noTblInArr (.tbl es) = true) :
    written (.tbl es) = reorder (.tbl es) := by
  simp only [noTblInArr] at h
  rw [reorder_tbl]
  simp only [written, wSection_eq_reorder.2.1 es h]

end Xt.TomlOrder
