import XtModel.Model.ParserBinding

/-!
Lemmas about the resource life cycle of `Parser` (`Model/ParserBinding.lean`).
-/
namespace Xt.ParserBinding

/-- The allocations live while a `Parser` value exists. -/
def liveParser : List Res := [.readState, .internals, .parserBox]

theorem check_append (live : List Res) (a b : List Act) :
    check live (a ++ b) = (check live a).bind fun l => check l b := by
  induction a generalizing live with
  | nil => rfl
  | cons x a ih =>
    cases x with
    | alloc r =>
      simp only [List.cons_append, check]
      split
      · rfl
      · exact ih _
    | use r =>
      simp only [List.cons_append, check]
      split
      · exact ih _
      · rfl
    | free r =>
      simp only [List.cons_append, check]
      split
      · rfl
      · split
        · rfl
        · exact ih _

theorem check_uses (reads : Nat) (rest : List Act) :
    check liveParser (List.replicate reads (.use .readState) ++ rest) = check liveParser rest := by
  induction reads with
  | zero => rfl
  | succ n ih =>
    simp only [List.replicate_succ, List.cons_append, check]
    simpa [liveParser] using ih

/-- One `next_event` leaves exactly the parser's allocations live. -/
theorem check_next (i reads : Nat) (ok : Bool) : check liveParser (nextTrace i reads ok) = .ok liveParser := by
  unfold nextTrace
  have h1 : liveParser.contains Res.internals = true := by decide
  simp only [check, h1, if_true]
  rw [check_uses]
  cases ok
  · simp [check, liveParser]
  · simp [check, liveParser]

theorem check_calls (calls : List (Nat × Bool)) (i : Nat) :
    check liveParser (callsTrace i calls) = .ok liveParser := by
  induction calls generalizing i with
  | nil => rfl
  | cons c calls ih =>
    obtain ⟨reads, ok⟩ := c
    simp only [callsTrace]
    rw [check_append, check_next]
    exact ih (i + 1)

theorem check_new_ok : check [] (newTrace true) = .ok liveParser := by
  simp [check, newTrace, liveParser]

theorem check_new_oom : check [] (newTrace false) = .ok [] := by
  simp [check, newTrace]

theorem check_drop : check liveParser dropTrace = .ok [] := by
  simp [check, dropTrace, liveParser]

/-- How often `r` is released in a trace. -/
def frees (r : Res) : List Act → Nat
  | [] => 0
  | .free r' :: rest => (if r' = r then 1 else 0) + frees r rest
  | _ :: rest => frees r rest

theorem frees_append (r : Res) (a b : List Act) : frees r (a ++ b) = frees r a + frees r b := by
  induction a with
  | nil => simp [frees]
  | cons x a ih =>
    cases x <;> simp only [List.cons_append, frees, ih]
    omega

theorem frees_uses (r r' : Res) (n : Nat) : frees r (List.replicate n (.use r')) = 0 := by
  induction n with
  | zero => rfl
  | succ n ih => simp [List.replicate_succ, frees, ih]

/-- A `next_event` call releases nothing but its own event. -/
theorem frees_next (r : Res) (hr : ∀ i, r ≠ .event i) (i reads : Nat) (ok : Bool) :
    frees r (nextTrace i reads ok) = 0 := by
  unfold nextTrace
  simp only [frees, frees_append, frees_uses]
  cases ok
  · simp [frees]
  · have : ¬ Res.event i = r := fun h => hr i h.symm
    simp [frees, this]

theorem frees_calls (r : Res) (hr : ∀ i, r ≠ .event i) (calls : List (Nat × Bool)) (i : Nat) :
    frees r (callsTrace i calls) = 0 := by
  induction calls generalizing i with
  | nil => rfl
  | cons c calls ih =>
    obtain ⟨reads, ok⟩ := c
    simp only [callsTrace, frees_append, frees_next r hr, ih]

end Xt.ParserBinding
