import XtModel.Lemmas.Encoding

/-! Reference UTF-16/UTF-32 encoders and the decode∘encode lemmas. -/
namespace Xt.Encoding

/-- UTF-16 code units of a scalar value. -/
def unit16s (c : Nat) : List Nat :=
  if c < 0x10000 then [c] else [0xD800 + (c - 0x10000) / 1024, 0xDC00 + (c - 0x10000) % 1024]

def enc16 (t : List Nat) : List Nat := t.flatMap unit16s

def bytes16 (big : Bool) (us : List Nat) : List Nat :=
  us.flatMap fun u => if big then [u / 256, u % 256] else [u % 256, u / 256]

def bytes32 (big : Bool) (us : List Nat) : List Nat :=
  us.flatMap fun u =>
    if big then [u / 16777216, u / 65536 % 256, u / 256 % 256, u % 256]
    else [u % 256, u / 256 % 256, u / 65536 % 256, u / 16777216]

theorem unit16s_lt (c : Nat) (h : isScalar c) : ∀ u ∈ unit16s c, u < 65536 := by
  unfold isScalar at h; unfold unit16s; intro u hu
  split at hu <;> simp at hu <;> omega

theorem enc16_lt (t : List Nat) (h : ∀ c ∈ t, isScalar c) : ∀ u ∈ enc16 t, u < 65536 := by
  intro u hu
  simp only [enc16, List.mem_flatMap] at hu
  obtain ⟨c, hc, hu⟩ := hu
  exact unit16s_lt c (h c hc) u hu

theorem dec16_enc16 (t : List Nat) (h : ∀ c ∈ t, isScalar c) (rest : List Nat) (pos : Nat)
    (trunc : Bool) :
    dec16 (enc16 t ++ rest) pos trunc =
      t.map .ch ++ dec16 rest (pos + 2 * (enc16 t).length) trunc := by
  induction t generalizing pos with
  | nil => simp [enc16]
  | cons c t ih =>
    have hc : isScalar c := h c (by simp)
    have ht : ∀ c ∈ t, isScalar c := fun c hc => h c (by simp [hc])
    unfold isScalar at hc
    by_cases hlt : c < 0x10000
    · have : enc16 (c :: t) = c :: enc16 t := by simp [enc16, unit16s, hlt]
      rw [this]
      simp only [List.cons_append]
      rw [dec16.eq_def]
      have h1 : c < 0xD800 ∨ 0xE000 ≤ c := by omega
      simp only [h1, if_true]
      rw [ih ht]
      simp; congr 1; omega
    · have : enc16 (c :: t) =
          (0xD800 + (c - 0x10000) / 1024) :: (0xDC00 + (c - 0x10000) % 1024) :: enc16 t := by
        simp [enc16, unit16s, hlt]
      rw [this]
      simp only [List.cons_append]
      rw [dec16.eq_def]
      have h1 : ¬ (0xD800 + (c - 0x10000) / 1024 < 0xD800 ∨ 0xE000 ≤ 0xD800 + (c - 0x10000) / 1024) := by
        omega
      have h2 : ¬ (0xDC00 ≤ 0xD800 + (c - 0x10000) / 1024) := by omega
      have h3 : 0xDC00 ≤ 0xDC00 + (c - 0x10000) % 1024 ∧ 0xDC00 + (c - 0x10000) % 1024 ≤ 0xDFFF := by
        omega
      have h4 : 0x10000 + ((0xD800 + (c - 0x10000) / 1024 - 0xD800) * 1024 +
          (0xDC00 + (c - 0x10000) % 1024 - 0xDC00)) = c := by omega
      simp only [h1, h2, h3, if_false, if_true, and_self, h4]
      rw [ih ht]
      have h5 : pos + 4 + 2 * (enc16 t).length = pos + 2 * ((enc16 t).length + 1 + 1) := by omega
      simp only [List.map_cons, List.cons_append, List.length_cons, h5]

theorem units16_bytes16 (big : Bool) (us : List Nat) (h : ∀ u ∈ us, u < 65536) :
    units16 big (bytes16 big us) = (us, false) := by
  induction us with
  | nil => simp [bytes16, units16]
  | cons u us ih =>
    have hu : u < 65536 := h u (by simp)
    have hus : ∀ u ∈ us, u < 65536 := fun u hu => h u (by simp [hu])
    have ih' := ih hus
    cases big
    · simp [bytes16, units16] at ih' ⊢
      rw [ih']; simp; omega
    · simp [bytes16, units16] at ih' ⊢
      rw [ih']; simp; omega

theorem units16_bytes16_trunc (big : Bool) (us : List Nat) (h : ∀ u ∈ us, u < 65536) (b : Nat) :
    units16 big (bytes16 big us ++ [b]) = (us, true) := by
  induction us with
  | nil => simp [bytes16, units16]
  | cons u us ih =>
    have hu : u < 65536 := h u (by simp)
    have hus : ∀ u ∈ us, u < 65536 := fun u hu => h u (by simp [hu])
    have ih' := ih hus
    cases big
    · simp [bytes16, units16] at ih' ⊢
      rw [ih']; simp; omega
    · simp [bytes16, units16] at ih' ⊢
      rw [ih']; simp; omega

theorem units32_bytes32 (big : Bool) (us : List Nat) (h : ∀ u ∈ us, u < 4294967296) :
    units32 big (bytes32 big us) = (us, false) := by
  induction us with
  | nil => simp [bytes32, units32]
  | cons u us ih =>
    have hu : u < 4294967296 := h u (by simp)
    have hus : ∀ u ∈ us, u < 4294967296 := fun u hu => h u (by simp [hu])
    have ih' := ih hus
    cases big
    · simp [bytes32, units32] at ih' ⊢
      rw [ih']; simp; omega
    · simp [bytes32, units32] at ih' ⊢
      rw [ih']; simp; omega

theorem dec32_scalars (t : List Nat) (h : ∀ c ∈ t, isScalar c) (rest : List Nat) (pos : Nat)
    (trunc : Bool) :
    dec32 (t ++ rest) pos trunc = t.map .ch ++ dec32 rest (pos + 4 * t.length) trunc := by
  induction t generalizing pos with
  | nil => simp
  | cons c t ih =>
    have hc : isScalar c := h c (by simp)
    have ht : ∀ c ∈ t, isScalar c := fun c hc => h c (by simp [hc])
    unfold isScalar at hc
    simp only [List.cons_append, dec32, hc, if_true, List.map_cons]
    rw [ih ht]; simp; congr 1; omega

/-- Every character either decoder yields is a Unicode scalar value (the
argument of the two `char::from_u32_unchecked` calls, and `char::from_u32`). -/
theorem dec16_scalar (us : List Nat) (hus : ∀ u ∈ us, u < 65536) (pos : Nat) (trunc : Bool) :
    ∀ c, Item.ch c ∈ dec16 us pos trunc → isScalar c := by
  fun_induction dec16 us pos trunc <;> intro c hc <;> simp_all [isScalar]
  all_goals (rcases hc with hc | hc)
  all_goals (first | omega | (apply_assumption; assumption))

theorem dec32_scalar (us : List Nat) (pos : Nat) (trunc : Bool) :
    ∀ c, Item.ch c ∈ dec32 us pos trunc → isScalar c := by
  induction us generalizing pos with
  | nil => intro c hc; rw [dec32] at hc; split at hc <;> simp at hc
  | cons u us ih =>
    intro c hc
    rw [dec32] at hc
    simp only [List.mem_cons] at hc
    rcases hc with hc | hc
    · split at hc
      · rename_i h; cases hc; exact h
      · simp at hc
    · exact ih _ c hc

end Xt.Encoding
