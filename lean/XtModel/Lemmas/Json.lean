import XtModel.Model.Json

/-! Helper lemmas about the JSON model: recursion-proof-free unfolding
equations for the parser and the document loops, writer facts, lexer facts. -/
namespace Xt.Json

/-! ## Unfolding equations (the `Shorter` proofs erased) -/

theorem parseValue_eq (d : Nat) (bs : List Nat) : parseValue d bs =
    match skipWs bs with
    | [] => .error .eofValue
    | b :: r =>
      match classify b with
      | .n => match ident [0x75, 0x6C, 0x6C] r with
        | .error e => .error e
        | .ok r' => .ok (.null, r')
      | .t => match ident [0x72, 0x75, 0x65] r with
        | .error e => .error e
        | .ok r' => .ok (.bool true, r')
      | .f => match ident [0x61, 0x6C, 0x73, 0x65] r with
        | .error e => .error e
        | .ok r' => .ok (.bool false, r')
      | .minus => match lexNumber false r with
        | .error e => .error e
        | .ok (n, src, r') => .ok (numVal false n src, r')
      | .digit => match lexNumber true (b :: r) with
        | .error e => .error e
        | .ok (n, src, r') => .ok (numVal true n src, r')
      | .quote => match parseStr r with
        | .error e => .error e
        | .ok (cps, r') => .ok (.str cps, r')
      | .lbrack =>
        if d ≤ 1 then .error .recursionLimit else
        match parseElems (d - 1) true r with
        | .error e => .error e
        | .ok (xs, r') => .ok (.arr xs, r')
      | .lbrace =>
        if d ≤ 1 then .error .recursionLimit else
        match parseEntries (d - 1) true r with
        | .error e => .error e
        | .ok (es, r') => .ok (.obj es, r')
      | .other => .error .expectedValue := by
  unfold parseValue parseElems parseEntries
  rw [parseValueS.eq_def]
  split <;> rename_i heq <;> (repeat' split at heq) <;> simp_all
  all_goals first
    | (intro h'; omega)
    | (obtain ⟨_, rfl⟩ := heq; rfl)
    | (obtain ⟨_, rfl⟩ := heq; rw [if_neg (by omega)])

theorem parseElems_eq (d : Nat) (first : Bool) (bs : List Nat) : parseElems d first bs =
    match skipWs bs with
    | [] => .error .eofList
    | c :: r =>
      if c = 0x5D then .ok ([], r)
      else if first then
        match parseValue d (c :: r) with
        | .error e => .error e
        | .ok (v, r1) =>
          match parseElems d false r1 with
          | .error e => .error e
          | .ok (vs, r2) => .ok (v :: vs, r2)
      else if c = 0x2C then
        match skipWs r with
        | [] => .error .eofValue
        | c2 :: r2 =>
          if c2 = 0x5D then .error .trailingComma
          else
            match parseValue d (c2 :: r2) with
            | .error e => .error e
            | .ok (v, r3) =>
              match parseElems d false r3 with
              | .error e => .error e
              | .ok (vs, r4) => .ok (v :: vs, r4)
      else .error .expectedListCommaOrEnd := by
  unfold parseValue parseElems
  rw [parseElemsS.eq_def]
  split <;> rename_i heq <;> (repeat' split at heq) <;> simp_all
  all_goals first
    | (obtain ⟨_, rfl⟩ := heq; rfl)
    | skip

/-- `has_next_key`: the input after the opening quote of the next key. -/
def keyStart (first : Bool) (c : Nat) (r : List Nat) : Except Err (List Nat) :=
  if first then
    if c = 0x22 then .ok r else .error .keyMustBeString
  else if c = 0x2C then
    match skipWs r with
    | [] => .error .eofValue
    | c2 :: r2 =>
      if c2 = 0x22 then .ok r2
      else if c2 = 0x7D then .error .trailingComma
      else .error .keyMustBeString
  else .error .expectedObjectCommaOrEnd

theorem parseEntries_eq (d : Nat) (first : Bool) (bs : List Nat) : parseEntries d first bs =
    match skipWs bs with
    | [] => .error .eofObject
    | c :: r =>
      if c = 0x7D then .ok ([], r)
      else
        match keyStart first c r with
        | .error e => .error e
        | .ok kbs =>
          match parseStr kbs with
          | .error e => .error e
          | .ok (k, r3) =>
            match skipWs r3 with
            | [] => .error .eofObject
            | c4 :: r4 =>
              if c4 ≠ 0x3A then .error .expectedColon
              else
                match parseValue d r4 with
                | .error e => .error e
                | .ok (v, r5) =>
                  match parseEntries d false r5 with
                  | .error e => .error e
                  | .ok (es, r6) => .ok ((k, v) :: es, r6) := by
  unfold parseValue parseEntries keyStart
  rw [parseEntriesS.eq_def]
  split <;> rename_i heq <;> (repeat' split at heq) <;> simp_all
  all_goals (repeat' split at heq) <;> (try simp_all)
  all_goals (obtain ⟨_, rfl⟩ := heq; rfl)

theorem readerLoop_eq (bs : List Nat) : readerLoop bs =
    match skipWs bs with
    | [] => ([], .ok)
    | b :: r =>
      match parseValue depthLimit (b :: r) with
      | .error e => ([], .err e)
      | .ok (v, rest) => (v :: (readerLoop rest).1, (readerLoop rest).2) := by
  unfold parseValue
  rw [readerLoop.eq_def]
  split
  · rename_i h; simp [h]
  · rename_i b r h
    simp only [h]
    split <;> rename_i heq <;> simp [heq]

theorem sliceDocs_eq (bs : List Nat) : sliceDocs bs =
    match skipWs bs with
    | [] => ([], .ok)
    | b :: r =>
      match parseValue depthLimit (b :: r) with
      | .error e => ([], .err e)
      | .ok (v, rest) =>
        if isSelfDelim b || endOk rest then (v :: (sliceDocs rest).1, (sliceDocs rest).2)
        else ([], .err .trailingChars) := by
  unfold parseValue
  rw [sliceDocs.eq_def]
  split
  · rename_i h; simp [h]
  · rename_i b r h
    simp only [h]
    split <;> rename_i heq <;> simp [heq]

theorem hasUnseparatedScalar_eq (bs : List Nat) : hasUnseparatedScalar bs =
    match skipWs bs with
    | [] => false
    | b :: r =>
      match parseValue depthLimit (b :: r) with
      | .error _ => false
      | .ok (_, rest) => (!isSelfDelim b && !endOk rest) || hasUnseparatedScalar rest := by
  unfold parseValue
  rw [hasUnseparatedScalar.eq_def]
  split
  · rename_i h; simp [h]
  · rename_i b r h
    simp only [h]
    split <;> rename_i heq <;> simp [heq]

/-! ## Writer facts -/

theorem natDec_digits (n : Nat) : ∀ b ∈ natDec n, 0x30 ≤ b ∧ b ≤ 0x39 := by
  fun_induction natDec n with
  | case1 n h => intro b hb; simp at hb; omega
  | case2 n h ih =>
    intro b hb
    simp at hb
    rcases hb with hb | hb
    · exact ih b hb
    · omega

theorem utf8_ge (c : Nat) (h : 0x80 ≤ c) : ∀ b ∈ utf8 c, 0x80 ≤ b := by
  intro b hb
  unfold utf8 at hb
  split at hb
  · omega
  · split at hb
    · simp at hb; omega
    · split at hb <;> (simp at hb; omega)

theorem writeCp_no_newline (c : Nat) : 0x0A ∉ writeCp c := by
  unfold writeCp
  repeat' split
  all_goals try simp
  · unfold hexLower; constructor <;> split <;> omega
  · intro h
    rename_i h1 h2 h3 h4 h5 h6 h7 h8
    by_cases hc : c < 0x80
    · simp [utf8, hc] at h; omega
    · have := utf8_ge c (by omega) _ h; omega


def ExtFloat.NoNewline (F : ExtFloat) : Prop := ∀ src, 0x0A ∉ F.fmt src

theorem writeStr_no_newline (cps : List Nat) : 0x0A ∉ writeStr cps := by
  unfold writeStr
  simp only [List.mem_cons, List.mem_append, List.mem_flatMap, List.not_mem_nil, or_false]
  intro h
  rcases h with (h | ⟨c, _, hc⟩) | h
  · simp at h
  · exact writeCp_no_newline c hc
  · simp at h

theorem intDec_no_newline (i : Int) : 0x0A ∉ intDec i := by
  unfold intDec
  split
  · simp only [List.mem_cons]; intro h
    rcases h with h | h
    · simp at h
    · have := natDec_digits _ _ h; omega
  · intro h; have := natDec_digits _ _ h; omega

theorem write_no_newline_all (F : ExtFloat) (hF : F.NoNewline) :
    (∀ v, 0x0A ∉ write F v) ∧ (∀ first es, 0x0A ∉ writeEntries F first es) ∧
      (∀ first xs, 0x0A ∉ writeElems F first xs) := by
  apply write.mutual_induct
    (motive_1 := fun v => 0x0A ∉ write F v)
    (motive_2 := fun first es => 0x0A ∉ writeEntries F first es)
    (motive_3 := fun first xs => 0x0A ∉ writeElems F first xs)
  · simp [write]
  · simp [write]
  · simp [write]
  · intro i; simpa [write] using intDec_no_newline i
  · intro src; simpa [write] using hF src
  · intro cps; simpa [write] using writeStr_no_newline cps
  · intro xs ih; simp [write]; exact ih
  · intro es ih; simp [write]; exact ih
  · intro first; simp [writeElems]
  · intro first x xs ih1 ih2
    simp only [writeElems, List.mem_append, not_or]
    refine ⟨⟨?_, ih1⟩, ih2⟩
    split <;> simp
  · intro first; simp [writeEntries]
  · intro first k v es ih1 ih2
    have hk := writeStr_no_newline k
    simp only [writeEntries, List.mem_append, List.mem_cons, not_or]
    split <;> simp_all

/-! ## Lexer facts: literals and numbers -/

theorem ident_append (es rest : List Nat) : ident es (es ++ rest) = .ok rest := by
  induction es with
  | nil => simp [ident]
  | cons e es ih => simp [ident, ih]

theorem skipWs_cons {b : Nat} (r : List Nat) (h : isWs b = false) : skipWs (b :: r) = b :: r := by
  simp [skipWs, h]

/-- The byte after a number literal does not continue it. -/
def numEnd : List Nat → Bool
  | [] => true
  | b :: _ => !isDigit b && b != 0x2E && b != 0x65 && b != 0x45

theorem natDec_ne_nil (n : Nat) : natDec n ≠ [] := by
  rw [natDec.eq_def]; split <;> simp

theorem digitsVal_append_one (ds : List Nat) (b : Nat) :
    digitsVal (ds ++ [b]) = digitsVal ds * 10 + (b - 0x30) := by
  simp [digitsVal, List.foldl_append]

theorem digitsVal_natDec (n : Nat) : digitsVal (natDec n) = n := by
  fun_induction natDec n with
  | case1 n h => simp [digitsVal]
  | case2 n h ih => rw [digitsVal_append_one, ih]; omega

theorem natDec_head (n : Nat) (h : 0 < n) :
    ∃ b t, natDec n = b :: t ∧ 0x31 ≤ b ∧ b ≤ 0x39 := by
  fun_induction natDec n with
  | case1 n hn => exact ⟨0x30 + n, [], rfl, by omega, by omega⟩
  | case2 n hn ih =>
    obtain ⟨b, t, hb, h1, h2⟩ := ih (by omega)
    exact ⟨b, t ++ [0x30 + n % 10], by simp [hb], h1, h2⟩

theorem natDec_zero : natDec 0 = [0x30] := by rw [natDec.eq_def]; simp

/-- The next byte is not a digit. -/
def digitEnd : List Nat → Bool
  | [] => true
  | b :: _ => !isDigit b

theorem takeDigits_append (ds rest : List Nat) (hds : ∀ b ∈ ds, isDigit b = true)
    (hrest : digitEnd rest = true) :
    takeDigits (ds ++ rest) = (ds, rest) := by
  induction ds with
  | nil =>
    cases rest with
    | nil => simp [takeDigits]
    | cons b r => simp [digitEnd] at hrest; simp [takeDigits, hrest]
  | cons d ds ih =>
    have hd := hds d (by simp)
    have := ih (fun b hb => hds b (by simp [hb]))
    simp [takeDigits, hd, this]

theorem isDigit_of_natDec {n b : Nat} (h : b ∈ natDec n) : isDigit b = true := by
  have := natDec_digits n b h; simp [isDigit]; omega

theorem numEnd_not_digit {rest : List Nat} (h : numEnd rest = true) : digitEnd rest = true := by
  cases rest with
  | nil => rfl
  | cons b r => simp [numEnd] at h; simp [digitEnd, h.1]

theorem lexInt_natDec (n : Nat) (rest : List Nat) (h : numEnd rest = true) :
    lexInt (natDec n ++ rest) = .ok (natDec n, rest) := by
  by_cases hn : n = 0
  · subst hn
    rw [natDec_zero]
    cases rest with
    | nil => simp [lexInt]
    | cons b r => simp [numEnd] at h; simp [lexInt, h.1]
  · obtain ⟨b, t, hb, h1, h2⟩ := natDec_head n (by omega)
    have htd := takeDigits_append (natDec n) rest (fun b hb => isDigit_of_natDec hb) (numEnd_not_digit h)
    rw [hb] at htd ⊢
    have hbd : isDigit b = true := by simp [isDigit]; omega
    simp only [List.cons_append, lexInt]
    rw [if_neg (by omega), if_pos hbd]
    simp only [List.cons_append] at htd
    rw [htd]

theorem lexFrac_numEnd (rest : List Nat) (h : numEnd rest = true) : lexFrac rest = .ok (none, rest) := by
  cases rest with
  | nil => simp [lexFrac]
  | cons b r => simp [numEnd] at h; simp [lexFrac, h]

theorem lexExp_numEnd (rest : List Nat) (h : numEnd rest = true) : lexExp rest = .ok (none, rest) := by
  cases rest with
  | nil => simp [lexExp]
  | cons b r => simp [numEnd] at h; simp [lexExp, h]

theorem lexNumber_natDec (p : Bool) (n : Nat) (rest : List Nat) (h : numEnd rest = true) :
    lexNumber p (natDec n ++ rest) =
      match classifyNum p (natDec n) none none with
      | .error e => .error e
      | .ok c => .ok (c, natDec n, rest) := by
  simp [lexNumber, lexInt_natDec n rest h, lexFrac_numEnd rest h, lexExp_numEnd rest h, numSrc]
  rfl

theorem classifyNum_pos (n : Nat) (h : n ≤ u64Max) :
    classifyNum true (natDec n) none none = .ok (.int n) := by
  simp [classifyNum, digitsVal_natDec, h]

theorem classifyNum_neg (n : Nat) (h0 : 0 < n) (h : n ≤ 9223372036854775808) :
    classifyNum false (natDec n) none none = .ok (.int (-(n : Int))) := by
  have : n ≤ u64Max := by unfold u64Max; omega
  simp [classifyNum, digitsVal_natDec, this, h]
  omega


/-! ## UTF-8 -/

theorem utf8Decode_cons1 (b0 : Nat) (rest : List Nat) (h : b0 < 0x80) :
    utf8Decode (b0 :: rest) = (utf8Decode rest).map (b0 :: ·) := by
  rw [utf8Decode.eq_def]; simp [h]

theorem utf8Decode_cons2 (b0 b1 : Nat) (rest : List Nat) (h0 : 0xC2 ≤ b0 ∧ b0 ≤ 0xDF)
    (h1 : isCont b1 = true) :
    utf8Decode (b0 :: b1 :: rest) =
      (utf8Decode rest).map (((b0 - 0xC0) * 64 + (b1 - 0x80)) :: ·) := by
  rw [utf8Decode.eq_def]
  simp only
  rw [if_neg (by omega), if_pos h0]
  simp [h1]

theorem utf8Decode_cons3 (b0 b1 b2 : Nat) (rest : List Nat) (h0 : 0xE0 ≤ b0 ∧ b0 ≤ 0xEF)
    (h1 : (if b0 = 0xE0 then 0xA0 else 0x80) ≤ b1 ∧ b1 ≤ (if b0 = 0xED then 0x9F else 0xBF) ∧
      isCont b2 = true) :
    utf8Decode (b0 :: b1 :: b2 :: rest) =
      (utf8Decode rest).map ((((b0 - 0xE0) * 64 + (b1 - 0x80)) * 64 + (b2 - 0x80)) :: ·) := by
  rw [utf8Decode.eq_def]
  simp only
  rw [if_neg (by omega), if_neg (by omega), if_pos h0, if_pos h1]

theorem utf8Decode_cons4 (b0 b1 b2 b3 : Nat) (rest : List Nat) (h0 : 0xF0 ≤ b0 ∧ b0 ≤ 0xF4)
    (h1 : (if b0 = 0xF0 then 0x90 else 0x80) ≤ b1 ∧ b1 ≤ (if b0 = 0xF4 then 0x8F else 0xBF) ∧
      isCont b2 = true ∧ isCont b3 = true) :
    utf8Decode (b0 :: b1 :: b2 :: b3 :: rest) =
      (utf8Decode rest).map
        (((((b0 - 0xF0) * 64 + (b1 - 0x80)) * 64 + (b2 - 0x80)) * 64 + (b3 - 0x80)) :: ·) := by
  rw [utf8Decode.eq_def]
  simp only
  rw [if_neg (by omega), if_neg (by omega), if_neg (by omega), if_pos h0, if_pos h1]

theorem utf8Decode_utf8 (c : Nat) (rest : List Nat) (h : isScalar c = true) :
    utf8Decode (utf8 c ++ rest) = (utf8Decode rest).map (c :: ·) := by
  simp only [isScalar, Bool.or_eq_true, Bool.and_eq_true, decide_eq_true_eq] at h
  unfold utf8
  split
  · rename_i h1
    exact utf8Decode_cons1 c rest h1
  · split
    · rename_i h1 h2
      simp only [List.cons_append, List.nil_append]
      rw [utf8Decode_cons2 _ _ _ (by omega) (by simp [isCont]; omega)]
      have : (0xC0 + c / 64 - 0xC0) * 64 + (0x80 + c % 64 - 0x80) = c := by omega
      rw [this]
    · split
      · rename_i h1 h2 h3
        simp only [List.cons_append, List.nil_append]
        rw [utf8Decode_cons3 _ _ _ _ (by omega)]
        · have : ((0xE0 + c / 4096 - 0xE0) * 64 + (0x80 + c / 64 % 64 - 0x80)) * 64 +
              (0x80 + c % 64 - 0x80) = c := by omega
          rw [this]
        · refine ⟨?_, ?_, ?_⟩
          · split <;> omega
          · split <;> omega
          · simp [isCont]; omega
      · rename_i h1 h2 h3
        simp only [List.cons_append, List.nil_append]
        rw [utf8Decode_cons4 _ _ _ _ _ (by omega)]
        · have : (((0xF0 + c / 262144 - 0xF0) * 64 + (0x80 + c / 4096 % 64 - 0x80)) * 64 +
              (0x80 + c / 64 % 64 - 0x80)) * 64 + (0x80 + c % 64 - 0x80) = c := by omega
          rw [this]
        · refine ⟨?_, ?_, ?_, ?_⟩
          · split <;> omega
          · split <;> omega
          · simp [isCont]; omega
          · simp [isCont]; omega

theorem utf8Decode_flatMap (cps : List Nat) (h : allScalars cps = true) :
    utf8Decode (cps.flatMap utf8) = some cps := by
  induction cps with
  | nil => simp [utf8Decode]
  | cons c cps ih =>
    simp only [allScalars, List.all_cons, Bool.and_eq_true] at h
    simp only [List.flatMap_cons]
    rw [utf8Decode_utf8 c _ h.1, ih (by simpa [allScalars] using h.2)]
    rfl


/-! ## Strings: the reader takes back what the writer escapes -/

/-- Prepend scratch bytes to a string-body result. -/
def pre (p : List Nat) (x : Except Err (List Nat × List Nat)) : Except Err (List Nat × List Nat) :=
  match x with
  | .ok (s, r) => .ok (p ++ s, r)
  | .error e => .error e

theorem pre_pre (a b : List Nat) (x) : pre a (pre b x) = pre (a ++ b) x := by
  unfold pre; cases x with
  | error e => rfl
  | ok v => simp

theorem pre_nil (x) : pre [] x = x := by
  unfold pre; cases x with
  | error e => rfl
  | ok v => simp

theorem strBody_quote (rest : List Nat) : strBody (0x22 :: rest) = .ok ([], rest) := by
  rw [strBody.eq_def]; simp

theorem strBody_raw1 (b : Nat) (rest : List Nat) (h1 : 0x20 ≤ b) (h2 : b ≠ 0x22) (h3 : b ≠ 0x5C) :
    strBody (b :: rest) = pre [b] (strBody rest) := by
  rw [strBody.eq_def]
  simp only
  rw [if_neg h2, if_neg h3, if_neg (by omega)]
  unfold pre
  split <;> simp_all

theorem strBody_raw (bytes tail : List Nat) (h : ∀ b ∈ bytes, 0x20 ≤ b ∧ b ≠ 0x22 ∧ b ≠ 0x5C) :
    strBody (bytes ++ tail) = pre bytes (strBody tail) := by
  induction bytes with
  | nil => simp [pre_nil]
  | cons b bs ih =>
    have hb := h b (by simp)
    rw [List.cons_append, strBody_raw1 b _ hb.1 hb.2.1 hb.2.2, ih (fun x hx => h x (by simp [hx])), pre_pre]
    rfl

theorem strBody_esc (rest out r : List Nat) (h : escape rest = .ok (out, r)) :
    strBody (0x5C :: rest) = pre out (strBody r) := by
  rw [strBody.eq_def]
  simp only
  simp only [show ¬ (0x5C = 0x22) by decide, if_false, if_true]
  split
  · rename_i heq; rw [h] at heq; simp at heq
  · rename_i out' r' heq
    rw [h] at heq; simp at heq
    obtain ⟨rfl, rfl⟩ := heq
    unfold pre
    split <;> simp_all

theorem hexVal_hexLower (n : Nat) (h : n < 16) : hexVal (hexLower n) = some n := by
  unfold hexLower hexVal
  split
  · rw [if_pos (by omega)]; congr 1; omega
  · rw [if_neg (by omega), if_neg (by omega), if_pos (by omega)]; congr 1; omega

theorem strBody_writeCp (c : Nat) (tail : List Nat) (hc : isScalar c = true) :
    strBody (writeCp c ++ tail) = pre (utf8 c) (strBody tail) := by
  unfold writeCp
  split
  · rename_i h; subst h
    exact strBody_esc _ _ _ (by simp [escape, utf8])
  split
  · rename_i h; subst h
    exact strBody_esc _ _ _ (by simp [escape, utf8])
  split
  · rename_i h; subst h
    exact strBody_esc _ _ _ (by simp [escape, utf8])
  split
  · rename_i h; subst h
    exact strBody_esc _ _ _ (by simp [escape, utf8])
  split
  · rename_i h; subst h
    exact strBody_esc _ _ _ (by simp [escape, utf8])
  split
  · rename_i h; subst h
    exact strBody_esc _ _ _ (by simp [escape, utf8])
  split
  · rename_i h; subst h
    exact strBody_esc _ _ _ (by simp [escape, utf8])
  split
  · rename_i h
    have h1 : hexVal (hexLower (c / 16)) = some (c / 16) := hexVal_hexLower _ (by omega)
    have h2 : hexVal (hexLower (c % 16)) = some (c % 16) := hexVal_hexLower _ (by omega)
    have h0 : hexVal 0x30 = some 0 := by simp [hexVal]
    have hu : utf8 c = [c] := by simp [utf8]; omega
    have key : escape (0x75 :: 0x30 :: 0x30 :: hexLower (c / 16) :: hexLower (c % 16) :: tail) =
        .ok (utf8 c, tail) := by
      simp only [escape, unicodeEscape, hexEscape, hex4, h0, h1, h2]
      have : ((0 * 16 + 0) * 16 + c / 16) * 16 + c % 16 = c := by omega
      simp only [this]
      simp
      rw [if_neg (by omega), if_pos (by omega)]
    simp only [List.cons_append, List.nil_append]
    exact strBody_esc _ _ _ key
  · rename_i h1 h2 h3 h4 h5 h6 h7 h8
    apply strBody_raw
    intro b hb
    by_cases hlt : c < 0x80
    · simp [utf8, hlt] at hb; subst hb; omega
    · have := utf8_ge c (by omega) b hb; omega

theorem strBody_flatMap (cps rest : List Nat) (h : allScalars cps = true) :
    strBody (cps.flatMap writeCp ++ 0x22 :: rest) = .ok (cps.flatMap utf8, rest) := by
  induction cps with
  | nil => simp [strBody_quote]
  | cons c cps ih =>
    simp only [allScalars, List.all_cons, Bool.and_eq_true] at h
    simp only [List.flatMap_cons, List.append_assoc]
    rw [strBody_writeCp c _ h.1, ih (by simpa [allScalars] using h.2)]
    rfl

theorem parseStr_writeStr (cps rest : List Nat) (h : allScalars cps = true) :
    parseStr (cps.flatMap writeCp ++ 0x22 :: rest) = .ok (cps, rest) := by
  simp [parseStr, strBody_flatMap cps rest h, utf8Decode_flatMap cps h]


/-! ## The reader takes back what the writer wrote (with the depth verdict) -/

theorem natDec_cons (n : Nat) : ∃ b t, natDec n = b :: t ∧ 0x30 ≤ b ∧ b ≤ 0x39 := by
  cases h : natDec n with
  | nil => exact absurd h (natDec_ne_nil n)
  | cons b t => exact ⟨b, t, rfl, natDec_digits n b (by simp [h])⟩

/-- What the round trip needs from the text of a float: it starts like a number
and the reader takes it back as the float with that very text. -/
def FloatLit (src : List Nat) : Prop :=
  (∃ b t, src = b :: t ∧ (b = 0x2D ∨ isDigit b = true)) ∧
  ∀ d rest, 0 < d → numEnd rest = true → parseValue d (src ++ rest) = .ok (.float src, rest)

mutual
  /-- Well-formed, with floats whose source text satisfies `P`. -/
  def WF (P : List Nat → Prop) : JVal → Prop
    | .null => True
    | .bool _ => True
    | .int i => -9223372036854775808 ≤ i ∧ i ≤ 18446744073709551615
    | .float src => P src
    | .str cps => allScalars cps = true
    | .arr xs => WFList P xs
    | .obj es => WFEntries P es
  def WFList (P : List Nat → Prop) : List JVal → Prop
    | [] => True
    | x :: xs => WF P x ∧ WFList P xs
  def WFEntries (P : List Nat → Prop) : List (List Nat × JVal) → Prop
    | [] => True
    | (k, v) :: es => (allScalars k = true ∧ WF P v) ∧ WFEntries P es
end

/-- `F` writes the floats in `P` verbatim, and they read back as themselves. -/
def ExtFloat.Fixes (F : ExtFloat) (P : List Nat → Prop) : Prop :=
  ∀ src, P src → F.fmt src = src ∧ FloatLit src

theorem write_headP (F : ExtFloat) (P : List Nat → Prop) (hP : F.Fixes P) (v : JVal) (h : WF P v) :
    ∃ b t, write F v = b :: t ∧ isWs b = false ∧ b ≠ 0x5D ∧ b ≠ 0x7D ∧ b ≠ 0x2C := by
  cases v with
  | null => exact ⟨0x6E, _, rfl, by decide, by decide, by decide, by decide⟩
  | bool b => cases b <;> exact ⟨_, _, rfl, by decide, by decide, by decide, by decide⟩
  | int i =>
    simp only [write, intDec]
    split
    · exact ⟨0x2D, _, rfl, by decide, by decide, by decide, by decide⟩
    · obtain ⟨b, t, hb, h1, h2⟩ := natDec_cons i.natAbs
      refine ⟨b, t, hb, ?_, by omega, by omega, by omega⟩
      simp [isWs]; omega
  | float src =>
    simp only [WF] at h
    obtain ⟨he, ⟨b, t, hb, hd⟩, _⟩ := hP src h
    refine ⟨b, t, by rw [write, he, hb], ?_, ?_, ?_, ?_⟩ <;>
      (rcases hd with hd | hd
       · subst hd; decide
       · simp [isDigit] at hd; first | (simp [isWs]; omega) | omega)
  | str cps => exact ⟨0x22, _, rfl, by decide, by decide, by decide, by decide⟩
  | arr xs => exact ⟨0x5B, _, rfl, by decide, by decide, by decide, by decide⟩
  | obj es => exact ⟨0x7B, _, rfl, by decide, by decide, by decide, by decide⟩

/-- Values whose end is only visible from the next byte. -/
def needsEnd : JVal → Bool
  | .int _ => true
  | .float _ => true
  | _ => false

/-- Integers: the only float-free values whose end is only visible from the
next byte. -/
def isIntVal : JVal → Bool
  | .int _ => true
  | _ => false

/-- What parsing `write F v ++ rest` must give at remaining depth `d`. -/
def expectV (v : JVal) (d : Nat) (rest : List Nat) : Except Err (JVal × List Nat) :=
  if depthOf v < d then .ok (v, rest) else .error .recursionLimit

theorem parse_write_gen (F : ExtFloat) (P : List Nat → Prop) (hP : F.Fixes P) :
    (∀ v, WF P v → ∀ d rest, 0 < d → (needsEnd v = true → numEnd rest = true) →
      parseValue d (write F v ++ rest) = expectV v d rest) ∧
    (∀ first es, WFEntries P es → ∀ d rest, 0 < d →
      parseEntries d first (writeEntries F first es ++ 0x7D :: rest) =
        if depthOfEntries es < d then .ok (es, rest) else .error .recursionLimit) ∧
    (∀ first xs, WFList P xs → ∀ d rest, 0 < d →
      parseElems d first (writeElems F first xs ++ 0x5D :: rest) =
        if depthOfList xs < d then .ok (xs, rest) else .error .recursionLimit) := by
  apply write.mutual_induct
    (motive_1 := fun v => WF P v → ∀ d rest, 0 < d → (needsEnd v = true → numEnd rest = true) →
      parseValue d (write F v ++ rest) = expectV v d rest)
    (motive_2 := fun first es => WFEntries P es → ∀ d rest, 0 < d →
      parseEntries d first (writeEntries F first es ++ 0x7D :: rest) =
        if depthOfEntries es < d then .ok (es, rest) else .error .recursionLimit)
    (motive_3 := fun first xs => WFList P xs → ∀ d rest, 0 < d →
      parseElems d first (writeElems F first xs ++ 0x5D :: rest) =
        if depthOfList xs < d then .ok (xs, rest) else .error .recursionLimit)
  · -- null
    intro _ d rest hd _
    simp [parseValue_eq, write, skipWs, isWs, classify, ident, expectV, depthOf, hd]
  · intro _ d rest hd _
    simp [parseValue_eq, write, skipWs, isWs, classify, ident, expectV, depthOf, hd]
  · intro _ d rest hd _
    simp [parseValue_eq, write, skipWs, isWs, classify, ident, expectV, depthOf, hd]
  · -- int
    intro i hwf d rest hd hrest
    have hrest := hrest rfl
    simp only [WF] at hwf
    simp only [write, intDec, expectV, depthOf, hd, if_true]
    split
    · rename_i hneg
      have hn1 : 0 < i.natAbs := by omega
      have hn2 : i.natAbs ≤ 9223372036854775808 := by omega
      rw [parseValue_eq]
      simp only [List.cons_append, skipWs, show isWs 0x2D = false by decide, Bool.false_eq_true, if_false,
        show classify 0x2D = Tok.minus by decide]
      rw [lexNumber_natDec false _ rest hrest, classifyNum_neg _ hn1 hn2]
      simp only [numVal]
      congr 3; omega
    · rename_i hneg
      have hn2 : i.natAbs ≤ u64Max := by unfold u64Max; omega
      obtain ⟨b, t, hb, h1, h2⟩ := natDec_cons i.natAbs
      have hcl : classify b = Tok.digit := by
        have hdg : isDigit b = true := by simp [isDigit]; omega
        unfold classify
        simp only [hdg, if_true]
        rw [if_neg (show ¬ b = 0x6E by omega), if_neg (show ¬ b = 0x74 by omega),
          if_neg (show ¬ b = 0x66 by omega), if_neg (show ¬ b = 0x2D by omega)]
      have hws : isWs b = false := by simp [isWs]; omega
      rw [parseValue_eq]
      have e1 : natDec i.natAbs ++ rest = b :: (t ++ rest) := by rw [hb]; rfl
      rw [e1]
      simp only [skipWs, hws, Bool.false_eq_true, if_false, hcl]
      rw [← e1, lexNumber_natDec true _ rest hrest, classifyNum_pos _ hn2]
      simp only [numVal]
      congr 3; omega
  · -- float
    intro src hwf d rest hd hrest
    simp only [WF] at hwf
    obtain ⟨he, _, hl⟩ := hP src hwf
    simp only [write, he]
    rw [hl d rest hd (hrest rfl)]
    simp [expectV, depthOf, hd]
  · -- str
    intro cps hwf d rest hd _
    simp only [WF] at hwf
    simp [parseValue_eq, write, writeStr, skipWs, isWs, classify, isDigit, parseStr_writeStr cps rest hwf,
      expectV, depthOf, hd]
  · -- arr
    intro xs ih hwf d rest hd _
    simp only [WF] at hwf
    have e : write F (.arr xs) ++ rest = 0x5B :: (writeElems F true xs ++ 0x5D :: rest) := by
      simp [write]
    rw [e, parseValue_eq]
    simp only [skipWs, show isWs 0x5B = false by decide, Bool.false_eq_true, if_false,
      show classify 0x5B = Tok.lbrack by decide, expectV, depthOf]
    by_cases hd1 : d ≤ 1
    · have : ¬ (depthOfList xs + 1 < d) := by omega
      simp [hd1, this]
    · rw [if_neg hd1, ih hwf (d - 1) rest (by omega)]
      by_cases hlt : depthOfList xs < d - 1
      · have : depthOfList xs + 1 < d := by omega
        simp [hlt, this]
      · have : ¬ (depthOfList xs + 1 < d) := by omega
        simp [hlt, this]
  · -- obj
    intro es ih hwf d rest hd _
    simp only [WF] at hwf
    have e : write F (.obj es) ++ rest = 0x7B :: (writeEntries F true es ++ 0x7D :: rest) := by
      simp [write]
    rw [e, parseValue_eq]
    simp only [skipWs, show isWs 0x7B = false by decide, Bool.false_eq_true, if_false,
      show classify 0x7B = Tok.lbrace by decide, expectV, depthOf]
    by_cases hd1 : d ≤ 1
    · have : ¬ (depthOfEntries es + 1 < d) := by omega
      simp [hd1, this]
    · rw [if_neg hd1, ih hwf (d - 1) rest (by omega)]
      by_cases hlt : depthOfEntries es < d - 1
      · have : depthOfEntries es + 1 < d := by omega
        simp [hlt, this]
      · have : ¬ (depthOfEntries es + 1 < d) := by omega
        simp [hlt, this]
  · -- elems nil
    intro first _ d rest hd
    simp [writeElems, parseElems_eq, skipWs, isWs, depthOfList, hd]
  · -- elems cons
    intro first x xs ih1 ih2 hwf d rest hd
    simp only [WFList] at hwf
    have htail : numEnd (writeElems F false xs ++ 0x5D :: rest) = true := by
      cases xs with
      | nil => simp [writeElems, numEnd, isDigit]
      | cons y ys => simp [writeElems, numEnd, isDigit]
    obtain ⟨b, t, hb, hws, hb1, _, _⟩ := write_headP F P hP x hwf.1
    have hx := ih1 hwf.1 d _ hd (fun _ => htail)
    have hxs := ih2 hwf.2 d rest hd
    rw [hb] at hx
    simp only [List.cons_append] at hx
    have e : writeElems F first (x :: xs) ++ 0x5D :: rest =
        (if first then [] else [0x2C]) ++ (b :: (t ++ (writeElems F false xs ++ 0x5D :: rest))) := by
      simp [writeElems, hb]
    rw [e, parseElems_eq]
    cases first with
    | true =>
      simp only [if_true, List.nil_append, skipWs, hws, Bool.false_eq_true, if_false, hb1, hx, expectV,
        depthOfList]
      by_cases h1 : depthOf x < d
      · simp only [h1, if_true, hxs]
        by_cases h2 : depthOfList xs < d
        · have : max (depthOf x) (depthOfList xs) < d := by omega
          simp [h2, this]
        · have : ¬ (max (depthOf x) (depthOfList xs) < d) := by omega
          simp [h2, this]
      · have : ¬ (max (depthOf x) (depthOfList xs) < d) := by omega
        simp [h1, this]
    | false =>
      simp only [Bool.false_eq_true, if_false, List.cons_append, List.nil_append, skipWs,
        show isWs 0x2C = false by decide, show ¬ (0x2C = 0x5D) by decide, if_true, hws, hb1, hx, expectV,
        depthOfList]
      by_cases h1 : depthOf x < d
      · simp only [h1, if_true, hxs]
        by_cases h2 : depthOfList xs < d
        · have : max (depthOf x) (depthOfList xs) < d := by omega
          simp [h2, this]
        · have : ¬ (max (depthOf x) (depthOfList xs) < d) := by omega
          simp [h2, this]
      · have : ¬ (max (depthOf x) (depthOfList xs) < d) := by omega
        simp [h1, this]
  · -- entries nil
    intro first _ d rest hd
    simp [writeEntries, parseEntries_eq, skipWs, isWs, depthOfEntries, hd]
  · -- entries cons
    intro first k v es ih1 ih2 hwf d rest hd
    simp only [WFEntries] at hwf
    have htail : numEnd (writeEntries F false es ++ 0x7D :: rest) = true := by
      cases es with
      | nil => simp [writeEntries, numEnd, isDigit]
      | cons y ys => obtain ⟨ky, vy⟩ := y; simp [writeEntries, numEnd, isDigit]
    have hv := ih1 hwf.1.2 d _ hd (fun _ => htail)
    have hes := ih2 hwf.2 d rest hd
    have hk := parseStr_writeStr k (0x3A :: (write F v ++ (writeEntries F false es ++ 0x7D :: rest))) hwf.1.1
    have e : writeEntries F first ((k, v) :: es) ++ 0x7D :: rest =
        (if first then [] else [0x2C]) ++ (0x22 :: (k.flatMap writeCp ++ 0x22 :: 0x3A ::
          (write F v ++ (writeEntries F false es ++ 0x7D :: rest)))) := by
      simp [writeEntries, writeStr]
    rw [e, parseEntries_eq]
    cases first with
    | true =>
      simp only [if_true, List.nil_append, skipWs, show isWs 0x22 = false by decide, Bool.false_eq_true,
        if_false, show ¬ (0x22 = 0x7D) by decide, keyStart, hk, show isWs 0x3A = false by decide,
        ne_eq, not_true_eq_false, hv, expectV, depthOfEntries]
      by_cases h1 : depthOf v < d
      · simp only [h1, if_true, hes]
        by_cases h2 : depthOfEntries es < d
        · have : max (depthOf v) (depthOfEntries es) < d := by omega
          simp [h2, this]
        · have : ¬ (max (depthOf v) (depthOfEntries es) < d) := by omega
          simp [h2, this]
      · have : ¬ (max (depthOf v) (depthOfEntries es) < d) := by omega
        simp [h1, this]
    | false =>
      simp only [Bool.false_eq_true, if_false, List.cons_append, List.nil_append, skipWs,
        show isWs 0x2C = false by decide, show ¬ (0x2C = 0x7D) by decide, keyStart, if_true,
        show isWs 0x22 = false by decide, hk, show isWs 0x3A = false by decide,
        ne_eq, not_true_eq_false, hv, expectV, depthOfEntries]
      by_cases h1 : depthOf v < d
      · simp only [h1, if_true, hes]
        by_cases h2 : depthOfEntries es < d
        · have : max (depthOf v) (depthOfEntries es) < d := by omega
          simp [h2, this]
        · have : ¬ (max (depthOf v) (depthOfEntries es) < d) := by omega
          simp [h2, this]
      · have : ¬ (max (depthOf v) (depthOfEntries es) < d) := by omega
        simp [h1, this]

theorem wf_of_wellFormed :
    (∀ v, wellFormed v = true → WF (fun _ => False) v) ∧
    (∀ (_ : Bool) es, wellFormedEntries es = true → WFEntries (fun _ => False) es) ∧
    (∀ (_ : Bool) xs, wellFormedList xs = true → WFList (fun _ => False) xs) := by
  apply write.mutual_induct
    (motive_1 := fun v => wellFormed v = true → WF (fun _ => False) v)
    (motive_2 := fun _ es => wellFormedEntries es = true → WFEntries (fun _ => False) es)
    (motive_3 := fun _ xs => wellFormedList xs = true → WFList (fun _ => False) xs)
  · intro _; trivial
  · intro _; trivial
  · intro _; trivial
  · intro i h; simpa [wellFormed, WF] using h
  · intro src h; simp [wellFormed] at h
  · intro cps h; simpa [wellFormed, WF] using h
  · intro xs ih h; simp only [wellFormed] at h; simp only [WF]; exact ih h
  · intro es ih h; simp only [wellFormed] at h; simp only [WF]; exact ih h
  · intro _ _; trivial
  · intro _ x xs ih1 ih2 h
    simp only [wellFormedList, Bool.and_eq_true] at h
    exact ⟨ih1 h.1, ih2 h.2⟩
  · intro _ _; trivial
  · intro _ k v es ih1 ih2 h
    simp only [wellFormedEntries, Bool.and_eq_true] at h
    exact ⟨⟨h.1.1, ih1 h.1.2⟩, ih2 h.2⟩

theorem fixes_false (F : ExtFloat) : F.Fixes (fun _ => False) := fun _ h => h.elim

theorem write_head (F : ExtFloat) (v : JVal) (h : wellFormed v = true) :
    ∃ b t, write F v = b :: t ∧ isWs b = false ∧ b ≠ 0x5D ∧ b ≠ 0x7D ∧ b ≠ 0x2C :=
  write_headP F _ (fixes_false F) v (wf_of_wellFormed.1 v h)

/-- The float-free instance. -/
theorem parse_write_all (F : ExtFloat) :
    (∀ v, wellFormed v = true → ∀ d rest, 0 < d → (isIntVal v = true → numEnd rest = true) →
      parseValue d (write F v ++ rest) = expectV v d rest) ∧
    (∀ first es, wellFormedEntries es = true → ∀ d rest, 0 < d →
      parseEntries d first (writeEntries F first es ++ 0x7D :: rest) =
        if depthOfEntries es < d then .ok (es, rest) else .error .recursionLimit) ∧
    (∀ first xs, wellFormedList xs = true → ∀ d rest, 0 < d →
      parseElems d first (writeElems F first xs ++ 0x5D :: rest) =
        if depthOfList xs < d then .ok (xs, rest) else .error .recursionLimit) := by
  have g := parse_write_gen F _ (fixes_false F)
  refine ⟨?_, ?_, ?_⟩
  · intro v hwf d rest hd hrest
    refine g.1 v (wf_of_wellFormed.1 v hwf) d rest hd (fun hne => hrest ?_)
    cases v <;> simp_all [needsEnd, isIntVal, wellFormed]
  · intro first es hwf; exact g.2.1 first es (wf_of_wellFormed.2.1 first es hwf)
  · intro first xs hwf; exact g.2.2 first xs (wf_of_wellFormed.2.2 first xs hwf)

/-! ## The UTF-8 well-formedness automaton -/

theorem u8run_append (s : U8) (a b : List Nat) : u8run s (a ++ b) = u8run (u8run s a) b := by
  simp [u8run, List.foldl_append]

theorem u8run_cons (s : U8) (b : Nat) (l : List Nat) : u8run s (b :: l) = u8run (u8step s b) l := rfl

theorem u8run_nil (s : U8) : u8run s [] = s := rfl

theorem u8run_rej (l : List Nat) : u8run .rej l = .rej := by
  induction l with
  | nil => rfl
  | cons b l ih => rw [u8run_cons]; simpa [u8step] using ih

/-- A byte that cannot continue a multi-byte sequence. -/
def nonCont (b : Nat) : Bool := b < 0x80 || 0xC0 ≤ b

theorem u8step_nonCont (s : U8) (b : Nat) (hs : s ≠ .acc) (hb : nonCont b = true) :
    u8step s b = .rej := by
  simp [nonCont] at hb
  cases s <;> simp [u8step, isCont] at hs ⊢ <;> omega

theorem u8run_ascii (l : List Nat) (h : ∀ b ∈ l, b < 0x80) : u8run .acc l = .acc := by
  induction l with
  | nil => rfl
  | cons b l ih =>
    have hb := h b (by simp)
    rw [u8run_cons]
    simp only [u8step, hb, if_true]
    exact ih (fun x hx => h x (by simp [hx]))

theorem u8run_utf8 (c : Nat) (h : isScalar c = true) : u8run .acc (utf8 c) = .acc := by
  simp only [isScalar, Bool.or_eq_true, Bool.and_eq_true, decide_eq_true_eq] at h
  unfold utf8
  split
  · rename_i h1; simp [u8run, u8step, h1]
  · split
    · rename_i h1 h2
      have e1 : u8step .acc (0xC0 + c / 64) = .c1 := by
        simp only [u8step]; rw [if_neg (by omega), if_pos (by omega)]
      have e2 : u8step .c1 (0x80 + c % 64) = .acc := by
        have hc : isCont (0x80 + c % 64) = true := by simp [isCont]; omega
        simp [u8step, hc]
      simp [u8run, e1, e2]
    · split
      · rename_i h1 h2 h3
        have hc : isCont (0x80 + c % 64) = true := by simp [isCont]; omega
        have e3 : u8step .c1 (0x80 + c % 64) = .acc := by simp [u8step, hc]
        by_cases ha : c / 4096 = 0
        · have e1 : u8step .acc (0xE0 + c / 4096) = .e0 := by simp [u8step, ha]
          have e2 : u8step .e0 (0x80 + c / 64 % 64) = .c1 := by
            simp only [u8step]; rw [if_pos (by omega)]
          simp [u8run, e1, e2, e3]
        · by_cases hb : c / 4096 = 13
          · have e1 : u8step .acc (0xE0 + c / 4096) = .ed := by simp [u8step, hb]
            have e2 : u8step .ed (0x80 + c / 64 % 64) = .c1 := by
              simp only [u8step]; rw [if_pos (by omega)]
            simp [u8run, e1, e2, e3]
          · have e1 : u8step .acc (0xE0 + c / 4096) = .c2 := by
              simp only [u8step]
              rw [if_neg (by omega), if_neg (by omega), if_neg (by omega), if_neg (by omega), if_pos (by omega)]
            have e2 : u8step .c2 (0x80 + c / 64 % 64) = .c1 := by
              have hc' : isCont (0x80 + c / 64 % 64) = true := by simp [isCont]; omega
              simp [u8step, hc']
            simp [u8run, e1, e2, e3]
      · rename_i h1 h2 h3
        have hc : isCont (0x80 + c % 64) = true := by simp [isCont]; omega
        have hc2 : isCont (0x80 + c / 64 % 64) = true := by simp [isCont]; omega
        have e4 : u8step .c1 (0x80 + c % 64) = .acc := by simp [u8step, hc]
        have e3 : u8step .c2 (0x80 + c / 64 % 64) = .c1 := by simp [u8step, hc2]
        by_cases ha : c / 262144 = 0
        · have e1 : u8step .acc (0xF0 + c / 262144) = .f0 := by simp [u8step, ha]
          have e2 : u8step .f0 (0x80 + c / 4096 % 64) = .c2 := by
            simp only [u8step]; rw [if_pos (by omega)]
          simp [u8run, e1, e2, e3, e4]
        · by_cases hb : c / 262144 = 4
          · have e1 : u8step .acc (0xF0 + c / 262144) = .f4 := by simp [u8step, hb]
            have e2 : u8step .f4 (0x80 + c / 4096 % 64) = .c2 := by
              simp only [u8step]; rw [if_pos (by omega)]
            simp [u8run, e1, e2, e3, e4]
          · have e1 : u8step .acc (0xF0 + c / 262144) = .c3 := by
              simp only [u8step]
              rw [if_neg (by omega), if_neg (by omega), if_neg (by omega), if_neg (by omega),
                if_neg (by omega), if_neg (by omega), if_neg (by omega), if_pos (by omega)]
            have e2 : u8step .c3 (0x80 + c / 4096 % 64) = .c2 := by
              have hc' : isCont (0x80 + c / 4096 % 64) = true := by simp [isCont]; omega
              simp [u8step, hc']
            simp [u8run, e1, e2, e3, e4]

/-- `a` and `b` well-formed ⇒ `a ++ b` well-formed. -/
theorem u8_append {a b : List Nat} (ha : u8run .acc a = .acc) (hb : u8run .acc b = .acc) :
    u8run .acc (a ++ b) = .acc := by
  rw [u8run_append, ha, hb]

/-- `b` is empty or starts at a character boundary. -/
def startsOk : List Nat → Bool
  | [] => true
  | b :: _ => nonCont b

/-- `a ++ b` well-formed and `b` starts at a character boundary ⇒ both are
well-formed. -/
theorem u8_split {a b : List Nat} (h : u8run .acc (a ++ b) = .acc) (hb : startsOk b = true) :
    u8run .acc a = .acc ∧ u8run .acc b = .acc := by
  rw [u8run_append] at h
  cases b with
  | nil => simp [u8run_nil] at h; exact ⟨h, rfl⟩
  | cons x t =>
    simp only [startsOk] at hb
    by_cases hs : u8run .acc a = .acc
    · rw [hs] at h; exact ⟨hs, h⟩
    · rw [u8run_cons, u8step_nonCont _ _ hs hb, u8run_rej] at h
      cases h


theorem map_some_rest {α β} {f : α → β} {o : Option α} {y : β} (h : o.map f = some y) : ∃ x, o = some x := by
  cases o with
  | none => simp at h
  | some x => exact ⟨x, rfl⟩

theorem utf8Decode_some_valid : ∀ (l cps : List Nat), utf8Decode l = some cps → u8run .acc l = .acc := by
  intro l
  fun_induction utf8Decode l <;> intro cps h
  case case1 => rfl
  case case2 b0 rest h1 ih =>
    obtain ⟨x, hx⟩ := map_some_rest h
    rw [u8run_cons]; simp only [u8step, h1, if_true]; exact ih x hx
  case case3 b0 h1 h2 b1 rest h3 ih =>
    obtain ⟨x, hx⟩ := map_some_rest h
    have e1 : u8step .acc b0 = .c1 := by simp only [u8step]; rw [if_neg h1, if_pos h2]
    have e2 : u8step .c1 b1 = .acc := by simp [u8step, h3]
    rw [u8run_cons, e1, u8run_cons, e2]; exact ih x hx
  case case6 b0 h1 h2 h3 b1 b2 rest h4 ih =>
    obtain ⟨x, hx⟩ := map_some_rest h
    obtain ⟨h4a, h4b, h4c⟩ := h4
    have e3 : u8step .c1 b2 = .acc := by simp [u8step, h4c]
    rw [u8run_cons, u8run_cons, u8run_cons]
    by_cases ha : b0 = 0xE0
    · subst ha
      simp at h4a h4b
      have e1 : u8step .acc 0xE0 = .e0 := by simp [u8step]
      have e2 : u8step .e0 b1 = .c1 := by simp only [u8step]; rw [if_pos (by omega)]
      rw [e1, e2, e3]; exact ih x hx
    · by_cases hb : b0 = 0xED
      · subst hb
        simp at h4a h4b
        have e1 : u8step .acc 0xED = .ed := by simp [u8step]
        have e2 : u8step .ed b1 = .c1 := by simp only [u8step]; rw [if_pos (by omega)]
        rw [e1, e2, e3]; exact ih x hx
      · simp only [ha, hb, if_false] at h4a h4b
        have e1 : u8step .acc b0 = .c2 := by
          simp only [u8step]
          rw [if_neg h1, if_neg h2, if_neg ha, if_neg hb, if_pos (by omega)]
        have hc : isCont b1 = true := by simp [isCont]; omega
        have e2 : u8step .c2 b1 = .c1 := by simp [u8step, hc]
        rw [e1, e2, e3]; exact ih x hx
  case case9 b0 h1 h2 h3 h4 b1 b2 b3 rest h5 ih =>
    obtain ⟨x, hx⟩ := map_some_rest h
    obtain ⟨h5a, h5b, h5c, h5d⟩ := h5
    have e4 : u8step .c1 b3 = .acc := by simp [u8step, h5d]
    have e3 : u8step .c2 b2 = .c1 := by simp [u8step, h5c]
    rw [u8run_cons, u8run_cons, u8run_cons, u8run_cons]
    by_cases ha : b0 = 0xF0
    · subst ha
      simp at h5a h5b
      have e1 : u8step .acc 0xF0 = .f0 := by simp [u8step]
      have e2 : u8step .f0 b1 = .c2 := by simp only [u8step]; rw [if_pos (by omega)]
      rw [e1, e2, e3, e4]; exact ih x hx
    · by_cases hb : b0 = 0xF4
      · subst hb
        simp at h5a h5b
        have e1 : u8step .acc 0xF4 = .f4 := by simp [u8step]
        have e2 : u8step .f4 b1 = .c2 := by simp only [u8step]; rw [if_pos (by omega)]
        rw [e1, e2, e3, e4]; exact ih x hx
      · simp only [ha, hb, if_false] at h5a h5b
        have e1 : u8step .acc b0 = .c3 := by
          simp only [u8step]
          rw [if_neg h1, if_neg h2, if_neg (by omega), if_neg (by omega), if_neg (by omega), if_neg ha, if_neg hb,
            if_pos (by omega)]
        have hc : isCont b1 = true := by simp [isCont]; omega
        have e2 : u8step .c3 b1 = .c2 := by simp [u8step, hc]
        rw [e1, e2, e3, e4]; exact ih x hx
  all_goals simp at h

/-! Writer output is well-formed UTF-8. -/

theorem hexLower_lt (n : Nat) (h : n < 16) : hexLower n < 0x80 := by
  unfold hexLower; split <;> omega

theorem u8run_writeCp (c : Nat) (h : isScalar c = true) : u8run .acc (writeCp c) = .acc := by
  unfold writeCp
  repeat' split
  all_goals first
    | exact u8run_utf8 c h
    | (apply u8run_ascii; intro b hb; simp at hb; omega)
    | skip
  · rename_i hlt
    apply u8run_ascii; intro b hb; simp at hb
    have := hexLower_lt (c / 16) (by omega)
    have := hexLower_lt (c % 16) (by omega)
    omega

theorem u8run_writeStr (cps : List Nat) (h : allScalars cps = true) : u8run .acc (writeStr cps) = .acc := by
  have hbody : u8run .acc (cps.flatMap writeCp) = .acc := by
    induction cps with
    | nil => rfl
    | cons c cps ih =>
      simp only [allScalars, List.all_cons, Bool.and_eq_true] at h
      rw [List.flatMap_cons]
      exact u8_append (u8run_writeCp c h.1) (ih (by simpa [allScalars] using h.2))
  unfold writeStr
  rw [show 0x22 :: cps.flatMap writeCp ++ [0x22] = [0x22] ++ (cps.flatMap writeCp ++ [0x22]) by simp]
  exact u8_append (by decide) (u8_append hbody (by decide))

theorem u8run_intDec (i : Int) : u8run .acc (intDec i) = .acc := by
  apply u8run_ascii
  intro b hb
  unfold intDec at hb
  split at hb
  · simp at hb
    rcases hb with hb | hb
    · omega
    · have := natDec_digits _ _ hb; omega
  · have := natDec_digits _ _ hb; omega

theorem write_valid_all (F : ExtFloat) :
    (∀ v, wellFormed v = true → u8run .acc (write F v) = .acc) ∧
    (∀ first es, wellFormedEntries es = true → u8run .acc (writeEntries F first es) = .acc) ∧
    (∀ first xs, wellFormedList xs = true → u8run .acc (writeElems F first xs) = .acc) := by
  apply write.mutual_induct
    (motive_1 := fun v => wellFormed v = true → u8run .acc (write F v) = .acc)
    (motive_2 := fun first es => wellFormedEntries es = true → u8run .acc (writeEntries F first es) = .acc)
    (motive_3 := fun first xs => wellFormedList xs = true → u8run .acc (writeElems F first xs) = .acc)
  · intro _; simp only [write]; decide
  · intro _; simp only [write]; decide
  · intro _; simp only [write]; decide
  · intro i _; exact u8run_intDec i
  · intro src h; simp [wellFormed] at h
  · intro cps h; exact u8run_writeStr cps (by simpa [wellFormed] using h)
  · intro xs ih h
    simp only [wellFormed] at h
    rw [write, show 0x5B :: writeElems F true xs ++ [0x5D] = [0x5B] ++ (writeElems F true xs ++ [0x5D]) by simp]
    exact u8_append (by decide) (u8_append (ih h) (by decide))
  · intro es ih h
    simp only [wellFormed] at h
    rw [write, show 0x7B :: writeEntries F true es ++ [0x7D] = [0x7B] ++ (writeEntries F true es ++ [0x7D]) by simp]
    exact u8_append (by decide) (u8_append (ih h) (by decide))
  · intro first _; rfl
  · intro first x xs ih1 ih2 h
    simp only [wellFormedList, Bool.and_eq_true] at h
    rw [writeElems]
    refine u8_append (u8_append ?_ (ih1 h.1)) (ih2 h.2)
    cases first <;> decide
  · intro first _; rfl
  · intro first k v es ih1 ih2 h
    simp only [wellFormedEntries, Bool.and_eq_true] at h
    rw [writeEntries]
    rw [show (if first = true then [] else [0x2C]) ++ writeStr k ++ 0x3A :: write F v ++ writeEntries F false es
      = ((if first = true then [] else [0x2C]) ++ writeStr k) ++ ([0x3A] ++ (write F v ++ writeEntries F false es)) by simp]
    refine u8_append (u8_append ?_ (u8run_writeStr k h.1.1)) (u8_append (by decide) (u8_append (ih1 h.1.2) (ih2 h.2)))
    cases first <;> decide


/-! ## The document loops -/

theorem parseValue_length {d : Nat} {bs rest : List Nat} {v : JVal}
    (h : parseValue d bs = .ok (v, rest)) : rest.length < bs.length := by
  unfold parseValue at h
  split at h
  · simp at h
  · rename_i v' r heq
    simp at h; obtain ⟨_, rfl⟩ := h; exact r.property

theorem skipWs_ws_cons (b : Nat) (l : List Nat) (h : isWs b = true) : skipWs (b :: l) = skipWs l := by
  simp [skipWs, h]

theorem skipWs_append (ws l : List Nat) (h : ∀ b ∈ ws, isWs b = true) : skipWs (ws ++ l) = skipWs l := by
  induction ws with
  | nil => rfl
  | cons b ws ih =>
    rw [List.cons_append, skipWs_ws_cons _ _ (h b (by simp))]
    exact ih (fun x hx => h x (by simp [hx]))

/-- Leading whitespace is invisible to the value parser … -/
theorem parseValue_ws (d : Nat) (ws l : List Nat) (h : ∀ b ∈ ws, isWs b = true) :
    parseValue d (ws ++ l) = parseValue d l := by
  rw [parseValue_eq, parseValue_eq, skipWs_append ws l h]

theorem parseElems_ws (d : Nat) (first : Bool) (ws l : List Nat) (h : ∀ b ∈ ws, isWs b = true) :
    parseElems d first (ws ++ l) = parseElems d first l := by
  rw [parseElems_eq, parseElems_eq, skipWs_append ws l h]

theorem parseEntries_ws (d : Nat) (first : Bool) (ws l : List Nat) (h : ∀ b ∈ ws, isWs b = true) :
    parseEntries d first (ws ++ l) = parseEntries d first l := by
  rw [parseEntries_eq, parseEntries_eq, skipWs_append ws l h]

/-- … and to both document loops. -/
theorem readerLoop_ws (ws l : List Nat) (h : ∀ b ∈ ws, isWs b = true) :
    readerLoop (ws ++ l) = readerLoop l := by
  rw [readerLoop_eq, readerLoop_eq l, skipWs_append ws l h]

theorem sliceDocs_ws (ws l : List Nat) (h : ∀ b ∈ ws, isWs b = true) :
    sliceDocs (ws ++ l) = sliceDocs l := by
  rw [sliceDocs_eq, sliceDocs_eq l, skipWs_append ws l h]

theorem endOk_numEnd {l : List Nat} (h : endOk l = true) : numEnd l = true := by
  cases l with
  | nil => rfl
  | cons b t =>
    simp [endOk, isWs] at h
    simp [numEnd, isDigit]
    omega

/-- One written document, then input that `peek_end_of_value` accepts: both
loops take the document (or stop at the depth limit) and go on with the rest. -/
theorem readerLoop_write (F : ExtFloat) (v : JVal) (l : List Nat) (hwf : wellFormed v = true)
    (hl : endOk l = true) :
    readerLoop (write F v ++ l) =
      if depthOf v < depthLimit then (v :: (readerLoop l).1, (readerLoop l).2)
      else ([], .err .recursionLimit) := by
  obtain ⟨b, t, hb, hws, _⟩ := write_head F v hwf
  have hp := (parse_write_all F).1 v hwf depthLimit l (by decide) (fun _ => endOk_numEnd hl)
  rw [readerLoop_eq]
  rw [hb] at hp ⊢
  simp only [List.cons_append] at hp ⊢
  rw [skipWs_cons _ hws]
  by_cases hdp : depthOf v < depthLimit
  · simp only [hp, expectV, hdp, if_true]
  · simp only [hp, expectV, hdp, if_false]

theorem sliceDocs_write (F : ExtFloat) (v : JVal) (l : List Nat) (hwf : wellFormed v = true)
    (hl : endOk l = true) :
    sliceDocs (write F v ++ l) =
      if depthOf v < depthLimit then (v :: (sliceDocs l).1, (sliceDocs l).2)
      else ([], .err .recursionLimit) := by
  obtain ⟨b, t, hb, hws, _⟩ := write_head F v hwf
  have hp := (parse_write_all F).1 v hwf depthLimit l (by decide) (fun _ => endOk_numEnd hl)
  rw [sliceDocs_eq]
  rw [hb] at hp ⊢
  simp only [List.cons_append] at hp ⊢
  rw [skipWs_cons _ hws]
  by_cases hdp : depthOf v < depthLimit
  · simp [hp, expectV, hdp, hl]
  · simp only [hp, expectV, hdp, if_false]

/-- Every document is float-free, well-formed and within the depth limit. -/
def docsOk (docs : List JVal) : Prop := ∀ d ∈ docs, wellFormed d = true ∧ depthOf d < depthLimit

theorem readerLoop_writeDocs (F : ExtFloat) (docs : List JVal) (h : docsOk docs) :
    readerLoop (writeDocs F docs) = (docs, .ok) := by
  induction docs with
  | nil => rw [readerLoop_eq]; simp [writeDocs, skipWs]
  | cons d ds ih =>
    have hd := h d (by simp)
    have hnl : readerLoop (0x0A :: writeDocs F ds) = readerLoop (writeDocs F ds) :=
      readerLoop_ws [0x0A] _ (by simp [isWs])
    rw [writeDocs, readerLoop_write F d _ hd.1 (by simp [endOk, isWs]), if_pos hd.2, hnl,
      ih (fun x hx => h x (by simp [hx]))]

theorem sliceDocs_writeDocs (F : ExtFloat) (docs : List JVal) (h : docsOk docs) :
    sliceDocs (writeDocs F docs) = (docs, .ok) := by
  induction docs with
  | nil => rw [sliceDocs_eq]; simp [writeDocs, skipWs]
  | cons d ds ih =>
    have hd := h d (by simp)
    have hnl : sliceDocs (0x0A :: writeDocs F ds) = sliceDocs (writeDocs F ds) :=
      sliceDocs_ws [0x0A] _ (by simp [isWs])
    rw [writeDocs, sliceDocs_write F d _ hd.1 (by simp [endOk, isWs]), if_pos hd.2, hnl,
      ih (fun x hx => h x (by simp [hx]))]

theorem writeDocs_valid (F : ExtFloat) (docs : List JVal) (h : ∀ d ∈ docs, wellFormed d = true) :
    u8run .acc (writeDocs F docs) = .acc := by
  induction docs with
  | nil => rfl
  | cons d ds ih =>
    rw [writeDocs, show write F d ++ 0x0A :: writeDocs F ds = write F d ++ ([0x0A] ++ writeDocs F ds) by simp]
    exact u8_append ((write_valid_all F).1 d (h d (by simp)))
      (u8_append (by decide) (ih (fun x hx => h x (by simp [hx]))))

theorem sliceLoop_writeDocs (F : ExtFloat) (docs : List JVal) (h : docsOk docs) :
    sliceLoop (writeDocs F docs) = (docs, .ok) := by
  unfold sliceLoop validUtf8
  rw [writeDocs_valid F docs (fun d hd => (h d hd).1)]
  simp [sliceDocs_writeDocs F docs h]

/-! ## Slice loop vs reader loop -/

theorem slice_reader_aux : ∀ (n : Nat) (bs : List Nat), bs.length ≤ n →
    ((sliceDocs bs).1 <+: (readerLoop bs).1) ∧
    (hasUnseparatedScalar bs = false → sliceDocs bs = readerLoop bs) := by
  intro n
  induction n with
  | zero =>
    intro bs hlen
    have : bs = [] := by cases bs <;> simp_all
    subst this
    rw [sliceDocs_eq, readerLoop_eq]; simp [skipWs]
  | succ n ih =>
    intro bs hlen
    rw [sliceDocs_eq, readerLoop_eq, hasUnseparatedScalar_eq]
    have hsk := skipWs_length_le bs
    cases hs : skipWs bs with
    | nil => simp
    | cons b r =>
      simp only []
      cases hp : parseValue depthLimit (b :: r) with
      | error e => simp
      | ok p =>
        obtain ⟨v, rest⟩ := p
        have hl := parseValue_length hp
        rw [hs] at hsk
        have hrest : rest.length ≤ n := by simp at hl hsk; omega
        obtain ⟨ih1, ih2⟩ := ih rest hrest
        simp only []
        by_cases hc : (isSelfDelim b || endOk rest) = true
        · simp only [hc, if_true]
          refine ⟨?_, ?_⟩
          · obtain ⟨t, ht⟩ := ih1
            exact ⟨t, by simp [← ht]⟩
          · intro hu
            simp only [Bool.or_eq_false_iff] at hu
            rw [ih2 hu.2]
        · simp only [hc]
          refine ⟨by simp, ?_⟩
          intro hu
          simp only [Bool.or_eq_false_iff, Bool.and_eq_false_iff, Bool.not_eq_false'] at hu
          simp only [Bool.or_eq_true, not_or, Bool.not_eq_true] at hc
          rcases hu.1 with h1 | h1
          · rw [h1] at hc; simp at hc
          · rw [h1] at hc; simp at hc


/-! ## What a successful parse consumed is well-formed UTF-8 -/

/-- `bs` is `rest` preceded by a well-formed UTF-8 prefix. -/
def Consumes (bs rest : List Nat) : Prop := ∃ pre, bs = pre ++ rest ∧ u8run .acc pre = .acc

theorem Consumes.refl (bs : List Nat) : Consumes bs bs := ⟨[], rfl, rfl⟩

theorem Consumes.trans {a b c : List Nat} (h1 : Consumes a b) (h2 : Consumes b c) : Consumes a c := by
  obtain ⟨p1, rfl, v1⟩ := h1
  obtain ⟨p2, rfl, v2⟩ := h2
  exact ⟨p1 ++ p2, by simp, u8_append v1 v2⟩

theorem Consumes.ascii {pre rest : List Nat} (h : ∀ b ∈ pre, b < 0x80) : Consumes (pre ++ rest) rest :=
  ⟨pre, rfl, u8run_ascii pre h⟩

theorem Consumes.cons {b : Nat} {rest : List Nat} (h : b < 0x80) : Consumes (b :: rest) rest :=
  Consumes.ascii (pre := [b]) (by simpa using h)

theorem isWs_lt {b : Nat} (h : isWs b = true) : b < 0x80 := by
  simp [isWs] at h; omega

theorem skipWs_consumes (bs : List Nat) : Consumes bs (skipWs bs) := by
  induction bs with
  | nil => exact Consumes.refl _
  | cons b bs ih =>
    unfold skipWs
    split
    · rename_i h; exact (Consumes.cons (isWs_lt h)).trans ih
    · exact Consumes.refl _

theorem ident_consumes {es bs rest : List Nat} (hes : ∀ e ∈ es, e < 0x80) (h : ident es bs = .ok rest) :
    Consumes bs rest := by
  induction es generalizing bs with
  | nil => simp [ident] at h; subst h; exact Consumes.refl _
  | cons e es ih =>
    cases bs with
    | nil => simp [ident] at h
    | cons b bs =>
      simp only [ident] at h
      split at h
      · rename_i hb
        have : b < 0x80 := by rw [hb]; exact hes e (by simp)
        exact (Consumes.cons this).trans (ih (fun x hx => hes x (by simp [hx])) h)
      · simp at h

theorem isDigit_lt {b : Nat} (h : isDigit b = true) : b < 0x80 := by
  simp [isDigit] at h; omega

theorem takeDigits_consumes (bs : List Nat) : Consumes bs (takeDigits bs).2 := by
  induction bs with
  | nil => exact Consumes.refl _
  | cons b bs ih =>
    unfold takeDigits
    split
    · rename_i h; exact (Consumes.cons (isDigit_lt h)).trans ih
    · exact Consumes.refl _

theorem lexInt_consumes {bs ip r : List Nat} (h : lexInt bs = .ok (ip, r)) : Consumes bs r := by
  unfold lexInt at h
  split at h
  · simp at h
  · rename_i b rest
    split at h
    · rename_i hb
      have hb' : b < 0x80 := by omega
      split at h
      · simp at h; obtain ⟨_, rfl⟩ := h; exact Consumes.cons hb'
      · split at h <;> simp at h
        obtain ⟨_, rfl⟩ := h; exact Consumes.cons hb'
    · split at h
      · simp only [Except.ok.injEq] at h
        have := takeDigits_consumes (b :: rest)
        rw [h] at this; exact this
      · simp at h

theorem lexFrac_consumes {bs r : List Nat} {fp : Option (List Nat)} (h : lexFrac bs = .ok (fp, r)) :
    Consumes bs r := by
  unfold lexFrac at h
  split at h
  · simp at h; obtain ⟨_, rfl⟩ := h; exact Consumes.refl _
  · rename_i b r0
    split at h
    · rename_i hb
      have := takeDigits_consumes r0
      split at h
      · simp at h
      · simp at h
      · rename_i d ds r2 heq
        simp at h; obtain ⟨_, rfl⟩ := h
        rw [heq] at this
        exact (Consumes.cons (by omega)).trans this
    · simp at h; obtain ⟨_, rfl⟩ := h; exact Consumes.refl _

theorem expSign_consumes (r : List Nat) : Consumes r (expSign r).2 := by
  unfold expSign
  split
  · exact Consumes.refl _
  · split
    · rename_i h; exact Consumes.cons (by omega)
    · exact Consumes.refl _

theorem lexExp_consumes {bs r : List Nat} {ex : Option (List Nat × Bool × List Nat)}
    (h : lexExp bs = .ok (ex, r)) : Consumes bs r := by
  unfold lexExp at h
  split at h
  · simp at h; obtain ⟨_, rfl⟩ := h; exact Consumes.refl _
  · rename_i e r0
    split at h
    · rename_i he
      have hs := expSign_consumes r0
      split at h
      · simp at h
      · rename_i c r3 heq
        split at h
        · simp at h; obtain ⟨_, rfl⟩ := h
          rw [heq] at hs
          exact ((Consumes.cons (by omega)).trans hs).trans (takeDigits_consumes _)
        · simp at h
    · simp at h; obtain ⟨_, rfl⟩ := h; exact Consumes.refl _

theorem lexNumber_consumes {p : Bool} {bs : List Nat} {n : Num} {src rest : List Nat}
    (h : lexNumber p bs = .ok (n, src, rest)) : Consumes bs rest := by
  unfold lexNumber at h
  split at h
  · simp at h
  · rename_i ip r1 h1
    split at h
    · simp at h
    · rename_i fp r2 h2
      split at h
      · simp at h
      · rename_i ex r3 h3
        split at h
        · simp at h
        · simp at h; obtain ⟨_, _, rfl⟩ := h
          exact ((lexInt_consumes h1).trans (lexFrac_consumes h2)).trans (lexExp_consumes h3)

theorem hexVal_lt {b n : Nat} (h : hexVal b = some n) : b < 0x80 ∧ n < 16 := by
  unfold hexVal at h
  split at h
  · simp at h; omega
  · split at h
    · simp at h; omega
    · split at h
      · simp at h; omega
      · simp at h

theorem hexEscape_consumes {bs rest : List Nat} {n : Nat} (h : hexEscape bs = .ok (n, rest)) :
    Consumes bs rest ∧ n < 65536 := by
  unfold hexEscape at h
  split at h
  · rename_i a b c d r
    unfold hex4 at h
    split at h
    · rename_i n' hn
      split at hn
      · rename_i x y z w ha hb hc hd
        simp at hn h
        obtain ⟨rfl, rfl⟩ := h
        have := hexVal_lt ha; have := hexVal_lt hb; have := hexVal_lt hc; have := hexVal_lt hd
        refine ⟨Consumes.ascii (pre := [a, b, c, d]) (by simp; omega), by omega⟩
      · simp at hn
    · simp at h
  · simp at h

theorem unicodeEscape_spec {bs out rest : List Nat} (h : unicodeEscape bs = .ok (out, rest)) :
    Consumes bs rest ∧ ∃ c, isScalar c = true ∧ out = utf8 c := by
  unfold unicodeEscape at h
  split at h
  · simp at h
  · rename_i n r0 h0
    obtain ⟨hc0, hn⟩ := hexEscape_consumes h0
    split at h
    · simp at h
    · rename_i hns
      split at h
      · rename_i hb
        simp at h; obtain ⟨rfl, rfl⟩ := h
        exact ⟨hc0, n, by simp [isScalar]; omega, rfl⟩
      · rename_i hb
        split at h
        · simp at h
        · rename_i c1 rest1
          split at h
          · simp at h
          · rename_i hc1
            split at h
            · simp at h
            · rename_i c2 rest2
              split at h
              · simp at h
              · rename_i hc2
                split at h
                · simp at h
                · rename_i n2 r3 h3
                  obtain ⟨hc3, hn2⟩ := hexEscape_consumes h3
                  split at h
                  · simp at h
                  · rename_i hn2r
                    simp at h; obtain ⟨rfl, rfl⟩ := h
                    simp at hc1 hc2
                    refine ⟨?_, _, ?_, rfl⟩
                    · exact hc0.trans ((Consumes.cons (by omega)).trans ((Consumes.cons (by omega)).trans hc3))
                    · simp [isScalar]; omega

theorem escape_spec {bs out rest : List Nat} (h : escape bs = .ok (out, rest)) :
    Consumes bs rest ∧ ∃ c, isScalar c = true ∧ out = utf8 c := by
  unfold escape at h
  split at h
  · simp at h
  · rename_i e r
    by_cases h0 : e = 34
    · subst h0; simp at h; obtain ⟨rfl, rfl⟩ := h
      exact ⟨Consumes.cons (by decide), 34, by decide, by simp [utf8]⟩
    by_cases h1 : e = 92
    · subst h1; simp at h; obtain ⟨rfl, rfl⟩ := h
      exact ⟨Consumes.cons (by decide), 92, by decide, by simp [utf8]⟩
    by_cases h2 : e = 47
    · subst h2; simp at h; obtain ⟨rfl, rfl⟩ := h
      exact ⟨Consumes.cons (by decide), 47, by decide, by simp [utf8]⟩
    by_cases h3 : e = 98
    · subst h3; simp at h; obtain ⟨rfl, rfl⟩ := h
      exact ⟨Consumes.cons (by decide), 8, by decide, by simp [utf8]⟩
    by_cases h4 : e = 102
    · subst h4; simp at h; obtain ⟨rfl, rfl⟩ := h
      exact ⟨Consumes.cons (by decide), 12, by decide, by simp [utf8]⟩
    by_cases h5 : e = 110
    · subst h5; simp at h; obtain ⟨rfl, rfl⟩ := h
      exact ⟨Consumes.cons (by decide), 10, by decide, by simp [utf8]⟩
    by_cases h6 : e = 114
    · subst h6; simp at h; obtain ⟨rfl, rfl⟩ := h
      exact ⟨Consumes.cons (by decide), 13, by decide, by simp [utf8]⟩
    by_cases h7 : e = 116
    · subst h7; simp at h; obtain ⟨rfl, rfl⟩ := h
      exact ⟨Consumes.cons (by decide), 9, by decide, by simp [utf8]⟩
    by_cases hu : e = 0x75
    · subst hu; simp at h
      obtain ⟨hc, hs⟩ := unicodeEscape_spec h
      exact ⟨(Consumes.cons (by decide)).trans hc, hs⟩
    · simp [h0, h1, h2, h3, h4, h5, h6, h7, hu] at h

theorem utf8_startsOk (c : Nat) (tail : List Nat) : startsOk (utf8 c ++ tail) = true := by
  unfold utf8
  split
  · simp [startsOk, nonCont]; omega
  · split
    · simp [startsOk, nonCont]
    · split <;> (simp [startsOk, nonCont]; omega)

theorem strBody_spec : ∀ (bs scratch rest : List Nat), strBody bs = .ok (scratch, rest) →
    ∃ pre, bs = pre ++ rest ∧
      ∀ p, u8run .acc (p ++ scratch) = .acc → u8run .acc (p ++ pre) = .acc := by
  intro bs
  fun_induction strBody bs <;> intro scratch rest h
  case case2 r0 =>
    simp at h; obtain ⟨rfl, rfl⟩ := h
    exact ⟨[0x22], rfl, fun p hp => by simp at hp; exact u8_append hp (by decide)⟩
  case case4 rest0 out r hesc s r' hx _ hlt ih =>
    simp at h; obtain ⟨rfl, rfl⟩ := h
    obtain ⟨pre', hr, hpre'⟩ := ih s r' hx
    obtain ⟨⟨eb, heb, veb⟩, c, hc, rfl⟩ := escape_spec hesc
    refine ⟨0x5C :: eb ++ pre', by rw [heb, hr]; simp, ?_⟩
    intro p hp
    rw [← List.append_assoc] at hp
    have hp' : u8run .acc (p ++ (utf8 c ++ s)) = .acc := by rw [← List.append_assoc]; exact hp
    obtain ⟨vp, vcs⟩ := u8_split hp' (utf8_startsOk c s)
    have vs : u8run .acc s = .acc := by
      rw [u8run_append, u8run_utf8 c hc] at vcs; exact vcs
    have vpre' := hpre' [] (by simpa using vs)
    simp only [List.nil_append] at vpre'
    rw [show p ++ (0x5C :: eb ++ pre') = p ++ ([0x5C] ++ (eb ++ pre')) by simp]
    exact u8_append vp (u8_append (by decide) (u8_append veb vpre'))
  case case7 b0 rest0 h1 h2 h3 s r' hx ih =>
    simp at h; obtain ⟨rfl, rfl⟩ := h
    obtain ⟨pre', hr, hpre'⟩ := ih s r' hx
    refine ⟨b0 :: pre', by rw [hr]; simp, ?_⟩
    intro p hp
    have := hpre' (p ++ [b0]) (by simpa using hp)
    simpa using this
  all_goals simp at h

theorem parseStr_consumes {bs cps rest : List Nat} (h : parseStr bs = .ok (cps, rest)) :
    Consumes bs rest := by
  unfold parseStr at h
  split at h
  · simp at h
  · rename_i scratch r hs
    split at h
    · simp at h
    · rename_i cps' hd
      simp at h; obtain ⟨_, rfl⟩ := h
      obtain ⟨pre, hpre, hv⟩ := strBody_spec _ _ _ hs
      exact ⟨pre, hpre, by simpa using hv [] (by simpa using utf8Decode_some_valid _ _ hd)⟩

theorem keyStart_consumes {first : Bool} {c : Nat} {r kbs : List Nat} (h : keyStart first c r = .ok kbs) :
    Consumes (c :: r) kbs := by
  unfold keyStart at h
  split at h
  · split at h
    · rename_i hc; simp at h; subst h; exact Consumes.cons (by omega)
    · simp at h
  · split at h
    · rename_i hc
      have hsk := skipWs_consumes r
      split at h
      · simp at h
      · rename_i c2 r2 heq
        split at h
        · rename_i hc2
          simp at h; subst h
          rw [heq] at hsk
          exact (Consumes.cons (by omega)).trans (hsk.trans (Consumes.cons (by omega)))
        · split at h <;> simp at h
    · simp at h

theorem classify_ascii (b : Nat) (h : classify b ≠ .other) : b < 0x80 := by
  unfold classify at h
  repeat' split at h
  all_goals first
    | omega
    | (rename_i hd; simp [isDigit] at hd; omega)
    | simp at h

theorem parse_consumes : ∀ (n : Nat) (bs : List Nat), bs.length ≤ n →
    (∀ d v rest, parseValue d bs = .ok (v, rest) → Consumes bs rest) ∧
    (∀ d first xs rest, parseElems d first bs = .ok (xs, rest) → Consumes bs rest) ∧
    (∀ d first es rest, parseEntries d first bs = .ok (es, rest) → Consumes bs rest) := by
  intro n
  induction n with
  | zero =>
    intro bs hlen
    have : bs = [] := by cases bs <;> simp_all
    subst this
    refine ⟨?_, ?_, ?_⟩
    · intro d v rest h; rw [parseValue_eq] at h; simp [skipWs] at h
    · intro d first xs rest h; rw [parseElems_eq] at h; simp [skipWs] at h
    · intro d first es rest h; rw [parseEntries_eq] at h; simp [skipWs] at h
  | succ n ih =>
    have hval : ∀ (bs : List Nat), bs.length ≤ n + 1 →
        ∀ d v rest, parseValue d bs = .ok (v, rest) → Consumes bs rest := by
      intro bs hlen
      have hsk := skipWs_consumes bs
      have hskl := skipWs_length_le bs
      intro d v rest h
      rw [parseValue_eq] at h
      split at h
      · simp at h
      · rename_i b r hs
        rw [hs] at hsk hskl
        have hrl : r.length ≤ n := by simp at hskl; omega
        refine hsk.trans ?_
        have hb : classify b ≠ .other → b < 0x80 := classify_ascii b
        split at h
        · rename_i hc; have hb := hb (by simp [hc])
          split at h
          · simp at h
          · rename_i r' hi
            simp at h; obtain ⟨_, rfl⟩ := h
            exact (Consumes.cons hb).trans (ident_consumes (by simp) hi)
        · rename_i hc; have hb := hb (by simp [hc])
          split at h
          · simp at h
          · rename_i r' hi
            simp at h; obtain ⟨_, rfl⟩ := h
            exact (Consumes.cons hb).trans (ident_consumes (by simp) hi)
        · rename_i hc; have hb := hb (by simp [hc])
          split at h
          · simp at h
          · rename_i r' hi
            simp at h; obtain ⟨_, rfl⟩ := h
            exact (Consumes.cons hb).trans (ident_consumes (by simp) hi)
        · rename_i hc; have hb := hb (by simp [hc])
          split at h
          · simp at h
          · rename_i nn src r' hn
            simp at h; obtain ⟨_, rfl⟩ := h
            exact (Consumes.cons hb).trans (lexNumber_consumes hn)
        · split at h
          · simp at h
          · rename_i nn src r' hn
            simp at h; obtain ⟨_, rfl⟩ := h
            exact lexNumber_consumes hn
        · rename_i hc; have hb := hb (by simp [hc])
          split at h
          · simp at h
          · rename_i cps r' hp
            simp at h; obtain ⟨_, rfl⟩ := h
            exact (Consumes.cons hb).trans (parseStr_consumes hp)
        · rename_i hc; have hb := hb (by simp [hc])
          split at h
          · simp at h
          · split at h
            · simp at h
            · rename_i xs r' hp
              simp at h; obtain ⟨_, rfl⟩ := h
              exact (Consumes.cons hb).trans ((ih r hrl).2.1 _ _ _ _ hp)
        · rename_i hc; have hb := hb (by simp [hc])
          split at h
          · simp at h
          · split at h
            · simp at h
            · rename_i es r' hp
              simp at h; obtain ⟨_, rfl⟩ := h
              exact (Consumes.cons hb).trans ((ih r hrl).2.2 _ _ _ _ hp)
        · simp at h

    intro bs hlen
    have hsk := skipWs_consumes bs
    have hskl := skipWs_length_le bs
    refine ⟨hval bs hlen, ?_, ?_⟩
    · -- elements
      intro d first xs rest h
      rw [parseElems_eq] at h
      split at h
      · simp at h
      · rename_i c r hs
        rw [hs] at hsk hskl
        have hrl : r.length ≤ n := by simp at hskl; omega
        refine hsk.trans ?_
        split at h
        · rename_i hc
          simp at h; obtain ⟨_, rfl⟩ := h
          exact Consumes.cons (by omega)
        · split at h
          · -- first element: the value parser runs on `c :: r` itself
            split at h
            · simp at h
            · rename_i v r1 hv
              split at h
              · simp at h
              · rename_i vs r2 hvs
                simp at h; obtain ⟨_, rfl⟩ := h
                have hcr : (c :: r).length ≤ n + 1 := by omega
                have h1 := hval _ hcr _ _ _ hv
                have hl1 := parseValue_length hv
                have h2 := (ih r1 (by omega)).2.1 _ _ _ _ hvs
                exact h1.trans h2
          · split at h
            · rename_i hc
              have hsk2 := skipWs_consumes r
              have hskl2 := skipWs_length_le r
              split at h
              · simp at h
              · rename_i c2 r2 hs2
                rw [hs2] at hsk2 hskl2
                split at h
                · simp at h
                · split at h
                  · simp at h
                  · rename_i v r3 hv
                    split at h
                    · simp at h
                    · rename_i vs r4 hvs
                      simp at h; obtain ⟨_, rfl⟩ := h
                      have h1 := hval (c2 :: r2) (by simp at hskl2 ⊢; omega) _ _ _ hv
                      have hl1 := parseValue_length hv
                      have h2 := (ih r3 (by simp at hskl2 hl1; omega)).2.1 _ _ _ _ hvs
                      exact (Consumes.cons (by omega)).trans (hsk2.trans (h1.trans h2))
            · simp at h
    · -- entries
      intro d first es rest h
      rw [parseEntries_eq] at h
      split at h
      · simp at h
      · rename_i c r hs
        rw [hs] at hsk hskl
        have hrl : r.length ≤ n := by simp at hskl; omega
        refine hsk.trans ?_
        split at h
        · rename_i hc
          simp at h; obtain ⟨_, rfl⟩ := h
          exact Consumes.cons (by omega)
        · split at h
          · simp at h
          · rename_i kbs hk
            have hkc := keyStart_consumes hk
            split at h
            · simp at h
            · rename_i k r3 hps
              have hsc := parseStr_consumes hps
              have hsl := parseStr_length hps
              have hsk4 := skipWs_consumes r3
              have hskl4 := skipWs_length_le r3
              split at h
              · simp at h
              · rename_i c4 r4 hs4
                rw [hs4] at hsk4 hskl4
                split at h
                · simp at h
                · rename_i hc4
                  simp at hc4
                  split at h
                  · simp at h
                  · rename_i v r5 hv
                    split at h
                    · simp at h
                    · rename_i es' r6 hes
                      simp at h; obtain ⟨_, rfl⟩ := h
                      have hkl : kbs.length ≤ (c :: r).length := by
                        obtain ⟨pk, hpk, _⟩ := hkc; rw [hpk]; simp
                      have hr4 : r4.length ≤ n := by simp at hskl4 hkl hskl; omega
                      have h1 := (ih r4 hr4).1 _ _ _ hv
                      have hl1 := parseValue_length hv
                      have h2 := (ih r5 (by omega)).2.2 _ _ _ _ hes
                      exact hkc.trans
                        (hsc.trans (hsk4.trans ((Consumes.cons (by omega)).trans (h1.trans h2))))


theorem Consumes.valid {bs rest : List Nat} (h : Consumes bs rest) (hr : u8run .acc rest = .acc) :
    u8run .acc bs = .acc := by
  obtain ⟨pre, rfl, hp⟩ := h
  exact u8_append hp hr

/-- A reader run that ends well has read well-formed UTF-8: bytes outside
strings are ASCII, and each string passed serde_json's own check. -/
theorem readerLoop_ok_valid : ∀ (n : Nat) (bs : List Nat), bs.length ≤ n →
    (readerLoop bs).2 = .ok → u8run .acc bs = .acc := by
  intro n
  induction n with
  | zero =>
    intro bs hlen _
    have : bs = [] := by cases bs <;> simp_all
    subst this; rfl
  | succ n ih =>
    intro bs hlen h
    rw [readerLoop_eq] at h
    have hsk := skipWs_consumes bs
    have hskl := skipWs_length_le bs
    split at h
    · rename_i hs; rw [hs] at hsk; exact hsk.valid rfl
    · rename_i b r hs
      rw [hs] at hsk hskl
      split at h
      · simp at h
      · rename_i v rest hp
        simp only at h
        have hl := parseValue_length hp
        have hc := (parse_consumes _ _ (Nat.le_refl _)).1 _ _ _ hp
        have hv := ih rest (by simp at hl hskl; omega) h
        exact (hsk.trans hc).valid hv


/-! ## Spellings -/

/-- A hex digit in either letter case. -/
def hexD (upper : Bool) (n : Nat) : Nat :=
  if n < 10 then 0x30 + n else if upper then 0x37 + n else 0x57 + n

theorem hexVal_hexD (u : Bool) (n : Nat) (h : n < 16) : hexVal (hexD u n) = some n := by
  unfold hexD hexVal
  split
  · rw [if_pos (by omega)]; congr 1; omega
  · cases u
    · simp only [Bool.false_eq_true, if_false]
      rw [if_neg (by omega), if_neg (by omega), if_pos (by omega)]; congr 1; omega
    · simp only [if_true]
      rw [if_neg (by omega), if_pos (by omega)]; congr 1; omega

/-- `\uXXXX` for a 16-bit unit, each digit in a letter case of its own. -/
def uEsc (u3 u2 u1 u0 : Bool) (n : Nat) : List Nat :=
  [0x5C, 0x75, hexD u3 (n / 4096 % 16), hexD u2 (n / 256 % 16), hexD u1 (n / 16 % 16), hexD u0 (n % 16)]

theorem hexEscape_uEsc (u3 u2 u1 u0 : Bool) (n : Nat) (h : n < 65536) (tail : List Nat) :
    hexEscape (hexD u3 (n / 4096 % 16) :: hexD u2 (n / 256 % 16) :: hexD u1 (n / 16 % 16) ::
      hexD u0 (n % 16) :: tail) = .ok (n, tail) := by
  simp only [hexEscape, hex4, hexVal_hexD _ _ (show n / 4096 % 16 < 16 by omega),
    hexVal_hexD _ _ (show n / 256 % 16 < 16 by omega), hexVal_hexD _ _ (show n / 16 % 16 < 16 by omega),
    hexVal_hexD _ _ (show n % 16 < 16 by omega)]
  have : ((n / 4096 % 16 * 16 + n / 256 % 16) * 16 + n / 16 % 16) * 16 + n % 16 = n := by omega
  rw [this]

/-- `\uXXXX` of a BMP scalar, in any letter case, denotes that scalar. -/
theorem strBody_uEsc_bmp (u3 u2 u1 u0 : Bool) (c : Nat) (hc : isScalar c = true) (h : c < 0x10000)
    (tail : List Nat) :
    strBody (uEsc u3 u2 u1 u0 c ++ tail) = pre (utf8 c) (strBody tail) := by
  simp only [isScalar, Bool.or_eq_true, Bool.and_eq_true, decide_eq_true_eq] at hc
  have key : escape (0x75 :: hexD u3 (c / 4096 % 16) :: hexD u2 (c / 256 % 16) :: hexD u1 (c / 16 % 16) ::
      hexD u0 (c % 16) :: tail) = .ok (utf8 c, tail) := by
    simp only [escape, unicodeEscape, hexEscape_uEsc u3 u2 u1 u0 c h tail]
    simp
    rw [if_neg (by omega), if_pos (by omega)]
  simp only [uEsc, List.cons_append, List.nil_append]
  exact strBody_esc _ _ _ key

theorem unicodeEscape_pair (u3 u2 u1 u0 w3 w2 w1 w0 : Bool) (n1 n2 : Nat)
    (h1 : 0xD800 ≤ n1 ∧ n1 ≤ 0xDBFF) (h2 : 0xDC00 ≤ n2 ∧ n2 ≤ 0xDFFF) (tail : List Nat) :
    unicodeEscape (hexD u3 (n1 / 4096 % 16) :: hexD u2 (n1 / 256 % 16) :: hexD u1 (n1 / 16 % 16) ::
      hexD u0 (n1 % 16) :: 0x5C :: 0x75 :: hexD w3 (n2 / 4096 % 16) :: hexD w2 (n2 / 256 % 16) ::
      hexD w1 (n2 / 16 % 16) :: hexD w0 (n2 % 16) :: tail) =
      .ok (utf8 (0x10000 + ((n1 - 0xD800) * 1024 + (n2 - 0xDC00))), tail) := by
  unfold unicodeEscape
  rw [hexEscape_uEsc u3 u2 u1 u0 n1 (by omega)]
  simp only [ne_eq, not_true_eq_false, if_false, hexEscape_uEsc w3 w2 w1 w0 n2 (by omega)]
  rw [if_neg (by omega), if_neg (by omega), if_neg (by omega)]

/-- A surrogate pair `\uD8xx\uDCxx`, in any letter case, denotes the astral
scalar it encodes. -/
theorem strBody_uEsc_pair (u3 u2 u1 u0 w3 w2 w1 w0 : Bool) (n1 n2 : Nat)
    (h1 : 0xD800 ≤ n1 ∧ n1 ≤ 0xDBFF) (h2 : 0xDC00 ≤ n2 ∧ n2 ≤ 0xDFFF) (tail : List Nat) :
    strBody (uEsc u3 u2 u1 u0 n1 ++ (uEsc w3 w2 w1 w0 n2 ++ tail)) =
      pre (utf8 (0x10000 + ((n1 - 0xD800) * 1024 + (n2 - 0xDC00)))) (strBody tail) := by
  have key := unicodeEscape_pair u3 u2 u1 u0 w3 w2 w1 w0 n1 n2 h1 h2 tail
  simp only [uEsc, List.cons_append, List.nil_append]
  apply strBody_esc
  rw [← key]; simp [escape]

/-- The UTF-16 units of an astral scalar recombine to it. -/
theorem surrogates_recombine (c : Nat) (h1 : 0x10000 ≤ c) (h2 : c < 0x110000) :
    0x10000 + ((0xD800 + (c - 0x10000) / 1024 - 0xD800) * 1024 + (0xDC00 + (c - 0x10000) % 1024 - 0xDC00)) = c ∧
    (0xD800 ≤ 0xD800 + (c - 0x10000) / 1024 ∧ 0xD800 + (c - 0x10000) / 1024 ≤ 0xDBFF) ∧
    (0xDC00 ≤ 0xDC00 + (c - 0x10000) % 1024 ∧ 0xDC00 + (c - 0x10000) % 1024 ≤ 0xDFFF) := by
  omega

/-- A character that needs no escape, written raw, denotes itself. -/
theorem strBody_rawCp (c : Nat) (h1 : 0x20 ≤ c) (h2 : c ≠ 0x22) (h3 : c ≠ 0x5C) (tail : List Nat) :
    strBody (utf8 c ++ tail) = pre (utf8 c) (strBody tail) := by
  apply strBody_raw
  intro b hb
  by_cases hlt : c < 0x80
  · simp [utf8, hlt] at hb; subst hb; omega
  · have := utf8_ge c (by omega) b hb; omega

/-- `\/` denotes `/`. -/
theorem strBody_solidus (tail : List Nat) :
    strBody (0x5C :: 0x2F :: tail) = pre [0x2F] (strBody tail) :=
  strBody_esc _ _ _ (by simp [escape])

theorem write_floatfree_indep (F G : ExtFloat) :
    (∀ v, hasFloat v = false → write F v = write G v) ∧
    (∀ first es, hasFloatEntries es = false → writeEntries F first es = writeEntries G first es) ∧
    (∀ first xs, hasFloatList xs = false → writeElems F first xs = writeElems G first xs) := by
  apply write.mutual_induct
    (motive_1 := fun v => hasFloat v = false → write F v = write G v)
    (motive_2 := fun first es => hasFloatEntries es = false → writeEntries F first es = writeEntries G first es)
    (motive_3 := fun first xs => hasFloatList xs = false → writeElems F first xs = writeElems G first xs)
  · intro _; rfl
  · intro _; rfl
  · intro _; rfl
  · intro i _; rfl
  · intro src h; simp [hasFloat] at h
  · intro cps _; rfl
  · intro xs ih h; simp only [hasFloat] at h; simp [write, ih h]
  · intro es ih h; simp only [hasFloat] at h; simp [write, ih h]
  · intro first _; rfl
  · intro first x xs ih1 ih2 h
    simp only [hasFloatList, Bool.or_eq_false_iff] at h
    simp [writeElems, ih1 h.1, ih2 h.2]
  · intro first _; rfl
  · intro first k v es ih1 ih2 h
    simp only [hasFloatEntries, Bool.or_eq_false_iff] at h
    simp [writeEntries, ih1 h.1, ih2 h.2]

theorem wellFormed_floatfree :
    (∀ v, wellFormed v = true → hasFloat v = false) ∧
    (∀ (_ : Bool) es, wellFormedEntries es = true → hasFloatEntries es = false) ∧
    (∀ (_ : Bool) xs, wellFormedList xs = true → hasFloatList xs = false) := by
  apply write.mutual_induct
    (motive_1 := fun v => wellFormed v = true → hasFloat v = false)
    (motive_2 := fun _ es => wellFormedEntries es = true → hasFloatEntries es = false)
    (motive_3 := fun _ xs => wellFormedList xs = true → hasFloatList xs = false)
  · intro _; rfl
  · intro _; rfl
  · intro _; rfl
  · intro i _; rfl
  · intro src h; simp [wellFormed] at h
  · intro cps _; rfl
  · intro xs ih h; simp only [wellFormed] at h; simp [hasFloat, ih h]
  · intro es ih h; simp only [wellFormed] at h; simp [hasFloat, ih h]
  · intro _ _; rfl
  · intro _ x xs ih1 ih2 h
    simp only [wellFormedList, Bool.and_eq_true] at h
    simp [hasFloatList, ih1 h.1, ih2 h.2]
  · intro _ _; rfl
  · intro _ k v es ih1 ih2 h
    simp only [wellFormedEntries, Bool.and_eq_true] at h
    simp [hasFloatEntries, ih1 h.1.2, ih2 h.2]


/-! ## Floats: what the float-inclusive statements need from `ExtFloat` -/

mutual
  /-- Every float replaced by what `F` writes for it. -/
  def normF (F : ExtFloat) : JVal → JVal
    | .float src => .float (F.fmt src)
    | .arr xs => .arr (normFList F xs)
    | .obj es => .obj (normFEntries F es)
    | v => v
  def normFList (F : ExtFloat) : List JVal → List JVal
    | [] => []
    | x :: xs => normF F x :: normFList F xs
  def normFEntries (F : ExtFloat) : List (List Nat × JVal) → List (List Nat × JVal)
    | [] => []
    | (k, v) :: es => (k, normF F v) :: normFEntries F es
end

/-- `F`'s output is stable under `F` and reads back as a float with that very
text ("format ∘ parse ∘ format = format" at the level of text). -/
def ExtFloat.FmtParseFmt (F : ExtFloat) : Prop :=
  ∀ src, F.fmt (F.fmt src) = F.fmt src ∧ FloatLit (F.fmt src)

/-- The texts `F` can produce. -/
def ExtFloat.range (F : ExtFloat) (s : List Nat) : Prop := ∃ src, s = F.fmt src

theorem ExtFloat.FmtParseFmt.fixes {F : ExtFloat} (h : F.FmtParseFmt) : F.Fixes F.range := by
  intro s ⟨src, hs⟩
  subst hs
  exact h src

theorem normF_spec (F : ExtFloat) (hF : F.FmtParseFmt) :
    (∀ v, WF (fun _ => True) v →
      WF F.range (normF F v) ∧ write F (normF F v) = write F v ∧ depthOf (normF F v) = depthOf v) ∧
    (∀ first es, WFEntries (fun _ => True) es →
      WFEntries F.range (normFEntries F es) ∧
      writeEntries F first (normFEntries F es) = writeEntries F first es ∧
      depthOfEntries (normFEntries F es) = depthOfEntries es) ∧
    (∀ first xs, WFList (fun _ => True) xs →
      WFList F.range (normFList F xs) ∧ writeElems F first (normFList F xs) = writeElems F first xs ∧
      depthOfList (normFList F xs) = depthOfList xs) := by
  apply write.mutual_induct
    (motive_1 := fun v => WF (fun _ => True) v →
      WF F.range (normF F v) ∧ write F (normF F v) = write F v ∧ depthOf (normF F v) = depthOf v)
    (motive_2 := fun first es => WFEntries (fun _ => True) es →
      WFEntries F.range (normFEntries F es) ∧
      writeEntries F first (normFEntries F es) = writeEntries F first es ∧
      depthOfEntries (normFEntries F es) = depthOfEntries es)
    (motive_3 := fun first xs => WFList (fun _ => True) xs →
      WFList F.range (normFList F xs) ∧ writeElems F first (normFList F xs) = writeElems F first xs ∧
      depthOfList (normFList F xs) = depthOfList xs)
  · intro _; exact ⟨trivial, rfl, rfl⟩
  · intro _; exact ⟨trivial, rfl, rfl⟩
  · intro _; exact ⟨trivial, rfl, rfl⟩
  · intro i h; exact ⟨by simpa [normF, WF] using h, rfl, rfl⟩
  · intro src _
    refine ⟨?_, ?_, rfl⟩
    · simp only [normF, WF]; exact ⟨src, rfl⟩
    · simp only [normF, write]; exact (hF src).1
  · intro cps h; exact ⟨by simpa [normF, WF] using h, rfl, rfl⟩
  · intro xs ih h
    simp only [WF] at h
    obtain ⟨h1, h2, h3⟩ := ih h
    exact ⟨by simpa [normF, WF] using h1, by simp [normF, write, h2], by simp [normF, depthOf, h3]⟩
  · intro es ih h
    simp only [WF] at h
    obtain ⟨h1, h2, h3⟩ := ih h
    exact ⟨by simpa [normF, WF] using h1, by simp [normF, write, h2], by simp [normF, depthOf, h3]⟩
  · intro first _; exact ⟨trivial, rfl, rfl⟩
  · intro first x xs ih1 ih2 h
    simp only [WFList] at h
    obtain ⟨a1, a2, a3⟩ := ih1 h.1
    obtain ⟨b1, b2, b3⟩ := ih2 h.2
    exact ⟨⟨a1, b1⟩, by simp [normFList, writeElems, a2, b2], by simp [normFList, depthOfList, a3, b3]⟩
  · intro first _; exact ⟨trivial, rfl, rfl⟩
  · intro first k v es ih1 ih2 h
    simp only [WFEntries] at h
    obtain ⟨a1, a2, a3⟩ := ih1 h.1.2
    obtain ⟨b1, b2, b3⟩ := ih2 h.2
    exact ⟨⟨⟨h.1.1, a1⟩, b1⟩, by simp [normFEntries, writeEntries, a2, b2],
      by simp [normFEntries, depthOfEntries, a3, b3]⟩

theorem takeDigits_digitEnd (rest : List Nat) (h : digitEnd rest = true) : takeDigits rest = ([], rest) := by
  simpa using takeDigits_append [] rest (by simp) h

/-- `1.5` is a float literal in the sense of `FloatLit`. -/
theorem floatLit_1_5 : FloatLit [0x31, 0x2E, 0x35] := by
  refine ⟨⟨0x31, _, rfl, Or.inr (by decide)⟩, ?_⟩
  intro d rest hd hrest
  have htd := takeDigits_digitEnd rest (numEnd_not_digit hrest)
  have hex := lexExp_numEnd rest hrest
  rw [parseValue_eq]
  simp [skipWs, isWs, classify, isDigit, lexNumber, lexInt, takeDigits, lexFrac, htd, hex, classifyNum,
    digitsVal, floatFinite, numSrc, numVal]


theorem floatLit_valid {src : List Nat} (h : FloatLit src) : u8run .acc src = .acc := by
  have hp := h.2 1 [] (by decide) rfl
  simp only [List.append_nil] at hp
  exact ((parse_consumes _ _ (Nat.le_refl _)).1 _ _ _ hp).valid rfl

theorem write_valid_gen (F : ExtFloat) (P : List Nat → Prop) (hP : F.Fixes P) :
    (∀ v, WF P v → u8run .acc (write F v) = .acc) ∧
    (∀ first es, WFEntries P es → u8run .acc (writeEntries F first es) = .acc) ∧
    (∀ first xs, WFList P xs → u8run .acc (writeElems F first xs) = .acc) := by
  apply write.mutual_induct
    (motive_1 := fun v => WF P v → u8run .acc (write F v) = .acc)
    (motive_2 := fun first es => WFEntries P es → u8run .acc (writeEntries F first es) = .acc)
    (motive_3 := fun first xs => WFList P xs → u8run .acc (writeElems F first xs) = .acc)
  · intro _; simp only [write]; decide
  · intro _; simp only [write]; decide
  · intro _; simp only [write]; decide
  · intro i _; exact u8run_intDec i
  · intro src h
    simp only [WF] at h
    obtain ⟨he, hl⟩ := hP src h
    simp only [write, he]; exact floatLit_valid hl
  · intro cps h; exact u8run_writeStr cps (by simpa [WF] using h)
  · intro xs ih h
    simp only [WF] at h
    rw [write, show 0x5B :: writeElems F true xs ++ [0x5D] = [0x5B] ++ (writeElems F true xs ++ [0x5D]) by simp]
    exact u8_append (by decide) (u8_append (ih h) (by decide))
  · intro es ih h
    simp only [WF] at h
    rw [write, show 0x7B :: writeEntries F true es ++ [0x7D] = [0x7B] ++ (writeEntries F true es ++ [0x7D]) by simp]
    exact u8_append (by decide) (u8_append (ih h) (by decide))
  · intro first _; rfl
  · intro first x xs ih1 ih2 h
    simp only [WFList] at h
    rw [writeElems]
    refine u8_append (u8_append ?_ (ih1 h.1)) (ih2 h.2)
    cases first <;> decide
  · intro first _; rfl
  · intro first k v es ih1 ih2 h
    simp only [WFEntries] at h
    rw [writeEntries]
    rw [show (if first = true then [] else [0x2C]) ++ writeStr k ++ 0x3A :: write F v ++ writeEntries F false es
      = ((if first = true then [] else [0x2C]) ++ writeStr k) ++ ([0x3A] ++ (write F v ++ writeEntries F false es)) by simp]
    refine u8_append (u8_append ?_ (u8run_writeStr k h.1.1)) (u8_append (by decide) (u8_append (ih1 h.1.2) (ih2 h.2)))
    cases first <;> decide

theorem readerLoop_writeP (F : ExtFloat) (P : List Nat → Prop) (hP : F.Fixes P) (v : JVal) (l : List Nat)
    (hwf : WF P v) (hl : endOk l = true) :
    readerLoop (write F v ++ l) =
      if depthOf v < depthLimit then (v :: (readerLoop l).1, (readerLoop l).2)
      else ([], .err .recursionLimit) := by
  obtain ⟨b, t, hb, hws, _⟩ := write_headP F P hP v hwf
  have hp := (parse_write_gen F P hP).1 v hwf depthLimit l (by decide) (fun _ => endOk_numEnd hl)
  rw [readerLoop_eq]
  rw [hb] at hp ⊢
  simp only [List.cons_append] at hp ⊢
  rw [skipWs_cons _ hws]
  by_cases hdp : depthOf v < depthLimit
  · simp only [hp, expectV, hdp, if_true]
  · simp only [hp, expectV, hdp, if_false]

theorem sliceDocs_writeP (F : ExtFloat) (P : List Nat → Prop) (hP : F.Fixes P) (v : JVal) (l : List Nat)
    (hwf : WF P v) (hl : endOk l = true) :
    sliceDocs (write F v ++ l) =
      if depthOf v < depthLimit then (v :: (sliceDocs l).1, (sliceDocs l).2)
      else ([], .err .recursionLimit) := by
  obtain ⟨b, t, hb, hws, _⟩ := write_headP F P hP v hwf
  have hp := (parse_write_gen F P hP).1 v hwf depthLimit l (by decide) (fun _ => endOk_numEnd hl)
  rw [sliceDocs_eq]
  rw [hb] at hp ⊢
  simp only [List.cons_append] at hp ⊢
  rw [skipWs_cons _ hws]
  by_cases hdp : depthOf v < depthLimit
  · simp [hp, expectV, hdp, hl]
  · simp only [hp, expectV, hdp, if_false]

/-- Every document is well-formed (floats in `P`) and within the depth limit. -/
def docsOkP (P : List Nat → Prop) (docs : List JVal) : Prop :=
  ∀ d ∈ docs, WF P d ∧ depthOf d < depthLimit

theorem readerLoop_writeDocsP (F : ExtFloat) (P : List Nat → Prop) (hP : F.Fixes P) (docs : List JVal)
    (h : docsOkP P docs) : readerLoop (writeDocs F docs) = (docs, .ok) := by
  induction docs with
  | nil => rw [readerLoop_eq]; simp [writeDocs, skipWs]
  | cons d ds ih =>
    have hd := h d (by simp)
    have hnl : readerLoop (0x0A :: writeDocs F ds) = readerLoop (writeDocs F ds) :=
      readerLoop_ws [0x0A] _ (by simp [isWs])
    rw [writeDocs, readerLoop_writeP F P hP d _ hd.1 (by simp [endOk, isWs]), if_pos hd.2, hnl,
      ih (fun x hx => h x (by simp [hx]))]

theorem sliceDocs_writeDocsP (F : ExtFloat) (P : List Nat → Prop) (hP : F.Fixes P) (docs : List JVal)
    (h : docsOkP P docs) : sliceDocs (writeDocs F docs) = (docs, .ok) := by
  induction docs with
  | nil => rw [sliceDocs_eq]; simp [writeDocs, skipWs]
  | cons d ds ih =>
    have hd := h d (by simp)
    have hnl : sliceDocs (0x0A :: writeDocs F ds) = sliceDocs (writeDocs F ds) :=
      sliceDocs_ws [0x0A] _ (by simp [isWs])
    rw [writeDocs, sliceDocs_writeP F P hP d _ hd.1 (by simp [endOk, isWs]), if_pos hd.2, hnl,
      ih (fun x hx => h x (by simp [hx]))]

theorem writeDocs_validP (F : ExtFloat) (P : List Nat → Prop) (hP : F.Fixes P) (docs : List JVal)
    (h : ∀ d ∈ docs, WF P d) : u8run .acc (writeDocs F docs) = .acc := by
  induction docs with
  | nil => rfl
  | cons d ds ih =>
    rw [writeDocs, show write F d ++ 0x0A :: writeDocs F ds = write F d ++ ([0x0A] ++ writeDocs F ds) by simp]
    exact u8_append ((write_valid_gen F P hP).1 d (h d (by simp)))
      (u8_append (by decide) (ih (fun x hx => h x (by simp [hx]))))

theorem sliceLoop_writeDocsP (F : ExtFloat) (P : List Nat → Prop) (hP : F.Fixes P) (docs : List JVal)
    (h : docsOkP P docs) : sliceLoop (writeDocs F docs) = (docs, .ok) := by
  unfold sliceLoop validUtf8
  rw [writeDocs_validP F P hP docs (fun d hd => (h d hd).1)]
  simp [sliceDocs_writeDocsP F P hP docs h]


/-! ## The detection trial (`ignore_value`) -/

/-- After a complete value: back to the enclosing bracket, or finished. -/
def doneF (stk : List Nat) (r : List Nat) : Except Err (List Nat) :=
  match stk with
  | [] => .ok r
  | frame :: up => igAfter frame up r true

theorem igValue_eq (stk bs : List Nat) : igValue stk bs =
    match skipWs bs with
    | [] => .error .eofValue
    | b :: r =>
      match classify b with
      | .n => match ident [0x75, 0x6C, 0x6C] r with
        | .error e => .error e
        | .ok r' => doneF stk r'
      | .t => match ident [0x72, 0x75, 0x65] r with
        | .error e => .error e
        | .ok r' => doneF stk r'
      | .f => match ident [0x61, 0x6C, 0x73, 0x65] r with
        | .error e => .error e
        | .ok r' => doneF stk r'
      | .minus => match ignoreNumber r with
        | .error e => .error e
        | .ok r' => doneF stk r'
      | .digit => match ignoreNumber (b :: r) with
        | .error e => .error e
        | .ok r' => doneF stk r'
      | .quote => match ignoreStr r with
        | .error e => .error e
        | .ok r' => doneF stk r'
      | .lbrack => igAfter 0x5B stk r false
      | .lbrace => igAfter 0x7B stk r false
      | .other => .error .expectedValue := by
  rw [igValue.eq_def]
  unfold doneF
  split
  · rename_i h; simp [h]
  · rename_i b r h
    simp only [h]
    split <;> rename_i hc <;> simp only [hc]
    all_goals (try (split <;> simp_all))
    all_goals (cases stk <;> rfl)

/-- The key and `:` of an object entry (inside `{`), then the value. -/
def nextF (frame : Nat) (up : List Nat) (bs' : List Nat) : Except Err (List Nat) :=
  if frame = 0x7B then
    match skipWs bs' with
    | [] => .error .eofObject
    | q :: r1 =>
      if q ≠ 0x22 then .error .keyMustBeString else
      match ignoreStr r1 with
      | .error e => .error e
      | .ok r2 =>
        match skipWs r2 with
        | [] => .error .eofObject
        | c3 :: r3 => if c3 ≠ 0x3A then .error .expectedColon else igValue (frame :: up) r3
  else igValue (frame :: up) bs'

theorem igAfter_eq (frame : Nat) (up bs : List Nat) (acc : Bool) : igAfter frame up bs acc =
    match skipWs bs with
    | [] => .error (if frame = 0x5B then .eofList else .eofObject)
    | c :: r =>
      if c = 0x2C ∧ acc then nextF frame up r
      else if (c = 0x5D ∧ frame = 0x5B) ∨ (c = 0x7D ∧ frame = 0x7B) then doneF up r
      else if acc then
        .error (if frame = 0x5B then .expectedListCommaOrEnd else .expectedObjectCommaOrEnd)
      else nextF frame up (c :: r) := by
  rw [igAfter.eq_def]
  unfold doneF nextF
  simp only
  split
  · rename_i h; simp [h]
  · rename_i c r h
    simp only [h]
    by_cases h1 : c = 0x2C ∧ acc = true
    · simp only [h1, and_self, if_true]
      by_cases hf : frame = 0x7B
      · simp only [hf, if_true]
        split
        · rename_i e1; simp [e1]
        · rename_i q r1 e1
          simp only [e1]
          split
          · rfl
          · split
            · rename_i e2; simp [e2]
            · rename_i r2 e2
              simp only [e2]
              split
              · rename_i e3; simp [e3]
              · rename_i c3 r3 e3; simp [e3]
      · simp only [hf, if_false]
    · simp only [h1, if_false]
      by_cases h2 : (c = 0x5D ∧ frame = 0x5B) ∨ (c = 0x7D ∧ frame = 0x7B)
      · simp only [h2, if_true]
        cases up <;> rfl
      · simp only [h2, if_false]
        by_cases h3 : acc = true
        · simp only [h3, if_true]
        · simp only [h3]
          by_cases hf : frame = 0x7B
          · simp only [hf, if_true]
            simp only [Bool.false_eq_true, if_false]
            split
            · rename_i e1; simp [e1]
            · rename_i q r1 e1
              simp only [e1]
              split
              · rfl
              · split
                · rename_i e2; simp [e2]
                · rename_i r2 e2
                  simp only [e2]
                  split
                  · rename_i e3; simp [e3]
                  · rename_i c3 r3 e3; simp [e3]
          · simp only [hf, if_false, Bool.false_eq_true]


theorem ignoreNumber_natDec (n : Nat) (rest : List Nat) (h : numEnd rest = true) :
    ignoreNumber (natDec n ++ rest) = .ok rest := by
  have tail : ∀ r : List Nat, numEnd r = true →
      (match r with
        | [] => (Except.ok [] : Except Err (List Nat))
        | c :: r' =>
          if c = 0x2E then
            match takeDigits r' with
            | ([], _) => .error .invalidNumber
            | (_ :: _, r2) =>
              match r2 with
              | [] => .ok []
              | e :: r3 =>
                if e = 0x65 ∨ e = 0x45 then
                  (match (expSign r3).2 with
                    | [] => .error .invalidNumber
                    | c :: r3 => if isDigit c then .ok (takeDigits r3).2 else .error .invalidNumber)
                else .ok (e :: r3)
          else if c = 0x65 ∨ c = 0x45 then
            (match (expSign r').2 with
              | [] => .error .invalidNumber
              | c :: r3 => if isDigit c then .ok (takeDigits r3).2 else .error .invalidNumber)
          else .ok (c :: r')) = .ok r := by
    intro r hr
    cases r with
    | nil => rfl
    | cons c r' => simp [numEnd] at hr; simp [hr]
  by_cases hn : n = 0
  · subst hn
    rw [natDec_zero]
    have hd := numEnd_not_digit h
    simp only [List.cons_append, List.nil_append, ignoreNumber, if_true]
    cases rest with
    | nil => simp
    | cons b r =>
      simp [digitEnd] at hd
      simp only [hd, Bool.false_eq_true, if_false]
      exact tail (b :: r) h
  · obtain ⟨b, t, hb, h1, h2⟩ := natDec_head n (by omega)
    have hbd : isDigit b = true := by simp [isDigit]; omega
    have htd : takeDigits (t ++ rest) = (t, rest) := by
      apply takeDigits_append _ _ _ (numEnd_not_digit h)
      intro x hx
      exact isDigit_of_natDec (n := n) (by rw [hb]; simp [hx])
    rw [hb]
    simp only [List.cons_append, ignoreNumber]
    rw [if_neg (by omega), if_pos hbd, htd]
    exact tail rest h

theorem ignoreStr_quote (rest : List Nat) : ignoreStr (0x22 :: rest) = .ok rest := by
  rw [ignoreStr.eq_def]; simp

theorem ignoreStr_raw1 (b : Nat) (rest : List Nat) (h1 : 0x20 ≤ b) (h2 : b ≠ 0x22) (h3 : b ≠ 0x5C) :
    ignoreStr (b :: rest) = ignoreStr rest := by
  rw [ignoreStr.eq_def]
  simp only
  rw [if_neg h2, if_neg h3, if_neg (by omega)]

theorem ignoreStr_raw (bytes tail : List Nat) (h : ∀ b ∈ bytes, 0x20 ≤ b ∧ b ≠ 0x22 ∧ b ≠ 0x5C) :
    ignoreStr (bytes ++ tail) = ignoreStr tail := by
  induction bytes with
  | nil => rfl
  | cons b bs ih =>
    have hb := h b (by simp)
    rw [List.cons_append, ignoreStr_raw1 b _ hb.1 hb.2.1 hb.2.2, ih (fun x hx => h x (by simp [hx]))]

theorem ignoreStr_esc (rest r : List Nat) (h : ignoreEscape rest = .ok r) :
    ignoreStr (0x5C :: rest) = ignoreStr r := by
  rw [ignoreStr.eq_def]
  simp only [show ¬ (0x5C = 0x22) by decide, if_false, if_true]
  split
  · rename_i heq; rw [h] at heq; simp at heq
  · rename_i r' heq
    rw [h] at heq; simp at heq
    subst heq; rfl

theorem ignoreStr_writeCp (c : Nat) (tail : List Nat) :
    ignoreStr (writeCp c ++ tail) = ignoreStr tail := by
  unfold writeCp
  split
  · exact ignoreStr_esc _ _ (by simp [ignoreEscape])
  split
  · exact ignoreStr_esc _ _ (by simp [ignoreEscape])
  split
  · exact ignoreStr_esc _ _ (by simp [ignoreEscape])
  split
  · exact ignoreStr_esc _ _ (by simp [ignoreEscape])
  split
  · exact ignoreStr_esc _ _ (by simp [ignoreEscape])
  split
  · exact ignoreStr_esc _ _ (by simp [ignoreEscape])
  split
  · exact ignoreStr_esc _ _ (by simp [ignoreEscape])
  split
  · rename_i h
    have h1 : hexVal (hexLower (c / 16)) = some (c / 16) := hexVal_hexLower _ (by omega)
    have h2 : hexVal (hexLower (c % 16)) = some (c % 16) := hexVal_hexLower _ (by omega)
    have h0 : hexVal 0x30 = some 0 := by simp [hexVal]
    have key : ignoreEscape (0x75 :: 0x30 :: 0x30 :: hexLower (c / 16) :: hexLower (c % 16) :: tail) =
        .ok tail := by
      simp [ignoreEscape, hexEscape, hex4, h0, h1, h2]
    simp only [List.cons_append, List.nil_append]
    exact ignoreStr_esc _ _ key
  · rename_i h1 h2 h3 h4 h5 h6 h7 h8
    apply ignoreStr_raw
    intro b hb
    by_cases hlt : c < 0x80
    · simp [utf8, hlt] at hb; subst hb; omega
    · have := utf8_ge c (by omega) b hb; omega

theorem ignoreStr_flatMap (cps rest : List Nat) :
    ignoreStr (cps.flatMap writeCp ++ 0x22 :: rest) = .ok rest := by
  induction cps with
  | nil => simp [ignoreStr_quote]
  | cons c cps ih =>
    simp only [List.flatMap_cons, List.append_assoc]
    rw [ignoreStr_writeCp c _, ih]


/-- The detection trial reads a written value to its end, at any nesting depth
(it has no recursion limit) and whatever brackets are open around it. -/
theorem ignore_write_all (F : ExtFloat) :
    (∀ v, wellFormed v = true → ∀ stk rest, (isIntVal v = true → numEnd rest = true) →
      igValue stk (write F v ++ rest) = doneF stk rest) ∧
    (∀ first es, wellFormedEntries es = true → ∀ up rest,
      igAfter 0x7B up (writeEntries F first es ++ 0x7D :: rest) (!first) = doneF up rest) ∧
    (∀ first xs, wellFormedList xs = true → ∀ up rest,
      igAfter 0x5B up (writeElems F first xs ++ 0x5D :: rest) (!first) = doneF up rest) := by
  apply write.mutual_induct
    (motive_1 := fun v => wellFormed v = true → ∀ stk rest, (isIntVal v = true → numEnd rest = true) →
      igValue stk (write F v ++ rest) = doneF stk rest)
    (motive_2 := fun first es => wellFormedEntries es = true → ∀ up rest,
      igAfter 0x7B up (writeEntries F first es ++ 0x7D :: rest) (!first) = doneF up rest)
    (motive_3 := fun first xs => wellFormedList xs = true → ∀ up rest,
      igAfter 0x5B up (writeElems F first xs ++ 0x5D :: rest) (!first) = doneF up rest)
  · intro _ stk rest _
    simp [igValue_eq, write, skipWs, isWs, classify, ident]
  · intro _ stk rest _
    simp [igValue_eq, write, skipWs, isWs, classify, ident]
  · intro _ stk rest _
    simp [igValue_eq, write, skipWs, isWs, classify, ident]
  · -- int
    intro i hwf stk rest hrest
    have hrest := hrest rfl
    simp only [write, intDec]
    split
    · rw [igValue_eq]
      simp only [List.cons_append, skipWs, show isWs 0x2D = false by decide, Bool.false_eq_true, if_false,
        show classify 0x2D = Tok.minus by decide]
      rw [ignoreNumber_natDec _ rest hrest]
    · obtain ⟨b, t, hb, h1, h2⟩ := natDec_cons i.natAbs
      have hcl : classify b = Tok.digit := by
        have hdg : isDigit b = true := by simp [isDigit]; omega
        unfold classify
        simp only [hdg, if_true]
        rw [if_neg (show ¬ b = 0x6E by omega), if_neg (show ¬ b = 0x74 by omega),
          if_neg (show ¬ b = 0x66 by omega), if_neg (show ¬ b = 0x2D by omega)]
      have hws : isWs b = false := by simp [isWs]; omega
      rw [igValue_eq]
      have e1 : natDec i.natAbs ++ rest = b :: (t ++ rest) := by rw [hb]; rfl
      rw [e1]
      simp only [skipWs, hws, Bool.false_eq_true, if_false, hcl]
      rw [← e1, ignoreNumber_natDec _ rest hrest]
  · intro src hwf; simp [wellFormed] at hwf
  · -- str
    intro cps _ stk rest _
    simp [igValue_eq, write, writeStr, skipWs, isWs, classify, isDigit, ignoreStr_flatMap cps rest]
  · -- arr
    intro xs ih hwf stk rest _
    simp only [wellFormed] at hwf
    have e : write F (.arr xs) ++ rest = 0x5B :: (writeElems F true xs ++ 0x5D :: rest) := by simp [write]
    rw [e, igValue_eq]
    simp only [skipWs, show isWs 0x5B = false by decide, Bool.false_eq_true, if_false,
      show classify 0x5B = Tok.lbrack by decide]
    have := ih hwf stk rest
    simp only [Bool.not_true] at this
    rw [this]
  · -- obj
    intro es ih hwf stk rest _
    simp only [wellFormed] at hwf
    have e : write F (.obj es) ++ rest = 0x7B :: (writeEntries F true es ++ 0x7D :: rest) := by simp [write]
    rw [e, igValue_eq]
    simp only [skipWs, show isWs 0x7B = false by decide, Bool.false_eq_true, if_false,
      show classify 0x7B = Tok.lbrace by decide]
    have := ih hwf stk rest
    simp only [Bool.not_true] at this
    rw [this]
  · -- elems nil
    intro first _ up rest
    rw [igAfter_eq]
    simp [writeElems, skipWs, isWs]
  · -- elems cons
    intro first x xs ih1 ih2 hwf up rest
    simp only [wellFormedList, Bool.and_eq_true] at hwf
    have htail : numEnd (writeElems F false xs ++ 0x5D :: rest) = true := by
      cases xs with
      | nil => simp [writeElems, numEnd, isDigit]
      | cons y ys => simp [writeElems, numEnd, isDigit]
    obtain ⟨b, t, hb, hws, hb1, hb2, hb3⟩ := write_head F x hwf.1
    have hx := ih1 hwf.1 (0x5B :: up) _ (fun _ => htail)
    have hxs := ih2 hwf.2 up rest
    simp only [Bool.not_false] at hxs
    rw [hb] at hx
    simp only [List.cons_append] at hx
    have e : writeElems F first (x :: xs) ++ 0x5D :: rest =
        (if first then [] else [0x2C]) ++ (b :: (t ++ (writeElems F false xs ++ 0x5D :: rest))) := by
      simp [writeElems, hb]
    rw [e, igAfter_eq]
    cases first with
    | true =>
      simp only [if_true, List.nil_append, skipWs, hws, Bool.false_eq_true, if_false, Bool.not_true,
        and_false, hb1, hb2, false_and, or_self, nextF, show ¬ (0x5B = 0x7B) by decide, hx, doneF, hxs]
    | false =>
      simp only [Bool.false_eq_true, if_false, List.cons_append, List.nil_append, skipWs,
        show isWs 0x2C = false by decide, Bool.not_false, and_self, if_true, nextF,
        show ¬ (0x5B = 0x7B) by decide, hx, doneF, hxs]
  · -- entries nil
    intro first _ up rest
    rw [igAfter_eq]
    simp [writeEntries, skipWs, isWs]
  · -- entries cons
    intro first k v es ih1 ih2 hwf up rest
    simp only [wellFormedEntries, Bool.and_eq_true] at hwf
    have htail : numEnd (writeEntries F false es ++ 0x7D :: rest) = true := by
      cases es with
      | nil => simp [writeEntries, numEnd, isDigit]
      | cons y ys => obtain ⟨ky, vy⟩ := y; simp [writeEntries, numEnd, isDigit]
    have hv := ih1 hwf.1.2 (0x7B :: up) _ (fun _ => htail)
    have hes := ih2 hwf.2 up rest
    simp only [Bool.not_false] at hes
    have hk := ignoreStr_flatMap k (0x3A :: (write F v ++ (writeEntries F false es ++ 0x7D :: rest)))
    have e : writeEntries F first ((k, v) :: es) ++ 0x7D :: rest =
        (if first then [] else [0x2C]) ++ (0x22 :: (k.flatMap writeCp ++ 0x22 :: 0x3A ::
          (write F v ++ (writeEntries F false es ++ 0x7D :: rest)))) := by
      simp [writeEntries, writeStr]
    rw [e, igAfter_eq]
    cases first with
    | true =>
      simp only [if_true, List.nil_append, skipWs, show isWs 0x22 = false by decide, Bool.false_eq_true,
        if_false, Bool.not_true, and_false, show ¬ (0x22 = 0x5D) by decide, show ¬ (0x22 = 0x7D) by decide,
        false_and, or_self, nextF, ne_eq, not_true_eq_false, hk, show isWs 0x3A = false by decide, hv,
        doneF, hes]
    | false =>
      simp only [Bool.false_eq_true, if_false, List.cons_append, List.nil_append, skipWs,
        show isWs 0x2C = false by decide, Bool.not_false, and_self, if_true, nextF,
        show isWs 0x22 = false by decide, ne_eq, not_true_eq_false, hk,
        show isWs 0x3A = false by decide, hv, doneF, hes]


/-! ## Documents with arbitrary whitespace separators -/

/-- Documents, each followed by its separator. -/
def joinDocs (F : ExtFloat) : List (JVal × List Nat) → List Nat
  | [] => []
  | (d, sep) :: r => write F d ++ (sep ++ joinDocs F r)

/-- Every document is well-formed and within the depth limit, every separator
is non-empty whitespace. -/
def sepsOk (l : List (JVal × List Nat)) : Prop :=
  ∀ p ∈ l, wellFormed p.1 = true ∧ depthOf p.1 < depthLimit ∧ p.2 ≠ [] ∧ ∀ b ∈ p.2, isWs b = true

theorem endOk_ws_append {sep l : List Nat} (h1 : sep ≠ []) (h2 : ∀ b ∈ sep, isWs b = true) :
    endOk (sep ++ l) = true := by
  cases sep with
  | nil => exact absurd rfl h1
  | cons w ws => simp [endOk, h2 w (by simp)]

theorem readerLoop_joinDocs (F : ExtFloat) (l : List (JVal × List Nat)) (h : sepsOk l) :
    readerLoop (joinDocs F l) = (l.map Prod.fst, .ok) := by
  induction l with
  | nil => rw [readerLoop_eq]; simp [joinDocs, skipWs]
  | cons p r ih =>
    obtain ⟨d, sep⟩ := p
    obtain ⟨h1, h2, h3, h4⟩ := h (d, sep) (by simp)
    rw [joinDocs, readerLoop_write F d _ h1 (endOk_ws_append h3 h4), if_pos h2, readerLoop_ws sep _ h4,
      ih (fun x hx => h x (by simp [hx]))]
    rfl

theorem sliceDocs_joinDocs (F : ExtFloat) (l : List (JVal × List Nat)) (h : sepsOk l) :
    sliceDocs (joinDocs F l) = (l.map Prod.fst, .ok) := by
  induction l with
  | nil => rw [sliceDocs_eq]; simp [joinDocs, skipWs]
  | cons p r ih =>
    obtain ⟨d, sep⟩ := p
    obtain ⟨h1, h2, h3, h4⟩ := h (d, sep) (by simp)
    rw [joinDocs, sliceDocs_write F d _ h1 (endOk_ws_append h3 h4), if_pos h2, sliceDocs_ws sep _ h4,
      ih (fun x hx => h x (by simp [hx]))]
    rfl

theorem joinDocs_valid (F : ExtFloat) (l : List (JVal × List Nat)) (h : sepsOk l) :
    u8run .acc (joinDocs F l) = .acc := by
  induction l with
  | nil => rfl
  | cons p r ih =>
    obtain ⟨d, sep⟩ := p
    obtain ⟨h1, _, _, h4⟩ := h (d, sep) (by simp)
    rw [joinDocs]
    exact u8_append ((write_valid_all F).1 d h1)
      (u8_append (u8run_ascii sep (fun b hb => isWs_lt (h4 b hb))) (ih (fun x hx => h x (by simp [hx]))))

theorem sliceLoop_joinDocs (F : ExtFloat) (l : List (JVal × List Nat)) (h : sepsOk l) :
    sliceLoop (joinDocs F l) = (l.map Prod.fst, .ok) := by
  unfold sliceLoop validUtf8
  rw [joinDocs_valid F l h]
  simp [sliceDocs_joinDocs F l h]


end Xt.Json
