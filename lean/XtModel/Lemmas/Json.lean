import XtModel.Model.Json

/-! Helper lemmas about the JSON model: recursion-proof-free unfolding
equations for the parser and the document loops, writer facts, lexer facts. -/
namespace Xt.Json

/-! ## Unfolding equations (the `Shorter` proofs erased) -/

theorem parseValue_eq (d : Nat) (bs : List Nat) : parseValue d bs =
    match skipWs bs with
    | [] => .error .eofValue
    | b :: r =>
      match classify b with
      | .n => match ident [0x75, 0x6C, 0x6C] r with
        | .error e => .error e
        | .ok r' => .ok (.null, r')
      | .t => match ident [0x72, 0x75, 0x65] r with
        | .error e => .error e
        | .ok r' => .ok (.bool true, r')
      | .f => match ident [0x61, 0x6C, 0x73, 0x65] r with
        | .error e => .error e
        | .ok r' => .ok (.bool false, r')
      | .minus => match lexNumber false r with
        | .error e => .error e
        | .ok (n, src, r') => .ok (numVal false n src, r')
      | .digit => match lexNumber true (b :: r) with
        | .error e => .error e
        | .ok (n, src, r') => .ok (numVal true n src, r')
      | .quote => match parseStr r with
        | .error e => .error e
        | .ok (cps, r') => .ok (.str cps, r')
      | .lbrack =>
        if d ≤ 1 then .error .recursionLimit else
        match parseElems (d - 1) true r with
        | .error e => .error e
        | .ok (xs, r') => .ok (.arr xs, r')
      | .lbrace =>
        if d ≤ 1 then .error .recursionLimit else
        match parseEntries (d - 1) true r with
        | .error e => .error e
        | .ok (es, r') => .ok (.obj es, r')
      | .other => .error .expectedValue := by
  unfold parseValue parseElems parseEntries
  rw [parseValueS.eq_def]
  split <;> rename_i heq <;> (repeat' split at heq) <;> simp_all
  all_goals first
    | (intro h'; omega)
    | (obtain ⟨_, rfl⟩ := heq; rfl)
    | (obtain ⟨_, rfl⟩ := heq; rw [if_neg (by omega)])

theorem parseElems_eq (d : Nat) (first : Bool) (bs : List Nat) : parseElems d first bs =
    match skipWs bs with
    | [] => .error .eofList
    | c :: r =>
      if c = 0x5D then .ok ([], r)
      else if first then
        match parseValue d (c :: r) with
        | .error e => .error e
        | .ok (v, r1) =>
          match parseElems d false r1 with
          | .error e => .error e
          | .ok (vs, r2) => .ok (v :: vs, r2)
      else if c = 0x2C then
        match skipWs r with
        | [] => .error .eofValue
        | c2 :: r2 =>
          if c2 = 0x5D then .error .trailingComma
          else
            match parseValue d (c2 :: r2) with
            | .error e => .error e
            | .ok (v, r3) =>
              match parseElems d false r3 with
              | .error e => .error e
              | .ok (vs, r4) => .ok (v :: vs, r4)
      else .error .expectedListCommaOrEnd := by
  unfold parseValue parseElems
  rw [parseElemsS.eq_def]
  split <;> rename_i heq <;> (repeat' split at heq) <;> simp_all
  all_goals first
    | (obtain ⟨_, rfl⟩ := heq; rfl)
    | skip

/-- `has_next_key`: the input after the opening quote of the next key. -/
def keyStart (first : Bool) (c : Nat) (r : List Nat) : Except Err (List Nat) :=
  if first then
    if c = 0x22 then .ok r else .error .keyMustBeString
  else if c = 0x2C then
    match skipWs r with
    | [] => .error .eofValue
    | c2 :: r2 =>
      if c2 = 0x22 then .ok r2
      else if c2 = 0x7D then .error .trailingComma
      else .error .keyMustBeString
  else .error .expectedObjectCommaOrEnd

theorem parseEntries_eq (d : Nat) (first : Bool) (bs : List Nat) : parseEntries d first bs =
    match skipWs bs with
    | [] => .error .eofObject
    | c :: r =>
      if c = 0x7D then .ok ([], r)
      else
        match keyStart first c r with
        | .error e => .error e
        | .ok kbs =>
          match parseStr kbs with
          | .error e => .error e
          | .ok (k, r3) =>
            match skipWs r3 with
            | [] => .error .eofObject
            | c4 :: r4 =>
              if c4 ≠ 0x3A then .error .expectedColon
              else
                match parseValue d r4 with
                | .error e => .error e
                | .ok (v, r5) =>
                  match parseEntries d false r5 with
                  | .error e => .error e
                  | .ok (es, r6) => .ok ((k, v) :: es, r6) := by
  unfold parseValue parseEntries keyStart
  rw [parseEntriesS.eq_def]
  split <;> rename_i heq <;> (repeat' split at heq) <;> simp_all
  all_goals (repeat' split at heq) <;> (try simp_all)
  all_goals (obtain ⟨_, rfl⟩ := heq; rfl)

theorem readerLoop_eq (bs : List Nat) : readerLoop bs =
    match skipWs bs with
    | [] => ([], .ok)
    | b :: r =>
      match parseValue depthLimit (b :: r) with
      | .error e => ([], .err e)
      | .ok (v, rest) => (v :: (readerLoop rest).1, (readerLoop rest).2) := by
  unfold parseValue
  rw [readerLoop.eq_def]
  split
  · rename_i h; simp [h]
  · rename_i b r h
    simp only [h]
    split <;> rename_i heq <;> simp [heq]

theorem sliceDocs_eq (bs : List Nat) : sliceDocs bs =
    match skipWs bs with
    | [] => ([], .ok)
    | b :: r =>
      match parseValue depthLimit (b :: r) with
      | .error e => ([], .err e)
      | .ok (v, rest) =>
        if isSelfDelim b || endOk rest then (v :: (sliceDocs rest).1, (sliceDocs rest).2)
        else ([], .err .trailingChars) := by
  unfold parseValue
  rw [sliceDocs.eq_def]
  split
  · rename_i h; simp [h]
  · rename_i b r h
    simp only [h]
    split <;> rename_i heq <;> simp [heq]

theorem hasUnseparatedScalar_eq (bs : List Nat) : hasUnseparatedScalar bs =
    match skipWs bs with
    | [] => false
    | b :: r =>
      match parseValue depthLimit (b :: r) with
      | .error _ => false
      | .ok (_, rest) => (!isSelfDelim b && !endOk rest) || hasUnseparatedScalar rest := by
  unfold parseValue
  rw [hasUnseparatedScalar.eq_def]
  split
  · rename_i h; simp [h]
  · rename_i b r h
    simp only [h]
    split <;> rename_i heq <;> simp [heq]

/-! ## Writer facts -/

theorem natDec_digits (n : Nat) : ∀ b ∈ natDec n, 0x30 ≤ b ∧ b ≤ 0x39 := by
  fun_induction natDec n with
  | case1 n h => intro b hb; simp at hb; omega
  | case2 n h ih =>
    intro b hb
    simp at hb
    rcases hb with hb | hb
    · exact ih b hb
    · omega

theorem utf8_ge (c : Nat) (h : 0x80 ≤ c) : ∀ b ∈ utf8 c, 0x80 ≤ b := by
  intro b hb
  unfold utf8 at hb
  split at hb
  · omega
  · split at hb
    · simp at hb; omega
    · split at hb <;> (simp at hb; omega)

theorem writeCp_no_newline (c : Nat) : 0x0A ∉ writeCp c := by
  unfold writeCp
  repeat' split
  all_goals try simp
  · unfold hexLower; constructor <;> split <;> omega
  · intro h
    rename_i h1 h2 h3 h4 h5 h6 h7 h8
    by_cases hc : c < 0x80
    · simp [utf8, hc] at h; omega
    · have := utf8_ge c (by omega) _ h; omega


def ExtFloat.NoNewline (F : ExtFloat) : Prop := ∀ src, 0x0A ∉ F.fmt src

theorem writeStr_no_newline (cps : List Nat) : 0x0A ∉ writeStr cps := by
  unfold writeStr
  simp only [List.mem_cons, List.mem_append, List.mem_flatMap, List.not_mem_nil, or_false]
  intro h
  rcases h with (h | ⟨c, _, hc⟩) | h
  · simp at h
  · exact writeCp_no_newline c hc
  · simp at h

theorem intDec_no_newline (i : Int) : 0x0A ∉ intDec i := by
  unfold intDec
  split
  · simp only [List.mem_cons]; intro h
    rcases h with h | h
    · simp at h
    · have := natDec_digits _ _ h; omega
  · intro h; have := natDec_digits _ _ h; omega

theorem write_no_newline_all (F : ExtFloat) (hF : F.NoNewline) :
    (∀ v, 0x0A ∉ write F v) ∧ (∀ first es, 0x0A ∉ writeEntries F first es) ∧
      (∀ first xs, 0x0A ∉ writeElems F first xs) := by
  apply write.mutual_induct
    (motive_1 := fun v => 0x0A ∉ write F v)
    (motive_2 := fun first es => 0x0A ∉ writeEntries F first es)
    (motive_3 := fun first xs => 0x0A ∉ writeElems F first xs)
  · simp [write]
  · simp [write]
  · simp [write]
  · intro i; simpa [write] using intDec_no_newline i
  · intro src; simpa [write] using hF src
  · intro cps; simpa [write] using writeStr_no_newline cps
  · intro xs ih; simp [write]; exact ih
  · intro es ih; simp [write]; exact ih
  · intro first; simp [writeElems]
  · intro first x xs ih1 ih2
    simp only [writeElems, List.mem_append, not_or]
    refine ⟨⟨?_, ih1⟩, ih2⟩
    split <;> simp
  · intro first; simp [writeEntries]
  · intro first k v es ih1 ih2
    have hk := writeStr_no_newline k
    simp only [writeEntries, List.mem_append, List.mem_cons, not_or]
    split <;> simp_all

/-! ## Lexer facts: literals and numbers -/

theorem ident_append (es rest : List Nat) : ident es (es ++ rest) = .ok rest := by
  induction es with
  | nil => simp [ident]
  | cons e es ih => simp [ident, ih]

theorem skipWs_cons {b : Nat} (r : List Nat) (h : isWs b = false) : skipWs (b :: r) = b :: r := by
  simp [skipWs, h]

/-- The byte after a number literal does not continue it. -/
def numEnd : List Nat → Bool
  | [] => true
  | b :: _ => !isDigit b && b != 0x2E && b != 0x65 && b != 0x45

theorem natDec_ne_nil (n : Nat) : natDec n ≠ [] := by
  rw [natDec.eq_def]; split <;> simp

theorem digitsVal_append_one (ds : List Nat) (b : Nat) :
    digitsVal (ds ++ [b]) = digitsVal ds * 10 + (b - 0x30) := by
  simp [digitsVal, List.foldl_append]

theorem digitsVal_natDec (n : Nat) : digitsVal (natDec n) = n := by
  fun_induction natDec n with
  | case1 n h => simp [digitsVal]
  | case2 n h ih => rw [digitsVal_append_one, ih]; omega

theorem natDec_head (n : Nat) (h : 0 < n) :
    ∃ b t, natDec n = b :: t ∧ 0x31 ≤ b ∧ b ≤ 0x39 := by
  fun_induction natDec n with
  | case1 n hn => exact ⟨0x30 + n, [], rfl, by omega, by omega⟩
  | case2 n hn ih =>
    obtain ⟨b, t, hb, h1, h2⟩ := ih (by omega)
    exact ⟨b, t ++ [0x30 + n % 10], by simp [hb], h1, h2⟩

theorem natDec_zero : natDec 0 = [0x30] := by rw [natDec.eq_def]; simp

/-- The next byte is not a digit. -/
def digitEnd : List Nat → Bool
  | [] => true
  | b :: _ => !isDigit b

theorem takeDigits_append (ds rest : List Nat) (hds : ∀ b ∈ ds, isDigit b = true)
    (hrest : digitEnd rest = true) :
    takeDigits (ds ++ rest) = (ds, rest) := by
  induction ds with
  | nil =>
    cases rest with
    | nil => simp [takeDigits]
    | cons b r => simp [digitEnd] at hrest; simp [takeDigits, hrest]
  | cons d ds ih =>
    have hd := hds d (by simp)
    have := ih (fun b hb => hds b (by simp [hb]))
    simp [takeDigits, hd, this]

theorem isDigit_of_natDec {n b : Nat} (h : b ∈ natDec n) : isDigit b = true := by
  have := natDec_digits n b h; simp [isDigit]; omega

theorem numEnd_not_digit {rest : List Nat} (h : numEnd rest = true) : digitEnd rest = true := by
  cases rest with
  | nil => rfl
  | cons b r => simp [numEnd] at h; simp [digitEnd, h.1]

theorem lexInt_natDec (n : Nat) (rest : List Nat) (h : numEnd rest = true) :
    lexInt (natDec n ++ rest) = .ok (natDec n, rest) := by
  by_cases hn : n = 0
  · subst hn
    rw [natDec_zero]
    cases rest with
    | nil => simp [lexInt]
    | cons b r => simp [numEnd] at h; simp [lexInt, h.1]
  · obtain ⟨b, t, hb, h1, h2⟩ := natDec_head n (by omega)
    have htd := takeDigits_append (natDec n) rest (fun b hb => isDigit_of_natDec hb) (numEnd_not_digit h)
    rw [hb] at htd ⊢
    have hbd : isDigit b = true := by simp [isDigit]; omega
    simp only [List.cons_append, lexInt]
    rw [if_neg (by omega), if_pos hbd]
    simp only [List.cons_append] at htd
    rw [htd]

theorem lexFrac_numEnd (rest : List Nat) (h : numEnd rest = true) : lexFrac rest = .ok (none, rest) := by
  cases rest with
  | nil => simp [lexFrac]
  | cons b r => simp [numEnd] at h; simp [lexFrac, h]

theorem lexExp_numEnd (rest : List Nat) (h : numEnd rest = true) : lexExp rest = .ok (none, rest) := by
  cases rest with
  | nil => simp [lexExp]
  | cons b r => simp [numEnd] at h; simp [lexExp, h]

theorem lexNumber_natDec (p : Bool) (n : Nat) (rest : List Nat) (h : numEnd rest = true) :
    lexNumber p (natDec n ++ rest) =
      match classifyNum p (natDec n) none none with
      | .error e => .error e
      | .ok c => .ok (c, natDec n, rest) := by
  simp [lexNumber, lexInt_natDec n rest h, lexFrac_numEnd rest h, lexExp_numEnd rest h, numSrc]
  rfl

theorem classifyNum_pos (n : Nat) (h : n ≤ u64Max) :
    classifyNum true (natDec n) none none = .ok (.int n) := by
  simp [classifyNum, digitsVal_natDec, h]

theorem classifyNum_neg (n : Nat) (h0 : 0 < n) (h : n ≤ 9223372036854775808) :
    classifyNum false (natDec n) none none = .ok (.int (-(n : Int))) := by
  have : n ≤ u64Max := by unfold u64Max; omega
  simp [classifyNum, digitsVal_natDec, this, h]
  omega


/-! ## UTF-8 -/

theorem utf8Decode_cons1 (b0 : Nat) (rest : List Nat) (h : b0 < 0x80) :
    utf8Decode (b0 :: rest) = (utf8Decode rest).map (b0 :: ·) := by
  rw [utf8Decode.eq_def]; simp [h]

theorem utf8Decode_cons2 (b0 b1 : Nat) (rest : List Nat) (h0 : 0xC2 ≤ b0 ∧ b0 ≤ 0xDF)
    (h1 : isCont b1 = true) :
    utf8Decode (b0 :: b1 :: rest) =
      (utf8Decode rest).map (((b0 - 0xC0) * 64 + (b1 - 0x80)) :: ·) := by
  rw [utf8Decode.eq_def]
  simp only
  rw [if_neg (by omega), if_pos h0]
  simp [h1]

theorem utf8Decode_cons3 (b0 b1 b2 : Nat) (rest : List Nat) (h0 : 0xE0 ≤ b0 ∧ b0 ≤ 0xEF)
    (h1 : (if b0 = 0xE0 then 0xA0 else 0x80) ≤ b1 ∧ b1 ≤ (if b0 = 0xED then 0x9F else 0xBF) ∧
      isCont b2 = true) :
    utf8Decode (b0 :: b1 :: b2 :: rest) =
      (utf8Decode rest).map ((((b0 - 0xE0) * 64 + (b1 - 0x80)) * 64 + (b2 - 0x80)) :: ·) := by
  rw [utf8Decode.eq_def]
  simp only
  rw [if_neg (by omega), if_neg (by omega), if_pos h0, if_pos h1]

theorem utf8Decode_cons4 (b0 b1 b2 b3 : Nat) (rest : List Nat) (h0 : 0xF0 ≤ b0 ∧ b0 ≤ 0xF4)
    (h1 : (if b0 = 0xF0 then 0x90 else 0x80) ≤ b1 ∧ b1 ≤ (if b0 = 0xF4 then 0x8F else 0xBF) ∧
      isCont b2 = true ∧ isCont b3 = true) :
    utf8Decode (b0 :: b1 :: b2 :: b3 :: rest) =
      (utf8Decode rest).map
        (((((b0 - 0xF0) * 64 + (b1 - 0x80)) * 64 + (b2 - 0x80)) * 64 + (b3 - 0x80)) :: ·) := by
  rw [utf8Decode.eq_def]
  simp only
  rw [if_neg (by omega), if_neg (by omega), if_neg (by omega), if_pos h0, if_pos h1]

theorem utf8Decode_utf8 (c : Nat) (rest : List Nat) (h : isScalar c = true) :
    utf8Decode (utf8 c ++ rest) = (utf8Decode rest).map (c :: ·) := by
  simp only [isScalar, Bool.or_eq_true, Bool.and_eq_true, decide_eq_true_eq] at h
  unfold utf8
  split
  · rename_i h1
    exact utf8Decode_cons1 c rest h1
  · split
    · rename_i h1 h2
      simp only [List.cons_append, List.nil_append]
      rw [utf8Decode_cons2 _ _ _ (by omega) (by simp [isCont]; omega)]
      have : (0xC0 + c / 64 - 0xC0) * 64 + (0x80 + c % 64 - 0x80) = c := by omega
      rw [this]
    · split
      · rename_i h1 h2 h3
        simp only [List.cons_append, List.nil_append]
        rw [utf8Decode_cons3 _ _ _ _ (by omega)]
        · have : ((0xE0 + c / 4096 - 0xE0) * 64 + (0x80 + c / 64 % 64 - 0x80)) * 64 +
              (0x80 + c % 64 - 0x80) = c := by omega
          rw [this]
        · refine ⟨?_, ?_, ?_⟩
          · split <;> omega
          · split <;> omega
          · simp [isCont]; omega
      · rename_i h1 h2 h3
        simp only [List.cons_append, List.nil_append]
        rw [utf8Decode_cons4 _ _ _ _ _ (by omega)]
        · have : (((0xF0 + c / 262144 - 0xF0) * 64 + (0x80 + c / 4096 % 64 - 0x80)) * 64 +
              (0x80 + c / 64 % 64 - 0x80)) * 64 + (0x80 + c % 64 - 0x80) = c := by omega
          rw [this]
        · refine ⟨?_, ?_, ?_, ?_⟩
          · split <;> omega
          · split <;> omega
          · simp [isCont]; omega
          · simp [isCont]; omega

theorem utf8Decode_flatMap (cps : List Nat) (h : allScalars cps = true) :
    utf8Decode (cps.flatMap utf8) = some cps := by
  induction cps with
  | nil => simp [utf8Decode]
  | cons c cps ih =>
    simp only [allScalars, List.all_cons, Bool.and_eq_true] at h
    simp only [List.flatMap_cons]
    rw [utf8Decode_utf8 c _ h.1, ih (by simpa [allScalars] using h.2)]
    rfl


/-! ## Strings: the reader takes back what the writer escapes -/

/-- Prepend scratch bytes to a string-body result. -/
def pre (p : List Nat) (x : Except Err (List Nat × List Nat)) : Except Err (List Nat × List Nat) :=
  match x with
  | .ok (s, r) => .ok (p ++ s, r)
  | .error e => .error e

theorem pre_pre (a b : List Nat) (x) : pre a (pre b x) = pre (a ++ b) x := by
  unfold pre; cases x with
  | error e => rfl
  | ok v => simp

theorem pre_nil (x) : pre [] x = x := by
  unfold pre; cases x with
  | error e => rfl
  | ok v => simp

theorem strBody_quote (rest : List Nat) : strBody (0x22 :: rest) = .ok ([], rest) := by
  rw [strBody.eq_def]; simp

theorem strBody_raw1 (b : Nat) (rest : List Nat) (h1 : 0x20 ≤ b) (h2 : b ≠ 0x22) (h3 : b ≠ 0x5C) :
    strBody (b :: rest) = pre [b] (strBody rest) := by
  rw [strBody.eq_def]
  simp only
  rw [if_neg h2, if_neg h3, if_neg (by omega)]
  unfold pre
  split <;> simp_all

theorem strBody_raw (bytes tail : List Nat) (h : ∀ b ∈ bytes, 0x20 ≤ b ∧ b ≠ 0x22 ∧ b ≠ 0x5C) :
    strBody (bytes ++ tail) = pre bytes (strBody tail) := by
  induction bytes with
  | nil => simp [pre_nil]
  | cons b bs ih =>
    have hb := h b (by simp)
    rw [List.cons_append, strBody_raw1 b _ hb.1 hb.2.1 hb.2.2, ih (fun x hx => h x (by simp [hx])), pre_pre]
    rfl

theorem strBody_esc (rest out r : List Nat) (h : escape rest = .ok (out, r)) :
    strBody (0x5C :: rest) = pre out (strBody r) := by
  rw [strBody.eq_def]
  simp only
  simp only [show ¬ (0x5C = 0x22) by decide, if_false, if_true]
  split
  · rename_i heq; rw [h] at heq; simp at heq
  · rename_i out' r' heq
    rw [h] at heq; simp at heq
    obtain ⟨rfl, rfl⟩ := heq
    unfold pre
    split <;> simp_all

theorem hexVal_hexLower (n : Nat) (h : n < 16) : hexVal (hexLower n) = some n := by
  unfold hexLower hexVal
  split
  · rw [if_pos (by omega)]; congr 1; omega
  · rw [if_neg (by omega), if_neg (by omega), if_pos (by omega)]; congr 1; omega

theorem strBody_writeCp (c : Nat) (tail : List Nat) (hc : isScalar c = true) :
    strBody (writeCp c ++ tail) = pre (utf8 c) (strBody tail) := by
  unfold writeCp
  split
  · rename_i h; subst h
    exact strBody_esc _ _ _ (by simp [escape, utf8])
  split
  · rename_i h; subst h
    exact strBody_esc _ _ _ (by simp [escape, utf8])
  split
  · rename_i h; subst h
    exact strBody_esc _ _ _ (by simp [escape, utf8])
  split
  · rename_i h; subst h
    exact strBody_esc _ _ _ (by simp [escape, utf8])
  split
  · rename_i h; subst h
    exact strBody_esc _ _ _ (by simp [escape, utf8])
  split
  · rename_i h; subst h
    exact strBody_esc _ _ _ (by simp [escape, utf8])
  split
  · rename_i h; subst h
    exact strBody_esc _ _ _ (by simp [escape, utf8])
  split
  · rename_i h
    have h1 : hexVal (hexLower (c / 16)) = some (c / 16) := hexVal_hexLower _ (by omega)
    have h2 : hexVal (hexLower (c % 16)) = some (c % 16) := hexVal_hexLower _ (by omega)
    have h0 : hexVal 0x30 = some 0 := by simp [hexVal]
    have hu : utf8 c = [c] := by simp [utf8]; omega
    have key : escape (0x75 :: 0x30 :: 0x30 :: hexLower (c / 16) :: hexLower (c % 16) :: tail) =
        .ok (utf8 c, tail) := by
      simp only [escape, unicodeEscape, hexEscape, hex4, h0, h1, h2]
      have : ((0 * 16 + 0) * 16 + c / 16) * 16 + c % 16 = c := by omega
      simp only [this]
      simp
      rw [if_neg (by omega), if_pos (by omega)]
    simp only [List.cons_append, List.nil_append]
    exact strBody_esc _ _ _ key
  · rename_i h1 h2 h3 h4 h5 h6 h7 h8
    apply strBody_raw
    intro b hb
    by_cases hlt : c < 0x80
    · simp [utf8, hlt] at hb; subst hb; omega
    · have := utf8_ge c (by omega) b hb; omega

theorem strBody_flatMap (cps rest : List Nat) (h : allScalars cps = true) :
    strBody (cps.flatMap writeCp ++ 0x22 :: rest) = .ok (cps.flatMap utf8, rest) := by
  induction cps with
  | nil => simp [strBody_quote]
  | cons c cps ih =>
    simp only [allScalars, List.all_cons, Bool.and_eq_true] at h
    simp only [List.flatMap_cons, List.append_assoc]
    rw [strBody_writeCp c _ h.1, ih (by simpa [allScalars] using h.2)]
    rfl

theorem parseStr_writeStr (cps rest : List Nat) (h : allScalars cps = true) :
    parseStr (cps.flatMap writeCp ++ 0x22 :: rest) = .ok (cps, rest) := by
  simp [parseStr, strBody_flatMap cps rest h, utf8Decode_flatMap cps h]


/-! ## The reader takes back what the writer wrote (with the depth verdict) -/

theorem natDec_cons (n : Nat) : ∃ b t, natDec n = b :: t ∧ 0x30 ≤ b ∧ b ≤ 0x39 := by
  cases h : natDec n with
  | nil => exact absurd h (natDec_ne_nil n)
  | cons b t => exact ⟨b, t, rfl, natDec_digits n b (by simp [h])⟩

theorem write_head (F : ExtFloat) (v : JVal) (h : wellFormed v = true) :
    ∃ b t, write F v = b :: t ∧ isWs b = false ∧ b ≠ 0x5D ∧ b ≠ 0x7D ∧ b ≠ 0x2C := by
  cases v with
  | null => exact ⟨0x6E, _, rfl, by decide, by decide, by decide, by decide⟩
  | bool b => cases b <;> exact ⟨_, _, rfl, by decide, by decide, by decide, by decide⟩
  | int i =>
    simp only [write, intDec]
    split
    · exact ⟨0x2D, _, rfl, by decide, by decide, by decide, by decide⟩
    · obtain ⟨b, t, hb, h1, h2⟩ := natDec_cons i.natAbs
      refine ⟨b, t, hb, ?_, by omega, by omega, by omega⟩
      simp [isWs]; omega
  | float src => simp [wellFormed] at h
  | str cps => exact ⟨0x22, _, rfl, by decide, by decide, by decide, by decide⟩
  | arr xs => exact ⟨0x5B, _, rfl, by decide, by decide, by decide, by decide⟩
  | obj es => exact ⟨0x7B, _, rfl, by decide, by decide, by decide, by decide⟩

/-- What parsing `write F v ++ rest` must give at remaining depth `d`. -/
def expectV (v : JVal) (d : Nat) (rest : List Nat) : Except Err (JVal × List Nat) :=
  if depthOf v < d then .ok (v, rest) else .error .recursionLimit

theorem parse_write_all (F : ExtFloat) :
    (∀ v, wellFormed v = true → ∀ d rest, 0 < d → numEnd rest = true →
      parseValue d (write F v ++ rest) = expectV v d rest) ∧
    (∀ first es, wellFormedEntries es = true → ∀ d rest, 0 < d →
      parseEntries d first (writeEntries F first es ++ 0x7D :: rest) =
        if depthOfEntries es < d then .ok (es, rest) else .error .recursionLimit) ∧
    (∀ first xs, wellFormedList xs = true → ∀ d rest, 0 < d →
      parseElems d first (writeElems F first xs ++ 0x5D :: rest) =
        if depthOfList xs < d then .ok (xs, rest) else .error .recursionLimit) := by
  apply write.mutual_induct
    (motive_1 := fun v => wellFormed v = true → ∀ d rest, 0 < d → numEnd rest = true →
      parseValue d (write F v ++ rest) = expectV v d rest)
    (motive_2 := fun first es => wellFormedEntries es = true → ∀ d rest, 0 < d →
      parseEntries d first (writeEntries F first es ++ 0x7D :: rest) =
        if depthOfEntries es < d then .ok (es, rest) else .error .recursionLimit)
    (motive_3 := fun first xs => wellFormedList xs = true → ∀ d rest, 0 < d →
      parseElems d first (writeElems F first xs ++ 0x5D :: rest) =
        if depthOfList xs < d then .ok (xs, rest) else .error .recursionLimit)
  · -- null
    intro _ d rest hd _
    simp [parseValue_eq, write, skipWs, isWs, classify, ident, expectV, depthOf, hd]
  · intro _ d rest hd _
    simp [parseValue_eq, write, skipWs, isWs, classify, ident, expectV, depthOf, hd]
  · intro _ d rest hd _
    simp [parseValue_eq, write, skipWs, isWs, classify, ident, expectV, depthOf, hd]
  · -- int
    intro i hwf d rest hd hrest
    simp only [wellFormed, decide_eq_true_eq] at hwf
    simp only [write, intDec, expectV, depthOf, hd, if_true]
    split
    · rename_i hneg
      have hn1 : 0 < i.natAbs := by omega
      have hn2 : i.natAbs ≤ 9223372036854775808 := by omega
      rw [parseValue_eq]
      simp only [List.cons_append, skipWs, show isWs 0x2D = false by decide, Bool.false_eq_true, if_false,
        show classify 0x2D = Tok.minus by decide]
      rw [lexNumber_natDec false _ rest hrest, classifyNum_neg _ hn1 hn2]
      simp only [numVal]
      congr 3; omega
    · rename_i hneg
      have hn2 : i.natAbs ≤ u64Max := by unfold u64Max; omega
      obtain ⟨b, t, hb, h1, h2⟩ := natDec_cons i.natAbs
      have hcl : classify b = Tok.digit := by
        have hdg : isDigit b = true := by simp [isDigit]; omega
        unfold classify
        simp only [hdg, if_true]
        rw [if_neg (show ¬ b = 0x6E by omega), if_neg (show ¬ b = 0x74 by omega),
          if_neg (show ¬ b = 0x66 by omega), if_neg (show ¬ b = 0x2D by omega)]
      have hws : isWs b = false := by simp [isWs]; omega
      rw [parseValue_eq]
      have e1 : natDec i.natAbs ++ rest = b :: (t ++ rest) := by rw [hb]; rfl
      rw [e1]
      simp only [skipWs, hws, Bool.false_eq_true, if_false, hcl]
      rw [← e1, lexNumber_natDec true _ rest hrest, classifyNum_pos _ hn2]
      simp only [numVal]
      congr 3; omega
  · intro src hwf; simp [wellFormed] at hwf
  · -- str
    intro cps hwf d rest hd _
    simp only [wellFormed] at hwf
    simp [parseValue_eq, write, writeStr, skipWs, isWs, classify, isDigit, parseStr_writeStr cps rest hwf,
      expectV, depthOf, hd]
  · -- arr
    intro xs ih hwf d rest hd _
    simp only [wellFormed] at hwf
    have e : write F (.arr xs) ++ rest = 0x5B :: (writeElems F true xs ++ 0x5D :: rest) := by
      simp [write]
    rw [e, parseValue_eq]
    simp only [skipWs, show isWs 0x5B = false by decide, Bool.false_eq_true, if_false,
      show classify 0x5B = Tok.lbrack by decide, expectV, depthOf]
    by_cases hd1 : d ≤ 1
    · have : ¬ (depthOfList xs + 1 < d) := by omega
      simp [hd1, this]
    · rw [if_neg hd1, ih hwf (d - 1) rest (by omega)]
      by_cases hlt : depthOfList xs < d - 1
      · have : depthOfList xs + 1 < d := by omega
        simp [hlt, this]
      · have : ¬ (depthOfList xs + 1 < d) := by omega
        simp [hlt, this]
  · -- obj
    intro es ih hwf d rest hd _
    simp only [wellFormed] at hwf
    have e : write F (.obj es) ++ rest = 0x7B :: (writeEntries F true es ++ 0x7D :: rest) := by
      simp [write]
    rw [e, parseValue_eq]
    simp only [skipWs, show isWs 0x7B = false by decide, Bool.false_eq_true, if_false,
      show classify 0x7B = Tok.lbrace by decide, expectV, depthOf]
    by_cases hd1 : d ≤ 1
    · have : ¬ (depthOfEntries es + 1 < d) := by omega
      simp [hd1, this]
    · rw [if_neg hd1, ih hwf (d - 1) rest (by omega)]
      by_cases hlt : depthOfEntries es < d - 1
      · have : depthOfEntries es + 1 < d := by omega
        simp [hlt, this]
      · have : ¬ (depthOfEntries es + 1 < d) := by omega
        simp [hlt, this]
  · -- elems nil
    intro first _ d rest hd
    simp [writeElems, parseElems_eq, skipWs, isWs, depthOfList, hd]
  · -- elems cons
    intro first x xs ih1 ih2 hwf d rest hd
    simp only [wellFormedList, Bool.and_eq_true] at hwf
    have htail : numEnd (writeElems F false xs ++ 0x5D :: rest) = true := by
      cases xs with
      | nil => simp [writeElems, numEnd, isDigit]
      | cons y ys => simp [writeElems, numEnd, isDigit]
    obtain ⟨b, t, hb, hws, hb1, _, _⟩ := write_head F x hwf.1
    have hx := ih1 hwf.1 d _ hd htail
    have hxs := ih2 hwf.2 d rest hd
    rw [hb] at hx
    simp only [List.cons_append] at hx
    have e : writeElems F first (x :: xs) ++ 0x5D :: rest =
        (if first then [] else [0x2C]) ++ (b :: (t ++ (writeElems F false xs ++ 0x5D :: rest))) := by
      simp [writeElems, hb]
    rw [e, parseElems_eq]
    cases first with
    | true =>
      simp only [if_true, List.nil_append, skipWs, hws, Bool.false_eq_true, if_false, hb1, hx, expectV,
        depthOfList]
      by_cases h1 : depthOf x < d
      · simp only [h1, if_true, hxs]
        by_cases h2 : depthOfList xs < d
        · have : max (depthOf x) (depthOfList xs) < d := by omega
          simp [h2, this]
        · have : ¬ (max (depthOf x) (depthOfList xs) < d) := by omega
          simp [h2, this]
      · have : ¬ (max (depthOf x) (depthOfList xs) < d) := by omega
        simp [h1, this]
    | false =>
      simp only [Bool.false_eq_true, if_false, List.cons_append, List.nil_append, skipWs,
        show isWs 0x2C = false by decide, show ¬ (0x2C = 0x5D) by decide, if_true, hws, hb1, hx, expectV,
        depthOfList]
      by_cases h1 : depthOf x < d
      · simp only [h1, if_true, hxs]
        by_cases h2 : depthOfList xs < d
        · have : max (depthOf x) (depthOfList xs) < d := by omega
          simp [h2, this]
        · have : ¬ (max (depthOf x) (depthOfList xs) < d) := by omega
          simp [h2, this]
      · have : ¬ (max (depthOf x) (depthOfList xs) < d) := by omega
        simp [h1, this]
  · -- entries nil
    intro first _ d rest hd
    simp [writeEntries, parseEntries_eq, skipWs, isWs, depthOfEntries, hd]
  · -- entries cons
    intro first k v es ih1 ih2 hwf d rest hd
    simp only [wellFormedEntries, Bool.and_eq_true] at hwf
    have htail : numEnd (writeEntries F false es ++ 0x7D :: rest) = true := by
      cases es with
      | nil => simp [writeEntries, numEnd, isDigit]
      | cons y ys => obtain ⟨ky, vy⟩ := y; simp [writeEntries, numEnd, isDigit]
    have hv := ih1 hwf.1.2 d _ hd htail
    have hes := ih2 hwf.2 d rest hd
    have hk := parseStr_writeStr k (0x3A :: (write F v ++ (writeEntries F false es ++ 0x7D :: rest))) hwf.1.1
    have e : writeEntries F first ((k, v) :: es) ++ 0x7D :: rest =
        (if first then [] else [0x2C]) ++ (0x22 :: (k.flatMap writeCp ++ 0x22 :: 0x3A ::
          (write F v ++ (writeEntries F false es ++ 0x7D :: rest)))) := by
      simp [writeEntries, writeStr]
    rw [e, parseEntries_eq]
    cases first with
    | true =>
      simp only [if_true, List.nil_append, skipWs, show isWs 0x22 = false by decide, Bool.false_eq_true,
        if_false, show ¬ (0x22 = 0x7D) by decide, keyStart, hk, show isWs 0x3A = false by decide,
        ne_eq, not_true_eq_false, hv, expectV, depthOfEntries]
      by_cases h1 : depthOf v < d
      · simp only [h1, if_true, hes]
        by_cases h2 : depthOfEntries es < d
        · have : max (depthOf v) (depthOfEntries es) < d := by omega
          simp [h2, this]
        · have : ¬ (max (depthOf v) (depthOfEntries es) < d) := by omega
          simp [h2, this]
      · have : ¬ (max (depthOf v) (depthOfEntries es) < d) := by omega
        simp [h1, this]
    | false =>
      simp only [Bool.false_eq_true, if_false, List.cons_append, List.nil_append, skipWs,
        show isWs 0x2C = false by decide, show ¬ (0x2C = 0x7D) by decide, keyStart, if_true,
        show isWs 0x22 = false by decide, hk, show isWs 0x3A = false by decide,
        ne_eq, not_true_eq_false, hv, expectV, depthOfEntries]
      by_cases h1 : depthOf v < d
      · simp only [h1, if_true, hes]
        by_cases h2 : depthOfEntries es < d
        · have : max (depthOf v) (depthOfEntries es) < d := by omega
          simp [h2, this]
        · have : ¬ (max (depthOf v) (depthOfEntries es) < d) := by omega
          simp [h2, this]
      · have : ¬ (max (depthOf v) (depthOfEntries es) < d) := by omega
        simp [h1, this]

/-! ## The UTF-8 well-formedness automaton -/

theorem u8run_append (s : U8) (a b : List Nat) : u8run s (a ++ b) = u8run (u8run s a) b := by
  simp [u8run, List.foldl_append]

theorem u8run_cons (s : U8) (b : Nat) (l : List Nat) : u8run s (b :: l) = u8run (u8step s b) l := rfl

theorem u8run_nil (s : U8) : u8run s [] = s := rfl

theorem u8run_rej (l : List Nat) : u8run .rej l = .rej := by
  induction l with
  | nil => rfl
  | cons b l ih => rw [u8run_cons]; simpa [u8step] using ih

/-- A byte that cannot continue a multi-byte sequence. -/
def nonCont (b : Nat) : Bool := b < 0x80 || 0xC0 ≤ b

theorem u8step_nonCont (s : U8) (b : Nat) (hs : s ≠ .acc) (hb : nonCont b = true) :
    u8step s b = .rej := by
  simp [nonCont] at hb
  cases s <;> simp [u8step, isCont] at hs ⊢ <;> omega

theorem u8run_ascii (l : List Nat) (h : ∀ b ∈ l, b < 0x80) : u8run .acc l = .acc := by
  induction l with
  | nil => rfl
  | cons b l ih =>
    have hb := h b (by simp)
    rw [u8run_cons]
    simp only [u8step, hb, if_true]
    exact ih (fun x hx => h x (by simp [hx]))

theorem u8run_utf8 (c : Nat) (h : isScalar c = true) : u8run .acc (utf8 c) = .acc := by
  simp only [isScalar, Bool.or_eq_true, Bool.and_eq_true, decide_eq_true_eq] at h
  unfold utf8
  split
  · rename_i h1; simp [u8run, u8step, h1]
  · split
    · rename_i h1 h2
      have e1 : u8step .acc (0xC0 + c / 64) = .c1 := by
        simp only [u8step]; rw [if_neg (by omega), if_pos (by omega)]
      have e2 : u8step .c1 (0x80 + c % 64) = .acc := by
        have hc : isCont (0x80 + c % 64) = true := by simp [isCont]; omega
        simp [u8step, hc]
      simp [u8run, e1, e2]
    · split
      · rename_i h1 h2 h3
        have hc : isCont (0x80 + c % 64) = true := by simp [isCont]; omega
        have e3 : u8step .c1 (0x80 + c % 64) = .acc := by simp [u8step, hc]
        by_cases ha : c / 4096 = 0
        · have e1 : u8step .acc (0xE0 + c / 4096) = .e0 := by simp [u8step, ha]
          have e2 : u8step .e0 (0x80 + c / 64 % 64) = .c1 := by
            simp only [u8step]; rw [if_pos (by omega)]
          simp [u8run, e1, e2, e3]
        · by_cases hb : c / 4096 = 13
          · have e1 : u8step .acc (0xE0 + c / 4096) = .ed := by simp [u8step, hb]
            have e2 : u8step .ed (0x80 + c / 64 % 64) = .c1 := by
              simp only [u8step]; rw [if_pos (by omega)]
            simp [u8run, e1, e2, e3]
          · have e1 : u8step .acc (0xE0 + c / 4096) = .c2 := by
              simp only [u8step]
              rw [if_neg (by omega), if_neg (by omega), if_neg (by omega), if_neg (by omega), if_pos (by omega)]
            have e2 : u8step .c2 (0x80 + c / 64 % 64) = .c1 := by
              have hc' : isCont (0x80 + c / 64 % 64) = true := by simp [isCont]; omega
              simp [u8step, hc']
            simp [u8run, e1, e2, e3]
      · rename_i h1 h2 h3
        have hc : isCont (0x80 + c % 64) = true := by simp [isCont]; omega
        have hc2 : isCont (0x80 + c / 64 % 64) = true := by simp [isCont]; omega
        have e4 : u8step .c1 (0x80 + c % 64) = .acc := by simp [u8step, hc]
        have e3 : u8step .c2 (0x80 + c / 64 % 64) = .c1 := by simp [u8step, hc2]
        by_cases ha : c / 262144 = 0
        · have e1 : u8step .acc (0xF0 + c / 262144) = .f0 := by simp [u8step, ha]
          have e2 : u8step .f0 (0x80 + c / 4096 % 64) = .c2 := by
            simp only [u8step]; rw [if_pos (by omega)]
          simp [u8run, e1, e2, e3, e4]
        · by_cases hb : c / 262144 = 4
          · have e1 : u8step .acc (0xF0 + c / 262144) = .f4 := by simp [u8step, hb]
            have e2 : u8step .f4 (0x80 + c / 4096 % 64) = .c2 := by
              simp only [u8step]; rw [if_pos (by omega)]
            simp [u8run, e1, e2, e3, e4]
          · have e1 : u8step .acc (0xF0 + c / 262144) = .c3 := by
              simp only [u8step]
              rw [if_neg (by omega), if_neg (by omega), if_neg (by omega), if_neg (by omega),
                if_neg (by omega), if_neg (by omega), if_neg (by omega), if_pos (by omega)]
            have e2 : u8step .c3 (0x80 + c / 4096 % 64) = .c2 := by
              have hc' : isCont (0x80 + c / 4096 % 64) = true := by simp [isCont]; omega
              simp [u8step, hc']
            simp [u8run, e1, e2, e3, e4]

/-- `a` and `b` well-formed ⇒ `a ++ b` well-formed. -/
theorem u8_append {a b : List Nat} (ha : u8run .acc a = .acc) (hb : u8run .acc b = .acc) :
    u8run .acc (a ++ b) = .acc := by
  rw [u8run_append, ha, hb]

/-- `b` is empty or starts at a character boundary. -/
def startsOk : List Nat → Bool
  | [] => true
  | b :: _ => nonCont b

/-- `a ++ b` well-formed and `b` starts at a character boundary ⇒ both are
well-formed. -/
theorem u8_split {a b : List Nat} (h : u8run .acc (a ++ b) = .acc) (hb : startsOk b = true) :
    u8run .acc a = .acc ∧ u8run .acc b = .acc := by
  rw [u8run_append] at h
  cases b with
  | nil => simp [u8run_nil] at h; exact ⟨h, rfl⟩
  | cons x t =>
    simp only [startsOk] at hb
    by_cases hs : u8run .acc a = .acc
    · rw [hs] at h; exact ⟨hs, h⟩
    · rw [u8run_cons, u8step_nonCont _ _ hs hb, u8run_rej] at h
      cases h


theorem map_some_rest {α β} {f : α → β} {o : Option α} {y : β} (h : o.map f = some y) : ∃ x, o = some x := by
  cases o with
  | none => simp at h
  | some x => exact ⟨x, rfl⟩

theorem utf8Decode_some_valid : ∀ (l cps : List Nat), utf8Decode l = some cps → u8run .acc l = .acc := by
  intro l
  fun_induction utf8Decode l <;> intro cps h
  case case1 => rfl
  case case2 b0 rest h1 ih =>
    obtain ⟨x, hx⟩ := map_some_rest h
    rw [u8run_cons]; simp only [u8step, h1, if_true]; exact ih x hx
  case case3 b0 h1 h2 b1 rest h3 ih =>
    obtain ⟨x, hx⟩ := map_some_rest h
    have e1 : u8step .acc b0 = .c1 := by simp only [u8step]; rw [if_neg h1, if_pos h2]
    have e2 : u8step .c1 b1 = .acc := by simp [u8step, h3]
    rw [u8run_cons, e1, u8run_cons, e2]; exact ih x hx
  case case6 b0 h1 h2 h3 b1 b2 rest h4 ih =>
    obtain ⟨x, hx⟩ := map_some_rest h
    obtain ⟨h4a, h4b, h4c⟩ := h4
    have e3 : u8step .c1 b2 = .acc := by simp [u8step, h4c]
    rw [u8run_cons, u8run_cons, u8run_cons]
    by_cases ha : b0 = 0xE0
    · subst ha
      simp at h4a h4b
      have e1 : u8step .acc 0xE0 = .e0 := by simp [u8step]
      have e2 : u8step .e0 b1 = .c1 := by simp only [u8step]; rw [if_pos (by omega)]
      rw [e1, e2, e3]; exact ih x hx
    · by_cases hb : b0 = 0xED
      · subst hb
        simp at h4a h4b
        have e1 : u8step .acc 0xED = .ed := by simp [u8step]
        have e2 : u8step .ed b1 = .c1 := by simp only [u8step]; rw [if_pos (by omega)]
        rw [e1, e2, e3]; exact ih x hx
      · simp only [ha, hb, if_false] at h4a h4b
        have e1 : u8step .acc b0 = .c2 := by
          simp only [u8step]
          rw [if_neg h1, if_neg h2, if_neg ha, if_neg hb, if_pos (by omega)]
        have hc : isCont b1 = true := by simp [isCont]; omega
        have e2 : u8step .c2 b1 = .c1 := by simp [u8step, hc]
        rw [e1, e2, e3]; exact ih x hx
  case case9 b0 h1 h2 h3 h4 b1 b2 b3 rest h5 ih =>
    obtain ⟨x, hx⟩ := map_some_rest h
    obtain ⟨h5a, h5b, h5c, h5d⟩ := h5
    have e4 : u8step .c1 b3 = .acc := by simp [u8step, h5d]
    have e3 : u8step .c2 b2 = .c1 := by simp [u8step, h5c]
    rw [u8run_cons, u8run_cons, u8run_cons, u8run_cons]
    by_cases ha : b0 = 0xF0
    · subst ha
      simp at h5a h5b
      have e1 : u8step .acc 0xF0 = .f0 := by simp [u8step]
      have e2 : u8step .f0 b1 = .c2 := by simp only [u8step]; rw [if_pos (by omega)]
      rw [e1, e2, e3, e4]; exact ih x hx
    · by_cases hb : b0 = 0xF4
      · subst hb
        simp at h5a h5b
        have e1 : u8step .acc 0xF4 = .f4 := by simp [u8step]
        have e2 : u8step .f4 b1 = .c2 := by simp only [u8step]; rw [if_pos (by omega)]
        rw [e1, e2, e3, e4]; exact ih x hx
      · simp only [ha, hb, if_false] at h5a h5b
        have e1 : u8step .acc b0 = .c3 := by
          simp only [u8step]
          rw [if_neg h1, if_neg h2, if_neg (by omega), if_neg (by omega), if_neg (by omega), if_neg ha, if_neg hb,
            if_pos (by omega)]
        have hc : isCont b1 = true := by simp [isCont]; omega
        have e2 : u8step .c3 b1 = .c2 := by simp [u8step, hc]
        rw [e1, e2, e3, e4]; exact ih x hx
  all_goals simp at h

/-! Writer output is well-formed UTF-8. -/

theorem hexLower_lt (n : Nat) (h : n < 16) : hexLower n < 0x80 := by
  unfold hexLower; split <;> omega

theorem u8run_writeCp (c : Nat) (h : isScalar c = true) : u8run .acc (writeCp c) = .acc := by
  unfold writeCp
  repeat' split
  all_goals first
    | exact u8run_utf8 c h
    | (apply u8run_ascii; intro b hb; simp at hb; omega)
    | skip
  · rename_i hlt
    apply u8run_ascii; intro b hb; simp at hb
    have := hexLower_lt (c / 16) (by omega)
    have := hexLower_lt (c % 16) (by omega)
    omega

theorem u8run_writeStr (cps : List Nat) (h : allScalars cps = true) : u8run .acc (writeStr cps) = .acc := by
  have hbody : u8run .acc (cps.flatMap writeCp) = .acc := by
    induction cps with
    | nil => rfl
    | cons c cps ih =>
      simp only [allScalars, List.all_cons, Bool.and_eq_true] at h
      rw [List.flatMap_cons]
      exact u8_append (u8run_writeCp c h.1) (ih (by simpa [allScalars] using h.2))
  unfold writeStr
  rw [show 0x22 :: cps.flatMap writeCp ++ [0x22] = [0x22] ++ (cps.flatMap writeCp ++ [0x22]) by simp]
  exact u8_append (by decide) (u8_append hbody (by decide))

theorem u8run_intDec (i : Int) : u8run .acc (intDec i) = .acc := by
  apply u8run_ascii
  intro b hb
  unfold intDec at hb
  split at hb
  · simp at hb
    rcases hb with hb | hb
    · omega
    · have := natDec_digits _ _ hb; omega
  · have := natDec_digits _ _ hb; omega

theorem write_valid_all (F : ExtFloat) :
    (∀ v, wellFormed v = true → u8run .acc (write F v) = .acc) ∧
    (∀ first es, wellFormedEntries es = true → u8run .acc (writeEntries F first es) = .acc) ∧
    (∀ first xs, wellFormedList xs = true → u8run .acc (writeElems F first xs) = .acc) := by
  apply write.mutual_induct
    (motive_1 := fun v => wellFormed v = true → u8run .acc (write F v) = .acc)
    (motive_2 := fun first es => wellFormedEntries es = true → u8run .acc (writeEntries F first es) = .acc)
    (motive_3 := fun first xs => wellFormedList xs = true → u8run .acc (writeElems F first xs) = .acc)
  · intro _; simp only [write]; decide
  · intro _; simp only [write]; decide
  · intro _; simp only [write]; decide
  · intro i _; exact u8run_intDec i
  · intro src h; simp [wellFormed] at h
  · intro cps h; exact u8run_writeStr cps (by simpa [wellFormed] using h)
  · intro xs ih h
    simp only [wellFormed] at h
    rw [write, show 0x5B :: writeElems F true xs ++ [0x5D] = [0x5B] ++ (writeElems F true xs ++ [0x5D]) by simp]
    exact u8_append (by decide) (u8_append (ih h) (by decide))
  · intro es ih h
    simp only [wellFormed] at h
    rw [write, show 0x7B :: writeEntries F true es ++ [0x7D] = [0x7B] ++ (writeEntries F true es ++ [0x7D]) by simp]
    exact u8_append (by decide) (u8_append (ih h) (by decide))
  · intro first _; rfl
  · intro first x xs ih1 ih2 h
    simp only [wellFormedList, Bool.and_eq_true] at h
    rw [writeElems]
    refine u8_append (u8_append ?_ (ih1 h.1)) (ih2 h.2)
    cases first <;> decide
  · intro first _; rfl
  · intro first k v es ih1 ih2 h
    simp only [wellFormedEntries, Bool.and_eq_true] at h
    rw [writeEntries]
    rw [show (if first = true then [] else [0x2C]) ++ writeStr k ++ 0x3A :: write F v ++ writeEntries F false es
      = ((if first = true then [] else [0x2C]) ++ writeStr k) ++ ([0x3A] ++ (write F v ++ writeEntries F false es)) by simp]
    refine u8_append (u8_append ?_ (u8run_writeStr k h.1.1)) (u8_append (by decide) (u8_append (ih1 h.1.2) (ih2 h.2)))
    cases first <;> decide


/-! ## The document loops -/

theorem parseValue_length {d : Nat} {bs rest : List Nat} {v : JVal}
    (h : parseValue d bs = .ok (v, rest)) : rest.length < bs.length := by
  unfold parseValue at h
  split at h
  · simp at h
  · rename_i v' r heq
    simp at h; obtain ⟨_, rfl⟩ := h; exact r.property

theorem skipWs_ws_cons (b : Nat) (l : List Nat) (h : isWs b = true) : skipWs (b :: l) = skipWs l := by
  simp [skipWs, h]

theorem skipWs_append (ws l : List Nat) (h : ∀ b ∈ ws, isWs b = true) : skipWs (ws ++ l) = skipWs l := by
  induction ws with
  | nil => rfl
  | cons b ws ih =>
    rw [List.cons_append, skipWs_ws_cons _ _ (h b (by simp))]
    exact ih (fun x hx => h x (by simp [hx]))

/-- Leading whitespace is invisible to the value parser … -/
theorem parseValue_ws (d : Nat) (ws l : List Nat) (h : ∀ b ∈ ws, isWs b = true) :
    parseValue d (ws ++ l) = parseValue d l := by
  rw [parseValue_eq, parseValue_eq, skipWs_append ws l h]

theorem parseElems_ws (d : Nat) (first : Bool) (ws l : List Nat) (h : ∀ b ∈ ws, isWs b = true) :
    parseElems d first (ws ++ l) = parseElems d first l := by
  rw [parseElems_eq, parseElems_eq, skipWs_append ws l h]

theorem parseEntries_ws (d : Nat) (first : Bool) (ws l : List Nat) (h : ∀ b ∈ ws, isWs b = true) :
    parseEntries d first (ws ++ l) = parseEntries d first l := by
  rw [parseEntries_eq, parseEntries_eq, skipWs_append ws l h]

/-- … and to both document loops. -/
theorem readerLoop_ws (ws l : List Nat) (h : ∀ b ∈ ws, isWs b = true) :
    readerLoop (ws ++ l) = readerLoop l := by
  rw [readerLoop_eq, readerLoop_eq l, skipWs_append ws l h]

theorem sliceDocs_ws (ws l : List Nat) (h : ∀ b ∈ ws, isWs b = true) :
    sliceDocs (ws ++ l) = sliceDocs l := by
  rw [sliceDocs_eq, sliceDocs_eq l, skipWs_append ws l h]

/-- One written document followed by a newline, then anything: both loops take
the document (or stop at the depth limit) and go on with the rest. -/
theorem readerLoop_write (F : ExtFloat) (v : JVal) (l : List Nat) (hwf : wellFormed v = true) :
    readerLoop (write F v ++ 0x0A :: l) =
      if depthOf v < depthLimit then (v :: (readerLoop l).1, (readerLoop l).2)
      else ([], .err .recursionLimit) := by
  obtain ⟨b, t, hb, hws, _⟩ := write_head F v hwf
  have hp := (parse_write_all F).1 v hwf depthLimit (0x0A :: l) (by decide) (by simp [numEnd, isDigit])
  rw [readerLoop_eq]
  rw [hb] at hp ⊢
  simp only [List.cons_append] at hp ⊢
  rw [skipWs_cons _ hws]
  have hnl : readerLoop (0x0A :: l) = readerLoop l := readerLoop_ws [0x0A] l (by simp [isWs])
  by_cases hdp : depthOf v < depthLimit
  · simp only [hp, expectV, hdp, if_true, hnl]
  · simp only [hp, expectV, hdp, if_false]

theorem sliceDocs_write (F : ExtFloat) (v : JVal) (l : List Nat) (hwf : wellFormed v = true) :
    sliceDocs (write F v ++ 0x0A :: l) =
      if depthOf v < depthLimit then (v :: (sliceDocs l).1, (sliceDocs l).2)
      else ([], .err .recursionLimit) := by
  obtain ⟨b, t, hb, hws, _⟩ := write_head F v hwf
  have hp := (parse_write_all F).1 v hwf depthLimit (0x0A :: l) (by decide) (by simp [numEnd, isDigit])
  rw [sliceDocs_eq]
  rw [hb] at hp ⊢
  simp only [List.cons_append] at hp ⊢
  rw [skipWs_cons _ hws]
  have hnl : sliceDocs (0x0A :: l) = sliceDocs l := sliceDocs_ws [0x0A] l (by simp [isWs])
  by_cases hdp : depthOf v < depthLimit
  · simp [hp, expectV, hdp, hnl, endOk, isWs]
  · simp only [hp, expectV, hdp, if_false]


/-- Every document is float-free, well-formed and within the depth limit. -/
def docsOk (docs : List JVal) : Prop := ∀ d ∈ docs, wellFormed d = true ∧ depthOf d < depthLimit

theorem readerLoop_writeDocs (F : ExtFloat) (docs : List JVal) (h : docsOk docs) :
    readerLoop (writeDocs F docs) = (docs, .ok) := by
  induction docs with
  | nil => rw [readerLoop_eq]; simp [writeDocs, skipWs]
  | cons d ds ih =>
    have hd := h d (by simp)
    rw [writeDocs, readerLoop_write F d _ hd.1, if_pos hd.2, ih (fun x hx => h x (by simp [hx]))]

theorem sliceDocs_writeDocs (F : ExtFloat) (docs : List JVal) (h : docsOk docs) :
    sliceDocs (writeDocs F docs) = (docs, .ok) := by
  induction docs with
  | nil => rw [sliceDocs_eq]; simp [writeDocs, skipWs]
  | cons d ds ih =>
    have hd := h d (by simp)
    rw [writeDocs, sliceDocs_write F d _ hd.1, if_pos hd.2, ih (fun x hx => h x (by simp [hx]))]

theorem writeDocs_valid (F : ExtFloat) (docs : List JVal) (h : ∀ d ∈ docs, wellFormed d = true) :
    u8run .acc (writeDocs F docs) = .acc := by
  induction docs with
  | nil => rfl
  | cons d ds ih =>
    rw [writeDocs, show write F d ++ 0x0A :: writeDocs F ds = write F d ++ ([0x0A] ++ writeDocs F ds) by simp]
    exact u8_append ((write_valid_all F).1 d (h d (by simp)))
      (u8_append (by decide) (ih (fun x hx => h x (by simp [hx]))))

theorem sliceLoop_writeDocs (F : ExtFloat) (docs : List JVal) (h : docsOk docs) :
    sliceLoop (writeDocs F docs) = (docs, .ok) := by
  unfold sliceLoop validUtf8
  rw [writeDocs_valid F docs (fun d hd => (h d hd).1)]
  simp [sliceDocs_writeDocs F docs h]

/-! ## Slice loop vs reader loop -/

theorem slice_reader_aux : ∀ (n : Nat) (bs : List Nat), bs.length ≤ n →
    ((sliceDocs bs).1 <+: (readerLoop bs).1) ∧
    (hasUnseparatedScalar bs = false → sliceDocs bs = readerLoop bs) := by
  intro n
  induction n with
  | zero =>
    intro bs hlen
    have : bs = [] := by cases bs <;> simp_all
    subst this
    rw [sliceDocs_eq, readerLoop_eq]; simp [skipWs]
  | succ n ih =>
    intro bs hlen
    rw [sliceDocs_eq, readerLoop_eq, hasUnseparatedScalar_eq]
    have hsk := skipWs_length_le bs
    cases hs : skipWs bs with
    | nil => simp
    | cons b r =>
      simp only []
      cases hp : parseValue depthLimit (b :: r) with
      | error e => simp
      | ok p =>
        obtain ⟨v, rest⟩ := p
        have hl := parseValue_length hp
        rw [hs] at hsk
        have hrest : rest.length ≤ n := by simp at hl hsk; omega
        obtain ⟨ih1, ih2⟩ := ih rest hrest
        simp only []
        by_cases hc : (isSelfDelim b || endOk rest) = true
        · simp only [hc, if_true]
          refine ⟨?_, ?_⟩
          · obtain ⟨t, ht⟩ := ih1
            exact ⟨t, by simp [← ht]⟩
          · intro hu
            simp only [Bool.or_eq_false_iff] at hu
            rw [ih2 hu.2]
        · simp only [hc]
          refine ⟨by simp, ?_⟩
          intro hu
          simp only [Bool.or_eq_false_iff, Bool.and_eq_false_iff, Bool.not_eq_false'] at hu
          simp only [Bool.or_eq_true, not_or, Bool.not_eq_true] at hc
          rcases hu.1 with h1 | h1
          · rw [h1] at hc; simp at hc
          · rw [h1] at hc; simp at hc


end Xt.Json
