"""Per-property configuration for ./check: proof obligations (theorem names in
lean/XtModel/Props/<id>.lean), trusted base, assumptions, coverage rule."""

KERNEL = "Lean 4.33.0 kernel + elaborator; lake; axioms allowed: propext, Classical.choice, Quot.sound (audited by #print axioms on every obligation each run; no native_decide, bv_decide, sorry, admit or added axioms)"
CORR = "hand-written Lean model tied to /repo's working tree by the correspondence run (Rust harness drives the real code through cfg(feature=\"verif\") hooks; native Lean driver answers the same case lines; answers diffed)"
HARNESS = "harness/ (scripted readers/writers, generators, canonicalisation), the hook wrappers in /repo/src/verif.rs (forwarding only), ./check's diff"



def _load():
    import importlib.util, os, sys
    props, texts = {}, {}
    d = os.path.join(os.path.dirname(os.path.abspath(__file__)), "props")
    sys.modules.setdefault("propsdef", sys.modules[__name__])
    for fn in sorted(os.listdir(d)):
        if fn.endswith(".py") and fn[0] == "C":
            spec = importlib.util.spec_from_file_location("props_" + fn[:-3], os.path.join(d, fn))
            m = importlib.util.module_from_spec(spec)
            spec.loader.exec_module(m)
            props[fn[:-3]] = m.PROP
            texts[fn[:-3]] = m.MANIFEST
    return props, texts


PROPS, MANIFEST_TEXT = _load()
