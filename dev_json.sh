#!/bin/sh
# Development run for the JSON model slice: build model + driver + harness,
# run the `json` / `jsonstr` / `jsonnum` engines on both sides, diff.
set -e
here=$(cd "$(dirname "$0")" && pwd)
tier=${1:-quick}
seed=${2:-1}
work="$here/.work/json"
(cd "$here/lean" && lake build XtModel.Props.Json xtmodel 2>&1 | grep -v -i conda | tail -n 40)
if grep -n -E 'sorry|admit|^axiom|native_decide|bv_decide|implemented_by|unsafe |maxHeartbeats 0|partial def' \
    "$here"/lean/XtModel/Model/Json.lean "$here"/lean/XtModel/Lemmas/Json.lean "$here"/lean/XtModel/Props/Json.lean; then
  echo "textual audit: FORBIDDEN token found"; exit 1
fi
(cd "$here/harness" && cp /repo/Cargo.lock . && CARGO_NET_OFFLINE=true cargo build --release --offline 2>&1 | grep -v -i conda | tail -n 5)
mkdir -p "$work"
"$here/harness/target/release/xtverif" run JSONDEV "$tier" "$seed" "$work"
"$here/lean/.lake/build/bin/xtmodel" < "$work/cases.txt" > "$work/model.out"
n=$(wc -l < "$work/cases.txt")
if diff "$work/model.out" "$work/impl.out" > "$work/diff.txt"; then
  echo "correspondence: $n cases, 0 disagreements"
else
  d=$(grep -c '^<' "$work/diff.txt" || true)
  echo "correspondence: $n cases, $d DISAGREEMENTS (see $work/diff.txt)"
  head -n 20 "$work/diff.txt"
  exit 1
fi
python3 - "$work/report.json" <<'PY'
import json, sys
r = json.load(open(sys.argv[1]))
print("evaluations", r["evaluations"], "distinct_nontrivial", r["distinct_nontrivial"], "failures", r["failure_count"])
for k, v in r["counters"].items():
    print(f"  {k}: {v}")
for f in r["failures"][:10]:
    print("FAIL", f)
sys.exit(1 if r["failure_count"] else 0)
PY
