#!/bin/sh
# Runs every seeded change against the check of the property it targets (quick tier).
cd "$(dirname "$0")/.."
for d in seeded/*/; do
  id=$(basename "$d")
  prop=$(echo "$id" | cut -d- -f1)
  python3 tools/run_seeded.py "$id" "$prop" "$@" 2>&1 | grep -E "^$id|refusing|apply"
done
