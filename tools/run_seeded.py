#!/usr/bin/env python3
"""Applies a seeded change (seeded/<id>/patch.diff) to /repo, runs the given
checks (default: the property the change targets), prints which of them raise
an alarm, and restores /repo.  Usage: tools/run_seeded.py <seeded-id> [Cnn ...] [--tier quick|thorough]"""
import json, os, subprocess, sys, time
ROOT = os.path.dirname(os.path.dirname(os.path.abspath(__file__)))

def main():
    args = [a for a in sys.argv[1:] if not a.startswith("--")]
    tier = "quick"
    for a in sys.argv[1:]:
        if a.startswith("--tier="):
            tier = a.split("=", 1)[1]
    sid = args[0]
    d = os.path.join(ROOT, "seeded", sid)
    meta = json.load(open(os.path.join(d, "meta.json")))
    checks = args[1:] or [meta["property"]]
    st = subprocess.run(["git", "-C", "/repo", "status", "--porcelain"], capture_output=True, text=True).stdout.strip()
    if st:
        print("refusing: /repo has uncommitted changes:\n" + st)
        return 2
    r = subprocess.run(["git", "-C", "/repo", "apply", os.path.join(d, "patch.diff")], capture_output=True, text=True)
    if r.returncode != 0:
        print("patch does not apply:", r.stderr)
        return 2
    results = {}
    import shutil, tempfile
    backup = tempfile.mkdtemp(prefix="evidence-backup-", dir=os.path.join(ROOT, ".work"))
    shutil.copytree(os.path.join(ROOT, "evidence"), os.path.join(backup, "evidence"))
    try:
        for c in checks:
            t0 = time.time()
            p = subprocess.run([os.path.join(ROOT, "check"), c, "--tier", tier], cwd=ROOT, capture_output=True, text=True)
            viol = [l for l in p.stdout.splitlines() if l.startswith("VIOLATION")]
            results[c] = {"exit": p.returncode, "violation": viol[:1], "wall_s": round(time.time() - t0, 1)}
            replay = ""
            if viol and "replay=" in viol[0]:
                path = viol[0].split("replay=")[1].split()[0]
                try:
                    body = json.load(open(path))
                    replay = body.get("statement") or json.dumps(body.get("no_longer_checks", ""))[:300]
                    replay += " :: " + (body.get("detail", "")[:300])
                except Exception:
                    pass
            print(f"{sid} {c} tier={tier}: exit {p.returncode} {'DETECTED' if p.returncode == 1 else 'missed'} ({results[c]['wall_s']}s) {viol[:1]} {replay}")
    finally:
        subprocess.run(["git", "-C", "/repo", "checkout", "--", "."], check=True)
        subprocess.run(["git", "-C", "/repo", "clean", "-fdq", "src"], check=False)
        # Evidence must describe runs against the unchanged tree only.
        shutil.rmtree(os.path.join(ROOT, "evidence"))
        shutil.copytree(os.path.join(backup, "evidence"), os.path.join(ROOT, "evidence"))
        shutil.rmtree(backup)
    return 0

if __name__ == "__main__":
    sys.exit(main())
