#!/usr/bin/env python3
"""Intake of a seeded change written by an independent agent.
  tools/intake_seeded.py Cnn i [demo-command-template]
Copies /tmp/mut/Cnn-out/{patch{i}.diff,demo{i},meta{i}.json} to seeded/Cnn-i/,
then CONFIRMS in the scratch worktree /tmp/mut/Cnn: with the change the crate
builds (guard off and on) and the unedited suite passes 142/142 and the
demonstration fails; without it the demonstration passes.  Records what was run
in seeded/Cnn-i/meta.json.  Default demo command: `sh demo/run.sh <worktree>`."""
import json, os, shutil, subprocess, sys
ROOT = os.path.dirname(os.path.dirname(os.path.abspath(__file__)))
ENV = dict(os.environ, CARGO_NET_OFFLINE="true")

def sh(cmd, cwd=None, timeout=3000):
    p = subprocess.run(cmd, shell=True, cwd=cwd, env=ENV, capture_output=True, text=True, timeout=timeout)
    return p.returncode, (p.stdout + p.stderr)

def main():
    pid, i = sys.argv[1], sys.argv[2]
    opts = dict(a.lstrip("-").split("=", 1) for a in sys.argv[3:] if a.startswith("--") and "=" in a)
    sys.argv = [a for a in sys.argv if not a.startswith("--")]
    src = opts.get('src') or f"/tmp/mut/{pid}-{opts.get('out', 'out')}"
    wt = opts.get('wt') or f"/tmp/mut/{pid}"
    dst = os.path.join(ROOT, "seeded", f"{pid}-{opts.get('as', i)}")
    if os.path.exists(dst):
        shutil.rmtree(dst)
    os.makedirs(dst)
    shutil.copy(f"{src}/patch{i}.diff", f"{dst}/patch.diff")
    if os.path.isdir(f"{src}/demo{i}"):
        shutil.copytree(f"{src}/demo{i}", f"{dst}/demo", ignore=shutil.ignore_patterns("target"))
    meta = json.load(open(f"{src}/meta{i}.json"))
    demo_cmd = sys.argv[3] if len(sys.argv) > 3 else "bash demo/run.sh {wt}"
    demo_cmd = demo_cmd.replace("{wt}", wt)
    log = []
    rc, out = sh("git checkout -- . && git status --short", cwd=wt)
    assert out.strip().replace("\n", "") == "" or "conda" in out, out
    # without the change: demo passes
    rc0, out0 = sh(demo_cmd, cwd=dst)
    log.append({"cmd": f"(unchanged tree) {demo_cmd}", "exit": rc0, "tail": out0[-300:]})
    # with the change
    rc, out = sh(f"git apply {dst}/patch.diff", cwd=wt)
    log.append({"cmd": "git apply patch.diff", "exit": rc, "tail": out[-200:]})
    rcb, outb = sh("cargo build --offline 2>&1 | tail -2 && cargo build --offline --features verif 2>&1 | tail -2", cwd=wt)
    log.append({"cmd": "cargo build --offline; cargo build --offline --features verif", "exit": rcb, "tail": outb[-300:]})
    rct, outt = sh("cargo test --workspace --no-fail-fast --offline 2>&1 | grep -E '^test result|error(\\[|:)'", cwd=wt)
    passed = sum(int(l.split("ok. ")[1].split(" passed")[0]) for l in outt.splitlines() if "test result: ok." in l)
    failed = "FAILED" in outt or "error" in outt
    log.append({"cmd": "cargo test --workspace --no-fail-fast --offline", "passed": passed, "failed": failed})
    rc1, out1 = sh(demo_cmd, cwd=dst)
    log.append({"cmd": f"(with the change) {demo_cmd}", "exit": rc1, "tail": out1[-300:]})
    sh("git checkout -- . && git clean -fdq src", cwd=wt)
    for junk in ("demo/target", "demo/work"):
        shutil.rmtree(os.path.join(dst, junk), ignore_errors=True)
    ok = (rc0 == 0 and rc1 != 0 and passed == 142 and not failed and rcb == 0)
    meta["confirmed_by_lead"] = {"ok": ok, "demo_cmd": demo_cmd, "log": log}
    json.dump(meta, open(f"{dst}/meta.json", "w"), indent=1)
    print(f"{os.path.basename(dst)}: confirmed={ok} demo_without={rc0} demo_with={rc1} tests_passed={passed} failed={failed} build={rcb}")
    if not ok:
        for l in log:
            print("  ", l)
    return 0 if ok else 1

if __name__ == "__main__":
    sys.exit(main())
