#!/bin/sh
# False-alarm test: applies each behaviour-preserving refactoring under
# seeded/harmless/ to /repo, runs EVERY check (quick tier) and prints the ones
# that raise an alarm; restores /repo and the evidence files afterwards.
cd "$(dirname "$0")/.."
mkdir -p .work/ev-harmless && cp evidence/*.json .work/ev-harmless/
for h in seeded/${HARMLESS_DIR:-harmless}/h*.diff; do
  name=$(basename "$h" .diff)
  if [ -n "${HARMLESS_ONLY:-}" ] && ! echo " $HARMLESS_ONLY " | grep -q " $name "; then continue; fi
  if [ -n "$(git -C /repo status --porcelain)" ]; then echo "refusing: /repo dirty"; exit 2; fi
  git -C /repo apply "$(pwd)/$h" || { echo "$name: does not apply"; continue; }
  for P in C01 C02 C03 C04 C05 C06 C07 C08 C09 C10 C11 C12 C13 C14 C15 C16 C17 C18; do
    out=$(./check $P --tier quick 2>&1)
    rc=$?
    v=$(echo "$out" | grep -E "^VIOLATION" | head -1 | cut -c1-160)
    echo "$name $P exit=$rc $v"
  done
  git -C /repo checkout -- .
done
cp .work/ev-harmless/*.json evidence/
