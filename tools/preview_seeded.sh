#!/bin/bash
# Preview of a seeded change WITHOUT touching /repo (used while other runs need
# /repo unchanged): the patch is applied to a scratch worktree of /repo, the xt
# binaries and a copy of the harness are built against it, and the harness +
# model driver are run for one property (no Lean obligations, no generator).
#   tools/preview_seeded.sh seeded/Cnn-i [Cmm] [tier] [verif-root]
# The registered checks never use this; it is a development aid.
set -u
S=$(readlink -f "$1"); P=${2:-$(basename "$S" | cut -d- -f1)}; TIER=${3:-quick}; V=${4:-/verif}
# (a directory without patch.diff = the unchanged tree)
X=${LANE:-0}; W=/tmp/preview-wt$X; H=/tmp/preview-harness$X; T=/tmp/preview-target$X
export CARGO_NET_OFFLINE=true
if [ ! -d $W ]; then git -C /repo worktree add --detach $W >/dev/null 2>&1; fi
git -C $W checkout -q -- . && git -C $W clean -fdq src
if [ -f "$S/patch.diff" ]; then git -C $W apply "$S/patch.diff" || { echo "patch does not apply"; exit 2; }; else echo "(no patch: unchanged tree)"; fi
rm -rf $H; mkdir -p $H; cp -r $V/harness/src $V/harness/Cargo.toml $H/; cp /repo/Cargo.lock $H/
sed -i "s#path = \"/repo\"#path = \"$W\"#" $H/Cargo.toml
sed -i "s#\"/repo/#\"$W/#g" $H/src/engines/cli.rs
(cd $H && cargo build --release --offline --target-dir $T/h 2>&1 | grep -E "^error|warning: unused" -A5 | head -20)
(cd $W && cargo build --offline --bin xt --target-dir $T/x 2>&1 | grep -E "^error" -A5; cargo build --release --offline --bin xt --target-dir $T/x 2>&1 | grep -E "^error" -A5)
OUT=/tmp/preview-out$X; rm -rf $OUT; mkdir -p $OUT
mkdir -p $H/../preview-lean >/dev/null 2>&1
cd $V
XT_BIN_DEBUG=$T/x/debug/xt XT_BIN_RELEASE=$T/x/release/xt timeout 1500 $T/h/release/xtverif run $P $TIER ${SEED:-1} $OUT > $OUT/harness.log 2>&1
rc=$?
echo "harness rc=$rc"
if [ $rc -ne 0 ]; then tail -3 $OUT/harness.log; $T/h/release/xtverif crumb-show $OUT/crumb.bin 2>/dev/null | cut -c1-300; fi
if [ -f $OUT/report.json ]; then
  $V/lean/.lake/build/bin/xtmodel < $OUT/cases.txt > $OUT/model.out
  python3 - <<PY
import json
r=json.load(open('$OUT/report.json'))
known=[k for k in json.load(open('$V/known_findings.json'))['findings'] if k.get('status')=='known']
fs=[f for f in r['failures'] if not any(k.get('class') and k['class']==f.get('class') and ('$P'==k['property'] or '$P' in k.get('also',[])) for k in known)]
print('failures (not known):', len(fs))
for f in sorted(fs,key=lambda f:len(f['detail']))[:2]: print('  ',f['what'],':',f['detail'][:400])
a=open('$OUT/impl.out').read().splitlines(); b=open('$OUT/model.out').read().splitlines(); c=open('$OUT/cases.txt').read().splitlines()
d=[(x,y,z) for x,y,z in zip(c,a,b) if y!=z]
print('correspondence cases:',len(c),'disagreements:',len(d)+abs(len(a)-len(b)))
for x,y,z in sorted(d,key=lambda t:len(t[0]))[:2]: print('  case',x[:200],'\n    impl ',y[:200],'\n    model',z[:200])
PY
fi
git -C $W checkout -q -- .
