from propsdef import KERNEL, CORR, HARNESS

PROP = {
    "needs_binary": True,
    "obligations": [
        "Xt.Props.C18.msgpack_slice_eq_reader",
        "Xt.Props.C18.depth_verdict_slice_eq_reader",
        "schedule_irrelevant_bytes", "toml_source_supply_independent",
        "Xt.Props.C09.capture_transparent", "Xt.Props.C09.detection_then_takeover",
        "Xt.Props.C09.no_fault_no_error", "Xt.Props.C09.eof_flips_to_slice",
        "Xt.Props.C07.utf8_read_schedule", "Xt.Props.C07.reencode_reads_eq_utf8",
        "Xt.Props.C03.chunker_readahead_independent", "Xt.Props.C03.chunker_partition",
        "Xt.Props.Json.json_slice_eq_reader_partial", "Xt.Props.Json.json_slice_docs_prefix",
        "Xt.Props.Json.json_unseparated_counterexample",
    ],
    "trusted_base": [
        KERNEL, CORR, HARNESS,
        "modelled exactly and checked by correspondence (in the runs of C09, C07, C03 and the JSON engine): input handle / capture reader, re-encoder, chunker, serde_json's reader and the two JSON loops",
        "NOT modelled (sampled through xt's API on every run): serde_yaml's whole-stream parse vs chunk-then-parse (Y.SplitConsistent), toml::Value::try_from vs Value::deserialize, libyaml's tokenizer",
    ],
    "assumptions": [
        "each third-party parser is a function of the byte stream it reads (StreamFunctional) -- sampled: every corpus input is translated from a slice and through readers under several schedules, for every source selection and target",
        "std BufReader / Chain / Take / read_to_end behave per their documented contract",
    ],
    "rule": "implementation-level: the shared corpus (valid single- and multi-document streams of the 4 formats, mutated / truncated / spliced variants, every prefix of small documents, exhaustive short token sequences over each format's alphabet, MessagePack-marker and U+0700-U+07FF first bytes, UTF-16/32 YAML, random bytes) x {detect, 4 explicit sources} x targets x {slice vs reader all-at-once, 1-byte, random caps, one cut at a chosen offset (+ 2,3/1,7,large-random in thorough)}: same verdict, identical output on success, prefix-comparable output on failure. Known findings K1-K3 are recognised by independent class predicates (top-level JSON scan; libyaml event trace without DOCUMENT-START; repeated key). Non-trivial = the slice run succeeded with non-empty output; distinct = distinct (input, source, target, schedule).",
    "hypotheses": [
        "StreamFunctional(serde_json, rmp_serde, serde_yaml+libyaml, toml) -- sampled as translate_slice(b) ~ translate_reader(schedule(b))",
        "Y.SplitConsistent -- sampled (K2 is its failure at zero documents)",
    ],
    "explanation": "Partial where third-party parsers are involved: theorems cover xt's own input handling, re-encoder, chunker and the JSON loops; MessagePack's slice/reader equivalence is in the C18 file.",
}

MANIFEST = {
    "text": "Lean 4 theorems: the rewindable input handle hands the translator exactly the original bytes for every source, read schedule and detection history (composed into schedule_irrelevant_bytes); the re-encoder's stream is independent of read sizes; the chunker's documents are independent of libyaml's read-ahead; the JSON slice loop and reader loop agree on every byte string outside known finding K1's class (proved counterexample inside it). Each model is tied to the code by its own correspondence run; the behaviour of the third-party parsers under different supplies is a named hypothesis exercised on every run by translating a structured corpus from a slice and through scheduled readers.",
    "design_ref": "DESIGN.md section 7 C02",
    "note": "Trusted: Lean kernel (propext/Classical.choice/Quot.sound), correspondence harnesses of C09/C07/C03/JSON. Sampled, not proved: serde_yaml / toml / libyaml stream-functionality. Known findings K1, K2, K3 are listed in known_findings.json and recognised by class predicates.",
    "technique": "Lean 4 proof (invariant over handle programs; loop equivalence by induction on input length) + model/implementation correspondence + sampled third-party hypotheses",
}
