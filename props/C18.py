from propsdef import KERNEL, CORR, HARNESS

PROP = {
        "obligations": [
            "no_panic_msgsize", "size_eq_extent", "size_eq_extent_needs_budget", "size_ok_of_decode_ok",
            "calculator_laxer_than_decoder", "decode_accepts_only_within", "decode_depth_irrelevant",
            "msgpack_depth_boundary_any_spelling", "msgpack_depth_boundary",
            "msgpack_slice_eq_reader", "msgpack_slice_eq_reader_budgets", "depth_verdict_slice_eq_reader",
            "recursion_bounded", "msgpack_roundtrip", "illformed_str_becomes_bin", "msgpack_frame_recover",
            "msgpack_fixed_point", "decoded_values_wellformed", "msgpack_fixed_point_any_input", "own_msgpack_first_byte",
        ],
        "needs_binary": True,
        "timeout": {"quick": 900, "thorough": 3000},
        "trusted_base": [
            KERNEL, CORR, HARNESS,
            "modelled exactly and checked by correspondence: src/msgpack.rs next_value_size / total_seq_size / total_map_size / try_read_length (every index, slice, unwrap and `depth_limit - 1` an explicit panic outcome), the slice loop and the reader loop of msgpack::transcode, rmp::Marker::from_u8 (all 256 bytes), DEPTH_LIMIT (checked against the model's constant on every run)",
            "modelled concretely from the crate source and checked by correspondence through xt's own m->m translation and the transcode_stream hook: rmp_serde 1.1.2 Deserializer::deserialize_any as driven by xt's visitor (bytes read per marker, order of reads, depth_count! on arrays, maps and ext, invalid-UTF-8 str handed over as bytes, ext rejected by the visitor's default visit_newtype_struct) and rmp_serde's Serializer (minimal-width integers, str/bin/array/map headers)",
            "the acceptExt = true branch of the reference decoder (ext values read as type byte + data) is used by no xt path and is not exercised by the correspondence",
            "usize arithmetic is modelled in Nat; no_panic_msgsize bounds every successful sum by the input length and every `k + length prefix` by 5 + 2^32, which excludes overflow on a 64-bit target",
            "the real xt binaries (debug and release, built from /repo's working tree by ./check) on their default main-thread stack; the observed wait status",
        ],
        "assumptions": [
            "JSON (serde_json, limit 128), YAML (serde_yaml/libyaml, limit 128 + 1) and TOML (toml, limit 80) nesting limits are not modelled in Lean: for these formats the property is sampled -- every depth in a window around the measured limit and at 10^3 .. 10^6, every nesting shape, all 4 targets, explicit and detected source, slice vs reader, and the debug and release binaries' exit status",
            "the writers' recursion (serde_json / serde_yaml / toml / rmp_serde serializers at up to 1023 levels) fits the default main-thread stack: sampled by running the debug and release binaries for every target at every depth in the windows",
            "stack size is a runtime quantity: recursion_bounded bounds the number of nested next_value_size frames by depth_limit + 1, not their size in bytes",
            "the partial output of the document that fails is not part of the loop model; at byte level the harness checks that the slice output is a prefix of the reader output",
        ],
        "rule": "correspondence: msgclass all 256 bytes; msgsize = every first byte x 6 tails x 4 budgets, generated values in every width spelling at budgets 0..6 and 1024, every truncation, mutations/splices, length prefixes up to 2^32-1 on every prefixed marker, 8 nesting shapes x 6 innermost values x depths limit-6..limit+6 and small depths at budgets n-2..n+3, token-exhaustive inputs up to length 3 (4 thorough) over 20 marker representatives, random bytes; msgdecode = xt m->m through translate_slice and translate_reader (verdict, kind of error, number of complete documents, output bytes) on generated document streams in every spelling, truncations, mutations, every first byte x 5 tails, UTF-8 boundary strings, huge counts, nesting windows; msgdec1 = one document through the transcode_stream hook with the deserializer's depth counter set to 1..5 and 1024, incl. UTF-8 class-exhaustive strings of length 1-2 (sampled 3-4) and integer boundaries in every width. Implementation-level: (a) verdict and output of slice vs reader for 4 formats x all shapes x depth windows and 1..10^5 (10^6 thorough) x 4 targets x explicit/detected; (b) MessagePack 1023 accepted / 1024 rejected in both modes for 8 shapes x 5 innermost values x 4 targets; (c) debug+release binaries, file (mmap) and stdin input, exit 0/1 never a signal, up to 10^6 levels. Non-trivial = non-empty input with budget > 0 (msgsize), at least one document or an error (msgdecode), every msgdec1 case, a successful translation (statements); distinct = distinct case text.",
        "hypotheses": [
            "NestingLimitClean(serde_json 128, serde_yaml 128, toml 80) -- sampled as verdict(slice) == verdict(reader), no panic, binary exit 0/1 on windows around each limit and at 10^3..10^6",
            "WriterRecursionFitsMainThreadStack(debug, release) -- sampled by the real binaries at every depth in the windows for every target",
        ],
        "explanation": "Measured limits on this tree (largest accepted / smallest rejected, every shape): JSON 127/128, YAML 128/129, TOML 79/80, MessagePack 1023/1024. Depth caps used for YAML: flow mappings (shapes maps/alternating/random) 4000 quick, 10000 thorough, because libyaml's scanner is quadratic in the flow-mapping depth (16000 levels 2 s, 32000 levels 8 s in a release build; 10^6 levels would take hours); block mappings 3000 (text size quadratic); flow sequences 10^5 in the quick tier (a debug build needs 48 s for 10^6).",
    }

MANIFEST = {
        "text": "Machine-checked Lean 4 theorems over a line-for-line model of xt's MessagePack size calculator and of rmp_serde's decoder (with its depth counter) and encoder as xt drives them: for all byte strings and budgets the calculator reaches no panic site and returns sliceable sizes; whenever the decoder reads a value the calculator returns exactly its extent for every budget pair d <= L (so it is never stricter); everything the decoder accepts has fewer than d nested collections and a successful decode does not depend on the counter; hence for every spelling and every nesting shape (arrays, maps, mixtures, key position, every header width, empty innermost collection) 1023 collections are accepted by calculator, decoder, slice loop and reader loop and 1024 are rejected in both modes; for every byte string the slice loop and the reader loop translate the same documents with the same verdict; calculator recursion is bounded by the budget; plus round trip, frame recovery, fixed point and first-byte theorems for the codec. The model is tied to the code by exhaustive (256 markers) and generated correspondence runs (size hook, m->m translation byte for byte, single-document hook at small depth counters). JSON/YAML/TOML limits and the writers' stack use are sampled through the API and the real debug/release binaries up to 10^6 levels.",
        "design_ref": "DESIGN.md section 7 C18 (and the MessagePack theorems of C01 C02 C03 C04 C06 C10)",
        "note": "Trusted: Lean kernel; axioms propext/Classical.choice/Quot.sound only; the correspondence harness and hooks. Proved on the model: everything about MessagePack. Sampled, not proved: the JSON/YAML/TOML limits, writer recursion vs. stack size, the partial output of a failing document.",
        "technique": "Lean 4 proof (strong induction on the depth budget with inner induction on element counts; locality of the decoder; mutual structural induction on values for the round trip) + model/implementation correspondence + implementation-level statements through the API and the real binaries",
    }
