from propsdef import KERNEL, CORR, HARNESS

PROP = {
        "obligations": [
            "no_panic_msgsize",
        ],
        "needs_binary": True,
        "trusted_base": [
            KERNEL, CORR, HARNESS,
        ],
        "assumptions": [
        ],
        "rule": "TBD",
        "hypotheses": [],
    }

MANIFEST = {
        "text": "TBD",
        "design_ref": "DESIGN.md section 7 C18",
        "note": "TBD",
        "technique": "Lean 4 proof + model/implementation correspondence",
    }
