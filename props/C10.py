from propsdef import KERNEL, CORR, HARNESS

PROP = {
    "obligations": [
        "own_msgpack_detected",
        "marker_tables_agree",
        "Xt.Props.C18.own_msgpack_first_byte",
        "Xt.Props.C18.msgpack_roundtrip",
        "own_json_detected", "own_yaml_not_msgpack_not_json", "own_yaml_detected",
        "own_toml_detected_partial", "own_toml_excluded_when_json_accepts",
        "Xt.Props.Json.json_own_output_detected", "Xt.Props.Json.json_dash_not_value",
        "Xt.Props.Json.json_first_byte", "Xt.Props.C09.msgpack_marker_table",
        "Xt.Props.C09.detect_is_first_match",
    ],
    "trusted_base": [
        KERNEL, CORR, HARNESS,
        "modelled concretely and checked by correspondence: the detection decision list and the four trial classifications (detectlist / mpmarker engines), serde_json's compact writer and the JSON detection trial (json / jsondetect engines)",
        "NOT modelled (hypotheses sampled on every run): libyaml says xt's YAML output starts with a collection document (Y.OwnOutputFirstDocIsCollection); toml reads its own pretty output back (T.PrettyParses); rmp_serde's codec is in the C18 files",
    ],
    "assumptions": [
        "Y.OwnOutputFirstDocIsCollection and T.PrettyParses -- sampled: detect(xt(A->F)(d)) == F for every generated collection-rooted document",
        "membership in the property's TOML exclusion classes is decided independently of xt (serde_json / serde_yaml called directly by the harness)",
    ],
    "rule": "implementation-level: collection-rooted documents (empty collections; first keys empty, numeric-looking, quoted, non-ASCII, starting 0x80-0xDF once encoded; generated) x 4 output formats x one or many documents x slice / random reader / 1-byte reader: the detected format is the one written, and xt(None->X)(out) == xt(F->X)(out) (verdict, bytes, error text). TOML outputs an earlier trial accepts (decided with serde_json / serde_yaml directly) are the property's own exclusion and are counted, not checked. Correspondence: JSON trial + writer, decision list, marker table. Non-trivial = explicit re-translation succeeded; distinct = distinct (output text, supply, target).",
    "hypotheses": ["Y.OwnOutputFirstDocIsCollection", "T.PrettyParses"],
}

MANIFEST = {
    "text": "Lean 4 theorems compose the model of detect.rs (decision list + the four trial classifications) with the concrete JSON writer and JSON detection trial: xt's JSON output for any collection-rooted document (any depth, one or many documents) is detected as JSON from a slice and from a reader whatever the other trials would answer; xt's YAML output ('---') is declined by the MessagePack and JSON trials for every continuation and detected as YAML given libyaml's answer; TOML output is detected as TOML exactly under the property's own side conditions (and provably as JSON when the JSON trial accepts its beginning). The MessagePack case is proved in the C18 file. Models are tied to the code by the jsondetect / detectlist / mpmarker correspondences; YAML's and TOML's own parsers are sampled hypotheses.",
    "design_ref": "DESIGN.md section 7 C10",
    "note": "Trusted: Lean kernel, correspondence harness. Sampled: libyaml's and toml's answers on xt's own output.",
    "technique": "Lean 4 proof (composition of the decision-list model with the JSON writer/trial models) + model/implementation correspondence + sampled third-party hypotheses",
}
