from propsdef import KERNEL, CORR, HARNESS
from props.C13 import CLI_BASE

PROP = {
        "needs_binary": True,
        "obligations": [
            "broken_pipe_never_returned", "wrapper_outermost", "cli_epipe_outcome", "cli_other_write_error",
            "exit0_nothing_missing",
        ],
        "trusted_base": CLI_BASE + [
            "NOT modelled (this is why the claim is partial): what the kernel does with signal(SIGPIPE, SIG_DFL) + raise(SIGPIPE) -- that the process then dies by signal 13 without writing anything more. It is observed on real processes on every run (wait status via ExitStatusExt::signal), not proved.",
            "src/pipecheck.rs itself is additionally compiled into the harness (#[path]) and each of its five methods is run against an inner writer returning Ok / EPIPE / ENOSPC in a forked child",
        ],
        "assumptions": [
            "kernel signal delivery (runtime, observed): after raise(SIGPIPE) with the default disposition the process is terminated by signal 13",
            "a closing consumer is represented in the model as a descriptor that accepts exactly k bytes and then answers EPIPE; the theorems hold for every descriptor behaviour, the correspondence uses this one",
            "help and version output bypass the wrapper and ignore write errors (C13.help_write_errors_ignored); the CLI theorems are about translating runs",
        ],
        "rule": "cases: the real pipecheck::Writer, 5 methods x 3 inner results, in a forked child; a consumer that reads exactly k bytes and closes the pipe, k in {0, 1, 4096, 8191, 8192, 8193, 65535, 65536, 65537, 131079} (thorough: 17 values up to 3 pipe capacities + 4097) x 4 targets x {one input, 3-6 inputs} x {files (regular, FIFO; JSON, YAML, MessagePack sources), stdin first}, output always > k + 3 pipe capacities (quick: half of the combinations, ~90 runs; thorough: all, ~270): wait status must be signal 13, stderr empty, and the k bytes received must be the first k bytes of the library's output; /dev/full x 4 targets x 6 (10) output sizes from 0 bytes to tens of KiB, straddling 8 KiB x {one, many inputs} x {files, stdin}: status 1, one xt error line, nothing written; every run also compared with the model (status / signal, stdout, stderr text exactly, with the library's write-error message taken from an in-process run over the real /dev/full). Non-trivial: the run was applicable (enough output remained / some output existed); distinct = distinct case text.",
        "hypotheses": ["Lib (xt::Translator) -- instantiated per case", "KernelSigpipe -- observed on every closing-pipe run"],
        "timeout": {"quick": 600, "thorough": 2400},
    }

MANIFEST = {
        "text": "PARTIAL. Machine-checked Lean 4 theorems over the model of src/pipecheck.rs on top of std's BufWriter and of main, for every behaviour of file descriptor 1 (an arbitrary answer -- accept all / part, EPIPE, other error -- to each write and flush): no Writer method ever returns a BrokenPipe error (each ends in the kill outcome, other results pass unchanged); an EPIPE answer met on any byte path -- direct large write, flush of the buffer to make room inside a write, explicit flush -- ends the method in the kill; a translating run met an EPIPE answer if and only if it ends killed-by-SIGPIPE, then stderr is empty, and it never ends with status 0 or 1; a non-EPIPE error answer ends the run with status 1 and an 'xt error' line. The kill outcome stands for signal(SIGPIPE, SIG_DFL) + raise(SIGPIPE); that the kernel then terminates the process by signal 13 is runtime behaviour, OBSERVED on real processes (a consumer closing the pipe after k bytes: wait status signal 13, empty stderr, exactly the first k bytes delivered) rather than proved.",
        "design_ref": "DESIGN.md section 7 C16",
        "note": "Partial: kernel signal delivery is runtime, observed on real processes by the correspondence run; removing SIG_DFL or the raise is caught only by those runs. Trusted: Lean kernel; axioms propext/Classical.choice/Quot.sound only; the process-level harness; Rust std's Stdout/LineWriter taken as transparent. Observations: help/version output ignores write errors (xt --help > /dev/full exits 0); with -t msgpack the /dev/full message does not mention the device error.",
        "technique": "Lean 4 proof (ghost flags on the descriptor state tracked through every BufWriter / pipecheck method by functional induction; loop invariant) + model/real-process correspondence",
    }
