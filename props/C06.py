from propsdef import KERNEL, CORR, HARNESS

PROP = {
    "obligations": [
        "Xt.Props.C18.msgpack_fixed_point",
        "Xt.Props.C18.msgpack_fixed_point_any_input",
        "json_output_is_fixed_point",
        "Xt.Props.Json.json_fixed_point", "Xt.Props.Json.json_fixed_point_floats",
        "Xt.Props.Json.json_roundtrip", "Xt.Props.Json.json_frame_recover",
        "Xt.Props.C01.toml_reorder_idempotent",
        "Xt.Props.C11.transcode_faithful", "Xt.Props.C11.valuepath_faithful",
        # there and back for JSON / MessagePack on the composed end-to-end model
        "Xt.Props.Fidelity.roundtrip_j_m_j", "Xt.Props.Fidelity.roundtrip_own_output",
    ],
    "trusted_base": [
        KERNEL, CORR, HARNESS,
        "modelled concretely and checked by correspondence: serde_json's compact writer and reader as xt drives them (json / jsonstr / jsonnum engines), the entry order of TOML output (tomlorder engine), the transcoders (in C11's run)",
        "NOT modelled (named hypotheses, sampled on every run through xt's API): serde_yaml and toml writers/readers (Y.Idempotent, T.Idempotent, RoundTrip), float text conversion (ExtFloat.FmtParseFmt); rmp_serde's codec is modelled in the C18 files",
    ],
    "assumptions": [
        "ExtFloat.FmtParseFmt / RoundTrip for serde_json's float formatting and parsing (sampled on boundary and random bit patterns)",
        "Y.Idempotent, T.Idempotent: serde_yaml's and toml's writers are fixed points of their own readers on xt's output (sampled: every generated document is translated to B and B->B again)",
    ],
    "rule": "implementation-level: generated documents (common model for the pair; plus the extensions a pair supports: nulls, non-string keys, binary, non-finite floats, 32-bit floats, TOML date-times) x 16 ordered pairs (A,B) x slice/reader at each hop: xt(B->B)(xt(A->B)(x)) == xt(A->B)(x) byte for byte; xt(B->A)(xt(A->B)(x)) == xt(A->A)(x) (TOML involved: same value up to the permitted reordering; K4 recognised). Correspondence: JSON engines, TOML order engine, and the JSON<->MessagePack end-to-end engines j2m / m2j (with the implementation-level roundtrip_j_m_j: xt's own JSON output -> MessagePack -> JSON is byte-identical). Non-trivial = first hop succeeded with non-empty output; distinct = distinct (input, pair, supply).",
    "hypotheses": ["Y.Idempotent", "T.Idempotent", "ExtFloat.FmtParseFmt", "RoundTrip per crate -- all sampled as the two equations above"],
}

MANIFEST = {
    "text": "Lean 4 theorems: xt's JSON output (one line per document) is read back by both JSON loops as exactly the documents written and re-writing reproduces it byte for byte (floats under a named hypothesis); the permitted TOML reordering is idempotent; the transcoders pass values through unchanged; JSON -> MessagePack -> JSON on the composed end-to-end model reproduces the JSON -> JSON output byte for byte (float-free input, any spelling, any supply modes). The models are tied to the code by the JSON and TOML-order correspondences. For YAML and TOML the writers/readers are third-party parameters: their idempotence and round trip are named hypotheses exercised on every run as the property's own two equations over all 16 pairs.",
    "design_ref": "DESIGN.md section 7 C06",
    "note": "Trusted: Lean kernel, correspondence harness. Sampled, not proved: serde_yaml / toml idempotence, float formatting. Known finding K4 (TOML three-pass order) is recognised in the there-and-back statement.",
    "technique": "Lean 4 proof (writer/parser round trip by induction; framing recovery) + model/implementation correspondence + sampled third-party hypotheses",
}
