from propsdef import KERNEL, CORR, HARNESS

CLI_BASE = [
    KERNEL, CORR, HARNESS,
    "modelled exactly (lean/XtModel/Model/Cli.lean) and checked by correspondence against the real binaries (debug and release, built from /repo's working tree): lexopt 0.3.0 Parser::next / value / Arg::unexpected / Error Display / ValueExt::parse_with; Cli::parse_args; try_parse_format; InputPath::from / open / extension_format with std Path::components / file_name / extension; main's terminal guard, per-input loop and flush; xt_bail! / xt_bail_path!; std::io::BufWriter (8 KiB); pipecheck::Writer",
    "parameters of the model, instantiated per case from the real world: the file system (path -> regular | fifo | directory | missing | unreadable | not-a-directory), stdin bytes, isatty(1), the behaviour of fd 1 (accepts all | accepts n bytes then EPIPE / ENOSPC), and the library (per call: the Write-method events it issues and its verdict, recorded in-process from the real xt::Translator on the same bytes)",
    "trusted, not modelled: Rust std's Stdout (the LineWriter between xt's BufWriter and fd 1 is taken to be transparent: every byte it accepted is delivered by the time flush returns or the process exits through process::exit, which runs std's stdout cleanup); writes to stderr succeed; the kernel (exit status, pipes, FIFOs, ptys, mmap, signal delivery); memmap2; the harness's process runner (std::process::Command, libc::openpty/mkfifo/fork)",
    "outside the model: non-UTF-8 arguments; str Debug escaping of non-ASCII characters that Rust does not print verbatim (the Unicode printable tables are not modelled; generated arguments use printable characters only)",
]

PROP = {
        "needs_binary": True,
        "obligations": [
            "never_panics", "exit_code_spec", "exit1_names_input", "stdout_only_data", "msgpack_never_to_tty",
            "tty_output_not_msgpack", "aliases", "first_decisive_token", "first_decisive_token_run",
            "help_then_error_vs_error_then_help", "help_write_errors_ignored",
        ],
        "trusted_base": CLI_BASE,
        "assumptions": [
            "argv is valid UTF-8; stderr accepts writes",
            "the library call for an input either returns Ok after its write events or returns Err; a failed write makes it return Err (model parameter Lib.onWriteErr; sampled on /dev/full)",
            "Translator::flush reaches the writer as exactly one flush call (checked on every in-process library run: translator_flush_forwards)",
            "stdout_only_data is stated for a descriptor that accepts every write (GoodFd); for failing descriptors see C16",
        ],
        "rule": "cases: every argument vector of length <= 1 over the 69-token vocabulary {-f/-t x 8 names x attached/=attached, detached -f/-t, the names alone, invalid names, unknown short/long options, --opt=value, -h --help -V --version, --, -, -/, existing / malformed / undetectable / missing / unreadable / directory / through-a-file paths}; quick: ~1.5k sampled pairs + 800 longer vectors; thorough: all 4761 pairs, all 9261 triples and a quarter of the 194k quadruples over a 21-token reduced vocabulary + 20k random vectors of length 3-6; stdout a pipe (most), a file (1/11) or a pseudo-terminal (1/11), debug binary for 1/6; plus 500 (4000) command lines whose class (valid / one failing input / invalid / help first) is known by construction, 144 (288) pty runs, the format-name table (72 strings) and ~12k (~70k) lexopt token-stream cases against the real lexopt crate. Every run is one spawn of the real binary; exit status, stdout and stderr are compared with the model exactly (stderr byte for byte). A cli case is non-trivial when the run reached a decision (argv error, help, guard, or at least one library call); distinct = distinct case text.",
        "hypotheses": ["Lib (xt::Translator) -- instantiated per case with recorded real behaviour", "TranslatorFlushForwards -- checked on every in-process run"],
        "timeout": {"quick": 600, "thorough": 2400},
    }

MANIFEST = {
        "text": "Machine-checked Lean 4 theorems over an executable model of src/main.rs, src/bail.rs and lexopt's parser, for every argument vector, file system, stdin, tty flag, stdout-descriptor behaviour and library behaviour: the exit status is 0, 1, 2 or death by SIGPIPE; 2 exactly when an argument error is reached before any help/version request (then stdout is empty, no library call is made, stderr is 'xt error: <message>' + usage); 0 exactly for help/version first or a valid command line whose inputs were all opened, translated and flushed; status 1 comes with one 'xt error' line that names the input when the failure is an open or translation failure; stdout holds only library output or exactly the help/version text; MessagePack never reaches a terminal; exactly the eight format names parse. lexopt's state machine driven by parse_args is proved equal to a plain left-to-right reading of the command line for all argv (parseArgs_eq_ref), which also shows lexopt's panic sites unreachable. The model is tied to the real debug and release binaries by process-level correspondence runs (exhaustive short argument vectors, pipe/file/pty) with the library parameter instantiated from the real in-process library.",
        "design_ref": "DESIGN.md section 7 C13",
        "note": "Trusted: Lean kernel; axioms propext/Classical.choice/Quot.sound only; the process-level correspondence harness; Rust std's Stdout/LineWriter taken as transparent; the kernel. Finding recorded as a theorem (help_write_errors_ignored): help/version output ignores write errors (xt --help > /dev/full exits 0). Non-UTF-8 argv is outside the model.",
        "technique": "Lean 4 proof (refinement of lexopt's state machine to a reference parser by functional induction; case analysis of main; loop invariants) + model/real-binary correspondence",
    }
