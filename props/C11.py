from propsdef import KERNEL, CORR, HARNESS

PROP = {
        "obligations": [
            "transcode_first_failure", "first_failure_de", "first_failure_de_independent", "first_failure_de_at_path", "first_failure_ser",
            "display_contains_cause", "no_panic_transcode", "ser_source_has_error",
            "transcode_faithful", "valuepath_faithful", "valuepath_first_failure",
            "toml_target_error_is_de_error", "d7_counterexample",
        ],
        "trusted_base": [
            KERNEL, CORR, HARNESS,
            "modelled exactly and checked by correspondence: src/transcode/stream.rs (transcode, State cells, Visitor::forward_scalar / visit_seq / visit_map, Forwarder::serialize, serialize_with_seed, the three seeds, Display of transcode::Error) and src/transcode/value.rs (Value::deserialize, Value::serialize incl. bytes-as-sequence) through xt::verif::transcode_stream / transcode_value with a scripted serde::Deserializer and a logging serde::Serializer",
            "modelled as a parameter: the deserializer's decoration of errors passing back through deserialize_any (dec); the serializer as an arbitrary state machine over the op alphabet; toml's Value visitor as a table of refusals",
            "not modelled: serde_json / serde_yaml / rmp_serde / toml internals (their own messages are obtained by running the same crate directly in the harness and compared with xt's error text)",
        ],
        "assumptions": [
            "a deserializer calls at most one visitor method per deserialize_any and a SeqAccess/MapAccess calls the seed at most once per call (enforced by Rust move semantics: both are taken by value) and returns the seed's error, possibly decorated, never Ok",
            "a collection serializer's serialize_element / serialize_key / serialize_value calls the element's serialize at most once and returns its error unchanged (sampled: scripted serializer counts the calls; end to end the target's own reason is found in xt's message for serde_json, serde_yaml, rmp_serde)",
            "the Display of a deserializer error shows a custom message and keeps the text of an error it decorates (sampled end to end: null -> TOML and the other refusals carry the target's reason text)",
        ],
        "rule": "correspondence cases: (tree, serializer script) pairs answered by xt::verif::transcode_stream / transcode_value and by the Lean model (result side, both error values, op log, Display text). Quick: the D7 document and every planting of one deserializer failure in it x a serializer failure at every op; every scalar constructor alone / in a sequence / as key and value x every op; all shapes of depth<=2 width<=2 over two leaves and of depth<=3 width<=2 over one leaf x every planted deserializer failure (immediate at any node, between elements, after a key, where the end should be, after the collection) x a serializer failure at every op position (and, for the error-free shapes, every occurrence of every op kind); 600 random trees (depth<=4, any number of failure points) x 5 scripts. Thorough: the same exhaustively for all shapes of depth<=3 width<=2 with composite keys of depth<=2, depth<=3 width<=3 with scalar keys, depth<=2 width<=3 over two leaves, and 6000 random trees. End to end (translate_slice / translate_reader, source format given explicitly): generated documents with one planted defect -- (a) truncation at, and a changed byte at, sampled (thorough: every) byte positions of JSON/YAML/TOML/MessagePack documents and 2-document streams: the message must equal what the source crate itself says when the same bytes are consumed the way xt consumes them (first failure of an independent stringifying reference transcoder written in the harness over the source and target crates), be the same for json/yaml/msgpack targets, and not mention 'translation failed'; if the reference transcoder finds the target refusing an earlier value, the target's reason must be in the message instead; (b) one unrepresentable value (null / sequence / map key -> JSON; binary value or key -> YAML; null, binary, u64 > i64::MAX, non-string keys -> TOML; non-table root -> TOML) planted at a random path of seq-index / map-key / map-value steps, depth <= 6: the message must contain the target crate's own reason obtained by handing the same value to that crate directly (toml: its Value built the way xt builds it for that source and supply mode, text equal); (c) a writer failing from byte k for every k below the fault-free output length, all 16 format pairs x slice / reader / chunked reader: the result must be an error naming the writer's error text, or (MessagePack target, see explanation) naming the serializer error that wraps it with the writer's error in the source() chain. A case is non-trivial when the serializer received at least one op (correspondence) / always for the end-to-end statements, which are only evaluated on defective inputs; distinct = distinct case text.",
        "hypotheses": [
            "SeedOnce/VisitOnce(deserializers) -- by construction (moved values); sampled via scripted deserializer counters",
            "SerializeOnceAndUnchanged(serializers) -- sampled: message of xt contains the target crate's own reason for serde_json, serde_yaml, rmp_serde; writer fault text found for every failing byte k",
            "DisplayKeepsCause(deserializer errors) -- sampled: null / bytes / non-string key -> TOML messages contain toml's reason",
        ],
    }

PROP["explanation"] = (
    "Observed while building (none contradicts the property as stated): (1) rmp_serde's Display for a failed write "
    "('invalid value write: error while writing multi-byte MessagePack value') leaves out the io::Error it wraps, so with the "
    "MessagePack target the writer's own text is only in the error's source() chain; the serializer's own reason is in the message. "
    "(2) On the reader path YAML syntax errors are reported by xt's own libyaml binding (the chunker), which words them like "
    "serde_yaml but prints marks serde_yaml omits (offset 0; a context mark equal to the problem mark), so slice and reader "
    "input can word the same error differently; the chunker also reports a syntax error anywhere in a document before any "
    "value of that document reaches the target, whereas the slice path can report a target refusal of an earlier value first. "
    "(3) transcode::Value (JSON slice input) replays a byte string as a sequence of u8 rather than serialize_bytes; unreachable "
    "through xt because serde_json never produces bytes. (4) JSON slice -> TOML goes through toml::Value::try_from, whose "
    "wording of a refusal ('unsupported unit type') differs from the deserializer route's ('invalid type: unit value, expected "
    "any valid TOML value'); both are toml's own. (5) serde_yaml hands integer-looking and null-looking plain keys to toml as "
    "strings, so those are accepted for YAML -> TOML."
)

MANIFEST = {
        "text": "Machine-checked Lean 4 theorems over a line-by-line model of src/transcode/stream.rs (the (parent, error, source) cells, explicit panic outcomes) for every deserializer behaviour tree (failure points: immediately, between elements, after a key, at the end, after a collection, at any path), every error decoration and every serializer given as a state machine over eleven op kinds: the result and the ops issued are exactly those of feeding the tree's execution-order trace to the serializer and stopping at the first failure; a deserializer-side first failure yields Error::De with the deserializer's own decorated error, identical for every serializer; a serializer-side one (at any op kind, separators included) yields Error::Ser with exactly the serializer's error value; Display prints '{de}: {ser}' / '{de}'; no panic site is reachable; error-free trees deliver flatten(tree) on both the streaming and the collect-then-replay path; toml's Value::deserialize(de)? yields a deserializer-typed error carrying the target's reason; the pre-fix serialize_with_seed is shown (proved counterexample) to drop the cause. The model is tied to the code by an exhaustive (bounded shapes x every failure position x every op) and sampled correspondence run on every check, and the message-level claims are observed end to end through translate_slice / translate_reader against each crate's own messages.",
        "design_ref": "DESIGN.md section 7 C11",
        "note": "Trusted: Lean kernel; axioms propext/Quot.sound only; the correspondence harness (scripted serde pair) and hooks. Assumed and sampled: third-party serializers return an element's error unchanged and call it once; deserializer error Display keeps a decorated/custom message.",
        "technique": "Lean 4 proof (refinement of a direct-style semantics by mutual structural induction over the nested tree type; trace algebra) + model/implementation correspondence + end-to-end message checks against the source/target crates",
    }
