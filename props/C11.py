from propsdef import KERNEL, CORR, HARNESS

PROP = {
        "obligations": [
            "transcode_first_failure", "first_failure_de", "first_failure_de_independent", "first_failure_ser",
            "display_contains_cause", "no_panic_transcode", "ser_source_has_error",
            "transcode_faithful", "valuepath_faithful", "valuepath_first_failure",
            "toml_target_error_is_de_error", "d7_counterexample",
        ],
        "trusted_base": [
            KERNEL, CORR, HARNESS,
            "modelled exactly and checked by correspondence: src/transcode/stream.rs (transcode, State cells, Visitor::forward_scalar / visit_seq / visit_map, Forwarder::serialize, serialize_with_seed, the three seeds, Display of transcode::Error) and src/transcode/value.rs (Value::deserialize, Value::serialize incl. bytes-as-sequence) through xt::verif::transcode_stream / transcode_value with a scripted serde::Deserializer and a logging serde::Serializer",
            "modelled as a parameter: the deserializer's decoration of errors passing back through deserialize_any (dec); the serializer as an arbitrary state machine over the op alphabet; toml's Value visitor as a table of refusals",
            "not modelled: serde_json / serde_yaml / rmp_serde / toml internals (their own messages are obtained by running the same crate directly in the harness and compared with xt's error text)",
        ],
        "assumptions": [
            "a deserializer calls at most one visitor method per deserialize_any and a SeqAccess/MapAccess calls the seed at most once per call (enforced by Rust move semantics: both are taken by value) and returns the seed's error, possibly decorated, never Ok",
            "a collection serializer's serialize_element / serialize_key / serialize_value calls the element's serialize at most once and returns its error unchanged (sampled: scripted serializer counts the calls; end to end the target's own reason is found in xt's message for serde_json, serde_yaml, rmp_serde)",
            "the Display of a deserializer error shows a custom message and keeps the text of an error it decorates (sampled end to end: null -> TOML and the other refusals carry the target's reason text)",
        ],
        "rule": "correspondence cases: (tree, serializer script) pairs answered by xt::verif::transcode_stream / transcode_value and by the Lean model (result side, both error values, op log, Display text). Quick: the D7 document and every planting of one deserializer failure in it x a serializer failure at every op; every scalar constructor alone / in a sequence / as key and value x every op; all shapes of depth<=2 width<=2 over two leaves x every planted deserializer failure (immediate at any node, between elements, after a key, at the end, after the collection) x a serializer failure at every op position and every occurrence of every op kind; 600 random trees (depth<=4, any number of failure points) x 5 scripts. Thorough: the same exhaustively for all shapes of depth<=3 width<=2 (composite keys of depth<=2) and depth<=2 width<=3, and 6000 random trees. End to end (translate_slice / translate_reader): generated documents with one planted defect -- a syntax error (truncation or byte flip at sampled/every byte), one unrepresentable value at a generated path, a writer failing from byte k for every k below the fault-free output length -- x source formats x targets x slice/reader. A case is non-trivial when the serializer received at least one op (correspondence) / the reference run behaved as the defect intends (end to end); distinct = distinct case text.",
        "hypotheses": [
            "SeedOnce/VisitOnce(deserializers) -- by construction (moved values); sampled via scripted deserializer counters",
            "SerializeOnceAndUnchanged(serializers) -- sampled: message of xt contains the target crate's own reason for serde_json, serde_yaml, rmp_serde; writer fault text found for every failing byte k",
            "DisplayKeepsCause(deserializer errors) -- sampled: null / bytes / non-string key -> TOML messages contain toml's reason",
        ],
    }

MANIFEST = {
        "text": "Machine-checked Lean 4 theorems over a line-by-line model of src/transcode/stream.rs (the (parent, error, source) cells, explicit panic outcomes) for every deserializer behaviour tree (failure points: immediately, between elements, after a key, at the end, after a collection, at any path), every error decoration and every serializer given as a state machine over eleven op kinds: the result and the ops issued are exactly those of feeding the tree's execution-order trace to the serializer and stopping at the first failure; a deserializer-side first failure yields Error::De with the deserializer's own decorated error, identical for every serializer; a serializer-side one (at any op kind, separators included) yields Error::Ser with exactly the serializer's error value; Display prints '{de}: {ser}' / '{de}'; no panic site is reachable; error-free trees deliver flatten(tree) on both the streaming and the collect-then-replay path; toml's Value::deserialize(de)? yields a deserializer-typed error carrying the target's reason; the pre-fix serialize_with_seed is shown (proved counterexample) to drop the cause. The model is tied to the code by an exhaustive (bounded shapes x every failure position x every op) and sampled correspondence run on every check, and the message-level claims are observed end to end through translate_slice / translate_reader against each crate's own messages.",
        "design_ref": "DESIGN.md section 7 C11",
        "note": "Trusted: Lean kernel; axioms propext/Quot.sound only; the correspondence harness (scripted serde pair) and hooks. Assumed and sampled: third-party serializers return an element's error unchanged and call it once; deserializer error Display keeps a decorated/custom message.",
        "technique": "Lean 4 proof (refinement of a direct-style semantics by mutual structural induction over the nested tree type; trace algebra) + model/implementation correspondence + end-to-end message checks against the source/target crates",
    }
