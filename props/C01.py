from propsdef import KERNEL, CORR, HARNESS

PROP = {
    "obligations": [
        "Xt.Props.C11.transcode_faithful",
        "Xt.Props.C11.valuepath_faithful",
        "Xt.Props.C18.msgpack_roundtrip",
        "Xt.Props.C18.decode_depth_irrelevant",
        "Xt.Props.Json.json_roundtrip",
        "Xt.Props.Json.json_roundtrip_floats",
        "Xt.Props.Json.json_spellings_partial",
        "toml_reorder_groups", "toml_reorder_stable", "toml_reorder_keys_perm",
        "toml_reorder_idempotent", "toml_written_eq_reorder_partial", "toml_k4_counterexample",
    ],
    "trusted_base": [
        KERNEL, CORR, HARNESS,
        "modelled exactly and checked by correspondence: the entry order of xt's TOML output (toml::Value's three serializer passes + toml_edit's section layout) against the permitted two-group reordering",
        "NOT modelled (parameters with sampled hypotheses): serde_json / serde_yaml / toml / rmp_serde readers and writers, float text<->binary64 conversion; their round-trip behaviour is observed through xt's API with each target crate's own deserializer as the independent reader",
    ],
    "assumptions": [
        "each format crate's own reader (serde_json, rmp_serde, serde_yaml, toml) used by the harness to read xt's output is a faithful independent reader of that format",
        "the harness's spellers produce the intended value (self-checked on every case by reading the spelled text back with the source crate, without xt; mismatches are dropped and counted)",
    ],
    "rule": "implementation-level: type-directed documents over the common data model (nasty string / integer / float pools, depth to 64) x 16 (source,target) pairs x spellings (JSON escapes/whitespace/exponents, MessagePack non-minimal widths, YAML block/flow/quoting, TOML inline/sections) x slice/reader x explicit/detected; output read with the target crate's own deserializer and compared with the generated value (TOML: up to the permitted reordering). Correspondence: entry order of TOML output for every arrangement of <=3 entries over 8 value shapes at the root, one level down and inside an array of tables, plus random trees. Non-trivial = the translation succeeded (statement) / the document has >1 entry or a non-scalar entry (order cases); distinct = distinct input text.",
    "hypotheses": [
        "ExtJson/ExtYaml/ExtToml/ExtMsgpack.RoundTrip -- sampled as read_B(xt(A->B)(spell_A(v))) == v",
        "ExtFloat.RoundTrip (after fix D1) -- sampled on boundary and random binary64 bit patterns",
    ],
    "explanation": "Partial: the TOML-order theorems are proved outright; faithfulness of the streaming transcoder / value path and the MessagePack and JSON codecs are proved in the C11 / C18 files; YAML and TOML surface syntax and float conversion are sampled hypotheses, not theorems.",
}

MANIFEST = {
    "text": "Lean 4 theorems fix what the only permitted reordering is (a stable two-group partition: idempotent, key-preserving, order-preserving inside each group) and prove that the order xt's TOML output actually has equals it whenever no array contains a table (the exact exception is known finding K4, with a proved counterexample); the order model is tied to the code by an exhaustive-over-shapes correspondence. Value fidelity across the 16 pairs rests on third-party readers/writers, which enter as named hypotheses and are exercised on every run through xt's API with each target crate's own deserializer as the independent reader.",
    "design_ref": "DESIGN.md section 7 C01",
    "note": "Trusted: Lean kernel (axioms propext/Classical.choice/Quot.sound), the correspondence harness, each format crate as an independent reader. Sampled, not proved: YAML/TOML surface syntax, float text conversion, third-party round trips.",
    "technique": "Lean 4 proof (mutual structural induction over the nested value type) + model/implementation correspondence + sampled third-party hypotheses",
}
