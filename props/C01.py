from propsdef import KERNEL, CORR, HARNESS

PROP = {
    "obligations": [
        "Xt.Props.C11.transcode_faithful",
        "Xt.Props.C11.valuepath_faithful",
        "Xt.Props.C18.msgpack_roundtrip",
        "Xt.Props.C18.decode_depth_irrelevant",
        "Xt.Props.Json.json_roundtrip",
        "Xt.Props.Json.json_roundtrip_floats",
        "Xt.Props.Json.json_spellings_partial",
        # JSON <-> MessagePack end to end (composition of the Json, MsgpackCodec and transcoder models)
        "Xt.Props.Fidelity.json_to_msgpack_fidelity",
        "Xt.Props.Fidelity.json_to_msgpack_fidelity_of_wf",
        "Xt.Props.Fidelity.json_to_msgpack_fidelity_documents",
        "Xt.Props.Fidelity.json_to_msgpack_fidelity_floats",
        "Xt.Props.Fidelity.msgpack_to_json_fidelity",
        "Xt.Props.Fidelity.msgpack_to_json_fidelity_floatfree",
        "Xt.Props.Fidelity.msgpack_to_json_output",
        "Xt.Props.Fidelity.non_minimal_spellings_irrelevant",
        "Xt.Props.Fidelity.int_width_irrelevant",
        "Xt.Props.Fidelity.unrepresentable_is_error",
        "Xt.Props.Fidelity.bin_value_becomes_array",
        "Xt.Props.Fidelity.failing_document_streamed",
        "Xt.Props.Fidelity.minus_zero_is_float",
        "Xt.Props.Fidelity.five_stays_integer",
        "Xt.Props.Fidelity.bridge_refines_transcoder",
        "Xt.Props.Fidelity.m2j_slice_answer_eq_reader",
        "toml_reorder_groups", "toml_reorder_stable", "toml_reorder_keys_perm",
        "toml_reorder_idempotent", "toml_written_eq_reorder_partial", "toml_k4_counterexample",
    ],
    "trusted_base": [
        KERNEL, CORR, HARNESS,
        "modelled exactly and checked by correspondence: the entry order of xt's TOML output (toml::Value's three serializer passes + toml_edit's section layout) against the permitted two-group reordering",
        "modelled exactly and checked by correspondence (engines j2m / m2j, byte-exact on float-free input, float tokens masked otherwise): the JSON -> MessagePack and MessagePack -> JSON translations end to end, as the composition source loop -> what serde_json / rmp_serde drive xt's visitor with -> flatten -> rmp_serde's / serde_json's Serializer over the op stream (incl. serde_json's map-key rules and serialize_bytes -> array of numbers, rmp_serde's write_sint of a non-negative number) -> framing",
        "NOT modelled (parameters with sampled hypotheses): serde_yaml / toml readers and writers, float text<->binary64 conversion (FloatIO.parse / fmt64 / fmt32); their round-trip behaviour is observed through xt's API with each target crate's own deserializer as the independent reader",
    ],
    "assumptions": [
        "each format crate's own reader (serde_json, rmp_serde, serde_yaml, toml) used by the harness to read xt's output is a faithful independent reader of that format",
        "the harness's spellers produce the intended value (self-checked on every case by reading the spelled text back with the source crate, without xt; mismatches are dropped and counted)",
    ],
    "rule": "implementation-level: type-directed documents over the common data model (nasty string / integer / float pools, depth to 64) x 16 (source,target) pairs x spellings (JSON escapes/whitespace/exponents, MessagePack non-minimal widths, YAML block/flow/quoting, TOML inline/sections) x slice/reader x explicit/detected; output read with the target crate's own deserializer and compared with the generated value (TOML: up to the permitted reordering). Correspondence: (a) JSON<->MessagePack end to end, both supply modes: generated documents at every spelling level, nasty strings / integers, every marker byte as value and as key, all 8 integer markers x boundary payloads (non-negative numbers in signed markers), 13 key kinds x 3 positions, sizes 0..65536 at every header-width boundary, nesting 124..131 and 1021..1026, multi-document streams with every separator, mutated and every-truncation inputs; (b) entry order of TOML output for every arrangement of <=3 entries over 8 value shapes at the root, one level down and inside an array of tables, plus random trees. Non-trivial = the translation succeeded (statement) / the document has >1 entry or a non-scalar entry (order cases); distinct = distinct input text.",
    "hypotheses": [
        "FloatIO.RoundTrip (ryu's text of a finite double reads back through serde_json as that double, as a float literal) -- sampled in the json engine (ExtFloat samples + jsonnum) and end to end by the m2j/j2m fidelity statements; FloatIO.NoNewline likewise; float-free statements need none",
        "ExtJson/ExtYaml/ExtToml/ExtMsgpack.RoundTrip -- sampled as read_B(xt(A->B)(spell_A(v))) == v",
        "ExtFloat.RoundTrip (after fix D1) -- sampled on boundary and random binary64 bit patterns",
    ],
    "explanation": "Partial: for the pairs JSON->MessagePack and MessagePack->JSON the fidelity theorem is proved end to end on the composed model (for every input; floats under the named FloatIO hypotheses), with non_minimal_spellings_irrelevant and unrepresentable_is_error; the TOML-order theorems are proved outright; faithfulness of the streaming transcoder / value path and the MessagePack and JSON codecs are proved in the C11 / C18 files; YAML and TOML surface syntax and float conversion are sampled hypotheses, not theorems.",
}

MANIFEST = {
    "text": "Lean 4 theorems prove the fidelity statement end to end for the pairs JSON->MessagePack and MessagePack->JSON on a model composed of the JSON reader/writer, the MessagePack codec, the transcoder and rmp_serde's / serde_json's serializers (every input, both supply modes: same documents in the same order with the same denotation - entries in order, strings code point for code point, integers as integers; any width spelling gives the same output; what JSON cannot hold is refused without a complete wrong document), tied to the code by a byte-exact end-to-end correspondence. Further Lean 4 theorems fix what the only permitted reordering is (a stable two-group partition: idempotent, key-preserving, order-preserving inside each group) and prove that the order xt's TOML output actually has equals it whenever no array contains a table (the exact exception is known finding K4, with a proved counterexample); the order model is tied to the code by an exhaustive-over-shapes correspondence. Value fidelity across the 16 pairs rests on third-party readers/writers, which enter as named hypotheses and are exercised on every run through xt's API with each target crate's own deserializer as the independent reader.",
    "design_ref": "DESIGN.md section 7 C01",
    "note": "Trusted: Lean kernel (axioms propext/Classical.choice/Quot.sound), the correspondence harness, each format crate as an independent reader. Sampled, not proved: YAML/TOML surface syntax, float text conversion, third-party round trips.",
    "technique": "Lean 4 proof (mutual structural induction over the nested value type) + model/implementation correspondence + sampled third-party hypotheses",
}
