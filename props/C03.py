from propsdef import KERNEL, CORR, HARNESS

PROP = {
    "needs_binary": True,
        "obligations": [
        "Xt.Props.C18.msgpack_frame_recover",
        "Xt.Props.Json.json_frame_recover",
        "Xt.Props.Json.json_split_sources",
        "Xt.Props.Json.json_write_no_newline",
            # chunker (src/yaml/chunker.rs) over an arbitrary parser trace
            "chunker_partition", "chunker_lag_one", "chunker_buffer_bounded", "cutAfter_snoc", "chunker_readahead_independent",
            "no_panic_chunker", "no_panic_chunker_only_utf8", "chunker_panics_without_hypotheses",
            "trim_never_drainRange",
            # Translator + framing of the streaming outputs
            "translator_concat", "translator_concat_calls", "translator_concat_ok",
            "json_frame_one_line_per_doc", "yaml_frame", "msgpack_frame",
            # read-length guards (shared with C04 / C17)
            "copy_len_in_bounds", "overreport_is_stashed", "chunkreader_overreport_is_clean_panic",
            "stash_cleared_on_success", "chunker_stack_overreport",
        ],
        "trusted_base": [
            KERNEL, CORR, HARNESS,
            "modelled exactly and checked by correspondence: Chunker::next (last_document / current_document_kind / stream_ended, deferral of a document to the next document start or the stream end), ChunkReader::trim_to_offset (incl. the retreat over leading spaces of commit 3e903b3) / take_to_offset / read with every unwrap / index / drain / split_off / unchecked subtraction as an explicit panic outcome, read_handler's guards; the framing of json::Output, yaml::Output, msgpack::Output and the document loops / Translator as a fold",
            "not modelled, entered as named hypotheses evaluated on every real trace: libyaml's event offsets (EventsMonotone: document start/end offsets never go backwards, are within what was read and within the stream, a document end only inside a document; ChunksUtf8: every cut is well-formed UTF-8)",
            "not modelled, abstract parameter `Env.body`: what serde_json / serde_yaml / rmp_serde write for ONE document (bytes until success or failure); the per-document bodies in the correspondence are taken from single-document runs of the real code",
            "independent readers used by the implementation-level statement: serde_json StreamDeserializer, serde_yaml multi-document Deserializer, rmp_serde repeated decode (harness/src/gen.rs read_docs)",
        ],
        "assumptions": [
            "EventsMonotone(libyaml) and ChunksUtf8(libyaml): checked on every real event trace of the run (counter stmt.hyp.EventsMonotone+ChunksUtf8); a violation fails the check",
            "the serializers' output for one document does not depend on what was written before it (sampled: output of every generated multi-document / multi-call scenario equals the concatenation of the single-document runs)",
            "a compact JSON body contains no 0x0A (serde_json's compact writer escapes control characters; sampled by json_one_line_per_document)",
            "for an empty output the YAML statement is 'nothing was written' (serde_yaml's iterator reports one null document for an empty string)",
            "for a stream containing a byte libyaml's reader layer rejects, the event trace depends on the read schedule; the correspondence uses the same schedule for the trace and for the chunker",
        ],
        "rule": "chunker: every intro x hand document and every separator x hand document (incl. indented, anchors/aliases, multi-byte, directives, comments, empty documents), generated streams of 0..300 documents, malformed streams, byte mutations, injected read faults at random offsets, documents ending at 8 KiB / 16 KiB / 32 KiB +-k, each read through SchedReader with caps {none,1,small,4096,8191/1/8193,random}; each real trace is given to the model twice (whole stream read / tightest read offsets). guards: over-reporting readers on read call 1..3 with excess {0,1,7,to size-1,size,size+1,size+2,size+4096,2^40,usize::MAX/2,usize::MAX} + random. frame: generated sequences of 1..5 translate calls x {json,yaml,msgpack,toml} sources x slice/reader/detected x 0..400 documents x all separations (JSON none/blank/newlines, YAML ---/.../comments/directives, MessagePack nothing) x boundary-straddling pad documents x malformed tails, for each streaming target. Implementation-level: output == concatenation of single-document translations; target crate's reader recovers exactly N documents equal to the single-document values; JSON one line per document; uniformly indented YAML: reader output == slice output. A case is non-trivial when at least one document was returned / translated or an error branch was reached; distinct = distinct case text.",
        "hypotheses": [
            "EventsMonotone(libyaml) -- evaluated on every real trace",
            "ChunksUtf8(libyaml) -- evaluated on every real trace",
            "BodyIndependentOfPosition(serde_json, serde_yaml, rmp_serde) -- sampled as output == concat(single runs)",
            "JsonBodyHasNoNewline(serde_json compact) -- sampled as one line per document",
        ],
        "explanation": "Findings recorded while building: (1) Chunker::next called again after it returned an Err item never returns (libyaml answers every later parse call with an empty event); xt's two call sites stop at the first Err, so this is not reachable through the API. (2) For YAML input with a byte that libyaml's reader layer rejects, how many documents are translated before the error depends on the read schedule (libyaml decodes its raw buffer ahead of the scanner).",
    }

MANIFEST = {
        "text": "Machine-checked Lean 4 theorems: (a) over a line-by-line model of src/yaml/chunker.rs, for EVERY stream and EVERY parser event list satisfying the explicit hypotheses EventsMonotone and ChunksUtf8 (with or without a trailing parser error, debug or release arithmetic): the documents returned are, in order, exactly the substrings [start(DS_k) minus the spaces kept in front of it, end(DE_k)) of the stream, pairwise disjoint and inside the stream, none dropped / duplicated / merged / split, each returned at the first document start or stream end after its own end (lag one), the capture buffer never holds anything older than the current document's chunk, and no panic site is reached (without ChunksUtf8 only the from_utf8 unwrap is reachable; without EventsMonotone each other site is shown reachable; drain can never panic); (b) over a model of the three streaming Outputs and Translator with the serializers' per-document behaviour as a parameter: for every list of inputs (any number of documents each, with or without a source failure) the bytes written are the ordered concatenation of the single-document translations up to and including the first failing document, for one session and for repeated calls; JSON = one newline-terminated body per document (splitting at newlines recovers the bodies), YAML = '---\\n' + body per document, MessagePack = bodies back to back; (c) the read-length guards of read_handler / ChunkReader::read for every reported length. The model is tied to /repo by a correspondence run on real libyaml traces and real translate calls on every check; the hypotheses about libyaml are evaluated on every real trace.",
        "design_ref": "DESIGN.md section 7 C03 (and the chunker / guard theorems of C04, C05, C17)",
        "note": "Trusted: Lean kernel; axioms propext/Classical.choice/Quot.sound only; the correspondence harness and hooks. Not verified: libyaml's event offsets (hypotheses, evaluated on every trace), what the serializer crates write for one document (parameter; sampled), the JSON / MessagePack source splitters (serde_json StreamDeserializer, next_value_size: split_sources is not part of this slice), the CLI loop.",
        "technique": "Lean 4 proof (induction over the event list with the chunker state generalised and a buffer invariant; induction over inputs for the translator fold) + model/implementation correspondence + implementation-level statements through the public API",
    }
