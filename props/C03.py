from propsdef import KERNEL, CORR, HARNESS

PROP = {
        "obligations": [
            "chunker_partition", "chunker_lag_one", "chunker_buffer_bounded", "no_panic_chunker",
            "no_panic_chunker_only_utf8", "chunker_panics_without_hypotheses",
        ],
        "trusted_base": [KERNEL, CORR, HARNESS],
        "assumptions": [],
        "rule": "wip",
        "hypotheses": [],
    }

MANIFEST = {
        "text": "wip",
        "design_ref": "DESIGN.md section 7 C03",
        "note": "wip",
        "technique": "wip",
    }
