from propsdef import KERNEL, CORR, HARNESS

PROP = {
        "obligations": [
            "read_call_exact", "utf8_read_schedule", "utf16_decode_encode", "utf32_decode_encode",
            "reencode_eq_utf8", "reencode_reads_eq_utf8", "detect_correct", "detect_correct_bom_only",
            "detect_counterexamples", "detect_utf8_text", "from_reader_eq_utf8",
            "illformed_utf16_trail", "illformed_utf16_lead", "illformed_utf16_lead_eof",
            "illformed_utf16_truncated", "illformed_utf32_unit", "illformed_utf32_truncated",
            "no_fabrication", "slice_path_reencodes",
        ],
        "trusted_base": [
            KERNEL, CORR, HARNESS,
            "modelled exactly and checked by correspondence: Encoding::detect, Utf16Decoder, Utf32Decoder, Utf8Encoder (incl. remainder), Encoder::new / from_reader, the fast-path choice in yaml::transcode",
            "not modelled: libyaml / serde_yaml downstream of the re-encoder (assumed to be a function of the UTF-8 byte stream; sampled end to end through translate_slice / translate_reader)",
            "Rust std char::decode_utf16 / char::from_u32 as the independent oracle of the hook-level statement",
        ],
        "assumptions": [
            "the downstream YAML parser's result depends only on the UTF-8 byte stream it reads (sampled: every generated text is translated in all 4 encodings x BOM x slice/reader x explicit/detected and compared with the UTF-8 run)",
            "std's BufRead::fill_buf / read_exact / Chain behave per their documented contract",
        ],
        "rule": "cases: Encoding::detect exhaustively over 5 byte classes x prefix length 0..5; re-encoder on boundary scalars alone and in pairs, every 1-3 unit UTF-16 and 1-2 unit UTF-32 sequence over class representatives (+ stray bytes), random texts and random bytes, x 4 encodings x BOM x read-size schedules {1,2,3,4,5,7,random,large}; thorough adds all 1,112,064 scalars x 4 encodings. Implementation-level: generated YAML texts x 4 encodings x BOM x 3 supplies x explicit/detected vs the UTF-8 run. A case is non-trivial when the encoder produced at least one byte or reported an encoding error (correspondence) / the reference translation succeeded (end to end); distinct = distinct case text.",
        "hypotheses": ["StreamFunctional(serde_yaml+libyaml) -- sampled as translate(enc_E(t)) == translate(utf8 t)"],
    }

MANIFEST = {
        "text": "Machine-checked Lean 4 theorems over a model of src/yaml/encoding.rs, for every list of Unicode scalar values, all four non-UTF-8 encodings, BOM or not, and every sequence of read-buffer sizes: the re-encoder's byte stream equals the UTF-8 of the text (remainder hand-over included), encoding detection is correct under exact side conditions (each shown necessary by a proved counterexample), every ill-formed class ends in an error at the right offset with no fabricated byte, every char::from_u32_unchecked argument is a scalar value, and a UTF-16/32 slice never takes the UTF-8 fast path. The model is tied to the code by an exhaustive (detect) and generated (re-encoder) correspondence run on every check; the end-to-end claim additionally assumes the YAML parser is a function of the UTF-8 stream, which is sampled through xt's API.",
        "design_ref": "DESIGN.md section 7 C07",
        "note": "Trusted: Lean kernel; axioms propext/Classical.choice/Quot.sound only; the correspondence harness and hooks; std BufRead/Chain contracts. Not verified: libyaml/serde_yaml downstream of the re-encoder (sampled).",
        "technique": "Lean 4 proof (induction over the item list with the buffer room generalised; omega for surrogate arithmetic) + model/implementation correspondence",
    }
