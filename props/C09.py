from propsdef import KERNEL, CORR, HARNESS

PROP = {
        "obligations": [
            "capture_transparent", "capture_transparent_from", "capture_invariant", "no_fault_no_error", "detection_then_takeover",
            "eof_flips_to_slice", "eof_only_at_end", "capture_error_keeps_bytes", "fault_met_again",
            "capture_released", "no_panic_input", "no_panic_ops",
            "decideList_first_match", "detect_is_first_match", "detect_none", "detect_io_only_from_source",
            "msgpack_marker_table", "toml_trial_capped",
        ],
        "trusted_base": [
            KERNEL, CORR, HARNESS,
            "modelled exactly and checked by correspondence: input.rs (CaptureReader::read / rewind / capture_up_to_size / capture_to_end, Handle::borrow_mut, Ref::prefix, From<Handle> for Input incl. FusedReader+Chain, TryFrom<Handle> for Cow) through xt::verif::handle_program; the decision list of detect.rs; the first-byte marker test of msgpack::input_matches",
            "modelled as classification of a parameter (the parser's result class), each arm exercised through input_matches_slice/reader on generated inputs: msgpack / json / yaml / toml input_matches",
            "std adaptors by documented contract: Cursor<Vec<u8>>, Take, Read::read_to_end (buffer sizes unspecified: the model asks for everything still wanted; exact for inputs <= 8 bytes, uncapped and constant-cap sources, which is where programs with prefix/Cow steps are run), Chain",
            "not modelled: rmp_serde, serde_json, libyaml + serde_yaml, toml parsers (parameters of the trial classification); the translation that follows detection is compared end to end, explicit vs detected, through xt's API",
        ],
        "assumptions": [
            "each trial's parser is a function of the byte stream it reads (StreamFunctional per crate): a trial on a rewound, partly captured handle answers like the same trial on a fresh handle in the same supply mode (sampled: detectlist cases take the four trial answers from fresh handles and compare the decision with detect_format on one handle)",
            "a reader whose trial reached end of input continues as a slice (theorem eof_flips_to_slice); identity with the explicit *reader* run then additionally needs C02's slice/reader agreement and inherits its known exceptions K1 (unseparated JSON scalars), K2 (zero-document YAML), K3 (duplicate JSON keys to TOML) and serde_yaml's position wording; the end-to-end statement accepts agreement with the explicit slice run exactly when the handle reported having flipped",
            "the source's fault is persistent (SchedReader fail_at); a transient error kind (Interrupted) is outside the model",
        ],
        "rule": "handle: every program body of <= 4 ops over {B,R0,R1,R3,R7,P1,P4,P7} preceded by B (plus all bodies of <= 2 ops without the leading B) x terminal {none,I1,I4,C} x data sizes {0,1,2,3,5} x 6 schedules x every fault offset under 2 schedules (thorough: all; quick: bodies of <= 2 all, longer sampled 1 in 6), thorough adds length 5 over 2 configurations, plus random programs of up to 14 ops over up to 200 bytes; detectlist: generated valid / mutated / truncated / random inputs of all four formats, trial answers from input_matches_slice/reader, decision from detect_slice/reader; mpmarker: all 256 bytes. Implementation-level: translate(None) vs translate(Some(detected)) on the corpus x slice + reader schedules; detection agreement slice vs reader on every input that translates; detect_reader_then_drain returns the input; detection errs only with an injected fault. Non-trivial = the case reached a non-error branch (a byte was observed / a format was selected / the reference translation succeeded); distinct = distinct case text.",
        "hypotheses": [
            "StreamFunctional(rmp_serde, serde_json, libyaml+chunker, toml) -- sampled as: decision over four fresh-handle trial answers == detect_format on one handle",
            "ExplicitEqDetected -- sampled as translate(None) == translate(Some(detected)) per supply mode",
        ],
    }

MANIFEST = {
        "text": "Machine-checked Lean 4 theorems over a line-by-line model of src/input.rs and src/detect.rs + the four input_matches classifications. For every byte source, every read schedule, every persistent fault offset and every program of borrows, reads of any size and prefix requests of any size in any order and number, ended by either way of taking ownership: every observation through the handle is the original data from offset 0, Input/Cow denote the complete original bytes, errors are only the source's own and never drop captured bytes, a persistent fault is met again, the handle turns into a slice exactly at end of input, nothing is captured after take-over (FusedReader drops the replayed prefix), and no panic site (unchecked len - offset, three slice indexings) is reachable. Detection is the first match in the order MessagePack, JSON, YAML, TOML; 'unable to detect' iff all four say no; an I/O error only from a trial that reported one, which each classification does only for non-swallowed reader errors; the MessagePack first-byte test equals the collection-marker set for all 256 bytes. Tied to the code by an exhaustive (short programs, marker table) and generated correspondence run on every check, plus implementation-level statements through xt's API (explicit vs detected run, slice/reader detection agreement, complete stream after detection, errors only with an injected fault).",
        "design_ref": "DESIGN.md section 7 C09 (handle part shared with C02/C05/C12)",
        "note": "Trusted: Lean kernel; axioms propext/Classical.choice/Quot.sound only; the correspondence harness and hooks; std Cursor/Take/read_to_end/Chain contracts. Not verified: the four third-party parsers (parameters; their use by the trials is sampled). Equality of a detected reader run with the explicit reader run after the handle flipped to a slice inherits C02's known slice/reader exceptions.",
        "technique": "Lean 4 proof (capture invariant preserved by every operation; induction over the op list with the per-borrow consumed prefix as accumulator; fun_induction over Take::read_to_end and the drain loop) + model/implementation correspondence",
    }
