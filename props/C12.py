from propsdef import KERNEL, CORR, HARNESS

PROP = {
    "obligations": [
        "writer_fault_prefix", "writer_fault_never_success", "short_writes_exact",
        "Xt.Props.C09.capture_error_keeps_bytes", "Xt.Props.C09.fault_met_again",
        "Xt.Props.C09.capture_transparent", "Xt.Props.C03.translator_concat",
    ],
    "trusted_base": [
        KERNEL, CORR, HARNESS,
        "modelled exactly and checked by correspondence: std write_all over limited / short-writing writers (writeall engine), the rewindable input handle under persistent source faults (handle engine), the translator's stop-at-first-failure fold (in C03's run)",
        "NOT modelled (hypotheses sampled at every fault offset): each crate propagates a reader's error (serde_json is_io, rmp Invalid*Read, libyaml read-handler stash) and returns a writer's error unchanged",
    ],
    "assumptions": [
        "serde_json, rmp_serde, serde_yaml/libyaml and toml propagate I/O errors of their reader and writer (sampled: reader failing from every offset k, writer failing from every k below the output length)",
        "serializers reach the writer only through write_all / write (true of the four crates as pinned)",
    ],
    "rule": "implementation-level: for generated valid streams of each format (<= 220 bytes quick / 600 thorough) x {explicit, detected} x targets: (a) reader failing persistently once k bytes were delivered, for EVERY k in 0..=len, under 3 chunkings: result is Err (never Ok, never a panic), the error text carries the reader's message when the fault-free run succeeds, and the bytes written are a prefix of the fault-free output; (b) writer failing after k bytes for EVERY k below the fault-free output length, slice and reader: Err and accepted bytes == first k bytes of the fault-free output; (c) 4 short-write patterns: Ok and identical output. Correspondence: write_all model, handle model incl. faults. Non-trivial = fault-free run succeeds; distinct = distinct (input, source, target, k / pattern).",
    "hypotheses": ["PropagatesReadError(crate)", "PropagatesWriteError(crate) -- sampled at every offset"],
}

MANIFEST = {
    "text": "Lean 4 theorems over a model of std's write_all on the writers the property quantifies over: for every sequence of write_all calls, every fault offset k and every short-write pattern, the bytes a failing writer accepted are exactly the first k bytes of the fault-free output and the run reports the writer's own error iff the output is longer than k; a writer accepting only short pieces receives exactly the fault-free output. Reused theorems: the input handle never drops captured bytes on a failed read, reports only the source's error and meets a persistent fault again; the translator stops at the first failure with exactly the earlier documents written. Models are tied to the code by the writeall and handle correspondences; that each third-party crate propagates I/O errors is a named hypothesis exercised at every reader and writer fault offset on every run.",
    "design_ref": "DESIGN.md section 7 C12",
    "note": "Trusted: Lean kernel, correspondence harness, std::io contracts. Sampled, not proved: error propagation inside serde_json, rmp_serde, serde_yaml/libyaml, toml.",
    "technique": "Lean 4 proof (induction over write_all calls with the accepted-bytes invariant; handle invariant under faults) + model/implementation correspondence + fault enumeration as hypothesis sampling",
}
