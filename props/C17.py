from propsdef import KERNEL, CORR, HARNESS

PROP = {
    "uses_generated": True,
        "obligations": [
            # the source-derived inventory (generated obligations: re-decided whenever /repo's sources change)
            "unsafe_sites_covered", "unsafe_accounts_wellformed", "c17_sites_covered",
            # read_handler: one total case analysis, incl. the null-pointer / usize::try_from early exits
            "read_handler_total", "read_handler_success_iff",
            # Parser::new / next_event* / Drop as a resource trace
            "events_drop_safe",
            # the two char::from_u32_unchecked calls
            "unchecked_char_is_scalar", "bmp_unit_is_scalar", "surrogate_pair_arith",
            # ArrayBuffer / Utf8Encoder::read index arithmetic
            "no_panic_encoding", "arraybuffer_no_panic",
            # constants read from the sources = constants the models use
            "consts_agree", "detect_len_agrees", "depth_limit_agrees",
            # guard lemmas and decoder lemmas, by absolute name
            "Xt.Chunker.Guards.copy_len_in_bounds", "Xt.Chunker.Guards.overreport_is_stashed",
            "Xt.Chunker.Guards.chunkreader_overreport_is_clean_panic", "Xt.Chunker.Guards.chunkreader_within_buffer_no_panic",
            "Xt.Chunker.Guards.stash_cleared_on_success", "Xt.Chunker.Guards.chunker_stack_overreport",
            "Xt.Encoding.dec16_scalar", "Xt.Encoding.dec32_scalar",
        ],
        "generated_obligations": [],
        "timeout": {"quick": 900, "thorough": 2400},
        # External observation engines: ./check runs these in the thorough tier, and (key "search") as part of
        # the search when an obligation or the correspondence breaks in the quick tier.
        "extra_cmds": {"thorough": ["./run_sanitizer.sh"], "search": ["./run_sanitizer.sh"]},
        "extra_cmd_timeout": 1500,
        # When the build fails: which generated entries have no account (the functions to search in).
        "diagnose_on_build_failure": [["lake", "env", "lean", "Uncovered.lean"]],
        "trusted_base": [
            KERNEL, CORR, HARNESS,
            "gen_from_source.py (the inventory script: a tokenizer + brace-scope tracker, not a Rust parser; its patterns are documented in its header). It decides what counts as a site and which fn a site belongs to; lean/XtModel/Generated/*.lean are rewritten from /repo's working tree before every build",
            "lean/XtModel/Model/Sites.lean: the hand-written account of each (file, fn, kind) -- a theorem name or a reason tag. That the named theorem really is about that site is a reviewed claim (each model definition carries the Rust expression it stands for as a comment); that the theorem exists is checked when Props/C17.lean is elaborated",
            "modelled exactly and checked by correspondence (engine `guards`): read_handler's length guard, stash and *size_read, ChunkReader::read's slice index, against over-reporting readers of every excess at every read call",
            "modelled, not tied by a correspondence of their own: the entry guards of read_handler (null pointers, usize::try_from: not reachable from outside libyaml), the allocation trace of Parser::new / next_event / Drop (ParserBinding.lean; tied to the source only by the inventory counts of Parser::new / Parser::drop / Event::parse_next and by the early-drop observations), the index arithmetic of ArrayBuffer / Utf8Encoder::read (EncoderBounds.lean; its behaviour is C07's correspondence, its panic-freedom is observed on every read size)",
            "NOT modelled and delegated (tags `delegated:*` in Sites.lean): libyaml's own memory discipline (unsafe-libyaml), Box<MaybeUninit<_>> initialisation, the raw *mut ReadState aliasing argument, memmap2, libc. For these the only machinery is the Miri / AddressSanitizer run of miri/tests/ub.rs, which observes concrete executions",
        ],
        "assumptions": [
            "PARTIAL: undefined behaviour cannot be exhibited by a functional model. Proved: the arithmetic preconditions of the unsafe blocks, the observable guard behaviour, the allocation discipline as a trace property, panic-freedom of the encoder's index arithmetic, and that every panic / unsafe site of the current sources is accounted for. Not proved: absence of UB inside unsafe-libyaml, validity of the pointers libyaml passes to the callback, aliasing",
            "Miri / AddressSanitizer are a search engine for a replay, not the verdict: a clean run says nothing about executions it did not perform",
            "EventsMonotone(libyaml) and ChunksUtf8(libyaml) for the chunker sites accounted for by Xt.Props.C03.no_panic_chunker (evaluated on every real trace in C03's run)",
            "a safe `Read` implementation cannot write beyond the buffer it is given; it can only LIE about the count -- which is what the over-reporting cases do",
            "usize is 32 or 64 bits (`usizeBound`, `ovf` are parameters of the theorems; the lossless-cast tags assume usize <= 64 bits)",
        ],
        "rule": "guards correspondence: the C03 guard cases plus, for every 3rd (quick) / every (thorough) corpus input, a lying reader at every read call 1..4 with excess 1..8, usize::MAX/2, to-size and to-size+1, against the parser alone and the chunker (one correspondence case per distinct (buffer size, reported, written) triple). Implementation-level, in-process under catch_unwind, for EVERY input of the shared corpus (all four formats' valid / mutated / truncated / spliced streams, every prefix of small documents, token sequences, adversarial first bytes, random bytes) and 80 / 600 generated multi-document YAML streams (0..40 documents, every separator style, a quarter malformed), taken as YAML explicitly and by detection, plus UTF-16/UTF-32 re-encodings (with and without BOM) of the textual ones: (a) reads of 1,2,3,7,64,8191,8192,8193 bytes and the slice path: never a panic; (b) a persistently failing reader at EVERY offset 0..=len (every 2nd input up to 400 bytes / every input up to 1200 bytes): Err whenever the fault was raised, with the reader's text unless the input is itself erroneous, never a panic; (c) a reader over-reporting by 1..8 and by usize::MAX/2 at every read call (<= 6) of a whole translation: when the report exceeds the buffer the outcome is an error or an unwinding panic, never success; (d) the chunker advanced k = 0..docs+1 items and dropped, and detect_reader (which abandons the chunker after one document): returns normally with the expected number of documents. Thorough tier additionally: miri/tests/ub.rs (about 330 cases of the same kinds) under Miri. A case is non-trivial when the translation succeeded (a), the fault was raised (b), the report exceeded the buffer (c), the stream has documents (d); distinct = distinct case text.",
        "hypotheses": [
            "LibyamlMemorySafe(unsafe-libyaml 0.2.11) -- NOT proved; searched by Miri / AddressSanitizer on miri/tests/ub.rs in the thorough tier",
            "CallbackArgsValid(libyaml passes a buffer of buffer_size writable bytes and a valid size_read) -- NOT proved; same search",
            "EventsMonotone(libyaml), ChunksUtf8(libyaml) -- evaluated on every real trace in C03's run",
        ],
        "explanation": "PARTIAL claim. Inventory of the pinned tree: 82 (file, fn, kind) entries / 158 sites, of which 14 unsafe blocks, 2 unsafe fns, 2 *_unchecked calls. Finding recorded while building (K8): a panic raised inside the reader during parsing (e.g. the deliberate slice-index panic for an over-reporting reader) unwinds through unsafe-libyaml's scanner and leaks 4 x 24 bytes of its temporaries per occurrence -- a panic that is not quite clean; reported by both Miri and LeakSanitizer; no undefined behaviour was reported by either on any case.",
    }

MANIFEST = {
        "text": "PARTIAL. Machine-checked Lean 4 theorems, for all inputs: (a) Parser::read_handler as one total case analysis over every callback argument tuple (null pointers and oversized buffer_size included), every stash and every reader answer -- READ_SUCCESS exactly when the reader answered Ok(n) with n <= buffer_size, and then copy_nonoverlapping's length is n <= buffer_size = the bounce buffer's length, *size_read = n and the stash is cleared; otherwise no copy, *size_read untouched and (except for the early exits) the error stashed; over-reports by any excess are stashed as `misbehaving reader`, and under the chunker they are a clean slice-index panic first; (b) the allocation discipline of Parser::new / next_event / Drop as a trace property: for every outcome of yaml_parser_initialize, every number of next_event calls with any number of callback invocations and either result, every allocation is released exactly once, nothing is used after release, the read state is released after the parser that points to it, and the out-of-memory panic happens before the read state exists; (c) both char::from_u32_unchecked arguments are Unicode scalar values for all bytes and both byte orders, and the surrogate arithmetic neither underflows nor overflows; (d) no index / copy_from_slice / debug_assert / encode_utf8 / unchecked += site of ArrayBuffer and Utf8Encoder::read is reachable for any character sequence and any sequence of read sizes; (e) the source-derived inventory of every unwrap / expect / index / split_at / split_off / drain / copy_from_slice / panic! / debug_assert! / unchecked arithmetic / cast / unsafe block, fn, call and deref of src/**, keyed by (file, fn, kind) with multiplicity and regenerated from /repo on every run, is covered by a hand-written account that maps each entry to a theorem or a named reason, every unsafe site to a precondition theorem or a `delegated:` tag. Tied to /repo by the `guards` correspondence and by implementation-level observations (every read size, reader errors at every offset, over-reports of every excess at every call, early drops after every document) on the whole shared corpus in UTF-8/16/32; the thorough tier runs the same kinds of cases under Miri (AddressSanitizer as fallback).",
        "design_ref": "DESIGN.md section 7 C17, section 3.4 (generated inventory), section 8",
        "note": "PARTIAL: undefined behaviour cannot be exhibited by a functional model, so 'no out-of-bounds access, no use of uninitialised or freed memory, no double free, no leak' is NOT proved. Proved are the arithmetic preconditions of each unsafe block xt is responsible for, the observable guard behaviour, the allocation discipline on a trace model, and that every panic / unsafe site is accounted for (a new site, or a checked access turned into an index, breaks a proof obligation). Delegated and only searched by Miri / AddressSanitizer (a search engine for a replay, not a verdict): unsafe-libyaml's own memory discipline, MaybeUninit initialisation, the raw read-state pointer's aliasing argument. Trusted: Lean kernel; axioms propext/Classical.choice/Quot.sound only; gen_from_source.py; the account in Model/Sites.lean; the harness and hooks. Known finding K8: a reader panic during parsing leaks libyaml scanner temporaries.",
        "technique": "Lean 4 proof of the unsafe blocks' arithmetic preconditions and guard behaviour + source-derived site inventory proved covered + Miri/ASan as replay search",
    }
