from propsdef import KERNEL, CORR, HARNESS

PROP = {
        "obligations": [
            "Xt.Props.C03.chunker_lag_one", "Xt.Props.C03.chunker_buffer_bounded",
            "Xt.Props.C09.capture_released", "Xt.Props.C09.toml_trial_capped",
        ],
        "trusted_base": [KERNEL, CORR, HARNESS],
        "assumptions": [],
        "rule": "thin slice",
        "hypotheses": [],
        "explanation": "",
        "timeout": {"quick": 600, "thorough": 2400},
    }

MANIFEST = {
        "text": "thin slice",
        "design_ref": "DESIGN.md section 7 C05, section 8",
        "note": "PARTIAL",
        "technique": "Lean 4 proof + correspondence",
    }
