from propsdef import KERNEL, CORR, HARNESS

PROP = {
    "uses_generated": True,
        "diagnose_on_build_failure": [["lake", "env", "lean", "Uncovered.lean"]],
    "needs_binary": True,
    "obligations": [
        "Xt.Props.C04Sites.sites_covered_library",
        "Xt.Props.C18.no_panic_msgsize",
        "Xt.Props.C18.recursion_bounded",
        "detect_total",
        "Xt.Props.C09.no_panic_input", "Xt.Props.C09.no_panic_ops",
        "Xt.Props.C07.no_fabrication",
        "Xt.Props.C03.no_panic_chunker", "Xt.Props.C03.no_panic_chunker_only_utf8",
        "Xt.Props.C03.trim_never_drainRange",
        "Xt.Props.C11.no_panic_transcode",
        "Xt.Props.Json.json_depth_boundary",
    ],
    "trusted_base": [
        KERNEL, CORR, HARNESS,
        "modelled with explicit panic outcomes and checked by correspondence (each in its own property's run): input handle, chunker + read-handler guards, transcoder; modelled without panic sites because the Rust has none: re-encoder, JSON loops, detection",
        "termination of xt's own loops = Lean's termination checker accepting the model functions (structural / measure recursion, no partial, no fuel the code lacks)",
        "NOT modelled (hypothesis NoPanic/Terminates per crate, sampled): serde_json, rmp_serde, serde_yaml/libyaml, toml internals; stack consumption per frame; allocation failure",
    ],
    "assumptions": [
        "third-party crates neither panic nor hang on the corpus and the adversarial shapes (sampled in-process under catch_unwind and on the real binaries with a 120 s watchdog)",
        "libyaml's event stream satisfies EventsMonotone (sampled on every real trace in C03's run)",
    ],
    "rule": "implementation-level: (1) in-process under catch_unwind: the shared corpus (valid / mutated / truncated / spliced / token-exhaustive / marker-first-byte / random inputs) and depth windows 64..200 of 15 nesting shapes x {detect, explicit sources} x targets x slice/reader: never a panic; (2) the debug and release binaries on their default main-thread stack, as separate processes: 15 nesting shapes at depths 1 024 / 20 000 / 200 000 (thorough: 1 000 ... 1 000 000), huge declared lengths (array32/map32/str32/bin32/ext32 = 2^32-1), alias bomb, lone anchors, unknown aliases, empty input x targets x file/stdin x explicit/detected: wait status is exit 0 or 1, never a signal, never a timeout (yaml flow-mapping nesting is capped at 20 000: quadratic time in libyaml, measured, not a hang). Non-trivial = translation succeeded (in-process) / every binary run; distinct = distinct (input, source, target, supply).",
    "hypotheses": ["NoPanic(crate)", "Terminates(crate)", "EventsMonotone(libyaml)"],
    "timeout": {"quick": 900, "thorough": 3000},
}

MANIFEST = {
    "text": "Every engine of xt's own code is a total Lean function whose panic sites (unwrap, expect, indexing, split_off, drain, unchecked subtraction) are explicit outcomes, and 'never panics' is a theorem per engine for all inputs: input handle, chunker and read-handler guards (under the sampled libyaml hypothesis EventsMonotone), transcoder; the re-encoder, JSON loops and detection have no panic site and are total by construction; termination of xt's loops is Lean's termination check of the models. The models are tied to the code by their correspondences. Panics, hangs and stack use inside the third-party crates are a named hypothesis, sampled in-process on the corpus and on the real debug/release binaries with adversarial shapes far beyond every limit. MessagePack size calculator and the source-derived site inventory are added from the C18 / C17 files.",
    "design_ref": "DESIGN.md section 7 C04",
    "note": "Partial: stack overflow and allocation failure are runtime and observed on real processes; third-party internals are sampled, not proved. Trusted: Lean kernel, correspondence harnesses.",
    "technique": "Lean 4 proof (panic outcomes unreachable by invariant; termination by structural recursion) + model/implementation correspondence + crash-isolated adversarial runs as hypothesis sampling",
}
