from propsdef import KERNEL, CORR, HARNESS

PROP = {
        "obligations": [
            "toml_at_most_one", "toml_refuse_writes_nothing", "toml_second_input_refused",
            "toml_second_document_refused", "toml_used_is_sticky", "ensure_before_parse",
        ],
        "trusted_base": [
            KERNEL, CORR, HARNESS,
            "modelled exactly and checked by correspondence: toml::Output (used flag, ensure_one_use before deserialising, root-is-table check, single write_all), the document loops of the four sources, Translator over sequences of calls",
            "not modelled, abstract parameter `Env`: toml::Value::deserialize / try_from (build), Value::Table test, toml::to_string_pretty (pretty)",
            "independent reader of the implementation-level statement: toml::from_str::<toml::Value>",
        ],
        "assumptions": [
            "T.PrettyIsValid / T.RoundTripUpToReorder: to_string_pretty of a table is one valid TOML document reading back as the value up to the table-after-non-table reordering (sampled: every accepted document's output is parsed with toml::from_str and compared with toml_reorder / toml_written_order of the input)",
            "T.RejectsNull, T.RejectsBigInt, T.RejectsBinary, T.RejectsNonStringKey(MessagePack; YAML first key): sampled by planting each at a random nesting position; T.RejectsNonStringKey is FALSE for a YAML key after the first of its mapping (known finding K5)",
            "which malformed documents are found before anything is handed to the output (JSON / MessagePack slices) and which inside transcode_from (readers, YAML unknown alias, TOML) is stated in the harness (srcerr_is_eager) from the code and confirmed by the correspondence",
        ],
        "rule": "tomlout: generated sequences of 1..3 calls with 0..3 documents in total, each document one of {table, every non-table root type, null / integer > i64::MAX / non-string key / binary planted at a random nesting position of a table, malformed} x {json,yaml,msgpack,toml} sources x slice/reader; plus every sequence of <= 3 document classes x every split into 1..3 calls (quick: one third of them). Model: per-call verdict class and which document was written; implementation: real results and bytes. Implementation-level: writer receives nothing or bytes that toml::from_str parses as ONE document equal (up to reordering) to the first document handed over, in at most one write; every refusal returns Err and adds no byte; an acceptable single document is accepted. Non-trivial = at least one document; distinct = distinct case text.",
        "hypotheses": [
            "T.PrettyIsValid+T.RoundTripUpToReorder(toml) -- sampled on every accepted document",
            "T.RejectsNull / T.RejectsBigInt / T.RejectsBinary / T.RejectsNonStringKey -- sampled (K5 is the recorded exception)",
        ],
    }

MANIFEST = {
        "text": "Machine-checked Lean 4 theorems over a model of src/toml.rs's Output and of Translator, with the toml crate's behaviour on one document (value builder, table test, pretty printer) as a parameter: for EVERY such behaviour and EVERY sequence of translate calls (any number of documents each, with or without a source failure, continuing after failed calls) the writer is offered nothing, or exactly the pretty form of the FIRST document ever handed to the output and only if it is accepted, as one single write; a non-table root, a value the builder rejects, a pretty-printer failure, a second document and a second input each return an error and offer no byte; `used` is set by any document, accepted or refused, and never cleared; a document refused because the output was used is never handed to toml::Value's deserializer (at most one document ever is). The model is tied to /repo by a correspondence run over generated and enumerated call sequences on every check; that the pretty form is one valid TOML document equal to the input up to the permitted reordering is the toml crate's part and is sampled with toml::from_str as the independent reader.",
        "design_ref": "DESIGN.md section 7 C08",
        "note": "Trusted: Lean kernel; axioms propext/Quot.sound only; the correspondence harness. Not verified: the toml crate (validity and round trip of to_string_pretty, which values Value::deserialize refuses) -- sampled. Known finding K5: from YAML, a non-string scalar key that is not the first key of its mapping is accepted and written as its text.",
        "technique": "Lean 4 proof (case analysis of the output state machine; induction over calls with `used` as invariant) + model/implementation correspondence + implementation-level statements through the public API",
    }
