from propsdef import KERNEL, CORR, HARNESS

PROP = {
        "obligations": [
            "toml_at_most_one", "toml_refuse_writes_nothing", "toml_second_input_refused",
            "toml_second_document_refused", "toml_used_is_sticky", "ensure_before_parse",
        ],
        "trusted_base": [KERNEL, CORR, HARNESS],
        "assumptions": [],
        "rule": "wip",
        "hypotheses": [],
    }

MANIFEST = {
        "text": "wip",
        "design_ref": "DESIGN.md section 7 C08",
        "note": "wip",
        "technique": "wip",
    }
