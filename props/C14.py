from propsdef import KERNEL, CORR, HARNESS
from props.C13 import CLI_BASE

PROP = {
        "needs_binary": True,
        "obligations": [
            "from_resolution", "extension_table", "extension_of_simple_names", "stdin_at_most_once",
            "second_stdin_refused", "stdin_spellings", "cli_eq_library",
        ],
        "trusted_base": CLI_BASE,
        "assumptions": [
            "argv is valid UTF-8; stderr accepts writes",
            "second_stdin_refused and cli_eq_library are stated for a descriptor that accepts every write (GoodFd) and the real main (per-input flush)",
            "whether a regular file is handed over as a slice and a FIFO / stdin as a reader is by construction of the model (InputPath::open); from outside only the results are observable, and they agree with the in-process library on the same bytes (slice for regular files, reader for FIFOs and stdin) on every case",
            "the library's result does not depend on whether a reader is an in-memory slice or the FIFO / pipe itself (C02's claim; the harness hands the library the bytes in memory)",
        ],
        "rule": "cases: the resolution matrix {-f absent, each of the 8 names attached, detached, =attached} x 22 file names {each extension in several letter cases, multi-dot, trailing dot, dotfile, none, unknown, directory with an extension, ./ and ../ forms} x 14 contents {one document of each format, JSON and YAML streams, content valid in two formats, invalid, binary, empty, three documents above 8 KiB (in a sub-matrix)} x {regular file (mmap), FIFO, stdin} x 4 targets -- quick: a 1/9 sample (~3.5k runs), thorough: all of it (~31k runs); 13 operand layouts (no operand, '-' at each position, '-' twice and three times, FIFO among files, directory operands, a file three times) x 3 targets x {-f absent, -fy} x {release, debug}; the extension table exhaustively: every letter-case variant of json, msgpack, toml, yaml, yml (184 names) + 21 shapes around each + 19 near misses, each observed through two probe contents whose results identify which of {detection, json, msgpack, toml, yaml} the binary used; 14 spellings of the stdin operand. Each run is a spawn of the real binary compared with the model (exit status, stdout, stderr exactly) and, independently of the model, with the in-process library for the format that -f / the extension / nothing selects by construction. Non-trivial: the library translated at least one input; distinct = distinct case text.",
        "hypotheses": ["Lib (xt::Translator) -- instantiated per case with recorded real behaviour", "SourceIndependent (C02) -- in-memory reader stands for FIFO / pipe"],
        "timeout": {"quick": 600, "thorough": 2400},
    }

MANIFEST = {
        "text": "Machine-checked Lean 4 theorems over the executable model of src/main.rs, for every argv, file system, stdin and library behaviour: every library call of every run passes as source format the -f option when given, else the format of the file's last extension, else nothing (detection), with the -t target; the extension function is characterised for every path string (file name per Rust's Path::components, last '.', non-empty stem, ASCII-lower-cased extension in the five spellings, everything else resolves to nothing); at most one call ever reads standard input and a second '-' is refused with status 1 after the earlier outputs were written; at status 0 there is exactly one call per input in order, regular files handed over as a slice and FIFOs / stdin as a reader, and stdout is exactly the concatenation of the library's outputs. Tied to the real binaries by the resolution matrix run (regular file / FIFO / stdin x names x contents x -f x targets) compared both with the model and with the in-process library.",
        "design_ref": "DESIGN.md section 7 C14",
        "note": "Trusted: Lean kernel; axioms propext/Classical.choice/Quot.sound only; the process-level harness; the kernel's mmap / FIFO / pipe semantics; Rust std's Stdout taken as transparent. slice-vs-reader choice is by construction of the model (not observable from outside except through results). Observation: Path equality makes '-/' and '-/.' standard input too (modelled and checked).",
        "technique": "Lean 4 proof (loop invariants over the per-input loop; structural characterisation of Path::extension) + model/real-binary correspondence + library-only oracle",
    }
