from propsdef import KERNEL, CORR, HARNESS
from props.C13 import CLI_BASE

PROP = {
        "needs_binary": True,
        "obligations": [
            "earlier_outputs_survive", "earlier_outputs_survive_run", "success_all_written", "success_all_written_any_fd",
            "no_finished_input_in_buffer", "no_flush_counterexample", "with_flush_on_the_counterexample",
        ],
        "trusted_base": CLI_BASE,
        "assumptions": [
            "the failure is a failure of an input (open, second stdin, library verdict); the descriptor accepts every write (GoodFd) -- write failures are C16; no_finished_input_in_buffer holds for every descriptor behaviour",
            "Rust std's Stdout delivers what StdoutLock accepted by the time the process exits through process::exit (std's stdout cleanup); observed on every run (stdout read back from a pipe or a file)",
            "the order and sizes of the library's write calls are those recorded in-process on the same bytes (they decide how much of a failing input's partial output has left the 8 KiB buffer)",
        ],
        "rule": "cases: 1-6 inputs, failing input at every position (TOML target: positions 1-2), 8 failure kinds {missing file, directory, syntax error at the first byte, syntax error after a long valid prefix (so that the partial output exceeds the buffer several times), undetectable content, a value the target refuses, a second TOML document, a second use of stdin} x 4 targets, earlier inputs of size classes {empty, one record, a few, around 8 KiB, tens of KiB, above 1 MiB (budgeted: 4 quick / 40 thorough)}, regular files and FIFOs in 5 source formats, stdout a pipe (2/3) or a file (1/3), debug binary 1/5; quick ~330 failing + 40 successful runs, thorough ~3.5k + 300. Each run: real binary vs model (stdout compared exactly -- including where inside the failing input's partial output the buffer was last flushed) and vs the library-only oracle (stdout = outputs before the failing input + a prefix of its partial output, status 1, message names the input). Non-trivial: at least one input before the failing one produced output, or the run succeeded; distinct = distinct case text.",
        "hypotheses": ["Lib (xt::Translator) -- instantiated per case with recorded real write events"],
        "timeout": {"quick": 600, "thorough": 2400},
    }

MANIFEST = {
        "text": "Machine-checked Lean 4 theorems over the executable model of main's per-input loop with std's BufWriter (8 KiB, writes >= capacity bypass, process::exit does not flush, explicit flush empties) under pipecheck::Writer: for every list of inputs and every library behaviour, a run that ends with status 1 has a failing position k such that stdout is exactly the concatenated complete outputs of inputs 1..k-1 followed by a prefix of input k's partial output; at status 0 every byte of every input's output is on stdout and the buffer is empty; after every passed iteration the buffer is empty (for every descriptor behaviour); and the variant of main without the per-input flush provably loses a finished input's output (no_flush_counterexample), while the real main on the same inputs does not. Tied to the real binaries by runs with 1-6 inputs from bytes to MiB, every failing position and failure kind, pipe and file.",
        "design_ref": "DESIGN.md section 7 C15",
        "note": "Trusted: Lean kernel; axioms propext/Classical.choice/Quot.sound only; the process-level harness; Rust std's Stdout/LineWriter taken as transparent (delivers what it accepted by process exit).",
        "technique": "Lean 4 proof (loop invariant: buffer empty and stdout = library output of the calls made; conservation lemma for every BufWriter method) + model/real-binary correspondence + library-only oracle",
    }
