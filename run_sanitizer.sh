#!/bin/sh
# Undefined-behaviour search for property C17: miri/tests/ub.rs under Miri, or
# under AddressSanitizer when Miri cannot be used.  Prints one verdict line
# `SANITIZER ok|ub <detail>|unavailable <why>` (see miri/run.py); exit 1 iff `ub`.
# Called by `./check C17 --tier thorough` and by the violation search.
cd "$(dirname "$0")" || exit 2
exec python3 miri/run.py "$@"
