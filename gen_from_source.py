#!/usr/bin/env python3
"""Source-derived Lean files (DESIGN.md section 3.4).

Scans the Rust sources of xt (``$XT_REPO_DIR``, default ``/repo``) and writes

* ``lean/XtModel/Generated/PanicSites.lean`` -- ``Xt.Generated.sites``: the
  multiset of panic / unsafe sites of ``src/**/*.rs`` keyed by
  ``(file, enclosing fn, kind)`` with a count, sorted;
* ``lean/XtModel/Generated/Consts.lean`` -- ``DEPTH_LIMIT``, ``SIZE_CUTOFF``,
  ``DETECT_LEN``, ``MAX_UTF8_ENCODED_LEN`` and the package version.

``Props/C17.lean`` / ``Props/C04Sites.lean`` prove ``sites`` covered by the
hand-written ``Model/Sites.lean`` (by ``decide``), so a NEW site, or a checked
access turned into an unchecked one, breaks a proof obligation.  The key has no
token text and no line number on purpose: reformatting, or renaming a variable,
does not change the output; adding a site does.

What is scanned: every ``*.rs`` under ``src/`` except ``src/verif.rs``; inside
a file everything except (a) comments, (b) the contents of string / char
literals, (c) attributes, (d) the item that follows ``#[cfg(test)]`` or
``#[cfg(feature = "verif")]`` (an item = up to the first ``;`` outside
brackets, or to the brace matching its first ``{``).

The scanner is a tokenizer plus a brace-scope tracker, not a Rust parser.  The
kinds and the exact token patterns (p = previous token, n = next token; an
"operand end" is an identifier that is not a keyword, ``self``, a number or
string literal, ``)``, ``]`` or ``?``):

  unwrap          ``. unwrap (`` or ``. unwrap_err (``
  expect          ``. expect (`` or ``. expect_err (``
  index           ``[`` with p an operand end: indexing or range-slicing of a
                  value.  Not counted: ``#[..]`` / ``#![..]`` attributes,
                  ``name![..]`` macros, array types / literals / patterns
                  (p is ``:``, ``&``, ``<``, ``(``, ``,``, ``=``, ``|``, a
                  lifetime, or a keyword such as ``mut``/``let``/``in``/``as``).
  split_at        ``. split_at (`` / ``. split_at_mut (``
  split_off       ``. split_off (``
  drain           ``. drain (``
  copy_from_slice ``. copy_from_slice (`` (panics on a length mismatch)
  unreachable     ``unreachable !``
  panic           ``panic !``, ``todo !``, ``unimplemented !``
  assert          ``assert !``, ``assert_eq !``, ``assert_ne !``
  debug_assert    ``debug_assert !``, ``debug_assert_eq !``, ``debug_assert_ne !``
  unchecked_sub   binary ``-`` (p an operand end) or ``-=``, unless both
                  neighbours are numeric literals.  A heuristic: types are not
                  known, every non-literal subtraction is taken to be an integer
                  subtraction that panics on underflow in debug builds.
  unchecked_add   binary ``+`` (p an operand end) or ``+=``, same literal rule.
                  ``+`` in trait bounds is not arithmetic and is excluded: a
                  ``+`` outside any fn body, in a fn header, followed by a
                  lifetime or ``?``, or standing between two CamelCase names
                  (``de::Error + Send``) is a bound.
  unchecked_mul   binary ``*`` (p an operand end), same literal rule.
                  (``- + *`` are not counted inside ``macro_rules!`` bodies,
                  where ``)*`` / ``)+`` are repetition operators.)
  cast            ``as`` followed by a primitive numeric type / char / bool
  unchecked_call  a call of a function whose name ends in ``_unchecked``
  unsafe_block    ``unsafe {``
  unsafe_fn       ``unsafe fn`` (also ``unsafe extern ".." fn``)
  unsafe_impl     ``unsafe impl`` / ``unsafe trait``
  unsafe_call     a call ``name (`` / ``::<..> (`` lexically inside an unsafe
                  block (so a call ADDED to an existing block changes the count)
  unsafe_deref    unary ``*`` lexically inside an unsafe block

Enclosing fn: the innermost ``fn`` item, prefixed by the self type of the
nearest enclosing ``impl`` / ``trait`` (for ``impl Trait for Type`` the type):
``Parser::read_handler``.  Closures belong to the fn they are written in.  A
site outside every fn is keyed ``Type::-`` / ``-``; a site in a
``macro_rules!`` body is keyed ``macro_rules!name``.

Exit status is non-zero (and nothing is written) when an expected file is
missing or a constant cannot be evaluated.
"""
import os
import re
import sys

ROOT = os.path.dirname(os.path.abspath(__file__))
REPO = os.environ.get("XT_REPO_DIR", "/repo")
OUT_DIR = os.environ.get("XT_GEN_OUT_DIR", os.path.join(ROOT, "lean", "XtModel", "Generated"))

# Files whose absence means the layout the models were written against is gone.
EXPECTED = [
    "Cargo.toml", "src/lib.rs", "src/main.rs", "src/bail.rs", "src/pipecheck.rs", "src/input.rs", "src/detect.rs",
    "src/error.rs", "src/json.rs", "src/msgpack.rs", "src/toml.rs", "src/yaml.rs", "src/yaml/chunker.rs",
    "src/yaml/chunker/parser.rs", "src/yaml/encoding.rs", "src/transcode.rs", "src/transcode/stream.rs",
    "src/transcode/value.rs",
]
EXCLUDED_FILES = {"src/verif.rs"}

KEYWORDS = {
    "as", "async", "await", "break", "const", "continue", "crate", "dyn", "else", "enum", "extern", "fn", "for",
    "if", "impl", "in", "let", "loop", "match", "mod", "move", "mut", "pub", "ref", "return", "static", "struct",
    "super", "trait", "type", "unsafe", "use", "where", "while", "true", "false", "union", "macro_rules", "default",
}
PRIMS = {"usize", "u64", "u32", "u16", "u8", "u128", "isize", "i64", "i32", "i16", "i8", "i128", "f32", "f64", "char", "bool"}
PUNCT = ["..=", "...", "<<=", ">>=", "::", "->", "=>", "..", "==", "!=", "<=", ">=", "&&", "||", "+=", "-=", "*=",
         "/=", "%=", "^=", "&=", "|=", "<<", ">>"]
SKIP_ATTRS = {"cfg(test)", 'cfg(feature="verif")'}


class GenError(Exception):
    pass


def lex(src, path):
    """Tokens as (kind, text, line); kinds: id, num, str, chr, life, p."""
    toks = []
    i, n, line = 0, len(src), 1
    ident = re.compile(r"[A-Za-z_][A-Za-z0-9_]*")
    number = re.compile(r"\d[\dA-Za-z_]*(?:\.\d[\dA-Za-z_]*)?")
    rawstr = re.compile(r"(?:b|c)?r(#*)\"")
    while i < n:
        c = src[i]
        if c == "\n":
            line += 1
            i += 1
        elif c.isspace():
            i += 1
        elif src.startswith("//", i):
            j = src.find("\n", i)
            i = n if j < 0 else j
        elif src.startswith("/*", i):
            depth, j = 1, i + 2
            while j < n and depth:
                if src.startswith("/*", j):
                    depth, j = depth + 1, j + 2
                elif src.startswith("*/", j):
                    depth, j = depth - 1, j + 2
                else:
                    j += 1
            line += src.count("\n", i, j)
            i = j
        elif rawstr.match(src, i):
            m = rawstr.match(src, i)
            close = '"' + m.group(1)
            j = src.find(close, m.end())
            if j < 0:
                raise GenError(f"{path}:{line}: unterminated raw string")
            j += len(close)
            toks.append(("str", src[i:j], line))
            line += src.count("\n", i, j)
            i = j
        elif c == '"' or (c in "bc" and src.startswith('"', i + 1)):
            j = i + (1 if c == '"' else 2)
            while j < n and src[j] != '"':
                j += 2 if src[j] == "\\" else 1
            j += 1
            toks.append(("str", src[i:j], line))
            line += src.count("\n", i, j)
            i = j
        elif c == "'" or (c == "b" and src.startswith("'", i + 1)):
            q = i if c == "'" else i + 1
            if src.startswith("\\", q + 1):
                j = q + 2
                while j < n and src[j] != "'":
                    j += 2 if src[j] == "\\" else 1
                toks.append(("chr", src[i:j + 1], line))
                i = j + 1
            elif q + 2 < n and src[q + 2] == "'":
                toks.append(("chr", src[i:q + 3], line))
                i = q + 3
            else:
                m = ident.match(src, q + 1)
                if not m or c != "'":
                    raise GenError(f"{path}:{line}: cannot read quote")
                toks.append(("life", src[q:m.end()], line))
                i = m.end()
        elif ident.match(src, i):
            m = ident.match(src, i)
            toks.append(("id", m.group(0), line))
            i = m.end()
        elif c.isdigit():
            m = number.match(src, i)
            toks.append(("num", m.group(0), line))
            i = m.end()
        else:
            for p in PUNCT:
                if src.startswith(p, i):
                    toks.append(("p", p, line))
                    i += len(p)
                    break
            else:
                toks.append(("p", c, line))
                i += 1
    return toks


def is_operand_end(t):
    if t is None:
        return False
    k, s, _ = t
    if k == "id":
        return s not in KEYWORDS
    if k in ("num", "str", "chr"):
        return True
    return k == "p" and s in (")", "]", "?")


def is_camel(t):
    return t is not None and t[0] == "id" and t[1][0].isupper() and any(ch.islower() for ch in t[1])


def match_close(toks, k):
    """Index of the token closing the bracket opened at k."""
    pairs = {"(": ")", "[": "]", "{": "}"}
    depth = 0
    for j in range(k, len(toks)):
        s = toks[j][1] if toks[j][0] == "p" else None
        if s in pairs:
            depth += 1
        elif s in pairs.values():
            depth -= 1
            if depth == 0:
                return j
    raise GenError(f"unbalanced bracket at line {toks[k][2]}")


def item_end(toks, k):
    """Index of the last token of the item starting at k."""
    depth = 0
    for j in range(k, len(toks)):
        s = toks[j][1] if toks[j][0] == "p" else None
        if s in ("(", "["):
            depth += 1
        elif s in (")", "]"):
            depth -= 1
        elif s == ";" and depth == 0:
            return j
        elif s == "{" and depth == 0:
            return match_close(toks, j)
    raise GenError(f"item starting at line {toks[k][2]} does not end")


def impl_self_type(header):
    """Self type name of an `impl` header (tokens after `impl`, before `{`)."""
    j = 0
    if j < len(header) and header[j][1] == "<":
        depth = 0
        while j < len(header):
            s = header[j][1]
            if header[j][0] == "p":
                if s == "<":
                    depth += 1
                elif s == ">":
                    depth -= 1
                elif s == ">>":
                    depth -= 2
            j += 1
            if depth <= 0:
                break
    rest = header[j:]
    depth, cut = 0, len(rest)
    for idx, t in enumerate(rest):
        if t[0] == "p":
            if t[1] == "<":
                depth += 1
            elif t[1] == ">":
                depth -= 1
            elif t[1] == ">>":
                depth -= 2
        if depth == 0 and t[0] == "id" and t[1] == "where":
            cut = idx
            break
    rest = rest[:cut]
    depth = 0
    for idx, t in enumerate(rest):
        if t[0] == "p":
            if t[1] == "<":
                depth += 1
            elif t[1] == ">":
                depth -= 1
            elif t[1] == ">>":
                depth -= 2
        if depth == 0 and t[0] == "id" and t[1] == "for":
            rest = rest[idx + 1:]
            break
    name = None
    for t in rest:
        if t[0] == "life" or (t[0] == "p" and t[1] in ("&", "&&", "::", "(")) or (t[0] == "id" and t[1] in ("mut", "dyn")):
            continue
        if t[0] == "id":
            name = t[1]
            continue
        break
    return name or "?"


def scan_file(rel, src):
    """Returns the list of (fn, kind, line) sites of one file."""
    toks = lex(src, rel)
    sites = []
    stack = []       # dicts: kind (fn|impl|trait|mod|macro|block), name, unsafe
    pending = None   # (kind, name, depth) waiting for its `{`
    depth = 0        # ( and [ nesting
    skip_item = False
    k = 0
    n = len(toks)

    def cur_fn():
        for idx in range(len(stack) - 1, -1, -1):
            sc = stack[idx]
            if sc["kind"] == "macro":
                return "macro_rules!" + sc["name"]
            if sc["kind"] == "fn":
                for outer in reversed(stack[:idx]):
                    if outer["kind"] in ("impl", "trait"):
                        return outer["name"] + "::" + sc["name"]
                return sc["name"]
        if pending and pending[0] == "fn":
            for outer in reversed(stack):
                if outer["kind"] in ("impl", "trait"):
                    return outer["name"] + "::" + pending[1]
            return pending[1]
        for outer in reversed(stack):
            if outer["kind"] in ("impl", "trait"):
                return outer["name"] + "::-"
        return "-"

    def in_fn_body():
        return any(sc["kind"] in ("fn", "macro") for sc in stack)

    def in_unsafe():
        for sc in reversed(stack):
            if sc.get("unsafe"):
                return True
            if sc["kind"] == "fn":
                return False
        return False

    def in_macro():
        return any(sc["kind"] == "macro" for sc in stack)

    def add(kind, line):
        sites.append((cur_fn(), kind, line))

    while k < n:
        kind, s, line = toks[k]
        prev = toks[k - 1] if k > 0 else None
        nxt = toks[k + 1] if k + 1 < n else None
        # ---- attributes
        if kind == "p" and s == "#" and nxt and (nxt[1] == "[" or (nxt[1] == "!" and k + 2 < n and toks[k + 2][1] == "[")):
            ob = k + 1 if nxt[1] == "[" else k + 2
            cb = match_close(toks, ob)
            text = "".join(t[1] for t in toks[ob + 1:cb])
            if text in SKIP_ATTRS:
                skip_item = True
            k = cb + 1
            continue
        if skip_item:
            skip_item = False
            k = item_end(toks, k) + 1
            continue
        # ---- scopes
        if kind == "p" and s in ("(", "["):
            depth += 1
        elif kind == "p" and s in (")", "]"):
            depth -= 1
        elif kind == "p" and s == "{":
            if pending and depth == pending[2]:
                stack.append({"kind": pending[0], "name": pending[1], "unsafe": False})
                pending = None
            else:
                is_unsafe = prev is not None and prev[0] == "id" and prev[1] == "unsafe"
                stack.append({"kind": "block", "name": "", "unsafe": is_unsafe})
        elif kind == "p" and s == "}":
            if not stack:
                raise GenError(f"{rel}:{line}: unbalanced braces")
            stack.pop()
        elif kind == "p" and s == ";" and pending and depth == pending[2]:
            pending = None
        elif kind == "id" and s == "macro_rules" and nxt and nxt[1] == "!" and k + 2 < n and toks[k + 2][0] == "id":
            pending = ("macro", toks[k + 2][1], depth)
            k += 3
            continue
        elif kind == "id" and s == "fn" and nxt and nxt[0] == "id" and not in_macro():
            pending = ("fn", nxt[1], depth)
            k += 2
            continue
        elif kind == "id" and s in ("impl", "trait", "mod") and pending is None and not in_macro() and (
                prev is None or (prev[0] == "p" and prev[1] in ("}", ";", "]", "{", ")")) or (prev[0] == "id" and prev[1] in ("unsafe", "pub", "default"))):
            # find the `{` (or `;`) that ends the header
            j, d = k + 1, 0
            while j < n:
                t = toks[j]
                if t[0] == "p" and t[1] in ("(", "["):
                    d += 1
                elif t[0] == "p" and t[1] in (")", "]"):
                    d -= 1
                elif t[0] == "p" and t[1] in ("{", ";") and d == 0:
                    break
                j += 1
            if j < n and toks[j][1] == "{":
                header = toks[k + 1:j]
                name = impl_self_type(header) if s == "impl" else (header[0][1] if header else "?")
                pending = (s, name, depth)
            if s in ("impl", "trait") and prev is not None and prev[0] == "id" and prev[1] == "unsafe":
                add("unsafe_impl", line)
            k = j  # the header holds no sites (bounds only)
            continue

        # ---- sites
        if kind == "id":
            if prev and prev[0] == "p" and prev[1] == "." and nxt and nxt[1] == "(":
                if s in ("unwrap", "unwrap_err"):
                    add("unwrap", line)
                elif s in ("expect", "expect_err"):
                    add("expect", line)
                elif s in ("split_at", "split_at_mut"):
                    add("split_at", line)
                elif s in ("split_off", "drain", "copy_from_slice"):
                    add(s, line)
            if s.endswith("_unchecked") and nxt and nxt[1] in ("(", "::"):
                add("unchecked_call", line)
            if nxt and nxt[0] == "p" and nxt[1] == "!" and not (k + 2 < n and toks[k + 2][1] == "="):
                if s == "unreachable":
                    add("unreachable", line)
                elif s in ("panic", "todo", "unimplemented"):
                    add("panic", line)
                elif s in ("assert", "assert_eq", "assert_ne"):
                    add("assert", line)
                elif s in ("debug_assert", "debug_assert_eq", "debug_assert_ne"):
                    add("debug_assert", line)
            if s == "as" and nxt and nxt[0] == "id" and nxt[1] in PRIMS:
                add("cast", line)
            if s == "unsafe" and nxt:
                if nxt[1] == "{":
                    add("unsafe_block", line)
                elif nxt[1] == "fn" or (nxt[1] == "extern"):
                    # keyed by the fn being declared, not by what encloses it
                    j = k + 1
                    while j < n and not (toks[j][0] == "id" and toks[j][1] == "fn"):
                        j += 1
                    name = toks[j + 1][1] if j + 1 < n and toks[j + 1][0] == "id" else "?"
                    outer = cur_fn()
                    sites.append(((outer[:-1] + name) if outer.endswith("::-") else name if outer == "-" else outer + "::" + name, "unsafe_fn", line))
        elif kind == "p":
            if s == "[" and is_operand_end(prev):
                add("index", line)
            elif s in ("-", "+", "*") and is_operand_end(prev) and not in_macro():
                both_lit = prev[0] == "num" and nxt is not None and nxt[0] == "num"
                if s == "+":
                    bound = (not in_fn_body()) or (nxt is not None and (nxt[0] == "life" or nxt[1] == "?")) or (
                        is_camel(prev) and is_camel(nxt)) or (prev[1] == ">" and is_camel(nxt))
                    if not bound and not both_lit:
                        add("unchecked_add", line)
                elif not both_lit:
                    add("unchecked_sub" if s == "-" else "unchecked_mul", line)
            elif s == "-=":
                add("unchecked_sub", line)
            elif s == "+=":
                add("unchecked_add", line)
            elif s == "*=":
                add("unchecked_mul", line)
            if in_unsafe():
                if s == "(" and prev is not None and ((prev[0] == "id" and prev[1] not in KEYWORDS) or (prev[0] == "p" and prev[1] in (">", ">>"))):
                    add("unsafe_call", line)
                elif s == "*" and not is_operand_end(prev):
                    add("unsafe_deref", line)
        k += 1
    if stack:
        raise GenError(f"{rel}: unbalanced braces at end of file")
    return sites


# --------------------------------------------------------------------------- constants

def eval_const(expr, where):
    """Integer value of a constant expression made of literals, + - *, (), .pow(n)."""
    toks = re.findall(r"\d[\dA-Za-z_]*|\.pow|[-+*()]", expr)
    if "".join(toks) != re.sub(r"\s+", "", expr):
        raise GenError(f"{where}: cannot evaluate constant expression `{expr.strip()}`")
    pos = 0

    def lit(t):
        t = re.sub(r"_?(usize|u64|u32|u16|u8|u128|isize|i64|i32|i16|i8|i128)$", "", t).replace("_", "")
        return int(t, 0)

    def atom():
        nonlocal pos
        t = toks[pos]
        if t == "(":
            pos += 1
            v = add_()
            if toks[pos] != ")":
                raise GenError(f"{where}: unbalanced constant expression")
            pos += 1
        else:
            v = lit(t)
            pos += 1
        while pos < len(toks) and toks[pos] == ".pow":
            if toks[pos + 1] != "(":
                raise GenError(f"{where}: bad .pow")
            pos += 2
            e = add_()
            pos += 1
            v = v ** e
        return v

    def mul_():
        nonlocal pos
        v = atom()
        while pos < len(toks) and toks[pos] == "*":
            pos += 1
            v *= atom()
        return v

    def add_():
        nonlocal pos
        v = mul_()
        while pos < len(toks) and toks[pos] in "+-":
            op = toks[pos]
            pos += 1
            w = mul_()
            v = v + w if op == "+" else v - w
        return v

    try:
        v = add_()
    except (IndexError, ValueError):
        raise GenError(f"{where}: cannot evaluate constant expression `{expr.strip()}`")
    if pos != len(toks) or v < 0:
        raise GenError(f"{where}: cannot evaluate constant expression `{expr.strip()}`")
    return v


def strip_comments(src):
    return re.sub(r"//[^\n]*", "", src)


def find_const(rel, name):
    src = strip_comments(open(os.path.join(REPO, rel)).read())
    ms = re.findall(r"\bconst\s+" + name + r"\s*:\s*usize\s*=\s*([^;]+);", src)
    if len(ms) != 1:
        # A renamed constant that still carries the name (`DETECT_SIZE_CUTOFF`).
        ms = re.findall(r"\bconst\s+\w*" + name + r"\w*\s*:\s*usize\s*=\s*([^;]+);", src)
    if len(ms) != 1:
        raise GenError(f"{rel}: expected exactly one `const {name}: usize = ...;`, found {len(ms)}")
    return eval_const(ms[0], f"{rel}: {name}")


def package_version():
    text = open(os.path.join(REPO, "Cargo.toml")).read()
    m = re.search(r"^\[package\]\s*$(.*?)(?=^\[|\Z)", text, re.M | re.S)
    if not m:
        raise GenError("Cargo.toml: no [package] section")
    v = re.search(r'^version\s*=\s*"([^"\\]*)"\s*$', m.group(1), re.M)
    if not v:
        raise GenError("Cargo.toml: no package version")
    return v.group(1)


# --------------------------------------------------------------------------- output

def lean_str(s):
    return '"' + s.replace("\\", "\\\\").replace('"', '\\"') + '"'


def write_if_changed(path, content):
    if os.path.exists(path) and open(path).read() == content:
        return False
    os.makedirs(os.path.dirname(path), exist_ok=True)
    with open(path, "w") as f:
        f.write(content)
    return True


def collect():
    for rel in EXPECTED:
        if not os.path.isfile(os.path.join(REPO, rel)):
            raise GenError(f"expected file {rel} is missing under {REPO}")
    files = []
    for dirpath, dirs, names in os.walk(os.path.join(REPO, "src")):
        dirs.sort()
        for fn in sorted(names):
            if fn.endswith(".rs"):
                rel = os.path.relpath(os.path.join(dirpath, fn), REPO).replace(os.sep, "/")
                if rel not in EXCLUDED_FILES:
                    files.append(rel)
    files.sort()
    listing = []
    counts = {}
    for rel in files:
        src = open(os.path.join(REPO, rel), encoding="utf-8").read()
        for fn, kind, line in scan_file(rel, src):
            counts[(rel, fn, kind)] = counts.get((rel, fn, kind), 0) + 1
            listing.append((rel, line, fn, kind, src.splitlines()[line - 1].strip()))
    return files, counts, listing


def main():
    try:
        files, counts, listing = collect()
        consts = [
            ("DEPTH_LIMIT", find_const("src/msgpack.rs", "DEPTH_LIMIT"), "src/msgpack.rs"),
            ("SIZE_CUTOFF", find_const("src/toml.rs", "SIZE_CUTOFF"), "src/toml.rs"),
            ("DETECT_LEN", find_const("src/yaml/encoding.rs", "DETECT_LEN"), "src/yaml/encoding.rs"),
            ("MAX_UTF8_ENCODED_LEN", find_const("src/yaml/encoding.rs", "MAX_UTF8_ENCODED_LEN"), "src/yaml/encoding.rs"),
        ]
        version = package_version()
    except GenError as e:
        print(f"gen_from_source: {e}", file=sys.stderr)
        return 1
    except OSError as e:
        print(f"gen_from_source: {e}", file=sys.stderr)
        return 1
    if "--list" in sys.argv:
        for rel, line, fn, kind, text in listing:
            print(f"{rel}:{line}\t{kind}\t{fn}\t{text}")
        return 0
    if "--summary" in sys.argv:
        per = {}
        for (_, _, kind), c in counts.items():
            per[kind] = per.get(kind, 0) + c
        for kind in sorted(per):
            print(f"{kind}\t{per[kind]}")
        print(f"entries\t{len(counts)}\nsites\t{sum(counts.values())}")
        return 0
    out = [
        "/-",
        "GENERATED by gen_from_source.py from the Rust sources of xt -- do not edit.",
        "Panic / unsafe sites of src/**/*.rs (outside #[cfg(test)] and #[cfg(feature = \"verif\")]",
        "items and src/verif.rs) as (file, enclosing fn, kind, count), sorted.",
        "-/",
        "namespace Xt.Generated",
        "",
        "def scannedFiles : List String := [",
        ",\n".join("  " + lean_str(f) for f in files),
        "]",
        "",
        "def sites : List (String × String × String × Nat) := [",
        ",\n".join(f"  ({lean_str(f)}, {lean_str(fn)}, {lean_str(kind)}, {c})" for (f, fn, kind), c in sorted(counts.items())),
        "]",
        "",
        "end Xt.Generated",
        "",
    ]
    a = write_if_changed(os.path.join(OUT_DIR, "PanicSites.lean"), "\n".join(out))
    out = [
        "/-",
        "GENERATED by gen_from_source.py from the Rust sources of xt -- do not edit.",
        "-/",
        "namespace Xt.Generated",
        "",
    ]
    for name, value, rel in consts:
        out.append(f"/-- `{name}` in {rel} -/")
        out.append(f"def {name} : Nat := {value}")
        out.append("")
    out += ["/-- `[package] version` in Cargo.toml -/", f"def VERSION : String := {lean_str(version)}", "", "end Xt.Generated", ""]
    b = write_if_changed(os.path.join(OUT_DIR, "Consts.lean"), "\n".join(out))
    print(f"gen_from_source: {len(counts)} entries / {sum(counts.values())} sites in {len(files)} files; "
          f"PanicSites.lean {'written' if a else 'unchanged'}, Consts.lean {'written' if b else 'unchanged'}")
    return 0


if __name__ == "__main__":
    sys.exit(main())
