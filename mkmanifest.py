#!/usr/bin/env python3
"""Regenerates MANIFEST.json from propsdef.py (claimed checks) and the list of
all property ids (unclaimed ones go under not_applicable with a reason)."""
import json, os, subprocess
ROOT = os.path.dirname(os.path.abspath(__file__))
import sys
sys.path.insert(0, ROOT)
from propsdef import PROPS, MANIFEST_TEXT

ids = [json.loads(l)["id"] for l in open(os.path.join(ROOT, "properties.jsonl"))]
hook_commits = subprocess.run(["git", "-C", "/repo", "log", "--format=%H %s"], capture_output=True, text=True).stdout.splitlines()
hooks = [l.split(" ")[0] for l in hook_commits if " verif: " in " " + l.split(" ", 1)[1] + " " or l.split(" ", 1)[1].startswith("verif:")]

checks = []
for pid in ids:
    if pid not in PROPS:
        continue
    t = MANIFEST_TEXT[pid]
    checks.append({
        "property_id": pid,
        "quick_cmd": f"./check {pid} --tier quick",
        "thorough_cmd": f"./check {pid} --tier thorough",
        "evidence_file": f"/verif/evidence/{pid}.json",
        "replay_cmd_template": f"./check {pid} --replay {{path}}",
        "engine": "lean-proof+correspondence",
        "level_claimed": {"category": "proof", "text": t["text"], "design_ref": t["design_ref"]},
        "level_note": t["note"],
        "technique": t["technique"],
    })
na = [{"property_id": pid, "reason": "not claimed yet: the Lean model, theorems and correspondence for this property are still being built (see DESIGN.md section 9 build order); no other technique is substituted"} for pid in ids if pid not in PROPS]
manifest = {
    "version": 1,
    "setup_cmd": "./setup.sh",
    "hooks": {
        "guard": "cargo feature `verif` (xt/verif)",
        "enable": "the harness crate depends on xt = { path = \"/repo\", features = [\"verif\"] }; cargo build --release --offline in /verif/harness",
        "baseline_off_cmd": "cd /repo && cargo test --workspace --no-fail-fast --offline",
        "source_commits": hooks,
        "add_only": True,
    },
    "engines": [
        {"name": "lean-proof+correspondence", "path": "/verif/check", "serves_properties": [c["property_id"] for c in checks],
         "kind_free_text": "Lean 4 theorems about a hand-written executable model (lean/XtModel), tied to /repo by a differential correspondence run (harness/ in Rust through the verif hooks vs the native Lean driver), plus implementation-level statements of each property that supply concrete failing inputs"},
    ],
    "checks": checks,
    "not_applicable": na,
    "notes": "Every check: (P) lake build of the property's theorem module + #print axioms audit, (C) model-vs-implementation correspondence on generated and exhaustive case files, (H/S) implementation-level statements of the property through xt's API. A broken proof obligation or correspondence without a concrete failing input is reported as VIOLATION ... no-failing-input-found. known_findings.json is read-only at run time.",
}
json.dump(manifest, open(os.path.join(ROOT, "MANIFEST.json"), "w"), indent=1)
print("claimed:", [c["property_id"] for c in checks])
