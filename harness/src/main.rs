//! xtverif: the Rust side of the verification harness for xt.
//!
//! `xtverif run <Cnn> <quick|thorough> <seed> <outdir>` runs every engine that
//! serves property `Cnn` against the xt built from /repo's working tree
//! (feature `verif` on), and writes `cases.txt` (for the Lean model driver),
//! `impl.out` (the implementation's answers) and `report.json`.

mod engines {
	pub mod cli;
	pub mod encoding;
}
mod props {
	pub mod c07;
	pub mod c13;
	pub mod c14;
	pub mod c15;
	pub mod c16;
}
mod out;
mod util;
mod xtapi;

use out::Out;
use util::Rng;

fn main() {
	let args: Vec<String> = std::env::args().collect();
	if args.len() >= 6 && args[1] == "run" {
		// Panics inside xt are caught per case; keep the default hook quiet.
		std::panic::set_hook(Box::new(|_| {}));
		let prop = args[2].as_str();
		let thorough = args[3] == "thorough";
		let seed: u64 = args[4].parse().expect("seed");
		let dir = args[5].as_str();
		let mut out = Out::new();
		let mut rng = Rng::new(seed);
		match prop {
			"C07" => {
				engines::encoding::run(&mut out, &mut rng.fork(), thorough);
				props::c07::run(&mut out, &mut rng.fork(), thorough);
			}
			"C13" => props::c13::run(&mut out, &mut rng.fork(), thorough),
			"C14" => props::c14::run(&mut out, &mut rng.fork(), thorough),
			"C15" => props::c15::run(&mut out, &mut rng.fork(), thorough),
			"C16" => props::c16::run(&mut out, &mut rng.fork(), thorough),
			_ => {
				eprintln!("unknown property {prop}");
				std::process::exit(3);
			}
		}
		out.write(dir).expect("write results");
		return;
	}
	eprintln!("usage: xtverif run <Cnn> <quick|thorough> <seed> <outdir>");
	std::process::exit(3);
}
