//! xtverif: the Rust side of the verification harness for xt.
//!
//! `xtverif run <Cnn> <quick|thorough> <seed> <outdir>` runs every engine that
//! serves property `Cnn` against the xt built from /repo's working tree
//! (feature `verif` on), and writes `cases.txt` (for the Lean model driver),
//! `impl.out` (the implementation's answers) and `report.json`.

mod engines {
	pub mod chunker;
	pub mod output;
	pub mod cli;
	pub mod encoding;
	pub mod faults;
	pub mod transcode;
	pub mod input;
	pub mod json;
	pub mod tomlorder;
	pub mod msgpack;
	pub mod stream;
	pub mod bridge;
	pub mod translate;
}
mod props {
	pub mod c01;
	pub mod cli_extra;
	pub mod c02;
	pub mod c04;
	pub mod c06;
	pub mod c10;
	pub mod c12;
	pub mod c03;
	pub mod c08;
	pub mod c07;
	pub mod c11;
	pub mod c09;
	pub mod c18;
	pub mod c13;
	pub mod c14;
	pub mod c15;
	pub mod c16;
	pub mod c05;
	pub mod c17;
}
mod alloc;
mod corpus;
mod gen;
mod out;
mod procs;
mod util;
mod xtapi;

use out::Out;
use util::Rng;

#[global_allocator]
static GLOBAL: alloc::Counting = alloc::Counting;

fn main() {
	// Deeply nested inputs are translated in-process: give the worker the
	// stack of a generous main thread (the real binaries are run separately
	// on their default stacks by the C18 statements).
	let worker = std::thread::Builder::new().stack_size(1 << 30).spawn(real_main).expect("spawn worker");
	match worker.join() {
		Ok(()) => {}
		Err(_) => std::process::exit(101),
	}
}

fn real_main() {
	let args: Vec<String> = std::env::args().collect();
	if args.len() >= 3 && args[1] == "crumb-show" {
		// the case a killed run was in: text, then the input as hex
		match util::crumb::load(&args[2]) {
			Some((text, data)) => println!("{text}\n{}", util::hex(&data)),
			None => std::process::exit(3),
		}
		return;
	}
	if args.len() >= 3 && args[1] == "crumb-replay" {
		// runs that case alone; exit 0 = it ran to an end, 3 = not of a replayable form
		let Some((text, data)) = util::crumb::load(&args[2]) else { std::process::exit(3) };
		std::panic::set_hook(Box::new(|_| {}));
		match xtapi::replay_crumb(&text, &data).map(|o| o.describe()).or_else(|| props::c17::replay_crumb(&text, &data)) {
			Some(o) => println!("{}", o.chars().take(300).collect::<String>()),
			None => std::process::exit(3),
		}
		return;
	}
	if args.len() >= 6 && args[1] == "run" {
		// Panics inside xt are caught per case; keep the default hook quiet.
		std::panic::set_hook(Box::new(|_| {}));
		let prop = args[2].as_str();
		let thorough = args[3] == "thorough";
		let seed: u64 = args[4].parse().expect("seed");
		let dir = args[5].as_str();
		let _ = std::fs::create_dir_all(dir);
		util::crumb::init(&format!("{dir}/crumb.bin"));
		let mut out = Out::new();
		let mut rng = Rng::new(seed);
		match prop {
			"C01" => {
				engines::msgpack::run_decode(&mut out, &mut rng.fork(), thorough);
				engines::transcode::run(&mut out, &mut rng.fork(), thorough);
				engines::tomlorder::run(&mut out, &mut rng.fork(), thorough);
				// JSON <-> MessagePack end to end against the composed model (fidelity theorems).
				engines::bridge::run(&mut out, &mut rng.fork(), thorough);
				props::c01::run(&mut out, &mut rng.fork(), thorough);
			}
			"C02" => {
				engines::msgpack::run_size(&mut out, &mut rng.fork(), thorough);
				engines::msgpack::run_decode(&mut out, &mut rng.fork(), thorough);
				// The correspondences of the models C02's theorems are about.
				engines::input::run(&mut out, &mut rng.fork(), thorough);
				engines::json::run(&mut out, &mut rng.fork(), thorough);
				props::c02::run(&mut out, &mut rng.fork(), thorough);
				// The binary: a file argument vs the same bytes on standard input.
				props::cli_extra::c14_stdin_at_offset(&mut out, &mut rng.fork(), thorough);
				props::cli_extra::c14_unmappable_regular_file(&mut out);
			}
			"C04" => {
				engines::msgpack::run_size(&mut out, &mut rng.fork(), thorough);
				// Correspondences of the engines whose no-panic theorems C04 lists.
				engines::input::run(&mut out, &mut rng.fork(), thorough);
				engines::chunker::run(&mut out, &mut rng.fork(), thorough);
				engines::transcode::run(&mut out, &mut rng.fork(), thorough);
				props::c04::run(&mut out, &mut rng.fork(), thorough);
				props::cli_extra::c04_long_error_lines(&mut out);
				props::cli_extra::arg0_variants(&mut out);
			}
			"C06" => {
				engines::msgpack::run_decode(&mut out, &mut rng.fork(), thorough);
				engines::json::run(&mut out, &mut rng.fork(), thorough);
				engines::tomlorder::run(&mut out, &mut rng.fork(), thorough);
				// `roundtrip_j_m_j`: the composed JSON <-> MessagePack model.
				engines::bridge::run(&mut out, &mut rng.fork(), thorough);
				props::c06::run(&mut out, &mut rng.fork(), thorough);
			}
			"C10" => {
				engines::msgpack::run_decode(&mut out, &mut rng.fork(), thorough);
				engines::json::run(&mut out, &mut rng.fork(), thorough);
				engines::input::run(&mut out, &mut rng.fork(), thorough);
				props::c10::run(&mut out, &mut rng.fork(), thorough);
			}
			"C12" => {
				engines::faults::run(&mut out, &mut rng.fork(), thorough);
				engines::input::run(&mut out, &mut rng.fork(), thorough);
				props::c12::run(&mut out, &mut rng.fork(), thorough);
			}
			"C03" => {
				engines::chunker::run(&mut out, &mut rng.fork(), thorough);
				props::c03::run(&mut out, &mut rng.fork(), thorough);
				// inputs that are not regular files, between regular ones, in argument order
				props::cli_extra::special_file_inputs(&mut out);
				// standard input that is a regular file whose offset is not 0
				props::cli_extra::c14_stdin_at_offset(&mut out, &mut rng.fork(), thorough);
			}
			"C08" => {
				props::c08::run(&mut out, &mut rng.fork(), thorough);
			}
			"C07" => {
				engines::encoding::run(&mut out, &mut rng.fork(), thorough);
				props::c07::run(&mut out, &mut rng.fork(), thorough);
			}
			"C11" => {
				engines::transcode::run(&mut out, &mut rng.fork(), thorough);
				props::c11::run(&mut out, &mut rng.fork(), thorough);
				props::c11::yaml_error_positions(&mut out, &mut rng.fork(), thorough);
			}
			"C09" => {
				engines::input::run(&mut out, &mut rng.fork(), thorough);
				// translate(None) as a whole: detection on one handle, then the selected module.
				engines::translate::run(&mut out, &mut rng.fork(), thorough);
				props::c09::run(&mut out, &mut rng.fork(), thorough);
			}
			"C05" => {
				engines::stream::run(&mut out, &mut rng.fork(), thorough);
				props::c05::run(&mut out, &mut rng.fork(), thorough);
				// the re-encoder model the K10 theorems are about (after the
				// others so that their generated cases keep their seeds)
				engines::encoding::run(&mut out, &mut rng.fork(), thorough);
			}
			"C17" => {
				// guards: read_handler / ChunkReader::read vs the model, incl. over-reports
				engines::chunker::run_guards(&mut out, &mut rng.fork(), thorough);
				props::c17::run(&mut out, &mut rng.fork(), thorough);
			}
			// Development entry for the JSON model slice (not a property id).
			"JSONDEV" => {
				engines::json::run(&mut out, &mut rng.fork(), thorough);
			}
			// Development entry for the JSON <-> MessagePack bridge slice.
			"BRIDGEDEV" => {
				engines::bridge::run(&mut out, &mut rng.fork(), thorough);
			}
			"C18" => {
				engines::msgpack::run_size(&mut out, &mut rng.fork(), thorough);
				engines::msgpack::run_decode(&mut out, &mut rng.fork(), thorough);
				props::c18::run(&mut out, &mut rng.fork(), thorough);
			}
			"C13" => {
				props::c13::run(&mut out, &mut rng.fork(), thorough);
				props::cli_extra::small_output_to_full_device(&mut out, "C13");
				props::cli_extra::c13_repeated_options(&mut out);
				props::cli_extra::c13_unreadable_operand(&mut out);
				props::cli_extra::c13_non_utf8_arguments(&mut out);
				props::cli_extra::special_file_inputs(&mut out);
				props::cli_extra::arg0_variants(&mut out);
			}
			"C14" => {
				props::c14::run(&mut out, &mut rng.fork(), thorough);
				props::cli_extra::c14_stdin_at_offset(&mut out, &mut rng.fork(), thorough);
				props::cli_extra::c14_unmappable_regular_file(&mut out);
				props::cli_extra::special_file_inputs(&mut out);
				// extension of a name whose stem is not UTF-8
				props::cli_extra::c13_non_utf8_arguments(&mut out);
			}
			"C15" => {
				props::c15::run(&mut out, &mut rng.fork(), thorough);
				engines::cli::pipecheck_table(&mut out);
				props::cli_extra::c15_nonblocking_full_pipe(&mut out);
			}
			"C16" => {
				props::c16::run(&mut out, &mut rng.fork(), thorough);
				props::cli_extra::c16_buffer_boundary(&mut out, thorough);
				props::cli_extra::c16_consumer_gone_routes(&mut out);
				props::cli_extra::small_output_to_full_device(&mut out, "C16");
				props::cli_extra::c16_help_write_errors(&mut out);
			}
			_ => {
				eprintln!("unknown property {prop}");
				std::process::exit(3);
			}
		}
		out.write(dir).expect("write results");
		return;
	}
	if args.len() >= 3 && args[1] == "chunker-after-error" {
		// Calls Chunker::next again after it returned an Err item.
		let data = util::unhex(&args[2]).expect("hex");
		let mut it = xt::verif::yaml_chunker(Box::new(std::io::Cursor::new(data)));
		loop {
			match it.next() {
				Some(Ok((t, _))) => println!("doc {:?}", t),
				Some(Err(e)) => {
					println!("err {e}; calling next() again…");
					println!("second call returned {:?}", it.next().map(|r| r.map_err(|e| e.to_string())));
					return;
				}
				None => {
					println!("end");
					return;
				}
			}
		}
	}
	if args.len() >= 6 && args[1] == "x" {
		// xtverif x <from|auto> <to> <slice|reader|reader1> <hex>[/<hex>...]: one Translator, one call per hex.
		let from = xtapi::Fmt::from_name(&args[2]);
		let to = xtapi::Fmt::from_name(&args[3]).expect("to");
		let supply = match args[4].as_str() {
			"slice" => xtapi::Supply::Slice,
			"reader1" => xtapi::Supply::Reader(vec![1]),
			_ => xtapi::Supply::Reader(vec![]),
		};
		let inputs: Vec<_> = args[5].split('/').map(|h| (util::unhex(h).expect("hex"), supply.clone(), from)).collect();
		let (results, out) = xtapi::translate_many(&inputs, to);
		println!("results={results:?}\noutput={}\ntext={:?}", util::hex(&out), String::from_utf8_lossy(&out));
		return;
	}
	if args.len() >= 6 && args[1] == "trace" {
		// xtverif trace <from|auto> <to> <packet-bytes|0> <hex>: the read/write trace of one translation.
		let from = xtapi::Fmt::from_name(&args[2]);
		let to = xtapi::Fmt::from_name(&args[3]).expect("to");
		let p: usize = args[4].parse().expect("packet size");
		let data = std::rc::Rc::new(util::unhex(&args[5]).expect("hex"));
		let packets = if p == 0 { engines::stream::Packets::All } else { engines::stream::Packets::Every(p) };
		let r = engines::stream::run_real(&data, &packets, from, to);
		println!("result={:?} written={}\ntrace={}", r.result, r.written, engines::stream::trace_field(&r.trace));
		return;
	}
	if args.len() >= 2 && args[1] == "probe-transient" {
		props::c09::probe_transient();
		return;
	}
	if args.len() >= 2 && args[1] == "probe-chunking" {
		std::panic::set_hook(Box::new(|_| {}));
		props::c09::probe_chunking();
		return;
	}
	if args.len() >= 4 && args[1] == "probe-detect" {
		// xtverif probe-detect <hex> <to>: detection and explicit/detected runs in both supply modes.
		std::panic::set_hook(Box::new(|_| {}));
		props::c09::probe(&util::unhex(&args[2]).expect("hex"), xtapi::Fmt::from_name(&args[3]).expect("format"), args.get(4).map(String::as_str));
		return;
	}
	if args.len() >= 3 && args[1] == "debug-k4" {
		debug_k4(&args[2]);
		return;
	}
	eprintln!("usage: xtverif run <Cnn> <quick|thorough> <seed> <outdir>");
	std::process::exit(3);
}

#[allow(dead_code)]
pub fn debug_k4(hexs: &str) {
	let b = util::unhex(hexs).unwrap();
	let y = gen::read_docs(xtapi::Fmt::Msgpack, &b).unwrap();
	println!("y        = {:?}", y[0]);
	println!("written  = {:?}", y[0].toml_written_order());
	println!("reorder  = {:?}", y[0].toml_reorder());
}
