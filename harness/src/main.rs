//! xtverif: the Rust side of the verification harness for xt.
//!
//! `xtverif run <Cnn> <quick|thorough> <seed> <outdir>` runs every engine that
//! serves property `Cnn` against the xt built from /repo's working tree
//! (feature `verif` on), and writes `cases.txt` (for the Lean model driver),
//! `impl.out` (the implementation's answers) and `report.json`.

mod engines {
	pub mod chunker;
	pub mod output;
	pub mod encoding;
	pub mod transcode;
	pub mod input;
	pub mod json;
	pub mod tomlorder;
	pub mod stream;
}
mod props {
	pub mod c01;
	pub mod c02;
	pub mod c04;
	pub mod c06;
	pub mod c10;
	pub mod c12;
	pub mod c03;
	pub mod c08;
	pub mod c07;
	pub mod c11;
	pub mod c09;
	pub mod c05;
}
mod alloc;
mod corpus;
mod gen;
mod out;
mod procs;
mod util;
mod xtapi;

use out::Out;
use util::Rng;

#[global_allocator]
static GLOBAL: alloc::Counting = alloc::Counting;

fn main() {
	let args: Vec<String> = std::env::args().collect();
	if args.len() >= 6 && args[1] == "run" {
		// Panics inside xt are caught per case; keep the default hook quiet.
		std::panic::set_hook(Box::new(|_| {}));
		let prop = args[2].as_str();
		let thorough = args[3] == "thorough";
		let seed: u64 = args[4].parse().expect("seed");
		let dir = args[5].as_str();
		let mut out = Out::new();
		let mut rng = Rng::new(seed);
		match prop {
			"C01" => {
				engines::tomlorder::run(&mut out, &mut rng.fork(), thorough);
				props::c01::run(&mut out, &mut rng.fork(), thorough);
			}
			"C02" => {
				props::c02::run(&mut out, &mut rng.fork(), thorough);
			}
			"C04" => {
				props::c04::run(&mut out, &mut rng.fork(), thorough);
			}
			"C06" => {
				props::c06::run(&mut out, &mut rng.fork(), thorough);
			}
			"C10" => {
				props::c10::run(&mut out, &mut rng.fork(), thorough);
			}
			"C12" => {
				props::c12::run(&mut out, &mut rng.fork(), thorough);
			}
			"C03" => {
				engines::chunker::run(&mut out, &mut rng.fork(), thorough);
				props::c03::run(&mut out, &mut rng.fork(), thorough);
			}
			"C08" => {
				props::c08::run(&mut out, &mut rng.fork(), thorough);
			}
			"C07" => {
				engines::encoding::run(&mut out, &mut rng.fork(), thorough);
				props::c07::run(&mut out, &mut rng.fork(), thorough);
			}
			"C11" => {
				engines::transcode::run(&mut out, &mut rng.fork(), thorough);
				props::c11::run(&mut out, &mut rng.fork(), thorough);
			}
			"C09" => {
				engines::input::run(&mut out, &mut rng.fork(), thorough);
				props::c09::run(&mut out, &mut rng.fork(), thorough);
			}
			"C05" => {
				engines::stream::run(&mut out, &mut rng.fork(), thorough);
				props::c05::run(&mut out, &mut rng.fork(), thorough);
			}
			// Development entry for the JSON model slice (not a property id).
			"JSONDEV" => {
				engines::json::run(&mut out, &mut rng.fork(), thorough);
			}
			_ => {
				eprintln!("unknown property {prop}");
				std::process::exit(3);
			}
		}
		out.write(dir).expect("write results");
		return;
	}
	if args.len() >= 3 && args[1] == "chunker-after-error" {
		// Calls Chunker::next again after it returned an Err item.
		let data = util::unhex(&args[2]).expect("hex");
		let mut it = xt::verif::yaml_chunker(Box::new(std::io::Cursor::new(data)));
		loop {
			match it.next() {
				Some(Ok((t, _))) => println!("doc {:?}", t),
				Some(Err(e)) => {
					println!("err {e}; calling next() again…");
					println!("second call returned {:?}", it.next().map(|r| r.map_err(|e| e.to_string())));
					return;
				}
				None => {
					println!("end");
					return;
				}
			}
		}
	}
	if args.len() >= 6 && args[1] == "x" {
		// xtverif x <from|auto> <to> <slice|reader|reader1> <hex>[/<hex>...]: one Translator, one call per hex.
		let from = xtapi::Fmt::from_name(&args[2]);
		let to = xtapi::Fmt::from_name(&args[3]).expect("to");
		let supply = match args[4].as_str() {
			"slice" => xtapi::Supply::Slice,
			"reader1" => xtapi::Supply::Reader(vec![1]),
			_ => xtapi::Supply::Reader(vec![]),
		};
		let inputs: Vec<_> = args[5].split('/').map(|h| (util::unhex(h).expect("hex"), supply.clone(), from)).collect();
		let (results, out) = xtapi::translate_many(&inputs, to);
		println!("results={results:?}\noutput={}\ntext={:?}", util::hex(&out), String::from_utf8_lossy(&out));
		return;
	}
	if args.len() >= 6 && args[1] == "trace" {
		// xtverif trace <from|auto> <to> <packet-bytes|0> <hex>: the read/write trace of one translation.
		let from = xtapi::Fmt::from_name(&args[2]);
		let to = xtapi::Fmt::from_name(&args[3]).expect("to");
		let p: usize = args[4].parse().expect("packet size");
		let data = std::rc::Rc::new(util::unhex(&args[5]).expect("hex"));
		let packets = if p == 0 { engines::stream::Packets::All } else { engines::stream::Packets::Every(p) };
		let r = engines::stream::run_real(&data, &packets, from, to);
		println!("result={:?} written={}\ntrace={}", r.result, r.written, engines::stream::trace_field(&r.trace));
		return;
	}
	if args.len() >= 2 && args[1] == "probe-transient" {
		props::c09::probe_transient();
		return;
	}
	if args.len() >= 2 && args[1] == "probe-chunking" {
		std::panic::set_hook(Box::new(|_| {}));
		props::c09::probe_chunking();
		return;
	}
	if args.len() >= 4 && args[1] == "probe-detect" {
		// xtverif probe-detect <hex> <to>: detection and explicit/detected runs in both supply modes.
		std::panic::set_hook(Box::new(|_| {}));
		props::c09::probe(&util::unhex(&args[2]).expect("hex"), xtapi::Fmt::from_name(&args[3]).expect("format"), args.get(4).map(String::as_str));
		return;
	}
	eprintln!("usage: xtverif run <Cnn> <quick|thorough> <seed> <outdir>");
	std::process::exit(3);
}
