//! Collector for what a harness run produced: correspondence cases with the
//! implementation's answers, implementation-level property failures, and
//! statistics for the evidence file.

use std::collections::{BTreeMap, HashSet};
use std::fs;
use std::io::Write;

use crate::util::json_escape;

pub struct Failure {
	/// Short stable identifier of the implementation-level statement that failed.
	pub what: String,
	/// Human-readable description of input / expected / observed.
	pub detail: String,
	/// Key used to match known findings.
	pub class: String,
}

#[derive(Default)]
pub struct Out {
	pub cases: Vec<String>,
	pub answers: Vec<String>,
	pub failures: Vec<Failure>,
	pub counters: BTreeMap<String, u64>,
	pub samples: Vec<String>,
	pub nontrivial: HashSet<u64>,
	pub evaluations: u64,
	next_id: u64,
}

fn fnv(s: &str) -> u64 {
	let mut h: u64 = 0xcbf29ce484222325;
	for b in s.bytes() {
		h ^= u64::from(b);
		h = h.wrapping_mul(0x100000001b3);
	}
	h
}

impl Out {
	pub fn new() -> Out {
		Out::default()
	}

	/// Records one correspondence case: `engine` + `fields` is what the model
	/// driver will see, `answer` is what the implementation did.
	pub fn case(&mut self, engine: &str, fields: &str, answer: &str, nontrivial: bool) {
		let id = format!("c{}", self.next_id);
		self.next_id += 1;
		self.cases.push(format!("{engine} {id} {fields}"));
		self.answers.push(format!("{id} {answer}"));
		self.evaluations += 1;
		*self.counters.entry(format!("cases.{engine}")).or_insert(0) += 1;
		if nontrivial {
			self.nontrivial.insert(fnv(&format!("{engine} {fields}")));
		}
		if self.samples.len() < 6 && nontrivial && self.next_id % 97 == 3 {
			let mut sample = format!("{engine} {fields} => {answer}");
			if sample.len() > 600 {
				let mut cut = 600;
				while !sample.is_char_boundary(cut) {
					cut -= 1;
				}
				sample.truncate(cut);
				sample.push_str("...");
			}
			self.samples.push(sample);
		}
	}

	/// Records one evaluation of an implementation-level statement.
	pub fn eval(&mut self, what: &str, key: &str, nontrivial: bool) {
		self.evaluations += 1;
		*self.counters.entry(format!("stmt.{what}")).or_insert(0) += 1;
		if nontrivial {
			self.nontrivial.insert(fnv(&format!("{what} {key}")));
		}
	}

	pub fn count(&mut self, key: &str) {
		*self.counters.entry(key.to_string()).or_insert(0) += 1;
	}

	pub fn sample(&mut self, s: String) {
		if self.samples.len() < 12 {
			self.samples.push(s);
		}
	}

	pub fn fail(&mut self, what: &str, class: &str, detail: String) {
		self.failures.push(Failure { what: what.to_string(), detail, class: class.to_string() });
	}

	pub fn write(&self, dir: &str) -> std::io::Result<()> {
		fs::create_dir_all(dir)?;
		let mut f = std::io::BufWriter::new(fs::File::create(format!("{dir}/cases.txt"))?);
		for c in &self.cases {
			writeln!(f, "{c}")?;
		}
		f.flush()?;
		let mut f = std::io::BufWriter::new(fs::File::create(format!("{dir}/impl.out"))?);
		for a in &self.answers {
			writeln!(f, "{a}")?;
		}
		f.flush()?;
		let mut j = String::new();
		j.push_str("{\n");
		j.push_str(&format!("  \"evaluations\": {},\n", self.evaluations));
		j.push_str(&format!("  \"distinct_nontrivial\": {},\n", self.nontrivial.len()));
		j.push_str("  \"counters\": {");
		let mut first = true;
		for (k, v) in &self.counters {
			if !first {
				j.push(',');
			}
			first = false;
			j.push_str(&format!("\n    \"{}\": {}", json_escape(k), v));
		}
		j.push_str("\n  },\n  \"samples\": [");
		for (i, s) in self.samples.iter().enumerate() {
			if i > 0 {
				j.push(',');
			}
			j.push_str(&format!("\n    \"{}\"", json_escape(s)));
		}
		j.push_str("\n  ],\n  \"failures\": [");
		let cap = std::env::var("XTVERIF_MAX_FAILURES").ok().and_then(|v| v.parse().ok()).unwrap_or(60usize);
		// At most `cap` (60) failures per class are written out (shortest first), so
		// that an unlisted failure is never hidden behind known findings.
		let mut by_class: BTreeMap<&str, Vec<&Failure>> = BTreeMap::new();
		for fl in &self.failures {
			by_class.entry(fl.class.as_str()).or_default().push(fl);
		}
		let mut shown: Vec<&Failure> = vec![];
		for (_, v) in by_class.iter_mut() {
			v.sort_by_key(|f| f.detail.len());
			shown.extend(v.iter().take(cap));
		}
		for (i, fl) in shown.iter().enumerate() {
			if i > 0 {
				j.push(',');
			}
			j.push_str(&format!(
				"\n    {{\"what\": \"{}\", \"class\": \"{}\", \"detail\": \"{}\"}}",
				json_escape(&fl.what),
				json_escape(&fl.class),
				json_escape(&fl.detail)
			));
		}
		j.push_str(&format!("\n  ],\n  \"failure_count\": {}\n}}\n", self.failures.len()));
		fs::write(format!("{dir}/report.json"), j)
	}
}
