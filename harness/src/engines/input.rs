//! Engines `handle`, `detectlist`, `mpmarker`: the rewindable input handle,
//! the decision list of `detect_format` and the MessagePack first-byte test,
//! driven through the verif hooks; produces correspondence cases for the Lean
//! model (lean/XtModel/Model/{Input,Detect}.lean).

use xt::verif::{HandleObs, HandleOp};

use crate::out::Out;
use crate::util::{catch, hex, nats, Rng, SchedReader, READ_FAULT_TEXT};
use crate::gen::{gen_doc, join_stream, mutate, spell, GenOpts, Spelling};
use crate::xtapi::Fmt;

// --------------------------------------------------------------------------- handle programs

pub fn op_token(op: &HandleOp) -> String {
	match op {
		HandleOp::Borrow => "B".to_string(),
		HandleOp::Read(n) => format!("R{n}"),
		HandleOp::Prefix(n) => format!("P{n}"),
		HandleOp::IntoInput(n) => format!("I{n}"),
		HandleOp::IntoCow => "C".to_string(),
	}
}

pub fn ops_field(ops: &[HandleOp]) -> String {
	if ops.is_empty() {
		return "-".to_string();
	}
	ops.iter().map(op_token).collect::<Vec<_>>().join(",")
}

fn err_token(text: &str) -> String {
	if text == READ_FAULT_TEXT {
		"e".to_string()
	} else {
		format!("e:{}", text.replace(' ', "_"))
	}
}

pub fn obs_token(obs: &HandleObs) -> String {
	match obs {
		HandleObs::RefSlice(b) => format!("rs:{}", hex(b)),
		HandleObs::RefReader => "rr".to_string(),
		HandleObs::Read(b) => format!("r:{}", hex(b)),
		HandleObs::Prefix(b) => format!("p:{}", hex(b)),
		HandleObs::InputSlice(b) => format!("is:{}", hex(b)),
		HandleObs::InputReader(b) => format!("ir:{}", hex(b)),
		HandleObs::Cow(b) => format!("c:{}", hex(b)),
		HandleObs::Err(text) => err_token(text),
		HandleObs::Skipped => "s".to_string(),
	}
}

/// A read schedule: caps, and whether they cycle forever.
#[derive(Clone, Debug)]
pub struct Sched {
	pub caps: Vec<usize>,
	pub cycle: bool,
}

impl Sched {
	pub fn field(&self) -> String {
		if self.caps.is_empty() {
			"-".to_string()
		} else if self.cycle {
			format!("~{}", nats(&self.caps))
		} else {
			nats(&self.caps)
		}
	}
}

pub fn run_program(data: &[u8], sched: &Sched, fail_at: Option<usize>, ops: &[HandleOp]) -> Result<Vec<HandleObs>, String> {
	catch(|| xt::verif::handle_program(SchedReader::new(data, sched.caps.clone(), sched.cycle, fail_at), ops))
}

fn handle_case(out: &mut Out, data: &[u8], sched: &Sched, fail_at: Option<usize>, ops: &[HandleOp]) {
	let fields = format!("{} {} {} {}", hex(data), sched.field(), fail_at.map_or("-".to_string(), |k| k.to_string()), ops_field(ops));
	match run_program(data, sched, fail_at, ops) {
		Ok(obs) => {
			let answer = if obs.is_empty() { "-".to_string() } else { obs.iter().map(obs_token).collect::<Vec<_>>().join(" ") };
			let mut nontrivial = false;
			for o in &obs {
				let key = match o {
					HandleObs::RefSlice(_) => "handle.obs.ref_slice",
					HandleObs::RefReader => "handle.obs.ref_reader",
					HandleObs::Read(b) => {
						if !b.is_empty() {
							nontrivial = true;
						}
						"handle.obs.read"
					}
					HandleObs::Prefix(b) => {
						if !b.is_empty() {
							nontrivial = true;
						}
						"handle.obs.prefix"
					}
					HandleObs::InputSlice(_) => {
						nontrivial = true;
						"handle.obs.input_slice"
					}
					HandleObs::InputReader(_) => {
						nontrivial = true;
						"handle.obs.input_reader"
					}
					HandleObs::Cow(_) => {
						nontrivial = true;
						"handle.obs.cow"
					}
					HandleObs::Err(_) => "handle.obs.err",
					HandleObs::Skipped => "handle.obs.skipped",
				};
				out.count(key);
			}
			out.case("handle", &fields, &answer, nontrivial);
			stmt_transparent(out, data, sched, fail_at, ops, &obs);
		}
		Err(p) => {
			out.case("handle", &fields, &format!("panic:{}", p.replace(' ', "_")), true);
			out.fail("handle_no_panic", "", format!("handle program panicked: data={} caps={} fail_at={:?} ops={}: {p}", hex(data), sched.field(), fail_at, ops_field(ops)));
		}
	}
}

/// Implementation-level statement of the handle claim, on the real
/// observations: every slice / input / cow observation is the whole data, every
/// prefix observation is a prefix of the data, the reads of one borrow
/// concatenate to a prefix of the data (up to a failed read), and every error
/// is the source's. The observation list of `handle_program` is index-aligned
/// with the ops that ran, which identifies the failed step.
fn stmt_transparent(out: &mut Out, data: &[u8], sched: &Sched, fail_at: Option<usize>, ops: &[HandleOp], obs: &[HandleObs]) {
	let mut off: Option<usize> = None;
	let mut bad: Option<String> = None;
	for (i, o) in obs.iter().enumerate() {
		match o {
			HandleObs::RefSlice(b) => {
				off = None;
				if b != data {
					bad = Some("slice reference is not the whole input".to_string());
				}
			}
			HandleObs::RefReader => off = Some(0),
			HandleObs::Read(b) => match off {
				Some(k) => {
					if k + b.len() > data.len() || data[k..k + b.len()] != b[..] {
						bad = Some(format!("read at offset {k} returned {} which is not the input at that offset", hex(b)));
					}
					off = Some(k + b.len());
				}
				None => {
					if !b.is_empty() {
						bad = Some("bytes were read after a failed read in the same borrow".to_string());
					}
				}
			},
			HandleObs::Prefix(b) => {
				if !data.starts_with(b) {
					bad = Some(format!("prefix {} is not a prefix of the input", hex(b)));
				}
			}
			HandleObs::InputSlice(b) | HandleObs::InputReader(b) | HandleObs::Cow(b) => {
				if b != data {
					bad = Some(format!("owned input {} is not the whole input", hex(b)));
				}
			}
			HandleObs::Err(text) => {
				if fail_at.is_none() || text != READ_FAULT_TEXT {
					bad = Some(format!("error '{text}' that the source did not report"));
				}
				if matches!(ops.get(i), Some(HandleOp::Read(_))) {
					off = None;
				}
			}
			HandleObs::Skipped => {}
		}
	}
	out.eval("handle_transparent", &format!("{} {} {:?} {}", hex(data), sched.field(), fail_at, ops_field(ops)), obs.len() > 1);
	if let Some(what) = bad {
		out.fail(
			"handle_transparent",
			"",
			format!("data={} caps={} fail_at={:?} ops={}: {what}; observations: {}", hex(data), sched.field(), fail_at, ops_field(ops), obs.iter().map(obs_token).collect::<Vec<_>>().join(" ")),
		);
	}
}

fn data_of(len: usize) -> Vec<u8> {
	(0..len).map(|i| 0xA1 + i as u8).collect()
}

const BODY_OPS: [HandleOp; 8] = [
	HandleOp::Borrow,
	HandleOp::Read(0),
	HandleOp::Read(1),
	HandleOp::Read(3),
	HandleOp::Read(7),
	HandleOp::Prefix(1),
	HandleOp::Prefix(4),
	HandleOp::Prefix(7),
];

const TERMINALS: [Option<HandleOp>; 4] = [None, Some(HandleOp::IntoInput(1)), Some(HandleOp::IntoInput(4)), Some(HandleOp::IntoCow)];

fn small_scheds() -> Vec<Sched> {
	vec![
		Sched { caps: vec![], cycle: false },
		Sched { caps: vec![1], cycle: true },
		Sched { caps: vec![2], cycle: true },
		Sched { caps: vec![1, 2], cycle: false },
		Sched { caps: vec![2, 1, 3], cycle: false },
		Sched { caps: vec![3, 1], cycle: true },
	]
}

/// All programs `body ++ terminal` with `body` of exactly `len` ops.
fn for_each_program(len: usize, f: &mut dyn FnMut(&[HandleOp])) {
	let total = BODY_OPS.len().pow(len as u32);
	let mut ops: Vec<HandleOp> = Vec::with_capacity(len + 1);
	for idx in 0..total {
		ops.clear();
		let mut k = idx;
		for _ in 0..len {
			ops.push(BODY_OPS[k % BODY_OPS.len()]);
			k /= BODY_OPS.len();
		}
		for t in TERMINALS.iter() {
			if let Some(t) = t {
				ops.push(*t);
				f(&ops);
				ops.pop();
			} else {
				f(&ops);
			}
		}
	}
}

fn random_op(rng: &mut Rng, max: u64) -> HandleOp {
	match rng.below(10) {
		0..=2 => HandleOp::Borrow,
		3..=6 => HandleOp::Read(match rng.below(5) {
			0 => 0,
			1 => 1,
			_ => rng.range(1, max) as usize,
		}),
		_ => HandleOp::Prefix(match rng.below(5) {
			0 => 0,
			_ => rng.range(1, max) as usize,
		}),
	}
}

fn handle_cases(out: &mut Out, rng: &mut Rng, thorough: bool) {
	// 1. Exhaustive: `B` followed by every body of up to 4 ops over an 8-op
	//    alphabet (and every body of up to 2 ops without the leading `B`), with
	//    every terminal (none / IntoInput 1 / IntoInput 4 / IntoCow), over data
	//    sizes {0,1,2,3,5}, 6 schedules, and every fault offset under two of
	//    the schedules. Quick keeps bodies of <= 2 ops and samples the rest.
	let sizes = [0usize, 1, 2, 3, 5];
	let scheds = small_scheds();
	let keep = if thorough { 1 } else { 6 };
	for len in 0..=4usize {
		for &size in &sizes {
			let data = data_of(size);
			for (si, sched) in scheds.iter().enumerate() {
				let mut fails: Vec<Option<usize>> = vec![None];
				if si == 0 || si == 4 {
					fails.extend((0..=size).map(Some));
				}
				for fail_at in fails {
					let mut r = rng.fork();
					let mut with_b: Vec<HandleOp> = vec![];
					for_each_program(len, &mut |ops| {
						if keep == 1 || len <= 2 || r.below(keep) == 0 {
							with_b.clear();
							with_b.push(HandleOp::Borrow);
							with_b.extend_from_slice(ops);
							handle_case(out, &data, sched, fail_at, &with_b);
							if len <= 2 {
								handle_case(out, &data, sched, fail_at, ops);
							}
						}
					});
				}
			}
		}
	}
	out.count(if thorough { "handle.exhaustive_B_plus_len_le_4_x_5_sizes_x_6_schedules_x_faults" } else { "handle.sampled_1_in_6_of_exhaustive_set" });
	// 2. Thorough: length 5 over one configuration per data size.
	if thorough {
		for &size in &[2usize, 3] {
			let data = data_of(size);
			let sched = Sched { caps: vec![1, 2], cycle: true };
			let mut with_b: Vec<HandleOp> = vec![];
			for_each_program(5, &mut |ops| {
				with_b.clear();
				with_b.push(HandleOp::Borrow);
				with_b.extend_from_slice(ops);
				handle_case(out, &data, &sched, None, &with_b)
			});
		}
		out.count("handle.exhaustive_B_plus_len_5_x_2_sizes");
	}
	// 3. Random longer programs over larger data. `read_to_end` inside
	//    `prefix` / `Cow` picks its own buffer sizes, so programs with such
	//    steps over more than 8 bytes use an uncapped or constant-cap source
	//    (see Model/Input.lean); the others use arbitrary schedules.
	let n_random = if thorough { 150000 } else { 20000 };
	for _ in 0..n_random {
		let size = match rng.below(4) {
			0 => rng.below(9) as usize,
			1 => rng.range(9, 40) as usize,
			2 => rng.range(30, 70) as usize,
			_ => rng.range(1, 200) as usize,
		};
		let data: Vec<u8> = (0..size).map(|_| rng.below(256) as u8).collect();
		let max = (size as u64 + 8).max(4);
		let len = rng.range(1, 14) as usize;
		let mut ops: Vec<HandleOp> = vec![HandleOp::Borrow];
		let reads_only = rng.chance(1, 3);
		for _ in 0..len {
			let op = random_op(rng, max);
			if reads_only && matches!(op, HandleOp::Prefix(_)) {
				continue;
			}
			ops.push(op);
		}
		match rng.below(if reads_only { 3 } else { 4 }) {
			0 => {}
			1 => ops.push(HandleOp::IntoInput(rng.range(0, 5) as usize)),
			2 => ops.push(HandleOp::IntoInput(rng.range(1, max) as usize)),
			_ => ops.push(HandleOp::IntoCow),
		}
		let sched = if reads_only || size <= 8 {
			let n = rng.below(6) as usize;
			Sched { caps: (0..n).map(|_| rng.range(1, max) as usize).collect(), cycle: rng.chance(1, 2) }
		} else if rng.chance(1, 3) {
			Sched { caps: vec![], cycle: false }
		} else {
			Sched { caps: vec![rng.range(1, max) as usize], cycle: true }
		};
		let fail_at = if rng.chance(1, 3) { Some(rng.below(size as u64 + 2) as usize) } else { None };
		handle_case(out, &data, &sched, fail_at, &ops);
		out.count(if fail_at.is_some() { "handle.random.with_fault" } else { "handle.random.no_fault" });
	}
}

// --------------------------------------------------------------------------- corpus

pub struct Item {
	pub label: &'static str,
	pub bytes: Vec<u8>,
}

fn push(v: &mut Vec<Item>, label: &'static str, bytes: Vec<u8>) {
	v.push(Item { label, bytes });
}

const HAND: &[(&str, &[u8])] = &[
	("hand.empty", b""),
	("hand.ws", b" \n"),
	("hand.json_obj", b"{}"),
	("hand.json_arr", b"[]"),
	("hand.json_yaml", b"[1, 2]"),
	("hand.json_yaml", b"{\"a\": 1}"),
	("hand.json_yaml", b"{\"a\": [1, {\"b\": null}]}\n"),
	("hand.json_multi", b"[1]\n[2]\n"),
	("hand.json_multi", b"{\"a\":1} {\"b\":2}"),
	("hand.scalar", b"1"),
	("hand.scalar", b"true"),
	("hand.scalar", b"\"x\""),
	("hand.scalar", b"null"),
	("hand.k1", b"truefalse"),
	("hand.k1", b"1 2"),
	("hand.k1", b"[1]true"),
	("hand.k1", b"{\"a\":1}2x"),
	("hand.k2", b"# only a comment\n"),
	("hand.k2", b"---\n"),
	("hand.k3", b"{\"a\":1,\"a\":2}"),
	("hand.toml", b"a = 1\n"),
	("hand.toml", b"[a]\nb = 1\n"),
	("hand.toml", b"[[a]]\nb = 1\n"),
	("hand.toml_yaml", b"[a]"),
	("hand.toml_yaml", b"[a]\n"),
	("hand.toml", b"\"a\" = 1\n"),
	("hand.toml", b"# c\na = \"x\"\n"),
	("hand.yaml", b"a: 1\n"),
	("hand.yaml", b"- a\n- b\n"),
	("hand.yaml", b"a: 1\n---\nb: 2\n"),
	("hand.yaml", b"a: 1\n---\n- x\n...\n---\nc\n"),
	("hand.yaml", b"a: [1, 2\n"),
	("hand.yaml", b"a: 1\n---\nb: [\n"),
	("hand.yaml", b"a: 1\n---\n\tb: 2\n"),
	("hand.yaml_scalar", b"just text\n"),
	("hand.msgpack", &[0x92, 0x01, 0x02]),
	("hand.msgpack", &[0x81, 0xa1, 0x61, 0x01]),
	("hand.msgpack", &[0x90]),
	("hand.msgpack", &[0x80]),
	("hand.msgpack", &[0x92, 0x01, 0x02, 0x91, 0xc0]),
	("hand.msgpack", &[0xdc, 0x00, 0x01, 0x00]),
	("hand.msgpack", &[0xdd, 0x00, 0x00, 0x00, 0x01, 0xc3]),
	("hand.msgpack", &[0xde, 0x00, 0x01, 0xa1, 0x6b, 0x07]),
	("hand.msgpack", &[0xdf, 0x00, 0x00, 0x00, 0x01, 0xa1, 0x6b, 0x07]),
	("hand.msgpack_trunc", &[0x92, 0x01]),
	("hand.msgpack_trunc", &[0x92]),
	("hand.msgpack_trunc", &[0x81, 0xa1]),
	("hand.msgpack_trunc", &[0xdc]),
	("hand.msgpack_trunc", &[0xdc, 0x00]),
	("hand.msgpack_trunc", &[0xdd, 0x00, 0x00]),
	("hand.msgpack_trunc", &[0xde, 0x00, 0x01, 0xa1]),
	("hand.msgpack_trunc", &[0xdf, 0x00, 0x00, 0x00, 0x02, 0x01, 0x02]),
	("hand.msgpack_bad", &[0x91, 0xc1]),
	("hand.msgpack_bad", &[0x92, 0x01, 0x02, 0xc1]),
	("hand.msgpack_scalar", &[0x01]),
	("hand.msgpack_scalar", &[0xc0]),
	("hand.u0700", &[0xdc, 0x90, 0x3a, 0x20, 0x31, 0x0a]),
	("hand.utf16", &[0x61, 0x00, 0x3a, 0x00, 0x20, 0x00, 0x31, 0x00, 0x0a, 0x00]),
	("hand.utf16_trunc", &[0x61, 0x00, 0x3a, 0x00, 0x20, 0x00, 0x31]),
	("hand.utf16be_bom", &[0xfe, 0xff, 0x00, 0x61, 0x00, 0x3a, 0x00, 0x20, 0x00, 0x31]),
	("hand.utf32", &[0x61, 0, 0, 0, 0x3a, 0, 0, 0, 0x20, 0, 0, 0, 0x31, 0, 0, 0]),
	("hand.json_then_bad_utf8", b"[1]\xff"),
	("hand.json_then_bad_utf8", b"{\"a\":1}\n\xc3"),
	("hand.bad_utf8", b"a: \xff\n"),
	// JSON behind a long run of whitespace (longer than any fixed peek)
	("hand.json_ws40_object", b"                                        {\"a\": 1}\n"),
	("hand.json_ws40_two", b"\n\n\n\n\n\n\n\n\n\n\n\n\n\n\n\n\n\n\n\n\n\n\n\n\n\n\n\n\n\n\n\n\n\n\n\n\n\n\n\n[1]\n[2]\n"),
	("hand.json_ws33_scalars", b"\t\t\t\t\t\t\t\t\t\t\t\t\t\t\t\t\t\t\t\t\t\t\t\t\t\t\t\t\t\t\t\t\t17 18"),
	("hand.json_ws31_object", b"                               {\"a\": 1}"),
	("hand.json_ws32_object", b"                                {\"a\": 1}"),
	("hand.json_ws70_array", b"                                                                      [true, null]"),
	// YAML in UTF-16 / UTF-32 with a byte order mark, and without one but not ASCII
	("hand.utf16le_bom", b"\xff\xfea\x00:\x00 \x001\x00\n\x00"),
	("hand.utf16be_bom_seq", b"\xfe\xff\x00-\x00 \x00\xe9\x00\n"),
	("hand.utf16le_nonascii", b"k\x00:\x00 \x00\xe9\x00\xac\x20\n\x00"),
	("hand.utf32le_bom", b"\xff\xfe\x00\x00a\x00\x00\x00:\x00\x00\x00 \x00\x00\x001\x00\x00\x00\n\x00\x00\x00"),
	("hand.utf32be_nonascii", b"\x00\x00\x00-\x00\x00\x00 \x00\x00\x20\xac\x00\x00\x00\n"),
	// YAML line breaks other than LF, with an indented implicit first document
	("hand.yaml_cr_indented", b"# c\r  a: 1\r  b: 2\r"),
	("hand.yaml_cr_indented", b"# c\r  - a\r  - b\r"),
	("hand.yaml_nel_indented", b"# c\xc2\x85  a: 1\xc2\x85  b: 2\xc2\x85"),
	("hand.yaml_ls_indented", b"# c\xe2\x80\xa8  a: 1\xe2\x80\xa8  b: 2\xe2\x80\xa8"),
	("hand.yaml_crlf_indented", b"# c\r\n  a: 1\r\n  b: 2\r\n"),
	("hand.yaml_lf_indented", b"# c\n  a: 1\n  b: 2\n"),
	// TOML that is also the start of something else
	("hand.toml_table_header", b"[package]\n"),
	("hand.toml_table_header", b"[[bin]]\n"),
	("hand.toml_table_header", b"# c\n[profile.release]\n"),
];

/// The corpus of C09: valid single- and multi-document inputs of all four
/// formats, mutated / truncated / spliced variants, random bytes with
/// emphasis on MessagePack collection markers as first byte, truncated
/// MessagePack collections, YAML text starting with U+0700–U+07FF, inputs
/// that several formats accept, and the known slice/reader divergences.
pub fn corpus(rng: &mut Rng, thorough: bool) -> Vec<Item> {
	let mut v: Vec<Item> = vec![];
	for (label, bytes) in HAND {
		push(&mut v, label, bytes.to_vec());
	}
	let scale = if thorough { 8 } else { 2 };
	// Valid documents and streams of every format.
	let mut valid: Vec<(Fmt, Vec<u8>)> = vec![];
	for f in crate::xtapi::ALL_FMTS {
		let mut o = GenOpts::cdm().for_formats(&[f]);
		for i in 0..40 * scale {
			o.root_collection = i % 4 != 0;
			let doc = gen_doc(rng, &o);
			let sp = if i % 2 == 0 { Spelling::plain() } else { Spelling::random(rng) };
			let Some(bytes) = spell(f, &doc, &sp) else { continue };
			if f != Fmt::Toml && rng.chance(1, 3) {
				let mut docs = vec![bytes];
				for _ in 0..rng.range(1, 2) {
					if let Some(b) = spell(f, &gen_doc(rng, &o), &Spelling::random(rng)) {
						docs.push(b);
					}
				}
				let stream = join_stream(f, &docs, rng);
				push(&mut v, "gen.valid_stream", stream.clone());
				valid.push((f, stream));
			} else {
				push(&mut v, "gen.valid_single", bytes.clone());
				valid.push((f, bytes));
			}
		}
	}
	// Mutated, truncated and spliced variants.
	for i in 0..valid.len() {
		let (f, bytes) = valid[i].clone();
		if rng.chance(1, 2) {
			push(&mut v, "gen.mutated", mutate(&bytes, rng));
		}
		if !bytes.is_empty() && (f == Fmt::Msgpack || rng.chance(1, 3)) {
			let cut = rng.below(bytes.len() as u64) as usize;
			push(&mut v, if f == Fmt::Msgpack { "gen.msgpack_truncated" } else { "gen.truncated" }, bytes[..cut].to_vec());
		}
		if rng.chance(1, 6) {
			let (_, other) = valid[rng.below(valid.len() as u64) as usize].clone();
			let mut spliced = bytes.clone();
			if rng.chance(1, 2) {
				spliced.push(b'\n');
			}
			spliced.extend_from_slice(&other);
			push(&mut v, "gen.spliced", spliced);
		}
	}
	// Every truncation of a few MessagePack collections.
	for _ in 0..3 * scale {
		let o = GenOpts { root_collection: true, max_depth: 3, ..GenOpts::cdm().for_formats(&[Fmt::Msgpack]) };
		if let Some(bytes) = spell(Fmt::Msgpack, &gen_doc(rng, &o), &Spelling::random(rng)) {
			for cut in 0..bytes.len().min(24) {
				push(&mut v, "gen.msgpack_truncated", bytes[..cut].to_vec());
			}
		}
	}
	// Random bytes; half of them start with a MessagePack collection marker.
	for _ in 0..120 * scale {
		let len = rng.below(24) as usize;
		let mut bytes: Vec<u8> = (0..len).map(|_| rng.below(256) as u8).collect();
		if !bytes.is_empty() && rng.chance(1, 2) {
			bytes[0] = match rng.below(3) {
				0 => rng.range(0x80, 0x8f) as u8,
				1 => rng.range(0x90, 0x9f) as u8,
				_ => rng.range(0xdc, 0xdf) as u8,
			};
			push(&mut v, "gen.random_marker_first", bytes);
		} else {
			push(&mut v, "gen.random_bytes", bytes);
		}
	}
	// A collection marker followed by ASCII / small values (often a complete
	// MessagePack value that is also odd text).
	for _ in 0..60 * scale {
		let n = rng.range(0, 5) as u8;
		let mut bytes = vec![if rng.chance(1, 2) { 0x90 + n } else { 0x80 + n }];
		for _ in 0..rng.range(0, 2 * n as u64 + 1) {
			bytes.push(rng.below(0x80) as u8);
		}
		push(&mut v, "gen.marker_then_fixints", bytes);
	}
	// YAML text whose first character is in U+0700–U+07FF (UTF-8 lead bytes
	// 0xDC–0xDF: the array16 / array32 / map16 / map32 markers).
	for _ in 0..40 * scale {
		let c = char::from_u32(rng.range(0x700, 0x7ff) as u32).unwrap();
		let c2 = char::from_u32(rng.range(0x700, 0x7ff) as u32).unwrap();
		let text = match rng.below(6) {
			0 => format!("{c}: 1\n"),
			1 => format!("{c}{c2}: [{c2}, 2]\n"),
			2 => format!("{c}:\n  - {c2}\n  - x\n"),
			3 => format!("{c}{c2} plain scalar\n"),
			4 => format!("{c}: 1\n---\n{c2}: 2\n"),
			_ => format!("{c} = 1\n"),
		};
		push(&mut v, "gen.yaml_u0700_first", text.into_bytes());
	}
	// LONG text in U+0700–U+07FF (as MessagePack: array / map 16 / 32 markers
	// whose counts never close — thousands of levels), and binary MessagePack
	// nested beyond the depth limit: a trial may decline, never abort detection.
	for (lead, n) in [(0x710u32, 600usize), (0x780, 2100), (0x7ca, 900)] {
		let c = char::from_u32(lead).unwrap();
		let words: String = (0..n).map(|i| format!("- {}{}\n", c, char::from_u32(lead + 1 + (i % 20) as u32).unwrap())).collect();
		push(&mut v, "gen.yaml_u0700_long", words.into_bytes());
		let line: String = std::iter::repeat(c).take(n).collect();
		push(&mut v, "gen.yaml_u0700_long", format!("{c}: {line}\n").into_bytes());
	}
	for n in [1024usize, 1100, 5000] {
		let mut b = vec![0x91u8; n];
		b.push(0x01);
		push(&mut v, "gen.msgpack_overdeep", b.clone());
		b.pop();
		b.extend_from_slice(b": 1\n");
		push(&mut v, "gen.msgpack_overdeep", b);
	}
	for (label, bytes) in [("bom_json", &b"\xef\xbb\xbf{\"a\": -0}\n"[..]), ("bom_json", b"\xef\xbb\xbf[1, 2]"), ("bom_json", b"\xef\xbb\xbf  \n{\"a\": 1}\n{\"b\": 2}\n"), ("bom_yaml", b"\xef\xbb\xbfk: v\n")] {
		push(&mut v, label, bytes.to_vec());
	}
	// A first YAML document followed by a very short (possibly broken) second
	// one: the inputs on which the YAML trial may reach the end of the input
	// before it has returned the first document.
	let alphabet: &[u8] = b" \n*x[]!&:-\"\t{},#";
	for head in [&b"a: 1\n---"[..], &b"- 1\n---"[..], &b"a: 1\n..."[..], &b"{a: 1}\n---"[..]] {
		for len in 0..=3usize {
			let total = alphabet.len().pow(len as u32);
			for idx in 0..total {
				if !thorough && len == 3 && !rng.chance(1, 40) {
					continue;
				}
				if !thorough && len == 2 && !rng.chance(1, 4) {
					continue;
				}
				let mut bytes = head.to_vec();
				let mut k = idx;
				for _ in 0..len {
					bytes.push(alphabet[k % alphabet.len()]);
					k /= alphabet.len();
				}
				push(&mut v, "gen.yaml_short_second_doc", bytes);
			}
		}
	}
	// Text that more than one format accepts.
	for _ in 0..40 * scale {
		let k = ["a", "b", "key", "x1"][rng.below(4) as usize];
		let n = rng.below(100);
		let text = match rng.below(8) {
			0 => format!("{{\"{k}\": {n}}}"),
			1 => format!("[{n}, \"{k}\"]"),
			2 => format!("[{k}]\n"),
			3 => format!("[{k}]\n{k} = {n}\n"),
			4 => format!("{k} = {n}\n"),
			5 => format!("{k}: {n}\n"),
			6 => format!("{{{k}: {n}}}"),
			_ => format!("[{n}]\n[{n}]\n"),
		};
		push(&mut v, "gen.multi_format_text", text.into_bytes());
	}
	v
}

// --------------------------------------------------------------------------- detection

/// libyaml's reader validates everything it has read so far, not only what
/// the parser has reached: a stream that contains ill-formed UTF-8 or a
/// character outside YAML's printable set is rejected as soon as the offending
/// bytes are in libyaml's raw buffer. For such inputs the answer of the YAML
/// trial (and the number of documents written before the error) depends on
/// where the read boundaries fall. This predicate recognises the class.
pub fn yaml_reader_rejects(bytes: &[u8]) -> bool {
	let enc = xt::verif::yaml_encoding_detect(&bytes[..bytes.len().min(xt::verif::YAML_DETECT_LEN)]);
	let text = if enc == 0 {
		match std::str::from_utf8(bytes) {
			Ok(s) => s.to_string(),
			Err(_) => return true,
		}
	} else {
		let (text, illformed) = crate::engines::encoding::oracle_decode(bytes, enc);
		if illformed {
			// The re-encoder reports the ill-formed unit only when the reader
			// gets there; what precedes it still has to be printable.
		}
		text
	};
	text.chars().any(|c| {
		let v = c as u32;
		!(v == 0x09 || v == 0x0a || v == 0x0d || (0x20..=0x7e).contains(&v) || v == 0x85 || (0xa0..=0xd7ff).contains(&v) || (0xe000..=0xfffd).contains(&v) || v >= 0x10000)
	})
}

fn trial_token(r: &Result<std::io::Result<bool>, String>) -> String {
	match r {
		Ok(Ok(true)) => "match".to_string(),
		Ok(Ok(false)) => "nomatch".to_string(),
		Ok(Err(_)) => "ioerr".to_string(),
		Err(p) => format!("panic:{}", p.replace(' ', "_")),
	}
}

pub fn detected_token(r: &Result<std::io::Result<Option<xt::Format>>, String>) -> String {
	match r {
		Ok(Ok(Some(f))) => Fmt::from_xt(*f).name().to_string(),
		Ok(Ok(None)) => "none".to_string(),
		Ok(Err(_)) => "ioerr".to_string(),
		Err(p) => format!("panic:{}", p.replace(' ', "_")),
	}
}

/// A reader that records whether the source reported end of input.
pub struct EofSpy<'a> {
	pub inner: SchedReader,
	pub saw_eof: &'a std::cell::Cell<bool>,
}

impl std::io::Read for EofSpy<'_> {
	fn read(&mut self, buf: &mut [u8]) -> std::io::Result<usize> {
		let n = self.inner.read(buf)?;
		if n == 0 && !buf.is_empty() {
			self.saw_eof.set(true);
		}
		Ok(n)
	}
}

const ORDER: [Fmt; 4] = [Fmt::Msgpack, Fmt::Json, Fmt::Yaml, Fmt::Toml];

/// One `detectlist` case: the four trial answers come from the single-trial
/// hooks on fresh handles (a reader trial runs as a slice trial once an
/// earlier trial has seen the end of the input — `eof_flips_to_slice`), the
/// implementation's answer is `detect_format` on one handle.
pub fn detectlist_case(out: &mut Out, bytes: &[u8], sched: Option<&Sched>, fail_at: Option<usize>, label: &str) {
	if sched.is_some() && yaml_reader_rejects(bytes) {
		// The YAML trial on a fresh reader and the YAML trial inside
		// `detect_format` (after a replayed prefix) see different read
		// boundaries; for this class libyaml's answer depends on them.
		out.count("detect.skipped.reader_mode_yaml_reader_rejects_input");
		return;
	}
	let mut toks = vec![];
	let mut flipped = false;
	let mut flipped_at_decision = false;
	let mut decided = false;
	for f in ORDER {
		let tok = match sched {
			None => trial_token(&catch(|| xt::verif::input_matches_slice(f.xt(), bytes))),
			Some(_) if flipped => trial_token(&catch(|| xt::verif::input_matches_slice(f.xt(), bytes))),
			Some(s) => {
				let cell = std::cell::Cell::new(false);
				let r = catch(|| {
					xt::verif::input_matches_reader(f.xt(), EofSpy { inner: SchedReader::new(bytes, s.caps.clone(), s.cycle, fail_at), saw_eof: &cell })
				});
				if cell.get() {
					flipped = true;
				}
				trial_token(&r)
			}
		};
		if !decided {
			out.count(&format!("detect.trial.{}.{}", f.name(), tok.split(':').next().unwrap_or("")));
			if tok != "nomatch" {
				decided = true;
			}
			flipped_at_decision = flipped;
		}
		toks.push(tok);
	}
	let (answer, became_slice) = match sched {
		None => (detected_token(&catch(|| xt::verif::detect_slice(bytes))), false),
		Some(s) => {
			let r = catch(|| xt::verif::detect_reader_then_drain(SchedReader::new(bytes, s.caps.clone(), s.cycle, fail_at), 7));
			match r {
				Ok((d, slice, _)) => (detected_token(&Ok(d)), slice),
				Err(p) => (format!("panic:{}", p.replace(' ', "_")), false),
			}
		}
	};
	out.count(&format!("detect.answer.{answer}"));
	out.count(&format!("detect.corpus.{label}"));
	let mode = match sched {
		None => "slice".to_string(),
		Some(s) => format!("reader:{}:{}", s.field(), fail_at.map_or("-".to_string(), |k| k.to_string())),
	};
	// The supply mode and bytes travel along as a comment field for replay; the
	// model sees only the four outcomes.
	out.case("detectlist", &format!("{} {mode} {}", toks.join(" "), hex(bytes)), &answer, answer != "none" && answer != "ioerr");
	if sched.is_some() {
		out.eval("flip_iff_trial_saw_eof", &format!("{} {:?}", hex(bytes), sched.map(Sched::field)), became_slice);
		if became_slice != flipped_at_decision {
			out.fail(
				"flip_iff_trial_saw_eof",
				"",
				format!(
					"input {} caps={} fail_at={:?}: the handle {} a slice after detection, but the executed trials {} the end of the input (trial answers {})",
					hex(bytes),
					sched.map_or("-".to_string(), Sched::field),
					fail_at,
					if became_slice { "became" } else { "did not become" },
					if flipped_at_decision { "saw" } else { "did not see" },
					toks.join(" ")
				),
			);
		}
		out.count(if became_slice { "detect.reader.flipped_to_slice" } else { "detect.reader.stayed_reader" });
	}
}

pub fn detect_scheds(rng: &mut Rng, len: usize) -> Vec<Sched> {
	vec![
		Sched { caps: vec![], cycle: false },
		Sched { caps: vec![1], cycle: true },
		Sched { caps: vec![rng.range(2, 9) as usize], cycle: true },
		Sched { caps: (0..rng.range(2, 6)).map(|_| rng.range(1, len as u64 + 3) as usize).collect(), cycle: rng.chance(1, 2) },
	]
}

fn detect_cases(out: &mut Out, rng: &mut Rng, thorough: bool) {
	let items = corpus(rng, thorough);
	for item in &items {
		detectlist_case(out, &item.bytes, None, None, item.label);
		let scheds = detect_scheds(rng, item.bytes.len());
		let picks: Vec<&Sched> = if thorough { scheds.iter().collect() } else { vec![&scheds[0], &scheds[1 + rng.below(3) as usize]] };
		for s in picks {
			detectlist_case(out, &item.bytes, Some(s), None, item.label);
		}
		// A persistent fault somewhere in (or just after) the input.
		if thorough || rng.chance(1, 2) {
			let k = rng.below(item.bytes.len() as u64 + 1) as usize;
			detectlist_case(out, &item.bytes, Some(&scheds[rng.below(4) as usize]), Some(k), "fault");
		}
	}
}

/// A tail that completes the value started by collection marker `b`.
fn marker_tail(b: u8) -> Vec<u8> {
	match b {
		0x80..=0x8f => vec![0u8; 2 * (b & 0x0f) as usize],
		0x90..=0x9f => vec![0u8; (b & 0x0f) as usize],
		0xdc => vec![0, 1, 0],
		0xdd => vec![0, 0, 0, 1, 0],
		0xde => vec![0, 1, 0, 0],
		0xdf => vec![0, 0, 0, 1, 0, 0],
		_ => vec![0u8; 40],
	}
}

fn marker_cases(out: &mut Out) {
	for b in 0..=255u8 {
		let mut bytes = vec![b];
		bytes.extend(marker_tail(b));
		let by_slice = catch(|| xt::verif::input_matches_slice(xt::Format::Msgpack, &bytes));
		let by_reader = catch(|| xt::verif::input_matches_reader(xt::Format::Msgpack, SchedReader::new(&bytes, vec![1], true, None)));
		let is_coll = matches!(
			rmp::Marker::from_u8(b),
			rmp::Marker::FixArray(_) | rmp::Marker::Array16 | rmp::Marker::Array32 | rmp::Marker::FixMap(_) | rmp::Marker::Map16 | rmp::Marker::Map32
		);
		let answer = match (&by_slice, &by_reader) {
			(Ok(Ok(true)), Ok(Ok(true))) => "coll".to_string(),
			(Ok(Ok(false)), Ok(Ok(false))) => "other".to_string(),
			_ => format!("unexpected:{}:{}", trial_token(&by_slice), trial_token(&by_reader)),
		};
		// For a non-collection first byte followed by 40 zero bytes the decoder
		// itself would succeed for almost every marker, so "other" is the
		// first-byte test's answer; cross-check with rmp's own table.
		if (answer == "coll") != is_coll {
			out.fail("mpmarker_vs_rmp", "", format!("first byte {b:#04x}: the MessagePack trial answered {answer}, rmp::Marker says collection={is_coll}"));
		}
		out.case("mpmarker", &b.to_string(), &answer, is_coll);
	}
	out.count("mpmarker.exhaustive_256");
}

pub fn run(out: &mut Out, rng: &mut Rng, thorough: bool) {
	handle_cases(out, &mut rng.fork(), thorough);
	detect_cases(out, &mut rng.fork(), thorough);
	marker_cases(out);
}
