//! Engines `handle`, `detectlist`, `mpmarker`: the rewindable input handle,
//! the decision list of `detect_format` and the MessagePack first-byte test,
//! driven through the verif hooks; produces correspondence cases for the Lean
//! model (lean/XtModel/Model/{Input,Detect}.lean).

use xt::verif::{HandleObs, HandleOp};

use crate::out::Out;
use crate::util::{catch, hex, nats, Rng, SchedReader, READ_FAULT_TEXT};
use crate::xtapi::Fmt;

// --------------------------------------------------------------------------- handle programs

pub fn op_token(op: &HandleOp) -> String {
	match op {
		HandleOp::Borrow => "B".to_string(),
		HandleOp::Read(n) => format!("R{n}"),
		HandleOp::Prefix(n) => format!("P{n}"),
		HandleOp::IntoInput(n) => format!("I{n}"),
		HandleOp::IntoCow => "C".to_string(),
	}
}

pub fn ops_field(ops: &[HandleOp]) -> String {
	if ops.is_empty() {
		return "-".to_string();
	}
	ops.iter().map(op_token).collect::<Vec<_>>().join(",")
}

fn err_token(text: &str) -> String {
	if text == READ_FAULT_TEXT {
		"e".to_string()
	} else {
		format!("e:{}", text.replace(' ', "_"))
	}
}

pub fn obs_token(obs: &HandleObs) -> String {
	match obs {
		HandleObs::RefSlice(b) => format!("rs:{}", hex(b)),
		HandleObs::RefReader => "rr".to_string(),
		HandleObs::Read(b) => format!("r:{}", hex(b)),
		HandleObs::Prefix(b) => format!("p:{}", hex(b)),
		HandleObs::InputSlice(b) => format!("is:{}", hex(b)),
		HandleObs::InputReader(b) => format!("ir:{}", hex(b)),
		HandleObs::Cow(b) => format!("c:{}", hex(b)),
		HandleObs::Err(text) => err_token(text),
		HandleObs::Skipped => "s".to_string(),
	}
}

/// A read schedule: caps, and whether they cycle forever.
#[derive(Clone, Debug)]
pub struct Sched {
	pub caps: Vec<usize>,
	pub cycle: bool,
}

impl Sched {
	pub fn field(&self) -> String {
		if self.caps.is_empty() {
			"-".to_string()
		} else if self.cycle {
			format!("~{}", nats(&self.caps))
		} else {
			nats(&self.caps)
		}
	}
}

pub fn run_program(data: &[u8], sched: &Sched, fail_at: Option<usize>, ops: &[HandleOp]) -> Result<Vec<HandleObs>, String> {
	catch(|| xt::verif::handle_program(SchedReader::new(data, sched.caps.clone(), sched.cycle, fail_at), ops))
}

fn handle_case(out: &mut Out, data: &[u8], sched: &Sched, fail_at: Option<usize>, ops: &[HandleOp]) {
	let fields = format!("{} {} {} {}", hex(data), sched.field(), fail_at.map_or("-".to_string(), |k| k.to_string()), ops_field(ops));
	match run_program(data, sched, fail_at, ops) {
		Ok(obs) => {
			let answer = if obs.is_empty() { "-".to_string() } else { obs.iter().map(obs_token).collect::<Vec<_>>().join(" ") };
			let mut nontrivial = false;
			for o in &obs {
				let key = match o {
					HandleObs::RefSlice(_) => "handle.obs.ref_slice",
					HandleObs::RefReader => "handle.obs.ref_reader",
					HandleObs::Read(b) => {
						if !b.is_empty() {
							nontrivial = true;
						}
						"handle.obs.read"
					}
					HandleObs::Prefix(b) => {
						if !b.is_empty() {
							nontrivial = true;
						}
						"handle.obs.prefix"
					}
					HandleObs::InputSlice(_) => {
						nontrivial = true;
						"handle.obs.input_slice"
					}
					HandleObs::InputReader(_) => {
						nontrivial = true;
						"handle.obs.input_reader"
					}
					HandleObs::Cow(_) => {
						nontrivial = true;
						"handle.obs.cow"
					}
					HandleObs::Err(_) => "handle.obs.err",
					HandleObs::Skipped => "handle.obs.skipped",
				};
				out.count(key);
			}
			out.case("handle", &fields, &answer, nontrivial);
			stmt_transparent(out, data, sched, fail_at, ops, &obs);
		}
		Err(p) => {
			out.case("handle", &fields, &format!("panic:{}", p.replace(' ', "_")), true);
			out.fail("handle_no_panic", "", format!("handle program panicked: data={} caps={} fail_at={:?} ops={}: {p}", hex(data), sched.field(), fail_at, ops_field(ops)));
		}
	}
}

/// Implementation-level statement of the handle claim, on the real
/// observations: every slice / input / cow observation is the whole data, every
/// prefix observation is a prefix of the data, the reads of one borrow
/// concatenate to a prefix of the data (up to a failed read), and every error
/// is the source's. The observation list of `handle_program` is index-aligned
/// with the ops that ran, which identifies the failed step.
fn stmt_transparent(out: &mut Out, data: &[u8], sched: &Sched, fail_at: Option<usize>, ops: &[HandleOp], obs: &[HandleObs]) {
	let mut off: Option<usize> = None;
	let mut bad: Option<String> = None;
	for (i, o) in obs.iter().enumerate() {
		match o {
			HandleObs::RefSlice(b) => {
				off = None;
				if b != data {
					bad = Some("slice reference is not the whole input".to_string());
				}
			}
			HandleObs::RefReader => off = Some(0),
			HandleObs::Read(b) => match off {
				Some(k) => {
					if k + b.len() > data.len() || data[k..k + b.len()] != b[..] {
						bad = Some(format!("read at offset {k} returned {} which is not the input at that offset", hex(b)));
					}
					off = Some(k + b.len());
				}
				None => {
					if !b.is_empty() {
						bad = Some("bytes were read after a failed read in the same borrow".to_string());
					}
				}
			},
			HandleObs::Prefix(b) => {
				if !data.starts_with(b) {
					bad = Some(format!("prefix {} is not a prefix of the input", hex(b)));
				}
			}
			HandleObs::InputSlice(b) | HandleObs::InputReader(b) | HandleObs::Cow(b) => {
				if b != data {
					bad = Some(format!("owned input {} is not the whole input", hex(b)));
				}
			}
			HandleObs::Err(text) => {
				if fail_at.is_none() || text != READ_FAULT_TEXT {
					bad = Some(format!("error '{text}' that the source did not report"));
				}
				if matches!(ops.get(i), Some(HandleOp::Read(_))) {
					off = None;
				}
			}
			HandleObs::Skipped => {}
		}
	}
	out.eval("handle_transparent", &format!("{} {} {:?} {}", hex(data), sched.field(), fail_at, ops_field(ops)), obs.len() > 1);
	if let Some(what) = bad {
		out.fail(
			"handle_transparent",
			"",
			format!("data={} caps={} fail_at={:?} ops={}: {what}; observations: {}", hex(data), sched.field(), fail_at, ops_field(ops), obs.iter().map(obs_token).collect::<Vec<_>>().join(" ")),
		);
	}
}

fn data_of(len: usize) -> Vec<u8> {
	(0..len).map(|i| 0xA1 + i as u8).collect()
}

const BODY_OPS: [HandleOp; 8] = [
	HandleOp::Borrow,
	HandleOp::Read(0),
	HandleOp::Read(1),
	HandleOp::Read(3),
	HandleOp::Read(7),
	HandleOp::Prefix(1),
	HandleOp::Prefix(4),
	HandleOp::Prefix(7),
];

const TERMINALS: [Option<HandleOp>; 4] = [None, Some(HandleOp::IntoInput(1)), Some(HandleOp::IntoInput(4)), Some(HandleOp::IntoCow)];

fn small_scheds() -> Vec<Sched> {
	vec![
		Sched { caps: vec![], cycle: false },
		Sched { caps: vec![1], cycle: true },
		Sched { caps: vec![2], cycle: true },
		Sched { caps: vec![1, 2], cycle: false },
		Sched { caps: vec![2, 1, 3], cycle: false },
		Sched { caps: vec![3, 1], cycle: true },
	]
}

/// All programs `body ++ terminal` with `body` of exactly `len` ops.
fn for_each_program(len: usize, f: &mut dyn FnMut(&[HandleOp])) {
	let total = BODY_OPS.len().pow(len as u32);
	let mut ops: Vec<HandleOp> = Vec::with_capacity(len + 1);
	for idx in 0..total {
		ops.clear();
		let mut k = idx;
		for _ in 0..len {
			ops.push(BODY_OPS[k % BODY_OPS.len()]);
			k /= BODY_OPS.len();
		}
		for t in TERMINALS.iter() {
			if let Some(t) = t {
				ops.push(*t);
				f(&ops);
				ops.pop();
			} else {
				f(&ops);
			}
		}
	}
}

fn random_op(rng: &mut Rng, max: u64) -> HandleOp {
	match rng.below(10) {
		0..=2 => HandleOp::Borrow,
		3..=6 => HandleOp::Read(match rng.below(5) {
			0 => 0,
			1 => 1,
			_ => rng.range(1, max) as usize,
		}),
		_ => HandleOp::Prefix(match rng.below(5) {
			0 => 0,
			_ => rng.range(1, max) as usize,
		}),
	}
}

fn handle_cases(out: &mut Out, rng: &mut Rng, thorough: bool) {
	// 1. Exhaustive: every program of up to 4 body ops over an 8-op alphabet,
	//    with every terminal (none / IntoInput 1 / IntoInput 4 / IntoCow), over
	//    data sizes {0,1,2,3,5}, 6 schedules, and every fault offset under two
	//    of the schedules. Quick samples this set.
	let sizes = [0usize, 1, 2, 3, 5];
	let scheds = small_scheds();
	let keep = if thorough { 1 } else { 16 };
	for len in 0..=4usize {
		for &size in &sizes {
			let data = data_of(size);
			for (si, sched) in scheds.iter().enumerate() {
				let mut fails: Vec<Option<usize>> = vec![None];
				if si == 0 || si == 4 {
					fails.extend((0..=size).map(Some));
				}
				for fail_at in fails {
					let mut r = rng.fork();
					for_each_program(len, &mut |ops| {
						if keep == 1 || len <= 2 || r.below(keep) == 0 {
							handle_case(out, &data, sched, fail_at, ops);
						}
					});
				}
			}
		}
	}
	out.count(if thorough { "handle.exhaustive_len_le_4_x_5_sizes_x_6_schedules_x_faults" } else { "handle.sampled_1_in_16_of_exhaustive_set" });
	// 2. Thorough: length 5 over one configuration per data size.
	if thorough {
		for &size in &[2usize, 3] {
			let data = data_of(size);
			let sched = Sched { caps: vec![1, 2], cycle: true };
			for_each_program(5, &mut |ops| handle_case(out, &data, &sched, None, ops));
		}
		out.count("handle.exhaustive_len_5_x_2_sizes");
	}
	// 3. Random longer programs over larger data. `read_to_end` inside
	//    `prefix` / `Cow` picks its own buffer sizes, so programs with such
	//    steps over more than 8 bytes use an uncapped or constant-cap source
	//    (see Model/Input.lean); the others use arbitrary schedules.
	let n_random = if thorough { 60000 } else { 6000 };
	for _ in 0..n_random {
		let size = match rng.below(4) {
			0 => rng.below(9) as usize,
			1 => rng.range(9, 40) as usize,
			2 => rng.range(30, 70) as usize,
			_ => rng.range(1, 200) as usize,
		};
		let data: Vec<u8> = (0..size).map(|_| rng.below(256) as u8).collect();
		let max = (size as u64 + 8).max(4);
		let len = rng.range(1, 14) as usize;
		let mut ops: Vec<HandleOp> = vec![HandleOp::Borrow];
		let reads_only = rng.chance(1, 3);
		for _ in 0..len {
			let op = random_op(rng, max);
			if reads_only && matches!(op, HandleOp::Prefix(_)) {
				continue;
			}
			ops.push(op);
		}
		match rng.below(if reads_only { 3 } else { 4 }) {
			0 => {}
			1 => ops.push(HandleOp::IntoInput(rng.range(0, 5) as usize)),
			2 => ops.push(HandleOp::IntoInput(rng.range(1, max) as usize)),
			_ => ops.push(HandleOp::IntoCow),
		}
		let sched = if reads_only || size <= 8 {
			let n = rng.below(6) as usize;
			Sched { caps: (0..n).map(|_| rng.range(1, max) as usize).collect(), cycle: rng.chance(1, 2) }
		} else if rng.chance(1, 3) {
			Sched { caps: vec![], cycle: false }
		} else {
			Sched { caps: vec![rng.range(1, max) as usize], cycle: true }
		};
		let fail_at = if rng.chance(1, 3) { Some(rng.below(size as u64 + 2) as usize) } else { None };
		handle_case(out, &data, &sched, fail_at, &ops);
		out.count(if fail_at.is_some() { "handle.random.with_fault" } else { "handle.random.no_fault" });
	}
}

pub fn run(out: &mut Out, rng: &mut Rng, thorough: bool) {
	handle_cases(out, &mut rng.fork(), thorough);
	let _ = Fmt::Json;
}
