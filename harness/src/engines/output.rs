//! Engine `output`: `Translator` and the four `Output` implementations through
//! xt's public API.
//!
//! `frame`: generated sequences of translate calls (mixed source formats,
//! slice / reader, 0…hundreds of documents, every separation the source format
//! allows, documents straddling 8 KiB / 16 KiB, failing documents and source
//! tails) — the model's framing and concatenation, with the per-document
//! bodies taken from single-document runs, against the real bytes.
//! `tomlout`: generated call sequences against the TOML output — the model's
//! per-call verdicts and "what was written" against the real results.

use std::cell::RefCell;
use std::io::{self, Write};
use std::rc::Rc;

use crate::gen::{gen_doc, read_docs, spell, spell_checked, GenOpts, Spelling, Val};
use crate::out::Out;
use crate::util::{catch, hex, Rng, SchedReader};
use crate::xtapi::{detect, random_supply, translate, Fmt, Supply, STREAM_FMTS};

// --------------------------------------------------------------------------- sessions

#[derive(Default)]
struct RecState {
	bytes: Vec<u8>,
	writes: usize,
}

/// A writer that records every `write` call.
struct Rec(Rc<RefCell<RecState>>);

impl Write for Rec {
	fn write(&mut self, buf: &[u8]) -> io::Result<usize> {
		let mut st = self.0.borrow_mut();
		if !buf.is_empty() {
			st.writes += 1;
		}
		st.bytes.extend_from_slice(buf);
		Ok(buf.len())
	}
	fn flush(&mut self) -> io::Result<()> {
		Ok(())
	}
}

pub struct Session {
	pub results: Vec<Result<(), String>>,
	/// Output length after each call.
	pub lens: Vec<usize>,
	/// Number of non-empty `write` calls the writer had received after each call.
	pub writes: Vec<usize>,
	pub output: Vec<u8>,
}

/// One `Translator`, one call per input, whatever the results.
pub fn run_calls(calls: &[(Vec<u8>, Supply, Option<Fmt>)], to: Fmt) -> Session {
	let st = Rc::new(RefCell::new(RecState::default()));
	let mut results = vec![];
	let mut lens = vec![];
	let mut writes = vec![];
	{
		let mut t = xt::Translator::new(Rec(st.clone()), to.xt());
		for (input, supply, from) in calls {
			let r = catch(|| match supply {
				Supply::Slice => t.translate_slice(input, from.map(Fmt::xt)),
				Supply::Reader(sched) => t.translate_reader(SchedReader::new(input, sched.clone(), true, None), from.map(Fmt::xt)),
			});
			results.push(match r {
				Ok(Ok(())) => Ok(()),
				Ok(Err(e)) => Err(e.to_string()),
				Err(p) => Err(format!("PANIC: {p}")),
			});
			let _ = t.flush();
			lens.push(st.borrow().bytes.len());
			writes.push(st.borrow().writes);
		}
	}
	let output = st.borrow().bytes.clone();
	Session { results, lens, writes, output }
}

// --------------------------------------------------------------------------- scenarios

#[derive(Clone)]
pub struct CallSpec {
	pub from: Fmt,
	pub supply: Supply,
	/// `Some(from)` or `None` for detection.
	pub from_arg: Option<Fmt>,
	/// Each document's value and its own text.
	pub docs: Vec<(Val, Vec<u8>)>,
	/// A malformed tail after the documents (with its separator).
	pub tail: Option<Vec<u8>>,
	pub input: Vec<u8>,
}

impl CallSpec {
	pub fn describe(&self) -> String {
		format!(
			"{}{}[{} docs{}]{}",
			self.from.name(),
			if self.from_arg.is_none() { "(detected)" } else { "" },
			self.docs.len(),
			if self.tail.is_some() { "+tail" } else { "" },
			self.supply.describe()
		)
	}
}

fn json_sep_ok_without(prev: &[u8], next: &[u8]) -> bool {
	matches!(prev.last(), Some(b']' | b'}' | b'"')) || matches!(next.first(), Some(b'"' | b'[' | b'{'))
}

/// Joins documents of one source format with separators the format allows.
pub fn join_docs(from: Fmt, docs: &[Vec<u8>], rng: &mut Rng, sep_style: u64) -> Vec<u8> {
	let mut out = vec![];
	match from {
		Fmt::Json => {
			if rng.chance(1, 6) {
				out.extend_from_slice(*rng.pick::<&[u8]>(&[b" ", b"\n", b"\n\n  "]));
			}
			for (i, d) in docs.iter().enumerate() {
				if i > 0 {
					let seps: [&[u8]; 7] = [b"", b"\n", b" ", b"\n\n", b"\t", b"\r\n", b" \n "];
					let mut sep = match sep_style {
						0 => seps[0],
						1 => seps[1],
						2 => seps[3],
						_ => *rng.pick(&seps),
					};
					if sep.is_empty() && !json_sep_ok_without(&docs[i - 1], d) {
						sep = b"\n";
					}
					out.extend_from_slice(sep);
				}
				out.extend_from_slice(d);
			}
			if rng.chance(1, 2) {
				out.extend_from_slice(*rng.pick::<&[u8]>(&[b"\n", b" ", b"\n\n"]));
			}
		}
		Fmt::Yaml => {
			for (i, d) in docs.iter().enumerate() {
				if i == 0 {
					out.extend_from_slice(*rng.pick::<&[u8]>(&[b"", b"", b"---\n", b"--- # c\n", b"%YAML 1.2\n---\n", b"# leading\n"]));
				} else {
					let seps: [&[u8]; 6] = [b"---\n", b"--- # c\n", b"...\n---\n", b"...\n# between\n---\n", b"# c\n---\n", b"...\n%YAML 1.2\n---\n"];
					out.extend_from_slice(match sep_style {
						0 => seps[0],
						1 => seps[2],
						2 => seps[3],
						_ => *rng.pick(&seps),
					});
				}
				out.extend_from_slice(d);
			}
			if !docs.is_empty() && rng.chance(1, 4) {
				out.extend_from_slice(*rng.pick::<&[u8]>(&[b"...\n", b"# end\n", b"...\n# end\n"]));
			}
		}
		_ => {
			for d in docs {
				out.extend_from_slice(d);
			}
		}
	}
	out
}

/// A document of exactly `len` bytes in format `from` (`len >= 12`).
fn pad_doc(from: Fmt, len: usize) -> (Val, Vec<u8>) {
	match from {
		Fmt::Json => {
			let s = "p".repeat(len - 2);
			(Val::Str(s.clone()), format!("\"{s}\"").into_bytes())
		}
		Fmt::Yaml => {
			let s = "p".repeat(len - 1);
			(Val::Str(s.clone()), format!("{s}\n").into_bytes())
		}
		_ => {
			// str16: d9/da header; use da (3 bytes) for any length < 65536.
			let n = len - 3;
			let mut b = vec![0xda, (n >> 8) as u8, (n & 0xff) as u8];
			b.extend(std::iter::repeat(b'p').take(n));
			(Val::Str("p".repeat(n)), b)
		}
	}
}

fn source_opts(from: Fmt, to: Fmt) -> GenOpts {
	let mut o = GenOpts::cdm().for_formats(&[from, to]);
	if from == Fmt::Toml {
		o.root_map = true;
	}
	o
}

fn gen_docs_for(rng: &mut Rng, from: Fmt, to: Fmt, n: usize, shape: u64, out: &mut Out) -> Vec<(Val, Vec<u8>)> {
	let mut docs = vec![];
	let mut opts = source_opts(from, to);
	match shape {
		0 => {
			// scalars only (root scalars are where splitting is most fragile)
			opts.max_depth = 0;
		}
		1 => {
			opts.max_width = 40;
			opts.max_depth = 2;
		}
		_ => {}
	}
	let mut attempts = 0;
	while docs.len() < n && attempts < n * 4 + 8 {
		attempts += 1;
		let v = if shape == 2 && rng.chance(1, 3) {
			// empty collections
			if rng.chance(1, 2) && from != Fmt::Toml { Val::Seq(vec![]) } else { Val::Map(vec![]) }
		} else {
			gen_doc(rng, &opts)
		};
		if !v.representable(from) || !v.representable(to) {
			out.count("frame.gen.not_in_common_model");
			continue;
		}
		let sp = if rng.chance(1, 2) { Spelling::plain() } else { Spelling::random(rng) };
		match spell_checked(from, &v, &sp) {
			Some(bytes) => docs.push((v, bytes)),
			None => out.count("frame.gen.dropped_by_selfcheck"),
		}
	}
	docs
}

const JSON_TAILS: &[&[u8]] = &[b"@", b"{\"a\":", b"[1,", b"tru", b"]"];
const MSGPACK_TAILS: &[&[u8]] = &[&[0xc1], &[0x92, 0x01], &[0xd9, 0x05, b'a'], &[0x81, 0xa1, b'k']];
const YAML_TAILS: &[&[u8]] = &[b"---\n[1, 2\n", b"---\na: b: c\n", b"---\n{x: 1\n", b"---\n- \"open\n"];

pub fn gen_call(rng: &mut Rng, to: Fmt, n: usize, out: &mut Out) -> CallSpec {
	let mut from = *rng.pick(&[Fmt::Json, Fmt::Json, Fmt::Yaml, Fmt::Yaml, Fmt::Msgpack, Fmt::Msgpack, Fmt::Toml]);
	if from == Fmt::Toml && n != 1 {
		from = *rng.pick(&STREAM_FMTS);
	}
	let mut supply = if rng.chance(1, 4) { Supply::Slice } else { random_supply(rng) };
	if n == 0 && from == Fmt::Yaml {
		// K2 (zero-document YAML slice is an error): a recorded C02 finding.
		supply = Supply::Reader(vec![]);
		out.count("frame.gen.zero_doc_yaml_forced_to_reader(K2)");
	}
	let shape = rng.below(5);
	let mut docs = gen_docs_for(rng, from, to, n, shape, out);
	// Sometimes make a document boundary land on / next to 8 KiB or 16 KiB.
	let mut fixed_join = false;
	if docs.len() >= 2 && from != Fmt::Toml && rng.chance(1, 5) {
		let boundary = *rng.pick(&[8192usize, 16384]);
		let delta = rng.range(0, 4) as i64 - 2;
		let at = rng.range(1, docs.len() as u64 - 1) as usize;
		let before: usize = join_docs(from, &docs[..at].iter().map(|d| d.1.clone()).collect::<Vec<_>>(), &mut Rng(1), 1).len();
		let sep_len = match from {
			Fmt::Json => 1,
			Fmt::Yaml => 8,
			_ => 0,
		};
		let want = (boundary as i64 + delta) as usize;
		if want > before + sep_len + 20 && docs[..at].iter().all(|d| d.1.len() < 4000) {
			let pad = pad_doc(from, want - before - sep_len);
			docs.insert(at, pad);
			fixed_join = true;
			out.count("frame.gen.boundary_straddling");
		}
	}
	let sep_style = if fixed_join { 1 } else { rng.below(5) };
	let texts: Vec<Vec<u8>> = docs.iter().map(|d| d.1.clone()).collect();
	let mut input = if fixed_join { join_docs(from, &texts, &mut Rng(1), 1) } else { join_docs(from, &texts, rng, sep_style) };
	// Generator self-check with the source crate's own reader.
	if from != Fmt::Toml && !docs.is_empty() {
		match read_docs(from, &input) {
			Ok(vs) if vs.len() == docs.len() && vs.iter().zip(&docs).all(|(a, b)| a == &b.0) => {}
			_ => {
				// Fall back to the plainest separation.
				input = join_docs(from, &texts, &mut Rng(7), 1);
				out.count("frame.gen.stream_selfcheck_fallback");
				match read_docs(from, &input) {
					Ok(vs) if vs.len() == docs.len() && vs.iter().zip(&docs).all(|(a, b)| a == &b.0) => {}
					_ => {
						docs.clear();
						input.clear();
						if from == Fmt::Yaml {
							supply = Supply::Reader(vec![]);
						}
						out.count("frame.gen.stream_dropped");
					}
				}
			}
		}
	}
	let from_arg = if !docs.is_empty() && rng.chance(1, 4) && matches!(detect(&input, &supply), Ok(Some(f)) if f == from) {
		None
	} else {
		Some(from)
	};
	CallSpec { from, supply, from_arg, docs, tail: None, input }
}

pub fn add_tail(rng: &mut Rng, call: &mut CallSpec) {
	let tail: Vec<u8> = match call.from {
		Fmt::Json => {
			let mut t = b"\n".to_vec();
			t.extend_from_slice(*rng.pick(JSON_TAILS));
			t
		}
		Fmt::Msgpack => rng.pick(MSGPACK_TAILS).to_vec(),
		Fmt::Yaml => {
			if call.docs.is_empty() {
				return;
			}
			rng.pick(YAML_TAILS).to_vec()
		}
		Fmt::Toml => return,
	};
	// Rebuild the input without trailing decoration, then append the tail.
	let texts: Vec<Vec<u8>> = call.docs.iter().map(|d| d.1.clone()).collect();
	let mut input = match call.from {
		Fmt::Json => {
			let mut v = vec![];
			for (i, t) in texts.iter().enumerate() {
				if i > 0 {
					v.push(b'\n');
				}
				v.extend_from_slice(t);
			}
			v
		}
		Fmt::Yaml => {
			let mut v = vec![];
			for t in &texts {
				v.extend_from_slice(b"---\n");
				v.extend_from_slice(t);
			}
			v
		}
		_ => texts.concat(),
	};
	input.extend_from_slice(&tail);
	call.input = input;
	call.tail = Some(tail);
	call.from_arg = Some(call.from);
}

// --------------------------------------------------------------------------- frame correspondence

/// A single-document run, reduced to the model's item: the body (framing
/// removed) and whether it failed; `None` for "nothing was offered to the
/// output" (a source-side failure).
fn item_of_single(to: Fmt, bytes: &[u8], supply: &Supply, from: Fmt) -> Result<String, String> {
	let got = translate(bytes, supply, Some(from), to);
	match (to, got.ok()) {
		(Fmt::Json, true) => match got.output.split_last() {
			Some((b'\n', body)) => Ok(hex(body)),
			_ => Err(format!("single JSON output does not end in a newline: {}", hex(&got.output))),
		},
		(Fmt::Json, false) | (Fmt::Msgpack, false) => Ok(format!("{}!", hex(&got.output))),
		(Fmt::Msgpack, true) => Ok(hex(&got.output)),
		(Fmt::Yaml, ok) => {
			if let Some(body) = got.output.strip_prefix(b"---\n") {
				Ok(format!("{}{}", hex(body), if ok { "" } else { "!" }))
			} else if got.output.is_empty() && !ok {
				Ok("F".to_string())
			} else {
				Err(format!("single YAML output does not start with the marker: {}", hex(&got.output)))
			}
		}
		(Fmt::Toml, _) => Err("not a streaming target".to_string()),
	}
}

/// The `frame` script of a scenario, built from single-document runs.
pub fn frame_script(to: Fmt, calls: &[CallSpec]) -> Result<String, String> {
	let mut parts = vec![];
	for c in calls {
		let mut items = vec![];
		for (_, text) in &c.docs {
			items.push(item_of_single(to, text, &c.supply, c.from)?);
		}
		if let Some(tail) = &c.tail {
			items.push(item_of_single(to, tail, &c.supply, c.from)?);
		}
		// `F` is only meaningful as the last item; a failing item ends the call anyway.
		if let Some(p) = items.iter().position(|i| i == "F") {
			items.truncate(p + 1);
		}
		parts.push(if items.is_empty() { "-".to_string() } else { items.join(",") });
	}
	Ok(parts.join("/"))
}

fn verdict_tok(r: &Result<(), String>) -> &'static str {
	match r {
		Ok(()) => "ok",
		Err(e) if e.contains("TOML does not support multi-document output") => "multi",
		Err(e) if e.contains("root of TOML output must be a table") => "nontable",
		Err(_) => "other",
	}
}

pub fn session_inputs(calls: &[CallSpec]) -> Vec<(Vec<u8>, Supply, Option<Fmt>)> {
	calls.iter().map(|c| (c.input.clone(), c.supply.clone(), c.from_arg)).collect()
}

pub fn frame_case(out: &mut Out, to: Fmt, calls: &[CallSpec]) -> Option<Session> {
	let script = match frame_script(to, calls) {
		Ok(s) => s,
		Err(e) => {
			out.fail("frame_single_run_shape", "", format!("to={} calls={}: {e}", to.name(), calls.iter().map(CallSpec::describe).collect::<Vec<_>>().join(" ")));
			return None;
		}
	};
	let s = run_calls(&session_inputs(calls), to);
	let mut toks = vec![hex(&s.output)];
	toks.extend(s.results.iter().map(|r| verdict_tok(r).to_string()));
	let ndocs: usize = calls.iter().map(|c| c.docs.len()).sum();
	out.case("frame", &format!("{} {}", to.name(), script), &toks.join(" "), ndocs > 0);
	Some(s)
}

// --------------------------------------------------------------------------- tomlout correspondence

#[derive(Clone, Copy, Debug, PartialEq, Eq)]
pub enum TClass {
	Table,
	NonTable,
	Reject,
	SrcErr,
}

impl TClass {
	pub fn tok(self) -> &'static str {
		match self {
			TClass::Table => "table",
			TClass::NonTable => "nontable",
			TClass::Reject => "reject",
			TClass::SrcErr => "srcerr",
		}
	}
}

#[derive(Clone)]
pub struct TDoc {
	pub class: TClass,
	pub val: Option<Val>,
	pub text: Vec<u8>,
	pub what: String,
	/// Set for the K5 class (a YAML mapping whose non-first key is not a
	/// string: accepted, and written with the key's text): the value as it is
	/// written.
	pub stringified: Option<Val>,
}

#[derive(Clone)]
pub struct TCall {
	pub from: Fmt,
	pub supply: Supply,
	pub docs: Vec<TDoc>,
	pub input: Vec<u8>,
}

/// Replaces the node at a pseudo-random position of `v` (a map-rooted value)
/// by what `plant` makes of it; returns false when there is no position.
fn plant_at(v: &mut Val, rng: &mut Rng, bad: &Val, as_key: bool) -> Option<bool> {
	// Collect paths to all nodes below the root.
	fn walk(v: &Val, path: &mut Vec<usize>, acc: &mut Vec<Vec<usize>>, want_maps: bool) {
		match v {
			Val::Seq(xs) => {
				for (i, x) in xs.iter().enumerate() {
					path.push(i);
					if !want_maps {
						acc.push(path.clone());
					}
					walk(x, path, acc, want_maps);
					path.pop();
				}
			}
			Val::Map(m) => {
				if want_maps && !m.is_empty() {
					acc.push(path.clone());
				}
				for (i, (_, x)) in m.iter().enumerate() {
					path.push(i);
					if !want_maps {
						acc.push(path.clone());
					}
					walk(x, path, acc, want_maps);
					path.pop();
				}
			}
			_ => {}
		}
	}
	let mut paths = vec![];
	walk(v, &mut vec![], &mut paths, as_key);
	if paths.is_empty() {
		return None;
	}
	let path = rng.pick(&paths).clone();
	let mut cur = v;
	let steps = if as_key { &path[..] } else { &path[..path.len() - 1] };
	for &i in steps {
		cur = match cur {
			Val::Seq(xs) => &mut xs[i],
			Val::Map(m) => &mut m[i].1,
			_ => return None,
		};
	}
	if as_key {
		if let Val::Map(m) = cur {
			let i = rng.below(m.len() as u64) as usize;
			m[i].0 = bad.clone();
			return Some(i == 0);
		}
		return None;
	}
	let last = *path.last().unwrap();
	match cur {
		Val::Seq(xs) => xs[last] = bad.clone(),
		Val::Map(m) => m[last].1 = bad.clone(),
		_ => return None,
	}
	Some(false)
}

/// `v` with every integer map key replaced by its decimal text.
fn stringify_int_keys(v: &Val) -> Val {
	match v {
		Val::Seq(xs) => Val::Seq(xs.iter().map(stringify_int_keys).collect()),
		Val::Map(m) => Val::Map(
			m.iter()
				.map(|(k, x)| (if let Val::Int(i) = k { Val::Str(i.to_string()) } else { k.clone() }, stringify_int_keys(x)))
				.collect(),
		),
		v => v.clone(),
	}
}

fn unique_table(rng: &mut Rng, id: &str) -> Val {
	let opts = GenOpts::cdm().for_formats(&[Fmt::Toml, Fmt::Json]);
	let mut v = gen_doc(rng, &opts);
	if let Val::Map(m) = &mut v {
		m.retain(|(k, _)| k != &Val::Str("id".into()));
		m.insert(rng.below(m.len() as u64 + 1) as usize, (Val::Str("id".into()), Val::Str(id.to_string())));
	}
	v
}

/// A document of the wanted class spelled in `from`; `None` when the format
/// cannot express it.
pub fn gen_tdoc(rng: &mut Rng, from: Fmt, supply: &Supply, class: TClass, id: &str) -> Option<TDoc> {
	let sp = Spelling::plain();
	match class {
		TClass::Table => {
			let v = unique_table(rng, id);
			let text = spell_checked(from, &v, &sp)?;
			Some(TDoc { class, val: Some(v), text, what: "table".into(), stringified: None })
		}
		TClass::NonTable => {
			if from == Fmt::Toml {
				return None;
			}
			let (v, what) = match rng.below(7) {
				0 => (Val::Null, "null root"),
				1 => (Val::Bool(true), "boolean root"),
				2 => (Val::Int(i128::from(rng.below(1000))), "integer root"),
				3 => (Val::F64(1.5f64.to_bits()), "float root"),
				4 => (Val::Str(format!("s{id}")), "string root"),
				5 => (Val::Seq(vec![unique_table(rng, id)]), "sequence root"),
				_ => (Val::Bytes(vec![1, 2, 3]), "binary root"),
			};
			let text = spell(from, &v, &sp)?;
			// A null / unsupported root is refused by the builder before the root
			// check; the model's class for it is `reject`.
			let class = if matches!(v, Val::Null | Val::Bytes(_)) { TClass::Reject } else { TClass::NonTable };
			Some(TDoc { class, val: Some(v), text, what: what.into(), stringified: None })
		}
		TClass::Reject => {
			if from == Fmt::Toml {
				return None;
			}
			let mut v = Val::Map(vec![
				(Val::Str("id".into()), Val::Str(id.to_string())),
				(Val::Str("t".into()), unique_table(rng, id)),
				(Val::Str("a".into()), Val::Seq(vec![Val::Int(1), Val::Map(vec![(Val::Str("k".into()), Val::Seq(vec![Val::Int(2)]))])])),
			]);
			let (bad, as_key, what) = match rng.below(4) {
				0 => (Val::Null, false, "null"),
				1 => (Val::Int(i128::from(i64::MAX) + 1 + i128::from(rng.below(1000))), false, "integer > i64::MAX"),
				2 => (Val::Int(7), true, "non-string key"),
				_ => (Val::Bytes(vec![0xde, 0xad]), false, "binary"),
			};
			let first_key = plant_at(&mut v, rng, &bad, as_key)?;
			let text = spell(from, &v, &sp)?;
			if as_key && from == Fmt::Yaml && !first_key {
				// K5: toml::Value reads every key but the first of a map with
				// `next_key::<String>()`, and serde_yaml hands any scalar over
				// as its text when a string is asked for.
				let written = stringify_int_keys(&v);
				return Some(TDoc { class: TClass::Table, val: Some(v), text, what: "non-string key planted after the first key (YAML)".into(), stringified: Some(written) });
			}
			Some(TDoc { class, val: Some(v), text, what: format!("{what} planted{}", if as_key && first_key { " as first key" } else { "" }), stringified: None })
		}
		TClass::SrcErr => {
			let text: Vec<u8> = match from {
				Fmt::Json => rng.pick(&[&b"{\"a\":"[..], b"@", b"[1,"]).to_vec(),
				Fmt::Msgpack => rng.pick(&[&[0xc1u8][..], &[0x92, 0x01], &[0x81, 0xa1, b'k']]).to_vec(),
				Fmt::Yaml => b"*nope\n".to_vec(),
				Fmt::Toml => b"a = \n".to_vec(),
			};
			let _ = supply;
			Some(TDoc { class, val: None, text, what: "malformed".into(), stringified: None })
		}
	}
}

/// Whether the source side finds a malformed document before offering
/// anything to the output (then the model's item is `F`), by the code:
/// json/msgpack slices pre-parse / pre-size each value; readers, YAML (for a
/// document that libyaml accepts and serde_yaml refuses) and TOML parse inside
/// `transcode_from`.
fn srcerr_is_eager(from: Fmt, supply: &Supply) -> bool {
	matches!((from, supply), (Fmt::Json, Supply::Slice) | (Fmt::Msgpack, Supply::Slice))
}

pub fn tcall_input(from: Fmt, docs: &[TDoc]) -> Vec<u8> {
	let mut v = vec![];
	for (i, d) in docs.iter().enumerate() {
		match from {
			Fmt::Json => {
				if i > 0 {
					v.push(b'\n');
				}
			}
			Fmt::Yaml => v.extend_from_slice(b"---\n"),
			_ => {}
		}
		v.extend_from_slice(&d.text);
	}
	v
}

pub fn tomlout_script(calls: &[TCall]) -> String {
	let mut parts = vec![];
	for c in calls {
		let mut items: Vec<&str> = vec![];
		for d in &c.docs {
			if d.class == TClass::SrcErr && srcerr_is_eager(c.from, &c.supply) {
				items.push("F");
				break;
			}
			items.push(d.class.tok());
		}
		parts.push(if items.is_empty() { "-".to_string() } else { items.join(",") });
	}
	parts.join("/")
}

pub fn gen_tcalls(rng: &mut Rng) -> Vec<TCall> {
	let ncalls = rng.range(1, 3) as usize;
	let total = rng.range(0, 3) as usize;
	let mut counts = vec![0usize; ncalls];
	for _ in 0..total {
		counts[rng.below(ncalls as u64) as usize] += 1;
	}
	let mut calls = vec![];
	for (ci, &n) in counts.iter().enumerate() {
		let mut from = *rng.pick(&[Fmt::Json, Fmt::Yaml, Fmt::Msgpack, Fmt::Toml]);
		if from == Fmt::Toml && n != 1 {
			from = *rng.pick(&STREAM_FMTS);
		}
		let mut supply = if rng.chance(1, 4) { Supply::Slice } else { random_supply(rng) };
		if n == 0 && from == Fmt::Yaml {
			supply = Supply::Reader(vec![]);
		}
		let mut docs = vec![];
		for di in 0..n {
			let id = format!("{ci}.{di}");
			for _ in 0..20 {
				let class = *rng.pick(&[TClass::Table, TClass::Table, TClass::Table, TClass::NonTable, TClass::Reject, TClass::Reject, TClass::SrcErr]);
				if let Some(d) = gen_tdoc(rng, from, &supply, class, &id) {
					docs.push(d);
					break;
				}
			}
		}
		// A malformed MessagePack / JSON document swallows what follows it; keep it last.
		if let Some(p) = docs.iter().position(|d| d.class == TClass::SrcErr) {
			docs.truncate(p + 1);
		}
		let input = tcall_input(from, &docs);
		calls.push(TCall { from, supply, docs, input });
	}
	calls
}

/// Which document's single translation the output is (`w:i.j`), `w:-` for
/// nothing, `w:?` for anything else.
pub fn written_tok(calls: &[TCall], output: &[u8]) -> String {
	if output.is_empty() {
		return "w:-".to_string();
	}
	for (i, c) in calls.iter().enumerate() {
		for (j, d) in c.docs.iter().enumerate() {
			if d.class == TClass::Table {
				let single = translate(&d.text, &c.supply, Some(c.from), Fmt::Toml);
				if single.ok() && single.output == output {
					return format!("w:{i}.{j}");
				}
			}
		}
	}
	"w:?".to_string()
}

pub fn tomlout_case(out: &mut Out, calls: &[TCall]) -> Session {
	let inputs: Vec<_> = calls.iter().map(|c| (c.input.clone(), c.supply.clone(), Some(c.from))).collect();
	let s = run_calls(&inputs, Fmt::Toml);
	let mut toks: Vec<String> = s.results.iter().map(|r| verdict_tok(r).to_string()).collect();
	toks.push(written_tok(calls, &s.output));
	let ndocs: usize = calls.iter().map(|c| c.docs.len()).sum();
	out.case("tomlout", &tomlout_script(calls), &toks.join(" "), ndocs > 0);
	for c in calls {
		for d in &c.docs {
			out.count(&format!("tomlout.doc.{}.{}", c.from.name(), d.class.tok()));
		}
	}
	s
}
