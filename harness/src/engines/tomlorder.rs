//! Engine `tomlorder`: the entry order xt's TOML output gives a document,
//! observed by reading the output back with the `toml` crate, against the
//! Lean model of the `toml` crate's three-pass table serializer.

use crate::out::Out;
use crate::util::Rng;
use crate::xtapi::{translate, Fmt, Supply};

#[derive(Clone, Debug)]
pub enum TV {
	Scalar(u32),
	Arr(Vec<TV>),
	Tbl(Vec<(u32, TV)>),
}

pub fn render(v: &TV) -> String {
	match v {
		TV::Scalar(t) => format!("s{t}"),
		TV::Arr(xs) => format!("a[{}]", xs.iter().map(render).collect::<Vec<_>>().join(";")),
		TV::Tbl(es) => format!("t{{{}}}", es.iter().map(|(k, v)| format!("{k}={}", render(v))).collect::<Vec<_>>().join(";")),
	}
}

fn to_json(v: &TV, out: &mut String) {
	match v {
		TV::Scalar(t) => out.push_str(&t.to_string()),
		TV::Arr(xs) => {
			out.push('[');
			for (i, x) in xs.iter().enumerate() {
				if i > 0 {
					out.push(',');
				}
				to_json(x, out);
			}
			out.push(']');
		}
		TV::Tbl(es) => {
			out.push('{');
			for (i, (k, x)) in es.iter().enumerate() {
				if i > 0 {
					out.push(',');
				}
				out.push_str(&format!("\"k{k}\":"));
				to_json(x, out);
			}
			out.push('}');
		}
	}
}

fn from_toml(v: &toml::Value) -> Option<TV> {
	Some(match v {
		toml::Value::Integer(i) => TV::Scalar(u32::try_from(*i).ok()?),
		toml::Value::Array(a) => TV::Arr(a.iter().map(from_toml).collect::<Option<_>>()?),
		toml::Value::Table(t) => TV::Tbl(
			t.iter()
				.map(|(k, v)| Some((k.strip_prefix('k')?.parse().ok()?, from_toml(v)?)))
				.collect::<Option<_>>()?,
		),
		_ => return None,
	})
}

fn gen(rng: &mut Rng, depth: usize, next_key: &mut u32) -> TV {
	if depth == 0 || rng.chance(1, 3) {
		return TV::Scalar(rng.below(3) as u32);
	}
	let width = rng.below(4) as usize;
	if rng.chance(2, 5) {
		// Arrays: plain, arrays of tables, mixed.
		let kind = rng.below(3);
		TV::Arr(
			(0..width)
				.map(|i| match kind {
					0 => TV::Scalar(rng.below(3) as u32),
					1 => gen_tbl(rng, depth - 1, next_key),
					_ => {
						if (i + rng.below(2) as usize) % 2 == 0 {
							gen_tbl(rng, depth - 1, next_key)
						} else {
							gen(rng, depth - 1, next_key)
						}
					}
				})
				.collect(),
		)
	} else {
		gen_tbl(rng, depth, next_key)
	}
}

fn gen_tbl(rng: &mut Rng, depth: usize, next_key: &mut u32) -> TV {
	let width = rng.below(5) as usize;
	// Keys are chosen so that neither insertion order nor sorted order is
	// accidentally the expected one.
	let mut keys: Vec<u32> = (0..width)
		.map(|_| {
			*next_key += 1;
			*next_key
		})
		.collect();
	for i in (1..keys.len()).rev() {
		keys.swap(i, rng.below(i as u64 + 1) as usize);
	}
	TV::Tbl(keys.into_iter().map(|k| (k, gen(rng, depth.saturating_sub(1), next_key))).collect())
}

/// All tables of depth ≤ 2 whose entries are drawn from a small alphabet of
/// value shapes — every arrangement of up to 3 entries, at the root and one
/// level down.
fn exhaustive() -> Vec<TV> {
	let shapes = [
		TV::Scalar(0),
		TV::Arr(vec![]),
		TV::Arr(vec![TV::Scalar(1)]),
		TV::Arr(vec![TV::Tbl(vec![])]),
		TV::Arr(vec![TV::Tbl(vec![]), TV::Scalar(0)]),
		TV::Arr(vec![TV::Scalar(0), TV::Tbl(vec![(9, TV::Scalar(0))])]),
		TV::Tbl(vec![]),
		TV::Tbl(vec![(8, TV::Scalar(0))]),
	];
	let mut inner = vec![];
	for a in &shapes {
		inner.push(vec![a.clone()]);
		for b in &shapes {
			inner.push(vec![a.clone(), b.clone()]);
			for c in &shapes {
				inner.push(vec![a.clone(), b.clone(), c.clone()]);
			}
		}
	}
	let mut out = vec![];
	for vals in &inner {
		// Keys descending, so sorted order differs from input order.
		let es: Vec<(u32, TV)> = vals.iter().enumerate().map(|(i, v)| (7 - i as u32, v.clone())).collect();
		out.push(TV::Tbl(es.clone()));
		out.push(TV::Tbl(vec![(1, TV::Tbl(es.clone())), (0, TV::Scalar(2))]));
		out.push(TV::Tbl(vec![(1, TV::Arr(vec![TV::Tbl(es)]))]));
	}
	out
}

pub fn run(out: &mut Out, rng: &mut Rng, thorough: bool) {
	let mut docs = exhaustive();
	out.count("tomlorder.exhaustive_3_entries_over_8_shapes_root_nested_in_array");
	let n = if thorough { 6000 } else { 600 };
	for _ in 0..n {
		let mut next_key = 0;
		docs.push(gen_tbl(rng, 4, &mut next_key));
	}
	for doc in &docs {
		let mut json = String::new();
		to_json(doc, &mut json);
		let got = translate(json.as_bytes(), &Supply::Slice, Some(Fmt::Json), Fmt::Toml);
		let answer = match &got.result {
			Err(e) => format!("err:{}", e.replace(' ', "_")),
			Ok(()) => match std::str::from_utf8(&got.output).ok().and_then(|s| toml::from_str::<toml::Value>(s).ok()) {
				Some(v) => from_toml(&v).map(|t| render(&t)).unwrap_or_else(|| "unreadable".to_string()),
				None => "unreadable".to_string(),
			},
		};
		let nontrivial = matches!(doc, TV::Tbl(es) if es.len() > 1 || es.iter().any(|(_, v)| !matches!(v, TV::Scalar(_))));
		out.case("tomlorder", &render(doc), &answer, nontrivial);
	}
}
