//! Engines `lagok` / `lagat` / `loopmodel` (C05): the interleaving of `read`
//! calls on xt's source and `write` calls on its output.
//!
//! A logging `Read` and a logging `Write` share one event log. `rd off n`: the
//! source was asked to read when `off` bytes had been delivered and returned
//! `n`; `wr n`: the writer accepted `n` bytes (consecutive writes are recorded
//! as one event). The REAL trace of `xt::translate_reader` is given to the Lean
//! acceptor (`Xt.Stream.lagOk` / `lagOkAt`) by the driver; the
//! implementation's answer for such a case is the verdict of the independent
//! acceptor below (a single pass with a cursor, where the Lean definition
//! re-tests every document at every read), so the correspondence cross-checks
//! the two acceptors on real traces and on traces that must be rejected.

use std::cell::RefCell;
use std::io::{self, Read, Write};
use std::rc::Rc;

use crate::gen::{gen_doc, spell_checked, GenOpts, Spelling, Val};
use crate::out::Out;
use crate::util::{catch, hex, nats, Rng};
use crate::xtapi::{Fmt, STREAM_FMTS};

#[derive(Clone, Copy, Debug, PartialEq, Eq)]
pub enum Ev {
	Rd(usize, usize),
	Wr(usize),
}

pub type Log = Rc<RefCell<Vec<Ev>>>;

pub fn new_log() -> Log {
	Rc::new(RefCell::new(Vec::new()))
}

/// How the source makes its bytes available.
#[derive(Clone, Debug)]
pub enum Packets {
	/// everything is available at once
	All,
	/// a packet boundary every `p` bytes
	Every(usize),
	/// packet boundaries at these absolute offsets (ascending)
	At(Vec<usize>),
}

impl Packets {
	pub fn describe(&self) -> String {
		match self {
			Packets::All => "all-at-once".to_string(),
			Packets::Every(p) => format!("every-{p}-bytes"),
			Packets::At(v) if v.len() <= 40 => format!("cuts-at[{}]", nats(v)),
			Packets::At(v) => format!("cuts-at[{},… {} cuts]", nats(&v[..40]), v.len()),
		}
	}
	/// Packet sizes for an input of `total` bytes.
	pub fn sizes(&self, total: usize) -> Vec<usize> {
		let mut out = vec![];
		let mut pos = 0;
		let mut idx = 0;
		while pos < total {
			let lim = self.limit(pos, total, &mut idx);
			out.push(lim - pos);
			pos = lim;
		}
		out
	}
	fn limit(&self, pos: usize, total: usize, idx: &mut usize) -> usize {
		match self {
			Packets::All => total,
			Packets::Every(p) => ((pos / p + 1) * p).min(total),
			Packets::At(v) => {
				while *idx < v.len() && v[*idx] <= pos {
					*idx += 1;
				}
				if *idx < v.len() {
					v[*idx].min(total)
				} else {
					total
				}
			}
		}
	}
}

/// A source over in-memory data: a `read` returns what is left of the current
/// packet, at most the caller's buffer; every call is logged.
pub struct LogReader {
	data: Rc<Vec<u8>>,
	pos: usize,
	packets: Packets,
	idx: usize,
	log: Option<Log>,
}

impl LogReader {
	pub fn new(data: Rc<Vec<u8>>, packets: Packets, log: Option<Log>) -> LogReader {
		LogReader { data, pos: 0, packets, idx: 0, log }
	}
}

impl Read for LogReader {
	fn read(&mut self, buf: &mut [u8]) -> io::Result<usize> {
		if buf.is_empty() {
			return Ok(0);
		}
		let lim = self.packets.limit(self.pos, self.data.len(), &mut self.idx);
		let n = buf.len().min(lim - self.pos);
		buf[..n].copy_from_slice(&self.data[self.pos..self.pos + n]);
		if let Some(log) = &self.log {
			log.borrow_mut().push(Ev::Rd(self.pos, n));
		}
		self.pos += n;
		Ok(n)
	}
}

/// A source that repeats one document `count` times without holding the
/// stream in memory (for the memory statement); a packet boundary every
/// `packet` bytes.
pub struct RepeatReader {
	doc: Vec<u8>,
	total: usize,
	pos: usize,
	packet: usize,
}

impl RepeatReader {
	pub fn new(doc: Vec<u8>, count: usize, packet: usize) -> RepeatReader {
		let total = doc.len() * count;
		RepeatReader { doc, total, pos: 0, packet: packet.max(1) }
	}
}

impl Read for RepeatReader {
	fn read(&mut self, buf: &mut [u8]) -> io::Result<usize> {
		let lim = ((self.pos / self.packet + 1) * self.packet).min(self.total);
		let n = buf.len().min(lim - self.pos);
		let mut done = 0;
		while done < n {
			let at = (self.pos + done) % self.doc.len();
			let k = (n - done).min(self.doc.len() - at);
			buf[done..done + k].copy_from_slice(&self.doc[at..at + k]);
			done += k;
		}
		self.pos += n;
		Ok(n)
	}
}

/// A writer that counts and discards; logged writes are merged with a
/// directly preceding write event.
pub struct LogWriter {
	pub total: usize,
	log: Option<Log>,
}

impl LogWriter {
	pub fn new(log: Option<Log>) -> LogWriter {
		LogWriter { total: 0, log }
	}
}

impl Write for LogWriter {
	fn write(&mut self, buf: &[u8]) -> io::Result<usize> {
		self.total += buf.len();
		if !buf.is_empty() {
			if let Some(log) = &self.log {
				let mut log = log.borrow_mut();
				match log.last_mut() {
					Some(Ev::Wr(m)) => *m += buf.len(),
					_ => log.push(Ev::Wr(buf.len())),
				}
			}
		}
		Ok(buf.len())
	}
	fn flush(&mut self) -> io::Result<()> {
		Ok(())
	}
}

pub fn trace_field(trace: &[Ev]) -> String {
	if trace.is_empty() {
		return "-".to_string();
	}
	let mut s = String::with_capacity(trace.len() * 8);
	for (i, e) in trace.iter().enumerate() {
		if i > 0 {
			s.push(',');
		}
		match e {
			Ev::Rd(off, n) => s.push_str(&format!("r{off}:{n}")),
			Ev::Wr(n) => s.push_str(&format!("w{n}")),
		}
	}
	s
}

/// The independent acceptor: document k must be written before any read
/// request at an offset >= ends[k+d] + la. One pass; `ends` and `out_ends`
/// must be nondecreasing (asserted by the callers).
pub fn first_bad(d: usize, la: usize, ends: &[usize], out_ends: &[usize], trace: &[Ev]) -> Option<usize> {
	let npairs = ends.len().saturating_sub(d).min(out_ends.len());
	let mut k = 0; // documents 0..k are written
	let mut written = 0usize;
	for (i, ev) in trace.iter().enumerate() {
		match *ev {
			Ev::Wr(n) => written += n,
			Ev::Rd(off, _) => {
				while k < npairs && out_ends[k] <= written {
					k += 1;
				}
				// the earliest bound among the documents not yet written is that of document k
				if k < npairs && ends[k + d] + la <= off {
					return Some(i);
				}
			}
		}
	}
	None
}

pub fn verdict(bad: Option<usize>) -> String {
	match bad {
		None => "ok".to_string(),
		Some(i) => format!("bad:{i}"),
	}
}

pub fn sorted(v: &[usize]) -> bool {
	v.windows(2).all(|w| w[0] <= w[1])
}

/// A generated stream of one format.
pub struct Stream {
	pub fmt: Fmt,
	pub data: Rc<Vec<u8>>,
	/// input offset at which document i ends (for YAML: where the next
	/// document's text starts; everything up to there belongs to document i)
	pub ends: Vec<usize>,
	/// offset at which document i's own text starts (after the separator)
	pub starts: Vec<usize>,
	/// each document alone, as it can be translated by itself
	pub singles: Vec<Vec<u8>>,
	pub scalar_free: bool,
	pub desc: String,
}

/// A big document of roughly `size` bytes.
fn big_doc(rng: &mut Rng, size: usize) -> Val {
	match rng.below(3) {
		0 => Val::Seq((0..size / 7).map(|i| Val::Int((i as i128 * 7919) % 1_000_000)).collect()),
		1 => Val::Map(vec![(Val::Str("blob".to_string()), Val::Str("abcdefghij".repeat(size / 10)))]),
		_ => Val::Seq(
			(0..size / 40)
				.map(|i| Val::Map(vec![(Val::Str("id".to_string()), Val::Int(i as i128)), (Val::Str("name".to_string()), Val::Str(format!("item-{i}-{}", "x".repeat(i % 13))))]))
				.collect(),
		),
	}
}

pub struct StreamOpts {
	pub n: usize,
	/// documents are collections only (self-delimited in JSON)
	pub scalar_free: bool,
	/// first document is a collection (needed for detection of MessagePack and YAML)
	pub first_collection: bool,
	pub big: usize,
	pub big_size: usize,
	pub plain: bool,
}

/// Generates a stream of `o.n` documents of format `f` and its document bounds.
pub fn gen_stream(rng: &mut Rng, f: Fmt, o: &StreamOpts) -> Stream {
	let base = GenOpts { nasty_strings: false, ..GenOpts::cdm() }.for_formats(&STREAM_FMTS);
	let mut big_at: Vec<usize> = (0..o.big).map(|_| rng.below(o.n as u64) as usize).collect();
	big_at.sort();
	let mut texts: Vec<Vec<u8>> = vec![];
	let mut guard = 0;
	while texts.len() < o.n && guard < o.n * 20 + 100 {
		guard += 1;
		let i = texts.len();
		let coll = o.scalar_free || (i == 0 && o.first_collection);
		let opts = GenOpts { root_collection: coll, max_depth: 3, max_width: 4, ..base };
		let v = if big_at.contains(&i) {
			let size = o.big_size / 2 + rng.below(o.big_size as u64 / 2 + 1) as usize;
			big_doc(rng, size)
		} else {
			gen_doc(rng, &opts)
		};
		if coll && matches!(&v, Val::Seq(x) if x.is_empty()) && f == Fmt::Yaml {
			continue;
		}
		let sp = if o.plain || big_at.contains(&i) { Spelling::plain() } else { Spelling::random(rng) };
		if let Some(t) = spell_checked(f, &v, &sp) {
			texts.push(t);
		}
	}
	let mut data = vec![];
	let mut ends = vec![];
	let mut starts = vec![];
	let mut singles = vec![];
	for (i, t) in texts.iter().enumerate() {
		match f {
			Fmt::Json => {
				if i > 0 {
					let sep: &[u8] = if o.plain { b"\n" } else { *rng.pick::<&[u8]>(&[b"\n", b" ", b"\n\n", b"\t", b"\r\n", b"\n"]) };
					data.extend_from_slice(sep);
				}
				starts.push(data.len());
				data.extend_from_slice(t);
				ends.push(data.len());
				singles.push(t.clone());
			}
			Fmt::Msgpack => {
				starts.push(data.len());
				data.extend_from_slice(t);
				ends.push(data.len());
				singles.push(t.clone());
			}
			_ => {
				let mut one = vec![];
				let intro: &[u8] = if o.plain || i == 0 { b"---\n" } else { *rng.pick::<&[u8]>(&[b"---\n", b"---\n", b"--- # c\n", b"--- \n"]) };
				one.extend_from_slice(intro);
				one.extend_from_slice(t);
				if !o.plain && rng.chance(1, 8) {
					one.extend_from_slice(b"...\n");
				}
				starts.push(data.len());
				data.extend_from_slice(&one);
				ends.push(data.len());
				singles.push(one);
			}
		}
	}
	if f == Fmt::Json && !data.is_empty() && (o.plain || rng.chance(1, 2)) {
		data.push(b'\n');
	}
	let sizes: Vec<usize> = singles.iter().map(Vec::len).collect();
	let desc = format!(
		"{} stream of {} documents, {} bytes (sizes {}..{}, {} big){}",
		f.name(),
		texts.len(),
		data.len(),
		sizes.iter().min().copied().unwrap_or(0),
		sizes.iter().max().copied().unwrap_or(0),
		o.big,
		if o.scalar_free { ", collections only" } else { "" }
	);
	Stream { fmt: f, data: Rc::new(data), ends, starts, singles, scalar_free: o.scalar_free, desc }
}

/// Packetisations of a stream, by kind.
pub fn packetisation(rng: &mut Rng, s: &Stream, kind: u64) -> Packets {
	let total = s.data.len();
	match kind {
		0 => Packets::At(s.ends.clone()),  // one document per read (separator in front of the next)
		1 => Packets::At(s.starts.clone()), // one document per read (separator behind)
		2 => {
			let k = rng.range(2, 9) as usize;
			Packets::At(s.ends.iter().enumerate().filter(|(i, _)| i % k == k - 1).map(|(_, e)| *e).collect())
		}
		3 => {
			// fractions of one document
			let f = rng.range(2, 5) as usize;
			let mut cuts = vec![];
			for (i, e) in s.ends.iter().enumerate() {
				let st = s.starts[i];
				for j in 1..f {
					cuts.push(st + (e - st) * j / f);
				}
				cuts.push(*e);
			}
			cuts.sort();
			cuts.dedup();
			Packets::At(cuts)
		}
		4 => Packets::Every(1),
		5 => Packets::Every(*rng.pick(&[2usize, 3, 7, 64, 100, 1000, 4096, 8191, 8192, 8193, 16384, 65536])),
		6 => {
			let k = (total / 50).clamp(1, 400);
			let mut cuts: Vec<usize> = (0..k).map(|_| rng.below(total.max(1) as u64) as usize).collect();
			cuts.sort();
			cuts.dedup();
			Packets::At(cuts)
		}
		_ => Packets::All,
	}
}

pub struct Run {
	pub result: Result<(), String>,
	pub trace: Vec<Ev>,
	pub written: usize,
}

/// The real thing: `xt::translate_reader` from the logging source to the
/// logging writer.
pub fn run_real(data: &Rc<Vec<u8>>, packets: &Packets, from: Option<Fmt>, to: Fmt) -> Run {
	let log = new_log();
	let reader = LogReader::new(data.clone(), packets.clone(), Some(log.clone()));
	let mut writer = LogWriter::new(Some(log.clone()));
	let r = catch(|| xt::translate_reader(reader, from.map(Fmt::xt), to.xt(), &mut writer));
	let result = match r {
		Ok(Ok(())) => Ok(()),
		Ok(Err(e)) => Err(e.to_string()),
		Err(p) => Err(format!("PANIC: {p}")),
	};
	let trace = log.borrow().clone();
	Run { result, trace, written: writer.total }
}

/// Output offsets at which each document's translation ends, from
/// single-document translations (the output of a stream is their
/// concatenation: C03).
pub fn out_ends(s: &Stream, to: Fmt) -> Result<Vec<usize>, String> {
	let mut acc = 0;
	let mut out = vec![];
	let mut cache: Option<(&Vec<u8>, usize)> = None;
	for one in &s.singles {
		let len = match cache {
			Some((prev, len)) if prev == one => len,
			_ => {
				let r = run_real(&Rc::new(one.clone()), &Packets::All, Some(s.fmt), to);
				if let Err(e) = r.result {
					return Err(format!("document {} alone does not translate to {}: {e}", hex(&one[..one.len().min(200)]), to.name()));
				}
				r.written
			}
		};
		cache = Some((one, len));
		acc += len;
		out.push(acc);
	}
	Ok(out)
}

/// The tightest statement measured on the real code per source format:
/// (d, la) such that document k is written before any read request at an
/// offset >= ends[k+d] + la.
pub fn tight(f: Fmt) -> (usize, usize) {
	match f {
		Fmt::Json => (0, 1),
		Fmt::Msgpack => (0, 0),
		_ => (1, 0),
	}
}

/// Reads first, writes last: the trace a slurp-then-translate implementation
/// would have produced for the same source reads and the same output.
pub fn slurped(trace: &[Ev]) -> Vec<Ev> {
	let mut out: Vec<Ev> = trace.iter().filter(|e| matches!(e, Ev::Rd(..))).copied().collect();
	let w: usize = trace.iter().map(|e| if let Ev::Wr(n) = e { *n } else { 0 }).sum();
	if w > 0 {
		out.push(Ev::Wr(w));
	}
	out
}

/// Every write event moved `by` read events later.
pub fn delayed(trace: &[Ev], by: usize) -> Vec<Ev> {
	let mut out = vec![];
	let mut pending: Vec<(usize, usize)> = vec![]; // (reads still to pass, bytes)
	for e in trace {
		match *e {
			Ev::Wr(n) => pending.push((by, n)),
			Ev::Rd(..) => {
				out.push(*e);
				let mut keep = vec![];
				for (left, n) in pending.drain(..) {
					if left <= 1 {
						match out.last_mut() {
							Some(Ev::Wr(m)) => *m += n,
							_ => out.push(Ev::Wr(n)),
						}
					} else {
						keep.push((left - 1, n));
					}
				}
				pending = keep;
			}
		}
	}
	for (_, n) in pending {
		match out.last_mut() {
			Some(Ev::Wr(m)) => *m += n,
			_ => out.push(Ev::Wr(n)),
		}
	}
	out
}

pub const MAX_EVENTS: usize = 300_000;

/// Correspondence-only cases with hand-made traces: boundary offsets around
/// the document ends, for every (d, la) in a small grid.
pub fn run(out: &mut Out, rng: &mut Rng, thorough: bool) {
	let rounds = if thorough { 400 } else { 120 };
	for _ in 0..rounds {
		let n = rng.range(0, 7) as usize;
		let mut ends = vec![];
		let mut outs = vec![];
		let (mut e, mut o) = (0usize, 0usize);
		for _ in 0..n {
			e += rng.range(0, 6) as usize;
			o += rng.range(0, 4) as usize;
			ends.push(e);
			outs.push(o);
		}
		if rng.chance(1, 6) && !outs.is_empty() {
			outs.pop();
		}
		let total = e + rng.range(0, 3) as usize;
		// a random walk: reads advance through the input, writes through the output
		let mut trace = vec![];
		let (mut pos, mut w) = (0usize, 0usize);
		let wtotal = o;
		for _ in 0..rng.range(0, 14) {
			if rng.chance(1, 2) {
				let k = (rng.range(0, 5) as usize).min(total - pos);
				trace.push(Ev::Rd(pos, k));
				pos += k;
			} else {
				let k = (rng.range(0, 4) as usize).min(wtotal - w);
				trace.push(Ev::Wr(k));
				w += k;
			}
		}
		for (d, la) in [(2usize, 0usize), (0, 0), (0, 1), (1, 0), (3, 0), (1, 2)] {
			let v = verdict(first_bad(d, la, &ends, &outs, &trace));
			let nontrivial = !trace.is_empty() && n > d;
			if d == 2 && la == 0 {
				out.case("lagok", &format!("0 {} {} {}", nats(&ends), nats(&outs), trace_field(&trace)), &v, nontrivial);
			} else if d == 3 && la == 0 {
				out.case("lagok", &format!("1 {} {} {}", nats(&ends), nats(&outs), trace_field(&trace)), &v, nontrivial);
			} else {
				out.case("lagat", &format!("{d} {la} {} {} {}", nats(&ends), nats(&outs), trace_field(&trace)), &v, nontrivial);
			}
			out.count(if v == "ok" { "synthetic.accepted" } else { "synthetic.rejected" });
		}
	}
}
