//! Engine `cli`: runs the REAL `xt` binaries (`XT_BIN_DEBUG` / `XT_BIN_RELEASE`)
//! as child processes in a fresh directory under `.work/` holding generated
//! files, FIFOs and directories; standard input is piped; standard output is a
//! pipe, a file, a pseudo-terminal, `/dev/full`, or a pipe whose reader leaves
//! after k bytes.  Wait status (exit code vs signal), stdout and stderr are
//! collected and compared with the Lean model of main.rs (`Xt.Cli.run`).
//!
//! The model takes the library as a parameter.  It is instantiated per case
//! with what the real library does in-process on the same bytes: the model
//! driver is first asked which calls the run makes (`plan`), those calls are
//! made on one `xt::Translator` over a recording writer (every `Write` method
//! the serializers use, with its bytes), and the recorded events and verdicts
//! go into the case line.
//!
//! Also: `ext` / `stdinpath` / `fmtname` (what the binary resolves, observed
//! from its output), `pipecheck` (the real src/pipecheck.rs compiled into the
//! harness, each method against each inner result, in a forked child) and
//! `lexopt` (the real lexopt crate's token stream).

use std::fmt;
use std::fs;
use std::io::{self, BufRead, BufReader, IoSlice, Read, Write};
use std::os::fd::{AsRawFd, FromRawFd, OwnedFd};
use std::os::unix::fs::PermissionsExt;
use std::os::unix::process::{CommandExt, ExitStatusExt};
use std::path::PathBuf;
use std::process::{Child, ChildStdin, ChildStdout, Command, Stdio};
use std::sync::atomic::{AtomicBool, AtomicUsize, Ordering};
use std::sync::Arc;
use std::time::{Duration, Instant};

use crate::out::Out;
use crate::util::{hex, Rng};
use crate::xtapi::Fmt;

#[allow(dead_code)]
#[path = "/repo/src/pipecheck.rs"]
mod pipecheck;

// ---------------------------------------------------------------- environment

pub fn bin(debug: bool) -> String {
	let var = if debug { "XT_BIN_DEBUG" } else { "XT_BIN_RELEASE" };
	std::env::var(var).unwrap_or_else(|_| {
		let root = std::env::current_dir().unwrap();
		root.join(".build/xt").join(if debug { "debug" } else { "release" }).join("xt").to_string_lossy().into_owned()
	})
}

fn model_bin() -> String {
	std::env::var("XT_MODEL_BIN").unwrap_or_else(|_| {
		std::env::current_dir().unwrap().join("lean/.lake/build/bin/xtmodel").to_string_lossy().into_owned()
	})
}

/// `name = "…"` / `version = "…"` of /repo's `[package]`, as `version_string()` composes them.
pub fn version_string() -> String {
	let text = fs::read_to_string("/repo/Cargo.toml").expect("read /repo/Cargo.toml");
	let mut name = String::new();
	let mut version = String::new();
	let mut in_package = false;
	for line in text.lines() {
		let line = line.trim();
		if line.starts_with('[') {
			in_package = line == "[package]";
			continue;
		}
		if !in_package {
			continue;
		}
		if let Some(rest) = line.strip_prefix("name") {
			if name.is_empty() {
				name = rest.trim().trim_start_matches('=').trim().trim_matches('"').to_string();
			}
		}
		if let Some(rest) = line.strip_prefix("version") {
			if version.is_empty() {
				version = rest.trim().trim_start_matches('=').trim().trim_matches('"').to_string();
			}
		}
	}
	format!("{name} {version}")
}

pub fn xhex(bytes: &[u8]) -> String {
	let mut s = String::with_capacity(1 + bytes.len() * 2);
	s.push('x');
	for b in bytes {
		s.push_str(&format!("{b:02x}"));
	}
	s
}

fn unxhex(s: &str) -> Vec<u8> {
	let s = &s[1..];
	(0..s.len() / 2).map(|i| u8::from_str_radix(&s[2 * i..2 * i + 2], 16).unwrap()).collect()
}

fn fnv(bytes: &[u8]) -> u64 {
	let mut h: u64 = 0xcbf29ce484222325;
	for b in bytes {
		h ^= u64::from(*b);
		h = h.wrapping_mul(0x100000001b3);
	}
	h
}

/// Short byte strings in hex, long ones as `#<length>:<fnv64>`.
pub fn digest(bytes: &[u8]) -> String {
	if bytes.len() <= 64 {
		hex(bytes)
	} else {
		format!("#{}:{:x}", bytes.len(), fnv(bytes))
	}
}

// ---------------------------------------------------------------- sandbox

static SANDBOX_COUNTER: AtomicUsize = AtomicUsize::new(0);

/// What a path of a case names.
#[derive(Clone, Debug)]
pub enum Kind {
	Regular(Vec<u8>),
	Fifo(Vec<u8>),
	Dir,
	Missing,
	/// A regular file with mode 000; the child runs as an unprivileged user.
	Unreadable,
	/// A path that goes *through* a regular file (`file/` or `file/x`).
	NotDir,
}

impl Kind {
	pub fn letter(&self) -> &'static str {
		match self {
			Kind::Regular(_) => "r",
			Kind::Fifo(_) => "p",
			Kind::Dir => "d",
			Kind::Missing => "m",
			Kind::Unreadable => "u",
			Kind::NotDir => "n",
		}
	}
}

#[derive(Clone, Debug)]
pub struct FileSpec {
	/// The literal path as it appears in argv (relative to the sandbox).
	pub path: String,
	pub kind: Kind,
}

pub fn file(path: &str, kind: Kind) -> FileSpec {
	FileSpec { path: path.to_string(), kind }
}

pub struct Sandbox {
	pub dir: PathBuf,
}

impl Sandbox {
	pub fn new(files: &[FileSpec]) -> io::Result<Sandbox> {
		let n = SANDBOX_COUNTER.fetch_add(1, Ordering::SeqCst);
		let dir = std::env::current_dir()?.join(".work").join("cli-sandbox").join(format!("{}-{}", std::process::id(), n));
		let _ = fs::remove_dir_all(&dir);
		fs::create_dir_all(&dir)?;
		fs::set_permissions(&dir, fs::Permissions::from_mode(0o755))?;
		let sb = Sandbox { dir };
		for f in files {
			sb.create(f)?;
		}
		Ok(sb)
	}

	fn create(&self, f: &FileSpec) -> io::Result<()> {
		let full = self.dir.join(&f.path);
		let make_parent = |p: &PathBuf| -> io::Result<()> {
			if let Some(parent) = p.parent() {
				fs::create_dir_all(parent)?;
			}
			Ok(())
		};
		match &f.kind {
			Kind::Regular(data) => {
				make_parent(&full)?;
				if !full.exists() {
					fs::write(&full, data)?;
				}
			}
			Kind::Fifo(_) => {
				make_parent(&full)?;
				if !full.exists() {
					let c = std::ffi::CString::new(full.to_string_lossy().as_bytes()).unwrap();
					// SAFETY: plain FFI call with a valid NUL-terminated path.
					let rc = unsafe { libc::mkfifo(c.as_ptr(), 0o666) };
					if rc != 0 {
						return Err(io::Error::last_os_error());
					}
				}
			}
			Kind::Dir => fs::create_dir_all(&full)?,
			Kind::Missing => {}
			Kind::Unreadable => {
				make_parent(&full)?;
				fs::write(&full, b"[1]")?;
				fs::set_permissions(&full, fs::Permissions::from_mode(0o000))?;
			}
			Kind::NotDir => {
				// The first component that is to be a regular file: everything
				// up to the first '/' of the literal path.
				let first = f.path.split('/').next().unwrap_or("");
				let p = self.dir.join(first);
				if !p.exists() {
					fs::write(&p, b"[1]")?;
				}
			}
		}
		Ok(())
	}
}

impl Drop for Sandbox {
	fn drop(&mut self) {
		let _ = fs::remove_dir_all(&self.dir);
	}
}

// ---------------------------------------------------------------- running the binary

#[derive(Clone, Debug, PartialEq, Eq)]
pub enum StdoutMode {
	Pipe,
	File,
	Pty,
	DevFull,
	/// A pipe whose reader takes exactly this many bytes and then closes it.
	ClosingPipe(usize),
}

#[derive(Clone, Debug, PartialEq, Eq)]
pub enum Status {
	Exit(i32),
	Signal(i32),
	Timeout,
}

impl Status {
	pub fn token(&self) -> String {
		match self {
			Status::Exit(n) => n.to_string(),
			Status::Signal(13) => "sigpipe".to_string(),
			Status::Signal(n) => format!("signal{n}"),
			Status::Timeout => "timeout".to_string(),
		}
	}
}

#[derive(Clone, Debug)]
pub struct Observed {
	pub status: Status,
	pub stdout: Vec<u8>,
	pub stderr: Vec<u8>,
}

#[derive(Clone, Debug)]
pub struct RunSpec {
	pub debug_bin: bool,
	pub argv0: String,
	pub args: Vec<String>,
	pub stdin: Vec<u8>,
	pub files: Vec<FileSpec>,
	pub out: StdoutMode,
}

impl RunSpec {
	pub fn new(args: &[&str]) -> RunSpec {
		RunSpec {
			debug_bin: false,
			argv0: "xt".to_string(),
			args: args.iter().map(|s| s.to_string()).collect(),
			stdin: vec![],
			files: vec![],
			out: StdoutMode::Pipe,
		}
	}
	pub fn describe(&self) -> String {
		let files: Vec<String> = self
			.files
			.iter()
			.map(|f| match &f.kind {
				Kind::Regular(d) | Kind::Fifo(d) => format!("{}={}:{}", f.path, f.kind.letter(), digest(d)),
				k => format!("{}={}", f.path, k.letter()),
			})
			.collect();
		format!(
			"argv={:?} stdin={} stdout={:?} files=[{}] bin={}",
			self.args,
			digest(&self.stdin),
			self.out,
			files.join(" "),
			if self.debug_bin { "debug" } else { "release" }
		)
	}
}

fn open_pty() -> io::Result<(OwnedFd, OwnedFd)> {
	let mut master: libc::c_int = -1;
	let mut slave: libc::c_int = -1;
	// SAFETY: openpty writes two descriptors; the other arguments may be null.
	let rc = unsafe { libc::openpty(&mut master, &mut slave, std::ptr::null_mut(), std::ptr::null(), std::ptr::null()) };
	if rc != 0 {
		return Err(io::Error::last_os_error());
	}
	// Raw mode: no output post-processing (no LF -> CR LF).
	// SAFETY: termios is plain data, filled by tcgetattr before use.
	unsafe {
		let mut t: libc::termios = std::mem::zeroed();
		if libc::tcgetattr(slave, &mut t) == 0 {
			libc::cfmakeraw(&mut t);
			libc::tcsetattr(slave, libc::TCSANOW, &t);
		}
		Ok((OwnedFd::from_raw_fd(master), OwnedFd::from_raw_fd(slave)))
	}
}

fn read_to_end_lenient(mut r: impl Read) -> Vec<u8> {
	let mut out = vec![];
	let mut buf = [0u8; 65536];
	loop {
		match r.read(&mut buf) {
			Ok(0) => break,
			Ok(n) => out.extend_from_slice(&buf[..n]),
			Err(e) if e.kind() == io::ErrorKind::Interrupted => {}
			// EIO on a pty master once the slave side is closed.
			Err(_) => break,
		}
	}
	out
}

/// Feeds a FIFO once the child has opened it for reading; gives up when `done` is set.
fn feed_fifo(path: PathBuf, data: Vec<u8>, done: Arc<AtomicBool>) {
	let c = std::ffi::CString::new(path.to_string_lossy().as_bytes()).unwrap();
	loop {
		// SAFETY: plain FFI call with a valid NUL-terminated path.
		let fd = unsafe { libc::open(c.as_ptr(), libc::O_WRONLY | libc::O_NONBLOCK | libc::O_CLOEXEC) };
		if fd >= 0 {
			// SAFETY: fd is a freshly opened descriptor that we own.
			let mut f = unsafe {
				let flags = libc::fcntl(fd, libc::F_GETFL);
				libc::fcntl(fd, libc::F_SETFL, flags & !libc::O_NONBLOCK);
				fs::File::from_raw_fd(fd)
			};
			let _ = f.write_all(&data);
			return;
		}
		if done.load(Ordering::SeqCst) {
			return;
		}
		std::thread::sleep(Duration::from_micros(100));
	}
}

fn privileges_can_be_dropped() -> bool {
	// SAFETY: getuid has no preconditions.
	unsafe { libc::getuid() == 0 }
}

/// Runs the real binary once.
pub fn run_real(spec: &RunSpec) -> io::Result<Observed> {
	let sb = Sandbox::new(&spec.files)?;
	let mut cmd = Command::new(bin(spec.debug_bin));
	cmd.arg0(&spec.argv0).args(&spec.args).current_dir(&sb.dir).stdin(Stdio::piped()).stderr(Stdio::piped());
	cmd.env_remove("RUST_BACKTRACE");
	if spec.files.iter().any(|f| matches!(f.kind, Kind::Unreadable)) && privileges_can_be_dropped() {
		cmd.uid(65534).gid(65534);
	}
	let stdout_file = sb.dir.join("__stdout__");
	let mut pty_master: Option<OwnedFd> = None;
	match &spec.out {
		StdoutMode::Pipe | StdoutMode::ClosingPipe(_) => {
			cmd.stdout(Stdio::piped());
		}
		StdoutMode::File => {
			cmd.stdout(Stdio::from(fs::File::create(&stdout_file)?));
		}
		StdoutMode::DevFull => {
			cmd.stdout(Stdio::from(fs::OpenOptions::new().write(true).open("/dev/full")?));
		}
		StdoutMode::Pty => {
			let (master, slave) = open_pty()?;
			cmd.stdout(Stdio::from(slave));
			pty_master = Some(master);
		}
	}
	let mut child: Child = cmd.spawn()?;
	// `cmd` holds the slave side of the pty / the output file; drop it so that
	// the child is the only holder.
	drop(cmd);

	let done = Arc::new(AtomicBool::new(false));
	let mut feeders = vec![];
	for f in &spec.files {
		if let Kind::Fifo(data) = &f.kind {
			let (p, d, dn) = (sb.dir.join(&f.path), data.clone(), done.clone());
			feeders.push(std::thread::spawn(move || feed_fifo(p, d, dn)));
		}
	}
	let stdin: ChildStdin = child.stdin.take().unwrap();
	let stdin_data = spec.stdin.clone();
	let stdin_thread = std::thread::spawn(move || {
		let mut stdin = stdin;
		let _ = stdin.write_all(&stdin_data);
	});
	let stderr = child.stderr.take().unwrap();
	let stderr_thread = std::thread::spawn(move || read_to_end_lenient(stderr));
	let stdout_thread: Option<std::thread::JoinHandle<Vec<u8>>> = match &spec.out {
		StdoutMode::Pipe => {
			let so: ChildStdout = child.stdout.take().unwrap();
			Some(std::thread::spawn(move || read_to_end_lenient(so)))
		}
		StdoutMode::ClosingPipe(k) => {
			let mut so: ChildStdout = child.stdout.take().unwrap();
			let k = *k;
			Some(std::thread::spawn(move || {
				let mut got = vec![0u8; k];
				let mut n = 0;
				while n < k {
					match so.read(&mut got[n..]) {
						Ok(0) => break,
						Ok(m) => n += m,
						Err(e) if e.kind() == io::ErrorKind::Interrupted => {}
						Err(_) => break,
					}
				}
				got.truncate(n);
				drop(so);
				got
			}))
		}
		StdoutMode::Pty => {
			let master = pty_master.take().unwrap();
			Some(std::thread::spawn(move || read_to_end_lenient(fs::File::from(master))))
		}
		_ => None,
	};

	let start = Instant::now();
	let status = loop {
		match child.try_wait()? {
			Some(st) => {
				break match (st.code(), st.signal()) {
					(Some(c), _) => Status::Exit(c),
					(None, Some(s)) => Status::Signal(s),
					_ => Status::Exit(-1),
				}
			}
			None => {
				if start.elapsed() > Duration::from_secs(60) {
					let _ = child.kill();
					let _ = child.wait();
					break Status::Timeout;
				}
				std::thread::sleep(Duration::from_micros(150));
			}
		}
	};
	done.store(true, Ordering::SeqCst);
	for f in feeders {
		let _ = f.join();
	}
	let _ = stdin_thread.join();
	let stderr = stderr_thread.join().unwrap_or_default();
	let stdout = match stdout_thread {
		Some(t) => t.join().unwrap_or_default(),
		None => match spec.out {
			StdoutMode::File => fs::read(&stdout_file)?,
			_ => vec![],
		},
	};
	Ok(Observed { status, stdout, stderr })
}

pub fn run_real_or_die(spec: &RunSpec) -> Observed {
	match run_real(spec) {
		Ok(o) => o,
		Err(e) => {
			eprintln!("cannot run the xt binary ({}): {e}", spec.describe());
			std::process::exit(4);
		}
	}
}

/// Maps `f` over `items` on up to 12 threads, keeping the order.
pub fn par_map<T: Sync, R: Send>(items: &[T], f: impl Fn(&T) -> R + Sync) -> Vec<R> {
	let threads = std::thread::available_parallelism().map(|n| n.get()).unwrap_or(4).clamp(1, 12);
	if items.len() < 8 || threads == 1 {
		return items.iter().map(&f).collect();
	}
	let next = AtomicUsize::new(0);
	let mut slots: Vec<Option<R>> = (0..items.len()).map(|_| None).collect();
	let results: Vec<Vec<(usize, R)>> = std::thread::scope(|s| {
		let handles: Vec<_> = (0..threads)
			.map(|_| {
				s.spawn(|| {
					let mut mine = vec![];
					loop {
						let i = next.fetch_add(1, Ordering::SeqCst);
						if i >= items.len() {
							break;
						}
						mine.push((i, f(&items[i])));
					}
					mine
				})
			})
			.collect();
		handles.into_iter().map(|h| h.join().expect("worker thread")).collect()
	});
	for chunk in results {
		for (i, r) in chunk {
			slots[i] = Some(r);
		}
	}
	slots.into_iter().map(|r| r.unwrap()).collect()
}

// ---------------------------------------------------------------- the model as planner

/// A long-lived `xtmodel` process answering one line at a time.
pub struct Planner {
	child: Child,
	stdin: ChildStdin,
	stdout: BufReader<ChildStdout>,
	n: u64,
}

impl Planner {
	pub fn new() -> Planner {
		let mut child = Command::new(model_bin())
			.stdin(Stdio::piped())
			.stdout(Stdio::piped())
			.spawn()
			.unwrap_or_else(|e| {
				eprintln!("cannot start the model driver {}: {e}", model_bin());
				std::process::exit(4);
			});
		let stdin = child.stdin.take().unwrap();
		let stdout = BufReader::new(child.stdout.take().unwrap());
		Planner { child, stdin, stdout, n: 0 }
	}

	pub fn ask(&mut self, engine: &str, fields: &str) -> String {
		self.n += 1;
		let id = format!("p{}", self.n);
		writeln!(self.stdin, "{engine} {id} {fields}").expect("write to model driver");
		self.stdin.flush().expect("flush to model driver");
		let mut line = String::new();
		self.stdout.read_line(&mut line).expect("read from model driver");
		let line = line.trim_end();
		match line.strip_prefix(&format!("{id} ")) {
			Some(rest) => rest.to_string(),
			None => {
				eprintln!("model driver answered {line:?} to {engine} {id}");
				std::process::exit(4);
			}
		}
	}
}

impl Drop for Planner {
	fn drop(&mut self) {
		let _ = self.child.kill();
		let _ = self.child.wait();
	}
}

// ---------------------------------------------------------------- the library, in process

/// One `Write` method call a serializer made.
#[derive(Clone, Debug)]
pub enum Ev {
	Write(Vec<u8>),
	WriteAll(Vec<u8>),
	Fmt(Vec<Vec<u8>>),
	Vectored(Vec<Vec<u8>>),
	Flush,
}

impl Ev {
	fn token(&self) -> String {
		let h = |b: &Vec<u8>| if b.is_empty() { String::new() } else { hex(b) };
		match self {
			Ev::Write(b) => format!("W{}", h(b)),
			Ev::WriteAll(b) => format!("A{}", h(b)),
			Ev::Fmt(fs) => format!("F{}", fs.iter().map(h).collect::<Vec<_>>().join("/")),
			Ev::Vectored(bs) => format!("V{}", bs.iter().map(h).collect::<Vec<_>>().join("/")),
			Ev::Flush => "L".to_string(),
		}
	}
	pub fn bytes(&self) -> Vec<u8> {
		match self {
			Ev::Write(b) | Ev::WriteAll(b) => b.clone(),
			Ev::Fmt(bs) | Ev::Vectored(bs) => bs.concat(),
			Ev::Flush => vec![],
		}
	}
}

/// Records which `Write` method is called with which bytes; accepts everything.
/// The log is shared so that it can be read while a `Translator` borrows the writer.
#[derive(Default, Clone)]
pub struct Recorder {
	pub events: std::rc::Rc<std::cell::RefCell<Vec<Ev>>>,
}

struct FragCollector(Vec<Vec<u8>>);

impl fmt::Write for FragCollector {
	fn write_str(&mut self, s: &str) -> fmt::Result {
		self.0.push(s.as_bytes().to_vec());
		Ok(())
	}
}

impl Write for Recorder {
	fn write(&mut self, buf: &[u8]) -> io::Result<usize> {
		self.events.borrow_mut().push(Ev::Write(buf.to_vec()));
		Ok(buf.len())
	}
	fn write_vectored(&mut self, bufs: &[IoSlice<'_>]) -> io::Result<usize> {
		self.events.borrow_mut().push(Ev::Vectored(bufs.iter().map(|b| b.to_vec()).collect()));
		Ok(bufs.iter().map(|b| b.len()).sum())
	}
	fn flush(&mut self) -> io::Result<()> {
		self.events.borrow_mut().push(Ev::Flush);
		Ok(())
	}
	fn write_all(&mut self, buf: &[u8]) -> io::Result<()> {
		self.events.borrow_mut().push(Ev::WriteAll(buf.to_vec()));
		Ok(())
	}
	fn write_fmt(&mut self, args: fmt::Arguments<'_>) -> io::Result<()> {
		let mut c = FragCollector(vec![]);
		let _ = fmt::write(&mut c, args);
		self.events.borrow_mut().push(Ev::Fmt(c.0));
		Ok(())
	}
}

/// One planned library call.
#[derive(Clone, Debug)]
pub struct PlannedCall {
	/// `None` = standard input.
	pub path: Option<String>,
	/// `s` slice, `r` reader, `d` reader over an opened directory.
	pub mode: char,
	pub from: Option<Fmt>,
}

#[derive(Clone, Debug)]
pub struct CallOutcome {
	pub result: Result<(), String>,
	pub events: Vec<Ev>,
	/// Message of the error the call returns when the output device is full.
	pub write_error: Option<String>,
}

impl CallOutcome {
	pub fn output(&self) -> Vec<u8> {
		self.events.iter().flat_map(|e| e.bytes()).collect()
	}
}

#[derive(Clone, Debug)]
pub enum Plan {
	ArgvError,
	Exit0,
	Guard,
	Calls(Fmt, Vec<PlannedCall>),
}

pub fn parse_plan(answer: &str) -> Plan {
	match answer {
		"argverr" => Plan::ArgvError,
		"exit0" => Plan::Exit0,
		"guard" => Plan::Guard,
		_ => {
			let mut it = answer.split(' ');
			let head = it.next().unwrap_or("");
			let to = head.strip_prefix("calls:").and_then(Fmt::from_name).unwrap_or_else(|| {
				eprintln!("unexpected plan answer {answer:?}");
				std::process::exit(4);
			});
			let mut calls = vec![];
			for tok in it {
				let parts: Vec<&str> = tok.split(';').collect();
				let path = if parts[0] == "stdin" { None } else { Some(String::from_utf8(unxhex(parts[0])).expect("utf-8 path")) };
				calls.push(PlannedCall { path, mode: parts[1].chars().next().unwrap(), from: Fmt::from_name(parts[2]) });
			}
			Plan::Calls(to, calls)
		}
	}
}

fn content_of<'a>(spec: &'a RunSpec, path: &str) -> &'a [u8] {
	for f in &spec.files {
		if f.path == path {
			if let Kind::Regular(d) | Kind::Fifo(d) = &f.kind {
				return d;
			}
		}
	}
	&[]
}

/// Makes the planned calls on one real `Translator` (as `main` does: one call
/// per input, then `flush`), stopping after the first call that fails.
/// `dir_base` is where directory operands live.
pub fn library_outcomes(spec: &RunSpec, to: Fmt, calls: &[PlannedCall], dir_base: Option<&std::path::Path>, out: &mut Out) -> Vec<CallOutcome> {
	let rec = Recorder::default();
	let log = rec.events.clone();
	let mut w = rec;
	let mut t = xt::Translator::new(&mut w, to.xt());
	let mut outcomes = vec![];
	for c in calls {
		let from = c.from.map(Fmt::xt);
		let start = log.borrow().len();
		let r = crate::util::catch(|| match (c.mode, &c.path) {
			('s', Some(p)) => t.translate_slice(content_of(spec, p), from),
			('r', Some(p)) => t.translate_reader(content_of(spec, p), from),
			('r', None) => t.translate_reader(&spec.stdin[..], from),
			('d', Some(p)) => match dir_base.map(|d| fs::File::open(d.join(p))) {
				Some(Ok(f)) => t.translate_reader(f, from),
				Some(Err(e)) => Err(e.into()),
				None => Err("harness: no directory base".into()),
			},
			_ => Err("harness: impossible planned call".into()),
		});
		let result = match r {
			Ok(Ok(())) => Ok(()),
			Ok(Err(e)) => Err(e.to_string()),
			Err(p) => Err(format!("PANIC: {p}")),
		};
		let events: Vec<Ev> = log.borrow()[start..].to_vec();
		for e in &events {
			out.count(match e {
				Ev::Write(_) => "lib.write_method.write",
				Ev::WriteAll(_) => "lib.write_method.write_all",
				Ev::Fmt(_) => "lib.write_method.write_fmt",
				Ev::Vectored(_) => "lib.write_method.write_vectored",
				Ev::Flush => "lib.write_method.flush_inside_call",
			});
		}
		let failed = result.is_err();
		outcomes.push(CallOutcome { result, events, write_error: None });
		if failed {
			break;
		}
		// `main` calls `translator.flush()` after every input: it must reach the
		// writer as exactly one `flush` call and nothing else.
		let before = log.borrow().len();
		let flushed = t.flush();
		let added: Vec<Ev> = log.borrow()[before..].to_vec();
		if flushed.is_err() || added.len() != 1 || !matches!(added[0], Ev::Flush) {
			out.fail("translator_flush_forwards", "", format!("Translator::flush over an accepting writer: result {:?}, writer calls {:?}", flushed.is_ok(), added));
		}
	}
	outcomes
}

/// The message of the error each call returns when standard output is
/// `/dev/full`, found by making the same calls on a `Translator` over a
/// `BufWriter` over the real `/dev/full`.
pub fn device_full_errors(spec: &RunSpec, to: Fmt, calls: &[PlannedCall], outcomes: &mut [CallOutcome]) {
	let Ok(full) = fs::OpenOptions::new().write(true).open("/dev/full") else { return };
	let mut w = io::BufWriter::new(full);
	let mut t = xt::Translator::new(&mut w, to.xt());
	for (i, c) in calls.iter().enumerate() {
		if i >= outcomes.len() {
			break;
		}
		let from = c.from.map(Fmt::xt);
		let r = crate::util::catch(|| match (c.mode, &c.path) {
			('s', Some(p)) => t.translate_slice(content_of(spec, p), from),
			('r', Some(p)) => t.translate_reader(content_of(spec, p), from),
			('r', None) => t.translate_reader(&spec.stdin[..], from),
			_ => Err("harness: not applicable".into()),
		});
		match r {
			Ok(Ok(())) => {
				if t.flush().is_err() {
					break;
				}
			}
			Ok(Err(e)) => {
				outcomes[i].write_error = Some(e.to_string());
				break;
			}
			Err(p) => {
				outcomes[i].write_error = Some(format!("PANIC: {p}"));
				break;
			}
		}
	}
}

// ---------------------------------------------------------------- case lines

pub const ENOSPC_TEXT: &str = "No space left on device (os error 28)";

fn fd_field(mode: &StdoutMode) -> String {
	match mode {
		StdoutMode::Pipe | StdoutMode::File | StdoutMode::Pty => "ok".to_string(),
		StdoutMode::DevFull => format!("limit:0:{}", xhex(ENOSPC_TEXT.as_bytes())),
		StdoutMode::ClosingPipe(k) => format!("limit:{k}:epipe"),
	}
}

fn argv_field(args: &[String]) -> String {
	if args.is_empty() {
		"-".to_string()
	} else {
		args.iter().map(|a| xhex(a.as_bytes())).collect::<Vec<_>>().join(",")
	}
}

fn files_field(files: &[FileSpec]) -> String {
	if files.is_empty() {
		"-".to_string()
	} else {
		files.iter().map(|f| format!("{}={}", xhex(f.path.as_bytes()), f.kind.letter())).collect::<Vec<_>>().join(",")
	}
}

fn calls_field(outcomes: &[CallOutcome]) -> String {
	if outcomes.is_empty() {
		return "-".to_string();
	}
	outcomes
		.iter()
		.map(|o| {
			let res = match &o.result {
				Ok(()) => "ok".to_string(),
				Err(m) => xhex(m.as_bytes()),
			};
			let werr = match &o.write_error {
				None => "-".to_string(),
				Some(m) => xhex(m.as_bytes()),
			};
			let evs = compress_tokens(o.events.iter().map(Ev::token).collect());
			format!("{res};{werr};{evs}")
		})
		.collect::<Vec<_>>()
		.join(",")
}

/// Joins event tokens with `.`, writing a block of up to 48 tokens that
/// repeats at least 3 times in a row as `R<count>:<tok>~<tok>~…`.
pub fn compress_tokens(tokens: Vec<String>) -> String {
	if tokens.len() < 64 {
		return tokens.join(".");
	}
	// token ids for fast comparison
	let mut ids: Vec<u64> = Vec::with_capacity(tokens.len());
	{
		let mut map: std::collections::HashMap<&str, u64> = std::collections::HashMap::new();
		for t in &tokens {
			let n = map.len() as u64;
			ids.push(*map.entry(t.as_str()).or_insert(n));
		}
	}
	let mut out: Vec<String> = vec![];
	let mut i = 0;
	let n = ids.len();
	while i < n {
		let mut best: Option<(usize, usize)> = None; // (period, repeats)
		for p in 1..=48usize {
			if i + 3 * p > n {
				break;
			}
			let mut r = 1;
			while i + (r + 1) * p <= n && ids[i + r * p..i + (r + 1) * p] == ids[i..i + p] {
				r += 1;
			}
			if r >= 3 && best.map_or(true, |(bp, br)| p * r > bp * br) {
				best = Some((p, r));
			}
		}
		match best {
			Some((p, r)) => {
				out.push(format!("R{}:{}", r, tokens[i..i + p].join("~")));
				i += p * r;
			}
			None => {
				out.push(tokens[i].clone());
				i += 1;
			}
		}
	}
	out.join(".")
}

pub fn observed_answer(o: &Observed) -> String {
	format!("exit:{} stdout:{} stderr:{}", o.status.token(), digest(&o.stdout), hex(&o.stderr))
}

/// Everything known about one correspondence case after it ran.
pub struct CaseResult {
	pub spec: RunSpec,
	pub plan: Plan,
	pub outcomes: Vec<CallOutcome>,
	pub observed: Observed,
	pub fields: String,
}

/// Plans, computes the library outcomes, runs the real binary and records the
/// correspondence case (`engine` is `cli`).  Returns what was observed.
pub fn run_case(out: &mut Out, planner: &mut Planner, version: &str, spec: &RunSpec) -> CaseResult {
	let prepared = prepare_case(out, planner, version, spec);
	let observed = run_real_or_die(spec);
	finish_case(out, prepared, observed)
}

pub struct Prepared {
	pub spec: RunSpec,
	pub plan: Plan,
	pub outcomes: Vec<CallOutcome>,
	pub fields: String,
}

pub fn prepare_case(out: &mut Out, planner: &mut Planner, version: &str, spec: &RunSpec) -> Prepared {
	let tty = if spec.out == StdoutMode::Pty { "1" } else { "0" };
	let argv = argv_field(&spec.args);
	let files = files_field(&spec.files);
	let plan = parse_plan(&planner.ask("plan", &format!("{tty} {argv} {files}")));
	let mut outcomes = vec![];
	if let Plan::Calls(to, calls) = &plan {
		let needs_dir = calls.iter().any(|c| c.mode == 'd');
		let sb = if needs_dir { Sandbox::new(&spec.files).ok() } else { None };
		outcomes = library_outcomes(spec, *to, calls, sb.as_ref().map(|s| s.dir.as_path()), out);
		if spec.out == StdoutMode::DevFull {
			device_full_errors(spec, *to, calls, &mut outcomes);
		}
	}
	let fields = format!(
		"{} {} {} {} {} {} {}",
		xhex(spec.argv0.as_bytes()),
		xhex(version.as_bytes()),
		tty,
		fd_field(&spec.out),
		argv,
		files,
		calls_field(&outcomes)
	);
	Prepared { spec: spec.clone(), plan, outcomes, fields }
}

pub fn finish_case(out: &mut Out, p: Prepared, observed: Observed) -> CaseResult {
	let nontrivial = matches!(p.plan, Plan::Calls(_, ref c) if !c.is_empty()) || matches!(p.plan, Plan::ArgvError | Plan::Exit0 | Plan::Guard);
	out.case("cli", &p.fields, &observed_answer(&observed), nontrivial);
	out.count(&format!("cli.exit.{}", observed.status.token()));
	out.count(&format!(
		"cli.stdout.{}",
		match p.spec.out {
			StdoutMode::Pipe => "pipe",
			StdoutMode::File => "file",
			StdoutMode::Pty => "pty",
			StdoutMode::DevFull => "devfull",
			StdoutMode::ClosingPipe(_) => "closing-pipe",
		}
	));
	CaseResult { spec: p.spec, plan: p.plan, outcomes: p.outcomes, observed, fields: p.fields }
}

/// Runs many cases: planning and library calls sequentially, the process runs in parallel.
pub fn run_cases(out: &mut Out, planner: &mut Planner, version: &str, specs: &[RunSpec]) -> Vec<CaseResult> {
	let mut results = vec![];
	for chunk in specs.chunks(512) {
		let prepared: Vec<Prepared> = chunk.iter().map(|s| prepare_case(out, planner, version, s)).collect();
		let observed = par_map(chunk, run_real_or_die);
		for (p, o) in prepared.into_iter().zip(observed) {
			results.push(finish_case(out, p, o));
		}
	}
	results
}

// ---------------------------------------------------------------- small engines

pub const EXT_PROBE_A: &[u8] = b"a = 1\n";
pub const EXT_PROBE_B: &[u8] = b"{\"a\": 1}\n";

fn lib_result(input: &[u8], slice: bool, from: Option<Fmt>, to: Fmt) -> (bool, Vec<u8>) {
	let o = crate::xtapi::translate(input, &if slice { crate::xtapi::Supply::Slice } else { crate::xtapi::Supply::Reader(vec![]) }, from, to);
	(o.ok(), o.output)
}

/// Which source format did the binary use?  Two probe contents are translated
/// to JSON; the pair of results is different for each of `-f` absent
/// (detection), json, msgpack, toml, yaml, as computed with the library.
pub fn classify_from(results: [(bool, Vec<u8>); 2], slice: bool) -> String {
	let mut matches = vec![];
	for cand in [None, Some(Fmt::Json), Some(Fmt::Msgpack), Some(Fmt::Toml), Some(Fmt::Yaml)] {
		let a = lib_result(EXT_PROBE_A, slice, cand, Fmt::Json);
		let b = lib_result(EXT_PROBE_B, slice, cand, Fmt::Json);
		let same = |x: &(bool, Vec<u8>), y: &(bool, Vec<u8>)| x.0 == y.0 && (!x.0 || x.1 == y.1);
		if same(&a, &results[0]) && same(&b, &results[1]) {
			matches.push(cand.map_or("none", Fmt::name));
		}
	}
	if matches.len() == 1 {
		matches[0].to_string()
	} else {
		format!("unclassified:{}", matches.join("+"))
	}
}

fn probe(args: &[String], files: Vec<FileSpec>, stdin: &[u8], debug_bin: bool) -> (bool, Vec<u8>, Observed) {
	let spec = RunSpec { debug_bin, argv0: "xt".into(), args: args.to_vec(), stdin: stdin.to_vec(), files, out: StdoutMode::Pipe };
	let o = run_real_or_die(&spec);
	(o.status == Status::Exit(0), o.stdout.clone(), o)
}

/// `ext`: the format the binary derives from a file name.
pub fn ext_answer(name: &str, debug_bin: bool) -> String {
	let args = vec!["--".to_string(), name.to_string()];
	let a = probe(&args, vec![file(name, Kind::Regular(EXT_PROBE_A.to_vec()))], b"", debug_bin);
	let b = probe(&args, vec![file(name, Kind::Regular(EXT_PROBE_B.to_vec()))], b"", debug_bin);
	classify_from([(a.0, a.1), (b.0, b.1)], true)
}

/// `stdinpath`: does the binary read standard input for this operand?
pub fn stdinpath_answer(name: &str, debug_bin: bool) -> String {
	let args = vec!["-tj".to_string(), "--".to_string(), name.to_string()];
	let (ok, outp, o) = probe(&args, vec![], b"[\"from-stdin\"]", debug_bin);
	if ok && outp == b"[\"from-stdin\"]\n" {
		"stdin".to_string()
	} else if o.status == Status::Exit(1) && o.stderr.starts_with(format!("xt error in {name}: ").as_bytes()) {
		"file".to_string()
	} else {
		format!("unclassified:{}", observed_answer(&o))
	}
}

/// `fmtname`: what `-t <name>` selects, observed from how `[1]` is written.
pub fn fmtname_answer(name: &str, debug_bin: bool) -> String {
	let args = vec!["-fj".to_string(), "-t".to_string(), name.to_string()];
	let (_, outp, o) = probe(&args, vec![], b"{\"k\":[1]}", debug_bin);
	match o.status {
		Status::Exit(2) if outp.is_empty() && o.stderr.starts_with(b"xt error: cannot parse argument ") => "invalid".to_string(),
		Status::Exit(0) => {
			for f in crate::xtapi::ALL_FMTS {
				let want = lib_result(b"{\"k\":[1]}", false, Some(Fmt::Json), f);
				if want.0 && want.1 == outp {
					return f.name().to_string();
				}
			}
			format!("unclassified:{}", observed_answer(&o))
		}
		_ => format!("unclassified:{}", observed_answer(&o)),
	}
}

struct MockInner(&'static str);

impl MockInner {
	fn result<T>(&self, ok: T) -> io::Result<T> {
		match self.0 {
			"ok" => Ok(ok),
			"epipe" => Err(io::Error::from_raw_os_error(libc::EPIPE)),
			"other-eagain" => Err(io::Error::from_raw_os_error(libc::EAGAIN)),
			"other-eintr" => Err(io::Error::from_raw_os_error(libc::EINTR)),
			"other-eio" => Err(io::Error::from_raw_os_error(libc::EIO)),
			"other-etimedout" => Err(io::Error::from_raw_os_error(libc::ETIMEDOUT)),
			"other-writezero" => Err(io::Error::new(io::ErrorKind::WriteZero, "failed to write whole buffer")),
			_ => Err(io::Error::from_raw_os_error(libc::ENOSPC)),
		}
	}
}

impl Write for MockInner {
	fn write(&mut self, _: &[u8]) -> io::Result<usize> {
		self.result(1)
	}
	fn write_vectored(&mut self, _: &[IoSlice<'_>]) -> io::Result<usize> {
		self.result(1)
	}
	fn flush(&mut self) -> io::Result<()> {
		self.result(())
	}
	fn write_all(&mut self, _: &[u8]) -> io::Result<()> {
		self.result(())
	}
	fn write_fmt(&mut self, _: fmt::Arguments<'_>) -> io::Result<()> {
		self.result(())
	}
}

pub const PC_METHODS: [&str; 5] = ["write", "flush", "write_all", "write_fmt", "write_vectored"];
pub const PC_INNER: [&str; 3] = ["ok", "epipe", "other"];

/// Calls one method of the real `pipecheck::Writer` (src/pipecheck.rs compiled
/// into this harness) over an inner writer with a fixed result, in a forked child.
pub fn pipecheck_answer(method: &'static str, inner: &'static str) -> String {
	// SAFETY: fork in a process whose other threads (if any) are idle; the
	// child only runs the wrapper and `_exit`s.
	let pid = unsafe { libc::fork() };
	if pid < 0 {
		return "fork-failed".to_string();
	}
	if pid == 0 {
		let mut w = pipecheck::Writer::new(MockInner(inner));
		let r: io::Result<()> = match method {
			"write" => w.write(b"x").map(|_| ()),
			"flush" => w.flush(),
			"write_all" => w.write_all(b"x"),
			"write_fmt" => w.write_fmt(format_args!("{}", 1)),
			_ => w.write_vectored(&[IoSlice::new(b"x")]).map(|_| ()),
		};
		let code = match r {
			Ok(()) => 10,
			Err(e) if e.kind() == io::ErrorKind::BrokenPipe => 11,
			Err(_) => 12,
		};
		// SAFETY: terminating the forked child without running destructors.
		unsafe { libc::_exit(code) };
	}
	let mut status: libc::c_int = 0;
	// SAFETY: waiting for the child forked above.
	unsafe { libc::waitpid(pid, &mut status, 0) };
	if libc::WIFSIGNALED(status) {
		if libc::WTERMSIG(status) == libc::SIGPIPE {
			"killed".to_string()
		} else {
			format!("signal{}", libc::WTERMSIG(status))
		}
	} else {
		match libc::WEXITSTATUS(status) {
			10 => "returned:ok".to_string(),
			11 => "returned:epipe".to_string(),
			12 => "returned:other".to_string(),
			n => format!("exit{n}"),
		}
	}
}

/// The real lexopt crate driven the way an application drives it.
pub fn lexopt_answer(value_opts: &str, argv: &[String]) -> String {
	let mut toks: Vec<String> = vec![];
	let mut p = lexopt::Parser::from_args(argv.iter().map(|s| s.as_str()));
	let xs = |s: &str| xhex(s.as_bytes());
	loop {
		let arg = match p.next() {
			Ok(Some(a)) => a,
			Ok(None) => {
				toks.push("end".into());
				break;
			}
			Err(e) => {
				toks.push(format!("err:{}", xs(&e.to_string())));
				break;
			}
		};
		match arg {
			lexopt::Arg::Short(c) => {
				toks.push(format!("S:{}", xs(&c.to_string())));
				if value_opts.contains(c) {
					match p.value() {
						Ok(v) => toks.push(format!("v:{}", xs(&v.to_string_lossy()))),
						Err(e) => {
							toks.push(format!("err:{}", xs(&e.to_string())));
							break;
						}
					}
				}
			}
			lexopt::Arg::Long(n) => toks.push(format!("L:{}", xs(n))),
			lexopt::Arg::Value(v) => toks.push(format!("V:{}", xs(&v.to_string_lossy()))),
		}
	}
	toks.join(" ")
}

// ---------------------------------------------------------------- generators shared by the properties

pub const NAMES: [&str; 8] = ["j", "json", "m", "msgpack", "t", "toml", "y", "yaml"];

/// The small tables: every format name and near miss, every extension
/// spelling in every letter case, stdin spellings, the wrapper, lexopt.
pub fn small_tables_c13(out: &mut Out, _rng: &mut Rng, _thorough: bool) {
	// fmtname
	let mut names: Vec<String> = NAMES.iter().map(|s| s.to_string()).collect();
	for n in NAMES {
		names.push(n.to_uppercase());
		names.push(format!("{n}x"));
		names.push(format!(" {n}"));
		names.push(format!("{n} "));
		names.push(format!("{n}\n"));
		if n.len() > 1 {
			names.push(n[..n.len() - 1].to_string());
			let mut c = n.to_string();
			c.replace_range(0..1, &n[0..1].to_uppercase());
			names.push(c);
		}
	}
	for n in ["", "yml", "msg", "messagepack", "JSON5", "js", "=json", "-", "--", "a\"b", "tab\there", "é", "jsön", "\u{1}", "back\\slash", "quote'single"] {
		names.push(n.to_string());
	}
	names.sort();
	names.dedup();
	let answers = par_map(&names, |n| fmtname_answer(n, false));
	for (n, a) in names.iter().zip(answers) {
		out.case("fmtname", &xhex(n.as_bytes()), &a, a != "invalid");
	}
	out.count("exhaustive.fmtname.table");
}

/// Every extension spelling in every letter case and the shapes around them; stdin spellings.
pub fn small_tables_c14(out: &mut Out, _rng: &mut Rng, thorough: bool) {
	// ext: every spelling in every letter case + shapes around them
	let mut exts: Vec<String> = vec![];
	for e in ["json", "msgpack", "toml", "yaml", "yml"] {
		let n = e.len();
		for mask in 0..(1u32 << n) {
			let s: String = e.chars().enumerate().map(|(i, c)| if mask >> i & 1 == 1 { c.to_ascii_uppercase() } else { c }).collect();
			exts.push(format!("f.{s}"));
		}
	}
	out.count("exhaustive.ext.all_letter_cases");
	for e in ["json", "msgpack", "toml", "yaml", "yml"] {
		for shape in [
			"{e}", ".{e}", "..{e}", "a.b.{e}", "a.{e}.", "a.{e}.bak", "a.{e}x", "a.x{e}", "a{e}", "d.{e}/plain", "d.toml/f.{e}", "a.{e}~", "a. {e}", "a.{e} ", "-.{e}",
			"./f.{e}", "d/../f.{e}", "f.yaml.{e}", "f.{e}.json", ".hidden.{e}", "a..{e}",
		] {
			exts.push(shape.replace("{e}", e));
		}
	}
	for n in ["plain", "a.", "a.jsn", "a.yam", "a.msgpac", "a.tml", "a.JSON5", "a.json5", "a.yaml2", "a.jso\u{144}", "a.ȷson", "a.ｊson", "a.txt", "a.b.c", ".json.d/x", "a.y", "a.j", "a.m", "a.t"] {
		exts.push(n.to_string());
	}
	exts.sort();
	exts.dedup();
	let answers = par_map(&exts, |n| ext_answer(n, false));
	for (n, a) in exts.iter().zip(answers) {
		out.case("ext", &xhex(n.as_bytes()), &a, a != "none");
	}
	if thorough {
		let answers = par_map(&exts, |n| ext_answer(n, true));
		for (n, a) in exts.iter().zip(answers) {
			out.case("ext", &xhex(n.as_bytes()), &a, a != "none");
		}
	}

	// stdinpath
	let stdins = ["-", "-/", "-/.", "-//", "-/./", "./-", "-/..", "/-", "a/-", "--", "-.", "- ", "-/-", "-/x"];
	let list: Vec<String> = stdins.iter().map(|s| s.to_string()).collect();
	let answers = par_map(&list, |n| stdinpath_answer(n, false));
	for (n, a) in list.iter().zip(answers) {
		out.case("stdinpath", &xhex(n.as_bytes()), &a, a == "stdin");
	}

}

/// The real wrapper: 5 methods x 3 inner results.
pub fn pipecheck_table(out: &mut Out) {
	for m in PC_METHODS {
		for i in PC_INNER {
			let a = pipecheck_answer(m, i);
			out.case("pipecheck", &format!("{m} {i}"), &a, true);
		}
	}
	// Every other error kind must pass through unchanged too (the model knows
	// them all as `other`): a full non-blocking pipe (EAGAIN), an interrupted
	// call, an I/O error, a timeout, a zero-length write.
	for m in PC_METHODS {
		for i in ["other-eagain", "other-eintr", "other-eio", "other-etimedout", "other-writezero"] {
			let a = pipecheck_answer(m, i);
			out.case("pipecheck", &format!("{m} other"), &a, true);
		}
	}
	out.count("exhaustive.pipecheck.methods_x_results");
}

pub fn lexopt_cases(out: &mut Out, rng: &mut Rng, thorough: bool) {
	let vocab = [
		"-f", "-t", "-tj", "-t=j", "-ft", "-f=", "-x", "-xy", "-x=1", "-xf=1", "-=", "-=x", "--", "-", "--long", "--long=v", "--long=", "--=", "--=v", "---", "a", "", "a=b", "-é", "-ét", "-té", "--é=ü",
		"-fx=1", "-xyf", "-hV",
	];
	let mut argvs: Vec<Vec<String>> = vec![vec![]];
	for a in vocab {
		argvs.push(vec![a.to_string()]);
		for b in vocab {
			argvs.push(vec![a.to_string(), b.to_string()]);
		}
	}
	let n3 = if thorough { 20000 } else { 3000 };
	for _ in 0..n3 {
		let len = rng.range(3, 5) as usize;
		argvs.push((0..len).map(|_| rng.pick(&vocab).to_string()).collect());
	}
	for argv in &argvs {
		for vo in ["ft", "", "x"] {
			let a = lexopt_answer(vo, argv);
			out.case("lexopt", &format!("{} {}", xhex(vo.as_bytes()), argv_field(argv)), &a, !argv.is_empty());
		}
	}
	out.count("exhaustive.lexopt.argv_len_le_2");
}

// ---------------------------------------------------------------- an oracle that does not use the model

/// One operand of a constructed command line.
#[derive(Clone, Debug)]
pub struct Operand {
	/// As written in argv (`-` = standard input).
	pub arg: String,
	pub kind: Kind,
	/// The source format the CLI must resolve without `-f`, by construction of the name.
	pub ext_format: Option<Fmt>,
}

impl Operand {
	pub fn stdin() -> Operand {
		Operand { arg: "-".into(), kind: Kind::Missing, ext_format: None }
	}
	pub fn is_stdin(&self) -> bool {
		self.arg == "-"
	}
}

/// The last extension of a plain relative path, lower-cased, looked up in the five spellings.
pub fn format_of_name(name: &str) -> Option<Fmt> {
	let last = name.trim_end_matches('/').rsplit('/').next().unwrap_or("");
	let dot = last.rfind('.')?;
	if dot == 0 {
		return None;
	}
	match last[dot + 1..].to_ascii_lowercase().as_str() {
		"json" => Some(Fmt::Json),
		"msgpack" => Some(Fmt::Msgpack),
		"toml" => Some(Fmt::Toml),
		"yaml" | "yml" => Some(Fmt::Yaml),
		_ => None,
	}
}

pub fn regular(name: &str, data: Vec<u8>) -> Operand {
	Operand { arg: name.to_string(), kind: Kind::Regular(data), ext_format: format_of_name(name) }
}

pub fn fifo(name: &str, data: Vec<u8>) -> Operand {
	Operand { arg: name.to_string(), kind: Kind::Fifo(data), ext_format: format_of_name(name) }
}

/// What the property says standard output must hold, computed with the
/// library alone: the outputs of the inputs before the first failing one, and
/// for the failing one its position, whether it belongs to an input (message
/// must name it) and what the library wrote before failing.
pub struct Expected {
	pub complete: Vec<Vec<u8>>,
	pub failure: Option<Failure>,
}

pub struct Failure {
	pub position: usize,
	pub partial: Vec<u8>,
	/// `Some(display name)` when stderr must start with `xt error in <name>: `.
	pub names: Option<String>,
	pub message: String,
}

impl Expected {
	pub fn all_complete(&self) -> Vec<u8> {
		self.complete.concat()
	}
}

pub fn expected(ops: &[Operand], stdin: &[u8], cli_from: Option<Fmt>, to: Fmt) -> Expected {
	let mut sink: Vec<u8> = vec![];
	let mut complete = vec![];
	let mut failure = None;
	let mut stdin_used = false;
	let mut ends: Vec<usize> = vec![];
	{
		let shared = std::rc::Rc::new(std::cell::RefCell::new(Vec::<u8>::new()));
		struct W(std::rc::Rc<std::cell::RefCell<Vec<u8>>>);
		impl Write for W {
			fn write(&mut self, b: &[u8]) -> io::Result<usize> {
				self.0.borrow_mut().extend_from_slice(b);
				Ok(b.len())
			}
			fn flush(&mut self) -> io::Result<()> {
				Ok(())
			}
		}
		let mut w = W(shared.clone());
		let mut t = xt::Translator::new(&mut w, to.xt());
		for (i, op) in ops.iter().enumerate() {
			let display = if op.is_stdin() { "standard input".to_string() } else { op.arg.clone() };
			let from = cli_from.or(op.ext_format).map(Fmt::xt);
			let r: Result<(), String> = if op.is_stdin() {
				if stdin_used {
					failure = Some(Failure { position: i, partial: vec![], names: None, message: "cannot read from standard input more than once".into() });
					break;
				}
				stdin_used = true;
				crate::util::catch(|| t.translate_reader(stdin, from)).map_err(|p| format!("PANIC: {p}")).and_then(|r| r.map_err(|e| e.to_string()))
			} else {
				match &op.kind {
					Kind::Regular(d) => crate::util::catch(|| t.translate_slice(d, from)).map_err(|p| format!("PANIC: {p}")).and_then(|r| r.map_err(|e| e.to_string())),
					Kind::Fifo(d) => crate::util::catch(|| t.translate_reader(&d[..], from)).map_err(|p| format!("PANIC: {p}")).and_then(|r| r.map_err(|e| e.to_string())),
					Kind::Missing => Err("No such file or directory (os error 2)".into()),
					Kind::Dir => Err("Is a directory (os error 21)".into()),
					Kind::Unreadable => Err("Permission denied (os error 13)".into()),
					Kind::NotDir => Err("Not a directory (os error 20)".into()),
				}
			};
			let start = ends.last().copied().unwrap_or(0);
			let now = shared.borrow().len();
			match r {
				Ok(()) => {
					ends.push(now);
				}
				Err(m) => {
					failure = Some(Failure { position: i, partial: shared.borrow()[start..now].to_vec(), names: Some(display), message: m });
					break;
				}
			}
		}
		drop(t);
		sink.extend_from_slice(&shared.borrow());
	}
	let mut start = 0;
	for e in ends {
		complete.push(sink[start..e].to_vec());
		start = e;
	}
	Expected { complete, failure }
}

/// argv and file table for a list of operands.
pub fn spec_of(opts: &[String], ops: &[Operand], stdin: &[u8], out_mode: StdoutMode, debug_bin: bool) -> RunSpec {
	let mut args: Vec<String> = opts.to_vec();
	let mut files = vec![];
	for op in ops {
		args.push(op.arg.clone());
		if !op.is_stdin() && !files.iter().any(|f: &FileSpec| f.path == op.arg) {
			files.push(FileSpec { path: op.arg.clone(), kind: op.kind.clone() });
		}
	}
	RunSpec { debug_bin, argv0: "xt".into(), args, stdin: stdin.to_vec(), files, out: out_mode }
}

// ---------------------------------------------------------------- documents

/// A 400-character string: most of the bytes of a record travel in one
/// write call, which keeps the number of write events per byte low.
fn filler() -> String {
	"abcdefghijklmnopqrstuvwxyz0123456789-ABCD".repeat(10)[..400].to_string()
}

fn json_record() -> String {
	format!(r#"{{"id":7,"name":"record-name","blob":"{}","tags":["a","bb"],"ok":true}}"#, filler())
}

/// `n` identical records (about 460 bytes each) as one JSON array.
pub fn json_array(n: usize) -> Vec<u8> {
	let rec = json_record();
	let mut s = String::from("[");
	for i in 0..n {
		if i > 0 {
			s.push(',');
		}
		s.push_str(&rec);
	}
	s.push(']');
	s.into_bytes()
}

/// `n` identical JSON documents, one per line.
pub fn json_stream(n: usize) -> Vec<u8> {
	let rec = json_record();
	let mut s = String::new();
	for _ in 0..n {
		s.push_str(&rec);
		s.push('\n');
	}
	s.into_bytes()
}

/// A JSON object holding `n` records (valid as a TOML root).
pub fn json_object(n: usize) -> Vec<u8> {
	let rec = format!(r#"{{"id":7,"name":"record-name","blob":"{}","ok":true}}"#, filler());
	let mut s = String::from("{\"rows\":[");
	for i in 0..n {
		if i > 0 {
			s.push(',');
		}
		s.push_str(&rec);
	}
	s.push_str("]}");
	s.into_bytes()
}

pub fn yaml_seq(n: usize) -> Vec<u8> {
	let f = filler();
	let mut s = String::new();
	for _ in 0..n {
		s.push_str(&format!("- id: 7\n  name: record-name\n  blob: {f}\n  tags: [a, bb]\n"));
	}
	s.into_bytes()
}

pub fn toml_rows(n: usize) -> Vec<u8> {
	let f = filler();
	let mut s = String::new();
	for _ in 0..n {
		s.push_str(&format!("[[rows]]\nid = 7\nname = \"record-name\"\nblob = \"{f}\"\n"));
	}
	s.into_bytes()
}

/// The same records as MessagePack (translated by the library from JSON).
pub fn msgpack_of(json: &[u8]) -> Vec<u8> {
	let mut v = vec![];
	let _ = xt::translate_slice(json, Some(xt::Format::Json), xt::Format::Msgpack, &mut v);
	v
}

pub fn run(_out: &mut Out, _rng: &mut Rng, _thorough: bool) {}
