//! Engine `chunker`: the YAML document chunker (`src/yaml/chunker.rs`) and the
//! read guards of `src/yaml/chunker/parser.rs`.
//!
//! For every generated stream the REAL libyaml event trace is taken with
//! `xt::verif::yaml_events`, exactly that trace and the stream are given to the
//! Lean model (`chunker <events> <stream-hex>`), and the implementation's
//! answer is what `xt::verif::yaml_chunker` returns for the same stream. The
//! hypotheses the theorems make about libyaml (`EventsMonotone`, `ChunksUtf8`)
//! are evaluated on every real trace.

use std::cell::Cell;
use std::io::{self, Read};
use std::rc::Rc;

use crate::gen::{gen_doc, spell_checked, GenOpts, Spelling};
use crate::out::Out;
use crate::util::{catch, hex, Rng, SchedReader};
use crate::xtapi::Fmt;

const KIND_TOKS: [&str; 11] = ["NO", "SS", "SE", "DS", "DE", "AL", "SC", "QS", "QE", "MS", "ME"];
const STREAM_END: u32 = 2;
const DOC_START: u32 = 3;
const DOC_END: u32 = 4;

pub type Trace = (Vec<(u32, u64, u64)>, bool);

/// The real parser's event trace for `bytes` read through `reader`.
pub fn real_trace(reader: Box<dyn Read + '_>) -> (Trace, Option<String>) {
	let (events, err) = xt::verif::yaml_events(reader);
	let text = err.as_ref().map(|e| e.to_string());
	((events, err.is_some()), text)
}

pub fn trace_field(trace: &Trace, read_offs: Option<&[u64]>) -> String {
	let mut toks: Vec<String> = trace
		.0
		.iter()
		.enumerate()
		.map(|(i, (k, a, b))| {
			let kind = KIND_TOKS.get(*k as usize).copied().unwrap_or("NO");
			match read_offs {
				Some(r) => format!("{kind}:{a}:{b}:{}", r[i]),
				None => format!("{kind}:{a}:{b}"),
			}
		})
		.collect();
	if trace.1 {
		toks.push("ERR".to_string());
	}
	if toks.is_empty() {
		"-".to_string()
	} else {
		toks.join(",")
	}
}

/// What iterating `Chunker` gives, in the driver's answer format. Iteration
/// stops at the first `Err` item, as every use in xt does.
pub fn real_chunks(reader: Box<dyn Read + '_>) -> String {
	let r = catch(move || {
		let mut toks = vec![];
		for item in xt::verif::yaml_chunker(reader) {
			match item {
				Ok((text, is_collection)) => {
					toks.push(format!("doc:{}:{}", hex(text.as_bytes()), if is_collection { "c" } else { "n" }));
				}
				Err(err) => {
					toks.push(if err.kind() == io::ErrorKind::InvalidData { "err".to_string() } else { format!("err-kind:{:?}", err.kind()) });
					return toks;
				}
			}
		}
		toks.push("end".to_string());
		toks
	});
	match r {
		Ok(toks) => toks.join(" "),
		Err(msg) => format!("panic:{}", panic_site(&msg)),
	}
}

fn panic_site(msg: &str) -> String {
	if msg.starts_with("range end index") {
		"readSlice".to_string()
	} else if msg.contains("FromUtf8Error") || msg.contains("Utf8Error") {
		"fromUtf8".to_string()
	} else if msg.contains("subtract with overflow") {
		"sub".to_string()
	} else {
		format!("other:{}", msg.replace(' ', "_"))
	}
}

/// `EventsMonotone` and `ChunksUtf8` of Lemmas/Chunker.lean, evaluated on a
/// real trace. `Err(what)` names the first clause that fails.
pub fn check_hypotheses(trace: &Trace, stream: &[u8]) -> Result<(), String> {
	let n = stream.len() as u64;
	let mut cs = 0u64;
	let mut in_doc = false;
	for (i, &(k, a, b)) in trace.0.iter().enumerate() {
		match k {
			DOC_START => {
				if !(cs <= a && a <= n) {
					return Err(format!("EventsMonotone: event {i} DS start {a} not in [{cs}, {n}]"));
				}
				// `spaceStart`: the chunk keeps the spaces in front of the event,
				// not reaching behind the previous cut.
				let mut start = a;
				while start > cs && stream[start as usize - 1] == b' ' {
					start -= 1;
				}
				cs = start;
				in_doc = true;
			}
			DOC_END => {
				if !in_doc {
					return Err(format!("EventsMonotone: event {i} DE outside a document"));
				}
				if !(cs <= b && b <= n) {
					return Err(format!("EventsMonotone: event {i} DE end {b} not in [{cs}, {n}]"));
				}
				if std::str::from_utf8(&stream[cs as usize..b as usize]).is_err() {
					return Err(format!("ChunksUtf8: bytes [{cs}, {b}) are not UTF-8"));
				}
				cs = b;
				in_doc = false;
			}
			STREAM_END => return Ok(()),
			_ => {}
		}
	}
	Ok(())
}

/// Stronger than the theorems need: every event's offsets are ordered and no
/// event starts before the previous one ended. Reported as a counter only.
fn all_offsets_monotone(trace: &Trace) -> bool {
	let mut prev = 0u64;
	for &(_, a, b) in &trace.0 {
		if a > b || a < prev {
			return false;
		}
		prev = a;
	}
	true
}

// --------------------------------------------------------------------------- stream generation

const HAND_DOCS: &[&str] = &[
	"a: 1\n",
	"- x\n- y\n",
	"plain scalar\n",
	"\"quoted \\n \u{e9}\"\n",
	"'single'\n",
	"|\n  block\n  text\n",
	">-\n  folded\n  text\n",
	"a: &x 1\nb: *x\n",
	"- &s [\u{e9}, \u{65e5}\u{672c}]\n- *s\n",
	"&top {k: v}\n",
	"*y\n",
	"",
	"\n",
	"# only a comment\n",
	"\u{65e5}\u{672c}\u{8a9e}: [\u{e9}, \u{df}, \"\u{1f600}\"]\n",
	"\u{1f600}\n",
	"{a: [1, 2, {b: c}], d: e}\n",
	"[]\n",
	"{}\n",
	"~\n",
	"key:\n  - nested\n  - more: deep\n",
	"? complex\n: value\n",
	"!!str tagged\n",
	"!local {a: b}\n",
	"a: 1 # trailing comment\n",
	"- - - x\n",
	"\"multi\n  line\"\n",
	"  a: 1\n  b: 2\n",
	" - 1\n - 2\n",
	"    deep:\n      - x\n",
	"   indented scalar\n",
	"  [flow, seq]\n",
	" \t tab after space\n",
];

const FIRST_INTRO: &[&str] = &["", "", " ", "   ", "\n  ", "# c\n ", "---\n", "--- # c\n", "%YAML 1.2\n---\n", "# leading comment\n", "%TAG !e! tag:e.com,2000:\n---\n", "\n\n", "--- "];
const SEPARATORS: &[&str] = &[
	"---\n",
	"---\n",
	"--- # c\n",
	"...\n---\n",
	"...\n# between\n---\n",
	"...\n%YAML 1.2\n---\n",
	"# c\n---\n",
	"--- ",
	"...\n...\n---\n",
	"---\n---\n",
	"---  ",
	"---\n  ",
	"--- # c\n ",
];
const MALFORMED: &[&str] = &["x\n...\n  y\n", "x\n...\ny\n", "a: [1, 2\n", "a: b: c\n", "\t- x\n", "{a: 1\n", "- \"unterminated\n", "a: *\n", "%BAD\n", "a: 1\n b: 2\n", "&a &b c\n", "\u{1}\n", "x: \u{0}\n", "[a, b]]\n"];

fn one_doc(rng: &mut Rng) -> String {
	match rng.below(10) {
		0..=4 => rng.pick(HAND_DOCS).to_string(),
		_ => {
			let opts = GenOpts::cdm().for_formats(&[Fmt::Yaml]);
			for _ in 0..4 {
				let v = gen_doc(rng, &opts);
				let sp = if rng.chance(1, 2) { Spelling::plain() } else { Spelling::random(rng) };
				// Self-checked with serde_yaml: the text is one document denoting `v`.
				if let Some(b) = spell_checked(Fmt::Yaml, &v, &sp) {
					if let Ok(t) = String::from_utf8(b) {
						return t;
					}
				}
			}
			"fallback: 1\n".to_string()
		}
	}
}

/// Puts `doc` after `lead` so that the result stays well-formed when `lead`
/// ends in spaces: on a fresh line the whole document is indented by that
/// many spaces; on the `---` line only a one-line flow / scalar document may
/// follow.
fn place(lead: &str, doc: &str) -> String {
	let k = lead.len() - lead.trim_end_matches(' ').len();
	if k == 0 {
		return format!("{lead}{doc}");
	}
	let head = &lead[..lead.len() - k];
	if head.is_empty() || head.ends_with('\n') {
		let pad = " ".repeat(k);
		let mut s = head.to_string();
		for line in doc.split_inclusive('\n') {
			s.push_str(&pad);
			s.push_str(line);
		}
		return s;
	}
	let one_line = doc.matches('\n').count() <= 1 && !doc.contains(": ") && !doc.starts_with("- ") && !doc.starts_with('?') && !doc.starts_with('|') && !doc.starts_with('>');
	if one_line {
		format!("{lead}{doc}")
	} else {
		format!("{}\n{doc}", head.trim_end())
	}
}

/// A document of exactly `len` bytes (a sequence of padded items, or one long
/// scalar), for `len >= 8`.
fn sized_doc(rng: &mut Rng, len: usize) -> String {
	let mut s = String::new();
	if rng.chance(1, 3) {
		s.push('"');
		while s.len() + 2 < len {
			s.push(if s.len() % 61 == 60 { ' ' } else { 'x' });
		}
		s.push('"');
		s.push('\n');
		return s;
	}
	while s.len() + 12 <= len {
		s.push_str(if rng.chance(1, 4) { "- \u{e9}tem\n" } else { "- item\n" });
	}
	// Fill the rest with one item of the exact remaining size.
	let rest = len - s.len();
	if rest >= 4 {
		s.push_str("- ");
		for _ in 0..rest - 3 {
			s.push('y');
		}
		s.push('\n');
	} else {
		for _ in 0..rest {
			s.push('\n');
		}
	}
	s
}

pub struct Stream {
	pub text: String,
	pub docs: usize,
	pub malformed: bool,
}

pub fn gen_stream(rng: &mut Rng, max_docs: u64, malformed: bool) -> Stream {
	let docs = match rng.below(8) {
		0 => 0,
		1 => 1,
		_ => rng.range(1, max_docs) as usize,
	};
	let bad_at = if malformed { rng.below(docs.max(1) as u64) as usize } else { usize::MAX };
	let mut text = String::new();
	for i in 0..docs {
		let lead = if i == 0 { *rng.pick(FIRST_INTRO) } else { *rng.pick(SEPARATORS) };
		if i == bad_at {
			text.push_str(lead);
			text.push_str(*rng.pick(MALFORMED));
		} else {
			let doc = if docs > 20 { rng.pick(HAND_DOCS).to_string() } else { one_doc(rng) };
			text.push_str(&place(lead, &doc));
		}
	}
	if docs == 0 {
		text.push_str(*rng.pick(&["", "\n", "# nothing\n", "---\n", "...\n", "%YAML 1.2\n---\n"]));
	} else if rng.chance(1, 4) {
		text.push_str(*rng.pick(&["...\n", "# end\n", "...\n# end\n", "---\n"]));
	}
	Stream { text, docs, malformed }
}

/// Streams whose document boundaries fall on / next to 8 KiB and 16 KiB.
fn straddling_stream(rng: &mut Rng, boundary: usize, delta: i64) -> String {
	let mut text = String::new();
	let first = one_doc(rng);
	text.push_str("---\n");
	text.push_str(&first);
	text.push_str("---\n");
	// The second document ends exactly at boundary + delta.
	let target = (boundary as i64 + delta) as usize;
	let len = target.saturating_sub(text.len()).max(8);
	text.push_str(&sized_doc(rng, len));
	text.push_str(*rng.pick(&["---\n", "...\n---\n", "--- # c\n"]));
	text.push_str(&one_doc(rng));
	let _ = place;
	if rng.chance(1, 2) {
		text.push_str("---\n");
		let len = rng.range(8, 9000) as usize;
		text.push_str(&sized_doc(rng, len));
	}
	text
}

fn caps(rng: &mut Rng) -> Vec<usize> {
	match rng.below(7) {
		0 => vec![],
		1 => vec![1],
		2 => vec![rng.range(2, 9) as usize],
		3 => vec![4096],
		4 => vec![8191, 1, 8193],
		5 => (0..rng.range(2, 6)).map(|_| rng.range(1, 64) as usize).collect(),
		_ => (0..rng.range(2, 5)).map(|_| rng.range(1, 20000) as usize).collect(),
	}
}

/// The tightest read offsets `EventsMonotone` allows: each event arrives when
/// exactly the bytes up to its largest offset so far have been read.
fn tight_read_offsets(trace: &Trace) -> Vec<u64> {
	let mut m = 0u64;
	trace
		.0
		.iter()
		.map(|&(_, a, b)| {
			m = m.max(a).max(b);
			m
		})
		.collect()
}

fn stream_case(out: &mut Out, rng: &mut Rng, bytes: &[u8], fail_at: Option<usize>, label: &str) {
	// One schedule for both runs: for a stream with a byte libyaml's reader
	// rejects, the trace depends on how far ahead the bytes were delivered.
	let sched_a = caps(rng);
	let sched_b = sched_a.clone();
	let ((events, err), err_text) = real_trace(Box::new(SchedReader::new(bytes, sched_a, true, fail_at)));
	let trace: Trace = (events, err);
	// With an injected read fault only the delivered prefix is a stream.
	let seen: &[u8] = match fail_at {
		Some(k) => &bytes[..k.min(bytes.len())],
		None => bytes,
	};
	out.eval("hyp.EventsMonotone+ChunksUtf8", &format!("{}{}", hex(bytes), fail_at.map_or(0, |k| k + 1)), !trace.0.is_empty());
	if let Err(what) = check_hypotheses(&trace, seen) {
		out.fail(
			"hypothesis_about_libyaml",
			"",
			format!("{what}; stream={} trace={} (the chunker theorems assume this of every libyaml trace)", hex(bytes), trace_field(&trace, None)),
		);
	}
	let kept_spaces = trace.0.iter().any(|&(k, a, _)| k == DOC_START && a > 0 && (a as usize) <= seen.len() && seen[a as usize - 1] == b' ');
	if kept_spaces {
		out.count("trace.document_start_preceded_by_spaces");
	}
	out.count(if all_offsets_monotone(&trace) { "trace.all_offsets_monotone" } else { "trace.some_inner_offset_goes_back(harmless)" });
	out.count(&format!("stream.{label}.{}", if trace.1 { "parser_error" } else { "complete" }));
	let answer = real_chunks(Box::new(SchedReader::new(bytes, sched_b, true, fail_at)));
	let ndocs = answer.matches("doc:").count();
	out.count(&format!("docs_returned.{}", match ndocs { 0 => "0", 1 => "1", 2..=5 => "2-5", 6..=50 => "6-50", _ => "51+" }));
	if ndocs > 0 && !trace.1 {
		out.count("stream.complete_with_documents");
	}
	let nontrivial = ndocs > 0 || trace.1;
	out.case("chunker", &format!("{} {}", trace_field(&trace, None), hex(seen)), &answer, nontrivial);
	// The same trace with the tightest read offsets: the answer may not depend
	// on how far the parser had read ahead.
	let tight = tight_read_offsets(&trace);
	out.case("chunker", &format!("{} {}", trace_field(&trace, Some(&tight)), hex(seen)), &answer, nontrivial);
	if let Some(t) = err_text {
		if fail_at.is_some() && !t.contains(crate::util::READ_FAULT_TEXT) && trace.1 {
			out.count("stream.fault_preempted_by_syntax_error");
		}
	}
}

// --------------------------------------------------------------------------- over-reporting readers

/// A reader that on its `nth` call reports `excess` more bytes than it wrote.
struct OverReport {
	data: Vec<u8>,
	pos: usize,
	nth: usize,
	excess: usize,
	cap: usize,
	calls: usize,
	/// `(buf.len(), honest n)` at the lying call.
	seen: Rc<Cell<Option<(usize, usize)>>>,
}

impl Read for OverReport {
	fn read(&mut self, buf: &mut [u8]) -> io::Result<usize> {
		let n = buf.len().min(self.cap).min(self.data.len() - self.pos);
		buf[..n].copy_from_slice(&self.data[self.pos..self.pos + n]);
		self.pos += n;
		self.calls += 1;
		if self.calls == self.nth {
			self.seen.set(Some((buf.len(), n)));
			return Ok(n.saturating_add(self.excess));
		}
		Ok(n)
	}
}

/// Which excesses to try, given the buffer size libyaml passes and the honest
/// count: around the guard's boundary, small, and huge.
#[derive(Clone, Copy, Debug)]
pub enum Excess {
	Abs(usize),
	/// reported = size + d
	ToSize(i64),
}

pub fn guards_case(out: &mut Out, data: &[u8], nth: usize, cap: usize, excess: Excess) {
	// Probe run: what buffer size and honest count does the nth call see?
	let probe = Rc::new(Cell::new(None));
	let _ = xt::verif::yaml_events(Box::new(OverReport { data: data.to_vec(), pos: 0, nth, excess: 0, cap, calls: 0, seen: probe.clone() }));
	let Some((size, n)) = probe.get() else {
		out.count("guards.nth_call_not_reached");
		return;
	};
	let excess = match excess {
		Excess::Abs(e) => e,
		Excess::ToSize(d) => {
			let want = size as i64 + d;
			if want < n as i64 {
				return;
			}
			(want - n as i64) as usize
		}
	};
	let reported = n.saturating_add(excess);
	// Parser over the raw reader: the read_handler guard.
	let seen = Rc::new(Cell::new(None));
	let (_, err) = xt::verif::yaml_events(Box::new(OverReport { data: data.to_vec(), pos: 0, nth, excess, cap, calls: 0, seen: seen.clone() }));
	let handler = match &err {
		Some(e) if e.to_string().contains("misbehaving reader") => "handler:misbehaving",
		_ => "handler:accept",
	};
	// Chunker (ChunkReader between the parser and the reader).
	let seen2 = Rc::new(Cell::new(None));
	let answer = real_chunks(Box::new(OverReport { data: data.to_vec(), pos: 0, nth, excess, cap, calls: 0, seen: seen2.clone() }));
	let chunker = if let Some(site) = answer.strip_prefix("panic:") { format!("chunker:panic:{site}") } else { "chunker:accept".to_string() };
	out.count(&format!("guards.{}", if reported > size { "over_buffer" } else if excess > 0 { "over_written_within_buffer" } else { "honest" }));
	out.case("guards", &format!("{size} {reported} {n}"), &format!("{handler} {chunker}"), excess > 0);
	// Implementation-level statement (C17/C04): an over-reporting reader ends
	// in the `misbehaving reader` error or in a clean (unwinding) panic at the
	// slice index — never anything else.
	out.eval("overreport_is_clean", &format!("{size} {reported} {n} {nth}"), excess > 0);
	if reported > size && (handler != "handler:misbehaving" || chunker != "chunker:panic:readSlice") {
		out.fail(
			"overreport_is_clean",
			"",
			format!("reader reporting {reported} for a {size}-byte buffer ({n} written) on call {nth}: parser gave {handler}, chunker gave {answer}"),
		);
	}
}

pub fn run(out: &mut Out, rng: &mut Rng, thorough: bool) {
	// 1. Fixed small streams: every intro x every hand document x every separator.
	for intro in FIRST_INTRO {
		for doc in HAND_DOCS {
			let text = place(intro, doc);
			stream_case(out, rng, text.as_bytes(), None, "fixed");
		}
	}
	for sep in SEPARATORS {
		for (i, doc) in HAND_DOCS.iter().enumerate() {
			let other = HAND_DOCS[(i * 7 + 3) % HAND_DOCS.len()];
			let text = format!("{other}{}", place(sep, doc));
			stream_case(out, rng, text.as_bytes(), None, "fixed");
		}
	}
	out.count("streams.every_intro_x_doc_and_every_separator_x_doc");

	// 2. Generated streams, 0..many documents.
	let n = if thorough { 6000 } else { 500 };
	for i in 0..n {
		let max_docs = if i % 50 == 49 { 300 } else { 8 };
		let s = gen_stream(rng, max_docs, false);
		out.count(&format!("gen.docs.{}", match s.docs { 0 => "0", 1 => "1", 2..=8 => "2-8", _ => "9+" }));
		stream_case(out, rng, s.text.as_bytes(), None, "generated");
	}

	// 3. Malformed streams (error mid-stream) and injected read faults.
	let n_bad = if thorough { 3000 } else { 300 };
	for i in 0..n_bad {
		let s = gen_stream(rng, 6, true);
		let _ = s.malformed;
		if i % 3 == 2 && !s.text.is_empty() {
			let k = rng.below(s.text.len() as u64 + 1) as usize;
			stream_case(out, rng, s.text.as_bytes(), Some(k), "read_fault");
		} else {
			stream_case(out, rng, s.text.as_bytes(), None, "malformed");
		}
	}
	// Random mutations of valid streams.
	for _ in 0..n_bad {
		let s = gen_stream(rng, 5, false);
		let m = crate::gen::mutate(s.text.as_bytes(), rng);
		stream_case(out, rng, &m, None, "mutated");
	}

	// 4. Documents ending on / next to the 8 KiB and 16 KiB boundaries.
	let deltas: &[i64] = if thorough { &[-4, -3, -2, -1, 0, 1, 2, 3, 4, 5] } else { &[-1, 0, 1, 4] };
	for &boundary in &[8192usize, 16384, 32768] {
		for &d in deltas {
			let text = straddling_stream(rng, boundary, d);
			stream_case(out, rng, text.as_bytes(), None, "straddling");
		}
	}

	// 5. Over-reporting readers.
	run_guards(out, rng, thorough);
}

/// The `guards` correspondence on its own (also used by C17): over-reporting
/// readers against `read_handler`'s guard and `ChunkReader::read`'s slice index.
pub fn run_guards(out: &mut Out, rng: &mut Rng, thorough: bool) {
	let data = b"---\nevil: true\n---\n- second\n- document\n";
	let mut big = String::new();
	for i in 0..3000 {
		big.push_str(&format!("- item {i}\n"));
	}
	let excesses = [
		Excess::Abs(0),
		Excess::Abs(1),
		Excess::Abs(7),
		Excess::ToSize(-1),
		Excess::ToSize(0),
		Excess::ToSize(1),
		Excess::ToSize(2),
		Excess::ToSize(4096),
		Excess::Abs(1 << 40),
		Excess::Abs(usize::MAX),
		Excess::Abs(usize::MAX / 2),
	];
	for &(input, caps) in &[(&data[..], &[usize::MAX, 1, 5][..]), (big.as_bytes(), &[usize::MAX, 4096, 100][..])] {
		for &cap in caps {
			for nth in 1..=3 {
				for &e in &excesses {
					guards_case(out, input, nth, cap, e);
				}
			}
		}
	}
	let n_guard = if thorough { 2000 } else { 200 };
	for _ in 0..n_guard {
		let s = gen_stream(rng, 4, false);
		let nth = rng.range(1, 3) as usize;
		let cap = *rng.pick(&[usize::MAX, 1, 3, 64]);
		let e = match rng.below(4) {
			0 => Excess::Abs(rng.range(1, 100) as usize),
			1 => Excess::ToSize(rng.range(0, 3) as i64 - 1),
			2 => Excess::ToSize(rng.range(1, 100000) as i64),
			_ => Excess::Abs(usize::MAX - rng.below(1000) as usize),
		};
		guards_case(out, s.text.as_bytes(), nth, cap, e);
	}
}
