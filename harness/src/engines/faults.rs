//! Engine `writeall`: `std::io::Write::write_all` over the harness's
//! `FaultWriter` (limit, short pieces) against the Lean model `Xt.Faults`.
//! This ties the model of the writers C12 quantifies over — and of the
//! `write_all` loop every serializer goes through — to the real std code.

use std::io::Write;

use crate::out::Out;
use crate::util::{hex, nats, FaultWriter, Rng, WRITE_FAULT_TEXT};

pub fn run(out: &mut Out, rng: &mut Rng, thorough: bool) {
	let n = if thorough { 20000 } else { 3000 };
	for i in 0..n {
		let n_calls = rng.below(6) as usize;
		let calls: Vec<Vec<u8>> = (0..n_calls)
			.map(|_| {
				let len = match rng.below(5) {
					0 => 0,
					1 => 1,
					_ => rng.range(1, 12) as usize,
				};
				(0..len).map(|_| rng.below(256) as u8).collect()
			})
			.collect();
		let total: usize = calls.iter().map(Vec::len).sum();
		let limit = if i % 4 == 0 { None } else { Some(rng.below(total as u64 + 3) as usize) };
		let pieces: Vec<usize> = match rng.below(4) {
			0 => vec![],
			1 => vec![1; total + 2],
			_ => (0..total + 2).map(|_| rng.below(5) as usize).collect(),
		};
		// The harness writer cycles its pieces; give it as many as it can need
		// so that cycling never happens (the model does not cycle).
		let mut w = FaultWriter::new(limit, pieces.clone());
		let mut verdict = "ok".to_string();
		for c in &calls {
			if let Err(e) = w.write_all(c) {
				verdict = if e.to_string().contains(WRITE_FAULT_TEXT) {
					"err:fault".to_string()
				} else if e.kind() == std::io::ErrorKind::WriteZero {
					"err:writezero".to_string()
				} else {
					format!("err:{e}")
				};
				break;
			}
		}
		let fields = format!(
			"{} {} {}",
			limit.map(|l| l.to_string()).unwrap_or_else(|| "-".to_string()),
			nats(&pieces),
			if calls.is_empty() { "-".to_string() } else { calls.iter().map(|c| hex(c)).collect::<Vec<_>>().join("/") }
		);
		out.case("writeall", &fields, &format!("{verdict} {}", hex(&w.accepted)), total > 0);
	}
}
