//! Engine `encoding`: drives `Encoding::detect` and `Encoder` through the
//! verif hooks; produces correspondence cases for the Lean model and checks
//! the implementation-level statement of C07 at hook level against Rust's own
//! UTF-16/UTF-32 decoding as an independent oracle.

use std::io::{BufReader, Read};

use crate::out::Out;
use crate::util::{hex, nats, Rng, SchedReader};

pub const ENC_NAMES: [&str; 5] = ["utf8", "utf16be", "utf32be", "utf16le", "utf32le"];

pub fn encode_units16(units: &[u16], big: bool) -> Vec<u8> {
	let mut v = vec![];
	for u in units {
		v.extend_from_slice(&if big { u.to_be_bytes() } else { u.to_le_bytes() });
	}
	v
}

pub fn encode_units32(units: &[u32], big: bool) -> Vec<u8> {
	let mut v = vec![];
	for u in units {
		v.extend_from_slice(&if big { u.to_be_bytes() } else { u.to_le_bytes() });
	}
	v
}

/// Encodes a text in encoding `enc` (1..=4), optionally with a BOM.
pub fn encode_text(text: &str, enc: u8, bom: bool) -> Vec<u8> {
	let mut s = String::new();
	if bom {
		s.push('\u{FEFF}');
	}
	s.push_str(text);
	match enc {
		0 => text.as_bytes().to_vec(),
		1 | 3 => encode_units16(&s.encode_utf16().collect::<Vec<_>>(), enc == 1),
		_ => encode_units32(&s.chars().map(|c| c as u32).collect::<Vec<_>>(), enc == 2),
	}
}

fn err_token(err: &std::io::Error) -> String {
	let msg = err.to_string();
	// "invalid or unexpected UTF-16 code unit 0xdc00 at byte 4"
	if let Some(rest) = msg.strip_prefix("invalid or unexpected UTF-") {
		let parts: Vec<&str> = rest.split(' ').collect();
		if parts.len() == 7 {
			let unit = parts[3].trim_start_matches("0x");
			return format!("e:unit:{}:{}:{}", parts[0], unit, parts[6]);
		}
	}
	if err.kind() == std::io::ErrorKind::UnexpectedEof {
		return "e:eof".to_string();
	}
	format!("e:other:{}", msg.replace(' ', "_"))
}

/// Runs `Encoder::new(&bytes[..], enc)` with one `read` per schedule entry.
fn run_reads(bytes: &[u8], enc: u8, ns: &[usize]) -> Vec<String> {
	let mut r = xt::verif::yaml_encoder_new(Box::new(bytes), enc);
	let mut toks = vec![];
	for &n in ns {
		let mut buf = vec![0xAAu8; n];
		match r.read(&mut buf) {
			Ok(len) => toks.push(format!("r:{}", hex(&buf[..len]))),
			Err(err) => toks.push(err_token(&err)),
		}
	}
	toks
}

/// Reads a reader to its end: scheduled sizes first, then 64-byte reads.
fn drain(mut r: Box<dyn Read + '_>, ns: &[usize]) -> (Vec<u8>, Option<String>) {
	let mut out = vec![];
	for &n in ns {
		let mut buf = vec![0xAAu8; n];
		match r.read(&mut buf) {
			Ok(len) => out.extend_from_slice(&buf[..len]),
			Err(err) => return (out, Some(err_token(&err))),
		}
	}
	loop {
		let mut buf = [0xAAu8; 64];
		match r.read(&mut buf) {
			Ok(0) => return (out, None),
			Ok(len) => out.extend_from_slice(&buf[..len]),
			Err(err) => return (out, Some(err_token(&err))),
		}
	}
}

/// Independent oracle: the well-formed prefix of `bytes` in encoding `enc`
/// (as text), and whether the input is ill-formed.
pub fn oracle_decode(bytes: &[u8], enc: u8) -> (String, bool) {
	let mut text = String::new();
	match enc {
		1 | 3 => {
			let units: Vec<u16> = bytes
				.chunks_exact(2)
				.map(|c| if enc == 1 { u16::from_be_bytes([c[0], c[1]]) } else { u16::from_le_bytes([c[0], c[1]]) })
				.collect();
			for r in char::decode_utf16(units.iter().copied()) {
				match r {
					Ok(c) => text.push(c),
					Err(_) => return (text, true),
				}
			}
			(text, bytes.len() % 2 != 0)
		}
		_ => {
			for c in bytes.chunks_exact(4) {
				let u = if enc == 2 {
					u32::from_be_bytes([c[0], c[1], c[2], c[3]])
				} else {
					u32::from_le_bytes([c[0], c[1], c[2], c[3]])
				};
				match char::from_u32(u) {
					Some(c) => text.push(c),
					None => return (text, true),
				}
			}
			(text, bytes.len() % 4 != 0)
		}
	}
}

fn strip_one_bom(s: &str) -> &str {
	s.strip_prefix('\u{FEFF}').unwrap_or(s)
}

/// Implementation-level statement at hook level: the re-encoder's stream is
/// the UTF-8 of the decoded text; ill-formed input ends in an error and every
/// byte before it belongs to the well-formed prefix.
fn stmt_reencode(out: &mut Out, bytes: &[u8], enc: u8, ns: &[usize]) {
	let (text, illformed) = oracle_decode(bytes, enc);
	let expected = strip_one_bom(&text).as_bytes();
	let (got, err) = drain(xt::verif::yaml_encoder_new(Box::new(bytes), enc), ns);
	out.eval("reencode_oracle", &format!("{enc} {}", hex(bytes)), !bytes.is_empty());
	if illformed {
		out.count("reencode.illformed");
		if err.is_none() {
			out.fail(
				"reencode_illformed_is_error",
				"",
				format!("ill-formed {} input {} read with sizes {} was accepted, producing {}", ENC_NAMES[enc as usize], hex(bytes), nats(ns), hex(&got)),
			);
		} else if !expected.starts_with(&got) {
			out.fail(
				"reencode_no_fabrication",
				"",
				format!("ill-formed {} input {} read with sizes {} produced {} which is not a prefix of the well-formed prefix {}", ENC_NAMES[enc as usize], hex(bytes), nats(ns), hex(&got), hex(expected)),
			);
		}
	} else {
		out.count("reencode.wellformed");
		if err.is_some() || got != expected {
			out.fail(
				"reencode_eq_utf8",
				"",
				format!("well-formed {} input {} read with sizes {} gave {} {:?}, expected {}", ENC_NAMES[enc as usize], hex(bytes), nats(ns), hex(&got), err, hex(expected)),
			);
		}
	}
}

const BOUNDARY_SCALARS: &[u32] = &[
	0x00, 0x01, 0x0A, 0x20, 0x61, 0x7F, 0x80, 0xFF, 0x100, 0x7FF, 0x800, 0xFFF, 0x1000, 0xD7FF, 0xE000,
	0xFEFF, 0xFFFD, 0xFFFE, 0xFFFF, 0x10000, 0x10001, 0x1F600, 0xFFFFF, 0x100000, 0x10FFFE, 0x10FFFF,
];

const UNITS16: &[u16] = &[0x61, 0xD7FF, 0xD800, 0xDBFF, 0xDC00, 0xDFFF, 0xE000, 0xFFFF, 0xFEFF];
const UNITS32: &[u32] = &[0x61, 0xD7FF, 0xD800, 0xDFFF, 0xE000, 0xFEFF, 0x10FFFF, 0x110000, 0xFFFF_FFFF, 0xFFFE_0000];

fn schedules(rng: &mut Rng, total_hint: usize) -> Vec<Vec<usize>> {
	let reps = total_hint * 4 + 6;
	let mut v: Vec<Vec<usize>> = [1usize, 2, 3, 4, 5, 7].iter().map(|&k| vec![k; reps / k + 3]).collect();
	let mut r = vec![];
	for _ in 0..reps / 2 + 4 {
		r.push(rng.below(10) as usize);
	}
	v.push(r);
	v.push(vec![total_hint * 4 + 16, 8]);
	v
}

fn random_scalar(rng: &mut Rng) -> char {
	loop {
		let c = match rng.below(10) {
			0..=2 => rng.range(0x20, 0x7E) as u32,
			3 => *rng.pick(BOUNDARY_SCALARS),
			4 => rng.range(0x80, 0x7FF) as u32,
			5..=6 => rng.range(0x800, 0xFFFF) as u32,
			7..=8 => rng.range(0x10000, 0x10FFFF) as u32,
			_ => rng.range(0, 0x10FFFF) as u32,
		};
		if let Some(c) = char::from_u32(c) {
			return c;
		}
	}
}

fn reencode_case(out: &mut Out, bytes: &[u8], enc: u8, ns: &[usize]) {
	let toks = run_reads(bytes, enc, ns);
	let nontrivial = toks.iter().any(|t| t.starts_with("e:") || (t.starts_with("r:") && t != "r:-"));
	out.case("reencode", &format!("{enc} {} {}", hex(bytes), nats(ns)), &toks.join(" "), nontrivial);
}

fn stream_case(out: &mut Out, rng: &mut Rng, bytes: &[u8]) {
	// Through a BufReader over a source that delivers short reads.
	let src_sched: Vec<usize> = (0..8).map(|_| rng.range(1, 9) as usize).collect();
	let reader = BufReader::with_capacity(rng.range(1, 16) as usize, SchedReader::new(bytes, src_sched, true, None));
	let ns: Vec<usize> = (0..rng.below(6)).map(|_| rng.below(9) as usize).collect();
	let answer = match xt::verif::yaml_encoder_from_reader(Box::new(reader)) {
		Ok(r) => {
			let (got, err) = drain(r, &ns);
			format!("{} {}", hex(&got), err.unwrap_or_else(|| "ok".to_string()))
		}
		Err(err) => format!("- {}", err_token(&err)),
	};
	out.case("reencstream", &format!("{} {}", hex(bytes), nats(&ns)), &answer, !bytes.is_empty());
}

pub fn run(out: &mut Out, rng: &mut Rng, thorough: bool) {
	// 1. Encoding::detect, exhaustively over the byte classes it distinguishes,
	//    for every prefix length 0..=5.
	let classes: [u8; 5] = [0x00, 0x01, 0xFE, 0xFF, 0x61];
	for len in 0..=5usize {
		let total = 5usize.pow(len as u32);
		for idx in 0..total {
			let mut v = vec![];
			let mut k = idx;
			for _ in 0..len {
				v.push(classes[k % 5]);
				k /= 5;
			}
			let code = xt::verif::yaml_encoding_detect(&v);
			out.case("encdetect", &hex(&v), ENC_NAMES[code as usize], true);
		}
	}
	out.count("encdetect.exhaustive_over_5_byte_classes_len_0_to_5");

	// 2. Boundary scalars, alone and in pairs, 4 encodings, with/without BOM.
	let mut texts: Vec<String> = vec![String::new()];
	for &a in BOUNDARY_SCALARS {
		texts.push(char::from_u32(a).unwrap().to_string());
	}
	for &a in BOUNDARY_SCALARS {
		for &b in BOUNDARY_SCALARS {
			// U+FEFF next to every other boundary scalar always (it is special only at the very start)
			if thorough || a == 0xFEFF || b == 0xFEFF || rng.chance(1, 4) {
				texts.push(format!("{}{}", char::from_u32(a).unwrap(), char::from_u32(b).unwrap()));
			}
		}
	}
	for t in ["a\n\u{feff}b", "k: \"a\n  \u{feff}b\"\n", "\u{feff}\u{feff}a", "a\r\u{feff}b\n\u{feff}", "\n\u{feff}"] {
		texts.push(t.to_string());
	}
	let n_random = if thorough { 3000 } else { 300 };
	for _ in 0..n_random {
		let len = rng.below(24) as usize;
		texts.push((0..len).map(|_| random_scalar(rng)).collect());
	}
	for text in &texts {
		for enc in 1..=4u8 {
			for bom in [false, true] {
				let bytes = encode_text(text, enc, bom);
				let scheds = schedules(rng, text.len());
				let pick = if thorough { scheds } else { vec![rng.pick(&scheds).clone()] };
				for ns in &pick {
					reencode_case(out, &bytes, enc, ns);
					stmt_reencode(out, &bytes, enc, ns);
				}
			}
		}
	}

	// 3. Ill-formed classes: every 1-, 2- and 3-unit UTF-16 sequence over the
	//    class representatives, every 1- and 2-unit UTF-32 sequence, each also
	//    with stray trailing bytes.
	let mut seqs16: Vec<Vec<u16>> = vec![];
	for &a in UNITS16 {
		seqs16.push(vec![a]);
		for &b in UNITS16 {
			seqs16.push(vec![a, b]);
			for &c in UNITS16 {
				seqs16.push(vec![a, b, c]);
			}
		}
	}
	for units in &seqs16 {
		for big in [true, false] {
			let enc = if big { 1 } else { 3 };
			for extra in 0..2usize {
				if extra == 1 && !thorough && !rng.chance(1, 3) {
					continue;
				}
				let mut bytes = encode_units16(units, big);
				bytes.extend(std::iter::repeat(0x61).take(extra));
				let scheds = schedules(rng, units.len() * 2);
				let pick = if thorough { scheds } else { vec![rng.pick(&scheds).clone()] };
				for ns in &pick {
					reencode_case(out, &bytes, enc, ns);
					stmt_reencode(out, &bytes, enc, ns);
				}
			}
		}
	}
	let mut seqs32: Vec<Vec<u32>> = vec![];
	for &a in UNITS32 {
		seqs32.push(vec![a]);
		for &b in UNITS32 {
			seqs32.push(vec![a, b]);
		}
	}
	for units in &seqs32 {
		for big in [true, false] {
			let enc = if big { 2 } else { 4 };
			for extra in 0..4usize {
				if extra > 0 && !thorough && !rng.chance(1, 3) {
					continue;
				}
				let mut bytes = encode_units32(units, big);
				bytes.extend(std::iter::repeat(0x61).take(extra));
				let scheds = schedules(rng, units.len() * 4);
				let pick = if thorough { scheds } else { vec![rng.pick(&scheds).clone()] };
				for ns in &pick {
					reencode_case(out, &bytes, enc, ns);
					stmt_reencode(out, &bytes, enc, ns);
				}
			}
		}
	}

	// 4. Random bytes under every encoding, including pass-through.
	let n_bytes = if thorough { 4000 } else { 400 };
	for _ in 0..n_bytes {
		let len = rng.below(20) as usize;
		let bytes: Vec<u8> = (0..len)
			.map(|_| match rng.below(4) {
				0 => 0,
				1 => *rng.pick(&[0xD8u8, 0xDC, 0xDB, 0xDF, 0xFE, 0xFF, 0x10, 0x11]),
				_ => rng.below(256) as u8,
			})
			.collect();
		let enc = rng.below(5) as u8;
		let scheds = schedules(rng, len);
		let ns = rng.pick(&scheds).clone();
		reencode_case(out, &bytes, enc, &ns);
		if enc != 0 {
			stmt_reencode(out, &bytes, enc, &ns);
		}
		stream_case(out, rng, &bytes);
	}

	// 5. Encoder::from_reader (detection + chaining the 4-byte prefix back).
	for text in texts.iter().filter(|t| t.len() < 40) {
		if !thorough && !rng.chance(1, 3) {
			continue;
		}
		for enc in 0..=4u8 {
			for bom in [false, true] {
				if enc == 0 && bom {
					continue;
				}
				stream_case(out, rng, &encode_text(text, enc, bom));
			}
		}
	}

	// 6. Thorough: every Unicode scalar value, 64 per case, in all 4 encodings.
	if thorough {
		let mut batch = String::new();
		let mut n = 0;
		for cp in 0..=0x10FFFFu32 {
			if let Some(c) = char::from_u32(cp) {
				batch.push(c);
				n += 1;
			}
			if n == 64 || cp == 0x10FFFF {
				for enc in 1..=4u8 {
					let bytes = encode_text(&batch, enc, false);
					let k = [1usize, 2, 3, 4, 5, 7, 64][(cp as usize / 64) % 7];
					let ns = vec![k; batch.len() / k + 3];
					reencode_case(out, &bytes, enc, &ns);
					stmt_reencode(out, &bytes, enc, &ns);
				}
				batch.clear();
				n = 0;
			}
		}
		out.count("reencode.all_1112064_scalars_x4_encodings");
	}
}
