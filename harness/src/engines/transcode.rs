//! Engines `transcode` and `valuepath`: drive xt's streaming transcoder
//! (`xt::verif::transcode_stream`) and its collect-then-replay path
//! (`xt::verif::transcode_value`) with a scripted `serde::Deserializer` built
//! from a tree text and a logging `serde::Serializer` that fails at a scripted
//! primitive op. The same `<tree> <script>` line is answered by the Lean model
//! (lean/XtModel/Model/TranscodeWire.lean documents the text format).
//!
//! Decoration: the scripted deserializer wraps (`@…`) every error a visitor
//! returns to one of its `deserialize_any` frames, the way serde_json fixes up
//! positions; the Lean driver instantiates `dec := DErr.wrap`. Accesses
//! (`SeqAccess`/`MapAccess`) return the seed's error unchanged.

use std::cell::RefCell;
use std::fmt;

use serde::de::{self, DeserializeSeed, MapAccess, SeqAccess, Visitor};
use serde::ser::{self, Impossible, Serialize, SerializeMap, SerializeSeq};

use crate::out::Out;
use crate::util::{catch, hex, unhex, Rng};

// --------------------------------------------------------------------------- trees

#[derive(Clone, Debug, PartialEq)]
pub enum Sc {
	Unit,
	Bool(bool),
	I8(i8),
	I16(i16),
	I32(i32),
	I64(i64),
	I128(i128),
	U8(u8),
	U16(u16),
	U32(u32),
	U64(u64),
	U128(u128),
	F32(u32),
	F64(u64),
	Char(char),
	Str(String),
	Bytes(Vec<u8>),
}

impl Sc {
	pub fn text(&self) -> String {
		match self {
			Sc::Unit => "unit".to_string(),
			Sc::Bool(b) => format!("bool:{}", u8::from(*b)),
			Sc::I8(v) => format!("i8:{v}"),
			Sc::I16(v) => format!("i16:{v}"),
			Sc::I32(v) => format!("i32:{v}"),
			Sc::I64(v) => format!("i64:{v}"),
			Sc::I128(v) => format!("i128:{v}"),
			Sc::U8(v) => format!("u8:{v}"),
			Sc::U16(v) => format!("u16:{v}"),
			Sc::U32(v) => format!("u32:{v}"),
			Sc::U64(v) => format!("u64:{v}"),
			Sc::U128(v) => format!("u128:{v}"),
			Sc::F32(b) => format!("f32:{b:x}"),
			Sc::F64(b) => format!("f64:{b:x}"),
			Sc::Char(c) => format!("char:{:x}", *c as u32),
			Sc::Str(s) => format!("str:{}", hex(s.as_bytes())),
			Sc::Bytes(b) => format!("bytes:{}", hex(b)),
		}
	}

	fn parse(s: &str) -> Option<Sc> {
		let (name, v) = match s.split_once(':') {
			Some((n, v)) => (n, v),
			None => (s, ""),
		};
		Some(match name {
			"unit" => Sc::Unit,
			"bool" => Sc::Bool(v == "1"),
			"i8" => Sc::I8(v.parse().ok()?),
			"i16" => Sc::I16(v.parse().ok()?),
			"i32" => Sc::I32(v.parse().ok()?),
			"i64" => Sc::I64(v.parse().ok()?),
			"i128" => Sc::I128(v.parse().ok()?),
			"u8" => Sc::U8(v.parse().ok()?),
			"u16" => Sc::U16(v.parse().ok()?),
			"u32" => Sc::U32(v.parse().ok()?),
			"u64" => Sc::U64(v.parse().ok()?),
			"u128" => Sc::U128(v.parse().ok()?),
			"f32" => Sc::F32(u32::from_str_radix(v, 16).ok()?),
			"f64" => Sc::F64(u64::from_str_radix(v, 16).ok()?),
			"char" => Sc::Char(char::from_u32(u32::from_str_radix(v, 16).ok()?)?),
			"str" => Sc::Str(String::from_utf8(unhex(v)?).ok()?),
			"bytes" => Sc::Bytes(unhex(v)?),
			_ => return None,
		})
	}
}

#[derive(Clone, Debug, PartialEq)]
pub enum Node {
	Scalar(Sc),
	/// `deserialize_any` fails without calling the visitor.
	Fail(u32),
	/// The enclosing access fails instead of handing out this element.
	AFail(u32),
	Seq(Vec<Node>, Option<u32>),
	Map(Vec<(Node, Node)>, Option<u32>),
}

impl Node {
	pub fn text(&self) -> String {
		let close = |c: &Option<u32>| c.map(|e| format!("!{e}")).unwrap_or_default();
		match self {
			Node::Scalar(s) => format!("S({})", s.text()),
			Node::Fail(e) => format!("F({e})"),
			Node::AFail(e) => format!("A({e})"),
			Node::Seq(es, c) => {
				format!("Q[{}]{}", es.iter().map(Node::text).collect::<Vec<_>>().join(","), close(c))
			}
			Node::Map(es, c) => format!(
				"M{{{}}}{}",
				es.iter().map(|(k, v)| format!("{}={}", k.text(), v.text())).collect::<Vec<_>>().join(","),
				close(c)
			),
		}
	}

	pub fn parse(s: &str) -> Option<Node> {
		let b = s.as_bytes();
		let (n, rest) = Node::parse_at(b)?;
		if rest.is_empty() {
			Some(n)
		} else {
			None
		}
	}

	fn parse_close(b: &[u8]) -> Option<(Option<u32>, &[u8])> {
		if b.first() == Some(&b'!') {
			let len = b[1..].iter().take_while(|c| c.is_ascii_digit()).count();
			let n = std::str::from_utf8(&b[1..1 + len]).ok()?.parse().ok()?;
			Some((Some(n), &b[1 + len..]))
		} else {
			Some((None, b))
		}
	}

	fn parse_at(b: &[u8]) -> Option<(Node, &[u8])> {
		if b.len() < 2 {
			return None;
		}
		match (b[0], b[1]) {
			(b'S', b'(') | (b'F', b'(') | (b'A', b'(') => {
				let end = b.iter().position(|c| *c == b')')?;
				let body = std::str::from_utf8(&b[2..end]).ok()?;
				let n = match b[0] {
					b'S' => Node::Scalar(Sc::parse(body)?),
					b'F' => Node::Fail(body.parse().ok()?),
					_ => Node::AFail(body.parse().ok()?),
				};
				Some((n, &b[end + 1..]))
			}
			(b'Q', b'[') => {
				let mut rest = &b[2..];
				let mut elems = vec![];
				if rest.first() == Some(&b']') {
					rest = &rest[1..];
				} else {
					loop {
						let (e, r) = Node::parse_at(rest)?;
						elems.push(e);
						match r.first()? {
							b',' => rest = &r[1..],
							b']' => {
								rest = &r[1..];
								break;
							}
							_ => return None,
						}
					}
				}
				let (c, rest) = Node::parse_close(rest)?;
				Some((Node::Seq(elems, c), rest))
			}
			(b'M', b'{') => {
				let mut rest = &b[2..];
				let mut entries = vec![];
				if rest.first() == Some(&b'}') {
					rest = &rest[1..];
				} else {
					loop {
						let (k, r) = Node::parse_at(rest)?;
						if r.first()? != &b'=' {
							return None;
						}
						let (v, r) = Node::parse_at(&r[1..])?;
						entries.push((k, v));
						match r.first()? {
							b',' => rest = &r[1..],
							b'}' => {
								rest = &r[1..];
								break;
							}
							_ => return None,
						}
					}
				}
				let (c, rest) = Node::parse_close(rest)?;
				Some((Node::Map(entries, c), rest))
			}
			_ => None,
		}
	}
}

// --------------------------------------------------------------------------- errors

#[derive(Clone, Debug, PartialEq)]
pub enum DeErr {
	Own(u32),
	Custom(String),
	Wrap(Box<DeErr>),
}

impl fmt::Display for DeErr {
	fn fmt(&self, f: &mut fmt::Formatter) -> fmt::Result {
		match self {
			DeErr::Own(n) => write!(f, "d{n}"),
			DeErr::Custom(m) => write!(f, "custom({m})"),
			DeErr::Wrap(e) => write!(f, "@{e}"),
		}
	}
}

impl std::error::Error for DeErr {}

impl de::Error for DeErr {
	fn custom<T: fmt::Display>(msg: T) -> DeErr {
		DeErr::Custom(msg.to_string())
	}
}

#[derive(Clone, Debug, PartialEq)]
pub enum SerErr {
	Own(u32),
	Custom(String),
}

impl fmt::Display for SerErr {
	fn fmt(&self, f: &mut fmt::Formatter) -> fmt::Result {
		match self {
			SerErr::Own(n) => write!(f, "s{n}"),
			SerErr::Custom(m) => write!(f, "custom({m})"),
		}
	}
}

impl std::error::Error for SerErr {}

impl ser::Error for SerErr {
	fn custom<T: fmt::Display>(msg: T) -> SerErr {
		SerErr::Custom(msg.to_string())
	}
}

// --------------------------------------------------------------------------- scripted deserializer

/// Counts how often the transcoder's seeds / visitors were used, to sample the
/// "at most once" assumptions from the other side.
#[derive(Default)]
pub struct DeStats {
	pub visits: usize,
	pub seeds: usize,
}

#[derive(Clone, Copy)]
pub struct TreeDe<'de> {
	node: &'de Node,
	/// 0: `visit_str`/`visit_bytes`, 1: `visit_borrowed_*`, 2: `visit_string`/`visit_byte_buf`
	str_mode: u8,
	stats: &'de RefCell<DeStats>,
}

impl<'de> TreeDe<'de> {
	pub fn new(node: &'de Node, str_mode: u8, stats: &'de RefCell<DeStats>) -> TreeDe<'de> {
		TreeDe { node, str_mode, stats }
	}
}

impl<'de> de::Deserializer<'de> for TreeDe<'de> {
	type Error = DeErr;

	fn deserialize_any<V: Visitor<'de>>(self, visitor: V) -> Result<V::Value, DeErr> {
		let wrap = |e: DeErr| DeErr::Wrap(Box::new(e));
		match self.node {
			Node::Fail(e) | Node::AFail(e) => Err(DeErr::Own(*e)),
			Node::Scalar(sc) => {
				self.stats.borrow_mut().visits += 1;
				match sc {
					Sc::Unit => visitor.visit_unit(),
					Sc::Bool(v) => visitor.visit_bool(*v),
					Sc::I8(v) => visitor.visit_i8(*v),
					Sc::I16(v) => visitor.visit_i16(*v),
					Sc::I32(v) => visitor.visit_i32(*v),
					Sc::I64(v) => visitor.visit_i64(*v),
					Sc::I128(v) => visitor.visit_i128(*v),
					Sc::U8(v) => visitor.visit_u8(*v),
					Sc::U16(v) => visitor.visit_u16(*v),
					Sc::U32(v) => visitor.visit_u32(*v),
					Sc::U64(v) => visitor.visit_u64(*v),
					Sc::U128(v) => visitor.visit_u128(*v),
					Sc::F32(b) => visitor.visit_f32(f32::from_bits(*b)),
					Sc::F64(b) => visitor.visit_f64(f64::from_bits(*b)),
					Sc::Char(c) => visitor.visit_char(*c),
					Sc::Str(s) => match self.str_mode {
						1 => visitor.visit_borrowed_str(s.as_str()),
						2 => visitor.visit_string(s.clone()),
						_ => visitor.visit_str(s.as_str()),
					},
					Sc::Bytes(b) => match self.str_mode {
						1 => visitor.visit_borrowed_bytes(b.as_slice()),
						2 => visitor.visit_byte_buf(b.clone()),
						_ => visitor.visit_bytes(b.as_slice()),
					},
				}
				.map_err(wrap)
			}
			Node::Seq(elems, close) => {
				self.stats.borrow_mut().visits += 1;
				let r = visitor.visit_seq(SeqAcc { elems, next: 0, parent: self });
				match (r, close) {
					(Ok(v), None) => Ok(v),
					(Ok(_), Some(e)) => Err(DeErr::Own(*e)),
					(Err(e), _) => Err(wrap(e)),
				}
			}
			Node::Map(entries, close) => {
				self.stats.borrow_mut().visits += 1;
				let r = visitor.visit_map(MapAcc { entries, next: 0, parent: self });
				match (r, close) {
					(Ok(v), None) => Ok(v),
					(Ok(_), Some(e)) => Err(DeErr::Own(*e)),
					(Err(e), _) => Err(wrap(e)),
				}
			}
		}
	}

	serde::forward_to_deserialize_any! {
		bool i8 i16 i32 i64 i128 u8 u16 u32 u64 u128 f32 f64 char str string
		bytes byte_buf option unit unit_struct newtype_struct seq tuple
		tuple_struct map struct enum identifier ignored_any
	}
}

struct SeqAcc<'de> {
	elems: &'de [Node],
	next: usize,
	parent: TreeDe<'de>,
}

impl<'de> SeqAccess<'de> for SeqAcc<'de> {
	type Error = DeErr;

	fn next_element_seed<T: DeserializeSeed<'de>>(&mut self, seed: T) -> Result<Option<T::Value>, DeErr> {
		let Some(e) = self.elems.get(self.next) else {
			return Ok(None);
		};
		self.next += 1;
		if let Node::AFail(tok) = e {
			return Err(DeErr::Own(*tok));
		}
		self.parent.stats.borrow_mut().seeds += 1;
		seed.deserialize(TreeDe { node: e, ..self.parent }).map(Some)
	}

	fn size_hint(&self) -> Option<usize> {
		Some(self.elems.len() - self.next)
	}
}

struct MapAcc<'de> {
	entries: &'de [(Node, Node)],
	next: usize,
	parent: TreeDe<'de>,
}

impl<'de> MapAccess<'de> for MapAcc<'de> {
	type Error = DeErr;

	fn next_key_seed<K: DeserializeSeed<'de>>(&mut self, seed: K) -> Result<Option<K::Value>, DeErr> {
		let Some((k, _)) = self.entries.get(self.next) else {
			return Ok(None);
		};
		if let Node::AFail(tok) = k {
			return Err(DeErr::Own(*tok));
		}
		self.parent.stats.borrow_mut().seeds += 1;
		seed.deserialize(TreeDe { node: k, ..self.parent }).map(Some)
	}

	fn next_value_seed<V: DeserializeSeed<'de>>(&mut self, seed: V) -> Result<V::Value, DeErr> {
		let (_, v) = &self.entries[self.next];
		self.next += 1;
		if let Node::AFail(tok) = v {
			return Err(DeErr::Own(*tok));
		}
		self.parent.stats.borrow_mut().seeds += 1;
		seed.deserialize(TreeDe { node: v, ..self.parent })
	}

	fn size_hint(&self) -> Option<usize> {
		Some(self.entries.len() - self.next)
	}
}

// --------------------------------------------------------------------------- scripted serializer

#[derive(Clone, Copy, Debug, PartialEq)]
pub enum Script {
	Never,
	/// Fail the op with this 0-based index.
	At(usize, u32),
	/// Fail the k-th (0-based) op of this kind.
	Kind(u8, usize, u32),
}

impl Script {
	pub fn text(&self) -> String {
		match self {
			Script::Never => "never".to_string(),
			Script::At(n, tok) => format!("at:{n}:{tok}"),
			Script::Kind(kind, k, tok) => format!("kind:{kind}:{k}:{tok}"),
		}
	}
	pub fn tok(&self) -> Option<u32> {
		match self {
			Script::Never => None,
			Script::At(_, t) | Script::Kind(_, _, t) => Some(*t),
		}
	}
}

pub const KIND_SCALAR: u8 = 0;
pub const KIND_SEQ_BEGIN: u8 = 1;
pub const KIND_ELEM_PRE: u8 = 2;
pub const KIND_ELEM_POST: u8 = 3;
pub const KIND_SEQ_END: u8 = 4;
pub const KIND_MAP_BEGIN: u8 = 5;
pub const KIND_KEY_PRE: u8 = 6;
pub const KIND_KEY_POST: u8 = 7;
pub const KIND_VAL_PRE: u8 = 8;
pub const KIND_VAL_POST: u8 = 9;
pub const KIND_MAP_END: u8 = 10;

const KIND_TEXT: [&str; 11] = ["", "[", "e<", "e>", "]", "{", "k<", "k>", "v<", "v>", "}"];

pub struct SerState {
	pub script: Script,
	/// Every op attempted, the failing one included.
	pub log: Vec<String>,
	pub kinds: Vec<u8>,
	count: usize,
	seen: usize,
	/// How often an element's `serialize` was called (for the "once" assumption).
	pub element_serializes: usize,
}

impl SerState {
	pub fn new(script: Script) -> RefCell<SerState> {
		RefCell::new(SerState { script, log: vec![], kinds: vec![], count: 0, seen: 0, element_serializes: 0 })
	}
	pub fn log_text(&self) -> String {
		if self.log.is_empty() {
			"-".to_string()
		} else {
			self.log.join(",")
		}
	}
}

#[derive(Clone, Copy)]
pub struct LogSer<'a>(pub &'a RefCell<SerState>);

impl LogSer<'_> {
	fn op(&self, kind: u8, scalar: Option<&Sc>) -> Result<(), SerErr> {
		let mut st = self.0.borrow_mut();
		st.log.push(match scalar {
			Some(sc) => sc.text(),
			None => KIND_TEXT[kind as usize].to_string(),
		});
		st.kinds.push(kind);
		let selected = match st.script {
			Script::Never => None,
			Script::At(n, tok) => (st.count == n).then_some(tok),
			Script::Kind(want, k, tok) => (kind == want && st.seen == k).then_some(tok),
		};
		if let Some(tok) = selected {
			return Err(SerErr::Own(tok));
		}
		st.count += 1;
		if let Script::Kind(want, _, _) = st.script {
			if kind == want {
				st.seen += 1;
			}
		}
		Ok(())
	}
	fn scalar(&self, sc: Sc) -> Result<(), SerErr> {
		self.op(KIND_SCALAR, Some(&sc))
	}
}

fn unsupported<T>() -> Result<T, SerErr> {
	Err(SerErr::Custom("unsupported by the logging serializer".to_string()))
}

impl<'a> ser::Serializer for LogSer<'a> {
	type Ok = ();
	type Error = SerErr;
	type SerializeSeq = LogSer<'a>;
	type SerializeMap = LogSer<'a>;
	type SerializeTuple = Impossible<(), SerErr>;
	type SerializeTupleStruct = Impossible<(), SerErr>;
	type SerializeTupleVariant = Impossible<(), SerErr>;
	type SerializeStruct = Impossible<(), SerErr>;
	type SerializeStructVariant = Impossible<(), SerErr>;

	fn serialize_bool(self, v: bool) -> Result<(), SerErr> {
		self.scalar(Sc::Bool(v))
	}
	fn serialize_i8(self, v: i8) -> Result<(), SerErr> {
		self.scalar(Sc::I8(v))
	}
	fn serialize_i16(self, v: i16) -> Result<(), SerErr> {
		self.scalar(Sc::I16(v))
	}
	fn serialize_i32(self, v: i32) -> Result<(), SerErr> {
		self.scalar(Sc::I32(v))
	}
	fn serialize_i64(self, v: i64) -> Result<(), SerErr> {
		self.scalar(Sc::I64(v))
	}
	fn serialize_i128(self, v: i128) -> Result<(), SerErr> {
		self.scalar(Sc::I128(v))
	}
	fn serialize_u8(self, v: u8) -> Result<(), SerErr> {
		self.scalar(Sc::U8(v))
	}
	fn serialize_u16(self, v: u16) -> Result<(), SerErr> {
		self.scalar(Sc::U16(v))
	}
	fn serialize_u32(self, v: u32) -> Result<(), SerErr> {
		self.scalar(Sc::U32(v))
	}
	fn serialize_u64(self, v: u64) -> Result<(), SerErr> {
		self.scalar(Sc::U64(v))
	}
	fn serialize_u128(self, v: u128) -> Result<(), SerErr> {
		self.scalar(Sc::U128(v))
	}
	fn serialize_f32(self, v: f32) -> Result<(), SerErr> {
		self.scalar(Sc::F32(v.to_bits()))
	}
	fn serialize_f64(self, v: f64) -> Result<(), SerErr> {
		self.scalar(Sc::F64(v.to_bits()))
	}
	fn serialize_char(self, v: char) -> Result<(), SerErr> {
		self.scalar(Sc::Char(v))
	}
	fn serialize_str(self, v: &str) -> Result<(), SerErr> {
		self.scalar(Sc::Str(v.to_string()))
	}
	fn serialize_bytes(self, v: &[u8]) -> Result<(), SerErr> {
		self.scalar(Sc::Bytes(v.to_vec()))
	}
	fn serialize_unit(self) -> Result<(), SerErr> {
		self.scalar(Sc::Unit)
	}
	fn serialize_none(self) -> Result<(), SerErr> {
		unsupported()
	}
	fn serialize_some<T: ?Sized + Serialize>(self, _: &T) -> Result<(), SerErr> {
		unsupported()
	}
	fn serialize_unit_struct(self, _: &'static str) -> Result<(), SerErr> {
		unsupported()
	}
	fn serialize_unit_variant(self, _: &'static str, _: u32, _: &'static str) -> Result<(), SerErr> {
		unsupported()
	}
	fn serialize_newtype_struct<T: ?Sized + Serialize>(self, _: &'static str, _: &T) -> Result<(), SerErr> {
		unsupported()
	}
	fn serialize_newtype_variant<T: ?Sized + Serialize>(
		self,
		_: &'static str,
		_: u32,
		_: &'static str,
		_: &T,
	) -> Result<(), SerErr> {
		unsupported()
	}
	fn serialize_seq(self, _len: Option<usize>) -> Result<LogSer<'a>, SerErr> {
		self.op(KIND_SEQ_BEGIN, None)?;
		Ok(self)
	}
	fn serialize_map(self, _len: Option<usize>) -> Result<LogSer<'a>, SerErr> {
		self.op(KIND_MAP_BEGIN, None)?;
		Ok(self)
	}
	fn serialize_tuple(self, _: usize) -> Result<Self::SerializeTuple, SerErr> {
		unsupported()
	}
	fn serialize_tuple_struct(self, _: &'static str, _: usize) -> Result<Self::SerializeTupleStruct, SerErr> {
		unsupported()
	}
	fn serialize_tuple_variant(
		self,
		_: &'static str,
		_: u32,
		_: &'static str,
		_: usize,
	) -> Result<Self::SerializeTupleVariant, SerErr> {
		unsupported()
	}
	fn serialize_struct(self, _: &'static str, _: usize) -> Result<Self::SerializeStruct, SerErr> {
		unsupported()
	}
	fn serialize_struct_variant(
		self,
		_: &'static str,
		_: u32,
		_: &'static str,
		_: usize,
	) -> Result<Self::SerializeStructVariant, SerErr> {
		unsupported()
	}
}

impl LogSer<'_> {
	/// The collection serializer's own work around an element's `serialize`.
	fn around<T: ?Sized + Serialize>(&self, pre: u8, post: u8, value: &T) -> Result<(), SerErr> {
		self.op(pre, None)?;
		self.0.borrow_mut().element_serializes += 1;
		value.serialize(*self)?;
		self.op(post, None)
	}
}

impl SerializeSeq for LogSer<'_> {
	type Ok = ();
	type Error = SerErr;
	fn serialize_element<T: ?Sized + Serialize>(&mut self, value: &T) -> Result<(), SerErr> {
		self.around(KIND_ELEM_PRE, KIND_ELEM_POST, value)
	}
	fn end(self) -> Result<(), SerErr> {
		self.op(KIND_SEQ_END, None)
	}
}

impl SerializeMap for LogSer<'_> {
	type Ok = ();
	type Error = SerErr;
	fn serialize_key<T: ?Sized + Serialize>(&mut self, key: &T) -> Result<(), SerErr> {
		self.around(KIND_KEY_PRE, KIND_KEY_POST, key)
	}
	fn serialize_value<T: ?Sized + Serialize>(&mut self, value: &T) -> Result<(), SerErr> {
		self.around(KIND_VAL_PRE, KIND_VAL_POST, value)
	}
	fn end(self) -> Result<(), SerErr> {
		self.op(KIND_MAP_END, None)
	}
}

// --------------------------------------------------------------------------- running one case

fn no_blanks(s: &str) -> String {
	s.replace(' ', "_")
}

pub struct Run {
	pub answer: String,
	pub ops: usize,
	pub kinds: Vec<u8>,
	/// `Some(true)`: attributed to the serializer, `Some(false)`: to the deserializer.
	pub ser_side: Option<bool>,
	pub ser_err: Option<SerErr>,
	pub de_err: Option<DeErr>,
	pub display: String,
	pub panicked: bool,
	pub seeds: usize,
	pub element_serializes: usize,
}

/// Runs `xt::verif::transcode_stream` on the scripted pair.
pub fn run_stream(node: &Node, script: Script, str_mode: u8) -> Run {
	let st = SerState::new(script);
	let stats = RefCell::new(DeStats::default());
	let r = catch(|| xt::verif::transcode_stream(LogSer(&st), TreeDe::new(node, str_mode, &stats)));
	let st = st.into_inner();
	let mut run = Run {
		answer: String::new(),
		ops: st.log.len(),
		kinds: st.kinds.clone(),
		ser_side: None,
		ser_err: None,
		de_err: None,
		display: String::new(),
		panicked: false,
		seeds: stats.borrow().seeds,
		element_serializes: st.element_serializes,
	};
	let result = match r {
		Ok(Ok(())) => "ok".to_string(),
		Ok(Err((xt::verif::TranscodeError::De(d), text))) => {
			run.ser_side = Some(false);
			run.display = text;
			let t = format!("de:{d}");
			run.de_err = Some(d);
			t
		}
		Ok(Err((xt::verif::TranscodeError::Ser(s, d), text))) => {
			run.ser_side = Some(true);
			run.display = text;
			let t = format!("ser:{s}|{d}");
			run.ser_err = Some(s);
			run.de_err = Some(d);
			t
		}
		Err(p) => {
			run.panicked = true;
			format!("panic:{p}")
		}
	};
	let disp = if run.display.is_empty() { "-".to_string() } else { no_blanks(&run.display) };
	run.answer = format!("{} {} disp={}", no_blanks(&result), st.log_text(), disp);
	run
}

/// Runs `xt::verif::transcode_value` on the scripted pair.
pub fn run_value(node: &Node, script: Script, str_mode: u8) -> (String, usize) {
	let st = SerState::new(script);
	let stats = RefCell::new(DeStats::default());
	let r = catch(|| xt::verif::transcode_value(LogSer(&st), TreeDe::new(node, str_mode, &stats)));
	let st = st.into_inner();
	let result = match r {
		Ok(Ok(Ok(()))) => "ok".to_string(),
		Ok(Ok(Err(s))) => format!("ser:{s}"),
		Ok(Err(d)) => format!("de:{d}"),
		Err(p) => format!("panic:{p}"),
	};
	(format!("{} {}", no_blanks(&result), st.log_text()), st.log.len())
}

// --------------------------------------------------------------------------- generators

const BOUNDARY_STRS: [&str; 6] = ["", "a", "translation failed", "é", "\u{10FFFF}", "k y"];

pub fn random_scalar(rng: &mut Rng) -> Sc {
	match rng.below(17) {
		0 => Sc::Unit,
		1 => Sc::Bool(rng.chance(1, 2)),
		2 => Sc::I8(*rng.pick(&[i8::MIN, -1, 0, 1, i8::MAX])),
		3 => Sc::I16(*rng.pick(&[i16::MIN, -129, 0, 128, i16::MAX])),
		4 => Sc::I32(*rng.pick(&[i32::MIN, -32769, 0, 32768, i32::MAX])),
		5 => Sc::I64(*rng.pick(&[i64::MIN, -2147483649, 0, 2147483648, i64::MAX])),
		6 => Sc::I128(*rng.pick(&[i128::MIN, -9223372036854775809, 0, 9223372036854775808, i128::MAX])),
		7 => Sc::U8(*rng.pick(&[0, 1, 127, 128, u8::MAX])),
		8 => Sc::U16(*rng.pick(&[0, 255, 256, u16::MAX])),
		9 => Sc::U32(*rng.pick(&[0, 65535, 65536, u32::MAX])),
		10 => Sc::U64(*rng.pick(&[0, 4294967295, 4294967296, u64::MAX])),
		11 => Sc::U128(*rng.pick(&[0, 18446744073709551615, 18446744073709551616, u128::MAX])),
		12 => {
			let r = rng.next() as u32;
			Sc::F32(*rng.pick(&[0, 0x8000_0000, 0x3f80_0000, 0x7fc0_0000, 0x7f80_0000, 1, r]))
		}
		13 => {
			let r = rng.next();
			Sc::F64(*rng.pick(&[0, 0x8000_0000_0000_0000, 0x3ff0_0000_0000_0000, 0x7ff8_0000_0000_0000, 1, r]))
		}
		14 => Sc::Char(*rng.pick(&['\0', 'a', ' ', '\u{7f}', 'é', '\u{d7ff}', '\u{e000}', '\u{10ffff}'])),
		15 => Sc::Str(rng.pick(&BOUNDARY_STRS).to_string()),
		_ => Sc::Bytes((0..rng.below(4)).map(|_| rng.next() as u8).collect()),
	}
}

/// A random tree; `fail_pct` is the chance (in percent) of each failure point.
pub fn random_tree(rng: &mut Rng, depth: u32, fail_pct: u64, in_access: bool) -> Node {
	if rng.below(100) < fail_pct {
		return if in_access && rng.chance(1, 2) {
			Node::AFail(rng.range(1, 99) as u32)
		} else {
			Node::Fail(rng.range(1, 99) as u32)
		};
	}
	let close = |rng: &mut Rng| (rng.below(100) < fail_pct).then(|| rng.range(1, 99) as u32);
	if depth == 0 || rng.chance(2, 5) {
		return Node::Scalar(random_scalar(rng));
	}
	if rng.chance(1, 2) {
		let n = rng.below(4);
		Node::Seq((0..n).map(|_| random_tree(rng, depth - 1, fail_pct, true)).collect(), close(rng))
	} else {
		let n = rng.below(4);
		Node::Map(
			(0..n)
				.map(|_| {
					let k = if rng.chance(2, 3) && rng.below(100) >= fail_pct {
						Node::Scalar(random_scalar(rng))
					} else {
						random_tree(rng, depth - 1, fail_pct, true)
					};
					(k, random_tree(rng, depth - 1, fail_pct, true))
				})
				.collect(),
			close(rng),
		)
	}
}

/// All error-free shapes of depth ≤ `depth` and width ≤ `width` over the leaf
/// alphabet `leaves`; map keys are drawn from `keys(depth - 1)`.
pub fn shapes(depth: u32, width: usize, leaves: &[Node], key_depth: u32) -> Vec<Node> {
	let mut all: Vec<Node> = leaves.to_vec();
	if depth <= 1 {
		return all;
	}
	let sub = shapes(depth - 1, width, leaves, key_depth);
	let keys = shapes((depth - 1).min(key_depth), width.min(2), &leaves[..1], 1);
	// sequences
	let mut lists: Vec<Vec<Node>> = vec![vec![]];
	let mut frontier: Vec<Vec<Node>> = vec![vec![]];
	for _ in 0..width {
		let mut next = vec![];
		for l in &frontier {
			for e in &sub {
				let mut l2 = l.clone();
				l2.push(e.clone());
				next.push(l2);
			}
		}
		lists.extend(next.iter().cloned());
		frontier = next;
	}
	for l in lists {
		all.push(Node::Seq(l, None));
	}
	// maps
	let mut elists: Vec<Vec<(Node, Node)>> = vec![vec![]];
	let mut frontier: Vec<Vec<(Node, Node)>> = vec![vec![]];
	for _ in 0..width {
		let mut next = vec![];
		for l in &frontier {
			for k in &keys {
				for v in &sub {
					let mut l2 = l.clone();
					l2.push((k.clone(), v.clone()));
					next.push(l2);
				}
			}
		}
		elists.extend(next.iter().cloned());
		frontier = next;
	}
	for l in elists {
		all.push(Node::Map(l, None));
	}
	all
}

/// Every way of planting one deserializer failure into an error-free tree:
/// `F` in place of any node, `A` before any element / key / value (the rest of
/// the collection is kept, and must not be visited), `A` where the end of a
/// collection should be, `!` after any collection.
pub fn plant_all(t: &Node, tok: u32) -> Vec<Node> {
	let mut out = vec![Node::Fail(tok)];
	match t {
		Node::Seq(es, c) => {
			out.push(Node::Seq(es.clone(), Some(tok)));
			for i in 0..=es.len() {
				let mut es2 = es.clone();
				es2.insert(i, Node::AFail(tok));
				out.push(Node::Seq(es2, *c));
			}
			for i in 0..es.len() {
				for sub in plant_all(&es[i], tok) {
					let mut es2 = es.clone();
					es2[i] = sub;
					out.push(Node::Seq(es2, *c));
				}
			}
		}
		Node::Map(es, c) => {
			out.push(Node::Map(es.clone(), Some(tok)));
			let filler = Node::Scalar(Sc::U8(9));
			for i in 0..=es.len() {
				let mut es2 = es.clone();
				es2.insert(i, (Node::AFail(tok), filler.clone()));
				out.push(Node::Map(es2, *c));
			}
			for i in 0..es.len() {
				let mut es2 = es.clone();
				es2[i].1 = Node::AFail(tok);
				out.push(Node::Map(es2, *c));
				for sub in plant_all(&es[i].0, tok) {
					let mut es2 = es.clone();
					es2[i].0 = sub;
					out.push(Node::Map(es2, *c));
				}
				for sub in plant_all(&es[i].1, tok) {
					let mut es2 = es.clone();
					es2[i].1 = sub;
					out.push(Node::Map(es2, *c));
				}
			}
		}
		_ => {}
	}
	out
}

// --------------------------------------------------------------------------- the engine

struct Ctx<'a> {
	out: &'a mut Out,
	case_no: u64,
}

impl Ctx<'_> {
	/// One correspondence case on the streaming path, with the hook-level
	/// statements of C11 / C04 checked on the implementation's answer.
	fn stream_case(&mut self, node: &Node, script: Script) -> Run {
		self.case_no += 1;
		let text = node.text();
		let parsed = Node::parse(&text).expect("tree text round trip");
		assert!(&parsed == node, "tree text round trip");
		let run = run_stream(&parsed, script, (self.case_no % 3) as u8);
		self.out.case("transcode", &format!("{text} {}", script.text()), &run.answer, run.ops > 0);
		let describe = || format!("tree {text} script {} => {}", script.text(), run.answer);
		if run.panicked {
			self.out.fail("hook_no_panic", "", describe());
		}
		match run.ser_side {
			Some(true) => {
				self.out.count("transcode.result.ser");
				// the serializer's own error value comes back untouched
				if run.ser_err != script.tok().map(SerErr::Own) {
					self.out.fail("hook_ser_error_is_own", "", describe());
				}
				let (s, d) = (run.ser_err.as_ref().unwrap(), run.de_err.as_ref().unwrap());
				if run.display != format!("{d}: {s}") {
					self.out.fail("hook_display_shape", "", describe());
				}
			}
			Some(false) => {
				self.out.count("transcode.result.de");
				let d = run.de_err.as_ref().unwrap().to_string();
				if d.contains("translation failed") || d.contains("custom(") || run.display != d {
					self.out.fail("hook_de_error_is_own", "", describe());
				}
			}
			None => self.out.count(if run.panicked { "transcode.result.panic" } else { "transcode.result.ok" }),
		}
		// sampled assumptions: a seed is used once per element handed out, and
		// the logging serializer calls an element's serialize once
		if run.element_serializes > run.seeds {
			self.out.fail("hook_serialize_once_per_seed", "", describe());
		}
		if let Some(k) = run.kinds.last() {
			if run.ser_side == Some(true) {
				self.out.count(&format!("transcode.ser_failure_at_kind.{k}"));
			}
		}
		run
	}

	fn value_case(&mut self, node: &Node, script: Script) {
		self.case_no += 1;
		let text = node.text();
		let (answer, ops) = run_value(node, script, (self.case_no % 3) as u8);
		self.out.case("valuepath", &format!("{text} {}", script.text()), &answer, ops > 0);
		if answer.starts_with("panic:") {
			self.out.fail("hook_no_panic_valuepath", "", format!("tree {text} script {} => {answer}", script.text()));
		}
	}

	/// `never`, then a failure at every op position (and one past the end),
	/// then at every occurrence of every op kind.
	fn all_scripts(&mut self, node: &Node, by_kind: bool, value_too: bool) {
		let base = self.stream_case(node, Script::Never);
		if value_too {
			self.value_case(node, Script::Never);
		}
		for n in 0..=base.ops {
			self.stream_case(node, Script::At(n, 7));
			if value_too {
				self.value_case(node, Script::At(n, 7));
			}
		}
		if by_kind {
			for kind in 0..=10u8 {
				let occurrences = base.kinds.iter().filter(|k| **k == kind).count();
				for k in 0..occurrences {
					self.stream_case(node, Script::Kind(kind, k, 8));
				}
			}
		}
	}
}

pub fn run(out: &mut Out, rng: &mut Rng, thorough: bool) {
	let mut ctx = Ctx { out, case_no: 0 };

	// Regression inputs first: the D7 document {"a":[1,"x"]} at every op.
	let d7 = Node::parse("M{S(str:61)=Q[S(u8:1),S(str:78)]}").unwrap();
	ctx.all_scripts(&d7, true, true);
	for t in plant_all(&d7, 3) {
		ctx.all_scripts(&t, false, true);
	}

	// Every scalar constructor, alone and inside both collections.
	for _ in 0..if thorough { 40 } else { 8 } {
		for which in 0..17 {
			let sc = loop {
				let sc = random_scalar(rng);
				if std::mem::discriminant(&sc) == std::mem::discriminant(&scalar_of_index(which)) {
					break sc;
				}
			};
			let leaf = Node::Scalar(sc);
			ctx.all_scripts(&leaf, false, true);
			ctx.all_scripts(&Node::Seq(vec![leaf.clone()], None), false, true);
			ctx.all_scripts(&Node::Map(vec![(leaf.clone(), leaf.clone())], None), false, true);
		}
	}

	// Exhaustive: all shapes within the bound × one planted deserializer
	// failure at every position (or none) × a serializer failure at every op
	// position (or none) [× every occurrence of every op kind].
	let leaves = [Node::Scalar(Sc::U8(1)), Node::Scalar(Sc::Str("a".to_string()))];
	let (depth, width, key_depth) = if thorough { (3, 2, 2) } else { (2, 2, 1) };
	let all = shapes(depth, width, &leaves[..if thorough { 1 } else { 2 }], key_depth);
	ctx.out.counters.insert("transcode.exhaustive.shapes".to_string(), all.len() as u64);
	for t in &all {
		ctx.all_scripts(t, true, false);
		for planted in plant_all(t, 3) {
			ctx.all_scripts(&planted, false, false);
			ctx.out.count("transcode.exhaustive.planted");
		}
	}
	if !thorough {
		// depth 3 × width 2 over one leaf, scalar map keys
		let deep = shapes(3, 2, &leaves[..1], 1);
		ctx.out.counters.insert("transcode.exhaustive.shapes_depth3_width2".to_string(), deep.len() as u64);
		for t in &deep {
			ctx.all_scripts(t, false, false);
			for planted in plant_all(t, 3) {
				ctx.all_scripts(&planted, false, false);
				ctx.out.count("transcode.exhaustive.planted");
			}
		}
	}
	if thorough {
		// depth 3 × width 3 with scalar map keys (composite keys are covered
		// at width 2 above)
		let deep = shapes(3, 3, &leaves[..1], 1);
		ctx.out.counters.insert("transcode.exhaustive.shapes_depth3_width3".to_string(), deep.len() as u64);
		for t in &deep {
			ctx.all_scripts(t, false, false);
			for planted in plant_all(t, 3) {
				ctx.all_scripts(&planted, false, false);
				ctx.out.count("transcode.exhaustive.planted");
			}
		}
		// width 3 at depth ≤ 2 over two leaves, both paths
		let wide = shapes(2, 3, &leaves, 1);
		ctx.out.counters.insert("transcode.exhaustive.shapes_wide".to_string(), wide.len() as u64);
		for t in &wide {
			ctx.all_scripts(t, true, true);
			for planted in plant_all(t, 3) {
				ctx.all_scripts(&planted, false, true);
				ctx.out.count("transcode.exhaustive.planted");
			}
		}
	}

	// Sampled: larger random trees with any number of failure points.
	let n = if thorough { 6000 } else { 600 };
	for i in 0..n {
		let fail_pct = [0, 0, 3, 10, 25][i % 5];
		let t = random_tree(rng, 4, fail_pct, false);
		let base = ctx.stream_case(&t, Script::Never);
		ctx.value_case(&t, Script::Never);
		for _ in 0..4 {
			let script = if rng.chance(2, 3) || base.kinds.is_empty() {
				Script::At(rng.below(base.ops as u64 + 2) as usize, rng.range(1, 99) as u32)
			} else {
				let kind = *rng.pick(&base.kinds);
				let occurrences = base.kinds.iter().filter(|k| **k == kind).count();
				Script::Kind(kind, rng.below(occurrences as u64 + 1) as usize, rng.range(1, 99) as u32)
			};
			ctx.stream_case(&t, script);
			ctx.value_case(&t, script);
		}
	}
}

fn scalar_of_index(i: u64) -> Sc {
	match i {
		0 => Sc::Unit,
		1 => Sc::Bool(false),
		2 => Sc::I8(0),
		3 => Sc::I16(0),
		4 => Sc::I32(0),
		5 => Sc::I64(0),
		6 => Sc::I128(0),
		7 => Sc::U8(0),
		8 => Sc::U16(0),
		9 => Sc::U32(0),
		10 => Sc::U64(0),
		11 => Sc::U128(0),
		12 => Sc::F32(0),
		13 => Sc::F64(0),
		14 => Sc::Char('a'),
		15 => Sc::Str(String::new()),
		_ => Sc::Bytes(vec![]),
	}
}
