//! Engines `j2m` / `m2j`: the JSON → MessagePack and MessagePack → JSON
//! translations end to end (`xt::translate_slice` / `translate_reader`),
//! against the Lean model `Xt.Bridge` (source loop → what the deserializer
//! visits → `flatten` → rmp_serde's / serde_json's serializer → framing).
//!
//! Answers: `<verdict> <output hex>`.
//! * verdict: `ok`, `src:<serde_json error kind>` (JSON source), `src`
//!   (MessagePack source: the kind is the `msgdecode` engine's subject, and
//!   inside one failing document a serializer refusal may come before the
//!   decoder's failure), `ser:1` = `key must be a string`, `ser:2` = `float
//!   key must be finite`.
//! * output: byte-exact for float-free input. Floats are masked on both
//!   sides: a binary64 written to MessagePack has its 8 payload bytes zeroed;
//!   in JSON text every number token with `.`, `e` or `E` becomes `F`, and so
//!   does the content of every string made of number characters only with one
//!   of those three (`mask_json`; a float in key position is a quoted float).
//! * JSON source failing: only complete MessagePack documents can have been
//!   written (`j2m_no_partial_document`). MessagePack source failing: the JSON
//!   written for the failing document up to that point is compared too, and a
//!   refusal that precedes the decoder's failure is the verdict.

use serde::de::{Deserialize, Deserializer, MapAccess, SeqAccess, Visitor};

use crate::engines::json::kind_of;
use crate::engines::msgpack::{self as mp, MV};
use crate::gen::{gen_deep, gen_doc, mutate, read_docs, to_json, to_msgpack, GenOpts, Spelling, Val, NASTY_INTS, NASTY_STRINGS};
use crate::out::Out;
use crate::util::{hex, Rng};
use crate::xtapi::{translate, Fmt, Outcome, Supply};

// --------------------------------------------------------------------------- MessagePack helpers

/// Length of the MessagePack value at the start of `b` (no depth limit), with
/// the payload of every `float 64` zeroed in `b` when `mask`.
fn mp_walk(b: &mut [u8], mask: bool) -> Option<usize> {
	// iterative: (remaining values to read)
	let mut pos = 0usize;
	let mut todo: u64 = 1;
	while todo > 0 {
		todo -= 1;
		let m = *b.get(pos)?;
		pos += 1;
		let be = |b: &[u8], at: usize, w: usize| -> Option<u64> {
			let s = b.get(at..at + w)?;
			Some(s.iter().fold(0u64, |a, x| (a << 8) | u64::from(*x)))
		};
		match m {
			0x00..=0x7f | 0xe0..=0xff | 0xc0 | 0xc2 | 0xc3 => {}
			0x80..=0x8f => todo += 2 * u64::from(m & 0x0f),
			0x90..=0x9f => todo += u64::from(m & 0x0f),
			0xa0..=0xbf => pos += usize::from(m & 0x1f),
			0xc1 => return None,
			0xc4 | 0xd9 => pos += 1 + be(b, pos, 1)? as usize,
			0xc5 | 0xda => pos += 2 + be(b, pos, 2)? as usize,
			0xc6 | 0xdb => pos += 4 + be(b, pos, 4)? as usize,
			0xc7 => pos += 2 + be(b, pos, 1)? as usize,
			0xc8 => pos += 3 + be(b, pos, 2)? as usize,
			0xc9 => pos += 5 + be(b, pos, 4)? as usize,
			0xca | 0xce | 0xd2 => pos += 4,
			0xcb => {
				if mask {
					for x in b.get_mut(pos..pos + 8)? {
						*x = 0;
					}
				}
				pos += 8;
			}
			0xcc | 0xd0 => pos += 1,
			0xcd | 0xd1 => pos += 2,
			0xcf | 0xd3 => pos += 8,
			0xd4 => pos += 2,
			0xd5 => pos += 3,
			0xd6 => pos += 5,
			0xd7 => pos += 9,
			0xd8 => pos += 17,
			0xdc => {
				todo += be(b, pos, 2)?;
				pos += 2;
			}
			0xdd => {
				todo += be(b, pos, 4)?;
				pos += 4;
			}
			0xde => {
				todo += 2 * be(b, pos, 2)?;
				pos += 2;
			}
			0xdf => {
				todo += 2 * be(b, pos, 4)?;
				pos += 4;
			}
		}
		if pos > b.len() {
			return None;
		}
	}
	Some(pos)
}

/// The complete MessagePack documents at the start of `bytes`, float payloads
/// zeroed; and how many there are.
fn complete_masked(bytes: &[u8]) -> (Vec<u8>, usize) {
	let mut v = bytes.to_vec();
	let mut pos = 0;
	let mut n = 0;
	while pos < v.len() {
		match mp_walk(&mut v[pos..], true) {
			Some(k) => {
				pos += k;
				n += 1;
			}
			None => break,
		}
	}
	v.truncate(pos);
	(v, n)
}

/// A value read the way xt's visitor reads: like `gen::Val`, but an ext value
/// (`visit_newtype_struct`) is refused.
struct NoExt(Val);

impl<'de> Deserialize<'de> for NoExt {
	fn deserialize<D: Deserializer<'de>>(d: D) -> Result<NoExt, D::Error> {
		struct V;
		impl<'de> Visitor<'de> for V {
			type Value = NoExt;
			fn expecting(&self, f: &mut std::fmt::Formatter) -> std::fmt::Result {
				f.write_str("any supported value")
			}
			fn visit_unit<E>(self) -> Result<NoExt, E> {
				Ok(NoExt(Val::Null))
			}
			fn visit_bool<E>(self, v: bool) -> Result<NoExt, E> {
				Ok(NoExt(Val::Bool(v)))
			}
			fn visit_i64<E>(self, v: i64) -> Result<NoExt, E> {
				Ok(NoExt(Val::Int(i128::from(v))))
			}
			fn visit_u64<E>(self, v: u64) -> Result<NoExt, E> {
				Ok(NoExt(Val::Int(i128::from(v))))
			}
			fn visit_f32<E>(self, v: f32) -> Result<NoExt, E> {
				Ok(NoExt(Val::F32(v.to_bits())))
			}
			fn visit_f64<E>(self, v: f64) -> Result<NoExt, E> {
				Ok(NoExt(Val::F64(v.to_bits())))
			}
			fn visit_str<E>(self, v: &str) -> Result<NoExt, E> {
				Ok(NoExt(Val::Str(v.to_string())))
			}
			fn visit_bytes<E>(self, v: &[u8]) -> Result<NoExt, E> {
				Ok(NoExt(Val::Bytes(v.to_vec())))
			}
			fn visit_seq<A: SeqAccess<'de>>(self, mut a: A) -> Result<NoExt, A::Error> {
				let mut v = vec![];
				while let Some(NoExt(x)) = a.next_element()? {
					v.push(x);
				}
				Ok(NoExt(Val::Seq(v)))
			}
			fn visit_map<A: MapAccess<'de>>(self, mut a: A) -> Result<NoExt, A::Error> {
				let mut v = vec![];
				while let Some((NoExt(k), NoExt(x))) = a.next_entry()? {
					v.push((k, x));
				}
				Ok(NoExt(Val::Map(v)))
			}
		}
		d.deserialize_any(V)
	}
}

/// The documents xt's MessagePack reader accepts from the start of `bytes`
/// (rmp_serde with the same depth limit, ext refused), and whether all of the
/// input was consumed that way.
fn mp_docs_as_xt(bytes: &[u8]) -> (Vec<Val>, bool) {
	let mut docs = vec![];
	let mut rest = bytes;
	while !rest.is_empty() {
		let mut de = rmp_serde::Deserializer::new(&mut rest);
		de.set_max_depth(xt::verif::MSGPACK_DEPTH_LIMIT);
		match NoExt::deserialize(&mut de) {
			Ok(NoExt(v)) => docs.push(v),
			Err(_) => return (docs, false),
		}
	}
	(docs, true)
}

fn has_float_key(v: &Val) -> bool {
	v.any(&|x| matches!(x, Val::Map(m) if m.iter().any(|(k, _)| matches!(k, Val::F64(_) | Val::F32(_)))))
}

fn has_float(v: &Val) -> bool {
	v.any(&|x| matches!(x, Val::F64(_) | Val::F32(_)))
}

fn complete_lines(output: &[u8]) -> &[u8] {
	match output.iter().rposition(|&b| b == b'\n') {
		Some(i) => &output[..=i],
		None => &[],
	}
}

const MODES: [(&str, fn() -> Supply); 2] = [("slice", || Supply::Slice), ("reader", || Supply::Reader(vec![]))];

// --------------------------------------------------------------------------- j2m

pub fn j2m_case(out: &mut Out, input: &[u8], class: &str) {
	out.count(&format!("j2m.class.{class}"));
	for (mode, supply) in MODES {
		let r = translate(input, &supply(), Some(Fmt::Json), Fmt::Msgpack);
		let verdict = match &r.result {
			Ok(()) => "ok".to_string(),
			Err(e) => format!("src:{}", kind_of(e)),
		};
		let (masked, n) = complete_masked(&r.output);
		out.count(&format!("j2m.{mode}.{}", verdict.split(':').take(2).collect::<Vec<_>>().join(".")));
		out.case("j2m", &format!("{} {mode}", hex(input)), &format!("{verdict} {}", hex(&masked)), n > 0);
		// A MessagePack target never receives part of a document: whatever a
		// failing JSON document had produced was still in a collection buffer.
		out.eval("j2m_no_partial_document", &format!("{mode} {}", hex(input)), !r.ok());
		if masked.len() != r.output.len() {
			out.fail("j2m_no_partial_document", "", format!("input={} mode={mode}: {}", hex(input), r.describe()));
		}
		if r.ok() {
			fidelity(out, input, Fmt::Json, &r, mode);
		}
	}
}

/// Implementation-level form of the two fidelity theorems: the output, read
/// by the target crate's own reader, denotes what the source crate's own
/// reader sees in the input (same documents, same order, integers as integers).
fn fidelity(out: &mut Out, input: &[u8], from: Fmt, r: &Outcome, mode: &str) {
	let to = if from == Fmt::Json { Fmt::Msgpack } else { Fmt::Json };
	let Ok(src) = read_docs(from, input) else { return };
	if !src.iter().all(|v| v.representable(to) && v.representable(from)) {
		return;
	}
	// Writing JSON has no nesting limit (MessagePack's 1024 applies to the
	// source), but serde_json refuses to READ 128 levels: such output cannot be
	// checked through a JSON reader (the byte-level correspondence still covers it).
	if to == Fmt::Json && src.iter().any(|v| v.depth() >= 128) {
		return;
	}
	let what = if from == Fmt::Json { "json_to_msgpack_fidelity" } else { "msgpack_to_json_fidelity" };
	out.eval(what, &format!("{mode} {}", hex(input)), !src.is_empty());
	match read_docs(to, &r.output) {
		Ok(dst) if dst == src => {}
		other => out.fail(
			what,
			"",
			format!("input={} mode={mode} output={} source denotes {:?} but the output {:?}", hex(input), hex(&r.output), src.iter().map(Val::short).collect::<Vec<_>>(), other.map(|d| d.iter().map(Val::short).collect::<Vec<_>>())),
		),
	}
}

// --------------------------------------------------------------------------- m2j

fn ser_kind(msg: &str) -> Option<&'static str> {
	if msg.contains("key must be a string") {
		Some("ser:1")
	} else if msg.contains("float key must be finite") {
		Some("ser:2")
	} else {
		None
	}
}

/// Canonical form of JSON text with float tokens masked (mirror of the
/// driver's `maskFloats`): works on incomplete text too.
pub fn mask_json(text: &[u8]) -> Vec<u8> {
	let is_num = |b: u8| b.is_ascii_digit() || matches!(b, b'+' | b'-' | b'.' | b'e' | b'E');
	let has_float = |t: &[u8]| t.iter().any(|b| matches!(b, b'.' | b'e' | b'E'));
	let mut out = Vec::with_capacity(text.len());
	let mut i = 0;
	while i < text.len() {
		let b = text[i];
		if b == b'"' {
			let start = i + 1;
			let mut j = start;
			let mut closed = false;
			while j < text.len() {
				if text[j] == b'"' {
					closed = true;
					break;
				}
				if text[j] == b'\\' && j + 1 < text.len() {
					j += 2;
				} else {
					j += 1;
				}
			}
			let content = &text[start..j.min(text.len())];
			out.push(b'"');
			if !content.is_empty() && content.iter().all(|c| is_num(*c)) && has_float(content) {
				out.push(b'F');
			} else {
				out.extend_from_slice(content);
			}
			if closed {
				out.push(b'"');
				i = j + 1;
			} else {
				i = text.len();
			}
		} else if b == b'-' || b.is_ascii_digit() {
			let start = i;
			while i < text.len() && is_num(text[i]) {
				i += 1;
			}
			let tok = &text[start..i];
			if has_float(tok) {
				out.push(b'F');
			} else {
				out.extend_from_slice(tok);
			}
		} else {
			out.push(b);
			i += 1;
		}
	}
	out
}

pub fn m2j_case(out: &mut Out, input: &[u8], class: &str) {
	out.count(&format!("m2j.class.{class}"));
	let (docs, all_decodable) = mp_docs_as_xt(input);
	for (mode, supply) in MODES {
		let r = translate(input, &supply(), Some(Fmt::Msgpack), Fmt::Json);
		let verdict = match &r.result {
			Ok(()) => "ok",
			Err(e) => ser_kind(e).unwrap_or("src"),
		};
		let lines = r.output.iter().filter(|&&b| b == b'\n').count();
		if verdict.starts_with("ser") && docs.len() <= lines {
			// the refused document is one the decoder would have failed on later
			out.count("m2j.refusal_before_the_decoders_failure");
		}
		out.count(&format!("m2j.{mode}.{verdict}"));
		if complete_lines(&r.output).len() != r.output.len() {
			out.count(&format!("m2j.{mode}.partial_document_compared"));
		}
		out.case("m2j", &format!("{} {mode}", hex(input)), &format!("{verdict} {}", hex(&mask_json(&r.output))), lines > 0 || verdict.starts_with("ser"));
		// `unrepresentable_is_error`: a refused document is never completed —
		// nothing follows its partial bytes, which hold no line terminator.
		if verdict.starts_with("ser") {
			out.eval("unrepresentable_is_error", &format!("{mode} {}", hex(input)), true);
			if all_decodable && lines >= docs.len() {
				out.fail("unrepresentable_is_error", "", format!("input={} mode={mode}: {}", hex(input), r.describe()));
			}
		}
		// … and neither is a document the source failed in.
		if !r.ok() && lines > docs.len() {
			out.fail("failing_document_not_completed", "", format!("input={} mode={mode}: {} lines but {} decodable documents: {}", hex(input), lines, docs.len(), r.describe()));
		}
		if r.ok() {
			fidelity(out, input, Fmt::Msgpack, &r, mode);
		}
	}
	if docs.iter().any(has_float_key) {
		out.count("m2j.float_key_masked");
	}
	if docs.iter().any(has_float) {
		out.count("m2j.floats_masked");
	}
}

// --------------------------------------------------------------------------- generators

fn json_collection(n: usize, kind: usize) -> Vec<u8> {
	let mut s = String::new();
	match kind {
		0 => {
			s.push('[');
			for i in 0..n {
				if i > 0 {
					s.push(',');
				}
				s.push_str(&(i % 300).to_string());
			}
			s.push(']');
		}
		1 => {
			s.push('{');
			for i in 0..n {
				if i > 0 {
					s.push(',');
				}
				s.push_str(&format!("\"k{i}\":{}", i % 7));
			}
			s.push('}');
		}
		2 => {
			// a string of n bytes (ASCII), and one of n bytes in two-byte characters
			s.push('"');
			s.push_str(&"a".repeat(n));
			s.push('"');
		}
		_ => {
			s.push_str("[\"");
			s.push_str(&"é".repeat(n / 2));
			if n % 2 == 1 {
				s.push('x');
			}
			s.push_str("\"]");
		}
	}
	s.into_bytes()
}

fn json_nest(n: usize, shape: usize, inner: &str) -> Vec<u8> {
	let mut v = String::new();
	let mut closers = String::new();
	for i in 0..n {
		let array = match shape {
			0 => true,
			1 => false,
			_ => i % 2 == 0,
		};
		if array {
			v.push('[');
			closers.insert(0, ']');
		} else {
			v.push_str("{\"k\":");
			closers.insert(0, '}');
		}
	}
	v.push_str(inner);
	v.push_str(&closers);
	v.into_bytes()
}

const SIZES: [usize; 12] = [0, 1, 15, 16, 17, 31, 32, 33, 255, 256, 65535, 65536];

pub fn run(out: &mut Out, rng: &mut Rng, thorough: bool) {
	let opts = GenOpts { max_depth: 4, max_width: 5, ..GenOpts::cdm() }.for_formats(&[Fmt::Json, Fmt::Msgpack]);
	let nofloat = GenOpts { floats: false, ..opts };

	// ---- generated documents, every spelling level, both directions
	let n = if thorough { 4000 } else { 500 };
	let mut jtexts: Vec<Vec<u8>> = vec![];
	let mut mtexts: Vec<Vec<u8>> = vec![];
	for i in 0..n {
		let o = if i % 3 == 0 { opts } else { nofloat };
		let deep = rng.range(1, 100) as usize;
		let v = if i % 10 == 9 { gen_deep(rng, &o, deep) } else { gen_doc(rng, &o) };
		for level in 0..3u8 {
			let sp = Spelling { level, salt: rng.next() };
			if let Some(t) = to_json(&v, &sp) {
				j2m_case(out, t.as_bytes(), "generated_document");
				jtexts.push(t.into_bytes());
			}
			let m = to_msgpack(&v, &sp);
			m2j_case(out, &m, "generated_document");
			mtexts.push(m);
		}
	}
	out.count("bridge.every_spelling_level_0_1_2");

	// ---- nasty strings and integers, as values and as keys
	for s in NASTY_STRINGS {
		let v = Val::Map(vec![(Val::Str(s.to_string()), Val::Seq(vec![Val::Str(s.to_string()), Val::Null]))]);
		for level in 0..3u8 {
			let sp = Spelling { level, salt: rng.next() };
			if let Some(t) = to_json(&v, &sp) {
				j2m_case(out, t.as_bytes(), "nasty_string");
			}
			m2j_case(out, &to_msgpack(&v, &sp), "nasty_string");
		}
	}
	for i in NASTY_INTS {
		for d in [-1i128, 0, 1] {
			let (a, b) = (i + d, -(i + d));
			// beyond u64 / below i64 these are floats for serde_json
			j2m_case(out, format!("[{a},{b}]").as_bytes(), "nasty_int");
			j2m_case(out, format!("{a}").as_bytes(), "nasty_int");
			j2m_case(out, format!("{{\"n\":{b}}}").as_bytes(), "nasty_int");
			for x in [a, b] {
				if x >= -(1i128 << 63) && x < (1i128 << 64) {
					for level in 0..3u8 {
						for salt in 0..4u64 {
							let sp = Spelling { level, salt: salt.wrapping_mul(0x9E37_79B9_7F4A_7C15) ^ rng.next() };
							m2j_case(out, &to_msgpack(&Val::Seq(vec![Val::Int(x)]), &sp), "nasty_int");
						}
					}
				}
			}
		}
	}
	for t in ["-0", "[-0]", "-0.0", "0", "1e2", "1E2", "100", "1.0", "[1,1.0,1e0]", "18446744073709551616", "-9223372036854775809", "1e400", "[1e400]", "5", "[5]"] {
		j2m_case(out, t.as_bytes(), "integer_vs_float");
	}

	// ---- every integer marker with boundary payloads: a non-negative integer
	// in a signed marker, non-minimal widths
	for &(m, w) in &[(0xccu8, 1usize), (0xcd, 2), (0xce, 4), (0xcf, 8), (0xd0, 1), (0xd1, 2), (0xd2, 4), (0xd3, 8)] {
		for pat in [0u64, 1, 5, 0x7f, 0x80, 0xff, 0x100, 0x7fff, 0x8000, 0xffff, 0x7fff_ffff, 0x8000_0000, 0xffff_ffff, 0x7fff_ffff_ffff_ffff, 0x8000_0000_0000_0000, u64::MAX] {
			let mut v = vec![0x92, m];
			v.extend_from_slice(&pat.to_be_bytes()[8 - w..]);
			v.push(m);
			v.extend_from_slice(&(!pat).to_be_bytes()[8 - w..]);
			m2j_case(out, &v, "integer_marker_table");
			// the same as a map key
			let mut k = vec![0x81, m];
			k.extend_from_slice(&pat.to_be_bytes()[8 - w..]);
			k.push(0xc0);
			m2j_case(out, &k, "integer_marker_table_key");
		}
	}
	for b in 0..=255u8 {
		// every marker byte as a one-byte document followed by enough payload
		let mut v = vec![b];
		v.extend_from_slice(&[0x01, 0xa1, 0x61, 0x01, 0x02, 0x03, 0x04, 0x05, 0x06, 0x07, 0x08, 0x09, 0x0a, 0x0b, 0x0c, 0x0d, 0x0e, 0x0f, 0x10, 0x11]);
		m2j_case(out, &v, "every_first_byte");
		// … and in key position
		let mut k = vec![0x81, b];
		k.extend_from_slice(&[0x01, 0xa1, 0x61, 0x01, 0x02, 0x03, 0x04, 0x05, 0x06, 0x07, 0x08, 0x09, 0x0a, 0x0b, 0x0c, 0x0d, 0x0e, 0x0f, 0x10, 0x11]);
		m2j_case(out, &k, "every_byte_as_key");
		// every byte inside a JSON string / after a scalar
		j2m_case(out, &[b'"', b, b'"'], "byte_in_string");
		j2m_case(out, &[b'[', b'1', b, b'2', b']'], "byte_in_array");
	}
	out.count("bridge.exhaustive_every_marker_byte_as_value_and_as_key");

	// ---- MessagePack values in every width spelling, any keys, bin, ext, floats, ill-formed strings
	let any = mp::GenOpts { ext: false, any_keys: true, max_len: 300 };
	let with_ext = mp::GenOpts { ext: true, any_keys: true, max_len: 40 };
	let str_keys = mp::GenOpts { ext: false, any_keys: false, max_len: 300 };
	let n = if thorough { 6000 } else { 900 };
	let mut spelled: Vec<Vec<u8>> = vec![];
	for i in 0..n {
		let o = match i % 7 {
			0 => with_ext,
			1 | 2 | 3 => str_keys,
			_ => any,
		};
		let docs = *rng.pick(&[1usize, 1, 1, 2, 3]);
		let mut bytes = vec![];
		for _ in 0..docs {
			let v = mp::gen_value(rng, (i % 5) as u32, o);
			mp::spell(&v, rng, i % 3 == 0, &mut bytes);
		}
		if bytes.len() > 3000 {
			continue;
		}
		m2j_case(out, &bytes, "spelled_value");
		spelled.push(bytes);
	}
	// `non_minimal_spellings_irrelevant` at the implementation level: a random
	// spelling and the minimal spelling of the same value give the same JSON.
	for _ in 0..(if thorough { 3000 } else { 500 }) {
		let depth = rng.below(4) as u32;
		let v = mp::gen_value(rng, depth, any);
		let mut wide = vec![];
		mp::spell(&v, rng, false, &mut wide);
		let min = mp::encode_min(&v);
		let a = translate(&wide, &Supply::Slice, Some(Fmt::Msgpack), Fmt::Json);
		let b = translate(&min, &Supply::Reader(vec![]), Some(Fmt::Msgpack), Fmt::Json);
		out.eval("non_minimal_spellings_irrelevant", &hex(&wide), wide != min);
		if a != b {
			out.fail("non_minimal_spellings_irrelevant", "", format!("spelling {} gives {} but the minimal spelling {} gives {}", hex(&wide), a.describe(), hex(&min), b.describe()));
		}
	}

	// ---- keys JSON cannot have, values JSON does not have
	let keys: &[(&str, MV)] = &[
		("nil", MV::Nil),
		("true", MV::Bool(true)),
		("uint", MV::UInt(7)),
		("nint", MV::NInt(-7)),
		("f64", MV::F64(0x3ff8_0000_0000_0000)),
		("f32", MV::F32(0x3fc0_0000)),
		("nan", MV::F64(0x7ff8_0000_0000_0000)),
		("inf32", MV::F32(0x7f80_0000)),
		("bin", MV::Bin(vec![1, 2])),
		("badstr", MV::Str(vec![0xff])),
		("arr", MV::Arr(vec![])),
		("map", MV::Map(vec![])),
		("str", MV::Str(b"k".to_vec())),
	];
	for (_, k) in keys {
		for pos in 0..3usize {
			// the key at entry `pos` of a 3-entry map, inside an array, after a complete document
			let mut entries: Vec<(MV, MV)> = (0..3).map(|i| (MV::Str(format!("s{i}").into_bytes()), MV::UInt(i as u64))).collect();
			entries[pos].0 = k.clone();
			let doc = MV::Arr(vec![MV::UInt(1), MV::Map(entries.clone())]);
			let mut bytes = mp::encode_min(&MV::Str(b"first".to_vec()));
			bytes.extend(mp::encode_min(&doc));
			bytes.extend(mp::encode_min(&MV::UInt(9)));
			m2j_case(out, &bytes, "key_kinds");
			m2j_case(out, &mp::encode_min(&MV::Map(entries)), "key_kinds");
			// as a value it is fine (bin → array of numbers, NaN → null)
			m2j_case(out, &mp::encode_min(&MV::Arr(vec![k.clone(), MV::Map(vec![(MV::Str(b"v".to_vec()), k.clone())])])), "value_kinds");
		}
	}
	out.count("bridge.exhaustive_13_key_kinds_x_3_positions");

	// ---- collection and string sizes at the header-width boundaries
	for &n in SIZES.iter() {
		for kind in 0..4 {
			if n >= 65535 && !thorough && kind == 3 {
				continue;
			}
			j2m_case(out, &json_collection(n, kind), "size_boundary");
		}
		let reps = if n >= 65535 { 1 } else { 2 };
		for extra in 0..reps {
			// array / map / str / bin of n elements, minimal and widened headers
			let mut a = vec![];
			let hdr = |out: &mut Vec<u8>, fix: Option<(u8, usize)>, m8: Option<u8>, m16: u8, m32: u8| {
				if let (Some((f, max)), 0) = (fix, extra) {
					if n <= max {
						out.push(f | n as u8);
						return;
					}
				}
				if let (Some(m), true, 0) = (m8, n < 256, extra) {
					out.push(m);
					out.push(n as u8);
				} else if n < 65536 && extra == 0 {
					out.push(m16);
					out.extend_from_slice(&(n as u16).to_be_bytes());
				} else {
					out.push(m32);
					out.extend_from_slice(&(n as u32).to_be_bytes());
				}
			};
			hdr(&mut a, Some((0x90, 15)), None, 0xdc, 0xdd);
			a.extend((0..n).map(|i| (i % 100) as u8));
			m2j_case(out, &a, "size_boundary");
			let mut m = vec![];
			hdr(&mut m, Some((0x80, 15)), None, 0xde, 0xdf);
			for i in 0..n {
				if n >= 65535 {
					// (the model's `readN` measures the rest of the input on every
					// call, so 65 536 string keys cost it minutes; integer keys —
					// written as quoted strings — are read without it)
					m.push((i % 128) as u8);
				} else {
					let k = format!("{i}");
					m.push(0xa0 | k.len() as u8);
					m.extend_from_slice(k.as_bytes());
				}
				m.push((i % 100) as u8);
			}
			m2j_case(out, &m, "size_boundary");
			let mut s = vec![];
			hdr(&mut s, Some((0xa0, 31)), Some(0xd9), 0xda, 0xdb);
			s.extend(std::iter::repeat(b'z').take(n));
			m2j_case(out, &s, "size_boundary");
			let mut b = vec![];
			hdr(&mut b, None, Some(0xc4), 0xc5, 0xc6);
			b.extend((0..n).map(|i| (i % 251) as u8));
			m2j_case(out, &b, "size_boundary");
		}
	}
	out.count("bridge.sizes_0_1_15_16_17_31_32_33_255_256_65535_65536");

	// ---- nesting windows: JSON's 127/128 as a source; as a target JSON has no limit
	for n in 124..=131usize {
		for shape in 0..3 {
			for inner in ["1", "[]", "{}", "\"s\""] {
				j2m_case(out, &json_nest(n, shape, inner), "nesting_127_128");
			}
		}
		let mut two = json_nest(n, 2, "1");
		two.push(b' ');
		two.extend(json_nest(3, 2, "2"));
		j2m_case(out, &two, "nesting_two_documents");
		for name in ["arrays", "maps", "alternating", "random"] {
			let ws = mp::shape(name, n, rng);
			m2j_case(out, &mp::nest(&ws, &[0x07], &[0xa1, 0x6b]), "nesting_127_128");
		}
	}
	let limit = xt::verif::MSGPACK_DEPTH_LIMIT;
	for n in (limit - 3)..=(limit + 2) {
		for name in ["arrays", "maps", "alternating", "keypos", "random"] {
			for (_, core) in mp::CORES.iter() {
				let ws = mp::shape(name, n, rng);
				m2j_case(out, &mp::nest(&ws, core, &[0xa1, 0x6b]), "nesting_1023_1024");
			}
		}
	}

	// ---- multi-document streams
	let seps: &[&[u8]] = &[b"\n", b" ", b"", b"\t", b"\r\n", b"\n\n", b",", b"x"];
	for _ in 0..(if thorough { 2500 } else { 400 }) {
		let k = rng.range(2, 5) as usize;
		let sep = *rng.pick(seps);
		let mut s = vec![];
		let mut m = vec![];
		for i in 0..k {
			if i > 0 {
				s.extend_from_slice(sep);
			}
			let jt: &Vec<u8> = rng.pick(&jtexts);
			s.extend_from_slice(jt);
			let mt: &Vec<u8> = if rng.chance(1, 3) { rng.pick(&spelled) } else { rng.pick(&mtexts) };
			m.extend_from_slice(mt);
		}
		j2m_case(out, &s, "stream");
		if m.len() < 4000 {
			m2j_case(out, &m, "stream");
		}
	}
	for s in ["truefalse", "1 2", "12", "1,2", "[]1", "\"a\"\"b\"", "{}{}", "null0", "1\u{0}", "", " ", "\n"] {
		j2m_case(out, s.as_bytes(), "special_stream");
	}
	m2j_case(out, &[], "special_stream");

	// ---- mutated and truncated inputs
	for _ in 0..(if thorough { 12000 } else { 1800 }) {
		let jt: Vec<u8> = rng.pick(&jtexts).clone();
		j2m_case(out, &mutate(&jt, rng), "mutated");
		let src: Vec<u8> = if rng.chance(1, 2) { rng.pick(&spelled).clone() } else { rng.pick(&mtexts).clone() };
		let m = mutate(&src, rng);
		if m.len() < 4000 {
			m2j_case(out, &m, "mutated");
		}
	}
	for _ in 0..(if thorough { 300 } else { 50 }) {
		let t: Vec<u8> = rng.pick(&jtexts).clone();
		if t.len() <= 150 {
			for k in 0..t.len() {
				j2m_case(out, &t[..k], "every_truncation");
			}
		}
		let m: Vec<u8> = if rng.chance(1, 2) { rng.pick(&spelled).clone() } else { rng.pick(&mtexts).clone() };
		if m.len() <= 150 {
			for k in 0..m.len() {
				m2j_case(out, &m[..k], "every_truncation");
			}
		}
	}

	// ---- there and back (`roundtrip_j_m_j`): xt's own JSON output → MessagePack → JSON
	for _ in 0..(if thorough { 3000 } else { 400 }) {
		let v = gen_doc(rng, &nofloat);
		let Some(t) = to_json(&v, &Spelling::random(rng)) else { continue };
		let own = translate(t.as_bytes(), &Supply::Slice, Some(Fmt::Json), Fmt::Json);
		if !own.ok() {
			continue;
		}
		let supply = |rng: &mut Rng| if rng.chance(1, 2) { Supply::Slice } else { Supply::Reader(vec![]) };
		let m = translate(&own.output, &supply(rng), Some(Fmt::Json), Fmt::Msgpack);
		let back = translate(&m.output, &supply(rng), Some(Fmt::Msgpack), Fmt::Json);
		out.eval("roundtrip_j_m_j", &hex(&own.output), true);
		if !m.ok() || !back.ok() || back.output != own.output {
			out.fail("roundtrip_j_m_j", "", format!("json {} → msgpack {} → json {}", hex(&own.output), m.describe(), back.describe()));
		}
	}
}
