//! Engines `msgsize` / `msgclass` / `msgconst`: xt's MessagePack size
//! calculator (`next_value_size`, through the `msgpack_value_size` hook) and
//! `rmp::Marker::from_u8`, answered by the real code; the Lean model answers
//! the same case lines.  Also the shared MessagePack value generator with
//! every width spelling, and the nesting-shape builders used by C18.

use crate::out::Out;
use crate::util::{catch, hex, Rng};

/// A MessagePack value as the generator sees it.
#[derive(Clone, Debug, PartialEq)]
pub enum MV {
	Nil,
	Bool(bool),
	UInt(u64),
	/// A negative integer.
	NInt(i64),
	F32(u32),
	F64(u64),
	Str(Vec<u8>),
	Bin(Vec<u8>),
	Arr(Vec<MV>),
	Map(Vec<(MV, MV)>),
	Ext(u8, Vec<u8>),
}

/// How wide to spell a length or an integer: 0 = minimal, k > 0 = k steps wider
/// than minimal where the format allows it.
fn widen(rng: &mut Rng, minimal: bool) -> u32 {
	if minimal || rng.chance(1, 2) {
		0
	} else {
		rng.range(1, 3) as u32
	}
}

fn put_len(out: &mut Vec<u8>, len: usize, fix: Option<(u8, usize)>, m8: Option<u8>, m16: u8, m32: u8, extra: u32) {
	// candidates from narrowest to widest
	let mut cands: Vec<u8> = vec![];
	if let Some((_, max)) = fix {
		if len <= max {
			cands.push(0);
		}
	}
	if m8.is_some() && len < 256 {
		cands.push(1);
	}
	if len < 65536 {
		cands.push(2);
	}
	cands.push(4);
	let pick = cands[(extra as usize).min(cands.len() - 1)];
	match pick {
		0 => out.push(fix.unwrap().0 | len as u8),
		1 => {
			out.push(m8.unwrap());
			out.push(len as u8);
		}
		2 => {
			out.push(m16);
			out.extend_from_slice(&(len as u16).to_be_bytes());
		}
		_ => {
			out.push(m32);
			out.extend_from_slice(&(len as u32).to_be_bytes());
		}
	}
}

/// Encodes `v`; with `minimal` it is exactly what rmp_serde's serializer
/// writes, otherwise a random legal spelling (wider integers, signed markers
/// for non-negative values, str8/16/32, bin16/32, array16/32, map16/32, ext8/16/32).
pub fn spell(v: &MV, rng: &mut Rng, minimal: bool, out: &mut Vec<u8>) {
	match v {
		MV::Nil => out.push(0xc0),
		MV::Bool(b) => out.push(if *b { 0xc3 } else { 0xc2 }),
		MV::UInt(n) => {
			let n = *n;
			let extra = widen(rng, minimal);
			let signed = !minimal && rng.chance(1, 3);
			// widths: 0 fix, 1, 2, 4, 8
			let mut cands: Vec<u8> = vec![];
			if signed {
				if n < 128 {
					cands.push(0);
					cands.push(1);
				}
				if n < 32768 {
					cands.push(2);
				}
				if n < 1 << 31 {
					cands.push(4);
				}
				if n < 1 << 63 {
					cands.push(8);
				}
			}
			if cands.is_empty() {
				if n < 128 {
					cands.push(0);
				}
				if n < 256 {
					cands.push(1);
				}
				if n < 65536 {
					cands.push(2);
				}
				if n < 1 << 32 {
					cands.push(4);
				}
				cands.push(8);
				let pick = cands[(extra as usize).min(cands.len() - 1)];
				match pick {
					0 => out.push(n as u8),
					1 => {
						out.push(0xcc);
						out.push(n as u8);
					}
					2 => {
						out.push(0xcd);
						out.extend_from_slice(&(n as u16).to_be_bytes());
					}
					4 => {
						out.push(0xce);
						out.extend_from_slice(&(n as u32).to_be_bytes());
					}
					_ => {
						out.push(0xcf);
						out.extend_from_slice(&n.to_be_bytes());
					}
				}
			} else {
				let pick = cands[(extra as usize).min(cands.len() - 1)];
				match pick {
					0 => out.push(n as u8),
					1 => {
						out.push(0xd0);
						out.push(n as u8);
					}
					2 => {
						out.push(0xd1);
						out.extend_from_slice(&(n as i16).to_be_bytes());
					}
					4 => {
						out.push(0xd2);
						out.extend_from_slice(&(n as i32).to_be_bytes());
					}
					_ => {
						out.push(0xd3);
						out.extend_from_slice(&(n as i64).to_be_bytes());
					}
				}
			}
		}
		MV::NInt(n) => {
			let n = *n;
			let extra = widen(rng, minimal);
			let mut cands: Vec<u8> = vec![];
			if n >= -32 {
				cands.push(0);
			}
			if n >= -128 {
				cands.push(1);
			}
			if n >= -32768 {
				cands.push(2);
			}
			if n >= -(1 << 31) {
				cands.push(4);
			}
			cands.push(8);
			let pick = cands[(extra as usize).min(cands.len() - 1)];
			match pick {
				0 => out.push(n as i8 as u8),
				1 => {
					out.push(0xd0);
					out.push(n as i8 as u8);
				}
				2 => {
					out.push(0xd1);
					out.extend_from_slice(&(n as i16).to_be_bytes());
				}
				4 => {
					out.push(0xd2);
					out.extend_from_slice(&(n as i32).to_be_bytes());
				}
				_ => {
					out.push(0xd3);
					out.extend_from_slice(&n.to_be_bytes());
				}
			}
		}
		MV::F32(bits) => {
			out.push(0xca);
			out.extend_from_slice(&bits.to_be_bytes());
		}
		MV::F64(bits) => {
			out.push(0xcb);
			out.extend_from_slice(&bits.to_be_bytes());
		}
		MV::Str(s) => {
			put_len(out, s.len(), Some((0xa0, 31)), Some(0xd9), 0xda, 0xdb, widen(rng, minimal));
			out.extend_from_slice(s);
		}
		MV::Bin(s) => {
			put_len(out, s.len(), None, Some(0xc4), 0xc5, 0xc6, widen(rng, minimal));
			out.extend_from_slice(s);
		}
		MV::Arr(xs) => {
			put_len(out, xs.len(), Some((0x90, 15)), None, 0xdc, 0xdd, widen(rng, minimal));
			for x in xs {
				spell(x, rng, minimal, out);
			}
		}
		MV::Map(kvs) => {
			put_len(out, kvs.len(), Some((0x80, 15)), None, 0xde, 0xdf, widen(rng, minimal));
			for (k, v) in kvs {
				spell(k, rng, minimal, out);
				spell(v, rng, minimal, out);
			}
		}
		MV::Ext(ty, data) => {
			let fix = match data.len() {
				1 => Some(0xd4u8),
				2 => Some(0xd5),
				4 => Some(0xd6),
				8 => Some(0xd7),
				16 => Some(0xd8),
				_ => None,
			};
			let extra = widen(rng, minimal);
			if let (Some(m), 0) = (fix, extra) {
				out.push(m);
			} else {
				let mut cands: Vec<u8> = vec![];
				if data.len() < 256 {
					cands.push(1);
				}
				if data.len() < 65536 {
					cands.push(2);
				}
				cands.push(4);
				let pick = cands[(extra.saturating_sub(if fix.is_some() { 1 } else { 0 }) as usize).min(cands.len() - 1)];
				match pick {
					1 => {
						out.push(0xc7);
						out.push(data.len() as u8);
					}
					2 => {
						out.push(0xc8);
						out.extend_from_slice(&(data.len() as u16).to_be_bytes());
					}
					_ => {
						out.push(0xc9);
						out.extend_from_slice(&(data.len() as u32).to_be_bytes());
					}
				}
			}
			out.push(*ty);
			out.extend_from_slice(data);
		}
	}
}

pub fn encode_min(v: &MV) -> Vec<u8> {
	let mut out = vec![];
	spell(v, &mut Rng::new(0), true, &mut out);
	out
}

const UINT_EDGES: &[u64] = &[
	0, 1, 31, 32, 127, 128, 255, 256, 32767, 32768, 65535, 65536, 0x7fff_ffff, 0x8000_0000, 0xffff_ffff, 0x1_0000_0000,
	0x7fff_ffff_ffff_ffff, 0x8000_0000_0000_0000, 0xffff_ffff_ffff_ffff,
];
const NINT_EDGES: &[i64] = &[-1, -31, -32, -33, -127, -128, -129, -32767, -32768, -32769, -0x7fff_ffff, -0x8000_0000, -0x8000_0001, i64::MIN + 1, i64::MIN];
const STR_POOL: &[&[u8]] = &[
	b"", b"a", b"xt", b"key", "é".as_bytes(), "\u{7ff}\u{800}".as_bytes(), "\u{ffff}\u{10000}\u{10ffff}".as_bytes(), b"\x00\x7f", b"0123456789abcdef0123456789abcde",
	b"0123456789abcdef0123456789abcdef",
	// ill-formed UTF-8: lone continuation, overlong, surrogate, too large, truncated
	b"\x80", b"\xc0\x80", b"\xc1\xbf", b"\xe0\x80\x80", b"\xe0\x9f\xbf", b"\xed\xa0\x80", b"\xed\xbf\xbf", b"\xf0\x80\x80\x80", b"\xf0\x8f\xbf\xbf",
	b"\xf4\x90\x80\x80", b"\xf5\x80\x80\x80", b"\xc2", b"\xe1\x80", b"\xf1\x80\x80", b"a\xffb", b"\xf8\x88\x80\x80\x80",
	// well-formed boundaries
	b"\xc2\x80", b"\xdf\xbf", b"\xe0\xa0\x80", b"\xed\x9f\xbf", b"\xee\x80\x80", b"\xef\xbf\xbf", b"\xf0\x90\x80\x80", b"\xf4\x8f\xbf\xbf",
];

/// Generator options.
#[derive(Clone, Copy)]
pub struct GenOpts {
	/// allow ext values (xt cannot translate them)
	pub ext: bool,
	/// allow non-string map keys
	pub any_keys: bool,
	pub max_len: usize,
}

pub fn gen_scalar(rng: &mut Rng, o: GenOpts) -> MV {
	match rng.below(if o.ext { 12 } else { 11 }) {
		0 => MV::Nil,
		1 => MV::Bool(rng.chance(1, 2)),
		2 => MV::UInt(*rng.pick(UINT_EDGES)),
		3 => MV::UInt(rng.next() >> rng.below(64)),
		4 => MV::NInt(*rng.pick(NINT_EDGES)),
		5 => MV::NInt(-1 - ((rng.next() >> 1) >> rng.below(63)) as i64),
		6 => MV::F32(if rng.chance(1, 2) { *rng.pick(&[0u32, 0x8000_0000, 0x3f80_0000, 0x7f80_0000, 0xff80_0000, 0x7fc0_0000, 1, 0x7f7f_ffff]) } else { rng.next() as u32 }),
		7 => MV::F64(if rng.chance(1, 2) {
			*rng.pick(&[0u64, 0x8000_0000_0000_0000, 0x3ff0_0000_0000_0000, 0x7ff0_0000_0000_0000, 0xfff0_0000_0000_0000, 0x7ff8_0000_0000_0000, 1, 0x4340_0000_0000_0001])
		} else {
			rng.next()
		}),
		8 | 9 => {
			if rng.chance(2, 3) {
				MV::Str(rng.pick(STR_POOL).to_vec())
			} else {
				let len = *rng.pick(&[0usize, 1, 5, 31, 32, 33, 255, 256, 300]);
				MV::Str((0..len.min(o.max_len)).map(|_| rng.range(0x20, 0x7e) as u8).collect())
			}
		}
		10 => {
			let len = *rng.pick(&[0usize, 1, 2, 7, 255, 256, 257]);
			MV::Bin((0..len.min(o.max_len)).map(|_| rng.below(256) as u8).collect())
		}
		_ => {
			let len = *rng.pick(&[0usize, 1, 2, 3, 4, 5, 8, 16, 17, 255, 256]);
			MV::Ext(rng.below(256) as u8, (0..len.min(o.max_len)).map(|_| rng.below(256) as u8).collect())
		}
	}
}

pub fn gen_value(rng: &mut Rng, depth: u32, o: GenOpts) -> MV {
	if depth == 0 || rng.chance(2, 5) {
		return gen_scalar(rng, o);
	}
	let n = *rng.pick(&[0usize, 1, 1, 2, 2, 3, 4, 15, 16, 17]);
	let n = n.min(o.max_len.max(1));
	if rng.chance(1, 2) {
		MV::Arr((0..n).map(|_| gen_value(rng, depth - 1, o)).collect())
	} else {
		MV::Map(
			(0..n)
				.map(|i| {
					let k = if o.any_keys && rng.chance(1, 3) {
						gen_value(rng, depth - 1, o)
					} else {
						MV::Str(format!("k{i}").into_bytes())
					};
					(k, gen_value(rng, depth - 1, o))
				})
				.collect(),
		)
	}
}

/// One level of nesting around an inner value.
#[derive(Clone, Copy, Debug, PartialEq)]
pub enum Wrap {
	/// `[inner]` with header width 0 (fix), 2 or 4
	Arr(u8),
	/// `{inner: nil}`
	MapKey(u8),
	/// `{nil: inner}`  (`{"k": inner}` when `str_key`)
	MapVal(u8),
}

pub fn wrap_header(w: Wrap, out: &mut Vec<u8>) {
	let (fix, m16, m32, width) = match w {
		Wrap::Arr(width) => (0x91u8, 0xdcu8, 0xddu8, width),
		Wrap::MapKey(width) | Wrap::MapVal(width) => (0x81, 0xde, 0xdf, width),
	};
	match width {
		0 => out.push(fix),
		2 => out.extend_from_slice(&[m16, 0, 1]),
		_ => out.extend_from_slice(&[m32, 0, 0, 0, 1]),
	}
}

/// The bytes of `ws[0]( ws[1]( … core … ))`; map keys are `key` (a complete
/// encoded value, e.g. `c0` or `a1 6b`).
pub fn nest(ws: &[Wrap], core: &[u8], key: &[u8]) -> Vec<u8> {
	let mut out = vec![];
	for w in ws {
		wrap_header(*w, &mut out);
		if let Wrap::MapVal(_) = w {
			out.extend_from_slice(key);
		}
	}
	out.extend_from_slice(core);
	for w in ws.iter().rev() {
		if let Wrap::MapKey(_) = w {
			out.extend_from_slice(key);
		}
	}
	out
}

pub const SHAPE_NAMES: [&str; 8] = ["arrays", "maps", "alternating", "keypos", "random", "array16", "map32", "mixed-keypos"];

/// The nesting shapes of C18: `n` wrappers of the named kind.
pub fn shape(name: &str, n: usize, rng: &mut Rng) -> Vec<Wrap> {
	(0..n)
		.map(|i| match name {
			"arrays" => Wrap::Arr(0),
			"maps" => Wrap::MapVal(0),
			"alternating" => {
				if i % 2 == 0 {
					Wrap::Arr(0)
				} else {
					Wrap::MapVal(0)
				}
			}
			"keypos" => Wrap::MapKey(0),
			"array16" => Wrap::Arr(2),
			"map32" => Wrap::MapVal(4),
			"mixed-keypos" => match i % 3 {
				0 => Wrap::MapKey(2),
				1 => Wrap::Arr(4),
				_ => Wrap::MapVal(0),
			},
			_ => {
				let width = *rng.pick(&[0u8, 0, 0, 2, 4]);
				match rng.below(3) {
					0 => Wrap::Arr(width),
					1 => Wrap::MapVal(width),
					_ => Wrap::MapKey(width),
				}
			}
		})
		.collect()
}

/// Innermost values for the nesting shapes: a scalar, a string, empty
/// collections (which count as one more collection), an ext.
pub const CORES: [(&str, &[u8]); 6] = [("nil", &[0xc0]), ("int", &[0x07]), ("str", &[0xa1, 0x78]), ("empty-array", &[0x90]), ("empty-map", &[0x80]), ("fixext1", &[0xd4, 0x01, 0x02])];

fn size_token(bytes: &[u8], depth: usize) -> String {
	match catch(|| xt::verif::msgpack_value_size(bytes, depth)) {
		Ok(Ok(n)) => format!("ok:{n}"),
		Ok(Err(0)) => "trunc".to_string(),
		Ok(Err(1)) => "marker".to_string(),
		Ok(Err(2)) => "depth".to_string(),
		Ok(Err(k)) => format!("unknown-error-code:{k}"),
		Err(p) => format!("panic:{}", p.replace(' ', "_")),
	}
}

pub fn size_case(out: &mut Out, bytes: &[u8], depth: usize) {
	let tok = size_token(bytes, depth);
	out.count(&format!("msgsize.answer.{}", tok.split(':').next().unwrap()));
	out.case("msgsize", &format!("{depth} {}", hex(bytes)), &tok, !bytes.is_empty() && depth > 0);
}

fn mutate(rng: &mut Rng, bytes: &[u8]) -> Vec<u8> {
	let mut v = bytes.to_vec();
	const MARKERS: &[u8] = &[
		0x00, 0x7f, 0x80, 0x81, 0x8f, 0x90, 0x91, 0x9f, 0xa0, 0xa1, 0xbf, 0xc0, 0xc1, 0xc2, 0xc3, 0xc4, 0xc5, 0xc6, 0xc7, 0xc8, 0xc9, 0xca, 0xcb, 0xcc, 0xcd, 0xce, 0xcf,
		0xd0, 0xd1, 0xd2, 0xd3, 0xd4, 0xd5, 0xd6, 0xd7, 0xd8, 0xd9, 0xda, 0xdb, 0xdc, 0xdd, 0xde, 0xdf, 0xe0, 0xff,
	];
	for _ in 0..rng.range(1, 3) {
		if v.is_empty() {
			v.push(*rng.pick(MARKERS));
			continue;
		}
		let i = rng.below(v.len() as u64) as usize;
		match rng.below(6) {
			0 => v[i] = *rng.pick(MARKERS),
			1 => v[i] = rng.below(256) as u8,
			2 => {
				v.remove(i);
			}
			3 => v.insert(i, *rng.pick(MARKERS)),
			4 => {
				// splice: copy a piece of the value over another place
				let j = rng.below(v.len() as u64) as usize;
				let len = rng.range(1, 4) as usize;
				let piece: Vec<u8> = v[j..(j + len).min(v.len())].to_vec();
				for (k, b) in piece.iter().enumerate() {
					if i + k < v.len() {
						v[i + k] = *b;
					}
				}
			}
			_ => v[i] ^= 1 << rng.below(8),
		}
	}
	v
}

pub fn run_size(out: &mut Out, rng: &mut Rng, thorough: bool) {
	let limit = xt::verif::MSGPACK_DEPTH_LIMIT;
	out.case("msgconst", "depth_limit", &limit.to_string(), true);

	// 1. Marker::from_u8 for all 256 bytes; the size of every single byte alone
	//    and followed by a few tails, at several depth budgets.
	let tails: [&[u8]; 6] = [&[], &[0x00], &[0x00, 0x00, 0x00, 0x02, 0xc0, 0xc0], &[0x01, 0xc0, 0xc0, 0xc0], &[0xff, 0xff, 0xff, 0xff, 0x01], &[0xc0; 20]];
	for b in 0..=255u8 {
		out.case("msgclass", &b.to_string(), &format!("{:?}", rmp::Marker::from_u8(b)), true);
		for tail in tails.iter() {
			let mut v = vec![b];
			v.extend_from_slice(tail);
			for depth in [limit, 0, 1, 2] {
				size_case(out, &v, depth);
			}
		}
	}
	out.count("msgclass.exhaustive_256");
	out.count("msgsize.every_first_byte_x6_tails_x4_depths");
	for depth in [0usize, 1, 2, limit, usize::MAX] {
		size_case(out, &[], depth);
	}

	// 2. Generated valid values in every spelling; truncated at every length;
	//    mutated; at depth budgets around their own nesting.
	let n_values = if thorough { 6000 } else { 700 };
	let opts = GenOpts { ext: true, any_keys: true, max_len: 300 };
	for i in 0..n_values {
		let v = gen_value(rng, (i % 5) as u32, opts);
		let mut bytes = vec![];
		spell(&v, rng, i % 4 == 0, &mut bytes);
		if bytes.len() > 3000 {
			continue;
		}
		size_case(out, &bytes, limit);
		for depth in 0..=6usize {
			if thorough || rng.chance(1, 3) {
				size_case(out, &bytes, depth);
			}
		}
		// followed by more data
		let mut longer = bytes.clone();
		longer.extend_from_slice(&[0xc1, 0x92]);
		size_case(out, &longer, limit);
		// truncations
		if bytes.len() <= 80 || (thorough && bytes.len() <= 400) {
			for len in 0..bytes.len() {
				size_case(out, &bytes[..len], limit);
			}
		} else {
			for _ in 0..12 {
				let len = rng.below(bytes.len() as u64) as usize;
				size_case(out, &bytes[..len], limit);
			}
		}
		for _ in 0..(if thorough { 8 } else { 3 }) {
			let m = mutate(rng, &bytes);
			size_case(out, &m, limit);
			size_case(out, &m, rng.range(1, 4) as usize);
		}
	}

	// 3. Length prefixes up to 2^32 - 1 on every length-prefixed marker.
	let big: &[u32] = &[0, 1, 2, 255, 256, 65535, 65536, 0x7fff_ffff, 0x8000_0000, 0xffff_fffe, 0xffff_ffff];
	for &m in &[0xc6u8, 0xc9, 0xdb, 0xdd, 0xdf] {
		for &len in big {
			for payload in [0usize, 1, 2, 7, 300] {
				let mut v = vec![m];
				v.extend_from_slice(&len.to_be_bytes());
				v.extend(std::iter::repeat(0x01).take(payload));
				size_case(out, &v, limit);
			}
		}
	}
	for &m in &[0xc5u8, 0xc8, 0xda, 0xdc, 0xde] {
		for len in [0u16, 1, 2, 255, 256, 0x7fff, 0xffff] {
			for payload in [0usize, 1, 2, 7, 300, 600] {
				let mut v = vec![m];
				v.extend_from_slice(&len.to_be_bytes());
				v.extend(std::iter::repeat(0x01).take(payload));
				size_case(out, &v, limit);
			}
		}
	}
	for &m in &[0xc4u8, 0xc7, 0xd9] {
		for len in [0u8, 1, 2, 127, 255] {
			for payload in [0usize, 1, 2, 3, 128, 255, 256, 257] {
				let mut v = vec![m, len];
				v.extend(std::iter::repeat(0x01).take(payload));
				size_case(out, &v, limit);
			}
		}
	}
	// large but real payloads
	for n in [4000usize, 65536 + 3] {
		let mut v = vec![0xdb];
		v.extend_from_slice(&(n as u32).to_be_bytes());
		v.extend(std::iter::repeat(0x61).take(n));
		size_case(out, &v, limit);
		size_case(out, &v[..v.len() - 1], limit);
	}
	for n in [16usize, 1000, 4000] {
		let mut v = vec![0xdd];
		v.extend_from_slice(&(n as u32).to_be_bytes());
		v.extend(std::iter::repeat(0x05).take(n));
		size_case(out, &v, limit);
		size_case(out, &v[..v.len() - 1], limit);
		let mut m = vec![0xde];
		m.extend_from_slice(&(n as u16).to_be_bytes());
		m.extend(std::iter::repeat(0x05).take(2 * n));
		size_case(out, &m, limit);
		size_case(out, &m[..m.len() - 1], limit);
	}

	// 4. Nesting: every shape x every innermost value, n wrappers in the window
	//    around the limit at the real budget, and small n at budgets n-2..n+2.
	for name in SHAPE_NAMES.iter() {
		for (_, core) in CORES.iter() {
			for n in (limit - 6)..=(limit + 6) {
				if !thorough && *name == "random" && n % 3 != 0 {
					continue;
				}
				let ws = shape(name, n, rng);
				let bytes = nest(&ws, core, &[0xc0]);
				size_case(out, &bytes, limit);
				if thorough {
					size_case(out, &bytes[..bytes.len() - 1], limit);
				}
			}
			for n in 0..=(if thorough { 12usize } else { 5 }) {
				let ws = shape(name, n, rng);
				let bytes = nest(&ws, core, &[0xa1, 0x6b]);
				for depth in n.saturating_sub(2)..=n + 3 {
					size_case(out, &bytes, depth);
				}
			}
		}
	}
	out.count("msgsize.depth_window_8_shapes_x6_cores");

	// 5. Token-exhaustive short inputs over marker representatives.
	let toks: &[u8] = &[0x00, 0x80, 0x81, 0x82, 0x90, 0x91, 0x92, 0xa0, 0xa1, 0xc0, 0xc1, 0xc4, 0xc7, 0xcc, 0xcd, 0xd4, 0xd9, 0xdc, 0xde, 0xff];
	let max_len = if thorough { 4 } else { 3 };
	for len in 1..=max_len {
		let total = toks.len().pow(len as u32);
		for idx in 0..total {
			if len == 4 && !rng.chance(1, 4) {
				continue;
			}
			let mut k = idx;
			let v: Vec<u8> = (0..len)
				.map(|_| {
					let b = toks[k % toks.len()];
					k /= toks.len();
					b
				})
				.collect();
			size_case(out, &v, limit);
			size_case(out, &v, 2);
		}
	}
	out.count("msgsize.token_exhaustive_20_tokens");

	// 6. Random bytes biased towards markers.
	for _ in 0..(if thorough { 20000 } else { 2000 }) {
		let len = rng.below(24) as usize;
		let v: Vec<u8> = (0..len)
			.map(|_| match rng.below(4) {
				0 => *rng.pick(toks),
				1 => rng.below(4) as u8,
				_ => rng.below(256) as u8,
			})
			.collect();
		size_case(out, &v, *rng.pick(&[limit, limit, 1, 2, 3, 4]));
	}
}

// ---------------------------------------------------------------------------
// Engines `msgdecode` / `msgdec1`: xt's MessagePack -> MessagePack translation
// (decoder as driven by xt's visitor, rmp_serde's serializer, the slice loop
// and the reader loop), answered by `translate_slice` / `translate_reader` and
// by the `transcode_stream` hook.

use crate::xtapi::{translate, Fmt, Outcome, Supply};
use serde::Deserialize;

/// Maps the text of an xt error for MessagePack input to the model's token.
pub fn err_kind(msg: &str) -> String {
	let k = if msg == "unexpected end of MessagePack input" {
		"trunc"
	} else if msg == "invalid MessagePack marker in input" {
		"marker"
	} else if msg == "depth limit exceeded" {
		"depth"
	} else if msg.starts_with("IO error while reading marker: ") {
		"eof-marker"
	} else if msg.starts_with("IO error while reading data: ") {
		"eof-data"
	} else if msg == "wrong msgpack marker Reserved" {
		"reserved"
	} else if msg == "invalid type: newtype struct, expected any supported value" {
		"ext"
	} else {
		return format!("other:{}", msg.replace(' ', "_"));
	};
	k.to_string()
}

pub fn verdict_token(o: &Outcome) -> String {
	match &o.result {
		Ok(()) => "ok".to_string(),
		Err(e) => format!("err:{}", err_kind(e)),
	}
}

/// Number of complete MessagePack values at the start of `bytes` and their
/// total length (rmp_serde reading into `IgnoredAny`).
pub fn complete_docs(bytes: &[u8]) -> (usize, usize) {
	let mut pos = 0usize;
	let mut n = 0usize;
	while pos < bytes.len() {
		let mut de = rmp_serde::Deserializer::new(std::io::Cursor::new(&bytes[pos..]));
		de.set_max_depth(4096);
		match serde::de::IgnoredAny::deserialize(&mut de) {
			Ok(_) => {
				pos += de.position() as usize;
				n += 1;
			}
			Err(_) => break,
		}
	}
	(n, pos)
}

pub fn reader_supply(rng: &mut Rng) -> Supply {
	match rng.below(4) {
		0 => Supply::Reader(vec![]),
		1 => Supply::Reader(vec![1]),
		2 => Supply::Reader(vec![rng.range(2, 9) as usize]),
		_ => Supply::Reader((0..rng.range(2, 5)).map(|_| rng.range(1, 40) as usize).collect()),
	}
}

/// One `msgdecode` case, plus the implementation-level statements that tie
/// the two modes and the JSON rendering together.
pub fn decode_case(out: &mut Out, rng: &mut Rng, bytes: &[u8]) {
	let limit = xt::verif::MSGPACK_DEPTH_LIMIT;
	let s = translate(bytes, &Supply::Slice, Some(Fmt::Msgpack), Fmt::Msgpack);
	let supply = reader_supply(rng);
	let r = translate(bytes, &supply, Some(Fmt::Msgpack), Fmt::Msgpack);
	let (sn, sb) = complete_docs(&s.output);
	let (rn, rb) = complete_docs(&r.output);
	let answer = format!("slice:{}:{} reader:{}:{} enc:{}", verdict_token(&s), sn, verdict_token(&r), rn, hex(&r.output[..rb]));
	out.count(&format!("msgdecode.slice.{}", verdict_token(&s)));
	out.count(&format!("msgdecode.reader.{}", verdict_token(&r)));
	out.case("msgdecode", &format!("{limit} {}", hex(bytes)), &answer, rn > 0 || !r.ok());

	// slice vs reader at the byte level (the partial output of a failing
	// document is not part of the model)
	out.eval("msgpack_slice_eq_reader", &hex(bytes), !bytes.is_empty());
	let describe = || format!("input {} ({}): slice {} / reader {}", hex(bytes), supply.describe(), s.describe(), r.describe());
	if s.ok() != r.ok() {
		out.fail("depth_verdict_slice_eq_reader", "", format!("verdicts differ: {}", describe()));
	} else if s.ok() && s.output != r.output {
		out.fail("msgpack_slice_eq_reader", "", format!("outputs differ: {}", describe()));
	} else if !r.output.starts_with(&s.output) {
		out.fail("msgpack_slice_prefix_of_reader", "", format!("slice output is not a prefix of the reader output: {}", describe()));
	}
	if s.ok() && (sb != s.output.len() || rb != r.output.len()) {
		out.fail("msgpack_output_is_whole_documents", "", format!("a successful translation left an incomplete document: {}", describe()));
	}
	if s.output.len() < sb || (!s.ok() && s.output[..sb] != r.output[..sb.min(r.output.len())]) {
		out.fail("msgpack_slice_prefix_of_reader", "", format!("complete documents differ: {}", describe()));
	}

	// a second translation of the output changes nothing (msgpack_fixed_point_any_input)
	if s.ok() {
		out.eval("m2m_idempotent", &hex(bytes), sn > 0);
		let again = translate(&s.output, &Supply::Slice, Some(Fmt::Msgpack), Fmt::Msgpack);
		if !again.ok() || again.output != s.output {
			out.fail("m2m_idempotent", "", format!("input {}: first translation wrote {}, translating that again gave {}", hex(bytes), hex(&s.output), again.describe()));
		}
	}

	// document count seen through the JSON rendering: one line per document
	let j = translate(bytes, &Supply::Slice, Some(Fmt::Msgpack), Fmt::Json);
	let lines = j.output.iter().filter(|b| **b == b'\n').count();
	out.eval("json_lines_eq_docs", &hex(bytes), j.ok());
	let same_cause = match (&j.result, &s.result) {
		(Ok(()), Ok(())) => true,
		(Err(a), Err(b)) => a == b,
		_ => false,
	};
	if same_cause {
		out.count("msgdecode.json_count_comparable");
		if lines != sn {
			out.fail("json_lines_eq_docs", "", format!("input {}: {} JSON lines but {} MessagePack documents ({})", hex(bytes), lines, sn, j.describe()));
		}
	} else if j.ok() || lines > sn {
		out.fail("json_lines_eq_docs", "", format!("input {}: JSON {} but MessagePack {}", hex(bytes), j.describe(), s.describe()));
	}
}

/// One value through `transcode_stream` with the deserializer's depth counter
/// set to `depth` (>= 1): what xt's visitor and rmp_serde do with one document.
pub fn dec1_case(out: &mut Out, bytes: &[u8], depth: usize) {
	let mut written = vec![];
	let res = catch(|| {
		let mut de = rmp_serde::Deserializer::new(std::io::Cursor::new(bytes));
		de.set_max_depth(depth);
		let ser = &mut rmp_serde::Serializer::new(&mut written);
		let r = xt::verif::transcode_stream(ser, &mut de).map_err(|(_, text)| text);
		(r, de.position() as usize)
	});
	let answer = match res {
		Ok((Ok(()), pos)) => format!("ok:{pos}:{}", hex(&written)),
		Ok((Err(text), _)) => format!("err:{}", err_kind(&text)),
		Err(p) => format!("panic:{}", p.replace(' ', "_")),
	};
	out.count(&format!("msgdec1.{}", answer.split(':').take(2).collect::<Vec<_>>().join(".").split('.').take(if answer.starts_with("ok") { 1 } else { 2 }).collect::<Vec<_>>().join(".")));
	out.case("msgdec1", &format!("0 {depth} {}", hex(bytes)), &answer, true);
}

pub fn run_decode(out: &mut Out, rng: &mut Rng, thorough: bool) {
	let limit = xt::verif::MSGPACK_DEPTH_LIMIT;
	let plain = GenOpts { ext: false, any_keys: true, max_len: 300 };
	let with_ext = GenOpts { ext: true, any_keys: true, max_len: 40 };

	// 1. Streams of valid documents, every spelling; then truncated / mutated.
	let n_streams = if thorough { 5000 } else { 600 };
	for i in 0..n_streams {
		let docs = *rng.pick(&[0usize, 1, 1, 1, 2, 3, 5]);
		let mut bytes = vec![];
		for _ in 0..docs {
			let o = if i % 7 == 0 { with_ext } else { plain };
			let v = gen_value(rng, (i % 5) as u32, o);
			spell(&v, rng, i % 3 == 0, &mut bytes);
		}
		if bytes.len() > 4000 {
			continue;
		}
		decode_case(out, rng, &bytes);
		if !bytes.is_empty() {
			let d = *rng.pick(&[1usize, 2, 3, 4, 5, limit]);
			// first document alone at a small depth budget
			dec1_case(out, &bytes, d);
			if bytes.len() <= 40 || thorough && bytes.len() < 120 {
				for len in 1..bytes.len() {
					if thorough || len % 2 == 1 {
						decode_case(out, rng, &bytes[..len]);
					}
				}
			} else {
				for _ in 0..4 {
					let len = rng.below(bytes.len() as u64) as usize;
					decode_case(out, rng, &bytes[..len]);
				}
			}
			for _ in 0..(if thorough { 4 } else { 2 }) {
				let m = mutate(rng, &bytes);
				decode_case(out, rng, &m);
				dec1_case(out, &m, *rng.pick(&[1usize, 2, 3, limit]));
			}
		}
	}

	// 2. Every first byte alone and with tails.
	for b in 0..=255u8 {
		for tail in [&[][..], &[0x01], &[0x00, 0x01, 0xc0], &[0x00, 0x00, 0x00, 0x01, 0xc0, 0xc0], &[0xc3; 40]] {
			let mut v = vec![b];
			v.extend_from_slice(tail);
			decode_case(out, rng, &v);
			dec1_case(out, &v, 1);
			dec1_case(out, &v, 2);
		}
	}
	out.count("msgdecode.every_first_byte_x5_tails");

	// 3. Strings over the UTF-8 boundary pool, all 4 spellings, as value and as key.
	for s in STR_POOL {
		for extra in 0..4u32 {
			let mut v = vec![];
			put_len(&mut v, s.len(), Some((0xa0, 31)), Some(0xd9), 0xda, 0xdb, extra);
			v.extend_from_slice(s);
			decode_case(out, rng, &v);
			let mut m = vec![0x81];
			m.extend_from_slice(&v);
			m.push(0x01);
			decode_case(out, rng, &m);
		}
	}
	// every 1- and 2-byte string and a sample of 3- and 4-byte strings over
	// UTF-8 class representatives
	let reps: &[u8] = &[0x00, 0x41, 0x7f, 0x80, 0x8f, 0x90, 0x9f, 0xa0, 0xbf, 0xc0, 0xc1, 0xc2, 0xdf, 0xe0, 0xe1, 0xec, 0xed, 0xee, 0xef, 0xf0, 0xf1, 0xf3, 0xf4, 0xf5, 0xff];
	for len in 1..=4usize {
		let total = reps.len().pow(len as u32);
		for idx in 0..total {
			if len == 3 && !thorough && !rng.chance(1, 8) {
				continue;
			}
			if len == 4 && !rng.chance(1, if thorough { 40 } else { 400 }) {
				continue;
			}
			let mut k = idx;
			let mut v = vec![0xa0 | len as u8];
			for _ in 0..len {
				v.push(reps[k % reps.len()]);
				k /= reps.len();
			}
			dec1_case(out, &v, 1);
		}
	}
	out.count("msgdec1.utf8_class_exhaustive_len_1_2");

	// 4. Integer boundaries in every width.
	for &n in UINT_EDGES {
		for extra in 0..5u32 {
			for signed in [false, true] {
				let mut v = vec![];
				let widths: &[(u8, u8, u32)] = if signed { &[(0xd0, 1, 7), (0xd1, 2, 15), (0xd2, 4, 31), (0xd3, 8, 63)] } else { &[(0xcc, 1, 8), (0xcd, 2, 16), (0xce, 4, 32), (0xcf, 8, 64)] };
				if let Some((m, w, bits)) = widths.get(extra as usize) {
					if *bits < 64 && n >> bits != 0 {
						continue;
					}
					v.push(*m);
					v.extend_from_slice(&n.to_be_bytes()[8 - *w as usize..]);
					dec1_case(out, &v, 1);
				}
			}
		}
	}
	for &n in NINT_EDGES {
		for (m, w, min) in [(0xd0u8, 1usize, -128i64), (0xd1, 2, -32768), (0xd2, 4, -(1 << 31)), (0xd3, 8, i64::MIN)] {
			if n >= min {
				let mut v = vec![m];
				v.extend_from_slice(&n.to_be_bytes()[8 - w..]);
				dec1_case(out, &v, 1);
			}
		}
	}

	// 5. Nesting windows: every shape x every innermost value.
	for name in SHAPE_NAMES.iter() {
		for (_, core) in CORES.iter() {
			for n in (limit - 6)..=(limit + 6) {
				if !thorough && (n + name.len()) % 2 == 0 && (n < limit - 2 || n > limit + 1) {
					continue;
				}
				let ws = shape(name, n, rng);
				let bytes = nest(&ws, core, &[0xa1, 0x6b]);
				decode_case(out, rng, &bytes);
				if thorough {
					// two documents: a shallow one, then the deep one
					let mut two = vec![0x91, 0x01];
					two.extend_from_slice(&bytes);
					decode_case(out, rng, &two);
				}
			}
			for n in 0..=(if thorough { 8usize } else { 4 }) {
				let ws = shape(name, n, rng);
				let bytes = nest(&ws, core, &[0xc0]);
				for depth in n.max(1)..=n + 3 {
					dec1_case(out, &bytes, depth);
				}
				if n >= 2 {
					dec1_case(out, &bytes, n - 1);
				}
			}
		}
	}
	out.count("msgdecode.depth_window_8_shapes_x6_cores");

	// 6. Large counts with little data behind them.
	for &m in &[0xdcu8, 0xde] {
		for count in [0u16, 1, 2, 16, 0xffff] {
			for payload in [0usize, 1, 2, 5, 40] {
				let mut v = vec![m];
				v.extend_from_slice(&count.to_be_bytes());
				v.extend(std::iter::repeat(0x01).take(payload));
				decode_case(out, rng, &v);
			}
		}
	}
	for &m in &[0xddu8, 0xdf, 0xdb, 0xc6, 0xc9] {
		for count in [0u32, 1, 2, 17, 0x10000, 0xffff_ffff] {
			for payload in [0usize, 1, 2, 5, 40] {
				let mut v = vec![m];
				v.extend_from_slice(&count.to_be_bytes());
				v.extend(std::iter::repeat(0x01).take(payload));
				decode_case(out, rng, &v);
			}
		}
	}
	// real large collections and strings (header width boundaries of the encoder)
	for n in [15usize, 16, 17, 255, 256, 1000] {
		let mut v = vec![0xdd];
		v.extend_from_slice(&(n as u32).to_be_bytes());
		v.extend(std::iter::repeat(0x05).take(n));
		decode_case(out, rng, &v);
		let mut m = vec![0xdf];
		m.extend_from_slice(&(n as u32).to_be_bytes());
		m.extend(std::iter::repeat(0x05).take(2 * n));
		decode_case(out, rng, &m);
		let mut s = vec![0xdb];
		s.extend_from_slice(&(n as u32).to_be_bytes());
		s.extend(std::iter::repeat(0x61).take(n));
		decode_case(out, rng, &s);
		let mut b = vec![0xc6];
		b.extend_from_slice(&(n as u32).to_be_bytes());
		b.extend(std::iter::repeat(0xfe).take(n));
		decode_case(out, rng, &b);
	}
	for n in [65535usize, 65536] {
		let mut s = vec![0xdb];
		s.extend_from_slice(&(n as u32).to_be_bytes());
		s.extend(std::iter::repeat(0x61).take(n));
		decode_case(out, rng, &s);
	}
}
