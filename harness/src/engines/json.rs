//! Engine `json` / `jsonstr` / `jsonnum`: the JSON reader and compact writer
//! as xt drives them (JSON → JSON through `translate_slice` and
//! `translate_reader`), against the Lean model `Xt.Json`; plus the string and
//! number lexers against serde_json called directly, for the pieces xt's API
//! cannot isolate.
//!
//! Answers are canonical: verdicts are serde_json `ErrorCode` names (message
//! text mapped, positions dropped), documents are counted by the `\n` xt
//! writes after each, and output bytes are compared with every float token
//! replaced by the marker `F` (decimal text ↔ binary64 is not modelled).

use crate::gen::{gen_deep, gen_doc, mutate, to_json, GenOpts, Spelling, Val, NASTY_INTS, NASTY_STRINGS};
use crate::out::Out;
use crate::util::{hex, Rng};
use crate::xtapi::{translate, Fmt, Supply};

/// Maps an error message of xt / serde_json to the model's error name.
pub fn kind_of(msg: &str) -> String {
	const TABLE: &[(&str, &str)] = &[
		("EOF while parsing a list", "eofList"),
		("EOF while parsing an object", "eofObject"),
		("EOF while parsing a string", "eofString"),
		("EOF while parsing a value", "eofValue"),
		("expected `:`", "expectedColon"),
		("expected `,` or `]`", "expectedListCommaOrEnd"),
		("expected `,` or `}`", "expectedObjectCommaOrEnd"),
		("expected ident", "expectedIdent"),
		("expected value", "expectedValue"),
		("invalid escape", "invalidEscape"),
		("invalid number", "invalidNumber"),
		("number out of range", "numberOutOfRange"),
		("invalid unicode code point", "invalidUnicode"),
		("control character (\\u0000-\\u001F) found while parsing a string", "controlChar"),
		("key must be a string", "keyMustBeString"),
		("lone leading surrogate in hex escape", "loneSurrogate"),
		("trailing comma", "trailingComma"),
		("trailing characters", "trailingChars"),
		("unexpected end of hex escape", "unexpectedEndOfHexEscape"),
		("recursion limit exceeded", "recursionLimit"),
		("invalid utf-8 sequence", "utf8"),
		("incomplete utf-8 byte sequence", "utf8"),
	];
	for (prefix, name) in TABLE {
		if msg.starts_with(prefix) {
			return (*name).to_string();
		}
	}
	format!("other:{}", msg.replace(' ', "_"))
}

/// Replaces every float token of compact JSON text (a number token containing
/// `.`, `e` or `E`) by `F`. Strings are skipped with their escapes.
pub fn mark_floats(text: &[u8]) -> Vec<u8> {
	let mut out = Vec::with_capacity(text.len());
	let mut i = 0;
	while i < text.len() {
		let b = text[i];
		if b == b'"' {
			out.push(b);
			i += 1;
			while i < text.len() {
				let c = text[i];
				out.push(c);
				i += 1;
				if c == b'\\' && i < text.len() {
					out.push(text[i]);
					i += 1;
				} else if c == b'"' {
					break;
				}
			}
		} else if b == b'-' || b.is_ascii_digit() {
			let start = i;
			while i < text.len() && matches!(text[i], b'-' | b'+' | b'.' | b'e' | b'E' | b'0'..=b'9') {
				i += 1;
			}
			let tok = &text[start..i];
			if tok.iter().any(|c| matches!(c, b'.' | b'e' | b'E')) {
				out.push(b'F');
			} else {
				out.extend_from_slice(tok);
			}
		} else {
			out.push(b);
			i += 1;
		}
	}
	out
}

/// Known finding K1's input class, recognised with serde_json alone (mirror of
/// the model's `hasUnseparatedScalar`, tied to it by the `k1:` field of every
/// `json` case): some top-level value that does not start with `[`, `{` or `"`
/// is immediately followed by a byte that `peek_end_of_value` rejects.
pub fn has_unseparated_scalar(bytes: &[u8]) -> bool {
	let mut rest = bytes;
	loop {
		while let Some((b, tail)) = rest.split_first() {
			if matches!(b, b' ' | b'\n' | b'\t' | b'\r') {
				rest = tail;
			} else {
				break;
			}
		}
		let Some(&first) = rest.first() else { return false };
		// (`IgnoredAny` would skip the depth limit and the number range check,
		// so a real value is parsed.)
		let mut stream = serde_json::Deserializer::from_slice(rest).into_iter::<serde_json::Value>();
		match stream.next() {
			None => return false,
			Some(Ok(_)) => {
				rest = &rest[stream.byte_offset()..];
			}
			Some(Err(e)) => {
				// The value itself parsed iff the offset moved past the start
				// and the complaint is the end-of-value check.
				let end = stream.byte_offset();
				let self_delim = matches!(first, b'[' | b'{' | b'"');
				return !self_delim && end > 0 && end < rest.len() && e.to_string().starts_with("trailing characters") && {
					// Re-parse the prefix alone to make sure it is a complete value.
					serde_json::from_slice::<serde_json::Value>(&rest[..end]).is_ok()
				};
			}
		}
	}
}

fn verdict(r: &Result<(), String>) -> String {
	match r {
		Ok(()) => "ok".to_string(),
		Err(e) => kind_of(e),
	}
}

fn complete_lines(output: &[u8]) -> &[u8] {
	match output.iter().rposition(|&b| b == b'\n') {
		Some(i) => &output[..=i],
		None => &[],
	}
}

/// One `json` case: the input through both supply modes.
pub fn json_case(out: &mut Out, input: &[u8], class: &str) {
	let s = translate(input, &Supply::Slice, Some(Fmt::Json), Fmt::Json);
	let r = translate(input, &Supply::Reader(vec![]), Some(Fmt::Json), Fmt::Json);
	let sv = verdict(&s.result);
	let rv = verdict(&r.result);
	let sn = s.output.iter().filter(|&&b| b == b'\n').count();
	let rn = r.output.iter().filter(|&&b| b == b'\n').count();
	let rlines = complete_lines(&r.output);
	let k1 = has_unseparated_scalar(input);
	let answer = format!("slice:{sv}:{sn} reader:{rv}:{rn} k1:{} out:{}", u8::from(k1), hex(&mark_floats(rlines)));
	if k1 {
		out.count("json.k1_class");
	}
	out.case("json", &hex(input), &answer, rv == "ok" && rn > 0);
	out.count(&format!("json.class.{class}"));
	out.count(&format!("json.reader.{rv}"));
	out.count(&format!("json.slice.{sv}"));
	if (sv == "ok") != (rv == "ok") || (sv == "ok" && sn != rn) {
		out.count("json.slice_and_reader_differ");
		// Implementation-level form of `json_slice_eq_reader_partial`: the two
		// supply modes may only differ on K1's class.
		if !k1 {
			out.fail(
				"json_slice_eq_reader_outside_k1",
				"json-slice-vs-reader",
				format!("input={} slice={} reader={}", hex(input), s.describe(), r.describe()),
			);
		}
	}
	out.eval("json_slice_eq_reader_outside_k1", &hex(input), !k1 && rv == "ok");
	// The reader path does not depend on how the bytes arrive.
	if input.len() < 400 {
		let r1 = translate(input, &Supply::Reader(vec![1]), Some(Fmt::Json), Fmt::Json);
		let r3 = translate(input, &Supply::Reader(vec![3, 1, 7]), Some(Fmt::Json), Fmt::Json);
		out.eval("json_reader_schedule_independent", &hex(input), rv == "ok");
		if r1 != r || r3 != r {
			out.fail(
				"json_reader_schedule_independent",
				"json-reader-schedule",
				format!("input={} all-at-once={} one-byte={} mixed={}", hex(input), r.describe(), r1.describe(), r3.describe()),
			);
		}
	}
	// Implementation-level: what the slice path wrote is the first `sn`
	// documents of what the reader path wrote, byte for byte.
	out.eval("json_slice_output_is_prefix_of_reader_output", &hex(input), sn > 0);
	let slines = complete_lines(&s.output);
	if slines.len() != s.output.len() || !rlines.starts_with(slines) {
		out.fail(
			"json_slice_output_is_prefix_of_reader_output",
			"json-slice-output",
			format!("input={} slice={} reader={}", hex(input), s.describe(), r.describe()),
		);
	}
}

/// One `jsondetect` case: xt's JSON detection trial (`json::input_matches`)
/// through the verif hook in both supply modes, and serde_json's `IgnoredAny`
/// alone for the extent of the first value / the error kind.
pub fn jsondetect_case(out: &mut Out, input: &[u8], class: &str) {
	let tok = |r: std::io::Result<bool>| match r {
		Ok(true) => "1".to_string(),
		Ok(false) => "0".to_string(),
		Err(e) => format!("io:{}", e.to_string().replace(' ', "_")),
	};
	let slice = crate::util::catch(|| xt::verif::input_matches_slice(xt::Format::Json, input));
	let reader = crate::util::catch(|| {
		xt::verif::input_matches_reader(xt::Format::Json, crate::util::SchedReader::new(input, vec![], true, None))
	});
	let reader1 = crate::util::catch(|| {
		xt::verif::input_matches_reader(xt::Format::Json, crate::util::SchedReader::new(input, vec![1], true, None))
	});
	let st = slice.map(tok).unwrap_or_else(|p| format!("PANIC:{p}"));
	let rt = reader.map(tok).unwrap_or_else(|p| format!("PANIC:{p}"));
	let rt1 = reader1.map(tok).unwrap_or_else(|p| format!("PANIC:{p}"));
	let mut stream = serde_json::Deserializer::from_slice(input).into_iter::<serde::de::IgnoredAny>();
	let ign = match stream.next() {
		None => "err:eofValue".to_string(),
		Some(Ok(_)) => format!("ok:{}", stream.byte_offset()),
		Some(Err(e)) => {
			let k = kind_of(&e.to_string());
			if k == "trailingChars" {
				format!("ok:{}", stream.byte_offset())
			} else {
				format!("err:{k}")
			}
		}
	};
	out.count(&format!("jsondetect.class.{class}"));
	out.count(&format!("jsondetect.slice{st}_reader{rt}"));
	out.eval("json_trial_reader_schedule_independent", &hex(input), rt == "1");
	if rt1 != rt {
		out.fail("json_trial_reader_schedule_independent", "json-trial-schedule", format!("input={} all-at-once={rt} one-byte={rt1}", hex(input)));
	}
	out.case("jsondetect", &hex(input), &format!("slice:{st} reader:{rt} ign:{ign}"), rt == "1");
	if st != rt {
		// The trial differs between the supply modes (input that is not UTF-8:
		// the slice trial declines outright, the reader trial does not look
		// inside strings). Observe what that does to detection and to a
		// translation without an explicit source format.
		let ds = crate::xtapi::detect(input, &Supply::Slice);
		let dr = crate::xtapi::detect(input, &Supply::Reader(vec![]));
		let ts = translate(input, &Supply::Slice, None, Fmt::Json);
		let tr = translate(input, &Supply::Reader(vec![]), None, Fmt::Json);
		out.count(&format!(
			"jsondetect.trial_differs.detect_{}_vs_{}.translate_{}_vs_{}",
			ds.as_ref().map(|f| f.map_or("none", Fmt::name)).unwrap_or("err"),
			dr.as_ref().map(|f| f.map_or("none", Fmt::name)).unwrap_or("err"),
			if ts.ok() { "ok" } else { "err" },
			if tr.ok() { "ok" } else { "err" },
		));
		if ts.ok() != tr.ok() {
			out.sample(format!("trial differs AND verdict differs: input={} slice={} reader={}", hex(input), ts.describe(), tr.describe()));
		}
	}
}

/// One `jsonstr` case: a JSON string literal (with its quotes) read by
/// serde_json alone.
fn jsonstr_case(out: &mut Out, lit: &[u8]) {
	let answer = match serde_json::from_slice::<String>(lit) {
		Ok(s) => format!("ok:{}", hex(s.as_bytes())),
		Err(e) => format!("err:{}", kind_of(&e.to_string())),
	};
	let key = if answer.starts_with("ok") { "jsonstr.ok".to_string() } else { format!("jsonstr.{}", answer.replace(':', ".")) };
	out.count(&key);
	out.case("jsonstr", &hex(lit), &answer, answer.starts_with("ok"));
}

/// One `jsonnum` case: `[<text>]` read by serde_json alone.
fn jsonnum_case(out: &mut Out, text: &[u8]) {
	let mut doc = vec![b'['];
	doc.extend_from_slice(text);
	doc.push(b']');
	let answer = match serde_json::from_slice::<serde_json::Value>(&doc) {
		Ok(serde_json::Value::Array(a)) if a.len() == 1 => match &a[0] {
			serde_json::Value::Number(n) if n.is_u64() => format!("u64:{}", n.as_u64().unwrap()),
			serde_json::Value::Number(n) if n.is_i64() => format!("i64:{}", n.as_i64().unwrap()),
			// The literal is the input without surrounding whitespace.
			serde_json::Value::Number(_) => {
				let t: &[u8] = text;
				let is_ws = |b: &u8| matches!(b, b' ' | b'\n' | b'\t' | b'\r');
				let start = t.iter().position(|b| !is_ws(b)).unwrap_or(0);
				let end = t.iter().rposition(|b| !is_ws(b)).map_or(0, |i| i + 1);
				format!("float:{}", hex(&t[start..end]))
			}
			_ => "other".to_string(),
		},
		Ok(_) => "other".to_string(),
		Err(e) => format!("err:{}", kind_of(&e.to_string())),
	};
	let class = answer.split(':').next().unwrap_or("").to_string();
	let class = if class == "err" { answer.replace(':', ".") } else { class };
	out.count(&format!("jsonnum.{class}"));
	out.case("jsonnum", &hex(text), &answer, !answer.starts_with("err") && answer != "other");
}

/// `2^1024 − 2^970`: the smallest magnitude that rounds to infinity.
const F64_LIMIT: &str = "179769313486231580793728971405303415079934132710037826936173778980444968292764750946649017977587207096330286416692887910946555547851940402630657488671505820681908902000708383676273854845817711531764475730270069855571366959622842914819860834936475292719074168444365510704342711559699508093042880177904174497792";
/// One below it.
const F64_LIMIT_M1: &str = "179769313486231580793728971405303415079934132710037826936173778980444968292764750946649017977587207096330286416692887910946555547851940402630657488671505820681908902000708383676273854845817711531764475730270069855571366959622842914819860834936475292719074168444365510704342711559699508093042880177904174497791";

fn special_numbers() -> Vec<String> {
	let mut v: Vec<String> = [
		"0", "-0", "-0.0", "0.0", "00", "01", "-01", "-", "--1", "+1", ".5", "1.", "1.e5", "1e", "1e+", "1e-", "1E5", "1e5", "1e+5", "1e-5",
		"1.5", "1.5e", "1.5e3", "1.5E+3", "-1.5e-3", "0e0", "0e999999999999999999999", "0.000e99999999999", "1e999999999999999999999",
		"1e-999999999999999999999", "1e308", "1e309", "-1e309", "1.7976931348623157e308", "1.7976931348623158e308", "1.7976931348623159e308",
		"1.797693134862315807e308", "1.797693134862315808e308", "17976931348623158e292", "17976931348623159e292", "0.17976931348623158e309",
		"0.17976931348623159e309", "179769313486231580793728971405303415079934132710037826936173778980444968292764750946649017977587207096330286416692887910946555547851940402630657488671505820681908902000708383676273854845817711531764475730270069855571366959622842914819860834936475292719074168444365510704342711559699508093042880177904174497792e-1",
		"4.9e-324", "2e-324", "1e-400", "18446744073709551615", "18446744073709551616", "18446744073709551615.0", "18446744073709551615.5",
		"18446744073709551615e0", "184467440737095516150", "99999999999999999999", "-9223372036854775808", "-9223372036854775809",
		"-18446744073709551615", "-18446744073709551616", "9223372036854775807", "9223372036854775808", "1a", "1-", "1+", "1.5.5", "1e5e5", "1e5.5",
		"0x10", "1_000", "1,2", "1 2", " 1 ", "1.0e2147483647", "1.0e2147483648", "1.0e-2147483648", "1e4294967296", "0.1e2147483648",
		"123456789012345678901234567890", "1234567890123456789012345678901234567890e-10", "0.00000000000000000000000000000000000001",
		"1.00000000000000000000000000000000000001", "NaN", "Infinity", "-Infinity", "null", "true", "",
	]
	.iter()
	.map(|s| s.to_string())
	.collect();
	v.push(F64_LIMIT.to_string());
	v.push(F64_LIMIT_M1.to_string());
	v.push(format!("-{F64_LIMIT}"));
	v.push(format!("-{F64_LIMIT_M1}"));
	v.push(format!("{F64_LIMIT}.0"));
	v.push(format!("{F64_LIMIT_M1}.9999999999"));
	v.push(format!("{F64_LIMIT_M1}.9999999999e0"));
	v.push(format!("{}e-309", F64_LIMIT.to_string() + "0"));
	v.push(format!("0.{F64_LIMIT}e309"));
	v.push(format!("0.{F64_LIMIT_M1}e309"));
	v.push(format!("0.{F64_LIMIT}e310"));
	v.push(format!("{F64_LIMIT}000e-3"));
	v.push(format!("{F64_LIMIT_M1}999e-3"));
	v.push("1".to_string() + &"0".repeat(308));
	v.push("1".to_string() + &"0".repeat(309));
	v.push("0.".to_string() + &"0".repeat(400) + "1e709");
	v.push("0.".to_string() + &"0".repeat(400) + "1e710");
	for i in NASTY_INTS {
		for d in [-1i128, 0, 1] {
			v.push((i + d).to_string());
			v.push((-(i + d)).to_string());
		}
	}
	v
}

/// Every sequence of ≤ `max` symbols over `alphabet`.
fn sequences(alphabet: &[&[u8]], max: usize, f: &mut dyn FnMut(&[u8])) {
	fn go(alphabet: &[&[u8]], left: usize, cur: &mut Vec<u8>, f: &mut dyn FnMut(&[u8])) {
		f(cur);
		if left == 0 {
			return;
		}
		for a in alphabet {
			let n = cur.len();
			cur.extend_from_slice(a);
			go(alphabet, left - 1, cur, f);
			cur.truncate(n);
		}
	}
	go(alphabet, max, &mut vec![], f);
}

const TOKENS: &[&[u8]] = &[
	b"{", b"}", b"[", b"]", b",", b":", b"\"", b"a", b"\\", b"true", b"false", b"null", b"0", b"-1", b"1.5", b"1e5", b" ", b"\n", b"\x00", b"\x1f",
	b"\x7f", b"\x80", b"\xff", b"\xc3\xa9",
];

fn nest(n: usize, shape: usize, inner: &[u8], close: bool) -> Vec<u8> {
	let mut v = vec![];
	let mut closers = vec![];
	for i in 0..n {
		let array = match shape {
			0 => true,
			1 => false,
			2 => i % 2 == 0,
			_ => i % 3 != 0,
		};
		if array {
			v.push(b'[');
			closers.push(b']');
		} else {
			v.extend_from_slice(b"{\"k\":");
			closers.push(b'}');
		}
	}
	v.extend_from_slice(inner);
	if close {
		closers.reverse();
		v.extend_from_slice(&closers);
	}
	v
}

fn string_literals(rng: &mut Rng, thorough: bool) -> Vec<Vec<u8>> {
	let mut v: Vec<Vec<u8>> = vec![];
	let lit = |body: &[u8]| {
		let mut l = vec![b'"'];
		l.extend_from_slice(body);
		l.push(b'"');
		l
	};
	// Every byte raw, and every byte after a backslash.
	for b in 0..=255u8 {
		v.push(lit(&[b]));
		v.push(lit(&[b'\\', b]));
		v.push(lit(&[b'a', b, b'b']));
	}
	// \uXXXX over the 16-bit range.
	let step = if thorough { 1 } else { 0x101 };
	let mut u = 0u32;
	while u <= 0xFFFF {
		v.push(lit(format!("\\u{u:04x}").as_bytes()));
		u += step;
	}
	let edges = [
		0u32, 1, 0x1f, 0x20, 0x22, 0x5c, 0x7f, 0x80, 0x7ff, 0x800, 0xd7ff, 0xd800, 0xd801, 0xdbff, 0xdc00, 0xdc01, 0xdfff, 0xe000, 0xfffd, 0xfffe, 0xffff,
	];
	for a in edges {
		v.push(lit(format!("\\u{a:04X}").as_bytes()));
		v.push(lit(format!("x\\u{a:04x}y").as_bytes()));
		for b in edges {
			v.push(lit(format!("\\u{a:04x}\\u{b:04x}").as_bytes()));
			v.push(lit(format!("\\u{a:04x}\\u{b:04X}z").as_bytes()));
		}
		v.push(lit(format!("\\u{a:04x}\\n").as_bytes()));
		v.push(lit(format!("\\u{a:04x}\\").as_bytes()));
		v.push(lit(format!("\\u{a:04x}\\x").as_bytes()));
		v.push(lit(format!("\\u{a:04x}x").as_bytes()));
		v.push(lit(format!("\\u{a:04x}\\u12").as_bytes()));
		v.push(lit(format!("\\u{a:04x}\\uzzzz").as_bytes()));
	}
	// Hex digit spellings.
	for d in [b'0', b'9', b'a', b'f', b'A', b'F', b'g', b'G', b'/', b':', b'@', b'`', b' ', 0xff] {
		for pos in 0..4 {
			let mut h = *b"0041";
			h[pos] = d;
			let mut body = b"\\u".to_vec();
			body.extend_from_slice(&h);
			v.push(lit(&body));
		}
	}
	// Every truncation of a literal with all escape forms (no closing quote).
	let full = b"\"a\\\"\\\\\\/\\b\\f\\n\\r\\t\\u00e9\\ud83d\\ude00\xc3\xa9\xf0\x9f\x98\x80z\"";
	for n in 0..=full.len() {
		v.push(full[..n].to_vec());
	}
	// UTF-8 lead/continuation boundaries.
	let leads = [0xc0u8, 0xc1, 0xc2, 0xdf, 0xe0, 0xe1, 0xec, 0xed, 0xee, 0xef, 0xf0, 0xf1, 0xf3, 0xf4, 0xf5, 0xf8, 0xff, 0x80, 0xbf];
	let conts = [0x7fu8, 0x80, 0x8f, 0x90, 0x9f, 0xa0, 0xbf, 0xc0];
	for l in leads {
		v.push(lit(&[l]));
		for c1 in conts {
			v.push(lit(&[l, c1]));
			for c2 in [0x7fu8, 0x80, 0xbf, 0xc0] {
				v.push(lit(&[l, c1, c2]));
				for c3 in [0x7fu8, 0x80, 0xbf, 0xc0] {
					v.push(lit(&[l, c1, c2, c3]));
				}
			}
			// interplay with an escape right after an incomplete sequence
			v.push(lit(&[l, b'\\', b'u', b'0', b'0', b'8', b'0', c1]));
			v.push(lit(&[l, c1, b'\\', b'n']));
		}
	}
	// Generated strings in every spelling.
	for s in NASTY_STRINGS {
		for level in 0..3u8 {
			for salt in 0..3u64 {
				if let Some(t) = to_json(&Val::Str(s.to_string()), &Spelling { level, salt: salt.wrapping_mul(0x9E37_79B9) + u64::from(level) }) {
					v.push(t.into_bytes());
				}
			}
		}
	}
	let n = if thorough { 6000 } else { 800 };
	for _ in 0..n {
		let s = crate::gen::gen_string(rng, true);
		let sp = Spelling::random(rng);
		if let Some(t) = to_json(&Val::Str(s), &sp) {
			let t = t.into_bytes();
			if rng.chance(1, 4) {
				v.push(mutate(&t, rng));
			}
			v.push(t);
		}
	}
	// Trailing input after the literal.
	v.push(b"\"a\" ".to_vec());
	v.push(b"\"a\"\n\t\r ".to_vec());
	v.push(b"\"a\"x".to_vec());
	v.push(b"\"a\" \"b\"".to_vec());
	v.retain(|l| l.first() == Some(&b'"'));
	v
}

pub fn run(out: &mut Out, rng: &mut Rng, thorough: bool) {
	// ---- jsonstr
	for l in string_literals(rng, thorough) {
		jsonstr_case(out, &l);
	}
	out.count("jsonstr.exhaustive_every_raw_byte_every_escape_byte");
	if thorough {
		out.count("jsonstr.exhaustive_all_65536_u_escapes");
	}

	// ---- jsonnum
	let specials = special_numbers();
	for s in &specials {
		jsonnum_case(out, s.as_bytes());
	}
	let num_alphabet: &[&[u8]] = &[b"0", b"1", b"9", b"-", b"+", b".", b"e", b"E"];
	sequences(num_alphabet, if thorough { 6 } else { 5 }, &mut |s| jsonnum_case(out, s));
	out.count("jsonnum.exhaustive_sequences_over_0_1_9_minus_plus_dot_e_E");
	let n = if thorough { 20000 } else { 3000 };
	for _ in 0..n {
		// Random literals around the u64 / i64 / f64 decision points.
		let mut t = String::new();
		if rng.chance(1, 3) {
			t.push('-');
		}
		match rng.below(4) {
			0 => t.push_str(&rng.next().to_string()),
			1 => {
				let digits = rng.range(1, 25);
				for i in 0..digits {
					let d = if i == 0 { rng.range(1, 9) } else { rng.below(10) };
					t.push(char::from(b'0' + d as u8));
				}
			}
			2 => t.push_str(&(i128::from(rng.next()) + i128::from(rng.below(5)) - 2).to_string()),
			_ => t.push_str(&format!("{}", rng.below(1000))),
		}
		if rng.chance(1, 3) {
			t.push('.');
			for _ in 0..rng.range(0, 25) {
				t.push(char::from(b'0' + rng.below(10) as u8));
			}
		}
		if rng.chance(1, 3) {
			t.push(*rng.pick(&['e', 'E']));
			t.push_str(*rng.pick(&["", "+", "-"]));
			let e = match rng.below(4) {
				0 => rng.below(30),
				1 => rng.range(280, 330),
				2 => rng.range(0, 700),
				_ => rng.next() >> rng.below(60),
			};
			t.push_str(&e.to_string());
		}
		jsonnum_case(out, t.as_bytes());
	}

	// ---- hypotheses about the float boundary (`ExtFloat`), sampled on
	// serde_json itself: what it writes for a finite f64 contains no newline
	// (`NoNewline`), starts like a number and reads back as a float
	// (`FloatLit`, via the `jsonnum` correspondence on that text), reads back
	// to the same bits, and is written the same way again (`FmtParseFmt`).
	let mut bit_patterns: Vec<u64> = crate::gen::NASTY_F64_BITS.to_vec();
	for _ in 0..(if thorough { 20000 } else { 3000 }) {
		bit_patterns.push(crate::gen::gen_f64(rng, false));
	}
	for bits in bit_patterns {
		let x = f64::from_bits(bits);
		if !x.is_finite() {
			continue;
		}
		let text = serde_json::to_string(&x).unwrap_or_default();
		let back = serde_json::from_str::<f64>(&text);
		let again = back.as_ref().ok().and_then(|y| serde_json::to_string(y).ok());
		let head_ok = text.bytes().next().map_or(false, |b| b == b'-' || b.is_ascii_digit());
		let is_float_token = text.bytes().any(|b| matches!(b, b'.' | b'e' | b'E'));
		out.eval("ExtFloat.NoNewline+FloatLit.head+FmtParseFmt+RoundTrip", &text, true);
		if text.contains('\n') || !head_ok || !is_float_token || again.as_deref() != Some(text.as_str()) || back.ok().map(f64::to_bits) != Some(bits) {
			out.fail("ExtFloat_hypotheses", "extfloat", format!("bits={bits:016x} text={text} again={again:?}"));
		}
		jsonnum_case(out, text.as_bytes());
		out.count("hyp.ExtFloat.samples");
	}

	// ---- json: fixed specials
	for s in &specials {
		json_case(out, s.as_bytes(), "special_number");
		json_case(out, format!("[{s}]").as_bytes(), "special_number");
		jsondetect_case(out, s.as_bytes(), "special_number");
		jsondetect_case(out, format!("{{\"k\":{s}}}").as_bytes(), "special_number");
	}
	for s in [
		"truefalse", "true false", "truetrue", "nullnull", "null0", "0null", "1 2", "1\n2", "12", "1-2", "1,2", "1:2", "1]", "1}", "1[", "1{", "1\"a\"",
		"\"a\"1", "\"a\"\"b\"", "[]1", "1[]", "[][]", "{}{}", "[]{}", "true[", "true]", "true,", "true:", "true\"", "true#", "truex", "true/", "1.5x",
		"1e5x", "1x", "-1x", "nullx", "falsex", "true\u{a0}", "true\u{2028}", "tru", "nul", "fals", "t", "n", "f", "nulL", "True", "[1,]", "[,1]", "[1,,2]",
		"[1 2]", "[1", "[1,", "[", "{", "{\"a\"", "{\"a\":", "{\"a\":1", "{\"a\":1,", "{\"a\":1,}", "{,}", "{\"a\" 1}", "{\"a\":1 \"b\":2}", "{1:2}", "{\"a\":1,2}",
		"{null:1}", "{\"a\":1,\"a\":2}", "{\"a\":{\"a\":1,\"a\":2},\"a\":3}", "[1,2,3] [4]", "{} []", " ", "", "\n", "\t\r\n ", "\u{feff}1", "\u{feff}", "1\u{feff}",
		"\"\\ud800\"", "\"\\udc00\"", "\"\\ud800\\udc00\"", "\"\\ud800\\ud800\"", "\"\u{0}\"", "\"a\nb\"", "---\na: 1\n", "--- 1", "-", "--", "---", "- 1",
		"//c\n1", "/*c*/1", "'a'", "[1]x", "[1]1", "{}x", "\"a\"x", "1 x", "[1] x", "1\u{0}", "1\u{c}", "1\u{b}2",
	] {
		json_case(out, s.as_bytes(), "special_stream");
		jsondetect_case(out, s.as_bytes(), "special_stream");
	}
	for s in [
		"---\n- 1\n", "---\na: 1\n", "--- \"x\"\n", "---\n", "-1\n", "- 1", "a = 1\n", "\"\" = 1\n", "1 = 2\n", "true = 1\n", "[a]\nb = 1\n", "[[a]]\n",
		"\"\\ud800\"", "\"\\udc00\\ud800\"", "\"\\uZZZZ\"", "\"\\u12\"", "[\"\\ud800\"]", "{\"\\udfff\":1}", "[1e999]", "1e999", "-", "-x", "0x", "01", "1.", "1.x", "1e", "1e+", "1ex",
	] {
		jsondetect_case(out, s.as_bytes(), "detect_special");
	}
	for raw in [&b"\"\xff\""[..], b"[\"\xff\"]", b"{\"\xc3\":1}", b"\"\xed\xa0\x80\"", b"[1,\"\xf0\x9f\"]", b"\xff", b"[\xff]", b"\xef\xbb\xbf1", b"\"a\xc3\xa9\""] {
		jsondetect_case(out, raw, "detect_non_utf8");
	}
	for b in 0..=255u8 {
		json_case(out, &[b], "single_byte");
		json_case(out, &[b'1', b], "scalar_then_byte");
		json_case(out, &[b't', b'r', b'u', b'e', b, b'1'], "scalar_then_byte");
		json_case(out, &[b'[', b']', b, b'1'], "collection_then_byte");
		json_case(out, &[b'"', b, b'"'], "byte_in_string");
		json_case(out, &[b'[', b'1', b, b'2', b']'], "byte_in_array");
		jsondetect_case(out, &[b], "single_byte");
		jsondetect_case(out, &[b'"', b, b'"'], "byte_in_string");
		jsondetect_case(out, &[b'"', b'\\', b, b'"'], "byte_after_backslash");
		jsondetect_case(out, &[b'[', b'1', b, b'2', b']'], "byte_in_array");
		jsondetect_case(out, &[b'{', b'"', b'k', b'"', b, b'1', b'}'], "byte_as_colon");
		jsondetect_case(out, &[b'1', b], "scalar_then_byte");
	}
	out.count("json.exhaustive_every_byte_after_scalar_after_collection_in_string_in_array");

	// ---- json: every sequence of ≤ N tokens
	let max = 4;
	sequences(TOKENS, max, &mut |s| {
		json_case(out, s, "token_sequence");
		jsondetect_case(out, s, "token_sequence");
	});
	out.count(&format!("json.exhaustive_token_sequences_up_to_{max}_over_{}_tokens", TOKENS.len()));
	if thorough {
		// A sample of the 5- and 6-token sequences.
		for _ in 0..300000 {
			let mut s = vec![];
			for _ in 0..rng.range(5, 6) {
				s.extend_from_slice(*rng.pick::<&[u8]>(TOKENS));
			}
			json_case(out, &s, "token_sequence_5_6_sampled");
		}
	}

	// ---- json: nesting windows
	for n in 120..=135 {
		for shape in 0..4 {
			for inner in [&b"1"[..], b"[]", b"{}", b"\"s\"", b"true", b""] {
				json_case(out, &nest(n, shape, inner, true), "nesting");
				jsondetect_case(out, &nest(n, shape, inner, true), "nesting");
			}
			jsondetect_case(out, &nest(n, shape, b"1", false), "nesting_unclosed");
			json_case(out, &nest(n, shape, b"1", false), "nesting_unclosed");
			// the limit is per document
			let mut two = nest(n, shape, b"1", true);
			two.push(b'\n');
			two.extend_from_slice(&nest(n.min(127), shape, b"2", true));
			json_case(out, &two, "nesting_two_documents");
			// siblings do not add up
			let mut sib = b"[".to_vec();
			sib.extend_from_slice(&nest(n - 1, shape, b"1", true));
			sib.push(b',');
			sib.extend_from_slice(&nest(n - 1, shape, b"2", true));
			sib.push(b']');
			json_case(out, &sib, "nesting_siblings");
		}
	}

	for n in [200usize, 1000, 5000] {
		for shape in 0..4 {
			// the detection trial has no depth limit (and does not recurse)
			jsondetect_case(out, &nest(n, shape, b"1", true), "nesting_deep");
		}
	}

	// ---- json: generated documents in every spelling
	let opts = GenOpts::cdm().for_formats(&[Fmt::Json]);
	let n = if thorough { 6000 } else { 700 };
	let mut texts: Vec<Vec<u8>> = vec![];
	for i in 0..n {
		let deep = rng.range(1, 64) as usize;
		let v = if i % 10 == 9 { gen_deep(rng, &opts, deep) } else { gen_doc(rng, &opts) };
		for level in 0..3u8 {
			let sp = Spelling { level, salt: rng.next() };
			if let Some(t) = to_json(&v, &sp) {
				json_case(out, t.as_bytes(), "generated_document");
				jsondetect_case(out, t.as_bytes(), "generated_document");
				texts.push(t.into_bytes());
			}
		}
	}
	for s in NASTY_STRINGS {
		for level in 0..3u8 {
			let sp = Spelling { level, salt: rng.next() };
			let v = Val::Map(vec![(Val::Str(s.to_string()), Val::Seq(vec![Val::Str(s.to_string())]))]);
			if let Some(t) = to_json(&v, &sp) {
				json_case(out, t.as_bytes(), "nasty_string");
				texts.push(t.into_bytes());
			}
		}
	}
	for i in NASTY_INTS {
		for d in [-1i128, 0, 1] {
			let t = format!("{{\"n\":[{},{}]}}", i + d, -(i + d));
			json_case(out, t.as_bytes(), "nasty_int");
		}
	}

	// ---- json: multi-document streams with every separator, including none
	let seps: &[&[u8]] = &[b"\n", b" ", b"", b"\t", b"\r\n", b"\n\n", b" \n ", b",", b":", b"\x0c", b"\x00", b"\xc2\xa0", b"#", b"]", b"}"];
	let n = if thorough { 3000 } else { 500 };
	for _ in 0..n {
		let k = rng.range(2, 5) as usize;
		let docs: Vec<&Vec<u8>> = (0..k).map(|_| rng.pick(&texts)).collect();
		let sep = *rng.pick(seps);
		let mut s = vec![];
		for (i, d) in docs.iter().enumerate() {
			if i > 0 {
				s.extend_from_slice(sep);
			}
			s.extend_from_slice(d);
		}
		if rng.chance(1, 2) {
			s.extend_from_slice(*rng.pick(seps));
		}
		json_case(out, &s, "stream");
	}
	// Scalars back to back with every separator (K1 lives here).
	let scalars: &[&[u8]] = &[b"true", b"false", b"null", b"0", b"-1", b"1.5", b"1e5", b"12", b"\"s\"", b"[]", b"{}", b"[1]", b"{\"a\":1}"];
	for a in scalars {
		for b in scalars {
			for sep in seps {
				let mut s = a.to_vec();
				s.extend_from_slice(sep);
				s.extend_from_slice(b);
				json_case(out, &s, "scalar_pair");
			}
		}
	}
	out.count("json.exhaustive_13x13_value_pairs_x_15_separators");

	// ---- json: mutated / truncated documents
	let n = if thorough { 20000 } else { 3000 };
	for _ in 0..n {
		let t = rng.pick(&texts).clone();
		let m = mutate(&t, rng);
		json_case(out, &m, "mutated");
		jsondetect_case(out, &m, "mutated");
	}
	for _ in 0..(if thorough { 400 } else { 60 }) {
		let t = rng.pick(&texts).clone();
		if t.len() <= 200 {
			for k in 0..t.len() {
				json_case(out, &t[..k], "every_truncation");
				jsondetect_case(out, &t[..k], "every_truncation");
			}
		}
	}
}
